(* C09 — the model over a real closed field: bridge from the list model to MathComp column vectors,
   the re-orthogonalisation step, and the per-column loop invariants (orthonormality; for a symmetric
   linear closure the three-term / Arnoldi relation). *)
From mathcomp Require Import all_ssreflect all_algebra.
From mathcomp Require Import zify.
Require Import C09.Model C09.ProofsGen.
Set Implicit Arguments.
Unset Strict Implicit.
Unset Printing Implicit Defensive.
Import Order.Theory GRing.Theory Num.Theory.
Local Open Scope ring_scope.

Arguments qset : simpl never.
Arguments tset : simpl never.
Arguments qrow : simpl never.
Arguments trow : simpl never.
Arguments tget : simpl never.
Arguments reorth : simpl never.
Arguments inner_products : simpl never.
Arguments lz_r : simpl never.
Arguments lz_alpha : simpl never.
Arguments lz_r2 : simpl never.
Arguments cnorm : simpl never.
Arguments cdiv : simpl never.
Arguments cdot : simpl never.
Arguments csub : simpl never.

Section Alg.
Variable F : rcfType.

(* the exact-arithmetic instance of the arithmetic record *)
Definition ArR : Arith F :=
  MkArith 0 1 +%R (fun x y => x - y) *%R (fun x y => x / y) Num.sqrt Num.norm
          (fun x y => x < y) (fun x y => x <= y).

Lemma sumn_big (f : nat -> F) k : sumn_ ArR f k = \sum_(l < k) f l.
Proof. by elim: k => [|k IH] /=; [rewrite big_ord0 | rewrite big_ord_recr /= IH]. Qed.

Section Vec.
Variable n : nat.

(* dot product of column vectors *)
Definition dotv (u v : 'cV[F]_n) : F := (u^T *m v) ord0 ord0.

Lemma dotvE u v : dotv u v = \sum_i u i ord0 * v i ord0.
Proof. by rewrite /dotv mxE; apply: eq_bigr => i _; rewrite !mxE. Qed.
Lemma dotvC u v : dotv u v = dotv v u.
Proof. by rewrite !dotvE; apply: eq_bigr => i _; rewrite mulrC. Qed.
Lemma dotvDl u w v : dotv (u + w) v = dotv u v + dotv w v.
Proof. by rewrite /dotv linearD /= mulmxDl mxE. Qed.
Lemma dotvNl u v : dotv (- u) v = - dotv u v.
Proof. by rewrite /dotv linearN /= mulNmx mxE. Qed.
Lemma dotvBl u w v : dotv (u - w) v = dotv u v - dotv w v.
Proof. by rewrite dotvDl dotvNl. Qed.
Lemma dotvZl a u v : dotv (a *: u) v = a * dotv u v.
Proof. by rewrite /dotv linearZ /= -scalemxAl mxE. Qed.
Lemma dotv0l v : dotv 0 v = 0.
Proof. by rewrite /dotv trmx0 mul0mx mxE. Qed.
Lemma dotvDr u v w : dotv u (v + w) = dotv u v + dotv u w.
Proof. by rewrite dotvC dotvDl !(dotvC u). Qed.
Lemma dotvNr u v : dotv u (- v) = - dotv u v.
Proof. by rewrite dotvC dotvNl dotvC. Qed.
Lemma dotvBr u v w : dotv u (v - w) = dotv u v - dotv u w.
Proof. by rewrite dotvDr dotvNr. Qed.
Lemma dotvZr a u v : dotv u (a *: v) = a * dotv u v.
Proof. by rewrite dotvC dotvZl dotvC. Qed.
Lemma dotv0r u : dotv u 0 = 0.
Proof. by rewrite dotvC dotv0l. Qed.
Lemma dotv_suml I (r : seq I) (P : pred I) (f : I -> 'cV[F]_n) v :
  dotv (\sum_(i <- r | P i) f i) v = \sum_(i <- r | P i) dotv (f i) v.
Proof. by elim/big_rec2: _ => [|i y x _ <-]; rewrite ?dotv0l ?dotvDl. Qed.
Lemma dotv_sumr I (r : seq I) (P : pred I) (f : I -> 'cV[F]_n) u :
  dotv u (\sum_(i <- r | P i) f i) = \sum_(i <- r | P i) dotv u (f i).
Proof. by rewrite dotvC dotv_suml; apply: eq_bigr => i _; rewrite dotvC. Qed.
Lemma dotv_ge0 u : 0 <= dotv u u.
Proof. by rewrite dotvE; apply: sumr_ge0 => i _; rewrite -expr2 sqr_ge0. Qed.
Lemma dotv_mulmx_sym (M : 'M[F]_n) u v : M^T = M -> dotv (M *m u) v = dotv u (M *m v).
Proof. by move=> HM; rewrite /dotv trmx_mul HM mulmxA. Qed.
Lemma dotv_eq0 u : (dotv u u == 0) = (u == 0).
Proof.
apply/idP/idP => [|/eqP->]; last by rewrite dotv0l.
rewrite dotvE psumr_eq0 => [/allP H|i _]; last by rewrite -expr2 sqr_ge0.
apply/eqP/colP => i; rewrite mxE; apply/eqP.
by have := H i (mem_index_enum i); rewrite /= -expr2 sqrf_eq0.
Qed.

(* ---------------- one full re-orthogonalisation against an orthonormal family q_0 .. q_k *)
Section Step.
Variables (k : nat) (q : nat -> 'cV[F]_n).
Hypothesis ON : forall i j, (i <= k)%N -> (j <= k)%N -> dotv (q i) (q j) = (i == j)%:R.

Definition proj (r : 'cV[F]_n) : 'cV[F]_n := r - \sum_(i < k.+1) dotv r (q i) *: q i.

Lemma proj_orth r j : (j <= k)%N -> dotv (q j) (proj r) = 0.
Proof.
move=> hj; rewrite /proj dotvBr dotv_sumr.
have hj' : (j < k.+1)%N by [].
rewrite (bigD1 (Ordinal hj')) //= big1 => [|i ij].
  by rewrite addr0 dotvZr ON // eqxx mulr1 (dotvC r) subrr.
rewrite dotvZr ON //; last by rewrite -ltnS.
have /negbTE-> : (j != i :> nat) by apply: contraNneq ij => E; apply/eqP/val_inj.
by rewrite mulr0.
Qed.

(* a vector that is already orthogonal to the family is left unchanged *)
Lemma proj_id r : (forall j, (j <= k)%N -> dotv (q j) r = 0) -> proj r = r.
Proof.
move=> H; rewrite /proj big1 ?subr0 // => i _.
by rewrite dotvC H ?scale0r // -ltnS.
Qed.

Lemma normalize_unit (r : 'cV[F]_n) :
  dotv r r != 0 -> dotv ((Num.sqrt (dotv r r))^-1 *: r) ((Num.sqrt (dotv r r))^-1 *: r) = 1.
Proof.
move=> H; rewrite dotvZl dotvZr mulrA -invfM -expr2 sqr_sqrtr ?dotv_ge0 //.
by rewrite mulVf.
Qed.

Lemma sqrt_dotv_neq0 (r : 'cV[F]_n) : (Num.sqrt (dotv r r) != 0) = (dotv r r != 0).
Proof.
by rewrite sqrtr_eq0 -ltNge lt_neqAle dotv_ge0 andbT eq_sym.
Qed.

End Step.
End Vec.

(* ---------------------------------------------------------------------------------------------- *)
(* bridge: the column-wise tensor operations of the model on column vectors *)
Section Bridge.
Variables (n C : nat).

Definition cv (X : cols F) (c : nat) : 'cV[F]_n := \col_i vget ArR (cget X c) i.

Lemma cv_csub X Y c : (c < C)%N -> cv (csub ArR n C X Y) c = cv X c - cv Y c.
Proof. by move=> hc; apply/colP => i; rewrite !mxE vget_ctab. Qed.

Lemma cv_cscale_l s X c : (c < C)%N -> cv (cscale_l ArR n C s X) c = vget ArR s c *: cv X c.
Proof. by move=> hc; apply/colP => i; rewrite !mxE vget_ctab. Qed.

Lemma cv_cscale_r s X c : (c < C)%N -> cv (cscale_r ArR n C X s) c = vget ArR s c *: cv X c.
Proof. by move=> hc; apply/colP => i; rewrite !mxE vget_ctab //= mulrC. Qed.

Lemma cv_cdiv s X c : (c < C)%N -> cv (cdiv ArR n C X s) c = (vget ArR s c)^-1 *: cv X c.
Proof. by move=> hc; apply/colP => i; rewrite !mxE vget_ctab //= mulrC. Qed.

Lemma dot_dotv (x y : vec F) :
  dot ArR n x y = dotv (\col_(i < n) vget ArR x i) (\col_(i < n) vget ArR y i).
Proof. by rewrite /dot sumn_big dotvE; apply: eq_bigr => i _; rewrite !mxE. Qed.

Lemma vget_cdot X Y c : (c < C)%N -> vget ArR (cdot ArR n C X Y) c = dotv (cv X c) (cv Y c).
Proof. by move=> hc; rewrite /cdot vget_mkseq // dot_dotv. Qed.

Lemma vget_cnorm X c : (c < C)%N -> vget ArR (cnorm ArR n C X) c = Num.sqrt (dotv (cv X c) (cv X c)).
Proof. by move=> hc; rewrite /cnorm vget_mkseq // /norm2 dot_dotv. Qed.

Lemma cv_reorth qm k R c : (c < C)%N ->
  cv (reorth ArR n C qm k R) c = proj k (fun i => cv (qrow qm i) c) (cv R c).
Proof.
move=> hc; rewrite /reorth cv_csub // /proj; congr (_ - _).
apply/colP => x; rewrite mxE vget_ctab // sumn_big summxE.
apply: eq_bigr => i _; rewrite /reorth_coef nth_mkseq // vget_mkseq // dot_dotv !mxE /= mulrC.
by congr (_ * _).
Qed.

Lemma vget_inner qm k R i c : (i <= k)%N -> (c < C)%N ->
  vget ArR (nth [::] (inner_products ArR n C qm k R) i) c = dotv (cv (qrow qm i) c) (cv R c).
Proof. by move=> hi hc; rewrite /inner_products nth_mkseq // vget_cdot. Qed.

Lemma cv_lz_r (mm : cols F -> cols F) qm tm k c : (c < C)%N ->
  cv (lz_r ArR n C mm qm tm k) c = cv (mm (qrow qm k)) c - tget ArR tm k k.-1 c *: cv (qrow qm k.-1) c.
Proof. by move=> hc; rewrite /lz_r cv_csub // cv_cscale_r. Qed.

Lemma vget_lz_alpha qm k r c : (c < C)%N ->
  vget ArR (lz_alpha ArR n C qm k r) c = dotv (cv (qrow qm k) c) (cv r c).
Proof. by move=> hc; rewrite /lz_alpha vget_cdot. Qed.

Lemma cv_lz_r2 qm k r alpha c : (c < C)%N ->
  cv (lz_r2 ArR n C qm k r alpha) c
  = proj k (fun i => cv (qrow qm i) c) (cv r c - vget ArR alpha c *: cv (qrow qm k) c).
Proof. by move=> hc; rewrite /lz_r2 cv_reorth // cv_csub // cv_cscale_l. Qed.

End Bridge.

(* ---------------------------------------------------------------------------------------------- *)
(* one column c of the state through the loop *)
Section Column.
Variables (n C num_iter : nat) (mm : cols F -> cols F) (tol : F -> bool) (brk : F) (n_extra : nat).
Variable c : nat.
Hypothesis hc : (c < C)%N.

(* the bridge lemmas specialised to column c (no side conditions left) *)
Lemma Ecsub X Y : cv n (csub ArR n C X Y) c = cv n X c - cv n Y c.
Proof. exact: cv_csub. Qed.
Lemma Ecscale_l s X : cv n (cscale_l ArR n C s X) c = vget ArR s c *: cv n X c.
Proof. exact: cv_cscale_l. Qed.
Lemma Ecscale_r s X : cv n (cscale_r ArR n C X s) c = vget ArR s c *: cv n X c.
Proof. exact: cv_cscale_r. Qed.
Lemma Ecdiv s X : cv n (cdiv ArR n C X s) c = (vget ArR s c)^-1 *: cv n X c.
Proof. exact: cv_cdiv. Qed.
Lemma Ecdot X Y : vget ArR (cdot ArR n C X Y) c = dotv (cv n X c) (cv n Y c).
Proof. exact: vget_cdot. Qed.
Lemma Ecnorm X : vget ArR (cnorm ArR n C X) c = Num.sqrt (dotv (cv n X c) (cv n X c)).
Proof. exact: vget_cnorm. Qed.
Lemma Ereorth qm k R : cv n (reorth ArR n C qm k R) c = proj k (fun i => cv n (qrow qm i) c) (cv n R c).
Proof. exact: cv_reorth. Qed.
Lemma Einner qm k R i : (i <= k)%N ->
  vget ArR (nth [::] (inner_products ArR n C qm k R) i) c = dotv (cv n (qrow qm i) c) (cv n R c).
Proof. by move=> hi; exact: vget_inner. Qed.
Lemma Elz_r qm tm k :
  cv n (lz_r ArR n C mm qm tm k) c = cv n (mm (qrow qm k)) c - tget ArR tm k k.-1 c *: cv n (qrow qm k.-1) c.
Proof. exact: cv_lz_r. Qed.
Lemma Elz_alpha qm k r : vget ArR (lz_alpha ArR n C qm k r) c = dotv (cv n (qrow qm k) c) (cv n r c).
Proof. exact: vget_lz_alpha. Qed.
Lemma Elz_r2 qm k r alpha :
  cv n (lz_r2 ArR n C qm k r alpha) c
  = proj k (fun i => cv n (qrow qm i) c) (cv n r c - vget ArR alpha c *: cv n (qrow qm k) c).
Proof. exact: cv_lz_r2. Qed.

Notation body := (lz_body ArR n C num_iter mm tol brk n_extra).
Notation loop := (lz_loop ArR n C num_iter mm tol brk n_extra).

Definition qv (st : lz_state F) (i : nat) : 'cV[F]_n := cv n (qrow st.1 i) c.
Definition al (st : lz_state F) (j : nat) : F := tget ArR st.2 j j c.
Definition be (st : lz_state F) (j : nat) : F := tget ArR st.2 j j.+1 c.

(* the first w Lanczos vectors of column c are orthonormal *)
Definition ON (w : nat) (st : lz_state F) :=
  forall i j, (i < w)%N -> (j < w)%N -> dotv (qv st i) (qv st j) = (i == j)%:R.
(* no breakdown before vector w: the betas that were divided by are non-zero *)
Definition G (w : nat) (st : lz_state F) := forall j, (j.+1 < w)%N -> be st j != 0.

(* the extra re-orthogonalisation passes leave a column that is already a unit vector orthogonal to
   q_0 .. q_k unchanged, however many passes the other columns trigger *)
Lemma extra_passes_col fuel qm k R ip (r : 'cV[F]_n) :
  (forall i j, (i <= k)%N -> (j <= k)%N ->
     dotv (cv n (qrow qm i) c) (cv n (qrow qm j) c) = (i == j)%:R) ->
  cv n R c = r -> dotv r r = 1 -> (forall j, (j <= k)%N -> dotv (cv n (qrow qm j) c) r = 0) ->
  cv n (extra_passes ArR n C tol fuel qm k R ip).1 c = r.
Proof.
move=> Hon; elim: fuel R ip => [|f IH] R ip HR H1 H0 //=.
case: ifP => _ //=.
apply: IH => //.
by rewrite Ecdiv Ecnorm Ereorth HR proj_id // H1 sqrtr1 invr1 scale1r.
Qed.

(* the quantities of one loop body for column c (lines 107-121) *)
Definition s_w (k : nat) (st : lz_state F) : 'cV[F]_n := cv n (mm (qrow st.1 k)) c.   (* matmul_closure(q_curr) *)
Definition s_r k st : 'cV[F]_n := s_w k st - tget ArR st.2 k k.-1 c *: qv st k.-1.        (* 107 *)
Definition s_a k st : F := dotv (qv st k) (s_r k st).                                      (* 108 *)
Definition s_r1 k st : 'cV[F]_n := s_r k st - s_a k st *: qv st k.                         (* 115 *)
Definition s_r2 k st : 'cV[F]_n := proj k (qv st) (s_r1 k st).                             (* 117-119 *)
Definition s_b k st : F := Num.sqrt (dotv (s_r2 k st) (s_r2 k st)).                        (* 120 *)
Definition s_r3 k st : 'cV[F]_n := (s_b k st)^-1 *: s_r2 k st.                             (* 121 *)

Lemma body_frame_q k st i : i != k.+1 -> qrow (body k st).1.1 i = qrow st.1 i.
Proof.
case: st => qm tm /= hi; rewrite /lz_body.
case: ifP => _ //=.
case: (extra_passes _ _ _ _ _ _ _ _ _) => r4 could /=.
by rewrite qrow_qset (negbTE hi).
Qed.

Lemma body_frame_t k st i j c' :
  ~~ [|| (i == k) && (j == k), (i == k) && (j == k.+1) | (i == k.+1) && (j == k)] ->
  tget ArR (body k st).1.2 i j c' = tget ArR st.2 i j c'.
Proof.
case: st => qm tm /=; rewrite !negb_or => /and3P[/negbTE h1 /negbTE h2 /negbTE h3]; rewrite /lz_body.
case: ifP => _ /=; last by rewrite tget_tset h1.
case: (extra_passes _ _ _ _ _ _ _ _ _) => r4 could /=.
by rewrite !tget_tset h1 h2 h3.
Qed.

Lemma kSk k : (k == k.+1) = false.
Proof. by apply/negbTE; rewrite neq_ltn leqnn. Qed.
Lemma Skk k : (k.+1 == k) = false.
Proof. by rewrite eq_sym kSk. Qed.

Lemma body_alpha k st : al (body k st).1 k = s_a k st.
Proof.
case: st => qm tm; rewrite /al /s_a /s_r /s_w /qv /lz_body /=.
case: ifP => _ /=.
  case: (extra_passes _ _ _ _ _ _ _ _ _) => r4 could /=.
  by rewrite !tget_tset !eqxx ?Skk ?kSk /= Elz_alpha Elz_r.
by rewrite tget_tset !eqxx /= Elz_alpha Elz_r.
Qed.

Lemma body_beta k st : (k.+1 < num_iter)%N -> be (body k st).1 k = s_b k st.
Proof.
case: st => qm tm hk; rewrite /be /s_b /s_r2 /s_r1 /s_a /s_r /s_w /qv /lz_body /= hk.
case: (extra_passes _ _ _ _ _ _ _ _ _) => r4 could /=.
rewrite !tget_tset !eqxx ?Skk ?kSk /=.
by rewrite Ecnorm Elz_r2 Elz_alpha Elz_r.
Qed.

Lemma body_newq k st :
  (k.+1 < num_iter)%N -> ON k.+1 st -> s_b k st != 0 -> qv (body k st).1 k.+1 = s_r3 k st.
Proof.
case: st => qm tm hk Hon Hb.
rewrite /qv /lz_body /= hk.
set r := lz_r _ _ _ _ _ _ _.
set alpha := lz_alpha _ _ _ _ _ _.
set r2 := lz_r2 _ _ _ _ _ _ _.
set r3 := cdiv _ _ _ r2 _.
have HR3 : cv n r3 c = s_r3 k (qm, tm).
  rewrite /s_r3 /s_b /s_r2 /s_r1 /s_a /s_r /s_w /qv /= /r3 Ecdiv Ecnorm.
  by rewrite /r2 Elz_r2 /alpha Elz_alpha /r Elz_r.
have Hon' : forall i j, (i <= k)%N -> (j <= k)%N ->
     dotv (cv n (qrow qm i) c) (cv n (qrow qm j) c) = (i == j)%:R.
  by move=> i j hi hj; apply: Hon.
have Hb' : dotv (s_r2 k (qm, tm)) (s_r2 k (qm, tm)) != 0 by rewrite -sqrt_dotv_neq0.
have := @extra_passes_col n_extra qm k r3 (inner_products ArR n C qm k r3) (s_r3 k (qm, tm)) Hon' HR3.
case: (extra_passes _ _ _ _ _ _ _ _ _) => r4 could /= H.
rewrite qrow_qset eqxx; apply: H.
- by rewrite /s_r3 /s_b; exact: normalize_unit.
- by move=> j hj; rewrite /s_r3 dotvZr (proj_orth Hon') ?mulr0.
Qed.

(* orthonormality is carried from w = k+1 to w = k+2 vectors *)
Lemma ON_step k st :
  (k.+1 < num_iter)%N -> ON k.+1 st -> s_b k st != 0 -> ON k.+2 (body k st).1.
Proof.
move=> hk Hon Hb.
have Hon' : forall i j, (i <= k)%N -> (j <= k)%N -> dotv (qv st i) (qv st j) = (i == j)%:R.
  by move=> i j hi hj; apply: Hon.
have Hb' : dotv (s_r2 k st) (s_r2 k st) != 0 by rewrite -sqrt_dotv_neq0.
have Hold i : (i <= k)%N -> qv (body k st).1 i = qv st i.
  by move=> hi; rewrite /qv body_frame_q //; lia.
have Hnew := body_newq hk Hon Hb.
have Hunit : dotv (s_r3 k st) (s_r3 k st) = 1 by rewrite /s_r3 /s_b; exact: normalize_unit.
have Horth j : (j <= k)%N -> dotv (qv st j) (s_r3 k st) = 0.
  by move=> hj; rewrite /s_r3 dotvZr /s_r2 (proj_orth Hon') ?mulr0.
move=> i j hi hj.
have [Ei|Ni] := eqVneq i k.+1; have [Ej|Nj] := eqVneq j k.+1.
- by rewrite Ei Ej Hnew Hunit eqxx.
- have hj' : (j <= k)%N by lia.
  rewrite Ei Hnew Hold // dotvC Horth //.
  by have /negbTE-> : k.+1 != j by lia.
- have hi' : (i <= k)%N by lia.
  rewrite Ej Hnew Hold // Horth //.
  by have /negbTE-> : i != k.+1 by lia.
- have hi' : (i <= k)%N by lia.
  have hj' : (j <= k)%N by lia.
  by rewrite !Hold //; apply: Hon.
Qed.

Lemma ON_frame k st w : (w <= k.+1)%N -> ON w st -> ON w (body k st).1.
Proof.
move=> hw Hon i j hi hj.
have -> : qv (body k st).1 i = qv st i by rewrite /qv body_frame_q //; lia.
have -> : qv (body k st).1 j = qv st j by rewrite /qv body_frame_q //; lia.
exact: Hon.
Qed.

Lemma be_frame k st j : (j < k)%N -> be (body k st).1 j = be st j.
Proof. by move=> hj; rewrite /be body_frame_t //; lia. Qed.

(* the loop invariant for orthonormality and its consequence at the exit *)
Lemma loop_ON fuel k st :
  (0 < fuel)%N -> (k + fuel = num_iter)%N -> (0 < k)%N ->
  (G k.+1 st -> ON k.+1 st) ->
  let r := loop fuel k st in G r.2.+1 r.1 -> ON r.2.+1 r.1.
Proof.
move=> f0 Hk k0 H.
have := @lz_loop_rule _ ArR n C num_iter mm tol brk n_extra
          (fun k st => G k.+1 st -> ON k.+1 st) (fun k st _ => G k.+1 st -> ON k.+1 st) _ fuel k st f0 Hk k0 H.
case; last by move=> b [].
move=> k' st' k0' kn' HP; split.
  move=> HG; apply: ON_frame => //; apply: HP => j hj.
  by rewrite -(@be_frame k' st') //; exact: HG.
move=> hk HG.
have HG' : G k'.+1 st' by move=> j hj; rewrite -(@be_frame k' st') //; apply: HG; lia.
apply: ON_step => //; first exact: HP.
by rewrite -(body_beta st' hk); apply: HG.
Qed.

(* lines 80-97 for column c *)
Definition i_v (init : cols F) : 'cV[F]_n := cv n init c.
Definition i_q0 init : 'cV[F]_n := (Num.sqrt (dotv (i_v init) (i_v init)))^-1 *: i_v init.
Definition i_w init : 'cV[F]_n := cv n (mm (cdiv ArR n C init (cnorm ArR n C init))) c.
Definition i_a init : F := dotv (i_q0 init) (i_w init).
Definition i_r1 init : 'cV[F]_n := i_w init - i_a init *: i_q0 init.
Definition i_b init : F := Num.sqrt (dotv (i_r1 init) (i_r1 init)).

Notation st0 := (lz_init ArR n C num_iter mm).

Lemma init_q0 init : qv (st0 init) 0 = i_q0 init.
Proof. by rewrite /qv /lz_init /= !qrow_qset /= Ecdiv Ecnorm. Qed.

Lemma init_alpha init : al (st0 init) 0 = i_a init.
Proof.
rewrite /al /lz_init /= !tget_tset /= Ecdot /i_a /i_w /i_q0 /i_v.
by rewrite Ecdiv Ecnorm.
Qed.

Lemma init_beta init : be (st0 init) 0 = i_b init.
Proof.
rewrite /be /lz_init /= !tget_tset /= Ecnorm Ecsub Ecscale_l.
by rewrite Ecdot /i_b /i_r1 /i_a /i_w /i_q0 /i_v Ecdiv Ecnorm.
Qed.

Lemma init_q1 init : qv (st0 init) 1 = (i_b init)^-1 *: i_r1 init.
Proof.
rewrite /qv /lz_init /= !qrow_qset /= Ecdiv Ecnorm Ecsub Ecscale_l.
by rewrite Ecdot /i_b /i_r1 /i_a /i_w /i_q0 /i_v Ecdiv Ecnorm.
Qed.

Lemma init_ON init : i_v init != 0 -> G 2 (st0 init) -> ON 2 (st0 init).
Proof.
move=> Hv HG.
have Hb : i_b init != 0 by rewrite -init_beta; exact: HG.
have Hvv : dotv (i_v init) (i_v init) != 0 by rewrite dotv_eq0.
have H00 : dotv (i_q0 init) (i_q0 init) = 1 by exact: normalize_unit.
have Hr1 : dotv (i_q0 init) (i_r1 init) = 0.
  by rewrite /i_r1 dotvBr dotvZr H00 mulr1 /i_a subrr.
have Hb' : dotv (i_r1 init) (i_r1 init) != 0 by rewrite -sqrt_dotv_neq0.
have H11 : dotv ((i_b init)^-1 *: i_r1 init) ((i_b init)^-1 *: i_r1 init) = 1 by exact: normalize_unit.
have H01 : dotv (i_q0 init) ((i_b init)^-1 *: i_r1 init) = 0 by rewrite dotvZr Hr1 mulr0.
move=> [|[|i]] [|[|j]] // _ _.
- by rewrite init_q0 H00.
- by rewrite init_q1 init_q0 H01.
- by rewrite init_q1 init_q0 dotvC H01.
- by rewrite init_q1 H11.
Qed.

(* the state in which the repaired source stops after the first step *)
Notation sts := (lz_init_stop ArR n C num_iter mm).

Lemma stop_q0 init : qv (sts init) 0 = i_q0 init.
Proof. by rewrite /qv /lz_init_stop /= qrow_qset /= Ecdiv Ecnorm. Qed.

Lemma stop_alpha init : al (sts init) 0 = i_a init.
Proof.
rewrite /al /lz_init_stop /= tget_tset /= Ecdot /i_a /i_w /i_q0 /i_v.
by rewrite Ecdiv Ecnorm.
Qed.

Lemma q0_unit init : i_v init != 0 -> dotv (i_q0 init) (i_q0 init) = 1.
Proof. by move=> Hv; apply: normalize_unit; rewrite dotv_eq0. Qed.

Lemma stop_ON init : i_v init != 0 -> ON 1 (sts init).
Proof. by move=> Hv [|i] [|j] // _ _; rewrite stop_q0 q0_unit. Qed.

Lemma init_ON1 init : i_v init != 0 -> ON 1 (st0 init).
Proof. by move=> Hv [|i] [|j] // _ _; rewrite init_q0 q0_unit. Qed.

Lemma beta0_col init : vget ArR (lz_beta0 ArR n C mm init) c = i_b init.
Proof.
rewrite /lz_beta0 Ecnorm Ecsub Ecscale_l.
by rewrite Ecdot /i_b /i_r1 /i_a /i_w /i_q0 /i_v Ecdiv Ecnorm.
Qed.

(* the entries of a symmetric banded t_mat in terms of its diagonal (al) and super-diagonal (be) *)
Lemma T_entry st i j : t_sym ArR st.2 -> t_band ArR st.2 ->
  tget ArR st.2 i j c = (if i.+1 == j then be st i else 0) + (if i == j then al st j else 0)
                        + (if i == j.+1 then be st j else 0).
Proof.
move=> Hs Hb.
have [E1|N1] := eqVneq i.+1 j.
  have /negbTE-> : i != j by lia.
  have /negbTE-> : i != j.+1 by lia.
  by rewrite !addr0 -E1.
have [E2|N2] := eqVneq i j; first by rewrite E2 kSk add0r addr0.
have [E3|N3] := eqVneq i j.+1; first by rewrite E3 !add0r Hs.
by rewrite !addr0 Hb //; lia.
Qed.

(* ---------------- the three-term (Arnoldi) relation for a symmetric linear closure ---------------- *)
Section Sym.
Variable Am : 'M[F]_n.
Hypothesis mm_lin : forall X, cv n (mm X) c = Am *m cv n X c.
Hypothesis Am_sym : Am^T = Am.

(* A q_j = beta_{j-1} q_{j-1} + alpha_j q_j + beta_j q_{j+1}  for the first w - 1 vectors *)
Definition AR (w : nat) (st : lz_state F) :=
  forall j, (j.+1 < w)%N ->
    Am *m qv st j = (if j is j'.+1 then be st j' *: qv st j' else 0) + al st j *: qv st j + be st j *: qv st j.+1.

Lemma s_wE k st : s_w k st = Am *m qv st k.
Proof. by rewrite /s_w mm_lin. Qed.

Lemma AR_dot k st i : (0 < k)%N -> ON k.+1 st -> AR k.+1 st -> (i < k)%N ->
  dotv (qv st k) (Am *m qv st i) = if i.+1 == k then be st i else 0.
Proof.
move=> k0 Hon Har hi; rewrite Har ?ltnS // !dotvDr !dotvZr.
have kk : (k < k.+1)%N by [].
have ik : (i < k.+1)%N by lia.
have iSk : (i.+1 < k.+1)%N by lia.
have /negbTE Nki : k != i by lia.
have E1 : dotv (qv st k) (qv st i) = 0 by rewrite Hon // Nki.
have E2 : dotv (qv st k) (qv st i.+1) = (i.+1 == k)%:R by rewrite Hon // eq_sym.
have E3 : dotv (qv st k) (if i is j'.+1 then be st j' *: qv st j' else 0) = 0.
  case: i hi ik {Har iSk E1 E2 Nki} => [|i'] hi ik; first by rewrite dotv0r.
  have ik' : (i' < k.+1)%N by lia.
  have /negbTE Nki' : k != i' by lia.
  by rewrite dotvZr Hon // Nki' mulr0.
rewrite E1 E2 E3 mulr0 !add0r.
by case: ifP => _; rewrite ?mulr1 ?mulr0.
Qed.

(* with a symmetric closure the correction of the full re-orthogonalisation vanishes *)
Lemma s_r1_orth k st i :
  (0 < k)%N -> t_sym ArR st.2 -> ON k.+1 st -> AR k.+1 st -> (i <= k)%N -> dotv (qv st i) (s_r1 k st) = 0.
Proof.
move=> k0 Hs Hon Har hi.
have kk : (k < k.+1)%N by [].
have ik : (i < k.+1)%N by lia.
have pk : (k.-1 < k.+1)%N by lia.
have Ebp : tget ArR st.2 k k.-1 c = be st k.-1 by rewrite Hs /be prednK.
rewrite /s_r1 /s_a /s_r s_wE Ebp.
have [Ei|Ni] := eqVneq i k.
  by rewrite Ei dotvBr dotvZr Hon // eqxx mulr1 subrr.
have hi' : (i < k)%N by lia.
rewrite !dotvBr !dotvZr (dotvC _ (Am *m _)) dotv_mulmx_sym // (AR_dot k0 Hon Har hi').
rewrite (Hon i k) // (negbTE Ni) mulr0 subr0 (Hon i k.-1) //.
have -> : (i == k.-1) = (i.+1 == k) by lia.
case: eqP => [E|_]; last by rewrite mulr0 subrr.
by rewrite -E /= mulr1 subrr.
Qed.

Lemma s_r2_r1 k st :
  (0 < k)%N -> t_sym ArR st.2 -> ON k.+1 st -> AR k.+1 st -> s_r2 k st = s_r1 k st.
Proof. by move=> k0 Hs Hon Har; apply: proj_id => j hj; exact: s_r1_orth. Qed.

Lemma s_aE k st : (0 < k)%N -> t_sym ArR st.2 -> ON k.+1 st -> s_a k st = dotv (qv st k) (Am *m qv st k).
Proof.
move=> k0 Hs Hon.
have kk : (k < k.+1)%N by [].
have pk : (k.-1 < k.+1)%N by lia.
have /negbTE Nk : k != k.-1 by lia.
by rewrite /s_a /s_r s_wE dotvBr dotvZr Hon // Nk mulr0 subr0.
Qed.

Lemma al_frame k st j : (j < k)%N -> al (body k st).1 j = al st j.
Proof. by move=> hj; rewrite /al body_frame_t //; lia. Qed.

Lemma qv_frame k st j : (j <= k)%N -> qv (body k st).1 j = qv st j.
Proof. by move=> hj; rewrite /qv body_frame_q //; lia. Qed.

Lemma AR_frame k st w : (w <= k.+1)%N -> AR w st -> AR w (body k st).1.
Proof.
move=> hw Har j hj.
have h1 : (j <= k)%N by lia.
have h2 : (j.+1 <= k)%N by lia.
have h3 : (j < k)%N by lia.
rewrite !qv_frame // al_frame // be_frame // Har //; congr (_ + _ + _).
case: j hj h1 h2 h3 => [|j'] hj h1 h2 h3 //.
have h4 : (j' < k)%N by lia.
have h5 : (j' <= k)%N by lia.
by rewrite be_frame // qv_frame.
Qed.

Lemma AR_step k st :
  (0 < k)%N -> (k.+1 < num_iter)%N -> t_sym ArR st.2 -> ON k.+1 st -> AR k.+1 st -> s_b k st != 0 ->
  AR k.+2 (body k st).1.
Proof.
move=> k0 hk Hs Hon Har Hb j; rewrite ltnS => hj.
have [Ej|Nj] := eqVneq j k; last first.
  have hj' : (j.+1 < k.+1)%N by lia.
  exact: (AR_frame (leqnn _) Har).
rewrite Ej qv_frame // body_alpha body_beta // (body_newq hk Hon Hb).
rewrite /s_r3 scalerA divff // scale1r (s_r2_r1 k0 Hs Hon Har) /s_r1 /s_r s_wE.
case: k k0 {hk Ej hj Hb Hon Har} => [//|k'] _ /=.
rewrite be_frame; last by lia.
rewrite qv_frame; last by lia.
rewrite Hs -/(be st k').
by rewrite -[_ - _ - _]addrA -opprD addrC subrK.
Qed.

(* one loop body maintains the invariant of the projection theorem *)
Lemma body_AR_inv k st :
  (0 < k)%N -> t_sym ArR st.2 -> (G k.+1 st -> ON k.+1 st /\ AR k.+1 st) ->
  [/\ t_sym ArR (body k st).1.2,
      (G k.+1 (body k st).1 ->
         [/\ ON k.+1 (body k st).1, AR k.+1 (body k st).1
            & al (body k st).1 k = dotv (qv (body k st).1 k) (Am *m qv (body k st).1 k)]) &
      ((k.+1 < num_iter)%N -> G k.+2 (body k st).1 -> ON k.+2 (body k st).1 /\ AR k.+2 (body k st).1)].
Proof.
move=> k0 Hs HP.
have Hs' : t_sym ArR (body k st).1.2 by exact: body_sym.
have HGf : G k.+1 (body k st).1 -> G k.+1 st.
  by move=> HG j hj; rewrite -(@be_frame k st) //; exact: HG.
split=> //.
  move=> HG; have [Hon Har] := HP (HGf HG).
  split; [exact: ON_frame | exact: AR_frame |].
  by rewrite body_alpha qv_frame // s_aE.
move=> hk HG.
have HG' : G k.+1 (body k st).1 by move=> j hj; apply: HG; lia.
have [Hon Har] := HP (HGf HG').
have Hb : s_b k st != 0 by rewrite -(body_beta st hk); apply: HG.
by split; [exact: ON_step | exact: AR_step].
Qed.

(* the invariant of the projection theorem and what holds at the exit *)
Lemma loop_AR fuel k st :
  (0 < fuel)%N -> (k + fuel = num_iter)%N -> (0 < k)%N ->
  t_sym ArR st.2 /\ (G k.+1 st -> ON k.+1 st /\ AR k.+1 st) ->
  let r := loop fuel k st in
  t_sym ArR r.1.2 /\ (G r.2.+1 r.1 -> [/\ ON r.2.+1 r.1, AR r.2.+1 r.1 & al r.1 r.2 = dotv (qv r.1 r.2) (Am *m qv r.1 r.2)]).
Proof.
move=> f0 Hk k0 H.
have := @lz_loop_rule _ ArR n C num_iter mm tol brk n_extra
          (fun k st => (0 < k)%N /\ t_sym ArR st.2 /\ (G k.+1 st -> ON k.+1 st /\ AR k.+1 st))
          (fun k st _ => t_sym ArR st.2 /\ (G k.+1 st -> [/\ ON k.+1 st, AR k.+1 st & al st k = dotv (qv st k) (Am *m qv st k)]))
          _ fuel k st f0 Hk k0 (conj k0 H).
case; last by move=> b [].
move=> k' st' _ kn' [k0' [Hs HP]].
have [H1 H2 H3] := body_AR_inv k0' Hs HP.
by split=> // hk; split=> //; split=> //; exact: H3.
Qed.

(* the residual A q_k - beta_{k-1} q_{k-1} - alpha_k q_k after the body of iteration k *)
Lemma rho_body k st : (0 < k)%N ->
  Am *m qv (body k st).1 k - tget ArR (body k st).1.2 k k.-1 c *: qv (body k st).1 k.-1
    - al (body k st).1 k *: qv (body k st).1 k = s_r1 k st.
Proof.
move=> k0; rewrite !qv_frame //; last by lia.
rewrite body_alpha body_frame_t; last by lia.
by rewrite /s_r1 /s_r s_wE.
Qed.

Notation st0 := (lz_init ArR n C num_iter mm).

Lemma init_AR init : i_v init != 0 -> G 2 (st0 init) -> AR 2 (st0 init).
Proof.
move=> Hv HG [|j] // _.
have Hb : i_b init != 0 by rewrite -init_beta; exact: HG.
rewrite init_q0 init_alpha init_beta init_q1 add0r [i_b init *: _]scalerA divff // scale1r /i_r1.
have -> : Am *m i_q0 init = i_w init.
  by rewrite /i_w mm_lin Ecdiv Ecnorm.
by rewrite addrC subrK.
Qed.

Lemma A_q0 init : Am *m i_q0 init = i_w init.
Proof. by rewrite /i_w mm_lin Ecdiv Ecnorm. Qed.

Lemma stop_al init :
  al (lz_init_stop ArR n C num_iter mm init) 0
  = dotv (qv (lz_init_stop ArR n C num_iter mm init) 0) (Am *m qv (lz_init_stop ArR n C num_iter mm init) 0).
Proof. by rewrite stop_alpha stop_q0 A_q0. Qed.

End Sym.

End Column.

(* ---------------------------------------------------------------------------------------------- *)
(* the exits of the loop (lines 131-147) in exact arithmetic, all columns together *)
Section Exit.
Variables (n C num_iter : nat) (mm : cols F -> cols F) (tol : F -> bool) (brk : F) (n_extra : nat).
Variable Am : nat -> 'M[F]_n.
Hypothesis mm_lin : forall c X, (c < C)%N -> cv n (mm X) c = Am c *m cv n X c.
Hypothesis Am_sym : forall c, (c < C)%N -> (Am c)^T = Am c.
Hypothesis tol0 : tol 0 = false.            (* the extra-pass test is not triggered by an inner product that is 0 *)
Hypothesis extra_gt0 : (0 < n_extra)%N.

Notation body := (lz_body ArR n C num_iter mm tol brk n_extra).
Notation loop := (lz_loop ArR n C num_iter mm tol brk n_extra).

(* residual of the three-term relation of vector k in column c:  A q_k - beta_{k-1} q_{k-1} - alpha_k q_k *)
Definition rho (c k : nat) (st : lz_state F) : 'cV[F]_n :=
  Am c *m qv n c st k - tget ArR st.2 k k.-1 c *: qv n c st k.-1 - al c st k *: qv n c st k.

Lemma all_mkseq (T : Type) (p : pred T) (f : nat -> T) m : (forall i, (i < m)%N -> p (f i)) -> all p (mkseq f m).
Proof. by move=> H; rewrite /mkseq all_map; apply/allP => i; rewrite mem_iota add0n /= => hi; exact: H. Qed.

Lemma extra_none qm k R ip : ~~ any_gt tol ip -> extra_passes ArR n C tol n_extra qm k R ip = (R, true).
Proof. by case: n_extra extra_gt0 => // f _ /= ->. Qed.

Lemma body_r3_col c k qm tm : (c < C)%N ->
  let r := lz_r ArR n C mm qm tm k in let alpha := lz_alpha ArR n C qm k r in
  let r2 := lz_r2 ArR n C qm k r alpha in
  cv n (cdiv ArR n C r2 (cnorm ArR n C r2)) c = s_r3 n mm c k (qm, tm)
  /\ vget ArR (cnorm ArR n C r2) c = s_b n mm c k (qm, tm).
Proof.
move=> hc /=; rewrite /s_r3 /s_b /s_r2 /s_r1 /s_a /s_r /s_w /qv /=.
by rewrite (cv_cdiv _ _ _ hc) !(vget_cnorm _ _ hc) (cv_lz_r2 _ _ _ _ _ hc) (vget_lz_alpha _ _ _ _ hc) (cv_lz_r _ _ _ _ _ hc).
Qed.

(* with exact arithmetic no extra pass is ever needed: the `break` is taken iff all betas are small *)
Lemma body_break k st :
  (k.+1 < num_iter)%N -> (forall c, (c < C)%N -> ON n c k.+1 st) ->
  (body k st).2 -> forall c, (c < C)%N -> `|s_b n mm c k st| <= brk.
Proof.
case: st => qm tm hk Hon; rewrite /lz_body hk.
set r := lz_r _ _ _ _ _ _ _; set alpha := lz_alpha _ _ _ _ _ _; set r2 := lz_r2 _ _ _ _ _ _ _.
set r3 := cdiv _ _ _ r2 _.
have Hip : ~~ any_gt tol (inner_products ArR n C qm k r3).
  rewrite /any_gt -all_predC /inner_products; apply: all_mkseq => i hi /=.
  rewrite -all_predC /cdot; apply: all_mkseq => c hc /=.
  have [E3 _] := @body_r3_col c k qm tm hc.
  rewrite dot_dotv -/(cv n (qrow qm i) c) -/(cv n r3 c) /r3 /r2 /alpha /r E3 /s_r3 dotvZr.
  have Hon' : forall i j, (i <= k)%N -> (j <= k)%N ->
       dotv (qv n c (qm, tm) i) (qv n c (qm, tm) j) = (i == j)%:R.
    by move=> i' j' hi' hj'; apply: Hon.
  by rewrite /s_r2 (proj_orth Hon') // mulr0 tol0.
rewrite (extra_none _ _ _ Hip) /= orbF => Hb c hc.
have [_ Eb] := @body_r3_col c k qm tm hc.
rewrite -Eb leNgt; apply: contra Hb => Hlt.
apply/hasP; exists (vget ArR (cnorm ArR n C r2) c) => //.
by rewrite /vget mem_nth // size_mkseq.
Qed.

Lemma body_break_lt k st : (body k st).2 -> (k.+1 < num_iter)%N.
Proof. by case: st => qm tm; rewrite /lz_body; case: ifP. Qed.

Lemma sqr_le_brk (x : F) : 0 <= x -> `|x| <= brk -> x ^+ 2 <= brk ^+ 2.
Proof.
move=> x0 Hx; have xb : x <= brk by rewrite -(ger0_norm x0).
by rewrite -(ger0_norm x0) -[brk]ger0_norm ?ler_sqr ?(le_trans x0 xb) // ?nnegrE ?normr_ge0 // !ger0_norm ?(le_trans x0 xb).
Qed.

(* early exit: in every column the residual of the last three-term relation has norm <= the threshold *)
Lemma loop_exit fuel k st :
  (0 < fuel)%N -> (k + fuel = num_iter)%N -> (0 < k)%N ->
  (forall c, (c < C)%N -> t_sym ArR st.2 /\ (G c k.+1 st -> ON n c k.+1 st /\ @AR n c (Am c) k.+1 st)) ->
  let r := loop fuel k st in
  (forall c, (c < C)%N -> G c r.2.+1 r.1) -> (r.2.+1 < num_iter)%N ->
  forall c, (c < C)%N -> dotv (rho c r.2 r.1) (rho c r.2 r.1) <= brk ^+ 2.
Proof.
move=> f0 Hk k0 H.
have := @lz_loop_rule _ ArR n C num_iter mm tol brk n_extra
  (fun k st => (0 < k)%N /\ forall c, (c < C)%N ->
       t_sym ArR st.2 /\ (G c k.+1 st -> ON n c k.+1 st /\ @AR n c (Am c) k.+1 st))
  (fun k st b => b -> (forall c, (c < C)%N -> G c k.+1 st) ->
       forall c, (c < C)%N -> dotv (rho c k st) (rho c k st) <= brk ^+ 2)
  _ fuel k st f0 Hk k0 (conj k0 H).
case.
  move=> k' st' _ kn' [k0' HP]; split; last first.
    move=> hk; split=> // c hc; have [Hs HPc] := HP c hc.
    have [H1 _ H3] := body_AR_inv num_iter tol brk n_extra hc (fun X => mm_lin X hc) (Am_sym hc) k0' Hs HPc.
    by split=> //; exact: H3.
  move=> Hb HG c hc.
  have hk := body_break_lt Hb.
  have HGf c' : (c' < C)%N -> G c' k'.+1 st'.
    by move=> hc' j hj; rewrite -(be_frame n num_iter mm tol brk n_extra hc' (k:=k') st') //; exact: HG.
  have Hon c' : (c' < C)%N -> ON n c' k'.+1 st'.
    by move=> hc'; have [_ HPc] := HP c' hc'; have [] := HPc (HGf c' hc').
  have Hbrk := body_break hk Hon Hb hc.
  have [Hs HPc] := HP c hc; have [Honc Harc] := HPc (HGf c hc).
  rewrite /rho (rho_body num_iter tol brk n_extra hc (fun X => mm_lin X hc) st' k0').
  rewrite -(s_r2_r1 hc (fun X => mm_lin X hc) (Am_sym hc) k0' Hs Honc Harc).
  have -> : dotv (s_r2 n mm c k' st') (s_r2 n mm c k' st') = (s_b n mm c k' st') ^+ 2.
    by rewrite /s_b sqr_sqrtr // dotv_ge0.
  by apply: sqr_le_brk => //; rewrite /s_b sqrtr_ge0.
move=> b [Hpost Hb _] /= HG hlt c hc.
apply: Hpost => //.
case: b Hb => //= /eqP E.
by rewrite E ltnn in hlt.
Qed.

End Exit.

(* ---------------------------------------------------------------------------------------------- *)
(* the returned matrices *)
Definition mx_of (m n : nat) (M : mat F) : 'M[F]_(m, n) := \matrix_(i, j) mget ArR M i j.

(* flat column of the leading index idx = j * B + b of the result (line 153 / 155: permute) *)
Definition col_of (B nvec idx : nat) : nat := ((idx %% B) * nvec + idx %/ B)%N.

Lemma col_of_lt B nvec idx : (idx < nvec * B)%N -> (col_of B nvec idx < B * nvec)%N.
Proof.
move=> h; rewrite /col_of.
have B0 : (0 < B)%N by case: B h => //; rewrite muln0.
have h1 : (idx %% B < B)%N by rewrite ltn_pmod.
have h2 : (idx %/ B < nvec)%N by rewrite ltn_divLR.
nia.
Qed.

Lemma col_of_surj B nvec c : (c < B * nvec)%N ->
  exists2 idx, (idx < nvec * B)%N & col_of B nvec idx = c.
Proof.
move=> hc.
have nv0 : (0 < nvec)%N by case: nvec hc => //; rewrite muln0.
have B0 : (0 < B)%N by case: B hc.
have h1 : (c %% nvec < nvec)%N by rewrite ltn_pmod.
have h2 : (c %/ nvec < B)%N by rewrite ltn_divLR // mulnC.
exists ((c %% nvec) * B + c %/ nvec)%N; first by nia.
have E1 : (((c %% nvec) * B + c %/ nvec) %% B = c %/ nvec)%N by rewrite modnMDl modn_small.
have E2 : (((c %% nvec) * B + c %/ nvec) %/ B = c %% nvec)%N by rewrite divnMDl // divn_small // addn0.
by rewrite /col_of E1 E2 -divn_eq.
Qed.

Lemma sum_pick (m a : nat) (f : nat -> F) :
  \sum_(i < m) (if (i : nat) == a then f i else 0) = if (a < m)%N then f a else 0.
Proof.
case: ltnP => [ha|ha].
  rewrite (bigD1 (Ordinal ha)) //= eqxx big1 ?addr0 // => i Ni.
  by case: eqP => // E; case/negP: Ni; apply/eqP/val_inj.
by rewrite big1 // => i _; case: eqP => // E; move: (ltn_ord i); rewrite E ltnNge ha.
Qed.

Lemma col_mul (m n p : nat) (j : 'I_p) (A : 'M[F]_(m, n)) (B : 'M[F]_(n, p)) :
  col j (A *m B) = A *m col j B.
Proof. by rewrite !colE mulmxA. Qed.

Lemma mulmx_entry_dotv (n m : nat) (M N : 'M[F]_(n, m)) (A : 'M[F]_n) i j :
  (M^T *m A *m N) i j = dotv (col i M) (A *m col j N).
Proof. by rewrite /dotv tr_col mulmxA -col_mul -!row_mul !mxE. Qed.

Section Final.
Variable g : lz_args F.
Variable o : lz_out F.
Variables (nvec : nat) (init : cols F).
Hypothesis Hrun : lanczos_tridiag ArR g = Ok o.
Hypothesis Hstart : lz_start g = Ok (nvec, init).

Let n := g_n g.
Let B := prodn (g_batch g).
Let C := (B * nvec)%N.
Let num_iter := minn (g_max_iter g) n.
Let r := lz_final ArR g nvec init.
Let m := r.2.+1.
Notation loopr := (lz_loop ArR n C num_iter (g_mm g) (lz_gt ArR g) (g_brk g) (g_extra g) num_iter.-1 1
                           (lz_init ArR n C num_iter (g_mm g) init)).
Notation stopr := (lz_init_stop ArR n C num_iter (g_mm g) init).

Lemma final_facts :
  [/\ ((if g_first_guard g then 0 else 1) < num_iter)%N, o_m o = m,
      o_Q o = mkseq (fun idx => mtab n m (fun x i => vget ArR (qget r.1.1 i (col_of B nvec idx)) x)) (nvec * B) &
      o_T o = mkseq (fun idx => mtab m m (fun i j => tget ArR r.1.2 i j (col_of B nvec idx))) (nvec * B)].
Proof.
have [nvec' [init' /= [Hs Hn Ho]]] := lanczos_tridiag_ok Hrun.
move: Hs; rewrite Hstart => -[E1 E2]; rewrite -E1 -E2 in Hn Ho.
by rewrite Ho.
Qed.

(* either the repaired source stopped after the first step, or the loop ran *)
Lemma final_cases :
  (lz_stop ArR g nvec init /\ r = (stopr, 0%N))
  \/ [/\ ~~ lz_stop ArR g nvec init, (1 < num_iter)%N & r = loopr].
Proof. by have [Hn _ _ _] := final_facts; exact: lz_final_cases. Qed.

Lemma final_mxQ idx (x : 'I_n) (i : 'I_m) : (idx < nvec * B)%N ->
  mx_of n m (nth [::] (o_Q o) idx) x i = qv n (col_of B nvec idx) r.1 i x ord0.
Proof.
move=> hidx; have [_ _ -> _] := final_facts.
by rewrite nth_mkseq // !mxE mget_mtab.
Qed.

Lemma final_mxT idx (i j : nat) : (idx < nvec * B)%N -> (i < m)%N -> (j < m)%N ->
  mget ArR (nth [::] (o_T o) idx) i j = tget ArR r.1.2 i j (col_of B nvec idx).
Proof.
move=> hidx hi hj; have [_ _ _ ->] := final_facts.
by rewrite nth_mkseq // mget_mtab.
Qed.

Lemma final_size : size (o_Q o) = (nvec * B)%N /\ size (o_T o) = (nvec * B)%N.
Proof. by have [_ _ -> ->] := final_facts; rewrite !size_mkseq. Qed.

(* orthonormal columns, for every budget and size, per returned matrix *)
Lemma final_ON idx : (idx < nvec * B)%N ->
  cv n init (col_of B nvec idx) != 0 ->
  (forall j, (j.+1 < m)%N -> mget ArR (nth [::] (o_T o) idx) j j.+1 != 0) ->
  ON n (col_of B nvec idx) m r.1.
Proof.
move=> hidx Hv HG.
have hc := col_of_lt hidx.
move: HG (@final_mxT idx); rewrite /m.
case: final_cases => [[_ ->]|[_ Hn ->]] /= HG HT; first exact: stop_ON.
have f0 : (0 < num_iter.-1)%N by lia.
have Hk : (1 + num_iter.-1 = num_iter)%N by lia.
apply: (@loop_ON n C num_iter (g_mm g) (lz_gt ArR g) (g_brk g) (g_extra g) _ hc num_iter.-1 1 _ f0 Hk (ltn0Sn 0)).
  exact: init_ON.
move=> j hj; rewrite /be -HT //; first exact: HG.
by lia.
Qed.

Lemma final_colQ idx (j : 'I_m) : (idx < nvec * B)%N ->
  col j (mx_of n m (nth [::] (o_Q o) idx)) = qv n (col_of B nvec idx) r.1 j.
Proof. by move=> hidx; apply/colP => x; rewrite mxE final_mxQ. Qed.

Lemma final_tm_inv : t_sym ArR r.1.2 /\ t_band ArR r.1.2.
Proof. by have [Hn _ _ _] := final_facts; exact: final_tm_inv_gen. Qed.

Section Proj.
Variable idx : nat.
Hypothesis hidx : (idx < nvec * B)%N.
Let c := col_of B nvec idx.
Variable Am : 'M[F]_n.
Hypothesis mm_lin : forall X, cv n (g_mm g X) c = Am *m cv n X c.
Hypothesis Am_sym : Am^T = Am.
Hypothesis Hv : cv n init c != 0.
Hypothesis HG : forall j, (j.+1 < m)%N -> mget ArR (nth [::] (o_T o) idx) j j.+1 != 0.

Let q (i : nat) := qv n c r.1 i.
Let alf (j : nat) := al c r.1 j.
Let bet (j : nat) := be c r.1 j.

Lemma final_AR :
  [/\ ON n c m r.1, @AR n c Am m r.1 & alf r.2 = dotv (q r.2) (Am *m q r.2)].
Proof.
have hc := col_of_lt hidx.
move: HG (fun i j => @final_mxT idx i j hidx); rewrite /alf /q /m.
case: final_cases => [[_ ->]|[_ Hn ->]] /= HG' HT.
  split; [exact: stop_ON | by [] | exact: (stop_al num_iter hc mm_lin)].
have f0 : (0 < num_iter.-1)%N by lia.
have Hk : (1 + num_iter.-1 = num_iter)%N by lia.
have [] := @loop_AR n C num_iter (g_mm g) (lz_gt ArR g) (g_brk g) (g_extra g) _ hc Am mm_lin Am_sym num_iter.-1 1
             (lz_init ArR n C num_iter (g_mm g) init) f0 Hk (ltn0Sn 0).
  split; first by have [] := @init_tm_inv _ ArR n C num_iter (g_mm g) init.
  by move=> HG2; split; [exact: init_ON | exact: init_AR].
move=> _; apply.
move=> j hj; rewrite /be -HT //; first exact: HG'.
by lia.
Qed.

Lemma final_Tentry (i j : nat) : (i < m)%N -> (j < m)%N ->
  mget ArR (nth [::] (o_T o) idx) i j
  = (if i.+1 == j then bet i else 0) + (if i == j then alf j else 0) + (if i == j.+1 then bet j else 0).
Proof.
move=> hi hj; rewrite final_mxT //.
by have [Hs Hb] := final_tm_inv; exact: T_entry.
Qed.

Lemma final_projection :
  (mx_of n m (nth [::] (o_Q o) idx))^T *m Am *m mx_of n m (nth [::] (o_Q o) idx)
  = mx_of m m (nth [::] (o_T o) idx).
Proof.
have [Hon Har Hal] := final_AR.
apply/matrixP => i j.
rewrite mulmx_entry_dotv !final_colQ // -/c -/(q i) -/(q j) [RHS]mxE final_Tentry //.
have hi := ltn_ord i; have hj := ltn_ord j.
have [hj1|hj1] := ltnP j.+1 m.
  (* a column before the last: the three-term relation *)
  rewrite Har // !dotvDr !dotvZr !Hon //.
  congr (_ + _ + _).
  - case: (nat_of_ord j) hj1 {hj} => [|j'] hj1; first by rewrite dotv0r.
    have hj' : (j' < m)%N by lia.
    rewrite dotvZr Hon // eqSS.
    by case: eqP => [->|_]; rewrite ?mulr1 ?mulr0.
  - by case: eqP => _; rewrite ?mulr1 ?mulr0.
  - by case: eqP => _; rewrite ?mulr1 ?mulr0.
(* the last column: symmetry of A *)
have Ej : nat_of_ord j = r.2 by move: hj hj1; rewrite /m; lia.
have -> : (i == j.+1 :> nat) = false by lia.
rewrite addr0.
have [Ei|Ni] := eqVneq (nat_of_ord i) (nat_of_ord j).
  have -> : (i.+1 == j :> nat) = false by lia.
  by rewrite add0r Ei Ej.
rewrite addr0 -dotv_mulmx_sym // dotvC Ej.
have hi' : (i < r.2)%N by move: hi Ni; rewrite Ej /m; lia.
have k0 : (0 < r.2)%N by lia.
have Hon' : ON n c r.2.+1 r.1 by [].
have Har' : @AR n c Am r.2.+1 r.1 by [].
by rewrite (AR_dot (col_of_lt hidx) k0 Hon' Har' hi').
Qed.

(* column j of Q T, from the symmetric tridiagonal structure of T alone *)
Lemma final_QT_col (j : 'I_m) :
  mx_of n m (nth [::] (o_Q o) idx) *m col j (mx_of m m (nth [::] (o_T o) idx))
  = (if nat_of_ord j is j'.+1 then bet j' *: q j' else 0) + alf j *: q j
    + (if (j.+1 < m)%N then bet j *: q j.+1 else 0).
Proof.
have hj := ltn_ord j.
apply/colP => x; rewrite [LHS]mxE [RHS]mxE [X in _ = X + _]mxE.
under eq_bigr => i _.
  rewrite [col _ _ _ _]mxE [mx_of m m _ _ _]mxE final_mxQ // final_Tentry // -/c -/(q i) !mulrDr.
  over.
rewrite !big_split /=.
have P1 : \sum_(i < m) q i x ord0 * (if i.+1 == j :> nat then bet i else 0)
          = (if nat_of_ord j is j'.+1 then bet j' *: q j' else 0) x ord0.
  case: (nat_of_ord j) hj => [|j'] hj.
    by rewrite big1 ?mxE // => i _; rewrite mulr0.
  under eq_bigr => i _ do [rewrite eqSS (fun_if (fun z => q i x ord0 * z)) mulr0].
  have hj' : (j' < m)%N by lia.
  by rewrite (sum_pick m j' (fun i => q i x ord0 * bet i)) hj' [RHS]mxE mulrC.
have P2 : \sum_(i < m) q i x ord0 * (if i == j :> nat then alf j else 0) = (alf j *: q j) x ord0.
  under eq_bigr => i _ do [rewrite (fun_if (fun z => q i x ord0 * z)) mulr0].
  by rewrite (sum_pick m j (fun i => q i x ord0 * alf j)) hj [RHS]mxE mulrC.
have P3 : \sum_(i < m) q i x ord0 * (if i == j.+1 :> nat then bet j else 0)
          = (if (j.+1 < m)%N then bet j *: q j.+1 else 0) x ord0.
  under eq_bigr => i _ do [rewrite (fun_if (fun z => q i x ord0 * z)) mulr0].
  rewrite (sum_pick m j.+1 (fun i => q i x ord0 * bet j)).
  by case: ifP => _; rewrite [RHS]mxE // mulrC.
by rewrite P1 P2 P3.
Qed.

Lemma final_arnoldi (j : 'I_m) : (j.+1 < m)%N ->
  col j (Am *m mx_of n m (nth [::] (o_Q o) idx)
         - mx_of n m (nth [::] (o_Q o) idx) *m mx_of m m (nth [::] (o_T o) idx)) = 0.
Proof.
move=> hj1.
have [Hon Har Hal] := final_AR.
by rewrite linearB /= !col_mul final_QT_col hj1 final_colQ // -/c -/(q j) Har // subrr.
Qed.

End Proj.
Section ExitFinal.
Variable Am : nat -> 'M[F]_n.
Hypothesis mm_lin : forall c X, (c < C)%N -> cv n (g_mm g X) c = Am c *m cv n X c.
Hypothesis Am_sym : forall c, (c < C)%N -> (Am c)^T = Am c.
Hypothesis tol_ge0 : 0 <= g_tol g.
Hypothesis extra_gt0 : (0 < g_extra g)%N.
Hypothesis Hv : forall c, (c < C)%N -> cv n init c != 0.
Hypothesis HG : forall idx, (idx < nvec * B)%N ->
  forall j, (j.+1 < m)%N -> mget ArR (nth [::] (o_T o) idx) j j.+1 != 0.
Hypothesis Hearly : (m < num_iter)%N.

Lemma gt0_false : lz_gt ArR g 0 = false.
Proof. by rewrite /lz_gt /=; case: (g_abs g); rewrite ?normr0 ltNge tol_ge0. Qed.

Lemma final_exit idx (j : 'I_m) : (idx < nvec * B)%N -> j.+1 = m ->
  let c := col_of B nvec idx in
  let rho_ := col j (Am c *m mx_of n m (nth [::] (o_Q o) idx)
                     - mx_of n m (nth [::] (o_Q o) idx) *m mx_of m m (nth [::] (o_T o) idx)) in
  dotv rho_ rho_ <= (g_brk g) ^+ 2.
Proof.
move=> hidx Ej /=.
have hc := col_of_lt hidx.
have [Hs _] := final_tm_inv.
have Ej' : nat_of_ord j = r.2 by move: Ej; rewrite /m; lia.
(* the last column of A Q - Q T in terms of the final state *)
have -> : col j (Am (col_of B nvec idx) *m mx_of n m (nth [::] (o_Q o) idx)
                 - mx_of n m (nth [::] (o_Q o) idx) *m mx_of m m (nth [::] (o_T o) idx))
          = Am (col_of B nvec idx) *m qv n (col_of B nvec idx) r.1 r.2
            - ((if r.2 is j'.+1 then be (col_of B nvec idx) r.1 j' *: qv n (col_of B nvec idx) r.1 j' else 0)
               + al (col_of B nvec idx) r.1 r.2 *: qv n (col_of B nvec idx) r.1 r.2).
  rewrite linearB /= !col_mul (final_QT_col hidx); last exact: Hv.
  by rewrite (final_colQ _ hidx) Ej' ltnn addr0.
move: Hearly HG Hs (@final_mxT); rewrite /m.
case: final_cases => [[Hst ->]|[_ Hn ->]] /= Hearly' HG' Hs' HT.
  (* stopped after the first step: the residual is r_1 = A q_0 - alpha_0 q_0, of norm beta_0 <= threshold *)
  have Hb : ~~ has (fun b => g_brk g < `|b|) (lz_beta0 ArR n C (g_mm g) init).
    move: Hst; rewrite /lz_stop -/n -/num_iter => /andP[_].
    have -> : (num_iter < 2)%N = false by lia.
    by [].
  have Hbc : `|i_b n C (g_mm g) (col_of B nvec idx) init| <= g_brk g.
    rewrite -(@beta0_col n C (g_mm g) (col_of B nvec idx) hc init) leNgt; apply: contra Hb => Hlt.
    apply/hasP; exists (vget ArR (lz_beta0 ArR n C (g_mm g) init) (col_of B nvec idx)) => //.
    by rewrite /vget mem_nth // /lz_beta0 size_mkseq.
  rewrite add0r (@stop_q0 n C num_iter (g_mm g) _ hc init) (@stop_alpha n C num_iter (g_mm g) _ hc init).
  rewrite (@A_q0 n C (g_mm g) _ hc _ (fun X => mm_lin X hc) init) -/(i_r1 n C (g_mm g) (col_of B nvec idx) init).
  have -> : dotv (i_r1 n C (g_mm g) (col_of B nvec idx) init) (i_r1 n C (g_mm g) (col_of B nvec idx) init)
            = (i_b n C (g_mm g) (col_of B nvec idx) init) ^+ 2.
    by rewrite /i_b sqr_sqrtr // dotv_ge0.
  by apply: sqr_le_brk => //; rewrite /i_b sqrtr_ge0.
have f0 : (0 < num_iter.-1)%N by lia.
have Hk : (1 + num_iter.-1 = num_iter)%N by lia.
have Hinit : forall c, (c < C)%N ->
    t_sym ArR (lz_init ArR n C num_iter (g_mm g) init).2 /\
    (G c 2 (lz_init ArR n C num_iter (g_mm g) init) ->
       ON n c 2 (lz_init ArR n C num_iter (g_mm g) init) /\ @AR n c (Am c) 2 (lz_init ArR n C num_iter (g_mm g) init)).
  move=> c hc'; split; first by have [] := @init_tm_inv _ ArR n C num_iter (g_mm g) init.
  move=> HG2; split; first exact: init_ON (Hv hc') HG2.
  exact: (init_AR hc' (fun X => mm_lin X hc') (Hv hc') HG2).
set rr := lz_loop _ _ _ _ _ _ _ _ _ _ _ in Hearly' HG' Hs' HT *.
have HGall : forall c, (c < C)%N -> G c rr.2.+1 rr.1.
  move=> c hc' jj hjj.
  have [idx' hidx' Ec] := col_of_surj hc'.
  by rewrite /be -Ec -HT //; [exact: HG' | lia].
have := @loop_exit n C num_iter (g_mm g) (lz_gt ArR g) (g_brk g) (g_extra g) Am mm_lin Am_sym gt0_false extra_gt0
          num_iter.-1 1 (lz_init ArR n C num_iter (g_mm g) init) f0 Hk (ltn0Sn 0) Hinit HGall Hearly' _ hc.
have /andP[k0 _] := @loop_range _ ArR n C num_iter (g_mm g) (lz_gt ArR g) (g_brk g) (g_extra g) num_iter.-1 1
                     (lz_init ArR n C num_iter (g_mm g) init) f0 Hk (ltn0Sn 0).
rewrite -/rr in k0 *.
rewrite /rho; case: rr.2 k0 => [//|k'] _ /=.
by rewrite opprD addrA Hs'.
Qed.

End ExitFinal.
End Final.

(* Theorem (orthonormality).  Exact arithmetic, any closure, any sizes / batch / number of start vectors / budget:
   if the start vector of a column is non-zero and no beta of that column that was divided by vanishes
   (the off-diagonal entries of the returned T), the returned Q has orthonormal columns. *)
Theorem lanczos_orthonormal_rcf (g : lz_args F) o nvec init :
  lanczos_tridiag ArR g = Ok o -> lz_start g = Ok (nvec, init) ->
  forall idx, (idx < size (o_Q o))%N ->
    let n := g_n g in let m := o_m o in
    let Q := nth [::] (o_Q o) idx in let T := nth [::] (o_T o) idx in
    cv n init (col_of (prodn (g_batch g)) nvec idx) != 0 ->
    (forall j, (j.+1 < m)%N -> mget ArR T j j.+1 != 0) ->
    (mx_of n m Q)^T *m mx_of n m Q = 1%:M.
Proof.
move=> Hrun Hstart idx; rewrite (final_size Hrun Hstart).1 => hidx /=.
have [_ Em _ _] := final_facts Hrun Hstart.
rewrite Em => Hv HG.
have Hon := final_ON Hrun Hstart hidx Hv HG.
apply/matrixP => i j; rewrite !mxE.
under eq_bigr => x _ do rewrite mxE !(final_mxQ Hrun Hstart _ _ hidx).
by rewrite -dotvE Hon.
Qed.

(* the dense closure of the correspondence (tensor_mm: one n x n matrix per batch member) satisfies the
   linearity hypothesis of the projection theorem, with Am = the matrix of the column's batch member *)
Lemma rowdot_sum (row x : vec F) (a : F) :
  foldl (fun acc rx => aadd ArR acc (amul ArR rx.1 rx.2)) a (zip row x)
  = a + \sum_(l < size row) nth 0 row l * nth 0 x l.
Proof.
elim: row x a => [|r0 row IH] [|x0 x] a /=; rewrite ?big_ord0 ?addr0 //.
  by rewrite big1 ?addr0 // => i _; rewrite nth_nil mulr0.
by rewrite IH big_ord_recl /= addrA.
Qed.

Lemma dense_mm_lin (n nvec : nat) (Ms : seq (mat F)) (c : nat) :
  let M := nth [::] Ms (c %/ nvec) in
  size M = n -> (forall i, (i < n)%N -> size (nth [::] M i) = n) ->
  forall X, cv n (tensor_mm ArR nvec Ms X) c = mx_of n n M *m cv n X c.
Proof.
move=> M sM sR X; apply/colP => i; rewrite !mxE /tensor_mm.
case: (ltnP c (size X)) => hcX; last first.
  rewrite /cget (nth_default _ (s := mkseq _ _)) ?size_mkseq // /vget nth_nil.
  rewrite big1 // => l _; rewrite !mxE /cget (nth_default _ hcX) /vget nth_nil mulr0 //.
rewrite /cget nth_mkseq // -/M /matvec /vget (nth_map [::]) ?sM // /rowdot rowdot_sum add0r sR //.
by apply: eq_bigr => l _; rewrite !mxE.
Qed.

(* Theorem (projection / Arnoldi relation).  Exact arithmetic; the closure acts on the column as a SYMMETRIC
   matrix Am; no breakdown.  Then Q^T A Q = T, every column of A Q - Q T but the last vanishes, and the
   whole residual A Q - Q T is orthogonal to the columns of Q. *)
Theorem lanczos_projection_rcf (g : lz_args F) o nvec init :
  lanczos_tridiag ArR g = Ok o -> lz_start g = Ok (nvec, init) ->
  forall idx, (idx < size (o_Q o))%N ->
    let n := g_n g in let m := o_m o in
    let c := col_of (prodn (g_batch g)) nvec idx in
    let Q := nth [::] (o_Q o) idx in let T := nth [::] (o_T o) idx in
    forall Am : 'M[F]_n,
    (forall X, cv n (g_mm g X) c = Am *m cv n X c) -> Am^T = Am ->
    cv n init c != 0 ->
    (forall j, (j.+1 < m)%N -> mget ArR T j j.+1 != 0) ->
    let Qm := mx_of n m Q in let Tm := mx_of m m T in
    [/\ Qm^T *m Am *m Qm = Tm,
        (forall j : 'I_m, (j.+1 < m)%N -> col j (Am *m Qm - Qm *m Tm) = 0) &
        Qm^T *m (Am *m Qm - Qm *m Tm) = 0].
Proof.
move=> Hrun Hstart idx hidx0 /= Am Hlin Hsym Hv HG.
have Horth := lanczos_orthonormal_rcf Hrun Hstart hidx0 Hv HG.
move: hidx0; rewrite (final_size Hrun Hstart).1 => hidx.
have [_ Em _ _] := final_facts Hrun Hstart.
move: Horth HG; rewrite /= Em => Horth HG.
have H1 := final_projection Hrun Hstart hidx Hlin Hsym Hv HG.
split=> //.
- by move=> j hj; exact: (final_arnoldi Hrun Hstart hidx Hlin Hsym Hv HG).
- by rewrite mulmxBr !mulmxA H1 Horth mul1mx subrr.
Qed.

(* Theorem (breakdown exit).  Exact arithmetic, tol >= 0, at least one extra pass allowed, every column driven by
   a symmetric matrix, no breakdown before the exit: if the loop stops early (m < min(max_iter, n)) then in EVERY
   column the only non-zero column of A Q - Q T, the last one, has Euclidean norm <= the threshold (1e-6):
   Q T Q^T reproduces A on span Q up to that residual.  (In exact arithmetic the extra re-orthogonalisation
   passes never run, so the exit can only be the beta test.) *)
Theorem lanczos_early_exit_rcf (g : lz_args F) o nvec init :
  lanczos_tridiag ArR g = Ok o -> lz_start g = Ok (nvec, init) ->
  let n := g_n g in let C := (prodn (g_batch g) * nvec)%N in let m := o_m o in
  forall Am : nat -> 'M[F]_n,
  (forall c X, (c < C)%N -> cv n (g_mm g X) c = Am c *m cv n X c) ->
  (forall c, (c < C)%N -> (Am c)^T = Am c) ->
  0 <= g_tol g -> (0 < g_extra g)%N ->
  (forall c, (c < C)%N -> cv n init c != 0) ->
  (forall idx, (idx < size (o_T o))%N -> forall j, (j.+1 < m)%N -> mget ArR (nth [::] (o_T o) idx) j j.+1 != 0) ->
  (m < minn (g_max_iter g) n)%N ->
  forall idx, (idx < size (o_Q o))%N -> forall j : 'I_m, j.+1 = m ->
    let c := col_of (prodn (g_batch g)) nvec idx in
    let Qm := mx_of n m (nth [::] (o_Q o) idx) in let Tm := mx_of m m (nth [::] (o_T o) idx) in
    let rho_ := col j (Am c *m Qm - Qm *m Tm) in
    dotv rho_ rho_ <= (g_brk g) ^+ 2.
Proof.
move=> Hrun Hstart /= Am Hlin Hsym Htol Hex Hv HG Hearly idx hidx0.
move: hidx0 HG; rewrite (final_size Hrun Hstart).1 (final_size Hrun Hstart).2 => hidx HG.
have [_ Em _ _] := final_facts Hrun Hstart.
move: HG Hearly; rewrite Em => HG Hearly j Ej.
exact: (final_exit Hrun Hstart Hlin Hsym Htol Hex Hv HG Hearly hidx Ej).
Qed.

(* pure matrix consequences *)
Lemma full_space_mx (n m : nat) (Q : 'M[F]_(n, m)) (T : 'M[F]_m) (A : 'M[F]_n) :
  m = n -> Q^T *m Q = 1%:M -> Q^T *m A *m Q = T -> Q *m Q^T = 1%:M /\ Q *m T *m Q^T = A.
Proof.
move=> E; move: Q T; rewrite E => Q T H1 H2.
have H3 : Q *m Q^T = 1%:M by exact: mulmx1C.
by split=> //; rewrite -H2 !mulmxA H3 mul1mx -mulmxA H3 mulmx1.
Qed.

Lemma compression_mx (n m : nat) (Q : 'M[F]_(n, m)) (T : 'M[F]_m) (A : 'M[F]_n) :
  Q^T *m Q = 1%:M -> Q^T *m A *m Q = T ->
  let P := Q *m Q^T in [/\ P *m P = P, P^T = P & Q *m T *m Q^T = P *m A *m P].
Proof.
move=> H1 H2 /=; split.
- by rewrite mulmxA -[Q *m Q^T *m Q]mulmxA H1 mulmx1.
- by rewrite trmx_mul trmxK.
- by rewrite -H2 !mulmxA.
Qed.

Lemma invariant_mx (n m : nat) (Q : 'M[F]_(n, m)) (T : 'M[F]_m) (A : 'M[F]_n) (y : 'cV[F]_m) :
  Q^T *m Q = 1%:M -> A *m Q = Q *m T -> (Q *m T *m Q^T) *m (Q *m y) = A *m (Q *m y).
Proof. by move=> H1 H2; rewrite -!mulmxA [Q^T *m _]mulmxA H1 mul1mx !mulmxA H2. Qed.

End Alg.
