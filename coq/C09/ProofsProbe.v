(* C09 — _postprocess_lanczos_root_inv_decomp (choice of the best probe by the residuals on the test vectors) over a
   real closed field, and the shapes that RootDecomposition.forward / Diagonalization.forward /
   _postprocess_lanczos_root_inv_decomp hand back (pure list reasoning, no arithmetic). *)
From mathcomp Require Import all_ssreflect all_algebra.
From mathcomp Require Import zify.
Require Import C09.Model C09.ProofsGen C09.ProofsAlg C09.ProofsPost.
Set Implicit Arguments.
Unset Strict Implicit.
Unset Printing Implicit Defensive.
Import Order.Theory GRing.Theory Num.Theory.
Local Open Scope ring_scope.

Section Probe.
Variable F : rcfType.
Notation ArR := (ArR F).

Lemma mmul_mx_gen (m k n : nat) (X Y : mat F) :
  mx_of m n (mmul ArR m k n X Y) = mx_of m k X *m mx_of k n Y.
Proof.
apply/matrixP => i j; rewrite !mxE mget_mtab // sumn_big.
by apply: eq_bigr => l _; rewrite !mxE.
Qed.

Lemma foldl_add_sum (a : F) (s : seq F) : foldl (aadd ArR) a s = a + \sum_(x <- s) x.
Proof.
elim: s a => [|x s IH] a /=; first by rewrite big_nil addr0.
by rewrite IH big_cons addrA.
Qed.

Section Member.
Variables (n k t : nat) (Ab R V : mat F).
Let Am := mx_of n n Ab.
Let Rm := mx_of n k R.
Let Vm := mx_of n t V.

(* the defect of the solve on the test vectors: A R R^T V - V *)
Definition defect : 'M[F]_(n, t) := Am *m (Rm *m (Rm^T *m Vm)) - Vm.

Lemma resid_member_nth (j0 : nat) (hj : (j0 < t)%N) :
  nth 0 (post_resid_member ArR n k t Ab R V) j0
  = Num.sqrt (dotv (col (Ordinal hj) defect) (col (Ordinal hj) defect)).
Proof.
pose j := Ordinal hj; rewrite -[j0]/(nat_of_ord j) -/j.
rewrite /post_resid_member nth_mkseq // sumn_big dotvE; congr Num.sqrt.
apply: eq_bigr => i _ /=.
set W := mtab k t _.
have EW : mx_of k t W = Rm^T *m Vm.
  apply/matrixP => l x; rewrite !mxE mget_mtab // sumn_big.
  by apply: eq_bigr => y _; rewrite !mxE.
have EM : mx_of n t (mmul ArR n n t Ab (mmul ArR n k t R W)) = Am *m (Rm *m (Rm^T *m Vm)).
  by rewrite !mmul_mx_gen EW.
have -> : mget ArR (mmul ArR n n t Ab (mmul ArR n k t R W)) i j = (Am *m (Rm *m (Rm^T *m Vm))) i j.
  by rewrite -EM mxE.
by rewrite /defect !mxE.
Qed.

Lemma resid_member_size : size (post_resid_member ArR n k t Ab R V) = t.
Proof. by rewrite /post_resid_member size_mkseq. Qed.

Lemma resid_member_ge0 x : x \in post_resid_member ArR n k t Ab R V -> 0 <= x.
Proof.
by rewrite /post_resid_member => /mapP [j _ ->]; exact: sqrtr_ge0.
Qed.

Lemma resid_member_all0 :
  all (fun x => x == 0) (post_resid_member ArR n k t Ab R V) = (defect == 0).
Proof.
apply/idP/idP.
  move=> /all_nthP H; apply/eqP/matrixP => i j; rewrite [RHS]mxE.
  have hj : (j < size (post_resid_member ArR n k t Ab R V))%N by rewrite resid_member_size.
  have := H 0 j hj; rewrite (resid_member_nth (ltn_ord j)) sqrtr_eq0 => Hle.
  have Ej : Ordinal (ltn_ord j) = j by apply: val_inj.
  have : dotv (col j defect) (col j defect) == 0 by rewrite -Ej eq_le Hle dotv_ge0.
  by rewrite dotv_eq0 => /eqP /colP /(_ i); rewrite !mxE.
move=> /eqP E; apply/(all_nthP 0) => j; rewrite resid_member_size => hj.
by rewrite (resid_member_nth hj) E col0 dotv0l sqrtr0.
Qed.

End Member.

Lemma min_zero (rr : seq F) (S : nat -> F) (N b p0 : nat) :
  (forall p, (p < N)%N -> nth 0 rr p = S p) -> (forall p, (p < N)%N -> 0 <= S p) ->
  (b < N)%N -> (p0 < N)%N -> (forall j, (j < N)%N -> nth 0 rr b <= nth 0 rr j) -> S p0 = 0 -> S b = 0.
Proof.
move=> HS Hge hb hp Hmin E0; apply/eqP; rewrite eq_le Hge // andbT.
by have := Hmin p0 hp; rewrite !HS // E0.
Qed.

Section Select.
Variables (n k t : nat) (As : seq (mat F)) (Vs : seq (mat F)).

(* the probe's inverse roots solve every test system exactly: A_b R_b R_b^T V_b = V_b for every batch member *)
Definition exact_on_tests (Rp : seq (mat F)) :=
  forall b, (b < size As)%N ->
    mx_of n n (nth [::] As b) *m (mx_of n k (nth [::] Rp b) *m ((mx_of n k (nth [::] Rp b))^T *m mx_of n t (nth [::] Vs b)))
    = mx_of n t (nth [::] Vs b).

Definition per (Rp : seq (mat F)) : seq F :=
  flatten (mkseq (fun b => post_resid_member ArR n k t (nth [::] As b) (nth [::] Rp b) (nth [::] Vs b)) (size As)).

Lemma per_ge0 Rp x : x \in per Rp -> 0 <= x.
Proof.
move=> /flattenP [s /mapP [b _ ->]]; exact: resid_member_ge0.
Qed.

Lemma residual_of Rp : foldl (aadd ArR) (a0 ArR) (per Rp) = \sum_(x <- per Rp) x.
Proof. by rewrite foldl_add_sum /= add0r. Qed.

Lemma residual_ge0 Rp : 0 <= \sum_(x <- per Rp) x.
Proof. by rewrite big_seq; apply: sumr_ge0 => x; exact: per_ge0. Qed.

Lemma residual_eq0 Rp : (\sum_(x <- per Rp) x == 0) <-> exact_on_tests Rp.
Proof.
rewrite big_seq psumr_eq0; last by move=> x; exact: per_ge0.
split.
  move=> /allP H b hb; apply/eqP; rewrite -subr_eq0 -/(defect n k t _ _ _) -resid_member_all0.
  apply/allP => x hx.
  have hin : x \in per Rp.
    apply/flattenP; exists (post_resid_member ArR n k t (nth [::] As b) (nth [::] Rp b) (nth [::] Vs b)) => //.
    by apply/mapP; exists b => //; rewrite mem_iota.
  by have := H x hin; rewrite hin.
move=> H; apply/allP => x hx; apply/implyP => _.
move: hx => /flattenP [s /mapP [b]]; rewrite mem_iota add0n /= => hb -> hx.
have := H b hb => /eqP; rewrite -subr_eq0 -/(defect n k t _ _ _) -resid_member_all0 => /allP.
exact.
Qed.

Variable Rs : seq (seq (mat F)).
Hypothesis Rs0 : Rs != [::].

Let res := post_residuals ArR n k t As Rs Vs.
Let sel := postprocess ArR n k t As Rs Vs.

Lemma res_nth p : (p < size Rs)%N -> nth 0 res p = \sum_(x <- per (nth [::] Rs p)) x.
Proof. by move=> hp; rewrite /res /post_residuals (nth_map [::]) // -/(per _) residual_of. Qed.

(* the inverse root that _postprocess_lanczos_root_inv_decomp returns: it is one of the probes, its summed
   residual is minimal, and if SOME probe solves all the test systems exactly then so does the returned one *)
Theorem postprocess_best :
  [/\ (sel.1 < size Rs)%N, sel.2 = nth [::] Rs sel.1,
      (forall p, (p < size Rs)%N -> nth 0 res sel.1 <= nth 0 res p) &
      (forall p0, (p0 < size Rs)%N -> exact_on_tests (nth [::] Rs p0) -> exact_on_tests sel.2)].
Proof.
have Hres : forall p, (p < size Rs)%N -> nth 0 res p = \sum_(x <- per (nth [::] Rs p)) x := res_nth.
have sres : size res = size Rs by rewrite /res /post_residuals size_map.
have Esel : sel = (argmin ArR res, nth [::] Rs (argmin ArR res)) by [].
rewrite Esel /= {Esel}.
move: res Hres sres => rr Hres sres.
have res0 : rr != [::] by rewrite -size_eq0 sres size_eq0.
have [H1 H2] := best_probe_is_argmin res0.
rewrite sres in H1 H2.
move: (argmin ArR rr) H1 H2 => b H1 H2.
split=> //.
move=> p0 hp0 /residual_eq0 /eqP E0.
apply/residual_eq0.
apply/eqP.
exact: (@min_zero rr (fun p => \sum_(x <- per (nth [::] Rs p)) x) (size Rs) b p0 Hres
          (fun p _ => residual_ge0 (nth [::] Rs p)) H1 hp0 H2 E0).
Qed.

End Select.
End Probe.

(* ---------------------------------------------------------------------------------------------- *)
(* StochasticLQ.to_dense *)
Section SLQ.
Variable F : rcfType.
Notation ArR := (ArR F).

Lemma natF_natr n : natF ArR n = n%:R.
Proof. by elim: n => [|n IH] //=; rewrite -/(natF ArR n) IH -mulrSr. Qed.

Lemma foldl_add_big (T : Type) (g : T -> F) (a : F) (s : seq T) :
  foldl (fun acc j => acc + g j) a s = a + \sum_(j <- s) g j.
Proof.
elim: s a => [|x s IH] a /=; first by rewrite big_nil addr0.
by rewrite IH big_cons addrA.
Qed.

(* closed form: entry i depends on f_i only *)
Theorem slq_to_dense_closed (n k : nat) (evals : seq (vec F)) (evecs : seq (mat F)) (funcs : seq (F -> F)) i :
  (i < size funcs)%N ->
  nth 0 (slq_to_dense ArR n k evals evecs funcs) i
  = \sum_(j < size evals) n%:R / (size evals)%:R
      * \sum_(l < k) (mget ArR (nth [::] evecs j) 0 l) ^+ 2 * (nth id funcs i) (vget ArR (nth [::] evals j) l).
Proof.
move=> hi; rewrite /slq_to_dense (nth_map id) //.
rewrite (@foldl_add_big nat (fun j => _ / _ * _)) /= add0r.
rewrite -[X in iota 0 X]subn0 -/(index_iota 0 (size evals)) big_mkord.
by apply: eq_bigr => j _; rewrite !natF_natr sumn_big; congr (_ * _).
Qed.

(* one quadrature term: with Q^T Q = I, A Q = Q T (full or invariant Krylov space), T V = V diag(lam), V^T V = I,
   the columns of U = Q V are an orthonormal eigenbasis of A on span Q and
       sum_l V[0, l]^2 f(lam_l)  =  q_0^T (U diag(f lam) U^T) q_0 ,
   the quadratic form of f(A) (in the sense of the docstring: f applied to the eigenvalues) at the start vector *)
Theorem slq_quadrature (n m : nat) (Q : 'M[F]_(n, m.+1)) (T V : 'M[F]_m.+1) (A : 'M[F]_n) (lam : 'rV[F]_m.+1)
    (f : F -> F) :
  Q^T *m Q = 1%:M -> A *m Q = Q *m T -> V^T *m V = 1%:M -> T *m V = V *m diag_mx lam ->
  let U := Q *m V in let q0 := col ord0 Q in
  [/\ U^T *m U = 1%:M, A *m U = U *m diag_mx lam &
      \sum_l (V ord0 l) ^+ 2 * f (lam ord0 l) = (q0^T *m (U *m diag_mx (\row_l f (lam ord0 l)) *m U^T) *m q0) ord0 ord0].
Proof.
move=> HQ HA HV HT U q0; split.
- by rewrite /U trmx_mul mulmxA -[V^T *m Q^T *m Q]mulmxA HQ mulmx1.
- by rewrite /U mulmxA HA -!mulmxA HT.
- have E0 : q0^T *m U = row ord0 V.
    by rewrite /q0 /U tr_col -row_mul mulmxA HQ mul1mx.
  have -> : q0^T *m (U *m diag_mx (\row_l f (lam ord0 l)) *m U^T) *m q0
            = (q0^T *m U) *m diag_mx (\row_l f (lam ord0 l)) *m (q0^T *m U)^T.
    by rewrite [X in _ = _ *m X]trmx_mul trmxK !mulmxA.
  rewrite E0 mxE; apply: eq_bigr => l _.
  by rewrite mul_mx_diag !mxE expr2 mulrAC.
Qed.

End SLQ.

(* ---------------------------------------------------------------------------------------------- *)
(* shapes *)
Section Shapes.

Lemma cons_neq_self (a : nat) (s : seq nat) : (s == a :: s) = false.
Proof. by apply/negbTE/eqP => /(congr1 size) /= /eqP; rewrite -[X in X == _]addn0 -addn1 eqn_add2l. Qed.

Lemma size_ge4 (a b m : nat) (r : seq nat) : (size ([:: a, b & r] ++ [:: m; m]) == 3%N) = false.
Proof. by rewrite size_cat /=; lia. Qed.

(* RootDecomposition.forward: the root / inverse root has the shape ( [nprobe,] *batch, n, m ) EXCEPT for a single
   probe and a batch shape of two or more dimensions whose first is 1: that dimension is squeezed away (line 94
   takes t_mat.size(0), the first BATCH dimension, for the number of probes). *)
Theorem root_forward_shape_spec (nprobe : nat) (batch : seq nat) (n m : nat) :
  (0 < nprobe)%N -> (1 < m)%N -> (1 < n)%N ->
  (root_forward_shape_pinned (lanczos_lead nprobe batch) n m == lanczos_lead nprobe batch ++ [:: n; m])
  = ~~ [&& nprobe == 1%N, (1 < size batch)%N & head 0%N batch == 1%N].
Proof.
move=> np0 m1 n1; rewrite /root_forward_shape_pinned /lanczos_lead.
have [E1|N1] := eqVneq nprobe 1%N.
  case: batch => [|b1 [|b2 r]].
  - rewrite /=; have /negbTE-> : m != 1%N by lia.
    by rewrite eqxx.
  - by rewrite /= ?eqxx.
  - rewrite cat0s size_ge4 [head _ _]/=.
    have [->|Nb] := eqVneq b1 1%N; first by rewrite /= cons_neq_self.
    by rewrite /= eqxx.
case: batch => [|b1 r].
  by rewrite /= ?eqxx.
rewrite size_ge4 [head _ _]/= (negbTE N1) /=.
by rewrite eqxx.
Qed.

Theorem diag_forward_shape_spec (batch : seq nat) (n m : nat) :
  (1 < m)%N -> (1 < n)%N ->
  (diag_forward_shape_pinned batch n m == (batch ++ [:: m], batch ++ [:: n; m]))
  = ~~ ((1 < size batch)%N && (head 0%N batch == 1%N)).
Proof.
move=> m1 n1; rewrite /diag_forward_shape_pinned.
case: batch => [|b1 [|b2 r]].
- rewrite /=.
  have /negbTE-> : m != 1%N by lia.
  have /negbTE-> : n != 1%N by lia.
  by rewrite eqxx.
- by rewrite /= ?eqxx.
- rewrite size_ge4.
  have [->|Nb] := eqVneq b1 1%N; last by rewrite /= ?(negbTE Nb) ?eqxx.
  by rewrite /= xpair_eqE cons_neq_self.
Qed.

Theorem postprocess_shape_spec (batch : seq nat) (n k : nat) :
  (1 < n)%N ->
  (postprocess_shape_pinned batch n k == batch ++ [:: n; k]) = ~~ ((0 < size batch)%N && (head 0%N batch == 1%N)).
Proof.
move=> n1; rewrite /postprocess_shape_pinned.
case: batch => [|b1 r] /=.
  have /negbTE-> : n != 1%N by lia.
  by rewrite eqxx.
have [->|Nb] := eqVneq b1 1%N; first by rewrite /= cons_neq_self.
by rewrite /= ?(negbTE Nb) ?eqxx.
Qed.


(* after fix C09-leading-singleton-batch all three hand back the specified shapes, for every batch shape *)
Theorem fixed_shapes_spec (nprobe : nat) (batch : seq nat) (n m : nat) :
  [/\ root_forward_shape true nprobe (lanczos_lead nprobe batch) n m = lanczos_lead nprobe batch ++ [:: n; m],
      diag_forward_shape true batch n m = (batch ++ [:: m], batch ++ [:: n; m]) &
      postprocess_shape true batch n m = batch ++ [:: n; m]].
Proof.
rewrite /root_forward_shape /diag_forward_shape /postprocess_shape /lanczos_lead; split=> //.
by case: (nprobe == 1%N).
Qed.

(* root_inv_decomposition's check of initial_vectors.shape lets through exactly ( *batch, n, k ) and, for an operator
   without batch dimensions, the 1-D shape (n) *)
Definition root_inv_accepts (batch : seq nat) (n : nat) (ivs : seq nat) : bool :=
  ((batch == [::]) && (ivs == [:: n]))
  || [&& size ivs == (size batch).+2, take (size batch) ivs == batch & nth 0%N ivs (size batch) == n].

Theorem root_inv_guard_spec (batch : seq nat) (n : nat) (ivs : seq nat) :
  root_inv_guard_raises batch n ivs = ~~ root_inv_accepts batch n ivs.
Proof.
rewrite /root_inv_guard_raises /root_inv_accepts.
have [E1|N1] := boolP ((size batch + 2 == 2)%N && (size ivs == 1%N)).
  have Eb : batch = [::] by move/andP: E1 => [/eqP E _]; apply: size0nil; lia.
  have [x Ex] : exists x, ivs = [:: x] by case: ivs E1 => [|x [|y r]] //=; rewrite ?andbF //; exists x.
  rewrite Eb Ex /= muln1 eqseq_cons eqxx andbT orbF.
  by rewrite eq_sym.
have [Es|Ns] := eqVneq (size batch + 2)%N (size ivs); last first.
  rewrite /=; apply/esym.
  rewrite negb_or; apply/andP; split.
    apply/negP => /andP[/eqP Eb /eqP Ei]; move: N1 Ns; rewrite Eb Ei /=; by [].
  by apply/negP => /and3P[/eqP E _ _]; move: Ns; rewrite E addn2 eqxx.
have E2 : (size ivs - 2 = size batch)%N by lia.
rewrite /= E2.
have -> : (size ivs == (size batch).+2) = true by apply/eqP; lia.
have -> : (batch == [::]) && (ivs == [:: n]) = false.
  apply/negbTE/negP => /andP[/eqP Eb /eqP Ei]; move: N1; rewrite Eb Ei /=; by [].
by rewrite /= negb_and eq_sym [n == _]eq_sym.
Qed.

End Shapes.
