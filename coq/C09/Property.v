(* C09 — Lanczos returns an orthonormal basis and the projected tridiagonal.
   ONLY theorem statements (each closed by exact / apply of a lemma of Proofs*.v): these are the proof
   obligations the harness counts and runs Print Assumptions on.

   Model: C09.Model (line-by-line transcription of linear_operator/utils/lanczos.py and of the forward passes
   of functions/_root_decomposition.py and functions/_diagonalization.py), generic in the arithmetic record.
   - theorems ending in _any_arith hold over EVERY arithmetic record (no algebraic law is used), in particular
     over the PrimFloat instances the correspondence executes;
   - the others are over an arbitrary real closed field F (exact arithmetic, Num.sqrt), instance ArR F.
   All of them quantify over every size n, batch shape, number of start vectors, budget max_iter, tol and
   closure: nothing is bounded. *)
From mathcomp Require Import all_ssreflect all_algebra.
Require Import C09.Model C09.ProofsGen C09.ProofsAlg C09.ProofsPost C09.ProofsPrefix C09.ProofsProbe C09.ProofsEx.
Require Import C09.gen.Consts.
Set Implicit Arguments.
Unset Strict Implicit.
Unset Printing Implicit Defensive.
Import GRing.Theory Num.Theory.
Local Open Scope ring_scope.

(* 1. The returned T (every leading index) is m x m, symmetric and tridiagonal. *)
Theorem C09_T_symmetric_tridiagonal_any_arith (F : Type) (A : Arith F) (g : lz_args F) o :
  lanczos_tridiag A g = Ok o ->
  forall idx, (idx < size (o_T o))%N ->
    let T := nth [::] (o_T o) idx in
    [/\ size T = o_m o, (forall i, (i < o_m o)%N -> size (nth [::] T i) = o_m o),
        (forall i j, mget A T i j = mget A T j i) &
        (forall i j, (i.+1 < j)%N || (j.+1 < i)%N -> mget A T i j = a0 A)].
Proof. exact: lanczos_T_symmetric_tridiagonal_gen. Qed.

(* 2. Trimming: 2 <= m <= min(max_iter, n) on the pinned source, 1 <= m on the repaired one (flag g_first_guard); shapes of q_mat / t_mat (leading dimension dropped iff one start
      vector); one n x m matrix Q and one m x m matrix T per (start vector, batch member). *)
Theorem C09_trim_shapes_any_arith (F : Type) (A : Arith F) (g : lz_args F) o :
  lanczos_tridiag A g = Ok o ->
  exists nvec init, lz_start g = Ok (nvec, init) /\
    let n := g_n g in let m := o_m o in
    let lead := if nvec == 1%N then [::] else [:: nvec] in
    [/\ ((if g_first_guard g then 1 else 2) <= m <= minn (g_max_iter g) n)%N,
        o_qshape o = lead ++ g_batch g ++ [:: n; m] /\ o_tshape o = lead ++ g_batch g ++ [:: m; m],
        size (o_Q o) = (nvec * prodn (g_batch g))%N /\ size (o_T o) = (nvec * prodn (g_batch g))%N,
        (forall idx, (idx < size (o_Q o))%N -> let Q := nth [::] (o_Q o) idx in
             size Q = n /\ forall i, (i < n)%N -> size (nth [::] Q i) = m) &
        (forall idx, (idx < size (o_T o))%N -> let T := nth [::] (o_T o) idx in
             size T = m /\ forall i, (i < m)%N -> size (nth [::] T i) = m)].
Proof. exact: lanczos_trim_shapes_gen. Qed.

(* 3. Error paths: non-callable closure; the three debug-mode argument checks; IndexError whenever min(max_iter, n) < 2
      on the pinned source (known finding C09-budget-one-indexerror, transcribed), < 1 on the repaired one. *)
Theorem C09_guards_any_arith (F : Type) (A : Arith F) (g : lz_args F) :
  [/\ ~~ g_callable g -> lanczos_tridiag A g = Err ErrNotCallable,
      (forall iv, g_callable g -> g_init g = Some iv -> g_debug g -> ~~ i_dtype_ok iv ->
         lanczos_tridiag A g = Err ErrDtype),
      (forall iv, g_callable g -> g_init g = Some iv -> g_debug g -> i_dtype_ok iv -> g_batch g != i_batch iv ->
         lanczos_tridiag A g = Err ErrBatchShape),
      (forall iv, g_callable g -> g_init g = Some iv -> g_debug g -> i_dtype_ok iv -> g_batch g = i_batch iv ->
         ~~ i_onedim iv -> g_n g != i_n iv -> lanczos_tridiag A g = Err ErrMatrixShape) &
      (forall nvec init, g_callable g -> lz_start g = Ok (nvec, init) ->
         (minn (g_max_iter g) (g_n g) < (if g_first_guard g then 1 else 2))%N ->
         lanczos_tridiag A g = Err ErrIndex)].
Proof. exact: lanczos_guards_gen. Qed.

(* 3a. The repaired source (fix C09-degenerate-budget-and-start, flag g_first_guard; which version the tree under test
       contains is probed on every run) serves a budget of one iteration and start vectors that all span an invariant
       subspace (every beta_0 <= 1e-6): it returns after the first step with a single Lanczos vector, Q = q_0,
       T = [alpha_0].  Theorems 4-8, 14, 15 cover that outcome as well (m = 1). *)
Theorem C09_first_step_stop_any_arith (F : Type) (A : Arith F) (g : lz_args F) nvec init :
  g_callable g -> lz_start g = Ok (nvec, init) -> g_first_guard g -> (0 < minn (g_max_iter g) (g_n g))%N ->
  (minn (g_max_iter g) (g_n g) < 2)%N
  || ~~ has (fun b => altb A (g_brk g) (aabs A b))
            (lz_beta0 A (g_n g) (prodn (g_batch g) * nvec) (g_mm g) init) ->
  exists2 o, lanczos_tridiag A g = Ok o & o_m o = 1%N.
Proof. exact: lanczos_first_step_stop_gen. Qed.

(* 3b. A 1-D init_vecs: IndexError (from init_vecs.size(-2) in debug mode, from torch.norm(.., dim=-2) otherwise).
       root_inv_decomposition's own argument check (theorem 18) lets a 1-D initial vector of the right length through,
       so this is what op.root_inv_decomposition(initial_vectors=v) does for a vector v: known finding
       C09-initial-vector-1d. *)
Theorem C09_onedim_init_any_arith (F : Type) (A : Arith F) (g : lz_args F) iv :
  g_callable g -> g_init g = Some iv -> i_onedim iv ->
  (g_debug g -> i_dtype_ok iv /\ g_batch g = i_batch iv) -> lanczos_tridiag A g = Err ErrIndex.
Proof. exact: lanczos_onedim_gen. Qed.

(* 4. Orthonormality.  Exact arithmetic, ANY closure (not even linear), every budget / size / batch / number of
      start vectors: for a leading index whose start vector is non-zero and whose betas that were divided by
      (the off-diagonal entries of the returned T) are non-zero, Q^T Q = I.  Other columns of the batch may
      break down or trigger extra re-orthogonalisation passes: they do not disturb this one. *)
Theorem C09_orthonormal (F : rcfType) (g : lz_args F) o nvec init :
  lanczos_tridiag (ArR F) g = Ok o -> lz_start g = Ok (nvec, init) ->
  forall idx, (idx < size (o_Q o))%N ->
    let n := g_n g in let m := o_m o in
    let Q := nth [::] (o_Q o) idx in let T := nth [::] (o_T o) idx in
    cv n init (col_of (prodn (g_batch g)) nvec idx) != 0 ->
    (forall j, (j.+1 < m)%N -> mget (ArR F) T j j.+1 != 0) ->
    (mx_of n m Q)^T *m mx_of n m Q = 1%:M.
Proof. exact: lanczos_orthonormal_rcf. Qed.

(* 5. Projection and Arnoldi relation.  As 4, and the closure acts on this column as a symmetric matrix Am:
      Q^T A Q = T; all columns of A Q - Q T except the last vanish; the residual is orthogonal to Q. *)
Theorem C09_projection (F : rcfType) (g : lz_args F) o nvec init :
  lanczos_tridiag (ArR F) g = Ok o -> lz_start g = Ok (nvec, init) ->
  forall idx, (idx < size (o_Q o))%N ->
    let n := g_n g in let m := o_m o in
    let c := col_of (prodn (g_batch g)) nvec idx in
    let Q := nth [::] (o_Q o) idx in let T := nth [::] (o_T o) idx in
    forall Am : 'M[F]_n,
    (forall X, cv n (g_mm g X) c = Am *m cv n X c) -> Am^T = Am ->
    cv n init c != 0 ->
    (forall j, (j.+1 < m)%N -> mget (ArR F) T j j.+1 != 0) ->
    let Qm := mx_of n m Q in let Tm := mx_of m m T in
    [/\ Qm^T *m Am *m Qm = Tm,
        (forall j : 'I_m, (j.+1 < m)%N -> col j (Am *m Qm - Qm *m Tm) = 0) &
        Qm^T *m (Am *m Qm - Qm *m Tm) = 0].
Proof. exact: lanczos_projection_rcf. Qed.

(* 6. When the budget reaches the dimension (m = n) the decomposition is exact: Q Q^T = I and Q T Q^T = A. *)
Theorem C09_full_space (F : rcfType) (g : lz_args F) o nvec init :
  lanczos_tridiag (ArR F) g = Ok o -> lz_start g = Ok (nvec, init) ->
  forall idx, (idx < size (o_Q o))%N ->
    let n := g_n g in let m := o_m o in
    let c := col_of (prodn (g_batch g)) nvec idx in
    let Q := nth [::] (o_Q o) idx in let T := nth [::] (o_T o) idx in
    forall Am : 'M[F]_n,
    (forall X, cv n (g_mm g X) c = Am *m cv n X c) -> Am^T = Am ->
    cv n init c != 0 ->
    (forall j, (j.+1 < m)%N -> mget (ArR F) T j j.+1 != 0) ->
    m = n ->
    let Qm := mx_of n m Q in let Tm := mx_of m m T in
    Qm *m Qm^T = 1%:M /\ Qm *m Tm *m Qm^T = Am.
Proof.
move=> Hrun Hstart idx hidx /= Am Hlin Hsym Hv HG Em.
have [H1 _ _] := lanczos_projection_rcf Hrun Hstart hidx Hlin Hsym Hv HG.
exact: (full_space_mx Em (lanczos_orthonormal_rcf Hrun Hstart hidx Hv HG) H1).
Qed.

(* 7. In general Q T Q^T is the orthogonal compression P A P of A onto span Q (P = Q Q^T is a symmetric
      idempotent); this is what the Lanczos root decomposition R R^T = Q T Q^T approximates A by. *)
Theorem C09_compression (F : rcfType) (g : lz_args F) o nvec init :
  lanczos_tridiag (ArR F) g = Ok o -> lz_start g = Ok (nvec, init) ->
  forall idx, (idx < size (o_Q o))%N ->
    let n := g_n g in let m := o_m o in
    let c := col_of (prodn (g_batch g)) nvec idx in
    let Q := nth [::] (o_Q o) idx in let T := nth [::] (o_T o) idx in
    forall Am : 'M[F]_n,
    (forall X, cv n (g_mm g X) c = Am *m cv n X c) -> Am^T = Am ->
    cv n init c != 0 ->
    (forall j, (j.+1 < m)%N -> mget (ArR F) T j j.+1 != 0) ->
    let Qm := mx_of n m Q in let Tm := mx_of m m T in
    let P := Qm *m Qm^T in
    [/\ P *m P = P, P^T = P & Qm *m Tm *m Qm^T = P *m Am *m P].
Proof.
move=> Hrun Hstart idx hidx /= Am Hlin Hsym Hv HG.
have [H1 _ _] := lanczos_projection_rcf Hrun Hstart hidx Hlin Hsym Hv HG.
exact: (compression_mx (lanczos_orthonormal_rcf Hrun Hstart hidx Hv HG) H1).
Qed.

(* 8. Breakdown exit.  Every column driven by a symmetric matrix, tol >= 0, at least one extra pass allowed, no
      breakdown before the exit: if the loop stops early (m < min(max_iter, n)) the only non-zero column of
      A Q - Q T (the last) has norm <= the threshold 1e-6, in every column.  In exact arithmetic the extra
      re-orthogonalisation passes never run, so an early exit can only come from the beta test. *)
Theorem C09_early_exit (F : rcfType) (g : lz_args F) o nvec init :
  lanczos_tridiag (ArR F) g = Ok o -> lz_start g = Ok (nvec, init) ->
  let n := g_n g in let C := (prodn (g_batch g) * nvec)%N in let m := o_m o in
  forall Am : nat -> 'M[F]_n,
  (forall c X, (c < C)%N -> cv n (g_mm g X) c = Am c *m cv n X c) ->
  (forall c, (c < C)%N -> (Am c)^T = Am c) ->
  0 <= g_tol g -> (0 < g_extra g)%N ->
  (forall c, (c < C)%N -> cv n init c != 0) ->
  (forall idx, (idx < size (o_T o))%N -> forall j, (j.+1 < m)%N -> mget (ArR F) (nth [::] (o_T o) idx) j j.+1 != 0) ->
  (m < minn (g_max_iter g) n)%N ->
  forall idx, (idx < size (o_Q o))%N -> forall j : 'I_m, j.+1 = m ->
    let c := col_of (prodn (g_batch g)) nvec idx in
    let Qm := mx_of n m (nth [::] (o_Q o) idx) in let Tm := mx_of m m (nth [::] (o_T o) idx) in
    let rho_ := col j (Am c *m Qm - Qm *m Tm) in
    dotv rho_ rho_ <= (g_brk g) ^+ 2.
Proof. exact: lanczos_early_exit_rcf. Qed.

(* 8b. ... so the beta of the classical form (theorem 15) is at most the threshold at an early exit. *)
Theorem C09_early_exit_beta (F : rcfType) (g : lz_args F) o nvec init :
  lanczos_tridiag (ArR F) g = Ok o -> lz_start g = Ok (nvec, init) ->
  let n := g_n g in let C := (prodn (g_batch g) * nvec)%N in let m := o_m o in
  forall Am : nat -> 'M[F]_n,
  (forall c X, (c < C)%N -> cv n (g_mm g X) c = Am c *m cv n X c) ->
  (forall c, (c < C)%N -> (Am c)^T = Am c) ->
  0 <= g_tol g -> (0 < g_extra g)%N ->
  (forall c, (c < C)%N -> cv n init c != 0) ->
  (forall idx, (idx < size (o_T o))%N -> forall j, (j.+1 < m)%N -> mget (ArR F) (nth [::] (o_T o) idx) j j.+1 != 0) ->
  (m < minn (g_max_iter g) n)%N ->
  forall idx, (idx < size (o_Q o))%N -> forall j : 'I_m, j.+1 = m ->
    let c := col_of (prodn (g_batch g)) nvec idx in
    let Qm := mx_of n m (nth [::] (o_Q o) idx) in let Tm := mx_of m m (nth [::] (o_T o) idx) in
    let rho_ := col j (Am c *m Qm - Qm *m Tm) in
    Num.sqrt (dotv rho_ rho_) <= `|g_brk g|.
Proof. exact: lanczos_early_exit_beta_rcf. Qed.

(* 9. lanczos_tridiag_to_diag: the masked eigenvectors / eigenvalues reproduce the PSD part
      V diag(max(lambda, 0)) V^T  (no hypothesis on (evals, evecs): pure masking lemma). *)
Theorem C09_tridiag_to_diag_mask (F : rcfType) (k : nat) (evals : vec F) (evecs : mat F) :
  let V := mx_of k k evecs in
  let ev' := (tridiag_to_diag (ArR F) k evals evecs).1 in
  let V' := mx_of k k (tridiag_to_diag (ArR F) k evals evecs).2 in
  V' *m diag_mx (rv k ev') *m V'^T = V *m diag_mx (\row_j pos_part (vget (ArR F) evals j)) *m V^T.
Proof. exact: tridiag_to_diag_mask. Qed.

(* 10. RootDecomposition.forward, given that (evals, evecs) is an orthogonal diagonalisation of the jittered
       tridiagonal matrix Tj (the specification of torch.linalg.eigh): with non-negative Ritz values
       R R^T = Q Tj Q^T; with positive ones and orthonormal Q, (Q Tj Q^T)(Rinv Rinv^T) = Q Q^T. *)
Theorem C09_root_reproduces (F : rcfType) (n k : nat) (Q : mat F) (Tj : 'M[F]_k) (evals : vec F) (evecs : mat F) :
  let Qm := mx_of n k Q in let V := mx_of k k evecs in
  V^T *m V = 1%:M -> Tj *m V = V *m diag_mx (rv k evals) ->
  let R := mx_of n k (root_post (ArR F) n k Q evals evecs).1 in
  let Ri := mx_of n k (root_post (ArR F) n k Q evals evecs).2 in
  ((forall j : 'I_k, 0 <= vget (ArR F) evals j) -> R *m R^T = Qm *m Tj *m Qm^T) /\
  ((forall j : 'I_k, 0 < vget (ArR F) evals j) -> Qm^T *m Qm = 1%:M ->
     (Qm *m Tj *m Qm^T) *m (Ri *m Ri^T) = Qm *m Qm^T).
Proof.
move=> /= VtV Hdiag; split; first exact: root_reproduces.
exact: inv_root_reproduces.
Qed.

(* 11. Lanczos + jitter + post-processing (what root_decomposition / root_inv_decomposition(method="lanczos")
       return): R R^T = P A P + jm P with P = Q Q^T and jm = tridiagonal_jitter * min(diag T); the inverse root
       inverts it on span Q; when m = n: R R^T = A + jm I and (A + jm I) Rinv Rinv^T = I. *)
Theorem C09_root_of_lanczos (F : rcfType) (g : lz_args F) o nvec init :
  lanczos_tridiag (ArR F) g = Ok o -> lz_start g = Ok (nvec, init) ->
  forall idx, (idx < size (o_Q o))%N ->
    let n := g_n g in let m := o_m o in
    let c := col_of (prodn (g_batch g)) nvec idx in
    let Q := nth [::] (o_Q o) idx in let T := nth [::] (o_T o) idx in
    forall Am : 'M[F]_n,
    (forall X, cv n (g_mm g X) c = Am *m cv n X c) -> Am^T = Am ->
    cv n init c != 0 ->
    (forall j, (j.+1 < m)%N -> mget (ArR F) T j j.+1 != 0) ->
    forall (jit : F) (evals : vec F) (evecs : mat F),
    let Tj := add_jitter (ArR F) false jit m T in
    let V := mx_of m m evecs in
    V^T *m V = 1%:M -> mx_of m m Tj *m V = V *m diag_mx (rv m evals) ->
    let Qm := mx_of n m Q in let P := Qm *m Qm^T in
    let jm := jit * minl (ArR F) (mkseq (fun i => mget (ArR F) T i i) m) in
    let R := mx_of n m (root_post (ArR F) n m Q evals evecs).1 in
    let Ri := mx_of n m (root_post (ArR F) n m Q evals evecs).2 in
    [/\ (forall j : 'I_m, 0 <= vget (ArR F) evals j) -> R *m R^T = P *m Am *m P + jm *: P,
        (forall j : 'I_m, 0 < vget (ArR F) evals j) -> (P *m Am *m P + jm *: P) *m (Ri *m Ri^T) = P &
        m = n -> (forall j : 'I_m, 0 < vget (ArR F) evals j) ->
          R *m R^T = Am + jm%:M /\ (Am + jm%:M) *m (Ri *m Ri^T) = 1%:M].
Proof. exact: root_of_lanczos. Qed.

(* 11b. Diagonalization.forward, for BOTH forms of its jitter: [embed] = true is the code AS WRITTEN on the pinned tree
        (torch.diag_embed of a keepdim minimum is 1 x 1 and expand_as broadcasts it: the jitter lands on EVERY entry of
        T): Qd diag(evals) Qd^T = P A P + Q (jm 1 1^T) Q^T, the orthogonal compression only for zero jitter;
        [embed] = false is the diagonal jitter (docstring, RootDecomposition, proposed fix): = P A P + jm P, and
        = A + jm I on the full space.  [..._on_tree] instantiates it with the form that the tree under test uses
        (probed on every run, gen/Consts.v); [..._refuted]: the as-written matrix is NOT T + jm I (known finding
        C09-diagonalization-jitter-all-entries; witness T = I_2, jitter 1). *)
Theorem C09_diag_of_lanczos (F : rcfType) (embed : bool) (g : lz_args F) o nvec init :
  lanczos_tridiag (ArR F) g = Ok o -> lz_start g = Ok (nvec, init) ->
  forall idx, (idx < size (o_Q o))%N ->
    let n := g_n g in let m := o_m o in
    let c := col_of (prodn (g_batch g)) nvec idx in
    let Q := nth [::] (o_Q o) idx in let T := nth [::] (o_T o) idx in
    forall Am : 'M[F]_n,
    (forall X, cv n (g_mm g X) c = Am *m cv n X c) -> Am^T = Am ->
    cv n init c != 0 ->
    (forall j, (j.+1 < m)%N -> mget (ArR F) T j j.+1 != 0) ->
    forall (jit : F) (evals : vec F) (evecs : mat F),
    let Tj := add_jitter (ArR F) embed jit m T in
    let V := mx_of m m evecs in
    V^T *m V = 1%:M -> mx_of m m Tj *m V = V *m diag_mx (rv m evals) ->
    (forall j : 'I_m, 0 <= vget (ArR F) evals j) ->
    let Qm := mx_of n m Q in let P := Qm *m Qm^T in
    let jm := jit * minl (ArR F) (mkseq (fun i => mget (ArR F) T i i) m) in
    let Qd := mx_of n m (diag_post (ArR F) n m Q evals evecs).2 in
    let ev' := (diag_post (ArR F) n m Q evals evecs).1 in
    [/\ Qd *m diag_mx (rv m ev') *m Qd^T
          = P *m Am *m P + (if embed then Qm *m const_mx jm *m Qm^T else jm *: P),
        (jit = 0 -> Qd *m diag_mx (rv m ev') *m Qd^T = P *m Am *m P) &
        (~~ embed -> m = n -> Qd *m diag_mx (rv m ev') *m Qd^T = Am + jm%:M)].
Proof. exact: diag_of_lanczos_any_form. Qed.

Theorem C09_diag_of_lanczos_on_tree (F : rcfType) (g : lz_args F) o nvec init :
  lanczos_tridiag (ArR F) g = Ok o -> lz_start g = Ok (nvec, init) ->
  forall idx, (idx < size (o_Q o))%N ->
    let n := g_n g in let m := o_m o in
    let c := col_of (prodn (g_batch g)) nvec idx in
    let Q := nth [::] (o_Q o) idx in let T := nth [::] (o_T o) idx in
    forall Am : 'M[F]_n,
    (forall X, cv n (g_mm g X) c = Am *m cv n X c) -> Am^T = Am ->
    cv n init c != 0 ->
    (forall j, (j.+1 < m)%N -> mget (ArR F) T j j.+1 != 0) ->
    forall (jit : F) (evals : vec F) (evecs : mat F),
    let Tj := add_jitter (ArR F) diag_jitter_all_entries_lit jit m T in
    let V := mx_of m m evecs in
    V^T *m V = 1%:M -> mx_of m m Tj *m V = V *m diag_mx (rv m evals) ->
    (forall j : 'I_m, 0 <= vget (ArR F) evals j) ->
    let Qm := mx_of n m Q in let P := Qm *m Qm^T in
    let jm := jit * minl (ArR F) (mkseq (fun i => mget (ArR F) T i i) m) in
    let Qd := mx_of n m (diag_post (ArR F) n m Q evals evecs).2 in
    let ev' := (diag_post (ArR F) n m Q evals evecs).1 in
    Qd *m diag_mx (rv m ev') *m Qd^T
      = P *m Am *m P + (if diag_jitter_all_entries_lit then Qm *m const_mx jm *m Qm^T else jm *: P).
Proof.
move=> Hrun Hstart idx hidx /= Am Hlin Hsym Hv HG jit evals evecs VtV Hdiag Hev.
by have [] := diag_of_lanczos_any_form Hrun Hstart hidx Hlin Hsym Hv HG VtV Hdiag Hev.
Qed.

Theorem C09_diagonalization_jitter_refuted (F : rcfType) :
  exists (T : mat F) (jit : F),
    mx_of 2 2 (add_jitter (ArR F) true jit 2 T)
    != mx_of 2 2 T + (jit * minl (ArR F) (mkseq (fun i => mget (ArR F) T i i) 2))%:M.
Proof. exact: diagonalization_jitter_refuted. Qed.

(* 12. _postprocess_lanczos_root_inv_decomp: the chosen probe index is in range and has the smallest residual. *)
Theorem C09_best_probe_is_argmin (F : rcfType) (s : seq F) : s != [::] ->
  (argmin (ArR F) s < size s)%N /\ forall j, (j < size s)%N -> nth 0 s (argmin (ArR F) s) <= nth 0 s j.
Proof. exact: best_probe_is_argmin. Qed.

(* 13. The dense closure used by the correspondence (one n x n matrix per batch member) satisfies the linearity
       hypothesis of 5-8 and 11 with Am = the matrix of the column's batch member. *)
Theorem C09_dense_closure_linear (F : rcfType) (n nvec : nat) (Ms : seq (mat F)) (c : nat) :
  let M := nth [::] Ms (c %/ nvec) in
  size M = n -> (forall i, (i < n)%N -> size (nth [::] M i) = n) ->
  forall X, cv n (tensor_mm (ArR F) nvec Ms X) c = mx_of n n M *m cv n X c.
Proof. exact: dense_mm_lin. Qed.

(* 14. What survives a breakdown inside a batch (several columns share the loop; it only stops when ALL betas are
       small).  For ANY prefix length w <= m of a column whose betas beta_0 .. beta_{w-2} are non-zero -- whatever
       happens in that column afterwards and in the other columns --: the first w columns Q_w of Q are orthonormal,
       the leading block T_w of T is Q_w^T A Q_w, all columns of A Q_w - Q_w T_w but the last vanish; and if
       beta_{w-1} = 0 (the Krylov space of the column is exhausted at w) then A Q_w = Q_w T_w, i.e.
       Q_w T_w Q_w^T equals A on the Krylov space.  (w = m gives theorems 4 and 5 again.) *)
Theorem C09_breakdown_prefix (F : rcfType) (g : lz_args F) o nvec init :
  lanczos_tridiag (ArR F) g = Ok o -> lz_start g = Ok (nvec, init) ->
  forall idx, (idx < size (o_Q o))%N ->
    let n := g_n g in let m := o_m o in
    let c := col_of (prodn (g_batch g)) nvec idx in
    let Q := nth [::] (o_Q o) idx in let T := nth [::] (o_T o) idx in
    forall Am : 'M[F]_n,
    (forall X, cv n (g_mm g X) c = Am *m cv n X c) -> Am^T = Am ->
    cv n init c != 0 ->
    forall w, (0 < w <= m)%N ->
    (forall j, (j.+1 < w)%N -> mget (ArR F) T j j.+1 != 0) ->
    let Qw := mx_of n w Q in let Tw := mx_of w w T in
    [/\ Qw^T *m Qw = 1%:M, Qw^T *m Am *m Qw = Tw,
        (forall j : 'I_w, (j.+1 < w)%N -> col j (Am *m Qw - Qw *m Tw) = 0) &
        (w < m)%N -> mget (ArR F) T w.-1 w = 0 ->
          Am *m Qw = Qw *m Tw /\ forall y : 'cV[F]_w, (Qw *m Tw *m Qw^T) *m (Qw *m y) = Am *m (Qw *m y)].
Proof. exact: lanczos_breakdown_prefix_rcf. Qed.

(* 14b. Per-member independence.  [rq Am v k], [ra Am v k], [rb Am v k] (ProofsPrefix.v, Section Reference) are the Lanczos
        vectors / alphas / betas of the REFERENCE recurrence for one symmetric matrix Am and one start vector v, on MathComp
        column vectors: functions of (Am, v) and nothing else.  In every run, for every (start vector, batch member) and every
        prefix length w <= m whose betas beta_0 .. beta_{w-2} are non-zero, the first w columns of that member's Q and the
        leading block of its T ARE the reference recurrence of (its matrix, its start vector): they do not depend on the other
        members of the batch, the other start vectors, the batch shape, the budget, the tolerances, or on which of the others
        broke down.  (The correspondence compares member-wise on that ground.) *)
Theorem C09_member_independence (F : rcfType) (g : lz_args F) o nvec init :
  lanczos_tridiag (ArR F) g = Ok o -> lz_start g = Ok (nvec, init) ->
  forall idx, (idx < size (o_Q o))%N ->
    let n := g_n g in let m := o_m o in
    let c := col_of (prodn (g_batch g)) nvec idx in
    let Q := nth [::] (o_Q o) idx in let T := nth [::] (o_T o) idx in
    forall Am : 'M[F]_n,
    (forall X, cv n (g_mm g X) c = Am *m cv n X c) -> Am^T = Am ->
    cv n init c != 0 ->
    forall w, (0 < w <= m)%N ->
    (forall j, (j.+1 < w)%N -> mget (ArR F) T j j.+1 != 0) ->
    let v := cv n init c in
    (forall (x : 'I_n) (j : 'I_w), mx_of n w Q x j = rq Am v j x ord0) /\
    (forall i j : 'I_w, mx_of w w T i j
       = (if i.+1 == j :> nat then rb Am v i else 0) + (if i == j :> nat then ra Am v j else 0)
         + (if i == j.+1 :> nat then rb Am v j else 0)).
Proof. exact: lanczos_member_independence_rcf. Qed.

(* 15. The Lanczos relation in its classical form: A Q - Q T = beta q e_m^T with beta >= 0 the norm of the last column
       of A Q - Q T and q that column normalised: q is orthogonal to every column of Q and a unit vector unless
       beta = 0; the last column is (I - Q Q^T) A q_m, the part of A q_m outside span Q.  (At an early exit beta and q
       are the beta_curr / r_vec that the last loop body computed and the trimming dropped; theorem 8 bounds beta.) *)
Theorem C09_arnoldi_residual (F : rcfType) (g : lz_args F) o nvec init :
  lanczos_tridiag (ArR F) g = Ok o -> lz_start g = Ok (nvec, init) ->
  forall idx, (idx < size (o_Q o))%N ->
    let n := g_n g in let m := o_m o in
    let c := col_of (prodn (g_batch g)) nvec idx in
    let Q := nth [::] (o_Q o) idx in let T := nth [::] (o_T o) idx in
    forall Am : 'M[F]_n,
    (forall X, cv n (g_mm g X) c = Am *m cv n X c) -> Am^T = Am ->
    cv n init c != 0 ->
    (forall j, (j.+1 < m)%N -> mget (ArR F) T j j.+1 != 0) ->
    let Qm := mx_of n m Q in let Tm := mx_of m m T in
    forall jl : 'I_m, jl.+1 = m ->
    let r := col jl (Am *m Qm - Qm *m Tm) in
    let beta := Num.sqrt (dotv r r) in
    let qn := beta^-1 *: r in
    [/\ Am *m Qm - Qm *m Tm = beta *: (qn *m delta_mx ord0 jl),
        Qm^T *m qn = 0 /\ (beta != 0 -> dotv qn qn = 1),
        0 <= beta &
        r = (1%:M - Qm *m Qm^T) *m Am *m col jl Qm].
Proof. exact: lanczos_arnoldi_residual_rcf. Qed.

(* 16. _postprocess_lanczos_root_inv_decomp (lines 198-221 transcribed: solves R (R^T V), residual norms of
       A solves - V per test vector, summed over batch members and test vectors, torch.min): the returned inverse root
       is one of the probes', its summed residual is minimal, and if SOME probe solves every test system exactly
       (e.g. its Krylov space is the whole space, theorem 11) then so does the returned one. *)
Theorem C09_postprocess_best_probe (F : rcfType) (n k t : nat) (As Vs : seq (mat F)) (Rs : seq (seq (mat F))) :
  Rs != [::] ->
  let res := post_residuals (ArR F) n k t As Rs Vs in
  let sel := postprocess (ArR F) n k t As Rs Vs in
  [/\ (sel.1 < size Rs)%N, sel.2 = nth [::] Rs sel.1,
      (forall p, (p < size Rs)%N -> nth 0 res sel.1 <= nth 0 res p) &
      (forall p0, (p0 < size Rs)%N -> exact_on_tests n k t As Vs (nth [::] Rs p0) -> exact_on_tests n k t As Vs sel.2)].
Proof. exact: postprocess_best. Qed.

(* 17. Shapes handed back by the consumers (pure list reasoning: no arithmetic involved), for every number of probes,
       batch shape, n > 1, m > 1.  PINNED source (flag false): RootDecomposition.forward returns ( [nprobe,] *batch, n, m ),
       Diagonalization.forward ( *batch, m ) and ( *batch, n, m ), _postprocess_lanczos_root_inv_decomp ( *batch, n, m )
       -- EXCEPT that a leading batch dimension of size 1 is squeezed away (root / diagonalization: single probe and
       >= 2 batch dimensions; post-processing: any batch): known finding C09-leading-singleton-batch.  REPAIRED source
       (flag true): the specified shapes, always.  [..._on_tree]: for the versions the tree under test contains. *)
Theorem C09_consumer_shapes (nprobe : nat) (batch : seq nat) (n m : nat) :
  (0 < nprobe)%N -> (1 < m)%N -> (1 < n)%N ->
  [/\ (root_forward_shape false nprobe (lanczos_lead nprobe batch) n m == lanczos_lead nprobe batch ++ [:: n; m])
        = ~~ [&& nprobe == 1%N, (1 < size batch)%N & head 0%N batch == 1%N],
      (diag_forward_shape false batch n m == (batch ++ [:: m], batch ++ [:: n; m]))
        = ~~ ((1 < size batch)%N && (head 0%N batch == 1%N)) &
      (postprocess_shape false batch n m == batch ++ [:: n; m]) = ~~ ((0 < size batch)%N && (head 0%N batch == 1%N))].
Proof.
move=> np0 m1 n1; split.
- exact: root_forward_shape_spec.
- exact: diag_forward_shape_spec.
- exact: postprocess_shape_spec.
Qed.

Theorem C09_consumer_shapes_repaired (nprobe : nat) (batch : seq nat) (n m : nat) :
  [/\ root_forward_shape true nprobe (lanczos_lead nprobe batch) n m = lanczos_lead nprobe batch ++ [:: n; m],
      diag_forward_shape true batch n m = (batch ++ [:: m], batch ++ [:: n; m]) &
      postprocess_shape true batch n m = batch ++ [:: n; m]].
Proof. exact: fixed_shapes_spec. Qed.

Theorem C09_consumer_shapes_on_tree (nprobe : nat) (batch : seq nat) (n m : nat) :
  (0 < nprobe)%N -> (1 < m)%N -> (1 < n)%N ->
  [/\ (root_forward_shape root_shape_fixed_lit nprobe (lanczos_lead nprobe batch) n m
         == lanczos_lead nprobe batch ++ [:: n; m])
        = root_shape_fixed_lit || ~~ [&& nprobe == 1%N, (1 < size batch)%N & head 0%N batch == 1%N],
      (diag_forward_shape diag_shape_fixed_lit batch n m == (batch ++ [:: m], batch ++ [:: n; m]))
        = diag_shape_fixed_lit || ~~ ((1 < size batch)%N && (head 0%N batch == 1%N)) &
      (postprocess_shape post_shape_fixed_lit batch n m == batch ++ [:: n; m])
        = post_shape_fixed_lit || ~~ ((0 < size batch)%N && (head 0%N batch == 1%N))].
Proof.
move=> np0 m1 n1.
have [P1 P2 P3] := C09_consumer_shapes batch np0 m1 n1.
have [R1 R2 R3] := C09_consumer_shapes_repaired nprobe batch n m.
split.
- by case: root_shape_fixed_lit; rewrite ?R1 ?eqxx ?P1.
- by case: diag_shape_fixed_lit; rewrite ?R2 ?eqxx ?P2.
- by case: post_shape_fixed_lit; rewrite ?R3 ?eqxx ?P3.
Qed.

(* 18. root_inv_decomposition's check of initial_vectors.shape (operators/_linear_operator.py lines 2237-2254) raises
       unless the shape is ( *batch, n, k ) or, for an operator without batch dimensions, the 1-D shape (n). *)
Theorem C09_root_inv_guard (batch : seq nat) (n : nat) (ivs : seq nat) :
  root_inv_guard_raises batch n ivs
  = ~~ (((batch == [::]) && (ivs == [:: n]))
        || [&& size ivs == (size batch).+2, take (size batch) ivs == batch & nth 0%N ivs (size batch) == n]).
Proof. exact: root_inv_guard_spec. Qed.

(* 19. StochasticLQ.to_dense (the stochastic trace / log-determinant consumer), transcribed: for every number of
       probes, Krylov size and list of functions, entry i of the result is
           sum_j n / num_probes * sum_l evecs_j[0, l]^2 * f_i(evals_j[l])
       -- it depends on f_i only (one accumulator per function).  [C09_slq_quadrature]: each inner sum is the quadratic
       form q_0^T f(A) q_0 of f(A) = U f(Lambda) U^T at the normalised probe, U = Q V the orthonormal eigenbasis of A
       on span Q, whenever Q^T Q = I and A Q = Q T (theorems 4-6 / 14: full or exhausted Krylov space) and
       (evals, evecs) diagonalise T (eigh's specification). *)
Theorem C09_slq_to_dense (F : rcfType) (n k : nat) (evals : seq (vec F)) (evecs : seq (mat F)) (funcs : seq (F -> F)) i :
  (i < size funcs)%N ->
  nth 0 (slq_to_dense (ArR F) n k evals evecs funcs) i
  = \sum_(j < size evals) n%:R / (size evals)%:R
      * \sum_(l < k) (mget (ArR F) (nth [::] evecs j) 0 l) ^+ 2 * (nth id funcs i) (vget (ArR F) (nth [::] evals j) l).
Proof. exact: slq_to_dense_closed. Qed.

Theorem C09_slq_quadrature (F : rcfType) (n m : nat) (Q : 'M[F]_(n, m.+1)) (T V : 'M[F]_m.+1) (A : 'M[F]_n)
    (lam : 'rV[F]_m.+1) (f : F -> F) :
  Q^T *m Q = 1%:M -> A *m Q = Q *m T -> V^T *m V = 1%:M -> T *m V = V *m diag_mx lam ->
  let U := Q *m V in let q0 := col ord0 Q in
  [/\ U^T *m U = 1%:M, A *m U = U *m diag_mx lam &
      \sum_l (V ord0 l) ^+ 2 * f (lam ord0 l) = (q0^T *m (U *m diag_mx (\row_l f (lam ord0 l)) *m U^T) *m q0) ord0 ord0].
Proof. exact: slq_quadrature. Qed.

Theorem C09_leading_singleton_batch_refuted :
  root_forward_shape false 1 (lanczos_lead 1 [:: 1; 2]%N) 5 5 = [:: 2; 5; 5]%N
  /\ (diag_forward_shape false [:: 1; 2]%N 5 5).2 = [:: 2; 5; 5]%N /\ postprocess_shape false [:: 1]%N 6 4 = [:: 6; 4]%N.
Proof. by []. Qed.

(* Non-vacuity: on A = [[1,1],[1,1]], start vector e_1, budget 2 (over any real closed field, any tol / threshold)
   the run succeeds and every hypothesis of theorems 4-7 and 11 holds, including m = n. *)
Example C09_hypotheses_satisfiable (F : rcfType) (tol brk : F) :
  exists o,
    [/\ lanczos_tridiag (ArR F) (exG tol brk) = Ok o /\ lz_start (exG tol brk) = Ok (1%N, exInit F),
        (0 < size (o_Q o))%N /\ o_m o = g_n (exG tol brk),
        cv 2 (exInit F) (col_of (prodn (g_batch (exG tol brk))) 1 0) != 0,
        (forall j, (j.+1 < o_m o)%N -> mget (ArR F) (nth [::] (o_T o) 0) j j.+1 != 0) &
        (forall X, cv 2 (g_mm (exG tol brk) X) 0 = mx_of 2 2 (exA F) *m cv 2 X 0)
        /\ (mx_of 2 2 (exA F))^T = mx_of 2 2 (exA F)].
Proof. exact: ex_satisfiable. Qed.

(* ... and on the REPAIRED source (both flags set), for every threshold below beta_0 = 1. *)
Example C09_hypotheses_satisfiable_repaired (F : rcfType) (tol brk : F) : brk < 1 ->
  exists o,
    [/\ lanczos_tridiag (ArR F) (exGr tol brk) = Ok o /\ lz_start (exGr tol brk) = Ok (1%N, exInit F),
        (0 < size (o_Q o))%N /\ o_m o = g_n (exGr tol brk),
        cv 2 (exInit F) (col_of (prodn (g_batch (exGr tol brk))) 1 0) != 0,
        (forall j, (j.+1 < o_m o)%N -> mget (ArR F) (nth [::] (o_T o) 0) j j.+1 != 0) &
        (forall X, cv 2 (g_mm (exGr tol brk) X) 0 = mx_of 2 2 (exA F) *m cv 2 X 0)
        /\ (mx_of 2 2 (exA F))^T = mx_of 2 2 (exA F)].
Proof. exact: ex_satisfiable_repaired. Qed.

(* Non-vacuity of the breakdown clause of theorem 14 (on the pinned source; on the repaired one the same situation
   needs a second column that keeps the loop going -- exercised by the mixed-batch cells of the correspondence): A = I_2, start e_1, budget 2: beta_0 = 0 but m = 2 (with two
   iterations the loop has no break test), so w = 1 < m, T[0][1] = 0 and all other hypotheses hold. *)
Example C09_breakdown_prefix_satisfiable (F : rcfType) (tol brk : F) :
  exists o,
    [/\ lanczos_tridiag (ArR F) (exG2 tol brk) = Ok o /\ lz_start (exG2 tol brk) = Ok (1%N, exInit F),
        (0 < size (o_Q o))%N /\ (0 < 1 <= o_m o)%N /\ (1 < o_m o)%N,
        cv 2 (exInit F) (col_of (prodn (g_batch (exG2 tol brk))) 1 0) != 0,
        mget (ArR F) (nth [::] (o_T o) 0) 0 1 = 0 &
        (forall X, cv 2 (g_mm (exG2 tol brk) X) 0 = mx_of 2 2 (exI F) *m cv 2 X 0)
        /\ (mx_of 2 2 (exI F))^T = mx_of 2 2 (exI F)].
Proof. exact: ex_breakdown_satisfiable. Qed.

(* Non-vacuity of theorem 16: a probe whose inverse root solves the test systems exactly (A = R = V = [1]). *)
Example C09_exact_on_tests_satisfiable (F : rcfType) :
  exact_on_tests 1 1 1 [:: [:: [:: 1 : F]]] [:: [:: [:: 1 : F]]] [:: [:: [:: 1 : F]]].
Proof.
move=> [|b] // _; apply/matrixP => i j.
rewrite !ord1 !mxE !big_ord1 !mxE !big_ord1 !mxE /mget /=.
by rewrite big_ord1 !mxE /mget /= !mul1r.
Qed.
