(* placeholder while the proofs are being written *)
From mathcomp Require Import ssreflect ssrfun ssrbool eqtype ssrnat seq.
Require Import C09.Model.
Theorem stub_partial (F : Type) (A : Arith F) : prodn [::] = 1.
Proof. by []. Qed.
