(* C09 — the post-processing of (Q, T) over a real closed field: lanczos_tridiag_to_diag (masking of negative
   Ritz values), the tridiagonal jitter, the root / inverse root of RootDecomposition.forward, the
   diagonalisation of Diagonalization.forward, and the choice of the best probe. torch.linalg.eigh is
   represented by its specification (hypotheses on the (evals, evecs) it returns). *)
From mathcomp Require Import all_ssreflect all_algebra.
From mathcomp Require Import zify.
Require Import C09.Model C09.ProofsGen C09.ProofsAlg.
Set Implicit Arguments.
Unset Strict Implicit.
Unset Printing Implicit Defensive.
Import Order.Theory GRing.Theory Num.Theory.
Local Open Scope ring_scope.

Section Post.
Variable F : rcfType.
Notation ArR := (ArR F).

Definition rv (k : nat) (v : vec F) : 'rV[F]_k := \row_j vget ArR v j.

(* the PSD part of the spectrum / its pseudo-inverse *)
Definition pos_part (x : F) : F := if 0 <= x then x else 0.
Definition pinv_part (x : F) : F := if 0 <= x then x^-1 else 0.

Section Mask.
Variables (k : nat) (evals : vec F) (evecs : mat F).
Let V := mx_of k k evecs.
Let ev' := (tridiag_to_diag ArR k evals evecs).1.
Let V' := mx_of k k (tridiag_to_diag ArR k evals evecs).2.

Lemma mask_evecs (i j : 'I_k) : V' i j = V i j * (if 0 <= vget ArR evals j then 1 else 0).
Proof. by rewrite /V' /tridiag_to_diag /= !mxE mget_mtab // nth_mkseq. Qed.

Lemma mask_evals (j : 'I_k) : rv k ev' ord0 j = if 0 <= vget ArR evals j then vget ArR evals j else 1.
Proof. by rewrite /ev' /tridiag_to_diag /= !mxE vget_mkseq // nth_mkseq. Qed.

Lemma mask_evals_ge0 (j : 'I_k) : 0 <= rv k ev' ord0 j.
Proof. have -> := mask_evals j. by case: ifP => // _; exact: ler01. Qed.

(* for any function f of the (masked) eigenvalues that is applied afterwards (identity, sqrt^2, reciprocal):
   V' diag(f ev') V'^T = V diag(g ev) V^T  where g x = f x on x >= 0 and 0 on x < 0 *)
Lemma mask_sandwich (f : F -> F) :
  V' *m diag_mx (\row_j f (rv k ev' ord0 j)) *m V'^T
  = V *m diag_mx (\row_j (if 0 <= vget ArR evals j then f (vget ArR evals j) else 0)) *m V^T.
Proof.
apply/matrixP => i l; rewrite [LHS]mxE [RHS]mxE; apply: eq_bigr => j _.
rewrite !mul_mx_diag ![_^T j l]mxE [X in X * _ = _]mxE [X in _ = X * _]mxE.
rewrite [X in _ * X * _ = _]mxE [X in _ = _ * X * _]mxE mask_evals !mask_evecs.
by case: ifP => _; rewrite ?mulr1 ?mulr0 ?mul0r.
Qed.

(* tridiag_to_diag_mask: the masked eigen-pairs reproduce the PSD part V diag(max(ev, 0)) V^T *)
Lemma tridiag_to_diag_mask :
  V' *m diag_mx (rv k ev') *m V'^T = V *m diag_mx (\row_j pos_part (vget ArR evals j)) *m V^T.
Proof.
have H := mask_sandwich id.
have E1 : \row_j id (rv k ev' ord0 j) = rv k ev' by apply/rowP => j; rewrite mxE.
rewrite E1 in H; rewrite H.
by congr (_ *m diag_mx _ *m _); apply/rowP => j; rewrite !mxE.
Qed.

End Mask.

(* ---------------------------------------------------------------- jitter *)
Lemma add_jitter_mx (jit : F) k (T : mat F) :
  mx_of k k (add_jitter ArR false jit k T)
  = mx_of k k T + (jit * minl ArR (mkseq (fun i => mget ArR T i i) k))%:M.
Proof.
apply/matrixP => i j; rewrite !mxE mget_mtab //=.
by rewrite -val_eqE /=; case: eqP => _ //=; rewrite ?mulr1 ?mulr0 ?mulr1n ?mulr0n.
Qed.

(* Diagonalization.forward as written: the jitter lands on every entry *)
Lemma add_jitter_embed_mx (jit : F) k (T : mat F) :
  mx_of k k (add_jitter ArR true jit k T)
  = mx_of k k T + const_mx (jit * minl ArR (mkseq (fun i => mget ArR T i i) k)).
Proof. by apply/matrixP => i j; rewrite !mxE mget_mtab. Qed.

(* ... which is not the diagonal jitter of the docstring / of RootDecomposition (known finding
   C09-diagonalization-jitter-all-entries): witness T = I_2, jitter 1 *)
Lemma diagonalization_jitter_refuted :
  exists (T : mat F) (jit : F),
    mx_of 2 2 (add_jitter ArR true jit 2 T)
    != mx_of 2 2 T + (jit * minl ArR (mkseq (fun i => mget ArR T i i) 2))%:M.
Proof.
exists [:: [:: 1; 0]; [:: 0; 1]], 1.
apply/eqP => /matrixP /(_ ord0 (lift ord0 ord0)).
rewrite !mxE /= /mget /= /minl /= /amin /=.
have -> : ((1 : F) < 1) = false by rewrite ltxx.
by rewrite mulr1 add0r mulr0n addr0 => /eqP; rewrite oner_eq0.
Qed.

(* ---------------------------------------------------------------- root / inverse root / diagonalisation *)
Section Root.
Variables (n k : nat) (Q : mat F) (evals : vec F) (evecs : mat F).
Let Qm := mx_of n k Q.
Let V := mx_of k k evecs.
Let R := mx_of n k (root_post ArR n k Q evals evecs).1.
Let Ri := mx_of n k (root_post ArR n k Q evals evecs).2.
Let ev' := (tridiag_to_diag ArR k evals evecs).1.
Let V' := mx_of k k (tridiag_to_diag ArR k evals evecs).2.

Lemma mmul_mx (X Y : mat F) : mx_of n k (mmul ArR n k k X Y) = mx_of n k X *m mx_of k k Y.
Proof.
apply/matrixP => i j; rewrite !mxE mget_mtab // sumn_big.
by apply: eq_bigr => l _; rewrite !mxE.
Qed.

Lemma root_mx : R = Qm *m V' *m diag_mx (\row_j Num.sqrt (rv k ev' ord0 j)).
Proof.
rewrite /R /root_post /=; apply/matrixP => i j.
rewrite mul_mx_diag !mxE mget_mtab //= -/(mmul ArR n k k _ _).
have -> : mget ArR (mmul ArR n k k Q (tridiag_to_diag ArR k evals evecs).2) i j
          = (Qm *m V') i j by rewrite -mmul_mx mxE.
by rewrite vget_mkseq // !mxE.
Qed.

Lemma inv_mx : Ri = Qm *m V' *m diag_mx (\row_j (Num.sqrt (rv k ev' ord0 j))^-1).
Proof.
rewrite /Ri /root_post /=; apply/matrixP => i j.
rewrite mul_mx_diag !mxE mget_mtab //= -/(mmul ArR n k k _ _).
have -> : mget ArR (mmul ArR n k k Q (tridiag_to_diag ArR k evals evecs).2) i j
          = (Qm *m V') i j by rewrite -mmul_mx mxE.
by rewrite vget_mkseq // !mxE.
Qed.

Lemma diag_sq (d : 'rV[F]_k) : diag_mx d *m (diag_mx d)^T = diag_mx (\row_j (d ord0 j) ^+ 2).
Proof.
rewrite tr_diag_mx mul_diag_mx; apply/matrixP => i j; rewrite !mxE.
by case: eqP => [->|_]; rewrite ?mulr1n ?mulr0n ?mulr0 // expr2.
Qed.

(* R R^T = Q (V diag(max(ev, 0)) V^T) Q^T *)
Lemma sqrt_sq_ev' : \row_j ((\row_j0 Num.sqrt (rv k ev' ord0 j0)) ord0 j) ^+ 2 = rv k ev'.
Proof.
apply/rowP => j; rewrite [LHS]mxE [X in X ^+ 2]mxE sqr_sqrtr //.
exact: mask_evals_ge0.
Qed.

(* R R^T = Q (V diag(max(ev, 0)) V^T) Q^T *)
Lemma root_sq : R *m R^T = Qm *m (V *m diag_mx (\row_j pos_part (vget ArR evals j)) *m V^T) *m Qm^T.
Proof.
rewrite root_mx; set S := diag_mx _.
have -> : Qm *m V' *m S *m (Qm *m V' *m S)^T = Qm *m (V' *m (S *m S^T) *m V'^T) *m Qm^T.
  by rewrite !trmx_mul !mulmxA.
by rewrite /S diag_sq sqrt_sq_ev' tridiag_to_diag_mask.
Qed.

Lemma inv_sq_ev' :
  \row_j ((\row_j0 (Num.sqrt (rv k ev' ord0 j0))^-1) ord0 j) ^+ 2 = \row_j (rv k ev' ord0 j)^-1.
Proof.
apply/rowP => j; rewrite [LHS]mxE [X in X ^+ 2]mxE [RHS]mxE exprVn sqr_sqrtr //.
exact: mask_evals_ge0.
Qed.

(* Ri Ri^T = Q (V diag(1/ev on ev >= 0, 0 otherwise) V^T) Q^T *)
Lemma inv_sq : Ri *m Ri^T = Qm *m (V *m diag_mx (\row_j pinv_part (vget ArR evals j)) *m V^T) *m Qm^T.
Proof.
rewrite inv_mx; set S := diag_mx _.
have -> : Qm *m V' *m S *m (Qm *m V' *m S)^T = Qm *m (V' *m (S *m S^T) *m V'^T) *m Qm^T.
  by rewrite !trmx_mul !mulmxA.
rewrite /S diag_sq inv_sq_ev' (mask_sandwich k evals evecs (fun x => x^-1)).
by congr (_ *m (_ *m diag_mx _ *m _) *m _); apply/rowP => j; rewrite !mxE.
Qed.

(* Diagonalization.forward: eigenvalues = masked evals, q_mat = Q V' *)
Lemma diag_post_mx :
  mx_of n k (diag_post ArR n k Q evals evecs).2 = Qm *m V' /\ (diag_post ArR n k Q evals evecs).1 = ev'.
Proof. by rewrite /diag_post /= mmul_mx. Qed.

End Root.
(* ---------------------------------------------------------------- what torch.linalg.eigh is assumed to return *)
Section Eigh.
Variables (k : nat) (Tm V : 'M[F]_k) (lam : 'rV[F]_k).
Hypothesis VtV : V^T *m V = 1%:M.
Hypothesis Hdiag : Tm *m V = V *m diag_mx lam.

Lemma eigh_VVt : V *m V^T = 1%:M.
Proof. exact: mulmx1C. Qed.

Lemma eigh_recon : V *m diag_mx lam *m V^T = Tm.
Proof. by rewrite -Hdiag -mulmxA eigh_VVt mulmx1. Qed.

Lemma eigh_psd_recon : (forall j, 0 <= lam ord0 j) -> V *m diag_mx (\row_j pos_part (lam ord0 j)) *m V^T = Tm.
Proof.
move=> H; rewrite -eigh_recon; congr (_ *m diag_mx _ *m _).
by apply/rowP => j; rewrite mxE /pos_part H.
Qed.

Lemma eigh_inv_recon : (forall j, 0 < lam ord0 j) ->
  Tm *m (V *m diag_mx (\row_j pinv_part (lam ord0 j)) *m V^T) = 1%:M.
Proof.
move=> H; rewrite !mulmxA Hdiag -[V *m _ *m _]mulmxA mul_diag_mx.
have -> : \matrix_(i, j) (lam ord0 i * diag_mx (\row_j0 pinv_part (lam ord0 j0)) i j) = 1%:M.
  apply/matrixP => i j; rewrite !mxE /pinv_part (ltW (H _)).
  by case: eqP => [->|_]; rewrite ?mulr1n ?mulr0n ?mulr0 // mulfV // gt_eqF.
by rewrite mulmx1 eigh_VVt.
Qed.

End Eigh.

(* the root / inverse root computed by RootDecomposition.forward from (Q, evals, evecs), when (evals, evecs)
   diagonalise the (jittered) tridiagonal matrix Tj *)
Section RootSpec.
Variables (n k : nat) (Q : mat F) (Tj : 'M[F]_k) (evals : vec F) (evecs : mat F).
Let Qm := mx_of n k Q.
Let V := mx_of k k evecs.
Let lam := rv k evals.
Hypothesis VtV : V^T *m V = 1%:M.
Hypothesis Hdiag : Tj *m V = V *m diag_mx lam.
Let R := mx_of n k (root_post ArR n k Q evals evecs).1.
Let Ri := mx_of n k (root_post ArR n k Q evals evecs).2.

Lemma lam_evals (j : 'I_k) : lam ord0 j = vget ArR evals j.
Proof. by rewrite mxE. Qed.

Theorem root_reproduces : (forall j : 'I_k, 0 <= vget ArR evals j) -> R *m R^T = Qm *m Tj *m Qm^T.
Proof.
move=> H; rewrite /R root_sq -/Qm -/V.
have -> : \row_j pos_part (vget ArR evals j) = \row_j pos_part (lam ord0 j).
  by apply/rowP => j; rewrite !mxE.
by rewrite (eigh_psd_recon VtV Hdiag) // => j; rewrite lam_evals.
Qed.

Theorem inv_root_reproduces : (forall j : 'I_k, 0 < vget ArR evals j) -> Qm^T *m Qm = 1%:M ->
  (Qm *m Tj *m Qm^T) *m (Ri *m Ri^T) = Qm *m Qm^T.
Proof.
move=> H HQ; rewrite /Ri inv_sq -/Qm -/V.
have -> : \row_j pinv_part (vget ArR evals j) = \row_j pinv_part (lam ord0 j).
  by apply/rowP => j; rewrite !mxE.
set W := V *m _ *m _.
have -> : Qm *m Tj *m Qm^T *m (Qm *m W *m Qm^T) = Qm *m (Tj *m ((Qm^T *m Qm) *m W)) *m Qm^T.
  by rewrite !mulmxA.
rewrite HQ mul1mx /W (eigh_inv_recon VtV Hdiag) ?mulmx1 // => j.
by rewrite lam_evals.
Qed.

(* Diagonalization.forward: Qd diag(evals') Qd^T = Q Tj Q^T *)
Theorem diag_reproduces : (forall j : 'I_k, 0 <= vget ArR evals j) ->
  let Qd := mx_of n k (diag_post ArR n k Q evals evecs).2 in
  let ev' := (diag_post ArR n k Q evals evecs).1 in
  Qd *m diag_mx (rv k ev') *m Qd^T = Qm *m Tj *m Qm^T.
Proof.
move=> H Qd ev'; rewrite /Qd /ev'; have [-> ->] := diag_post_mx n k Q evals evecs.
rewrite trmx_mul -/Qm.
set V' := mx_of k k _; set D := diag_mx _.
have -> : Qm *m V' *m D *m (V'^T *m Qm^T) = Qm *m (V' *m D *m V'^T) *m Qm^T by rewrite !mulmxA.
rewrite /V' /D tridiag_to_diag_mask -/V.
have -> : \row_j pos_part (vget ArR evals j) = \row_j pos_part (lam ord0 j).
  by apply/rowP => j; rewrite !mxE.
by rewrite (eigh_psd_recon VtV Hdiag) // => j; rewrite lam_evals.
Qed.

End RootSpec.

(* ---------------------------------------------------------------- the best probe (lines 216-221) *)
Lemma argmin_from_spec (best : F) (bi i : nat) (s : seq F) : (bi < i)%N ->
  let r := argmin_from ArR best bi i s in
  let v := if r == bi then best else nth 0 s (r - i) in
  [/\ v <= best, (forall j, (j < size s)%N -> v <= nth 0 s j) & (r == bi) || ((i <= r)%N && (r < i + size s)%N)].
Proof.
elim: s best bi i => [|x s IH] best bi i hbi /=; first by rewrite eqxx.
have [Hlt|Hge] := ltP x best; cbv zeta.
  have [/= H1 H2 H3] := IH x i i.+1 (leqnn _).
  set r := argmin_from _ _ _ _ _ in H1 H2 H3 *.
  have Hv : (if r == i then x else nth 0 s (r - i.+1)) = (if r == bi then best else nth 0 (x :: s) (r - i)).
    have [Ei|Ni] := eqVneq r i; first by rewrite Ei (gtn_eqF hbi) subnn.
    have hr : (i < r)%N by move: H3; rewrite (negbTE Ni) /=; lia.
    have -> : (r == bi) = false by lia.
    by have -> : (r - i = (r - i.+1).+1)%N by lia.
  rewrite -Hv; split.
  - exact: le_trans H1 (ltW Hlt).
  - by case=> [|j] hj //=; exact: H2.
  - by apply/orP; right; move: H3; case: eqP => [->|_] /=; lia.
have [/= H1 H2 H3] := IH best bi i.+1 (leqW hbi).
set r := argmin_from _ _ _ _ _ in H1 H2 H3 *.
have Hv : (if r == bi then best else nth 0 s (r - i.+1)) = (if r == bi then best else nth 0 (x :: s) (r - i)).
  case: eqP => // /eqP Ni.
  have hr : (i < r)%N by move: H3; rewrite (negbTE Ni) /=; lia.
  by have -> : (r - i = (r - i.+1).+1)%N by lia.
rewrite -Hv; split=> //.
- case=> [|j] hj /=; last exact: H2.
  exact: le_trans H1 Hge.
- by move: H3; case: eqP => //= _; lia.
Qed.

(* torch.min(0) of the summed residuals: the returned index is in range and its residual is minimal *)
Theorem best_probe_is_argmin (s : seq F) : s != [::] ->
  (argmin ArR s < size s)%N /\ forall j, (j < size s)%N -> nth 0 s (argmin ArR s) <= nth 0 s j.
Proof.
case: s => [//|x s] _ /=.
have [/= H1 H2 H3] := @argmin_from_spec x 0 1 s (ltn0Sn 0); cbv zeta.
set r := argmin_from _ _ _ _ _ in H1 H2 H3 *.
have Hv : (if r == 0%N then x else nth 0 s (r - 1)) = nth 0 (x :: s) r.
  by case: r {H1 H2} H3 => [|r] //= _; rewrite subn1.
split; first by move: H3; case: eqP => [->|_] //=; lia.
by rewrite -Hv; case=> [|j] hj //=; exact: H2.
Qed.

(* ---------------------------------------------------------------- Lanczos + post-processing *)
(* What op.root_decomposition(method="lanczos") / root_inv_decomposition return, from the Lanczos run: with
   jm = tridiagonal_jitter * min(diag T), P = Q Q^T,
      R R^T = P A P + jm P                                   (orthogonal compression of A, plus jitter)
      (P A P + jm P) (Ri Ri^T) = P                            (inverse on the Krylov space)
   and when the Krylov space is everything (m = n): R R^T = A + jm I, (A + jm I) Ri Ri^T = I. *)
Theorem root_of_lanczos (g : lz_args F) o nvec init :
  lanczos_tridiag ArR g = Ok o -> lz_start g = Ok (nvec, init) ->
  forall idx, (idx < size (o_Q o))%N ->
    let n := g_n g in let m := o_m o in
    let c := col_of (prodn (g_batch g)) nvec idx in
    let Q := nth [::] (o_Q o) idx in let T := nth [::] (o_T o) idx in
    forall Am : 'M[F]_n,
    (forall X, cv n (g_mm g X) c = Am *m cv n X c) -> Am^T = Am ->
    cv n init c != 0 ->
    (forall j, (j.+1 < m)%N -> mget ArR T j j.+1 != 0) ->
    forall (jit : F) (evals : vec F) (evecs : mat F),
    let Tj := add_jitter ArR false jit m T in
    let V := mx_of m m evecs in
    V^T *m V = 1%:M -> mx_of m m Tj *m V = V *m diag_mx (rv m evals) ->
    let Qm := mx_of n m Q in let P := Qm *m Qm^T in
    let jm := jit * minl ArR (mkseq (fun i => mget ArR T i i) m) in
    let R := mx_of n m (root_post ArR n m Q evals evecs).1 in
    let Ri := mx_of n m (root_post ArR n m Q evals evecs).2 in
    [/\ (forall j : 'I_m, 0 <= vget ArR evals j) -> R *m R^T = P *m Am *m P + jm *: P,
        (forall j : 'I_m, 0 < vget ArR evals j) -> (P *m Am *m P + jm *: P) *m (Ri *m Ri^T) = P &
        m = n -> (forall j : 'I_m, 0 < vget ArR evals j) ->
          R *m R^T = Am + jm%:M /\ (Am + jm%:M) *m (Ri *m Ri^T) = 1%:M].
Proof.
move=> Hrun Hstart idx hidx /= Am Hlin Hsym Hv HG jit evals evecs VtV Hdiag.
have [H1 _ _] := lanczos_projection_rcf Hrun Hstart hidx Hlin Hsym Hv HG.
have HQ := lanczos_orthonormal_rcf Hrun Hstart hidx Hv HG.
have [_ _ HP] := compression_mx HQ H1.
set Qm := mx_of (g_n g) (o_m o) _ in H1 HQ HP *.
set Tm := mx_of (o_m o) (o_m o) (nth [::] (o_T o) idx) in H1 HP.
set jm := jit * _.
have ETj : Qm *m mx_of (o_m o) (o_m o) (add_jitter ArR false jit (o_m o) (nth [::] (o_T o) idx)) *m Qm^T
           = Qm *m Qm^T *m Am *m (Qm *m Qm^T) + jm *: (Qm *m Qm^T).
  by rewrite add_jitter_mx -/jm -/Tm mulmxDr mulmxDl HP mul_mx_scalar -scalemxAl.
have Hroot : (forall j : 'I_(o_m o), 0 <= vget ArR evals j) ->
    mx_of (g_n g) (o_m o) (root_post ArR (g_n g) (o_m o) (nth [::] (o_Q o) idx) evals evecs).1
    *m (mx_of (g_n g) (o_m o) (root_post ArR (g_n g) (o_m o) (nth [::] (o_Q o) idx) evals evecs).1)^T
    = Qm *m Qm^T *m Am *m (Qm *m Qm^T) + jm *: (Qm *m Qm^T).
  by move=> Hev; rewrite (root_reproduces (g_n g) (nth [::] (o_Q o) idx) VtV Hdiag Hev) -/Qm ETj.
have Hinv : (forall j : 'I_(o_m o), 0 < vget ArR evals j) ->
    (Qm *m Qm^T *m Am *m (Qm *m Qm^T) + jm *: (Qm *m Qm^T))
    *m (mx_of (g_n g) (o_m o) (root_post ArR (g_n g) (o_m o) (nth [::] (o_Q o) idx) evals evecs).2
        *m (mx_of (g_n g) (o_m o) (root_post ArR (g_n g) (o_m o) (nth [::] (o_Q o) idx) evals evecs).2)^T)
    = Qm *m Qm^T.
  by move=> Hev; rewrite -ETj (inv_root_reproduces VtV Hdiag Hev HQ).
split=> //.
move=> Em Hev.
have [HP1 _] := full_space_mx Em HQ H1.
have Hev' : forall j : 'I_(o_m o), 0 <= vget ArR evals j by move=> j; exact: ltW.
move: (Hroot Hev') (Hinv Hev); rewrite HP1 !mul1mx !mulmx1 scalemx1 => -> ->.
by [].
Qed.

(* What op.diagonalization(method="lanczos") returns, as the code is written: the jitter is added to EVERY entry of T
   (add_jitter_embed_mx), so   Qd diag(evals) Qd^T = P A P + Q (jm 1 1^T) Q^T ;  it is the orthogonal compression
   P A P exactly when the jitter is 0 (and A itself on the full space). *)
Theorem diag_of_lanczos (g : lz_args F) o nvec init :
  lanczos_tridiag ArR g = Ok o -> lz_start g = Ok (nvec, init) ->
  forall idx, (idx < size (o_Q o))%N ->
    let n := g_n g in let m := o_m o in
    let c := col_of (prodn (g_batch g)) nvec idx in
    let Q := nth [::] (o_Q o) idx in let T := nth [::] (o_T o) idx in
    forall Am : 'M[F]_n,
    (forall X, cv n (g_mm g X) c = Am *m cv n X c) -> Am^T = Am ->
    cv n init c != 0 ->
    (forall j, (j.+1 < m)%N -> mget ArR T j j.+1 != 0) ->
    forall (jit : F) (evals : vec F) (evecs : mat F),
    let Tj := add_jitter ArR true jit m T in
    let V := mx_of m m evecs in
    V^T *m V = 1%:M -> mx_of m m Tj *m V = V *m diag_mx (rv m evals) ->
    (forall j : 'I_m, 0 <= vget ArR evals j) ->
    let Qm := mx_of n m Q in let P := Qm *m Qm^T in
    let jm := jit * minl ArR (mkseq (fun i => mget ArR T i i) m) in
    let Qd := mx_of n m (diag_post ArR n m Q evals evecs).2 in
    let ev' := (diag_post ArR n m Q evals evecs).1 in
    Qd *m diag_mx (rv m ev') *m Qd^T = P *m Am *m P + Qm *m const_mx jm *m Qm^T
    /\ (jit = 0 -> Qd *m diag_mx (rv m ev') *m Qd^T = P *m Am *m P).
Proof.
move=> Hrun Hstart idx hidx /= Am Hlin Hsym Hv HG jit evals evecs VtV Hdiag Hev.
have [H1 _ _] := lanczos_projection_rcf Hrun Hstart hidx Hlin Hsym Hv HG.
have HQ := lanczos_orthonormal_rcf Hrun Hstart hidx Hv HG.
have [_ _ HP] := compression_mx HQ H1.
have E := diag_reproduces (g_n g) (nth [::] (o_Q o) idx) VtV Hdiag Hev.
move: E; rewrite /= add_jitter_embed_mx mulmxDr mulmxDl HP => E.
split; first exact: E.
move=> j0; rewrite E j0 mul0r.
have -> : const_mx 0 = 0 :> 'M[F]_(o_m o) by apply/matrixP => i j; rewrite !mxE.
by rewrite mulmx0 mul0mx addr0.
Qed.


(* What op.diagonalization(method="lanczos") returns once the jitter is added to the DIAGONAL of T (the form the
   docstring describes, RootDecomposition uses and proposed_fixes/C09-diagonalization-jitter-all-entries.diff
   restores):  Qd diag(evals) Qd^T = P A P + jm P, and = A + jm I when the Krylov space is everything. *)
Theorem diag_of_lanczos_diagonal_jitter (g : lz_args F) o nvec init :
  lanczos_tridiag ArR g = Ok o -> lz_start g = Ok (nvec, init) ->
  forall idx, (idx < size (o_Q o))%N ->
    let n := g_n g in let m := o_m o in
    let c := col_of (prodn (g_batch g)) nvec idx in
    let Q := nth [::] (o_Q o) idx in let T := nth [::] (o_T o) idx in
    forall Am : 'M[F]_n,
    (forall X, cv n (g_mm g X) c = Am *m cv n X c) -> Am^T = Am ->
    cv n init c != 0 ->
    (forall j, (j.+1 < m)%N -> mget ArR T j j.+1 != 0) ->
    forall (jit : F) (evals : vec F) (evecs : mat F),
    let Tj := add_jitter ArR false jit m T in
    let V := mx_of m m evecs in
    V^T *m V = 1%:M -> mx_of m m Tj *m V = V *m diag_mx (rv m evals) ->
    (forall j : 'I_m, 0 <= vget ArR evals j) ->
    let Qm := mx_of n m Q in let P := Qm *m Qm^T in
    let jm := jit * minl ArR (mkseq (fun i => mget ArR T i i) m) in
    let Qd := mx_of n m (diag_post ArR n m Q evals evecs).2 in
    let ev' := (diag_post ArR n m Q evals evecs).1 in
    Qd *m diag_mx (rv m ev') *m Qd^T = P *m Am *m P + jm *: P
    /\ (m = n -> Qd *m diag_mx (rv m ev') *m Qd^T = Am + jm%:M).
Proof.
move=> Hrun Hstart idx hidx /= Am Hlin Hsym Hv HG jit evals evecs VtV Hdiag Hev.
have [H1 _ _] := lanczos_projection_rcf Hrun Hstart hidx Hlin Hsym Hv HG.
have HQ := lanczos_orthonormal_rcf Hrun Hstart hidx Hv HG.
have [_ _ HP] := compression_mx HQ H1.
have E := diag_reproduces (g_n g) (nth [::] (o_Q o) idx) VtV Hdiag Hev.
move: E; rewrite /= add_jitter_mx mulmxDr mulmxDl HP mul_mx_scalar -scalemxAl => E.
split; first exact: E.
move=> Em; rewrite E.
have [HP1 _] := full_space_mx Em HQ H1.
by rewrite HP1 !mul1mx !mulmx1 scalemx1.
Qed.

(* both forms at once: [embed] = the jitter lands on every entry of T (Diagonalization.forward as written on the
   pinned tree) or on its diagonal (repaired) *)
Theorem diag_of_lanczos_any_form (embed : bool) (g : lz_args F) o nvec init :
  lanczos_tridiag ArR g = Ok o -> lz_start g = Ok (nvec, init) ->
  forall idx, (idx < size (o_Q o))%N ->
    let n := g_n g in let m := o_m o in
    let c := col_of (prodn (g_batch g)) nvec idx in
    let Q := nth [::] (o_Q o) idx in let T := nth [::] (o_T o) idx in
    forall Am : 'M[F]_n,
    (forall X, cv n (g_mm g X) c = Am *m cv n X c) -> Am^T = Am ->
    cv n init c != 0 ->
    (forall j, (j.+1 < m)%N -> mget ArR T j j.+1 != 0) ->
    forall (jit : F) (evals : vec F) (evecs : mat F),
    let Tj := add_jitter ArR embed jit m T in
    let V := mx_of m m evecs in
    V^T *m V = 1%:M -> mx_of m m Tj *m V = V *m diag_mx (rv m evals) ->
    (forall j : 'I_m, 0 <= vget ArR evals j) ->
    let Qm := mx_of n m Q in let P := Qm *m Qm^T in
    let jm := jit * minl ArR (mkseq (fun i => mget ArR T i i) m) in
    let Qd := mx_of n m (diag_post ArR n m Q evals evecs).2 in
    let ev' := (diag_post ArR n m Q evals evecs).1 in
    [/\ Qd *m diag_mx (rv m ev') *m Qd^T
          = P *m Am *m P + (if embed then Qm *m const_mx jm *m Qm^T else jm *: P),
        (jit = 0 -> Qd *m diag_mx (rv m ev') *m Qd^T = P *m Am *m P) &
        (~~ embed -> m = n -> Qd *m diag_mx (rv m ev') *m Qd^T = Am + jm%:M)].
Proof.
case: embed => Hrun Hstart idx hidx /= Am Hlin Hsym Hv HG jit evals evecs VtV Hdiag Hev.
  have [E1 E2] := diag_of_lanczos Hrun Hstart hidx Hlin Hsym Hv HG VtV Hdiag Hev.
  by split.
have [E1 E2] := diag_of_lanczos_diagonal_jitter Hrun Hstart hidx Hlin Hsym Hv HG VtV Hdiag Hev.
split=> //.
by move=> j0; rewrite E1 j0 mul0r scale0r addr0.
Qed.

End Post.
