(* C09 — the binary64 / binary32 instances of the model and the Gallina comparators used by the
   generated correspondence shards (gen/cases_*.v): model output vs what lanczos_tridiag and the
   root / diagonalisation post-processing returned or raised on the implementation. *)
From Coq Require Import ZArith PrimFloat FloatOps SpecFloat.
From mathcomp Require Import ssreflect ssrfun ssrbool eqtype ssrnat seq div.
Require Import C09.Model C09.gen.Consts.
Set Implicit Arguments.
Unset Strict Implicit.
Unset Printing Implicit Defensive.

Definition ArFloat : Arith float :=
  MkArith zero one PrimFloat.add PrimFloat.sub PrimFloat.mul PrimFloat.div
          PrimFloat.sqrt PrimFloat.abs PrimFloat.ltb PrimFloat.leb.

(* round-to-nearest-even to 24 significant bits = the value after a cast to torch.float32 and back
   (the binary32 exponent range is not modelled; |x| in [1.2e-38, 3.4e38] or 0 is assumed).
   Rounding the binary64 result of + - * / sqrt to binary32 gives the correctly rounded binary32
   result (53 >= 2*24+2: double rounding is innocuous for these operations).
   [round32_spec] works on the integer significand; [round32] is the fast version used for execution:
   scale the significand to [0.5, 1), add and subtract 1.5 * 2^28 (the binary64 grid there is 2^-24 and
   the hardware addition rounds to nearest even), scale back.  They are compared on samples below. *)
Definition round32_spec (x : float) : float :=
  match Prim2SF x with
  | S754_finite s m e =>
      let zm := Zpos m in
      let sh := (Z.log2 zm + 1 - 24)%Z in
      if (sh <=? 0)%Z then x else
      let q := Z.shiftr zm sh in
      let r := (zm - Z.shiftl q sh)%Z in
      let half := Z.shiftl 1 (sh - 1) in
      let q' := if (half <? r)%Z || ((half =? r)%Z && Z.odd q) then (q + 1)%Z else q in
      match q' with
      | Zpos p => SF2Prim (S754_finite s p (e + sh))
      | _ => x
      end
  | _ => x
  end.

Definition magic32 : float := 0x1.8p+28%float.
Definition round32 (x : float) : float :=
  let (m, e) := PrimFloat.frshiftexp x in
  PrimFloat.ldshiftexp (PrimFloat.sub (PrimFloat.add m magic32) magic32) e.

(* sanity check of the fast version against the specification on pseudo-random binary64 values
   (products and quotients of a linear congruential sequence; includes exact ties) *)
Fixpoint lcg_samples (k : nat) (s : float) : seq float :=
  if k is k'.+1 then
    let s' := PrimFloat.sub (PrimFloat.mul s 0x1.921fb54442d18p+1%float)
                            (PrimFloat.of_uint63 (PrimFloat.normfr_mantissa
                               (PrimFloat.mul (PrimFloat.mul s 0x1.921fb54442d18p+1%float) 0x1p-53%float))) in
    let v := PrimFloat.div (PrimFloat.mul s 0x1.5bf0a8b145769p+1%float) (PrimFloat.add s' 0x1.0000001p+0%float) in
    [:: v, PrimFloat.opp v, PrimFloat.add 1 (PrimFloat.mul 0x1p-24 (PrimFloat.of_uint63 (PrimFloat.normfr_mantissa v)))
      & lcg_samples k' (PrimFloat.add s' 0x1.000001p-3%float)]
  else [:: 0x1.000001p+0%float; 0x1.000003p+0%float; 0x1.0000010000001p+0%float; 0x1.ffffffp+5%float; 0%float; 1%float].
Definition feqb (a b : float) : bool := PrimFloat.eqb a b || (~~ PrimFloat.eqb a a && ~~ PrimFloat.eqb b b).
Example round32_agrees_on_samples :
  all (fun x => feqb (round32 x) (round32_spec x)) (lcg_samples 300 0x1.3p+0%float) = true.
Proof. by vm_compute. Qed.

Definition ArFloat32 : Arith float :=
  MkArith zero one
          (fun x y => round32 (PrimFloat.add x y)) (fun x y => round32 (PrimFloat.sub x y))
          (fun x y => round32 (PrimFloat.mul x y)) (fun x y => round32 (PrimFloat.div x y))
          (fun x => round32 (PrimFloat.sqrt x)) PrimFloat.abs PrimFloat.ltb PrimFloat.leb.

Notation fvec := (seq float).
Notation fcols := (seq (seq float)).
Notation fmat := (seq (seq float)).

Definition fmax (x y : float) : float := if PrimFloat.ltb x y then y else x.
Definition vmaxabs (v : seq float) : float := foldl (fun a x => fmax a (PrimFloat.abs x)) zero v.
Definition mmaxabs (M : fmat) : float := foldl (fun a r => fmax a (vmaxabs r)) zero M.

Definition is_nanb (x : float) : bool := ~~ PrimFloat.eqb x x.
(* |a - b| <= bound ; NaN only matches NaN *)
Definition close1 (bound : float) (a b : float) : bool :=
  if is_nanb a || is_nanb b then is_nanb a && is_nanb b
  else PrimFloat.leb (PrimFloat.abs (PrimFloat.sub a b)) bound || PrimFloat.eqb a b.
Fixpoint all2 (T U : Type) (f : T -> U -> bool) (a : seq T) (b : seq U) : bool :=
  match a, b with
  | [::], [::] => true
  | x :: r, y :: s => f x y && all2 f r s
  | _, _ => false
  end.

(* entries (i, j) with i < ri and j < cj of two matrices agree to tol relative to the larger max-norm
   (over the compared block) plus an absolute floor; both must have at least those rows/columns *)
Definition block (ri cj : nat) (M : fmat) : fmat := map (take cj) (take ri M).
Definition bclose (tol floor : float) (ri cj : nat) (M N : fmat) : bool :=
  let M' := block ri cj M in let N' := block ri cj N in
  let sc := fmax (mmaxabs M') (mmaxabs N') in
  all2 (all2 (close1 (PrimFloat.add (PrimFloat.mul tol sc) floor))) M' N'.
Definition shape_ok (r c : nat) (M : fmat) : bool := (size M == r) && all (fun row => size row == c) M.

Definition list_nat_eqb (a b : seq nat) : bool := a == b.

Definition err_eqb (a b : lz_err) : bool :=
  match a, b with
  | ErrNotCallable, ErrNotCallable | ErrDtype, ErrDtype | ErrBatchShape, ErrBatchShape
  | ErrMatrixShape, ErrMatrixShape | ErrIndex, ErrIndex => true
  | _, _ => false
  end.

(* what the harness observed on the implementation *)
Inductive observed :=
  | ObsErr (e : lz_err)
  | ObsErrOther                                        (* an exception the model does not know *)
  | ObsOk (qshape tshape : seq nat) (Q T : seq fmat).   (* leading indices flattened row-major *)

Record case := MkCase {
  c_f32 : bool;                   (* dtype float32: the model runs on ArFloat32 *)
  c_callable : bool;
  c_n : nat;
  c_batch : seq nat;
  c_max_iter : nat;
  c_A : seq fmat;                 (* the symmetric matrices, one per batch member (row-major over the batch shape) *)
  c_init : option (bool * bool * seq nat * nat * nat * fcols);   (* dtype_ok, 1-D, init batch shape, size(-2), size(-1), flat columns *)
  c_num_init : nat;
  c_randn : fcols;
  c_tol : float;
  c_debug : bool;
  c_cmp : nat;                    (* number of leading Lanczos vectors / tridiagonal rows compared by value *)
  c_cmpv : seq nat;               (* member-wise: that number per leading index (start vector, batch member); [::] = c_cmp for all.
                                     Theorem C09_member_independence: a member's vectors depend on its own (A, q_0) only, so the
                                     members that did not break down are compared even when another member of the batch did *)
  c_cmp_exit : bool;              (* compare the final number of iterations (and hence the shapes) *)
  c_rtol : float;
  c_obs : observed
}.

(* brk_lit (the literal 1e-6 of line 146) and n_extra_lit (the literal 10 of line 132) come from
   gen/Consts.v, regenerated from lanczos.py on every run *)

Definition args_of (c : case) : lz_args float :=
  let nv := if c_init c is Some (_, _, _, _, nv, _) then nv else c_num_init c in
  MkArgs (c_callable c) (tensor_mm (if c_f32 c then ArFloat32 else ArFloat) nv (c_A c))
         (c_max_iter c) (c_n c) (c_batch c)
         (if c_init c is Some (d, od, b, n', nv, X) then Some (MkInit d od b n' nv X) else None)
         (c_num_init c) (c_randn c) (c_tol c) brk_lit n_extra_lit (c_debug c) first_guard_lit inner_abs_lit.

Definition run_model (c : case) : res (lz_out float) :=
  lanczos_tridiag (if c_f32 c then ArFloat32 else ArFloat) (args_of c).

(* reason codes: 0 agree; 1 raise/return differs; 2 error kind; 3 number of iterations / shapes;
   4 number or size of the returned matrices; 5 Q values; 6 T values *)
Definition check_case (c : case) : nat :=
  match run_model c, c_obs c with
  | Err e, ObsErr e' => if err_eqb e e' then 0 else 2
  | _, ObsErrOther => 2
  | Err _, ObsOk _ _ _ _ => 1
  | Ok _, ObsErr _ => 1
  | Ok o, ObsOk qs ts Q T =>
      let n := c_n c in
      if c_cmp_exit c && ~~ ((o_qshape o == qs) && (o_tshape o == ts)) then 3
      else if ~~ ((size Q == size (o_Q o)) && (size T == size (o_T o))) then 4
      else
        let m' := last 0 ts in                      (* observed number of iterations *)
        if ~~ (all (shape_ok n m') Q && all (shape_ok m' m') T) then 4
        else
          let kk := minn m' (o_m o) in
          let k i := minn (if c_cmpv c is [::] then c_cmp c else nth 0 (c_cmpv c) i) kk in
          if ~~ all (fun i => bclose (c_rtol c) zero n (k i) (nth [::] (o_Q o) i) (nth [::] Q i)) (iota 0 (size Q)) then 5
          else if ~~ all (fun i => bclose (c_rtol c) zero (k i) (k i) (nth [::] (o_T o) i) (nth [::] T i)) (iota 0 (size T)) then 6
          else 0
  end.

(* indices (and reason codes, as index * 16 + code) of the cases where model and implementation differ *)
Fixpoint bad_cases (cs : seq case) (i : nat) : seq nat :=
  match cs with
  | [::] => [::]
  | c :: r => let k := check_case c in
              if k == 0 then bad_cases r i.+1 else (i * 16 + k) :: bad_cases r i.+1
  end.

(* diagnostic used by the harness when a case disagrees (and for calibrating the tolerances):
   per Lanczos index i, the largest |Q_model - Q_impl| over column i of every returned matrix, then the
   same for row i of T, then the model's iteration count *)
Definition col_dev (n i : nat) (M N : fmat) : float :=
  foldl (fun a x => fmax a (PrimFloat.abs (PrimFloat.sub (nth zero (nth [::] M x) i) (nth zero (nth [::] N x) i))))
        zero (iota 0 n).
Definition row_dev (m i : nat) (M N : fmat) : float :=
  foldl (fun a j => fmax a (PrimFloat.abs (PrimFloat.sub (nth zero (nth [::] M i) j) (nth zero (nth [::] N i) j))))
        zero (iota 0 m).
Definition devs (c : case) : seq float * seq float * nat :=
  match run_model c, c_obs c with
  | Ok o, ObsOk qs ts Q T =>
      let m := minn (last 0 ts) (o_m o) in
      (mkseq (fun i => foldl fmax zero (map (fun MN => col_dev (c_n c) i MN.1 MN.2) (zip (o_Q o) Q))) m,
       mkseq (fun i => foldl fmax zero (map (fun MN => row_dev m i MN.1 MN.2) (zip (o_T o) T))) m,
       o_m o)
  | _, _ => ([::], [::], 0)
  end.

(* ---------------------------------------------------------------------------------------- *)
(* post-processing cases: lanczos_tridiag_to_diag / RootDecomposition.forward / Diagonalization.forward
   applied by the model to the (Q, T) the implementation's Lanczos returned and to the (evals, evecs) that
   torch.linalg.eigh returned inside the call (recorded by the harness) *)
Record pcase := MkPCase {
  p_f32 : bool;
  p_n : nat; p_k : nat;
  p_embed : bool;                 (* Diagonalization (diag_embed) vs RootDecomposition (eye) jitter *)
  p_jit : float;                  (* settings.tridiagonal_jitter.value() *)
  p_Q : fmat; p_T : fmat;         (* what lanczos_tridiag returned for this leading index *)
  p_eigh_in : fmat;               (* the argument torch.linalg.eigh was called with *)
  p_evals : fvec; p_evecs : fmat; (* what it returned *)
  p_root : option fmat;           (* observed root (n x k) *)
  p_inv : option fmat;            (* observed inverse root *)
  p_dvals : option fvec;          (* observed eigenvalues of Diagonalization / lanczos_tridiag_to_diag *)
  p_dvecs : option fmat;          (* observed q_mat of Diagonalization *)
  p_rtol : float
}.

Definition oclose (T : Type) (f : T -> T -> bool) (a b : option T) : bool :=
  match a, b with Some x, Some y => f x y | None, None => true | _, _ => false end.
Definition mclose (tol : float) (r c : nat) (M N : fmat) : bool :=
  shape_ok r c N && bclose tol zero r c M N.

(* reason codes: 0 agree; 1 jittered matrix; 2 root; 3 inverse root; 4 eigenvalues; 5 eigenvectors *)
Definition check_pcase (p : pcase) : nat :=
  let Ar := if p_f32 p then ArFloat32 else ArFloat in
  let n := p_n p in let k := p_k p in
  (* Diagonalization: which form of the jitter the tree under test uses (on every entry = known finding
     C09-diagonalization-jitter-all-entries, or on the diagonal = repaired) is probed on every run and written to
     gen/Consts.v (diag_jitter_all_entries_lit); the comparison is strict for that form *)
  let Tj := add_jitter Ar (p_embed p && diag_jitter_all_entries_lit) (p_jit p) k (p_T p) in
  if ~~ mclose (p_rtol p) k k Tj (p_eigh_in p) then 1
  else
    let: (root, inv) := root_post Ar n k (p_Q p) (p_evals p) (p_evecs p) in
    let: (dv, dq) := diag_post Ar n k (p_Q p) (p_evals p) (p_evecs p) in
    if ~~ (if p_root p is Some R then mclose (p_rtol p) n k root R else true) then 2
    else if ~~ (if p_inv p is Some R then mclose (p_rtol p) n k inv R else true) then 3
    else if ~~ (if p_dvals p is Some v then mclose (p_rtol p) 1 k [:: dv] [:: v] else true) then 4
    else if ~~ (if p_dvecs p is Some R then mclose (p_rtol p) n k dq R else true) then 5
    else 0.

Fixpoint bad_pcases (cs : seq pcase) (i : nat) : seq nat :=
  match cs with
  | [::] => [::]
  | c :: r => let k := check_pcase c in
              if k == 0 then bad_pcases r i.+1 else (i * 16 + k) :: bad_pcases r i.+1
  end.

(* best-probe selection (_postprocess_lanczos_root_inv_decomp): the model recomputes the summed residual of every probe
   from the inverse roots the implementation produced, the test vectors and the dense matrices; they must agree with
   the harness's independent float64 evaluation, and (when the two smallest residuals are clearly separated) the
   model's argmin must be the probe whose inverse root was returned *)
Record scase := MkSCase {
  s_n : nat; s_k : nat; s_t : nat;
  s_As : seq fmat;                (* one n x n matrix per batch member *)
  s_Rs : seq (seq fmat);          (* inv_roots[p][b] : n x k *)
  s_Vs : seq fmat;                (* test_vectors[b] : n x t *)
  s_res : fvec;                   (* residuals recomputed by the harness (plain torch) *)
  s_idx : nat;                    (* index of the returned inverse root *)
  s_cmp_idx : bool;
  s_rtol : float
}.
(* reason codes: 1 residual values; 2 chosen index *)
Definition check_scase (c : scase) : nat :=
  let res := post_residuals ArFloat (s_n c) (s_k c) (s_t c) (s_As c) (s_Rs c) (s_Vs c) in
  if ~~ bclose (s_rtol c) zero 1 (size (s_res c)) [:: res] [:: s_res c] || (size res != size (s_res c)) then 1
  else if s_cmp_idx c && ((postprocess ArFloat (s_n c) (s_k c) (s_t c) (s_As c) (s_Rs c) (s_Vs c)).1 != s_idx c) then 2
  else 0.
Fixpoint bad_scases (cs : seq scase) (i : nat) : seq nat :=
  match cs with
  | [::] => [::]
  | c :: r => let k := check_scase c in
              if k == 0 then bad_scases r i.+1 else (i * 16 + k) :: bad_scases r i.+1
  end.

(* shapes handed back by RootDecomposition.forward (api 0: root / inverse root), Diagonalization.forward (api 1:
   eigenvalues, q_mat) and _postprocess_lanczos_root_inv_decomp (api 2), for the version of each that the tree under
   test contains (pinned: a leading batch dimension of size 1 is squeezed away, known finding
   C09-leading-singleton-batch; or repaired) -- probed on every run, gen/Consts.v *)
Record hcase := MkHCase {
  h_api : nat; h_nprobe : nat; h_batch : seq nat; h_n : nat; h_m : nat;
  h_obs : seq nat;                (* shape of the root / inverse root / q_mat *)
  h_obs_evals : seq nat           (* api 1: shape of the eigenvalues *)
}.
Definition check_hcase (c : hcase) : nat :=
  let b := h_batch c in let n := h_n c in let m := h_m c in
  match h_api c with
  | 0 => if root_forward_shape root_shape_fixed_lit (h_nprobe c) (lanczos_lead (h_nprobe c) b) n m == h_obs c then 0 else 1
  | 1 => if diag_forward_shape diag_shape_fixed_lit b n m == (h_obs_evals c, h_obs c) then 0 else 1
  | _ => if postprocess_shape post_shape_fixed_lit b n m == h_obs c then 0 else 1
  end.
Fixpoint bad_hcases (cs : seq hcase) (i : nat) : seq nat :=
  match cs with
  | [::] => [::]
  | c :: r => let k := check_hcase c in
              if k == 0 then bad_hcases r i.+1 else (i * 16 + k) :: bad_hcases r i.+1
  end.

(* root_inv_decomposition's argument check on initial_vectors (api-level guard cases): raised RuntimeError or not *)
Record gcase := MkGCase { gc_batch : seq nat; gc_n : nat; gc_ivs : seq nat; gc_raised : bool }.
Definition check_gcase (c : gcase) : nat :=
  if root_inv_guard_raises (gc_batch c) (gc_n c) (gc_ivs c) == gc_raised c then 0 else 1.
Fixpoint bad_gcases (cs : seq gcase) (i : nat) : seq nat :=
  match cs with
  | [::] => [::]
  | c :: r => let k := check_gcase c in
              if k == 0 then bad_gcases r i.+1 else (i * 16 + k) :: bad_gcases r i.+1
  end.

(* StochasticLQ.to_dense for one batch member: eigenvalues / eigenvectors per probe (as returned by
   lanczos_tridiag_to_diag on the implementation), the codes of the functions (0: x, 1: x^2, 2: x^3, 3: 1/x) and the
   list the implementation returned; every entry is compared relative to its own magnitude *)
Definition slq_func (c : nat) : float -> float :=
  match c with
  | 0 => fun x => x
  | 1 => fun x => PrimFloat.mul x x
  | 2 => fun x => PrimFloat.mul (PrimFloat.mul x x) x
  | _ => fun x => PrimFloat.div one x
  end.
Record qcase := MkQCase { q_n : nat; q_k : nat; q_evals : seq fvec; q_evecs : seq fmat; q_funcs : seq nat; q_obs : fvec; q_rtol : float }.
Definition rclose (tol a b : float) : bool :=
  close1 (PrimFloat.mul tol (fmax (PrimFloat.abs a) (PrimFloat.abs b))) a b.
Definition check_qcase (c : qcase) : nat :=
  let r := slq_to_dense ArFloat (q_n c) (q_k c) (q_evals c) (q_evecs c) (map slq_func (q_funcs c)) in
  if all2 (rclose (q_rtol c)) r (q_obs c) then 0 else 1.
Fixpoint bad_qcases (cs : seq qcase) (i : nat) : seq nat :=
  match cs with
  | [::] => [::]
  | c :: r => let k := check_qcase c in
              if k == 0 then bad_qcases r i.+1 else (i * 16 + k) :: bad_qcases r i.+1
  end.
