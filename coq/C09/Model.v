(* C09 — executable Gallina transcription of linear_operator/utils/lanczos.py
   (lanczos_tridiag, lanczos_tridiag_to_diag, _postprocess_lanczos_root_inv_decomp) and of the
   forward passes of linear_operator/functions/_root_decomposition.py (RootDecomposition) and
   linear_operator/functions/_diagonalization.py (Diagonalization).

   Definitions only.  Generic over an arithmetic record [Arith F]; instantiated on PrimFloat
   (binary64, and binary32 by rounding every operation) in Check.v for execution against the
   implementation, and on an arbitrary real closed field in Proofs*.v for the theorems.

   Data layout.  A torch tensor of shape ( *batch, n, nvec ) is a list of C = |batch| * nvec COLUMNS
   (flat column index  c = b * nvec + j ), each column a list of n scalars.  Quantities of shape
   ( *batch, nvec )  (alpha, beta, norms) are lists of C scalars.
     q_mat  (num_iter, *batch, n, nvec)            is a list of num_iter column lists,
     t_mat  (num_iter, num_iter, *batch, nvec)     is a list of lists of C-lists,
   both created as zeros and written with set_nth exactly where the code writes (copy_).  The two
   reductions of the code that run over the WHOLE batch,
        torch.sum(inner_products > tol)      and     torch.sum(beta_curr.abs() > 1e-6) == 0 ,
   run over all columns here as well; everything else is column-wise.

   torch primitives modelled by their mathematical meaning: elementwise mul/div/sub, sum(-2) and
   sum(0) (sequential summation order), norm(2, dim=-2) = sqrt(sum of squares), comparison > / >= ,
   abs, zeros, copy_ (write of the values), slicing q_mat[:k+1] (the index range 0..k), unsqueeze /
   squeeze / permute / contiguous / expand (index maps), torch.linalg.eigh (an input of the
   post-processing functions: the harness passes what torch returned; the theorems assume its
   specification), matmul (sequential sums), sqrt, min, masked_fill_, type_as.
   Line numbers refer to lanczos.py unless stated otherwise. *)
From mathcomp Require Import ssreflect ssrfun ssrbool eqtype ssrnat seq div.
Set Implicit Arguments.
Unset Strict Implicit.
Unset Printing Implicit Defensive.

Record Arith (F : Type) := MkArith {
  a0 : F; a1 : F;
  aadd : F -> F -> F; asub : F -> F -> F; amul : F -> F -> F; adiv : F -> F -> F;
  asqrt : F -> F; aabs : F -> F;
  altb : F -> F -> bool; aleb : F -> F -> bool }.

(* RuntimeError of line 24 / 37 / 45 / 49 ; IndexError of line 81 / 93 *)
Inductive lz_err := ErrNotCallable | ErrDtype | ErrBatchShape | ErrMatrixShape | ErrIndex.
Inductive res (T : Type) := Ok (x : T) | Err (e : lz_err).
Arguments Err {T} e.

Section Model.
Variable F : Type.
Variable A : Arith F.

Definition vec := seq F.
Definition cols := seq vec.          (* list of columns *)
Definition mat := seq (seq F).       (* list of rows *)
Definition tmat := seq (seq (seq F)). (* t_mat[i][j] = list over the C columns *)

Definition vget (v : vec) (i : nat) : F := nth (a0 A) v i.
Definition cget (X : cols) (c : nat) : vec := nth [::] X c.
Definition mget (M : mat) (i j : nat) : F := nth (a0 A) (nth [::] M i) j.

Definition vtab (n : nat) (f : nat -> F) : vec := mkseq f n.
Definition ctab (C n : nat) (f : nat -> nat -> F) : cols := mkseq (fun c => mkseq (f c) n) C.
Definition mtab (m n : nat) (f : nat -> nat -> F) : mat := mkseq (fun i => mkseq (f i) n) m.

(* sequential sum  ((0 + f 0) + f 1) + ...  *)
Fixpoint sumn_ (f : nat -> F) (k : nat) : F :=
  if k is k'.+1 then aadd A (sumn_ f k') (f k') else a0 A.
Definition dot (n : nat) (x y : vec) : F := sumn_ (fun i => amul A (vget x i) (vget y i)) n.   (* x.mul(y).sum(-2) *)
Definition norm2 (n : nat) (x : vec) : F := asqrt A (dot n x x).                              (* torch.norm(x, 2, dim=-2) *)

(* dense matmul closure  lambda X: M.matmul(X) : one n x n matrix per batch member, nvec columns each *)
Definition rowdot (row x : vec) : F :=
  foldl (fun acc rx => aadd A acc (amul A rx.1 rx.2)) (a0 A) (zip row x).
Definition matvec (M : mat) (x : vec) : vec := map (fun row => rowdot row x) M.
Definition tensor_mm (nvec : nat) (Ms : seq mat) (X : cols) : cols :=
  mkseq (fun c => matvec (nth [::] Ms (c %/ nvec)) (cget X c)) (size X).

(* ---------------------------------------------------------------------------------------- *)
Section Core.
Variables (n C num_iter : nat).           (* matrix_shape[-1], number of flat columns, min(max_iter, n) *)
Variable mm : cols -> cols.               (* matmul_closure *)
Variable tol : F -> bool.                 (* the test of line 133 on one inner product: x > tol (pinned source) or
                                             x.abs() > tol (after fix C09-partial-breakdown-sign); see lz_gt below *)
Variable brk : F.                         (* the literal 1e-6 of line 146 *)
Variable n_extra : nat.                   (* the literal 10 of line 132 *)

(* column-wise tensor operations *)
Definition cdot (X Y : cols) : seq F := mkseq (fun c => dot n (cget X c) (cget Y c)) C.       (* X.mul(Y).sum(-2) *)
Definition cnorm (X : cols) : seq F := mkseq (fun c => norm2 n (cget X c)) C.                  (* torch.norm(X, 2, dim=-2) *)
Definition csub (X Y : cols) : cols :=
  ctab C n (fun c i => asub A (vget (cget X c) i) (vget (cget Y c) i)).
Definition cscale_l (s : seq F) (X : cols) : cols :=                                           (* s.unsqueeze(-2).mul(X) *)
  ctab C n (fun c i => amul A (vget s c) (vget (cget X c) i)).
Definition cscale_r (X : cols) (s : seq F) : cols :=                                           (* X.mul(s.unsqueeze(-2)) *)
  ctab C n (fun c i => amul A (vget (cget X c) i) (vget s c)).
Definition cdiv (X : cols) (s : seq F) : cols :=                                               (* X / s.unsqueeze(-2) *)
  ctab C n (fun c i => adiv A (vget (cget X c) i) (vget s c)).

Definition zcols : cols := nseq C (nseq n (a0 A)).
Definition qzero : seq cols := nseq num_iter zcols.                                            (* 68: torch.zeros *)
Definition tzero : tmat := nseq num_iter (nseq num_iter (nseq C (a0 A))).                      (* 76: torch.zeros *)

Definition qrow (qm : seq cols) (i : nat) : cols := nth [::] qm i.                             (* q_mat[i] *)
Definition qget (qm : seq cols) (i c : nat) : vec := cget (qrow qm i) c.
Definition trow (tm : tmat) (i j : nat) : seq F := nth [::] (nth [::] tm i) j.                 (* t_mat[i, j] *)
Definition tget (tm : tmat) (i j c : nat) : F := vget (trow tm i j) c.
Definition tset (tm : tmat) (i j : nat) (v : seq F) : tmat :=                                  (* t_mat[i, j].copy_(v) *)
  set_nth [::] tm i (set_nth [::] (nth [::] tm i) j v).
Definition qset (qm : seq cols) (i : nat) (X : cols) : seq cols := set_nth [::] qm i X.        (* q_mat[i].copy_(X) *)

(* lines 117-119 and 136-138:
     correction = r_vec.unsqueeze(0).mul(q_mat[: k + 1]).sum(-2, keepdim=True)
     correction = q_mat[: k + 1].mul(correction).sum(0)
     r_vec.sub_(correction)                                                                   *)
Definition reorth_coef (qm : seq cols) (k : nat) (R : cols) : seq (seq F) :=
  mkseq (fun i => mkseq (fun c => dot n (cget R c) (qget qm i c)) C) k.+1.
Definition reorth (qm : seq cols) (k : nat) (R : cols) : cols :=
  let coef := reorth_coef qm k R in
  let corr := ctab C n (fun c x =>
                sumn_ (fun i => amul A (vget (qget qm i c) x) (vget (nth [::] coef i) c)) k.+1) in
  csub R corr.

(* lines 130 and 141: inner_products = q_mat[: k + 1].mul(r_vec.unsqueeze(0)).sum(-2) *)
Definition inner_products (qm : seq cols) (k : nat) (R : cols) : seq (seq F) :=
  mkseq (fun i => cdot (qrow qm i) R) k.+1.
(* torch.sum(inner_products > tol) != 0 *)
Definition any_gt (ip : seq (seq F)) : bool := has (has tol) ip.

(* lines 131-141: up to n_extra further re-orthogonalisation passes; returns r_vec and could_reorthogonalize *)
Fixpoint extra_passes (fuel : nat) (qm : seq cols) (k : nat) (R : cols) (ip : seq (seq F)) : cols * bool :=
  if fuel is f.+1 then
    if ~~ any_gt ip then (R, true)                                  (* 133-135 *)
    else
      let R1 := reorth qm k R in                                    (* 136-138 *)
      let rn := cnorm R1 in                                         (* 139 *)
      let R2 := cdiv R1 rn in                                       (* 140 *)
      extra_passes f qm k R2 (inner_products qm k R2)               (* 141 *)
  else (R, false).

Definition lz_state := (seq cols * tmat)%type.

(* lines 80-97 *)
Definition lz_init (init : cols) : lz_state :=
  let q0 := cdiv init (cnorm init) in                               (* 80 *)
  let qm := qset qzero 0 q0 in                                      (* 81 *)
  let r := mm q0 in                                                 (* 84 *)
  let alpha0 := cdot q0 r in                                        (* 85 *)
  let r1 := csub r (cscale_l alpha0 q0) in                          (* 88 *)
  let beta0 := cnorm r1 in                                          (* 89 *)
  let tm := tset (tset (tset tzero 0 0 alpha0) 0 1 beta0) 1 0 beta0 in   (* 92-94 *)
  (qset qm 1 (cdiv r1 beta0), tm).                                  (* 97 *)

(* the repaired source (fix C09-degenerate-budget-and-start) tests beta_0 before it writes t_mat[0, 1], t_mat[1, 0] and
   q_mat[1]:  `if num_iter > 1 and torch.sum(beta_0.abs() > 1e-6) == 0: num_iter = 1`.  [lz_beta0]: beta_0 (the same
   expression as in lz_init); [lz_init_stop]: the state when the decomposition ends there (q_0 and alpha_0 only). *)
Definition lz_beta0 (init : cols) : seq F :=
  let q0 := cdiv init (cnorm init) in
  let r := mm q0 in
  let alpha0 := cdot q0 r in
  cnorm (csub r (cscale_l alpha0 q0)).
Definition lz_init_stop (init : cols) : lz_state :=
  let q0 := cdiv init (cnorm init) in
  let r := mm q0 in
  let alpha0 := cdot q0 r in
  (qset qzero 0 q0, tset tzero 0 0 alpha0).

(* the pieces of one loop body (lines 101-121), named so that the proofs can refer to them *)
(* 102-107: r_vec = matmul_closure(q_curr_vec) - q_prev_vec.mul(beta_prev) *)
Definition lz_r (qm : seq cols) (tm : tmat) (k : nat) : cols :=
  let q_prev := qrow qm k.-1 in                                     (* 102 *)
  let q_curr := qrow qm k in                                        (* 103 *)
  let beta_prev := trow tm k k.-1 in                                (* 104 *)
  csub (mm q_curr) (cscale_r q_prev beta_prev).                     (* 107 *)
(* 108: alpha_curr = q_curr_vec.mul(r_vec).sum(-2) *)
Definition lz_alpha (qm : seq cols) (k : nat) (r : cols) : seq F := cdot (qrow qm k) r.
(* 115-119: r_vec.sub_(alpha_curr.mul(q_curr_vec)); full re-orthogonalisation *)
Definition lz_r2 (qm : seq cols) (k : nat) (r : cols) (alpha : seq F) : cols :=
  let r1 := csub r (cscale_l alpha (qrow qm k)) in                  (* 115 *)
  reorth qm k r1.                                                   (* 117-119 *)

(* lines 101-147: one loop body; returns the new state and whether `break` was executed *)
Definition lz_body (k : nat) (st : lz_state) : lz_state * bool :=
  let: (qm, tm) := st in
  let r := lz_r qm tm k in                                          (* 102-107 *)
  let alpha := lz_alpha qm k r in                                   (* 108 *)
  let tm1 := tset tm k k alpha in                                   (* 110 *)
  if k.+1 < num_iter then                                           (* 113 *)
    let r2 := lz_r2 qm k r alpha in                                 (* 115-119 *)
    let rn := cnorm r2 in                                           (* 120 *)
    let r3 := cdiv r2 rn in                                         (* 121 *)
    let beta := rn in                                               (* 124 *)
    let tm2 := tset (tset tm1 k k.+1 beta) k.+1 k beta in           (* 126-127 *)
    let ip := inner_products qm k r3 in                             (* 130 *)
    let: (r4, could) := extra_passes n_extra qm k r3 ip in          (* 131-141 *)
    let qm' := qset qm k.+1 r4 in                                   (* 144 *)
    ((qm', tm2), ~~ has (fun b => altb A brk (aabs A b)) beta || ~~ could)   (* 146 *)
  else ((qm, tm1), false).

(* line 100: for k in range(1, num_iter) with the break of line 147.  fuel = number of remaining loop
   indices (a bounded `for`, never data dependent).  Returns the final state and the last value of k. *)
Fixpoint lz_loop (fuel k : nat) (st : lz_state) : lz_state * nat :=
  if fuel is f.+1 then
    let: (st', brk_) := lz_body k st in
    if brk_ || (f == 0) then (st', k) else lz_loop f k.+1 st'
  else (st, k.-1).

End Core.

(* ---------------------------------------------------------------------------------------- *)
(* the arguments *)
Record lz_init_vecs := MkInit {
  i_dtype_ok : bool;      (* dtype == init_vecs.dtype *)
  i_onedim : bool;        (* init_vecs.dim() == 1 (then shape[:-2] is empty and size(-2) / dim=-2 raise IndexError) *)
  i_batch : seq nat;      (* init_vecs.shape[:-2] *)
  i_n : nat;              (* init_vecs.size(-2) *)
  i_nvec : nat;           (* init_vecs.size(-1) *)
  i_cols : cols           (* flat columns b * nvec + j *)
}.

Record lz_args := MkArgs {
  g_callable : bool;              (* callable(matmul_closure) *)
  g_mm : cols -> cols;            (* matmul_closure, on flat columns *)
  g_max_iter : nat;
  g_n : nat;                      (* matrix_shape[-1] *)
  g_batch : seq nat;              (* batch_shape *)
  g_init : option lz_init_vecs;   (* init_vecs *)
  g_num_init : nat;               (* num_init_vecs (only used when init_vecs is None) *)
  g_randn : seq vec;              (* what torch.randn(n, num_init_vecs) returns: num_init_vecs columns *)
  g_tol : F;
  g_brk : F;                      (* the literal 1e-6 *)
  g_extra : nat;                  (* the literal 10 *)
  g_debug : bool;                 (* settings.debug.on() *)
  (* which of the two versions of the source the tree under test contains (regenerated on every run, gen/Consts.v) *)
  g_first_guard : bool;           (* fix C09-degenerate-budget-and-start: beta_0 is tested, a budget of 1 is served *)
  g_abs : bool                    (* fix C09-partial-breakdown-sign: inner_products.abs() > tol *)
}.

(* the test of line 133 on one inner product *)
Definition lz_gt (g : lz_args) : F -> bool := fun x => altb A (g_tol g) (if g_abs g then aabs A x else x).

Record lz_out := MkOut {
  o_m : nat;                      (* final num_iter = k + 1 *)
  o_qshape : seq nat;             (* q_mat.shape *)
  o_tshape : seq nat;             (* t_mat.shape *)
  o_Q : seq mat;                  (* one n x m matrix (list of rows) per leading index (j, b), j-major *)
  o_T : seq mat                   (* one m x m matrix per leading index (j, b) *)
}.

Definition prodn (s : seq nat) : nat := foldr muln 1 s.

(* lines 30-53: the start vectors (flat columns) and their number *)
Definition lz_start (g : lz_args) : res (nat * cols) :=
  let B := prodn (g_batch g) in
  if g_init g is Some iv then
    if g_debug g then                                                      (* 35 *)
      if ~~ i_dtype_ok iv then Err ErrDtype                                (* 36 *)
      else if g_batch g != i_batch iv then Err ErrBatchShape               (* 44 *)
      else if i_onedim iv then Err ErrIndex                                (* 48: init_vecs.size(-2) of a 1-D tensor *)
      else if g_n g != i_n iv then Err ErrMatrixShape                      (* 48 *)
      else Ok (i_nvec iv, i_cols iv)
    else if i_onedim iv then Err ErrIndex                                  (* 80: torch.norm(init_vecs, 2, dim=-2) *)
    else Ok (i_nvec iv, i_cols iv)                                         (* 53 *)
  else
    (* 31-32: torch.randn(n, num_init_vecs).expand( *batch_shape, n, num_init_vecs) *)
    let nv := g_num_init g in
    Ok (nv, mkseq (fun c => nth [::] (g_randn g) (c %% nv)) (B * nv)).

Definition lanczos_tridiag (g : lz_args) : res lz_out :=
  if ~~ g_callable g then Err ErrNotCallable else                          (* 23 *)
  match lz_start g with
  | Err e => Err e
  | Ok (nvec, init) =>
    let n := g_n g in
    let B := prodn (g_batch g) in
    let C := B * nvec in
    let num_iter := minn (g_max_iter g) n in                               (* 56 *)
    (* q_mat[0] on a tensor with num_iter = 0 rows: IndexError; pinned source: also t_mat[0, 1] on a 1 x 1 ... tensor *)
    if num_iter < (if g_first_guard g then 1 else 2) then Err ErrIndex else
    (* repaired source: `if num_iter > 1 and torch.sum(beta_0.abs() > 1e-6) == 0: num_iter = 1`, and nothing but q_0 and
       alpha_0 is written when num_iter is 1; `k = 0` before a loop that does not run *)
    let stop := g_first_guard g &&
                ((num_iter < 2) || ~~ has (fun b => altb A (g_brk g) (aabs A b)) (lz_beta0 n C (g_mm g) init)) in
    let: ((qm, tm), kl) :=
      if stop then (lz_init_stop n C num_iter (g_mm g) init, 0)
      else lz_loop n C num_iter (g_mm g) (lz_gt g) (g_brk g) (g_extra g) num_iter.-1 1
                   (lz_init n C num_iter (g_mm g) init) in
    let m := kl.+1 in                                                      (* 150 *)
    (* 153: q_mat[:m].permute(-1, *batch dims, -2, 0) ; 155: t_mat[:m, :m].permute(-1, *batch dims, 0, 1) *)
    let col_of o := (o %% B) * nvec + o %/ B in                            (* leading index o = j * B + b *)
    let Qs := mkseq (fun o => mtab n m (fun x i => vget (qget qm i (col_of o)) x)) (nvec * B) in
    let Ts := mkseq (fun o => mtab m m (fun i j => tget tm i j (col_of o))) (nvec * B) in
    (* 158-160: multiple_init_vecs is always False: squeeze_(0) removes the leading dimension iff it is 1 *)
    let lead := if nvec == 1 then [::] else [:: nvec] in
    Ok (MkOut m (lead ++ g_batch g ++ [:: n; m]) (lead ++ g_batch g ++ [:: m; m]) Qs Ts)
  end.

(* ---------------------------------------------------------------------------------------- *)
(* lanczos_tridiag_to_diag (lines 166-188), for one k x k matrix; (evals, evecs) is what
   torch.linalg.eigh(t_mat) returned for it *)
Definition tridiag_to_diag (k : nat) (evals : vec) (evecs : mat) : vec * mat :=
  let mask := mkseq (fun j => aleb A (a0 A) (vget evals j)) k in                          (* 184: evals.ge(0) *)
  let evecs' := mtab k k (fun i j => amul A (mget evecs i j)                              (* 185 *)
                                         (if nth false mask j then a1 A else a0 A)) in
  let evals' := mkseq (fun j => if nth false mask j then vget evals j else a1 A) k in     (* 186 *)
  (evals', evecs').

(* min over a non-empty list, as torch.min does (first argument kept on ties) *)
Definition amin (x y : F) : F := if altb A y x then y else x.
Definition minl (s : seq F) : F := if s is x :: r then foldl amin x r else a0 A.

(* _root_decomposition.py lines 65-69 / _diagonalization.py lines 46-50: t_mat + jitter_mat for one matrix.
   [embed] = false: (jitter * mins) * torch.eye(k)                      (RootDecomposition): jitter on the diagonal.
   [embed] = true : torch.diag_embed(jitter * mins).expand_as(t_mat)    (Diagonalization): mins was computed with
                    keepdim=True, so diag_embed builds a 1 x 1 matrix and expand_as broadcasts it to EVERY entry
                    (transcribed as written; known finding C09-diagonalization-jitter-all-entries). *)
Definition add_jitter (embed : bool) (jit : F) (k : nat) (T : mat) : mat :=
  let mins := minl (mkseq (fun i => mget T i i) k) in
  let jm := amul A jit mins in
  mtab k k (fun i j => aadd A (mget T i j)
                         (if embed then jm
                          else amul A jm (if i == j then a1 A else a0 A))).

(* q_mat.matmul(eigenvectors) *)
Definition mmul (m k n : nat) (X Y : mat) : mat :=
  mtab m n (fun i j => sumn_ (fun l => amul A (mget X i l) (mget Y l j)) k).

(* RootDecomposition.forward lines 72-84 for one (Q, evals, evecs): (root, inverse) *)
Definition root_post (n k : nat) (Q : mat) (evals : vec) (evecs : mat) : mat * mat :=
  let: (ev, V) := tridiag_to_diag k evals evecs in
  let QV := mmul n k k Q V in                                       (* 73 *)
  let re := mkseq (fun j => asqrt A (vget ev j)) k in               (* 74: eigenvalues.sqrt() *)
  (mtab n k (fun i j => amul A (mget QV i j) (vget re j)),          (* 83: q_mat * root_evals.unsqueeze(-2) *)
   mtab n k (fun i j => adiv A (mget QV i j) (vget re j))).         (* 81: q_mat / root_evals.unsqueeze(-2) *)

(* Diagonalization.forward lines 50-53 for one (Q, evals, evecs): (eigenvalues, q_mat) *)
Definition diag_post (n k : nat) (Q : mat) (evals : vec) (evecs : mat) : vec * mat :=
  let: (ev, V) := tridiag_to_diag k evals evecs in
  (ev, mmul n k k Q V).

(* _postprocess_lanczos_root_inv_decomp lines 216-221: index of the smallest summed residual
   (torch.min over dim 0: the first minimal entry) *)
Fixpoint argmin_from (best : F) (bi i : nat) (s : seq F) : nat :=
  if s is x :: r then
    if altb A x best then argmin_from x i i.+1 r else argmin_from best bi i.+1 r
  else bi.
Definition argmin (s : seq F) : nat := if s is x :: r then argmin_from x 0 1 r else 0.


(* _postprocess_lanczos_root_inv_decomp lines 198-221.  inv_roots: one n x k matrix per (probe, batch member);
   test_vectors: one n x t matrix per batch member; linear_op: one n x n matrix per batch member (linear_op.matmul
   is modelled by its meaning; the permute / view pairs of lines 205-213 only move the probe index next to the
   columns and back: index maps).  Residuals of one (probe, batch member): the 2-norm of every column of
   A (R (R^T V)) - V. *)
Definition post_resid_member (n k t : nat) (Ab R V : mat) : seq F :=
  let W := mtab k t (fun l j => sumn_ (fun x => amul A (mget R x l) (mget V x j)) n) in   (* 202: inv_roots.mT.matmul(test_vectors) *)
  let S := mmul n k t R W in                                                                (* 202: inv_roots.matmul(...) *)
  let M := mmul n n t Ab S in                                                               (* 210: linear_op.matmul(solves) *)
  mkseq (fun j => asqrt A (sumn_ (fun i => let d := asub A (mget M i j) (mget V i j) in amul A d d) n)) t.   (* 216 *)

(* 217: residuals.view(residuals.size(0), -1).sum(-1): one number per probe (sum over batch members and columns) *)
Definition post_residuals (n k t : nat) (As : seq mat) (Rs : seq (seq mat)) (Vs : seq mat) : seq F :=
  map (fun Rp =>
         foldl (aadd A) (a0 A)
               (flatten (mkseq (fun b => post_resid_member n k t (nth [::] As b) (nth [::] Rp b) (nth [::] Vs b))
                               (size As)))) Rs.

(* 220-221: the index of the best probe and its inverse roots *)
Definition postprocess (n k t : nat) (As : seq mat) (Rs : seq (seq mat)) (Vs : seq mat) : nat * seq mat :=
  let b := argmin (post_residuals n k t As Rs Vs) in (b, nth [::] Rs b).

(* ---------------------------------------------------------------------------------------- *)
(* Shapes through RootDecomposition.forward (_root_decomposition.py lines 58-64 and 88-97) and
   Diagonalization.forward (_diagonalization.py lines 40-45 and 58-61).  [qshape] is the shape of the q_mat that
   lanczos_tridiag returned: ( [nprobe,] *batch, n, m ) -- the probe dimension is present iff nprobe > 1.
   ctx.batch_shape is never None on the operator path (it is linear_op.batch_shape): that branch is not modelled. *)
Definition squeeze0 (s : seq nat) : seq nat :=                                     (* tensor.squeeze(0) *)
  if s is x :: r then (if x == 1 then r else s) else s.

Definition root_forward_shape_pinned (lead : seq nat) (n m : nat) : seq nat :=
  (* q_mat: lead ++ [n; m], t_mat: lead ++ [m; m] as returned by lanczos_tridiag *)
  (* 61: t_mat.ndimension() == 3 ("if we only used one probe vector"): unsqueeze(0) of both *)
  let lead1 := if size (lead ++ [:: m; m]) == 3 then 1 :: lead else lead in
  let n_probes := head 0 (lead1 ++ [:: m; m]) in                                   (* 64: t_mat.size(0) *)
  (* 73-83: matmul with the eigenvectors, scaling by the root eigenvalues: shape of q_mat unchanged *)
  if n_probes == 1 then squeeze0 (lead1 ++ [:: n; m]) else lead1 ++ [:: n; m].     (* 93-94 *)

Definition diag_forward_shape_pinned (lead : seq nat) (n m : nat) : seq nat * seq nat :=
  let lead1 := if size (lead ++ [:: m; m]) == 3 then 1 :: lead else lead in        (* 43-45 *)
  (squeeze0 (lead1 ++ [:: m]), squeeze0 (lead1 ++ [:: n; m])).                      (* 61, 60: eigenvalues / q_mat .squeeze(0) *)

(* _postprocess_lanczos_root_inv_decomp line 221: inv_roots[best_solve_index] has shape ( *batch, n, k ); .squeeze(0) *)
Definition postprocess_shape_pinned (batch : seq nat) (n k : nat) : seq nat := squeeze0 (batch ++ [:: n; k]).

(* after fix C09-leading-singleton-batch: RootDecomposition.forward takes the number of probes from
   ctx.initial_vectors (1 if None), unsqueezes exactly when it is 1 (that is when lanczos_tridiag squeezed) and
   squeezes that dimension again at the end; Diagonalization.forward always unsqueezes and squeezes; the probe
   selection returns inv_roots[best_solve_index] without a further squeeze.  [fixed] = which version the tree under
   test contains (probed on every run, gen/Consts.v). *)
Definition root_forward_shape (fixed : bool) (nprobe : nat) (lead : seq nat) (n m : nat) : seq nat :=
  if fixed then
    let lead1 := if nprobe == 1 then 1 :: lead else lead in
    if nprobe == 1 then squeeze0 (lead1 ++ [:: n; m]) else lead1 ++ [:: n; m]
  else root_forward_shape_pinned lead n m.
Definition diag_forward_shape (fixed : bool) (lead : seq nat) (n m : nat) : seq nat * seq nat :=
  if fixed then (squeeze0 ((1 :: lead) ++ [:: m]), squeeze0 ((1 :: lead) ++ [:: n; m]))
  else diag_forward_shape_pinned lead n m.
Definition postprocess_shape (fixed : bool) (batch : seq nat) (n k : nat) : seq nat :=
  if fixed then batch ++ [:: n; k] else postprocess_shape_pinned batch n k.

(* root_inv_decomposition (operators/_linear_operator.py lines 2237-2254): does the argument check on the shape of
   initial_vectors raise RuntimeError?  [batch], [n]: shape of the operator; [ivs] = initial_vectors.shape *)
Definition root_inv_guard_raises (batch : seq nat) (n : nat) (ivs : seq nat) : bool :=
  if (size batch + 2 == 2) && (size ivs == 1) then n != prodn ivs                    (* 2238-2244: numel *)
  else if size batch + 2 != size ivs then true                                        (* 2245-2249 *)
  else (batch != take (size ivs - 2) ivs) || (n != nth 0 ivs (size ivs - 2)).         (* 2250-2254 *)

(* StochasticLQ.to_dense (utils/stochastic_lq.py lines 66-81) for one batch member: [evals] / [evecs] = eigenvalues and
   eigenvectors of the tridiagonal matrix of every probe (what lanczos_tridiag_to_diag returned), [funcs] = the
   elementwise functions f_1 .. f_r; result: one number per function,
       sum_j  n / num_random_probes * sum_l evecs[j][0, l]^2 * f_i(evals[j][l]).
   The python list `results` has one accumulator PER FUNCTION (line 67) and line 79 rebinds results[i] only. *)
Definition natF (n : nat) : F := iter n (fun x => aadd A x (a1 A)) (a0 A).
Definition slq_to_dense (n k : nat) (evals : seq vec) (evecs : seq mat) (funcs : seq (F -> F)) : seq F :=
  let P := size evals in                                                                  (* 68 *)
  map (fun f =>
         foldl (fun acc j =>                                                              (* 69 *)
                  let lam := nth [::] evals j in let V := nth [::] evecs j in
                  let dotp := sumn_ (fun l => amul A (amul A (mget V 0 l) (mget V 0 l)) (f (vget lam l))) k in   (* 75-78 *)
                  aadd A acc (amul A (adiv A (natF n) (natF P)) dotp))                    (* 79 *)
               (a0 A) (iota 0 P)) funcs.

(* what lanczos_tridiag hands over (theorem C09_trim_shapes_any_arith) and what the operator is expected to return *)
Definition lanczos_lead (nprobe : nat) (batch : seq nat) : seq nat :=
  (if nprobe == 1 then [::] else [:: nprobe]) ++ batch.

End Model.
