(* C09 — a concrete input over an arbitrary real closed field on which every hypothesis of the theorems of
   Property.v holds (non-vacuity):  A = [[1, 1], [1, 1]] (symmetric PSD, rank one), start vector e_1, budget 2.
   The run returns Q = I, T = A. *)
From mathcomp Require Import all_ssreflect all_algebra.
Require Import C09.Model C09.ProofsGen C09.ProofsAlg.
Set Implicit Arguments.
Unset Strict Implicit.
Unset Printing Implicit Defensive.
Import GRing.Theory Num.Theory.
Local Open Scope ring_scope.

Section Ex.
Variable F : rcfType.
Variables (tol brk : F).

Definition exA : mat F := [:: [:: 1; 1]; [:: 1; 1]].
Definition exInit : cols F := [:: [:: 1; 0]].
Definition exG : lz_args F :=
  MkArgs true (tensor_mm (ArR F) 1 [:: exA]) 2 2 [::] (Some (MkInit true false [::] 2 1 exInit)) 1 [::] tol brk 10 true false false.

Lemma ex_satisfiable :
  exists o,
    [/\ lanczos_tridiag (ArR F) exG = Ok o /\ lz_start exG = Ok (1%N, exInit),
        (0 < size (o_Q o))%N /\ o_m o = g_n exG,
        cv 2 exInit (col_of (prodn (g_batch exG)) 1 0) != 0,
        (forall j, (j.+1 < o_m o)%N -> mget (ArR F) (nth [::] (o_T o) 0) j j.+1 != 0) &
        (forall X, cv 2 (g_mm exG X) 0 = mx_of 2 2 exA *m cv 2 X 0) /\ (mx_of 2 2 exA)^T = mx_of 2 2 exA].
Proof.
eexists; split.
- by split; [rewrite /lanczos_tridiag /=; reflexivity | reflexivity].
- by [].
- apply/eqP => /colP /(_ ord0); rewrite !mxE /= => /eqP; by rewrite oner_eq0.
- case=> [|j] //= _.
  rewrite /mget /= /tget /trow /tset /= /vget /= /norm2 /dot /= /vget /= /rowdot /=.
  by rewrite !(mulr0, mul0r, mulr1, mul1r, addr0, add0r, subr0, sqrtr1, divr1, invr1, subrr, sqrtr0, oppr0) oner_neq0.
- split; first by move=> X; apply: (@dense_mm_lin F 2 1 [:: exA] 0) => // -[|[|i]].
  apply/matrixP => i j; rewrite !mxE.
  by case: i => [[|[|i]] hi] //; case: j => [[|[|j]] hj].
Qed.


(* a run with a breakdown that is NOT followed by an exit: A = I_2, start e_1, budget 2 (with num_iter = 2 the loop has no
   break test).  beta_0 = 0, m = 2: the hypotheses of the last clause of C09_breakdown_prefix hold with w = 1. *)
Definition exI : mat F := [:: [:: 1; 0]; [:: 0; 1]].
Definition exG2 : lz_args F :=
  MkArgs true (tensor_mm (ArR F) 1 [:: exI]) 2 2 [::] (Some (MkInit true false [::] 2 1 exInit)) 1 [::] tol brk 10 true false false.

Lemma ex_breakdown_satisfiable :
  exists o,
    [/\ lanczos_tridiag (ArR F) exG2 = Ok o /\ lz_start exG2 = Ok (1%N, exInit),
        (0 < size (o_Q o))%N /\ (0 < 1 <= o_m o)%N /\ (1 < o_m o)%N,
        cv 2 exInit (col_of (prodn (g_batch exG2)) 1 0) != 0,
        mget (ArR F) (nth [::] (o_T o) 0) 0 1 = 0 &
        (forall X, cv 2 (g_mm exG2 X) 0 = mx_of 2 2 exI *m cv 2 X 0) /\ (mx_of 2 2 exI)^T = mx_of 2 2 exI].
Proof.
eexists; split.
- by split; [rewrite /lanczos_tridiag /=; reflexivity | reflexivity].
- by [].
- apply/eqP => /colP /(_ ord0); rewrite !mxE /= => /eqP; by rewrite oner_eq0.
- rewrite /mget /= /tget /trow /tset /= /vget /= /norm2 /dot /= /vget /= /rowdot /=.
  by rewrite !(mulr0, mul0r, mulr1, mul1r, addr0, add0r, subr0, sqrtr1, divr1, invr1, subrr, sqrtr0, oppr0).
- split; first by move=> X; apply: (@dense_mm_lin F 2 1 [:: exI] 0) => // -[|[|i]].
  apply/matrixP => i j; rewrite !mxE.
  by case: i => [[|[|i]] hi] //; case: j => [[|[|j]] hj].
Qed.


(* the same input on the REPAIRED source (both flags set): with a threshold below beta_0 = 1 the first-step test does not
   stop the run and everything is as above *)
Definition exGr : lz_args F :=
  MkArgs true (tensor_mm (ArR F) 1 [:: exA]) 2 2 [::] (Some (MkInit true false [::] 2 1 exInit)) 1 [::] tol brk 10 true true true.

Lemma ex_beta0 : lz_beta0 (ArR F) 2 1 (tensor_mm (ArR F) 1 [:: exA]) exInit = [:: 1].
Proof.
rewrite /lz_beta0 /cnorm /csub /cscale_l /cdot /cdiv /tensor_mm /ctab /mkseq /= /norm2 /dot /= /vget /= /cget /= /matvec /= /rowdot /=.
by rewrite !(mulr0, mul0r, mulr1, mul1r, addr0, add0r, subr0, sqrtr1, divr1, invr1, subrr, sqrtr0, oppr0, expr2).
Qed.

Lemma ex_satisfiable_repaired : brk < 1 ->
  exists o,
    [/\ lanczos_tridiag (ArR F) exGr = Ok o /\ lz_start exGr = Ok (1%N, exInit),
        (0 < size (o_Q o))%N /\ o_m o = g_n exGr,
        cv 2 exInit (col_of (prodn (g_batch exGr)) 1 0) != 0,
        (forall j, (j.+1 < o_m o)%N -> mget (ArR F) (nth [::] (o_T o) 0) j j.+1 != 0) &
        (forall X, cv 2 (g_mm exGr X) 0 = mx_of 2 2 exA *m cv 2 X 0) /\ (mx_of 2 2 exA)^T = mx_of 2 2 exA].
Proof.
move=> Hbrk.
have Hstop : lz_stop (ArR F) exGr 1 exInit = false.
  have -> : lz_stop (ArR F) exGr 1 exInit
            = true && ((2 < 2)%N || ~~ has (fun b : F => brk < `|b|)
                                         (lz_beta0 (ArR F) 2 1 (tensor_mm (ArR F) 1 [:: exA]) exInit)) by [].
  by rewrite ex_beta0 /= normr1 Hbrk.
have Erun : lanczos_tridiag (ArR F) exGr = lanczos_tridiag (ArR F) exG.
  rewrite /lanczos_tridiag.
  have -> : lz_start exGr = Ok (1%N, exInit) by [].
  have -> : lz_start exG = Ok (1%N, exInit) by [].
  cbv beta iota.
  rewrite -/(lz_stop (ArR F) exGr 1 exInit) Hstop.
  reflexivity.
have [o [[H1 H1'] H2 H3 H4 H5]] := ex_satisfiable.
by exists o; split=> //; split=> //; rewrite Erun.
Qed.

End Ex.
