(* C10 — Pivoted Cholesky under-approximates greedily; its preconditioner is exact.
   Only theorem statements live here; each is closed by `exact` of a lemma proved in Proofs*.v
   about the executable model of Model.v (the very terms that the correspondence shards run on
   binary64 against the implementation).

   Conventions.  R is ANY real closed field, ln ANY function R -> R (the logarithm; its law is a
   hypothesis where it matters).  `RA ln` is the exact-arithmetic instance of the model's arithmetic.
   For a batch member with matrix K (n x n, read through `get`), `member_run ln n max_iter K r` is its
   loop state after r bodies, where max_iter = min(rank, n); all members of a batch run the same r
   (C10_early_stop_guard).  `Lcol … r l x` = L[x, l] of the returned factor, `pperm … r` the returned
   permutation, `resid … r k x y` = (K - L_k L_k^T)[x, y] for the first k columns L_k.
   Guard of every theorem: `pivots_positive … r` — each pivot met so far is > 0 (otherwise the
   library divides by zero / takes the root of a negative number: NaN). *)
From mathcomp Require Import all_ssreflect all_algebra.
From mathcomp Require Import ring.
Require Import C10.Model C10.ProofsBase C10.ProofsPerm C10.ProofsPC C10.ProofsLoop C10.ProofsMain C10.ProofsPrecondMx C10.ProofsPrecond C10.ProofsPSD C10.ProofsExt.
Set Implicit Arguments.
Unset Strict Implicit.
Unset Printing Implicit Defensive.
Import Order.Theory GRing.Theory Num.Theory.
Local Open Scope ring_scope.

(* the returned permutation is a permutation of 0..n-1 (for every member, every r) *)
Theorem C10_perm_is_permutation (R : rcfType) ln n max_iter (K : mat R) r :
  symmetric_mat ln K -> (r <= n)%N -> (r <= max_iter)%N -> pivots_positive ln n max_iter K r ->
  perm_eq (pperm ln n max_iter K r) (iota 0 n).
Proof. by move=> Hs Hn Hm Hp; exact: perm_is_permutation. Qed.

(* pivot j is an index not pivoted before, holding the largest entry of the residual diagonal
   K - L_j L_j^T among those; on ties the first position of the permutation as it stood then *)
Theorem C10_pivot_is_argmax (R : rcfType) ln n max_iter (K : mat R) r j :
  symmetric_mat ln K -> (r <= n)%N -> (r <= max_iter)%N -> pivots_positive ln n max_iter K r ->
  (j < r)%N ->
  let p := nth 0%N (pperm ln n max_iter K r) j in
  [/\ (p < n)%N, p \notin take j (pperm ln n max_iter K r),
      forall x, (x < n)%N -> x \notin take j (pperm ln n max_iter K r) ->
                resid ln n max_iter K r j x x <= resid ln n max_iter K r j p p &
      exists t, [/\ (j <= t < n)%N, nth 0%N (pperm ln n max_iter K j) t = p &
                 forall u, (j <= u < t)%N ->
                   resid ln n max_iter K r j (nth 0%N (pperm ln n max_iter K j) u)
                                             (nth 0%N (pperm ln n max_iter K j) u)
                   < resid ln n max_iter K r j p p]].
Proof. by move=> Hs Hn Hm Hp Hj; exact: pivot_is_argmax. Qed.

(* the diagonal the loop tracks is the diagonal of the residual on every index not yet pivoted *)
Theorem C10_diag_invariant (R : rcfType) ln n max_iter (K : mat R) r x :
  symmetric_mat ln K -> (r <= n)%N -> (r <= max_iter)%N -> pivots_positive ln n max_iter K r ->
  (x < n)%N -> x \notin take r (pperm ln n max_iter K r) ->
  vget (RA ln) (pcd (member_run ln n max_iter K r)) x = resid ln n max_iter K r r x x.
Proof. by move=> Hs Hn Hm Hp Hx Hnt; exact: diag_invariant. Qed.

(* greedy interpolation: rows and columns of the residual vanish at every pivot chosen so far *)
Theorem C10_rows_vanish (R : rcfType) ln n max_iter (K : mat R) r j x :
  symmetric_mat ln K -> (r <= n)%N -> (r <= max_iter)%N -> pivots_positive ln n max_iter K r ->
  (j < r)%N -> (x < n)%N ->
  resid ln n max_iter K r r (nth 0%N (pperm ln n max_iter K r) j) x = 0 /\
  resid ln n max_iter K r r x (nth 0%N (pperm ln n max_iter K r) j) = 0.
Proof. by move=> Hs Hn Hm Hp Hj Hx; exact: rows_vanish. Qed.

(* the trace of the residual never increases from one column to the next *)
Theorem C10_trace_monotone (R : rcfType) ln n max_iter (K : mat R) r k :
  \sum_(x < n) resid ln n max_iter K r k.+1 x x <= \sum_(x < n) resid ln n max_iter K r k x x.
Proof. exact: trace_monotone. Qed.

(* at full rank the factorisation is exact *)
Theorem C10_exact_at_full_rank (R : rcfType) ln n max_iter (K : mat R) x y :
  symmetric_mat ln K -> (n <= max_iter)%N -> pivots_positive ln n max_iter K n ->
  (x < n)%N -> (y < n)%N -> resid ln n max_iter K n n x y = 0.
Proof. by move=> Hs Hm Hp; apply: exact_at_full_rank. Qed.

(* the quantity the early-stopping test compares with error_tol is the (absolute) residual trace
   divided by the largest diagonal entry of K *)
Theorem C10_error_is_residual_trace (R : rcfType) ln n max_iter (K : mat R) r :
  symmetric_mat ln K -> (r <= max_iter)%N -> pivots_positive ln n max_iter K r ->
  (0 < r)%N -> (r < n)%N ->
  pcerr (member_run ln n max_iter K r)
  = (\sum_(x < n) `|resid ln n max_iter K r r x x|) / (pc_init (RA ln) n max_iter K).1.
Proof. by move=> Hs Hm Hp H0 Hn; apply: error_is_residual_trace => //; apply: ltnW. Qed.

Theorem C10_orig_error_is_max_diag (R : rcfType) ln n max_iter (K : mat R) :
  (0 < n)%N ->
  (exists2 x, (x < n)%N & (pc_init (RA ln) n max_iter K).1 = get (RA ln) K x x) /\
  forall x, (x < n)%N -> get (RA ln) K x x <= (pc_init (RA ln) n max_iter K).1.
Proof. exact: orig_is_max_diag. Qed.

(* under-approximation: if K is positive semi-definite, then K - L_k L_k^T is positive semi-definite
   for every prefix L_k (k <= r) of the returned factor — each body is a Schur-complement step, i.e. a
   completion of the square in the quadratic form *)
Theorem C10_residual_psd (R : rcfType) ln n max_iter (K : mat R) r k :
  symmetric_mat ln K -> (r <= n)%N -> (r <= max_iter)%N -> pivots_positive ln n max_iter K r ->
  psd_mat ln n K -> (k <= r)%N ->
  forall x : 'rV[R]_n, 0 <= qf x (\matrix_(i < n, j < n) resid ln n max_iter K r k i j).
Proof. by move=> Hs Hn Hm Hp HK Hk; exact: residual_psd. Qed.

(* hence the residual diagonal is non-negative and the early-stopping quantity is exactly
   trace(K - L L^T) / max_i K_ii *)
Theorem C10_error_is_trace (R : rcfType) ln n max_iter (K : mat R) r :
  symmetric_mat ln K -> (r <= max_iter)%N -> pivots_positive ln n max_iter K r ->
  psd_mat ln n K -> (0 < r)%N -> (r < n)%N ->
  pcerr (member_run ln n max_iter K r)
  = (\sum_(x < n) resid ln n max_iter K r r x x) / (pc_init (RA ln) n max_iter K).1.
Proof. by move=> Hs Hm Hp HK H0 Hn; apply: error_is_trace => //; apply: ltnW. Qed.

(* the call as a whole: all members run the same r bodies, 1 <= r <= min(rank, n); the call returns,
   for every member, the first r columns and the permutation of its own run; it stops before
   min(rank, n) only once EVERY member's error is within the tolerance, and never earlier *)
Theorem C10_early_stop_guard (R : rcfType) ln (st : settings R) n rank etol (Ks : seq (mat R)) r res :
  Ks != [::] ->
  pivoted_cholesky (RA ln) st n rank etol Ks = Some (r, res) ->
  let max_iter := minn rank n in
  let tol := the_tol st etol in
  [/\ (1 <= r <= max_iter)%N,
      res = map (fun K => (result_L (RA ln) n r (member_run ln n max_iter K r),
                           pcperm (member_run ln n max_iter K r))) Ks,
      (r < max_iter)%N -> forall K, K \in Ks -> pcerr (member_run ln n max_iter K r) <= tol &
      forall m, (1 <= m < r)%N -> exists2 K, K \in Ks & tol < pcerr (member_run ln n max_iter K m)].
Proof. exact: pivoted_cholesky_spec. Qed.

(* the call raises (IndexError) exactly when min(rank, n) = 0 *)
Theorem C10_raises_iff_empty (R : rcfType) ln (st : settings R) n rank etol (Ks : seq (mat R)) :
  pivoted_cholesky (RA ln) st n rank etol Ks = None <-> minn rank n = 0%N.
Proof. exact: pivoted_cholesky_none. Qed.

(* ========================================================================================== *)
(* The preconditioner of AddedDiagLinearOperator (K + D).  `qr` is ANY function meeting the
   specification of torch.linalg.qr on the matrix the model hands to it (`qr_spec`: Q^T Q = I,
   Q R = input, R upper triangular).  L (n x k) is the pivoted Cholesky factor, d the diagonal of D.
   `mx_of` / `rv_of` read the list values as MathComp matrices / row vectors. *)

(* pure matrix form (the Woodbury / QR identity): sigma^-1 (I - Q1 Q1^T) is the two-sided inverse of
   L L^T + sigma I *)
Theorem C10_woodbury_const (R : rcfType) n k (Q : 'M[R]_(n + k, k)) (Rm : 'M[R]_k) (L : 'M[R]_(n,k)) (s : R) :
  0 < s -> Q^T *m Q = 1%:M -> Q *m Rm = col_mx L (Num.sqrt s *: 1%:M) ->
  (L *m L^T + s%:M) *m (s^-1 *: (1%:M - usubmx Q *m (usubmx Q)^T)) = 1%:M /\
  (s^-1 *: (1%:M - usubmx Q *m (usubmx Q)^T)) *m (L *m L^T + s%:M) = 1%:M.
Proof.
move=> Hs HQ HQR; split.
- exact: (precond_const_inverse Hs HQ HQR).
- exact: (precond_const_inverse_l Hs HQ HQR).
Qed.

(* its non-constant-diagonal twin: D^-1 - q q^T with q = D^{-1/2} Q1 inverts L L^T + D *)
Theorem C10_woodbury_nonconst (R : rcfType) n k (Q : 'M[R]_(n + k, k)) (Rm : 'M[R]_k) (L : 'M[R]_(n,k))
    (w : 'rV[R]_n) :
  (forall i, 0 < w 0 i) -> Q^T *m Q = 1%:M -> Q *m Rm = col_mx (Wih w *m L) 1%:M ->
  let q := Wih w *m usubmx Q in
  (L *m L^T + diag_mx w) *m (diag_mx (\row_i (w 0 i)^-1) - q *m q^T) = 1%:M /\
  (diag_mx (\row_i (w 0 i)^-1) - q *m q^T) *m (L *m L^T + diag_mx w) = 1%:M.
Proof.
move=> Hw HQ HQR; split.
- exact: (precond_nonconst_inverse Hw HQ HQR).
- exact: (precond_nonconst_inverse_l Hw HQ HQR).
Qed.

(* matrix determinant lemma in the form the log-determinant code relies on *)
Theorem C10_sylvester_det (R : rcfType) n k (L : 'M[R]_(n,k)) (s : R) : s != 0 ->
  s ^+ k * \det (L *m L^T + s%:M) = s ^+ n * \det (L^T *m L + s%:M).
Proof. exact: sylvester_det. Qed.

(* the MODEL's closure, constant branch: applied to any right-hand side T (n x c) it returns the
   solution of (L L^T + sigma I) X = T *)
Theorem C10_precond_const_inverse (R : rcfType) ln qr n k (L : mat R) (d : seq R) c (T : mat R) :
  size L = n -> 0 < vget (RA ln) d 0 -> qr_spec ln qr (n + k) k (qr_input_const (RA ln) k L d) ->
  (mx_of ln n k L *m (mx_of ln n k L)^T + (vget (RA ln) d 0)%:M)
  *m mx_of ln n c (precond_closure (RA ln) true n k c (init_cache_const (RA ln) qr n k L d) T)
  = mx_of ln n c T.
Proof. by move=> HL Hs Hqr; exact: model_precond_const_inverse. Qed.

(* non-constant branch: the solution of (L L^T + D) X = T *)
Theorem C10_precond_nonconst_inverse (R : rcfType) ln qr n k (L : mat R) (d : seq R) c (T : mat R) :
  (forall i, (i < n)%N -> 0 < vget (RA ln) d i) ->
  qr_spec ln qr (n + k) k (qr_input_nonconst (RA ln) n k L d) ->
  (mx_of ln n k L *m (mx_of ln n k L)^T + diag_mx (rv_of ln n d))
  *m mx_of ln n c (precond_closure (RA ln) false n k c (init_cache_nonconst (RA ln) qr n k L d) T)
  = mx_of ln n c T.
Proof. by move=> Hd Hqr; exact: model_precond_nonconst_inverse. Qed.

(* the closure is a LINEAR map given by a symmetric positive definite matrix *)
Theorem C10_precond_const_spd (R : rcfType) ln qr n k (L : mat R) (d : seq R) :
  size L = n -> 0 < vget (RA ln) d 0 -> qr_spec ln qr (n + k) k (qr_input_const (RA ln) k L d) ->
  [/\ forall c T, mx_of ln n c (precond_closure (RA ln) true n k c (init_cache_const (RA ln) qr n k L d) T)
                  = closure_mx_const ln qr n k L d *m mx_of ln n c T,
      (closure_mx_const ln qr n k L d)^T = closure_mx_const ln qr n k L d &
      forall x : 'rV_n, x != 0 -> 0 < qf x (closure_mx_const ln qr n k L d)].
Proof.
move=> HL Hs Hqr; have [H1 H2] := model_precond_const_spd HL Hs Hqr.
by split => // c T; apply: const_closureE.
Qed.

Theorem C10_precond_nonconst_spd (R : rcfType) ln qr n k (L : mat R) (d : seq R) :
  (forall i, (i < n)%N -> 0 < vget (RA ln) d i) ->
  qr_spec ln qr (n + k) k (qr_input_nonconst (RA ln) n k L d) ->
  [/\ forall c T, mx_of ln n c (precond_closure (RA ln) false n k c (init_cache_nonconst (RA ln) qr n k L d) T)
                  = closure_mx_nonconst ln qr n k L d *m mx_of ln n c T,
      (closure_mx_nonconst ln qr n k L d)^T = closure_mx_nonconst ln qr n k L d &
      forall x : 'rV_n, x != 0 -> 0 < qf x (closure_mx_nonconst ln qr n k L d)].
Proof.
move=> Hd Hqr; have [H1 H2] := model_precond_nonconst_spd Hd Hqr.
by split => // c T; apply: nonconst_closureE.
Qed.

(* the reported log-determinant is log |L L^T + D|, for every function ln with ln(xy) = ln x + ln y
   on positive arguments (constant and non-constant branch) *)
Theorem C10_precond_logdet_const (R : rcfType) (ln : R -> R) qr n k (L : mat R) (d : seq R) :
  (forall x y : R, 0 < x -> 0 < y -> ln (x * y) = ln x + ln y) ->
  size L = n -> (k <= n)%N -> 0 < vget (RA ln) d 0 ->
  qr_spec ln qr (n + k) k (qr_input_const (RA ln) k L d) ->
  c_logdet (init_cache_const (RA ln) qr n k L d)
  = ln (\det (mx_of ln n k L *m (mx_of ln n k L)^T + (vget (RA ln) d 0)%:M)).
Proof. by move=> Hln HL Hk Hs Hqr; exact: model_logdet_const. Qed.

Theorem C10_precond_logdet_nonconst (R : rcfType) (ln : R -> R) qr n k (L : mat R) (d : seq R) :
  (forall x y : R, 0 < x -> 0 < y -> ln (x * y) = ln x + ln y) ->
  size L = n -> (k <= n)%N -> (forall i, (i < n)%N -> 0 < vget (RA ln) d i) ->
  qr_spec ln qr (n + k) k (qr_input_nonconst (RA ln) n k L d) ->
  c_logdet (init_cache_nonconst (RA ln) qr n k L d)
  = ln (\det (mx_of ln n k L *m (mx_of ln n k L)^T + diag_mx (rv_of ln n d))).
Proof. by move=> Hln HL Hk Hd Hqr; exact: model_logdet_nonconst. Qed.

(* the same in product form, free of any logarithm: det(L L^T + sigma I) = sigma^(n-k) (prod R_ii)^2,
   det(L L^T + D) = (prod d_i) (prod R_ii)^2 *)
Theorem C10_precond_det_const (R : rcfType) ln qr n k (L : mat R) (d : seq R) :
  size L = n -> 0 < vget (RA ln) d 0 -> qr_spec ln qr (n + k) k (qr_input_const (RA ln) k L d) ->
  (k <= n)%N ->
  \det (mx_of ln n k L *m (mx_of ln n k L)^T + (vget (RA ln) d 0)%:M)
  = vget (RA ln) d 0 ^+ (n - k)
    * (\prod_i mx_of ln k k (qr (n + k)%N k (qr_input_const (RA ln) k L d)).2 i i) ^+ 2.
Proof. by move=> HL Hs Hqr Hk; exact: model_logdet_const_prod. Qed.

Theorem C10_precond_det_nonconst (R : rcfType) ln qr n k (L : mat R) (d : seq R) :
  (forall i, (i < n)%N -> 0 < vget (RA ln) d i) ->
  qr_spec ln qr (n + k) k (qr_input_nonconst (RA ln) n k L d) -> (k <= n)%N ->
  \det (mx_of ln n k L *m (mx_of ln n k L)^T + diag_mx (rv_of ln n d))
  = (\prod_i rv_of ln n d 0 i)
    * (\prod_i mx_of ln k k (qr (n + k)%N k (qr_input_nonconst (RA ln) n k L d)).2 i i) ^+ 2.
Proof. by move=> Hd Hqr Hk; exact: model_logdet_nonconst_prod. Qed.

(* the returned operator PsdSum(Root(L), D) densifies to L L^T + D *)
Theorem C10_precond_lt_denotes (R : rcfType) ln n k (L : mat R) (d : seq R) :
  mx_of ln n n (precond_lt_dense (RA ln) n k L d)
  = mx_of ln n k L *m (mx_of ln n k L)^T + diag_mx (rv_of ln n d).
Proof. exact: model_precond_lt_denotes. Qed.

(* (None, None, None) is returned exactly for the settings fall-backs (exact arithmetic: no NaN) *)
Theorem C10_precond_fallback (R : rcfType) ln qr (st : settings R) n Ks Ds :
  preconditioner (RA ln) qr st n Ks Ds = None <->
  (st_max_precond_size st == 0%N) || (n < st_min_precond_size st)%N || (n == 0%N).
Proof. exact: model_precond_fallback. Qed.

(* ========================================================================================== *)
(* batches whose members need different numbers of bodies (the loop guard is shared) *)

(* a member never gets FEWER columns in a batch than alone ... *)
Theorem C10_batch_rank_ge_member (R : rcfType) ln (st : settings R) n rank etol (Ks : seq (mat R)) r res K rK resK :
  pivoted_cholesky (RA ln) st n rank etol Ks = Some (r, res) -> K \in Ks ->
  pivoted_cholesky (RA ln) st n rank etol [:: K] = Some (rK, resK) -> (rK <= r)%N.
Proof. exact: batch_rank_ge_member. Qed.

(* ... and what it gets in the batch extends what it gets alone: same first rK columns, same first
   rK pivots (rK <= r as above) *)
Theorem C10_batch_extends_member (R : rcfType) ln n max_iter (K : mat R) r rK :
  symmetric_mat ln K -> (rK <= r)%N -> (r <= n)%N -> (r <= max_iter)%N ->
  pivots_positive ln n max_iter K r ->
  (forall l x, (l < rK)%N -> Lcol ln n max_iter K r l x = Lcol ln n max_iter K rK l x) /\
  take rK (pperm ln n max_iter K r) = take rK (pperm ln n max_iter K rK).
Proof.
move=> Hs Hle Hn Hm Hp.
have [H1 H2] := @run_stable R ln n max_iter K (pc_init (RA ln) n max_iter K).1 Hs rK r Hle Hn Hm Hp.
by split; [move=> l x Hl; apply: H1 | apply: H2].
Qed.

(* for PSD members the early-stopping quantity of a member never increases from body to body ... *)
Theorem C10_error_antimonotone (R : rcfType) ln n max_iter (K : mat R) m' m :
  symmetric_mat ln K -> psd_mat ln n K -> pivots_positive ln n max_iter K m ->
  (0 < m')%N -> (m' <= m)%N -> (m < n)%N -> (m <= max_iter)%N ->
  pcerr (member_run ln n max_iter K m) <= pcerr (member_run ln n max_iter K m').
Proof. exact: error_antimono. Qed.

(* ... hence the batch runs exactly as many bodies as its slowest member would run alone *)
Theorem C10_batch_rank_is_max_member_rank (R : rcfType) ln (st : settings R) n rank etol (Ks : seq (mat R)) r res :
  Ks != [::] ->
  (forall K, K \in Ks ->
     [/\ symmetric_mat ln K, psd_mat ln n K & pivots_positive ln n (minn rank n) K r]) ->
  pivoted_cholesky (RA ln) st n rank etol Ks = Some (r, res) ->
  exists K rK resK,
    [/\ K \in Ks, pivoted_cholesky (RA ln) st n rank etol [:: K] = Some (rK, resK) & rK = r].
Proof. exact: batch_rank_is_max. Qed.

(* ========================================================================================== *)
(* linear_operator/utils/permutation.py *)

(* inverse_permutation: inv[perm[i]] = i, perm[inv[j]] = j, and inv is again a permutation *)
Theorem C10_inverse_permutation_correct n (perm : seq nat) :
  perm_eq perm (iota 0 n) ->
  [/\ size (inverse_permutation perm) = n,
      forall i, (i < n)%N -> nth 0%N (inverse_permutation perm) (nth 0%N perm i) = i,
      forall j, (j < n)%N -> nth 0%N perm (nth 0%N (inverse_permutation perm) j) = j &
      perm_eq (inverse_permutation perm) (iota 0 n)].
Proof.
move=> Hp; have Hperm := perm_eq_is_perm Hp; split.
- exact: size_inverse_permutation.
- by move=> i; apply: inverse_permutation_left.
- by move=> j Hj; have [] := inverse_permutation_right Hperm Hj.
- exact: is_perm_iota (inverse_permutation_is_perm Hperm).
Qed.

(* apply_permutation(M, left, right)[i, j] = M[left[i], right[j]] with shape len(left) x len(right);
   a missing side is the identity; partial permutations (any index lists) allowed *)
Theorem C10_apply_permutation_correct (R : rcfType) ln nr nc (M : mat R) left right :
  let l := perm_or_id left nr in
  let r := perm_or_id right nc in
  [/\ size (apply_permutation (RA ln) nr nc M left right) = size l,
      forall i, (i < size l)%N -> size (nth [::] (apply_permutation (RA ln) nr nc M left right) i) = size r &
      forall i j, (i < size l)%N -> (j < size r)%N ->
        get (RA ln) (apply_permutation (RA ln) nr nc M left right) i j = get (RA ln) M (nth 0%N l i) (nth 0%N r j)].
Proof.
move=> l r; have [H1 H2] := apply_permutation_shape ln nr nc M left right.
by split => // i j; apply: apply_permutation_get.
Qed.

(* the factor at the pivots: column l vanishes at the pivots chosen before body l, and the entry of
   column j at pivot j is the (positive) square root of the pivot value *)
Theorem C10_factor_triangular_at_pivots (R : rcfType) ln n max_iter (K : mat R) r j :
  symmetric_mat ln K -> (r <= n)%N -> (r <= max_iter)%N -> pivots_positive ln n max_iter K r ->
  (j < r)%N ->
  let p := nth 0%N (pperm ln n max_iter K r) j in
  [/\ forall l, (j < l < r)%N -> Lcol ln n max_iter K r l p = 0,
      Lcol ln n max_iter K r j p = Num.sqrt (pc_pivot_value (RA ln) j (member_run ln n max_iter K j)) &
      0 < Lcol ln n max_iter K r j p].
Proof.
move=> Hs Hn Hm Hp Hj p; have [H2 H3] := pivot_rows_diag Hs Hn Hm Hp Hj.
by split => // l /andP[Hjl Hlr]; apply: pivot_rows_lower.
Qed.

(* PivotedCholesky.backward recomputes the forward result from Krows = K[perm, perm[:r]]: with
   Lp[i, l] = L[perm[i], l], the block C = Lp[:r] is lower triangular with positive diagonal and
   Lp C^T = Krows (so C = cholesky(Krows[:r]) and Lp[r:] = solve_triangular(C, Krows[r:].mT).mT) *)
Theorem C10_backward_recomputes_forward (R : rcfType) ln n max_iter (K : mat R) r i j :
  symmetric_mat ln K -> (r <= n)%N -> (r <= max_iter)%N -> pivots_positive ln n max_iter K r ->
  (i < n)%N -> (j < r)%N ->
  let perm := pperm ln n max_iter K r in
  let Lp := fun i l => Lcol ln n max_iter K r l (nth 0%N perm i) in
  [/\ \sum_(l < r) Lp i l * Lp j l = get (RA ln) (backward_Krows (RA ln) n r K perm) i j,
      forall l, (j < l < r)%N -> Lp j l = 0 & 0 < Lp j j].
Proof. by move=> Hs Hn Hm Hp Hi Hj; exact: backward_recomputes_forward. Qed.

(* ... and its last step, apply_permutation(res_pivoted, inverse_permutation(perm), None), puts the
   rows back into the original order *)
Theorem C10_backward_unpermute (R : rcfType) ln n m (Lp : mat R) perm (f : nat -> nat -> R) :
  perm_eq perm (iota 0 n) ->
  (forall i j, (i < n)%N -> (j < m)%N -> get (RA ln) Lp i j = f (nth 0%N perm i) j) ->
  forall x j, (x < n)%N -> (j < m)%N -> get (RA ln) (backward_unpermute (RA ln) n m Lp perm) x j = f x j.
Proof. by move=> Hp; apply: backward_unpermute_get; apply: perm_eq_is_perm. Qed.

(* ========================================================================================== *)
(* the preconditioner as a whole *)

(* the constant-diagonal test looks at the whole batch: every member's diagonal must be constant
   (the constants may differ); a constant diagonal is the scalar matrix of the constant branch *)
Theorem C10_constant_diag_spec (R : rcfType) ln (Ds : seq (seq R)) :
  (constant_diag (RA ln) Ds <-> forall d, d \in Ds -> forall x, x \in d -> x = vget (RA ln) d 0) /\
  forall n d, size d = n -> (forall x, x \in d -> x = vget (RA ln) d 0) ->
    diag_mx (rv_of ln n d) = (vget (RA ln) d 0)%:M.
Proof.
split; first by split => [/constant_diagP|H]; [|apply/constant_diagP].
by move=> n d; apply: const_diag_scalar.
Qed.

(* a returned preconditioner is built from the pivoted Cholesky factors of rank
   max_preconditioner_size at the settings' tolerance, one cache per member, branch chosen by the
   whole-batch test *)
Theorem C10_precond_uses_pivoted_cholesky (R : rcfType) ln qr (st : settings R) n Ks Ds o :
  preconditioner (RA ln) qr st n Ks Ds = Some o ->
  exists r res,
    [/\ pivoted_cholesky (RA ln) st n (st_max_precond_size st) None Ks = Some (r, res),
        o_rank o = r, o_L o = map fst res, o_const o = constant_diag (RA ln) Ds &
        o_cache o = map (fun Ld => if constant_diag (RA ln) Ds then init_cache_const (RA ln) qr n r Ld.1 Ld.2
                                   else init_cache_nonconst (RA ln) qr n r Ld.1 Ld.2)
                        (zip (map fst res) Ds)].
Proof. exact: model_precond_some. Qed.

(* end to end: for member b of K + D the returned closure solves (L_b L_b^T + D_b) X = T, L_b being
   that member's pivoted Cholesky factor — in whichever branch was taken *)
Theorem C10_precond_end_to_end (R : rcfType) ln qr (st : settings R) n Ks Ds o b c (T : mat R) :
  preconditioner (RA ln) qr st n Ks Ds = Some o -> size Ds = size Ks -> (b < size Ks)%N ->
  let L := nth [::] (o_L o) b in
  let d := nth [::] Ds b in
  let ch := nth (MkCache [::] [::] 0) (o_cache o) b in
  let k := o_rank o in
  size d = n -> (forall i, (i < n)%N -> 0 < vget (RA ln) d i) -> (0 < n)%N ->
  qr_spec ln qr (n + k) k (if o_const o then qr_input_const (RA ln) k L d else qr_input_nonconst (RA ln) n k L d) ->
  (mx_of ln n k L *m (mx_of ln n k L)^T + diag_mx (rv_of ln n d))
  *m mx_of ln n c (precond_closure (RA ln) (o_const o) n k c ch T) = mx_of ln n c T.
Proof. exact: model_precond_end_to_end. Qed.

(* _solve_preconditioner hands out the closure of _preconditioner whenever there is one; otherwise
   None unless the beta feature default_preconditioner is on *)
Theorem C10_solve_preconditioner_routing (T : Type) (base : option T) beta (dflt : T) :
  (forall p, base = Some p -> solve_preconditioner base beta dflt = Some p) /\
  (base = None -> solve_preconditioner base beta dflt = if beta then Some dflt else None).
Proof. exact: solve_preconditioner_routing. Qed.

(* ========================================================================================== *)
(* non-vacuity: the hypotheses of the pivoted-Cholesky theorems hold for a concrete matrix with a
   TIED diagonal, over every real closed field: K = [[2,1],[1,2]], n = 2, full rank.
   (second pivot value: 2 - (1/sqrt 2)^2 = 3/2) *)
Example C10_hypotheses_satisfiable (R : rcfType) (ln : R -> R) :
  let K : mat R := [:: [:: 2%:R; 1]; [:: 1; 2%:R]] in
  [/\ symmetric_mat ln K, psd_mat ln 2 K & pivots_positive ln 2 2 K 2].
Proof.
move=> K; split.
- move=> i j; rewrite /get /K.
  by case: i => [|[|i]]; case: j => [|[|j]] //=; rewrite ?nth_nil.
- move=> x; rewrite /qf mxE !big_ord_recl big_ord0 !mxE !big_ord_recl !big_ord0 !mxE /= /get /=.
  set a := x 0 ord0; set b := x 0 (lift ord0 ord0).
  have -> : (a * 2%:R + (b * 1 + 0)) * a + ((a * 1 + (b * 2%:R + 0)) * b + 0)
            = a ^+ 2 + b ^+ 2 + (a + b) ^+ 2 by ring.
  by rewrite !addr_ge0 // sqr_ge0.
move=> j; case: j => [|[|j]] // _.
  by rewrite /pc_pivot_value /pc_argmax /member_run /= /tgt /= ltxx /= ltr0n.
rewrite /pc_pivot_value /member_run /= /pc_step /pc_argmax /= /tgt /= ltxx /= /swap_perm /=.
rewrite /scatter /= /vget /get /= /tgt /=.
by rewrite -expr2 expr_div_n expr1n sqr_sqrtr ?ler0n // subr_gt0 ltr_pdivr_mulr ?ltr0n // -natrM ltr1n.
Qed.

(* the QR contract is satisfiable: n = k = 1, L = [[0]], sigma = 1: [L; sqrt(sigma) I] = [[0]; [1]] = Q R
   with Q = [[0]; [1]], R = [[1]] *)
Example C10_qr_contract_satisfiable (R : rcfType) (ln : R -> R) :
  let qr := fun (_ _ : nat) (_ : mat R) => ([:: [:: 0]; [:: 1]], [:: [:: 1]]) : mat R * mat R in
  qr_spec ln qr (1 + 1) 1 (qr_input_const (RA ln) 1 [:: [:: 0]] [:: 1]).
Proof.
move=> qr; split.
- apply/matrixP => i j; rewrite !ord1 !mxE !big_ord_recl big_ord0 !mxE /= /get /=.
  by rewrite mulr0 mulr1 add0r addr0.
- apply/matrixP => i j; rewrite !ord1 !mxE !big_ord_recl big_ord0 !mxE /= /get /=.
  case: i => [[|[|i]] Hi] //=; rewrite ?mul0r ?addr0 //.
  by rewrite /vget /= sqrtr1 !mulr1.
- by move=> i j; rewrite !ord1.
Qed.
(* a 3-cycle and its inverse *)
Example C10_permutation_satisfiable : perm_eq [:: 2; 0; 1]%N (iota 0 3) /\ inverse_permutation [:: 2; 0; 1]%N = [:: 1; 2; 0]%N.
Proof. by []. Qed.
