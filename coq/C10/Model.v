(* C10 — executable Gallina transcription of
     linear_operator/functions/_pivoted_cholesky.py   (PivotedCholesky.forward)
     linear_operator/operators/added_diag_linear_operator.py
        (_preconditioner, _init_cache, _init_cache_for_constant_diag, _init_cache_for_non_constant_diag,
         precondition_closure, _precond_lt, _precond_logdet_cache)
     linear_operator/operators/_linear_operator.py     (pivoted_cholesky: the thin wrapper; _preconditioner and
                                                        _solve_preconditioner: the fall-back routing)
     linear_operator/utils/permutation.py               (apply_permutation, inverse_permutation; the row fetch of
                                                        the loop body goes through apply_permutation [pc_row];
                                                        the two index steps of PivotedCholesky.backward)

   Definitions only.  Everything is polymorphic in an arithmetic record [Arith F]; the same terms are
   (i) executed on PrimFloat (binary64) by the correspondence shards (Check.v) and (ii) reasoned about
   over an arbitrary real closed field (Proofs*.v).

   Data layout.  A batched operator ( *batch, n, n ) is the row-major list of its members; each member
   is a list of rows [mat].  The library code looks at the batch only through per-member primitives
   (gather / scatter_ / max(-1) / norm(1, -1)) and through ONE shared quantity: the loop guard
   `torch.max(errors) > error_tol` (all members take the same number of steps m).

   torch primitives modelled by their mathematical meaning:
     gather / scatter_ / index (reads and writes at index lists), clone / contiguous / repeat / expand
     (identity on values), torch.max(t, -1) (value and index of the FIRST maximal entry; a NaN is
     maximal), torch.max(t) (NaN-propagating maximum), torch.norm(t, 1, -1) (sequential sum of |.|),
     torch.sum(dim=-2) (sequential sum), sqrt, elementwise arithmetic, torch.equal, torch.cat,
     torch.eye, matmul (sequential dot products), log, diagonal;
     matrix.__getitem__ / to_dense / _approx_diagonal of the operator (the dense matrix [K] itself: that
     every operator class indexes as its dense matrix is C03; here it is re-checked by the
     correspondence, which feeds several operator classes);
     torch.linalg.qr by its SPECIFICATION (any Q, R with Q R = M, Q^T Q = I, R upper triangular) in
     the theorems and by modified Gram-Schmidt [mgs_qr] in the executions (the observables — the
     closure Q1 Q1^T and |diag R| — do not depend on the sign convention of the QR routine). *)
From mathcomp Require Import ssreflect ssrfun ssrbool eqtype ssrnat seq.
Set Implicit Arguments.
Unset Strict Implicit.
Unset Printing Implicit Defensive.

(* ------------------------------------------------------------------------------------------ *)
(* linear_operator/utils/permutation.py, one batch member (the batch index vectors batch_idx make
   every member use its own permutation vector: members are independent) *)

(* inverse_permutation(permutation):
     arange = torch.arange(permutation.size(-1))
     res = torch.zeros_like(permutation).scatter_(-1, permutation, arange.expand_as(permutation)) *)
Definition inverse_permutation (perm : seq nat) : seq nat :=
  foldl (fun acc iv => set_nth 0 acc iv.1 iv.2) (nseq (size perm) 0) (zip perm (iota 0 (size perm))).

Record Arith (F : Type) := MkArith {
  a0 : F; a1 : F;
  aadd : F -> F -> F; asub : F -> F -> F; amul : F -> F -> F; adiv : F -> F -> F;
  asqrt : F -> F; aabs : F -> F; alog : F -> F;
  altb : F -> F -> bool;          (* x < y ; false when either side is NaN *)
  aeqb : F -> F -> bool;          (* x == y ; false when either side is NaN *)
  aisnan : F -> bool }.

Section Model.
Variable F : Type.
Variable A : Arith F.

Definition vec := seq F.
Definition mat := seq (seq F).      (* list of rows *)

Definition vget (v : vec) (i : nat) : F := nth (a0 A) v i.
Definition get (M : mat) (i j : nat) : F := nth (a0 A) (nth [::] M i) j.
Definition mtab (m n : nat) (f : nat -> nat -> F) : mat := mkseq (fun i => mkseq (f i) n) m.

(* sequential sum ((0 + f 0) + f 1) + ... *)
Fixpoint sumn_ (f : nat -> F) (k : nat) : F :=
  if k is k'.+1 then aadd A (sumn_ f k') (f k') else a0 A.
Definition suml (s : seq F) : F := foldl (aadd A) (a0 A) s.
Fixpoint ofnat (k : nat) : F := if k is k'.+1 then aadd A (ofnat k') (a1 A) else a0 A.

(* torch's ordering for max / argmax: NaN is larger than everything *)
Definition tgt (x y : F) : bool := altb A y x || (aisnan A x && ~~ aisnan A y).

(* torch.max(t, -1): (value, index of the first maximal entry) *)
Fixpoint argmax_from (best : F) (bi i : nat) (vs : seq F) : F * nat :=
  if vs is v :: r then
    if tgt v best then argmax_from v i i.+1 r else argmax_from best bi i.+1 r
  else (best, bi).
Definition argmax (vs : seq F) : F * nat :=
  if vs is v :: r then argmax_from v 0 1 r else (a0 A, 0).
Definition maxl (vs : seq F) : F := (argmax vs).1.                      (* torch.max(t) *)

(* t.scatter_(-1, idx, vals) on one row *)
Definition scatter (v : vec) (idx : seq nat) (vals : seq F) : vec :=
  foldl (fun acc iv => set_nth (a0 A) acc iv.1 iv.2) v (zip idx vals).

(* apply_permutation(matrix, left_permutation, right_permutation) on an (nr x nc) member:
     None, None           -> to_dense(matrix)
     a missing side       -> torch.arange(matrix.size(-2)) resp. torch.arange(matrix.size(-1))
     result               =  to_dense(matrix[*batch_idx, left.unsqueeze(-1), right.unsqueeze(-2)])
                             i.e. result[i, j] = matrix[left[i], right[j]]  (partial permutations allowed) *)
Definition apply_permutation (nr nc : nat) (M : mat) (left right : option (seq nat)) : mat :=
  match left, right with
  | None, None => mtab nr nc (get M)
  | _, _ =>
      let l := if left is Some l then l else iota 0 nr in
      let r := if right is Some r then r else iota 0 nc in
      map (fun i => map (fun j => get M i j) r) l
  end.

(* row = apply_permutation(matrix, pi_m.unsqueeze(-1), right_permutation=None).squeeze(-2) *)
Definition pc_row (n : nat) (K : mat) (pi_m : nat) : vec :=
  nth [::] (apply_permutation n n K (Some [:: pi_m]) None) 0.

(* PivotedCholesky.backward re-computes the forward result differentiably:
     Krows = apply_permutation(matrix, full_permutation, short_permutation)      (n x m)
     L = psd_safe_cholesky(Krows[:m, :]) ; res_pivoted = cat([L, solve_triangular(L, Krows[m:, :].mT).mT])
     res = apply_permutation(res_pivoted, left_permutation=inverse_permutation(full_permutation), None)
   the two index steps (Cholesky / triangular solve are characterised in the theorems): *)
Definition backward_Krows (n m : nat) (K : mat) (perm : seq nat) : mat :=
  apply_permutation n n K (Some perm) (Some (take m perm)).
Definition backward_unpermute (n m : nat) (res_pivoted : mat) (perm : seq nat) : mat :=
  apply_permutation n m res_pivoted (Some (inverse_permutation perm)) None.

(* ------------------------------------------------------------------------------------------ *)
(* PivotedCholesky.forward — per batch member state                                            *)
Record pc_state := MkPc {
  pcL : mat;            (* L[b] : max_iter rows of length n (row m = m-th column of the result) *)
  pcd : vec;            (* matrix_diag[b] *)
  pcperm : seq nat;     (* permutation[b] *)
  pcerr : F             (* errors[b] *)
}.

(* max_diag_values, max_diag_indices = torch.max(torch.gather(matrix_diag, -1, permutation[..., m:]), -1) *)
Definition pc_argmax (m : nat) (s : pc_state) : F * nat :=
  argmax (map (vget (pcd s)) (drop m (pcperm s))).
Definition pc_pivot_value (m : nat) (s : pc_state) : F := (pc_argmax m s).1.

(* the two in-place writes that swap pi_m and pi_i *)
Definition swap_perm (perm : seq nat) (m mi : nat) : seq nat :=
  let old_pi_m := nth 0 perm m in
  let perm1 := set_nth 0 perm m (nth 0 perm mi) in
  set_nth 0 perm1 mi old_pi_m.

(* one body of the while loop for one batch member; K = the member's matrix, orig = orig_error[b] *)
Definition pc_step (n : nat) (K : mat) (orig : F) (m : nat) (s : pc_state) : pc_state :=
  let L := pcL s in
  let d := pcd s in
  let: (maxv, mi0) := pc_argmax m s in
  let mi := mi0 + m in                                              (* max_diag_indices + m *)
  let perm := swap_perm (pcperm s) m mi in
  let pi_m := nth 0 perm m in
  (* L_m = L[..., m, :] ; L_m.scatter_(-1, pi_m, max_diag_values.sqrt()) *)
  let L_m := set_nth (a0 A) (nth [::] L m) pi_m (asqrt A maxv) in
  if m.+1 < n then
    let pi_i := drop m.+1 perm in
    let piv := vget L_m pi_m in                                     (* L_m.gather(-1, pi_m) *)
    (* row = apply_permutation(matrix, pi_m.unsqueeze(-1), right_permutation=None).squeeze(-2) ;
       L_m_new = row.gather(-1, pi_i) ; if m > 0: L_m_new -= sum_j L[j, pi_m] * L[j, pi_i] ;
       L_m_new /= piv *)
    let row := pc_row n K pi_m in
    let newf := fun i =>
      adiv A (if 0 < m
              then asub A (vget row i) (sumn_ (fun j => amul A (get L j pi_m) (get L j i)) m)
              else vget row i) piv in
    let L_m_new := map newf pi_i in
    let L_m' := scatter L_m pi_i L_m_new in
    (* matrix_diag.scatter_(-1, pi_i, matrix_diag.gather(-1, pi_i) - L_m_new**2) *)
    let d' := scatter d pi_i (map (fun i => asub A (vget d i) (amul A (newf i) (newf i))) pi_i) in
    (* errors = torch.norm(matrix_diag.gather(-1, pi_i), 1, dim=-1) / orig_error *)
    let err := adiv A (suml (map (fun i => aabs A (vget d' i)) pi_i)) orig in
    MkPc (set_nth [::] L m L_m') d' perm err
  else
    (* m + 1 = n: only the pivot entry is written (through the view L_m); errors stays stale *)
    MkPc (set_nth [::] L m L_m) d perm (pcerr s).

(* state before the loop for one member: (orig_error[b], state) *)
Definition pc_init (n max_iter : nat) (K : mat) : F * pc_state :=
  let d := mkseq (fun i => get K i i) n in                          (* matrix._approx_diagonal().clone() *)
  let orig := maxl d in                                              (* torch.max(matrix_diag, -1)[0] *)
  let err := adiv A (suml (map (aabs A) d)) orig in                  (* torch.norm(matrix_diag, 1, -1) / orig_error *)
  (orig, MkPc (nseq max_iter (nseq n (a0 A))) d (iota 0 n) err).

(* k loop bodies m = 0 .. k-1 for one member *)
Fixpoint pc_iter (n : nat) (K : mat) (orig : F) (k : nat) (s0 : pc_state) : pc_state :=
  if k is k'.+1 then pc_step n K orig k' (pc_iter n K orig k' s0) else s0.

(* a batch member during the loop *)
Record member := MkMember { mK : mat; morig : F; mst : pc_state }.
Definition step_member (n m : nat) (b : member) : member :=
  MkMember (mK b) (morig b) (pc_step n (mK b) (morig b) m (mst b)).

(* while (m == 0) or (m < max_iter and torch.max(errors) > error_tol): body ; m = m + 1
   (fuel = max_iter suffices: the body runs at most max_iter times when max_iter >= 1) *)
Definition pc_guard (max_iter : nat) (tol : F) (m : nat) (bs : seq member) : bool :=
  (m == 0) || ((m < max_iter) && altb A tol (maxl (map (fun b => pcerr (mst b)) bs))).

Fixpoint pc_loop (fuel n max_iter : nat) (tol : F) (m : nat) (bs : seq member) : nat * seq member :=
  if fuel is f.+1 then
    if pc_guard max_iter tol m bs then pc_loop f n max_iter tol m.+1 (map (step_member n m) bs)
    else (m, bs)
  else (m, bs).

Definition init_member (n max_iter : nat) (K : mat) : member :=
  let: (orig, s) := pc_init n max_iter K in MkMember K orig s.

(* L[..., :m, :].mT : n x m *)
Definition result_L (n m : nat) (s : pc_state) : mat :=
  mtab n m (fun i j => get (pcL s) j i).

(* the part of linear_operator.settings that the anchored code reads *)
Record settings := MkSettings {
  st_max_precond_size : nat;     (* settings.max_preconditioner_size.value() *)
  st_min_precond_size : nat;     (* settings.min_preconditioning_size.value() *)
  st_precond_tol : F             (* settings.preconditioner_tolerance.value() *)
}.

(* op.pivoted_cholesky(rank, error_tol, return_pivots=True) on a batch of n x n members.
   None = IndexError (max_iter = min(rank, n) = 0: the first body indexes row 0 of an empty L).
   Some (m, [(L_b (n x m), permutation_b)]) otherwise. *)
Definition pivoted_cholesky (st : settings) (n rank : nat) (error_tol : option F) (Ks : seq mat)
  : option (nat * seq (mat * seq nat)) :=
  let tol := if error_tol is Some t then t else st_precond_tol st in
  let max_iter := minn rank n in
  if max_iter == 0 then None
  else
    let: (m, bs) := pc_loop max_iter n max_iter tol 0 (map (init_member n max_iter) Ks) in
    Some (m, map (fun b => (result_L n m (mst b), pcperm (mst b))) bs).

(* ------------------------------------------------------------------------------------------ *)
(* dense helpers *)
Definition dot (k : nat) (x y : vec) : F := sumn_ (fun l => amul A (vget x l) (vget y l)) k.
Definition mmul (m k n : nat) (X Y : mat) : mat :=
  mtab m n (fun i j => sumn_ (fun l => amul A (get X i l) (get Y l j)) k).
Definition mtr (m n : nat) (X : mat) : mat := mtab n m (fun i j => get X j i).
Definition eye (k : nat) : mat := mtab k k (fun i j => if i == j then a1 A else a0 A).

(* modified Gram-Schmidt on the columns of an (r x k) matrix M: the executable stand-in for
   torch.linalg.qr.  Returns (Q as r x k rows, R as k x k rows). *)
Definition vaxpy (c : F) (x y : vec) : vec :=                        (* y - c x *)
  map (fun p => asub A p.2 (amul A c p.1)) (zip x y).
Fixpoint mgs_orth (r : nat) (qs : seq vec) (v : vec) (coefs : seq F) : vec * seq F :=
  if qs is q :: qs' then
    let c := dot r q v in mgs_orth r qs' (vaxpy c q v) (rcons coefs c)
  else (v, coefs).
Fixpoint mgs_cols (r : nat) (todo : seq vec) (qs : seq vec) (rcols : seq (seq F)) : seq vec * seq (seq F) :=
  if todo is a :: todo' then
    let: (v, coefs) := mgs_orth r qs a [::] in
    let nrm := asqrt A (dot r v v) in
    mgs_cols r todo' (rcons qs (map (fun x => adiv A x nrm) v)) (rcons rcols (rcons coefs nrm))
  else (qs, rcols).
Definition mgs_qr (r k : nat) (M : mat) : mat * mat :=
  let cols := mkseq (fun j => mkseq (fun i => get M i j) r) k in
  let: (qs, rcols) := mgs_cols r cols [::] [::] in
  (mtab r k (fun i j => vget (nth [::] qs j) i),
   mtab k k (fun i j => vget (nth [::] rcols j) i)).

(* ------------------------------------------------------------------------------------------ *)
(* AddedDiagLinearOperator._preconditioner                                                     *)
Section Precond.
Variable qr : nat -> nat -> mat -> mat * mat.      (* torch.linalg.qr on an (r x k) matrix, r >= k *)

(* what _init_cache leaves behind for one batch member *)
Record pcache := MkCache {
  c_q : mat;          (* _q_cache[b]  (n x k) *)
  c_noise : vec;      (* _noise[b]    (constant branch: one entry; otherwise n entries) *)
  c_logdet : F        (* _precond_logdet_cache[b] *)
}.

(* torch.equal(noise, noise[..., :1, :] * ones_like(noise)) — evaluated on the WHOLE batch:
   every member must have a constant diagonal (the constants may differ between members) *)
Definition constant_diag (Ds : seq vec) : bool :=
  all (fun d => all (fun x => aeqb A x (amul A (vget d 0) (a1 A))) d) Ds.

Definition diag_R_logsum (k : nat) (R : mat) : F :=                 (* r.diagonal().abs().log().sum(-1) *)
  sumn_ (fun i => alog A (aabs A (get R i i))) k.
Definition a2 : F := aadd A (a1 A) (a1 A).

(* _init_cache_for_constant_diag *)
(* torch.cat((self._piv_chol_self, self._noise.sqrt() * eye), dim=-2) — the matrix handed to qr *)
Definition qr_input_const (k : nat) (L : mat) (d : vec) : mat :=
  L ++ mtab k k (fun i j => amul A (asqrt A (vget d 0)) (get (eye k) i j)).

Definition init_cache_const (n k : nat) (L : mat) (d : vec) : pcache :=
  let s := vget d 0 in                                              (* self._noise.narrow(-2, 0, 1) *)
  let M := qr_input_const k L d in
  let: (Q, R) := qr (n + k) k M in
  let q := take n Q in                                              (* q_cache[..., :n, :] *)
  let logdet := aadd A (amul A (diag_R_logsum k R) a2) (amul A (ofnat (n - k)) (alog A s)) in
  MkCache q [:: s] logdet.

(* _init_cache_for_non_constant_diag *)
(* torch.cat((self._piv_chol_self / self._noise.sqrt(), eye), dim=-2) — the matrix handed to qr *)
Definition qr_input_nonconst (n k : nat) (L : mat) (d : vec) : mat :=
  mtab n k (fun i j => adiv A (get L i j) (asqrt A (vget d i))) ++ eye k.

Definition init_cache_nonconst (n k : nat) (L : mat) (d : vec) : pcache :=
  let M := qr_input_nonconst n k L d in
  let: (Q, R) := qr (n + k) k M in
  let q := mtab n k (fun i j => adiv A (get Q i j) (asqrt A (vget d i))) in           (* q_cache[..., :n, :] / noise.sqrt() *)
  let logdet := asub A (amul A (diag_R_logsum k R) a2)
                       (sumn_ (fun i => alog A (adiv A (a1 A) (vget d i))) n) in       (* -= (1.0 / noise).log().sum() *)
  MkCache q d logdet.

(* precondition_closure(tensor) for one member; tensor is n x c *)
Definition precond_closure (const : bool) (n k c : nat) (ch : pcache) (T : mat) : mat :=
  let qqt := mmul n k c (c_q ch) (mmul k n c (mtr n k (c_q ch)) T) in
  if const then
    let inv_s := adiv A (a1 A) (vget (c_noise ch) 0) in
    mtab n c (fun i j => amul A inv_s (asub A (get T i j) (get qqt i j)))
  else
    mtab n c (fun i j => asub A (adiv A (get T i j) (vget (c_noise ch) i)) (get qqt i j)).

(* _precond_lt = PsdSumLinearOperator(RootLinearOperator(L), D), densified: L L^T + diag(d) *)
Definition precond_lt_dense (n k : nat) (L : mat) (d : vec) : mat :=
  let LLt := mmul n k n L (mtr n k L) in
  mtab n n (fun i j => aadd A (get LLt i j) (if i == j then vget d i else a0 A)).

Definition mat_has_nan (M : mat) : bool := has (has (aisnan A)) M.

(* (precondition_closure, _precond_lt, _precond_logdet_cache) of K + D, per member;
   None = (None, None, None).  Ds: the diagonal of D per member (n entries each, broadcast by the caller). *)
Record precond_out := MkOut {
  o_const : bool;                 (* _constant_diag *)
  o_rank : nat;                   (* k *)
  o_L : seq mat;                  (* _piv_chol_self per member *)
  o_cache : seq pcache
}.

Definition preconditioner (st : settings) (n : nat) (Ks : seq mat) (Ds : seq vec) : option precond_out :=
  if (st_max_precond_size st == 0) || (n < st_min_precond_size st) then None
  else
    match pivoted_cholesky st n (st_max_precond_size st) None Ks with
    | None => None      (* not reachable for n >= 1: IndexError *)
    | Some (k, res) =>
        let Ls := map fst res in
        if has mat_has_nan Ls then None                               (* NumericalWarning, no preconditioning *)
        else
          let const := constant_diag Ds in
          let caches := map (fun Ld => if const then init_cache_const n k Ld.1 Ld.2
                                       else init_cache_nonconst n k Ld.1 Ld.2) (zip Ls Ds) in
          Some (MkOut const k Ls caches)
    end.

End Precond.

(* LinearOperator._solve_preconditioner:
     base_precond, _, _ = self._preconditioner()
     if base_precond is not None: return base_precond
     elif beta_features.default_preconditioner.on(): return <randomized-SVD preconditioner>
     else: return None
   (LinearOperator._preconditioner itself returns (None, None, None); AddedDiagLinearOperator with a
   preconditioner_override returns override(self) before looking at any setting) *)
Definition solve_preconditioner (T : Type) (base : option T) (beta_default : bool) (default : T) : option T :=
  if base is Some p then Some p else if beta_default then Some default else None.
Definition added_diag_preconditioner (T : Type) (override : option T) (own : T) : T :=
  if override is Some p then p else own.

End Model.
