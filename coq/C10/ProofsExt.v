(* C10 — extensions: linear_operator/utils/permutation.py (inverse_permutation, apply_permutation),
   the index steps of PivotedCholesky.backward, the triangular structure of the factor at the pivots,
   and batches whose members would stop at different iterations. *)
From mathcomp Require Import all_ssreflect all_algebra.
From mathcomp Require Import ring zify.
Require Import C10.Model C10.ProofsBase C10.ProofsPerm C10.ProofsPC C10.ProofsLoop C10.ProofsMain C10.ProofsPSD C10.ProofsPrecond.
Set Implicit Arguments.
Unset Strict Implicit.
Unset Printing Implicit Defensive.
Import Order.Theory GRing.Theory Num.Theory.

(* ---------------------------------------------------------------- the factor at the pivots *)
Section Triangular.
Variable R : rcfType.
Variable ln : R -> R.
Notation RA := (RA ln).
Local Open Scope ring_scope.
Variables (n max_iter : nat) (K : mat R).
Hypothesis Hsym : symmetric_mat ln K.
Notation st := (member_run ln n max_iter K).
Notation orig := (pc_init RA n max_iter K).1.
Variable r : nat.
Hypothesis Hrn : (r <= n)%N.
Hypothesis Hrm : (r <= max_iter)%N.
Hypothesis Hpos : pivots_positive ln n max_iter K r.

Let HI : Inv ln n max_iter K r (st r).
Proof. exact: (@run_inv R ln n max_iter K orig Hsym r Hrn Hrm Hpos). Qed.

(* column l of the factor is zero at every pivot chosen before body l: the rows of L at the
   pivots, taken in pivot order, form a lower-triangular matrix ... *)
Lemma pivot_rows_lower j l : (j < l)%N -> (l < r)%N ->
  Lcol ln n max_iter K r l (nth 0%N (pperm ln n max_iter K r) j) = 0.
Proof.
move=> Hjl Hlr; apply: (inv_zero_piv HI) => //.
have [Hs _ _] := inv_perm HI.
by rewrite -(nth_take 0%N Hjl) mem_nth // size_take Hs; case: (ltnP l n) => // ?; lia.
Qed.

(* ... whose diagonal holds the square roots of the pivot values, hence is positive *)
Lemma pivot_rows_diag j : (j < r)%N ->
  Lcol ln n max_iter K r j (nth 0%N (pperm ln n max_iter K r) j)
  = Num.sqrt (pc_pivot_value RA j (st j)) /\
  0 < Lcol ln n max_iter K r j (nth 0%N (pperm ln n max_iter K r) j).
Proof.
move=> Hj.
have Hjn : (j < n)%N by lia. have Hjm : (j < max_iter)%N by lia.
have Hposj : pivots_pos ln n max_iter K orig j by move=> i Hi; apply: Hpos; lia.
have HIj : Inv ln n max_iter K j (st j) by apply: run_inv => //; lia.
have Hpj : 0 < pc_pivot_value RA j (st j) by apply: Hpos.
have Hp : nth 0%N (pperm ln n max_iter K r) j = pivot ln j (st j).
  by apply: (@pivot_stable R ln n max_iter K orig).
have [H1 _] := @run_stable R ln n max_iter K orig Hsym j.+1 r Hj Hrn Hrm Hpos.
have [_ _ _ HLr' _] := step_spec orig HIj Hjn Hjm.
have Heq : Lcol ln n max_iter K r j (pivot ln j (st j)) = Num.sqrt (pc_pivot_value RA j (st j)).
  rewrite /Lcol -/(Lr ln (st r) j _) /member_run H1 // run_S HLr' eqxx.
  by rewrite (mem_tail HIj Hjn Hjm) eqxx !andbF.
by rewrite Hp Heq sqrtr_gt0.
Qed.

(* what PivotedCholesky.backward relies on: with Lp = the factor with its rows in pivot order
   (Lp[i, l] = L[perm[i], l]) the top r x r block C = Lp[:r] is lower triangular with a positive
   diagonal and C C^T = Krows[:r], i.e. C is the Cholesky factor of K[piv, piv]; and the remaining
   rows satisfy Lp[r:] C^T = Krows[r:], i.e. Lp[r:] = solve_triangular(C, Krows[r:].mT).mT *)
Lemma backward_recomputes_forward i j : (i < n)%N -> (j < r)%N ->
  let perm := pperm ln n max_iter K r in
  let Lp := fun i l => Lcol ln n max_iter K r l (nth 0%N perm i) in
  [/\ \sum_(l < r) Lp i l * Lp j l = get RA (backward_Krows RA n r K perm) i j,
      forall l, (j < l < r)%N -> Lp j l = 0 & 0 < Lp j j].
Proof.
move=> Hi Hj perm Lp.
have Hperm := inv_perm HI; have [Hs _ _] := Hperm.
split.
- rewrite backward_Krows_get //.
  have Hx : (nth 0%N perm i < n)%N by apply: (nth_perm_lt HI).
  have [_] := rows_vanish Hsym Hrn Hrm Hpos Hj Hx.
  by rewrite /resid /gram => /eqP; rewrite subr_eq0 => /eqP->.
- by move=> l /andP[Hjl Hlr]; apply: pivot_rows_lower.
- by have [_] := pivot_rows_diag Hj.
Qed.

End Triangular.

(* ---------------------------------------------------------------- the error of a PSD member *)
Section ErrMono.
Variable R : rcfType.
Variable ln : R -> R.
Notation RA := (RA ln).
Local Open Scope ring_scope.
Variables (n max_iter : nat).

(* for a PSD member the early-stopping quantity never increases from one body to the next *)
Lemma resid_trace_antimono (K : mat R) m k d : (k + d = m)%N ->
  \sum_(x < n) resid ln n max_iter K m m x x <= \sum_(x < n) resid ln n max_iter K m k x x.
Proof.
elim: d k => [|d IH] k; first by rewrite addn0 => ->.
rewrite addnS -addSn => /IH H; apply: le_trans H _.
exact: (trace_monotone ln n max_iter K m k).
Qed.

Lemma error_antimono (K : mat R) m' m :
  symmetric_mat ln K -> psd_mat ln n K -> pivots_positive ln n max_iter K m ->
  (0 < m')%N -> (m' <= m)%N -> (m < n)%N -> (m <= max_iter)%N ->
  pcerr (member_run ln n max_iter K m) <= pcerr (member_run ln n max_iter K m').
Proof.
move=> Hsym Hpsd Hpos Hm0 Hle Hmn Hmm.
have Hpos' : pivots_positive ln n max_iter K m' by move=> j Hj; apply: Hpos; lia.
have Hm'n : (m' < n)%N by lia. have Hm'm : (m' <= max_iter)%N by lia.
have Hm0' : (0 < m)%N by lia.
rewrite (error_is_trace Hsym (ltnW Hmn) Hmm Hpos Hpsd Hm0' Hmn).
rewrite (error_is_trace Hsym (ltnW Hm'n) Hm'm Hpos' Hpsd Hm0 Hm'n).
have Horig : 0 <= (pc_init RA n max_iter K).1.
  have Hn0 : (0 < n)%N by lia.
  have [[x Hx ->] _] := orig_is_max_diag ln max_iter K Hn0.
  have := Hpsd (delta_mx 0 (Ordinal Hx)); rewrite qf_delta mxE /=; exact.
apply: ler_wpmul2r; first by rewrite invr_ge0.
have Heq : \sum_(x < n) resid ln n max_iter K m' m' x x = \sum_(x < n) resid ln n max_iter K m m' x x.
  apply: eq_bigr => x _; rewrite /resid.
  rewrite (gramE Hsym (ltnW Hm'n) Hm'm Hpos' x x (leqnn m')).
  by rewrite (gramE Hsym (ltnW Hmn) Hmm Hpos x x Hle).
by rewrite Heq; apply: (@resid_trace_antimono K m m' (m - m')); lia.
Qed.

End ErrMono.

(* ---------------------------------------------------------------- batches *)
Section Batch.
Variable R : rcfType.
Variable ln : R -> R.
Notation RA := (RA ln).
Local Open Scope ring_scope.
Variables (st : settings R) (n rank : nat) (etol : option R).
Notation max_iter := (minn rank n).
Notation tol := (the_tol st etol).

(* a member of a batch never runs FEWER bodies than it would alone *)
Lemma batch_rank_ge_member Ks r res K rK resK :
  pivoted_cholesky RA st n rank etol Ks = Some (r, res) -> K \in Ks ->
  pivoted_cholesky RA st n rank etol [:: K] = Some (rK, resK) ->
  (rK <= r)%N.
Proof.
move=> Hb HK Hs.
have HKs : Ks != [::] by case: (Ks) HK.
have [/andP[Hr1 Hrm] _ Hstop _] := pivoted_cholesky_spec HKs Hb.
have [/andP[HrK1 HrKm] _ _ Hcont] := pivoted_cholesky_spec (isT : [:: K] != [::]) Hs.
case: (leqP rK r) => // Hlt.
have Hrlt : (r < max_iter)%N by lia.
have := Hstop Hrlt K HK.
have [|K' ] := Hcont r; first by rewrite Hr1 Hlt.
by rewrite inE => /eqP-> Hgt; rewrite leNgt Hgt.
Qed.

(* the columns / pivots a member gets in the batch EXTEND what it gets alone *)
Lemma batch_extends_member (K : mat R) r rK :
  symmetric_mat ln K -> (rK <= r)%N -> (r <= n)%N -> (r <= max_iter)%N ->
  pivots_positive ln n max_iter K r ->
  (forall l x, (l < rK)%N -> Lcol ln n max_iter K r l x = Lcol ln n max_iter K rK l x) /\
  take rK (pperm ln n max_iter K r) = take rK (pperm ln n max_iter K rK).
Proof.
move=> Hsym Hle Hrn Hrm Hpos.
have [H1 H2] := @run_stable R ln n max_iter K (pc_init RA n max_iter K).1 Hsym rK r Hle Hrn Hrm Hpos.
by split; [move=> l x Hl; apply: H1 | apply: H2].
Qed.

(* batches whose members would stop at different iterations: when every member is PSD (and its
   pivots stay positive for the r bodies run), the batch runs exactly as many bodies as its
   slowest member would run alone *)
Lemma batch_rank_is_max Ks r res :
  Ks != [::] ->
  (forall K, K \in Ks ->
     [/\ symmetric_mat ln K, psd_mat ln n K & pivots_positive ln n max_iter K r]) ->
  pivoted_cholesky RA st n rank etol Ks = Some (r, res) ->
  exists K rK resK,
    [/\ K \in Ks, pivoted_cholesky RA st n rank etol [:: K] = Some (rK, resK) & rK = r].
Proof.
move=> HKs Hall Hb.
have Hmi : max_iter != 0%N.
  by apply/eqP => /(pivoted_cholesky_none ln st n rank etol Ks); rewrite Hb.
have Hsolo K : exists rK resK, pivoted_cholesky RA st n rank etol [:: K] = Some (rK, resK).
  case E: (pivoted_cholesky RA st n rank etol [:: K]) => [[rK resK]|]; first by exists rK, resK.
  by move/(pivoted_cholesky_none ln st n rank etol [:: K]): E => /eqP; rewrite (negbTE Hmi).
have [/andP[Hr1 Hrm] _ Hstop Hcont] := pivoted_cholesky_spec HKs Hb.
have Hrn : (r <= n)%N by move: Hrm; rewrite leq_min => /andP[].
case: (ltnP 1 r) => Hr2; last first.
  case: (Ks) HKs Hb => [//|K0 Ks'] _ Hb'.
  have [rK [resK HsK]] := Hsolo K0.
  exists K0, rK, resK; split => //; first by rewrite inE eqxx.
  have Hle := batch_rank_ge_member Hb' (mem_head K0 Ks') HsK.
  have [/andP[HrK1 _] _ _ _] := pivoted_cholesky_spec (isT : [:: K0] != [::]) HsK.
  by lia.
have [|K HK Hgt] := Hcont r.-1; first by lia.
have [rK [resK HsK]] := Hsolo K.
exists K, rK, resK; split => //.
have Hle := batch_rank_ge_member Hb HK HsK.
have [/andP[HrK1 HrKm] _ HstopK _] := pivoted_cholesky_spec (isT : [:: K] != [::]) HsK.
case: (ltnP rK r) => Hlt; last by lia.
have HrKlt : (rK < max_iter)%N by lia.
have HleK := HstopK HrKlt K (mem_head K [::]).
have [Hsym Hpsd Hpos] := Hall K HK.
have Hpos1 : pivots_positive ln n max_iter K r.-1 by move=> j Hj; apply: Hpos; lia.
have Hmono : pcerr (member_run ln n max_iter K r.-1) <= pcerr (member_run ln n max_iter K rK).
  by apply: error_antimono => //; lia.
by move: (le_lt_trans (le_trans Hmono HleK) Hgt); rewrite ltxx.
Qed.

End Batch.

(* ---------------------------------------------------------------- the preconditioner as a whole *)
Section PrecondWhole.
Variable R : rcfType.
Variable ln : R -> R.
Notation RA := (RA ln).
Local Open Scope ring_scope.

(* torch.equal(noise, noise[..., :1, :] * ones_like(noise)) on the whole batch *)
Lemma constant_diagP (Ds : seq (seq R)) :
  reflect (forall d, d \in Ds -> forall x, x \in d -> x = vget RA d 0) (constant_diag RA Ds).
Proof.
apply: (iffP allP) => H d Hd.
- by move=> x Hx; move/allP: (H d Hd) => /(_ x Hx) /=; rewrite mulr1 => /eqP.
- by apply/allP => x Hx /=; rewrite mulr1; apply/eqP; apply: H.
Qed.

(* a constant diagonal is the scalar matrix the constant branch works with *)
Lemma const_diag_scalar n (d : seq R) :
  size d = n -> (forall x, x \in d -> x = vget RA d 0) ->
  diag_mx (rv_of ln n d) = (vget RA d 0)%:M.
Proof.
move=> Hs Hc; apply/matrixP => i j; rewrite !mxE; case: eqP => // _.
by rewrite mulr1n; apply: Hc; rewrite /vget /=; apply: mem_nth; rewrite Hs.
Qed.

(* what a returned preconditioner is made of: the pivoted Cholesky factors of the members with
   rank = max_preconditioner_size and the tolerance of the settings, the branch chosen by the
   whole-batch constant-diagonal test, one cache per member *)
Lemma model_precond_some (qr : nat -> nat -> mat R -> mat R * mat R) st n Ks Ds o :
  preconditioner RA qr st n Ks Ds = Some o ->
  exists r res,
    [/\ pivoted_cholesky RA st n (st_max_precond_size st) None Ks = Some (r, res),
        o_rank o = r, o_L o = map fst res, o_const o = constant_diag RA Ds &
        o_cache o = map (fun Ld => if constant_diag RA Ds then init_cache_const RA qr n r Ld.1 Ld.2
                                   else init_cache_nonconst RA qr n r Ld.1 Ld.2)
                        (zip (map fst res) Ds)].
Proof.
rewrite /preconditioner; case: ifP => [//|_].
case E: (pivoted_cholesky _ _ _ _ _ _) => [[k res]|] //.
have -> : has (mat_has_nan RA) [seq i.1 | i <- res] = false.
  by elim: res {E} => //= x res ->; rewrite mat_has_nan_false.
by case=> <-; exists k, res.
Qed.

(* _solve_preconditioner hands out the closure of _preconditioner whenever there is one; without
   one it returns None unless the beta feature is on *)
Lemma solve_preconditioner_routing (T : Type) (base : option T) beta (dflt : T) :
  (forall p, base = Some p -> solve_preconditioner base beta dflt = Some p) /\
  (base = None -> solve_preconditioner base beta dflt = if beta then Some dflt else None).
Proof. by split => [p ->|->]. Qed.

(* end to end: the closure returned for member b of K + D solves (L_b L_b^T + D_b) X = T where L_b
   is that member's pivoted Cholesky factor (constant and non-constant branch alike) *)
Lemma model_precond_end_to_end (qr : nat -> nat -> mat R -> mat R * mat R) st n Ks Ds o b c (T : mat R) :
  preconditioner RA qr st n Ks Ds = Some o -> size Ds = size Ks -> (b < size Ks)%N ->
  let L := nth [::] (o_L o) b in
  let d := nth [::] Ds b in
  let ch := nth (MkCache [::] [::] 0) (o_cache o) b in
  let k := o_rank o in
  size d = n -> (forall i, (i < n)%N -> 0 < vget RA d i) -> (0 < n)%N ->
  qr_spec ln qr (n + k) k (if o_const o then qr_input_const RA k L d else qr_input_nonconst RA n k L d) ->
  (mx_of ln n k L *m (mx_of ln n k L)^T + diag_mx (rv_of ln n d))
  *m mx_of ln n c (precond_closure RA (o_const o) n k c ch T) = mx_of ln n c T.
Proof.
move=> Hpre HsD Hb /= Hsd Hdpos Hn0.
have [r [res [Hpc Hrank HL Hconst Hcache]]] := model_precond_some Hpre.
have HKs : Ks != [::] by case: (Ks) Hb.
have [_ Hres _ _] := pivoted_cholesky_spec HKs Hpc.
have Hsres : size res = size Ks by rewrite Hres size_map.
have Hsz : size (nth [::] (o_L o) b) = n.
  by rewrite HL Hres -map_comp (nth_map [::]) //= /result_L /mtab size_mkseq.
have Hch : nth (MkCache [::] [::] 0) (o_cache o) b
         = if constant_diag RA Ds then init_cache_const RA qr n r (nth [::] (o_L o) b) (nth [::] Ds b)
           else init_cache_nonconst RA qr n r (nth [::] (o_L o) b) (nth [::] Ds b).
  rewrite Hcache (nth_map ([::], [::])) ?size_zip ?size_map ?Hsres ?HsD ?minnn //.
  by rewrite nth_zip ?size_map ?Hsres ?HsD //= HL.
rewrite Hrank Hconst Hch; case: ifP => Hc Hqr.
- have Hcd : forall x, x \in nth [::] Ds b -> x = vget RA (nth [::] Ds b) 0.
    by apply: (constant_diagP Ds Hc); apply: mem_nth; rewrite HsD.
  rewrite (const_diag_scalar Hsd Hcd).
  by apply: model_precond_const_inverse => //; apply: Hdpos.
- exact: model_precond_nonconst_inverse.
Qed.

End PrecondWhole.
