(* C10 — the algebra behind the QR / Woodbury preconditioner of AddedDiagLinearOperator, on MathComp
   matrices over any real closed field.  torch.linalg.qr enters only through its specification
   (Q^T Q = I, Q R = M, R upper triangular). *)
From mathcomp Require Import all_ssreflect all_algebra.
From mathcomp Require Import ring zify.
Set Implicit Arguments.
Unset Strict Implicit.
Unset Printing Implicit Defensive.
Import Order.Theory GRing.Theory Num.Theory.
Local Open Scope ring_scope.

Section Woodbury.
Variable F : fieldType.
Variables n k : nat.
Variables (L : 'M[F]_(n,k)) (Q1 : 'M[F]_(n,k)) (R : 'M[F]_k) (s : F).
Hypothesis HR : R \in unitmx.
Hypothesis HQ : Q1 *m R = L.
Hypothesis HRR : R^T *m R = L^T *m L + s%:M.
Hypothesis Hs : s != 0.

Lemma woodbury_qr : (L *m L^T + s%:M) *m (s^-1 *: (1%:M - Q1 *m Q1^T)) = 1%:M.
Proof.
have HMQR : (L *m L^T + s%:M) *m Q1 *m R = L *m R^T *m R.
  rewrite -mulmxA HQ mulmxDl -!mulmxA HRR mulmxDr.
  by rewrite mul_scalar_mx mul_mx_scalar.
have HMQ : (L *m L^T + s%:M) *m Q1 = L *m R^T.
  by rewrite -[LHS]mulmx1 -(mulmxV HR) mulmxA HMQR -mulmxA mulmxV // mulmx1.
rewrite -scalemxAr mulmxBr mulmx1 mulmxA HMQ.
have -> : L *m R^T *m Q1^T = L *m L^T by rewrite -mulmxA -trmx_mul HQ.
by rewrite addrC addKr -mul_scalar_mx -scalar_mxM mulVf.
Qed.
End Woodbury.

Section QR.
Variable R : rcfType.
Variables n k : nat.

(* quadratic forms as scalars *)
Definition qf (m : nat) (x : 'rV[R]_m) (M : 'M[R]_m) : R := (x *m M *m x^T) 0 0.

Lemma rv_sq (m : nat) (x : 'rV[R]_m) : (x *m x^T) 0 0 = \sum_i x 0 i ^+ 2.
Proof. by rewrite mxE; apply: eq_bigr => i _; rewrite mxE expr2. Qed.

Lemma rv_sq_ge0 (m : nat) (x : 'rV[R]_m) : 0 <= (x *m x^T) 0 0.
Proof. by rewrite rv_sq; apply: sumr_ge0 => i _; apply: sqr_ge0. Qed.

Lemma rv_sq_eq0 (m : nat) (x : 'rV[R]_m) : (x *m x^T) 0 0 = 0 -> x = 0.
Proof.
rewrite rv_sq => /eqP; rewrite psumr_eq0; last by move=> i _; apply: sqr_ge0.
move/allP => H; apply/rowP => i; rewrite mxE.
by have := H i (mem_index_enum _); rewrite /= sqrf_eq0 => /eqP.
Qed.

(* x (L L^T + D) x^T = |x L|^2 + x D x^T *)
Lemma qf_gram (m p : nat) (L : 'M[R]_(m,p)) (D : 'M[R]_m) (x : 'rV[R]_m) :
  qf x (L *m L^T + D) = ((x *m L) *m (x *m L)^T) 0 0 + qf x D.
Proof. by rewrite /qf mulmxDr mulmxDl mxE trmx_mul !mulmxA. Qed.

Lemma qf_scalar (m : nat) (s : R) (x : 'rV[R]_m) : qf x s%:M = s * (x *m x^T) 0 0.
Proof. by rewrite /qf mul_mx_scalar -scalemxAl mxE. Qed.

(* L^T L + s I (and L L^T + s I) is invertible for s > 0 *)
Lemma pd_unit (m : nat) (M : 'M[R]_m) :
  (forall x : 'rV_m, x != 0 -> 0 < qf x M) -> M \in unitmx.
Proof.
move=> Hpd; rewrite -row_free_unit -kermx_eq0; apply/eqP/matrixP => i j.
rewrite [RHS]mxE.
pose v := row i (kermx M).
have Hv : v *m M = 0.
  by apply/sub_kermxP; apply: row_sub.
case: (v =P 0) => [Hv0|/eqP Hvn]; first by move: Hv0 => /rowP /(_ j); rewrite !mxE.
by have := Hpd v Hvn; rewrite /qf Hv mul0mx mxE ltxx.
Qed.

Lemma gram_shift_pd (m p : nat) (L : 'M[R]_(m,p)) (s : R) (x : 'rV[R]_m) :
  0 < s -> x != 0 -> 0 < qf x (L *m L^T + s%:M).
Proof.
move=> Hs Hx; rewrite qf_gram qf_scalar.
apply: ltr_paddl; first exact: rv_sq_ge0.
apply: mulr_gt0 => //; rewrite lt_def rv_sq_ge0 andbT.
by apply: contra Hx => /eqP /rv_sq_eq0 ->.
Qed.

Lemma gram_shift_unit (m p : nat) (L : 'M[R]_(m,p)) (s : R) :
  0 < s -> (L *m L^T + s%:M) \in unitmx.
Proof. by move=> Hs; apply: pd_unit => x Hx; apply: gram_shift_pd. Qed.

(* the Gram matrix of the R factor *)
Lemma qr_gram (Q : 'M[R]_(n + k, k)) (Rm : 'M[R]_k) (L : 'M[R]_(n,k)) (B : 'M[R]_k) :
  Q^T *m Q = 1%:M -> Q *m Rm = col_mx L B -> Rm^T *m Rm = L^T *m L + B^T *m B.
Proof.
move=> HQ HQR.
have -> : Rm^T *m Rm = (Q *m Rm)^T *m (Q *m Rm).
  by rewrite trmx_mul mulmxA -[Rm^T *m Q^T *m Q]mulmxA HQ mulmx1.
by rewrite HQR tr_col_mx mul_row_col.
Qed.

Lemma unit_of_gram (Rm M : 'M[R]_k) : Rm^T *m Rm = M -> M \in unitmx -> Rm \in unitmx.
Proof.
move=> <-; rewrite unitmxE det_mulmx det_tr unitrM => /andP[].
by rewrite -unitmxE.
Qed.

(* ------------------------------------------------------------------ constant diagonal s I *)
Section Const.
Variables (Q : 'M[R]_(n + k, k)) (Rm : 'M[R]_k) (L : 'M[R]_(n,k)) (s : R).
Hypothesis Hs : 0 < s.
Hypothesis HQ : Q^T *m Q = 1%:M.
Hypothesis HQR : Q *m Rm = col_mx L (Num.sqrt s *: 1%:M).

Let Q1 := usubmx Q.

Lemma const_RR : Rm^T *m Rm = L^T *m L + s%:M.
Proof.
rewrite (qr_gram HQ HQR); congr (_ + _).
by rewrite scalemx1 tr_scalar_mx -scalar_mxM -expr2 sqr_sqrtr // ltW.
Qed.

Lemma const_R_unit : Rm \in unitmx.
Proof.
apply: (unit_of_gram const_RR).
have -> : L^T *m L + s%:M = L^T *m (L^T)^T + s%:M by rewrite trmxK.
exact: gram_shift_unit.
Qed.

Lemma const_Q1R : Q1 *m Rm = L.
Proof.
have := HQR; rewrite -{1}(vsubmxK Q) mul_col_mx => /eq_col_mx [].
by rewrite -/Q1.
Qed.

(* the matrix the closure applies: sigma^-1 (I - Q1 Q1^T) *)
Definition Pinv_const : 'M[R]_n := s^-1 *: (1%:M - Q1 *m Q1^T).

Theorem precond_const_inverse : (L *m L^T + s%:M) *m Pinv_const = 1%:M.
Proof.
apply: (woodbury_qr const_R_unit const_Q1R const_RR).
by rewrite gt_eqF.
Qed.

Theorem precond_const_inverse_l : Pinv_const *m (L *m L^T + s%:M) = 1%:M.
Proof. by apply/mulmx1C; apply: precond_const_inverse. Qed.

Lemma Pinv_const_sym : Pinv_const^T = Pinv_const.
Proof. by rewrite /Pinv_const linearZ /= linearB /= trmx1 trmx_mul trmxK. Qed.

Theorem precond_const_spd :
  Pinv_const^T = Pinv_const /\ forall x : 'rV_n, x != 0 -> 0 < qf x Pinv_const.
Proof.
split; first exact: Pinv_const_sym.
move=> x Hx; pose y := x *m Pinv_const.
have Hy : y != 0.
  apply: contra Hx => /eqP Hy0.
  by rewrite -[x]mulmx1 -precond_const_inverse_l mulmxA -/y Hy0 mul0mx.
have -> : qf x Pinv_const = qf y (L *m L^T + s%:M).
  rewrite /qf /y trmx_mul Pinv_const_sym.
  by rewrite -[x *m Pinv_const *m (L *m L^T + s%:M)]mulmxA precond_const_inverse_l mulmx1 mulmxA.
exact: gram_shift_pd.
Qed.

(* log-determinant, product form: det(L L^T + s I) = s^(n-k) (prod_i R_ii)^2 *)
Hypothesis Htrig : forall i j : 'I_k, (j < i)%N -> Rm i j = 0.

Lemma det_upper_trig : \det Rm = \prod_i Rm i i.
Proof.
rewrite -det_tr det_trig; first by apply: eq_bigr => i _; rewrite mxE.
by apply/is_trig_mxP => i j Hij; rewrite mxE; apply: Htrig.
Qed.

End Const.

(* Sylvester / matrix determinant lemma *)
Lemma sylvester_det (L : 'M[R]_(n,k)) (s : R) : s != 0 ->
  s ^+ k * \det (L *m L^T + s%:M) = s ^+ n * \det (L^T *m L + s%:M).
Proof.
move=> Hs.
pose B : 'M[R]_(n + k) := block_mx s%:M (- L) L^T 1%:M.
have H1 : B *m block_mx 1%:M 0 (- L^T) 1%:M = block_mx (L *m L^T + s%:M) (- L) 0 1%:M.
  rewrite /B mulmx_block !mulmx1 !mulmx0 !mul1mx mulNmx mulmxN opprK.
  by rewrite subrr !add0r [s%:M + _]addrC.
have H2 : block_mx 1%:M 0 (- (s^-1 *: L^T)) 1%:M *m B
          = block_mx s%:M (- L) 0 (s^-1 *: (L^T *m L + s%:M)).
  rewrite /B mulmx_block !mul1mx !mul0mx !addr0 !mulNmx mulmxN opprK.
  rewrite -!scalemxAl mul_mx_scalar scalerA mulVf // scale1r addNr.
  by rewrite scalerDr -[s^-1 *: s%:M]mul_scalar_mx -scalar_mxM mulVf.
have D1 : \det B = \det (L *m L^T + s%:M).
  have := congr1 determinant H1.
  by rewrite det_mulmx det_lblock det_ublock !det1 !mulr1.
have D2 : \det B = s ^+ n * (s^-1 ^+ k * \det (L^T *m L + s%:M)).
  have := congr1 determinant H2.
  by rewrite det_mulmx det_lblock det_ublock !det1 !mul1r det_scalar detZ.
rewrite -D1 D2 mulrCA; congr (_ * _).
by rewrite mulrA -exprMn mulfV // expr1n mul1r.
Qed.

Theorem precond_logdet_const_prod (Q : 'M[R]_(n + k, k)) (Rm : 'M[R]_k) (L : 'M[R]_(n,k)) (s : R) :
  0 < s -> Q^T *m Q = 1%:M -> Q *m Rm = col_mx L (Num.sqrt s *: 1%:M) ->
  (forall i j : 'I_k, (j < i)%N -> Rm i j = 0) -> (k <= n)%N ->
  \det (L *m L^T + s%:M) = s ^+ (n - k) * (\prod_i Rm i i) ^+ 2.
Proof.
move=> Hs HQ HQR Htrig Hkn.
have Hs0 : s != 0 by rewrite gt_eqF.
have Hk : s ^+ k != 0 by rewrite expf_neq0.
apply: (mulfI Hk); rewrite sylvester_det // -(const_RR Hs HQ HQR).
by rewrite det_mulmx det_tr (det_upper_trig Htrig) -expr2 [RHS]mulrA -exprD subnKC.
Qed.

(* ------------------------------------------------------------------ non-constant diagonal *)
Definition sqrt_row (w : 'rV[R]_n) : 'rV[R]_n := \row_i Num.sqrt (w 0 i).
Definition Wih (w : 'rV[R]_n) : 'M[R]_n := diag_mx (\row_i (sqrt_row w 0 i)^-1).   (* D^{-1/2} *)

Lemma WihE m (w : 'rV[R]_n) (A : 'M[R]_(n,m)) i j : (Wih w *m A) i j = (Num.sqrt (w 0 i))^-1 * A i j.
Proof. by rewrite /Wih mul_diag_mx !mxE. Qed.

Section NonConst.
Variables (Q : 'M[R]_(n + k, k)) (Rm : 'M[R]_k) (L : 'M[R]_(n,k)) (w : 'rV[R]_n).
Hypothesis Hw : forall i, 0 < w 0 i.

Let sq : 'rV[R]_n := sqrt_row w.
Let W : 'M[R]_n := diag_mx sq.
Let Wi : 'M[R]_n := Wih w.

Hypothesis HQ : Q^T *m Q = 1%:M.
Hypothesis HQR : Q *m Rm = col_mx (Wi *m L) 1%:M.

Lemma sq_neq0 i : sq 0 i != 0.
Proof. by rewrite mxE gt_eqF // sqrtr_gt0. Qed.

Lemma WWi : W *m Wi = 1%:M.
Proof.
rewrite /W /Wi mul_diag_mx; apply/matrixP => i j; rewrite !mxE.
by case: (i == j); rewrite ?mulr0n ?mulr0 ?mulr1n ?mulfV // gt_eqF // sqrtr_gt0.
Qed.

Lemma WiW : Wi *m W = 1%:M.
Proof. by apply/mulmx1C; apply: WWi. Qed.

Lemma WW : W *m W = diag_mx w.
Proof.
rewrite /W mul_diag_mx; apply/matrixP => i j; rewrite !mxE.
case: (i == j); rewrite ?mulr0n ?mulr0 // !mulr1n.
by rewrite -expr2 sqr_sqrtr // ltW.
Qed.

Lemma WiWi : Wi *m Wi = diag_mx (\row_i (w 0 i)^-1).
Proof.
rewrite /Wi mul_diag_mx; apply/matrixP => i j; rewrite !mxE.
case: (i == j); rewrite ?mulr0n ?mulr0 // !mulr1n.
by rewrite -invfM -expr2 sqr_sqrtr // ltW.
Qed.

Lemma W_sym : W^T = W. Proof. by rewrite /W tr_diag_mx. Qed.
Lemma Wi_sym : Wi^T = Wi. Proof. by rewrite /Wi tr_diag_mx. Qed.

Let Lw := Wi *m L.                     (* L / noise.sqrt() *)
Let Q1 := usubmx Q.
Let q := Wi *m Q1.                     (* _q_cache = Q[:n] / noise.sqrt() *)

Lemma HQR1 : Q *m Rm = col_mx Lw (Num.sqrt 1 *: 1%:M).
Proof. by rewrite sqrtr1 scale1r HQR. Qed.

(* the matrix the closure applies: D^-1 - q q^T *)
Definition Pinv_nonconst : 'M[R]_n := diag_mx (\row_i (w 0 i)^-1) - q *m q^T.

Lemma Pinv_nonconstE : Pinv_nonconst = Wi *m Pinv_const Q 1 *m Wi.
Proof.
rewrite /Pinv_nonconst /Pinv_const invr1 scale1r mulmxBr mulmxBl mulmx1 WiWi.
by rewrite /q trmx_mul Wi_sym !mulmxA.
Qed.

Lemma shiftedE : L *m L^T + diag_mx w = W *m (Lw *m Lw^T + 1%:M) *m W.
Proof.
rewrite mulmxDr mulmxDl mulmx1 WW /Lw trmx_mul Wi_sym !mulmxA.
by rewrite WWi mul1mx -!mulmxA WiW mulmx1.
Qed.

Theorem precond_nonconst_inverse : (L *m L^T + diag_mx w) *m Pinv_nonconst = 1%:M.
Proof.
rewrite shiftedE Pinv_nonconstE !mulmxA -[_ *m W *m Wi]mulmxA WWi mulmx1.
rewrite -[_ *m _ *m Pinv_const Q 1]mulmxA (precond_const_inverse ltr01 HQ HQR1) mulmx1.
exact: WWi.
Qed.

Theorem precond_nonconst_inverse_l : Pinv_nonconst *m (L *m L^T + diag_mx w) = 1%:M.
Proof. by apply/mulmx1C; apply: precond_nonconst_inverse. Qed.

Theorem precond_nonconst_spd :
  Pinv_nonconst^T = Pinv_nonconst /\ forall x : 'rV_n, x != 0 -> 0 < qf x Pinv_nonconst.
Proof.
have [Hsym Hpd] := precond_const_spd ltr01 HQ HQR1.
split.
  by rewrite Pinv_nonconstE !trmx_mul Wi_sym Hsym mulmxA.
move=> x Hx; rewrite Pinv_nonconstE.
have -> : qf x (Wi *m Pinv_const Q 1 *m Wi) = qf (x *m Wi) (Pinv_const Q 1).
  by rewrite /qf trmx_mul Wi_sym !mulmxA.
apply: Hpd; apply: contra Hx => /eqP H0.
by rewrite -[x]mulmx1 -WiW mulmxA H0 mul0mx.
Qed.

Theorem precond_logdet_nonconst_prod :
  (forall i j : 'I_k, (j < i)%N -> Rm i j = 0) -> (k <= n)%N ->
  \det (L *m L^T + diag_mx w) = (\prod_i w 0 i) * (\prod_i Rm i i) ^+ 2.
Proof.
move=> Htrig Hkn.
rewrite shiftedE !det_mulmx (precond_logdet_const_prod ltr01 HQ HQR1 Htrig Hkn) expr1n mul1r.
by rewrite mulrC mulrA -det_mulmx WW det_diag.
Qed.

End NonConst.

End QR.
