(* C10 — linear_operator/utils/permutation.py: inverse_permutation and apply_permutation (one batch
   member; partial permutations allowed), and the index steps of PivotedCholesky.backward. *)
From mathcomp Require Import all_ssreflect all_algebra.
From mathcomp Require Import zify.
Require Import C10.Model C10.ProofsBase.
Set Implicit Arguments.
Unset Strict Implicit.
Unset Printing Implicit Defensive.
Import Order.Theory GRing.Theory Num.Theory.

Lemma perm_eq_is_perm n (s : seq nat) : perm_eq s (iota 0 n) -> is_perm n s.
Proof.
move=> Hp; split.
- by rewrite (perm_size Hp) size_iota.
- by rewrite (perm_uniq Hp) iota_uniq.
- by apply/allP => x; rewrite (perm_mem Hp) mem_iota add0n.
Qed.

(* ---------------------------------------------------------------- inverse_permutation *)
Section InvPerm.

Definition scat (acc : seq nat) (ivs : seq (nat * nat)) : seq nat :=
  foldl (fun acc iv => set_nth 0 acc iv.1 iv.2) acc ivs.

Lemma size_scat acc ivs :
  all (fun iv => iv.1 < size acc) ivs -> size (scat acc ivs) = size acc.
Proof.
elim: ivs acc => [|iv ivs IH] acc //= /andP[Hi Hall].
rewrite IH size_set_nth; first by apply/maxn_idPr.
by apply/allP => x Hx; rewrite (maxn_idPr Hi); apply: (allP Hall).
Qed.

Lemma scat_notin acc ivs x : x \notin unzip1 ivs -> nth 0 (scat acc ivs) x = nth 0 acc x.
Proof.
elim: ivs acc => [|iv ivs IH] acc //=; rewrite in_cons negb_or => /andP[Hx Hn].
by rewrite IH // nth_set_nth /= (negbTE Hx).
Qed.

Lemma scat_nth perm vals acc i :
  uniq perm -> size vals = size perm -> i < size perm ->
  nth 0 (scat acc (zip perm vals)) (nth 0 perm i) = nth 0 vals i.
Proof.
elim: perm vals acc i => [|p perm IH] [|v vals] acc i //= /andP[Hp Hu] [Hs].
case: i => [|i] /=.
  by move=> _; rewrite scat_notin ?unzip1_zip ?Hs // nth_set_nth /= eqxx.
by rewrite ltnS => Hi; apply: IH.
Qed.

Variable n : nat.
Variable perm : seq nat.
Hypothesis Hperm : is_perm n perm.

Lemma size_inverse_permutation : size (inverse_permutation perm) = n.
Proof.
have [Hs Hu Hall] := Hperm.
rewrite /inverse_permutation -/(scat _ _) size_scat ?size_nseq //.
apply/allP => -[i v] /= Hin; rewrite Hs.
have : i \in unzip1 (zip perm (iota 0 (size perm))) by apply/mapP; exists (i, v).
by rewrite unzip1_zip ?size_iota // => Hi; apply: (allP Hall).
Qed.

(* inv[perm[i]] = i *)
Lemma inverse_permutation_left i : i < n ->
  nth 0 (inverse_permutation perm) (nth 0 perm i) = i.
Proof.
have [Hs Hu Hall] := Hperm => Hi.
rewrite /inverse_permutation -/(scat _ _) scat_nth ?size_iota ?Hs //.
by rewrite nth_iota ?add0n.
Qed.

(* perm[inv[j]] = j, and inv[j] < n *)
Lemma inverse_permutation_right j : j < n ->
  nth 0 (inverse_permutation perm) j < n /\ nth 0 perm (nth 0 (inverse_permutation perm) j) = j.
Proof.
have [Hs Hu Hall] := Hperm => Hj.
have : j \in perm by rewrite (is_perm_mem _ Hperm).
move/(nthP 0) => [i]; rewrite Hs => Hi <-.
by rewrite inverse_permutation_left.
Qed.

(* the inverse is itself a permutation of 0..n-1 *)
Lemma inverse_permutation_is_perm : is_perm n (inverse_permutation perm).
Proof.
have Hsz := size_inverse_permutation; split => //.
- apply/(uniqP 0) => x y; rewrite !inE Hsz => Hx Hy Heq.
  have [_ <-] := inverse_permutation_right Hx.
  by have [_ <-] := inverse_permutation_right Hy; rewrite Heq.
- apply/(all_nthP 0) => j; rewrite Hsz => Hj.
  by have [] := inverse_permutation_right Hj.
Qed.

End InvPerm.

(* ---------------------------------------------------------------- apply_permutation *)
Section ApplyPerm.
Variable R : rcfType.
Variable ln : R -> R.
Notation RA := (RA ln).
Local Open Scope ring_scope.

Definition perm_or_id (o : option (seq nat)) (k : nat) : seq nat := if o is Some l then l else iota 0 k.

(* shape: (len(left) x len(right)) *)
Lemma apply_permutation_shape nr nc (M : mat R) left right :
  size (apply_permutation RA nr nc M left right) = size (perm_or_id left nr) /\
  forall i, (i < size (perm_or_id left nr))%N ->
    size (nth [::] (apply_permutation RA nr nc M left right) i) = size (perm_or_id right nc).
Proof.
rewrite /apply_permutation; case: left => [l|]; case: right => [r|] /=; split;
  rewrite ?size_map ?size_mkseq ?size_iota // => i Hi;
  by rewrite ?(nth_map 0%N) ?size_map ?size_iota ?nth_mkseq ?size_mkseq.
Qed.

(* result[i, j] = M[left[i], right[j]] — also for partial permutations *)
Lemma apply_permutation_get nr nc (M : mat R) left right i j :
  (i < size (perm_or_id left nr))%N -> (j < size (perm_or_id right nc))%N ->
  get RA (apply_permutation RA nr nc M left right) i j
  = get RA M (nth 0%N (perm_or_id left nr) i) (nth 0%N (perm_or_id right nc) j).
Proof.
have Hgen (l r : seq nat) : (i < size l)%N -> (j < size r)%N ->
    get RA (map (fun i => map (fun j => get RA M i j) r) l) i j = get RA M (nth 0%N l i) (nth 0%N r j).
  by move=> Hi Hj; rewrite {1}/get (nth_map 0%N) // (nth_map 0%N).
rewrite /apply_permutation; case: left => [l|]; case: right => [r|] /=; exact: Hgen.
Qed.

(* the row the loop body fetches: row[i] = K[pi_m, i] *)
Lemma pc_row_get n (K : mat R) p i : (i < n)%N -> vget RA (pc_row RA n K p) i = get RA K p i.
Proof.
move=> Hi; rewrite /pc_row /vget.
have := @apply_permutation_get n n K (Some [:: p]) None 0%N i.
by rewrite /= size_iota nth_iota // add0n; apply.
Qed.

(* backward: Krows[i, j] = K[perm[i], perm[j]] *)
Lemma backward_Krows_get n m (K : mat R) perm i j :
  size perm = n -> (m <= n)%N -> (i < n)%N -> (j < m)%N ->
  get RA (backward_Krows RA n m K perm) i j = get RA K (nth 0%N perm i) (nth 0%N perm j).
Proof.
move=> Hs Hm Hi Hj; rewrite /backward_Krows apply_permutation_get /= ?Hs ?size_take ?Hs //.
- by rewrite nth_take.
- by case: (ltnP m n) => // _; apply: leq_trans Hj Hm.
Qed.

(* backward: applying the inverse permutation on the left restores the original row order *)
Lemma backward_unpermute_get n m (Lp : mat R) perm (f : nat -> nat -> R) :
  is_perm n perm ->
  (forall i j, (i < n)%N -> (j < m)%N -> get RA Lp i j = f (nth 0%N perm i) j) ->
  forall x j, (x < n)%N -> (j < m)%N -> get RA (backward_unpermute RA n m Lp perm) x j = f x j.
Proof.
move=> Hperm HLp x j Hx Hj.
have Hsz := size_inverse_permutation Hperm.
have [Hlt Heq] := inverse_permutation_right Hperm Hx.
rewrite /backward_unpermute apply_permutation_get /= ?Hsz ?size_iota //.
by rewrite nth_iota // add0n HLp // Heq.
Qed.

End ApplyPerm.

