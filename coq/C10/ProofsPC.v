(* C10 — the loop invariant of PivotedCholesky.forward over exact arithmetic (any real closed field),
   for ONE batch member; ProofsLoop.v lifts it to the batched loop with its shared guard. *)
From mathcomp Require Import all_ssreflect all_algebra.
From mathcomp Require Import ring zify.
Require Import C10.Model C10.ProofsBase C10.ProofsPerm.
Set Implicit Arguments.
Unset Strict Implicit.
Unset Printing Implicit Defensive.
Import Order.Theory GRing.Theory Num.Theory.
Local Open Scope ring_scope.

Section PC.
Variable R : rcfType.
Variable ln : R -> R.
Notation RA := (RA ln).
Variables (n max_iter : nat) (K : mat R) (orig : R).
Notation a := (get RA K).
Hypothesis Hsym : forall i j, a i j = a j i.

(* row j of the factor under construction, and the Gram sums (L^T L)[x,y] over its first k rows *)
Definition Lr (s : pc_state R) (j i : nat) : R := get RA (pcL s) j i.
Definition G (s : pc_state R) (k x y : nat) : R := \sum_(l < k) Lr s l x * Lr s l y.

Lemma G_sym s k x y : G s k x y = G s k y x.
Proof. by apply: eq_bigr => l _; rewrite mulrC. Qed.

Lemma G_recr s k x y : G s k.+1 x y = G s k x y + Lr s k x * Lr s k y.
Proof. by rewrite /G big_ord_recr. Qed.

Record Inv (k : nat) (s : pc_state R) : Prop := MkInv {
  inv_perm : is_perm n (pcperm s);
  inv_Lsize : size (pcL s) = max_iter;
  inv_rows : forall j, (j < max_iter)%N -> size (nth [::] (pcL s) j) = n;
  inv_zero_rows : forall j i, (k <= j)%N -> Lr s j i = 0;
  inv_zero_piv : forall j x, (j < k)%N -> x \in take j (pcperm s) -> Lr s j x = 0;
  inv_dsize : size (pcd s) = n;
  inv_diag : forall x, (x < n)%N -> x \notin take k (pcperm s) ->
             vget RA (pcd s) x = a x x - G s k x x;
  inv_vanish : forall j x, (j < k)%N -> (x < n)%N -> x \notin take j (pcperm s) ->
             G s k (nth 0%N (pcperm s) j) x = a (nth 0%N (pcperm s) j) x
}.

(* the quantities a loop body computes *)
Definition piv_pos (k : nat) (s : pc_state R) : nat := ((pc_argmax RA k s).2 + k)%N.
Definition new_perm (k : nat) (s : pc_state R) : seq nat := swap_perm (pcperm s) k (piv_pos k s).
Definition pivot (k : nat) (s : pc_state R) : nat := nth 0%N (new_perm k s) k.
Definition newf (k : nat) (s : pc_state R) (i : nat) : R :=
  (a (pivot k s) i - \sum_(j < k) Lr s j (pivot k s) * Lr s j i) / Num.sqrt (pc_pivot_value RA k s).

Section Step.
Variables (k : nat) (s : pc_state R).
Hypothesis HI : Inv k s.
Hypothesis Hkn : (k < n)%N.
Hypothesis Hkm : (k < max_iter)%N.

Let perm := pcperm s.
Let Hperm : is_perm n perm := inv_perm HI.
Let Hsz : size perm = n. Proof. by case: Hperm. Qed.
Let Hun : uniq perm. Proof. by case: Hperm. Qed.
Let Hall : all (fun i => (i < n)%N) perm. Proof. by case: Hperm. Qed.

Let vs := map (vget RA (pcd s)) (drop k perm).
Lemma vs_size : size vs = (n - k)%N.
Proof. by rewrite size_map size_drop Hsz. Qed.
Lemma vs_ne : vs != [::].
Proof. by rewrite -size_eq0 vs_size; lia. Qed.

Lemma argmax_fm : first_max vs (pc_argmax RA k s).
Proof. exact: argmax_ok vs_ne. Qed.

Lemma piv_pos_lt : (piv_pos k s < n)%N.
Proof. by case: argmax_fm => H _ _ _; rewrite vs_size in H; rewrite /piv_pos; lia. Qed.
Lemma piv_pos_ge : (k <= piv_pos k s)%N.
Proof. by rewrite /piv_pos; lia. Qed.

Lemma new_perm_is_perm : is_perm n (new_perm k s).
Proof.
have Hk : (k < size perm)%N by rewrite Hsz.
have Hp : (piv_pos k s < size perm)%N by rewrite Hsz piv_pos_lt.
split; first by rewrite /new_perm size_swap.
- exact: uniq_swap.
- exact: all_swap.
Qed.

Lemma pivotE : pivot k s = nth 0%N perm (piv_pos k s).
Proof.
rewrite /pivot /new_perm nth_swap /sw; case: (k =P piv_pos k s) => [<-//|_].
by rewrite eqxx.
Qed.

Lemma pivot_lt : (pivot k s < n)%N.
Proof. by rewrite pivotE; apply: (all_nthP 0%N Hall); rewrite Hsz piv_pos_lt. Qed.

Lemma take_new_perm j : (j <= k)%N -> take j (new_perm k s) = take j perm.
Proof.
by move=> Hj; apply: take_swap; rewrite ?Hsz ?piv_pos_lt ?piv_pos_ge.
Qed.

Lemma take_new_perm_S : take k.+1 (new_perm k s) = rcons (take k perm) (pivot k s).
Proof.
have [Hs _ _] := new_perm_is_perm.
by rewrite (take_nth 0%N) ?Hs // take_new_perm.
Qed.

Lemma pivot_notin : pivot k s \notin take k perm.
Proof.
have [Hs Hu _] := new_perm_is_perm.
have : uniq (take k.+1 (new_perm k s)) by apply: take_uniq.
by rewrite take_new_perm_S rcons_uniq => /andP[].
Qed.

(* the pivot value is the current diagonal entry at the pivot *)
Lemma pivot_valueE : pc_pivot_value RA k s = vget RA (pcd s) (pivot k s).
Proof.
rewrite /pc_pivot_value; case: argmax_fm => Hlt -> _ _; rewrite vs_size in Hlt.
rewrite /vs (nth_map 0%N) ?size_drop ?Hsz // nth_drop pivotE /piv_pos.
by rewrite addnC.
Qed.

(* membership in the tail pi_i = permutation[m+1:] *)
Lemma mem_tail x :
  (x \in drop k.+1 (new_perm k s)) = [&& (x < n)%N, x \notin take k perm & x != pivot k s].
Proof.
have Hnp := new_perm_is_perm; have [Hs Hu _] := Hnp.
rewrite mem_drop_uniq // (is_perm_mem _ Hnp) take_new_perm_S mem_rcons in_cons negb_or.
by congr (_ && _); rewrite andbC.
Qed.

Lemma step_spec :
  let s' := pc_step RA n K orig k s in
  [/\ pcperm s' = new_perm k s,
      size (pcL s') = max_iter,
      forall j, (j < max_iter)%N -> size (nth [::] (pcL s') j) = n,
      forall j i, Lr s' j i =
        if j == k then
          (if i \in drop k.+1 (new_perm k s) then newf k s i
           else if i == pivot k s then Num.sqrt (pc_pivot_value RA k s) else 0)
        else Lr s j i &
      size (pcd s') = n /\
      forall x, vget RA (pcd s') x =
        if x \in drop k.+1 (new_perm k s) then vget RA (pcd s) x - (newf k s x) ^+ 2
        else vget RA (pcd s) x].
Proof.
have Hrowk : size (nth [::] (pcL s) k) = n by apply: (inv_rows HI).
have HLsz := inv_Lsize HI.
have Hrow0 : forall i, nth 0 (nth [::] (pcL s) k) i = 0.
  by move=> i; apply: (inv_zero_rows HI (j := k)).
have Htail_all : all (fun i => (i < n)%N) (drop k.+1 (new_perm k s)).
  by apply/allP => x; rewrite mem_tail => /and3P[].
rewrite /pc_step /=.
have -> : pc_argmax RA k s = (pc_pivot_value RA k s, (pc_argmax RA k s).2).
  by rewrite /pc_pivot_value; case: (pc_argmax RA k s).
rewrite -/(piv_pos k s) -/(new_perm k s) -/(pivot k s).
set maxv := pc_pivot_value RA k s.
set L_m := set_nth 0 (nth [::] (pcL s) k) (pivot k s) (Num.sqrt maxv).
have HLm_sz : size L_m = n.
  by rewrite /L_m size_set_nth Hrowk; apply/maxn_idPr; apply: pivot_lt.
have HLm_nth i : nth 0 L_m i = if i == pivot k s then Num.sqrt maxv else 0.
  by rewrite /L_m nth_set_nth /= Hrow0.
have Hpiv : vget RA L_m (pivot k s) = Num.sqrt maxv by rewrite /vget /= HLm_nth eqxx.
have Hset_sz (row : seq R) : size (set_nth [::] (pcL s) k row) = max_iter.
  by rewrite size_set_nth HLsz; apply/maxn_idPr.
case: ifP => Hlast.
- (* the Schur update of the tail *)
  set mf := (fun i : nat => _ / _).
  have Hmf i : (i < n)%N -> mf i = newf k s i.
    move=> Hi; rewrite /mf /newf Hpiv !(pc_row_get ln K _ Hi); congr (_ / _).
    case: ltnP => [_|]; first by rewrite sumn_E.
    by rewrite leqn0 => /eqP Hk0; rewrite big1 ?subr0 // => -[j Hj]; exfalso; lia.
  split => //=.
  + move=> j Hj; rewrite nth_set_nth /=; case: eqP => _; last exact: (inv_rows HI).
    by rewrite size_scatter HLm_sz.
  + move=> j i; rewrite /Lr /get /= nth_set_nth /=; case: (j =P k) => // _.
    rewrite nth_scatter HLm_nth; case: ifP => // Hin.
    by rewrite Hmf //; apply: (allP Htail_all).
  + split; first by rewrite size_scatter (inv_dsize HI).
    move=> x; rewrite /vget /= nth_scatter; case: ifP => // Hin.
    by rewrite -/(mf x) Hmf ?expr2 //; apply: (allP Htail_all).
- (* m + 1 = n: nothing but the pivot entry is written; the tail is empty *)
  have Hnil : drop k.+1 (new_perm k s) = [::].
    by apply: drop_oversize; case: new_perm_is_perm => -> _ _; lia.
  split => //=.
  + move=> j Hj; rewrite nth_set_nth /=; case: eqP => _ //; exact: (inv_rows HI).
  + move=> j i; rewrite /Lr /get /= nth_set_nth /=; case: (j =P k) => // _.
    by rewrite Hnil in_nil HLm_nth.
  + split; first exact: (inv_dsize HI).
    by move=> x; rewrite Hnil in_nil.
Qed.

(* errors[b] after the body (when the tail is not skipped) *)
Lemma step_err : (k.+1 < n)%N ->
  pcerr (pc_step RA n K orig k s) =
  (\sum_(x <- drop k.+1 (new_perm k s)) `|vget RA (pcd (pc_step RA n K orig k s)) x|) / orig.
Proof.
move=> Hlt; rewrite /pc_step /=.
have -> : pc_argmax RA k s = (pc_pivot_value RA k s, (pc_argmax RA k s).2).
  by rewrite /pc_pivot_value; case: (pc_argmax RA k s).
by rewrite -/(piv_pos k s) -/(new_perm k s) Hlt /= suml_E big_map.
Qed.

Lemma step_err_last : (k.+1 < n)%N = false ->
  pcerr (pc_step RA n K orig k s) = pcerr s.
Proof.
move=> Hlt; rewrite /pc_step /=.
have -> : pc_argmax RA k s = (pc_pivot_value RA k s, (pc_argmax RA k s).2).
  by rewrite /pc_pivot_value; case: (pc_argmax RA k s).
by rewrite Hlt.
Qed.

(* the pivot is positive *)
Hypothesis Hpos : 0 < pc_pivot_value RA k s.

Lemma step_inv : Inv k.+1 (pc_step RA n K orig k s).
Proof.
move: step_spec; set s' := pc_step RA n K orig k s => -[Hp' HL' Hrows' HLr' [Hd' Hdv']].
set p := pivot k s in HLr' Hdv'.
have Hpos' : 0 < pc_pivot_value RA k s := Hpos.
set maxv := pc_pivot_value RA k s in HLr' Hpos'.
have Hsq : Num.sqrt maxv != 0 by rewrite gt_eqF // sqrtr_gt0.
have HGk x y : G s' k x y = G s k x y.
  by apply: eq_bigr => l _; rewrite !HLr' ltn_eqF.
have Hpn : p \notin drop k.+1 (new_perm k s) by rewrite mem_tail eqxx !andbF.
have HLkp : Lr s' k p = Num.sqrt maxv by rewrite HLr' eqxx (negbTE Hpn) eqxx.
have Hzero_old x : x \in take k perm -> Lr s' k x = 0.
  move=> Hx; rewrite HLr' eqxx mem_tail Hx /= andbF.
  by case: eqP => // Hxp; move: pivot_notin; rewrite -/p -Hxp Hx.
have Hdp : vget RA (pcd s) p = a p p - G s k p p.
  by apply: (inv_diag HI); [exact: pivot_lt | exact: pivot_notin].
have Hmaxv : maxv = a p p - G s k p p by rewrite /maxv pivot_valueE.
split => //.
- by rewrite Hp'; apply: new_perm_is_perm.
- move=> j i Hj; rewrite HLr'; have -> : (j == k) = false by lia.
  by apply: (inv_zero_rows HI); lia.
- move=> j x; rewrite ltnS leq_eqVlt Hp' => /orP[/eqP->|Hj].
    by rewrite take_new_perm //; apply: Hzero_old.
  rewrite take_new_perm ?(ltnW Hj) // HLr'; have -> : (j == k) = false by lia.
  exact: (inv_zero_piv HI).
- move=> x Hx; rewrite Hp' take_new_perm_S mem_rcons in_cons negb_or => /andP[Hxp Hxt].
  have Hxin : x \in drop k.+1 (new_perm k s) by rewrite mem_tail Hx Hxt Hxp.
  rewrite Hdv' Hxin G_recr HGk (inv_diag HI Hx Hxt) HLr' eqxx Hxin.
  by rewrite expr2; ring.
- move=> j x; rewrite ltnS leq_eqVlt Hp' => /orP[/eqP->|Hj] Hx.
  + rewrite take_new_perm // -/(pivot k s) -/p => Hxt.
    rewrite G_recr HGk HLkp.
    case: (x =P p) => [->|/eqP Hxp].
      by rewrite HLkp -expr2 sqr_sqrtr ?(ltW Hpos') // Hmaxv; ring.
    have Hxin : x \in drop k.+1 (new_perm k s) by rewrite mem_tail Hx Hxt Hxp.
    rewrite HLr' eqxx Hxin /newf -/p -/maxv mulrC divfK // /G.
    by ring.
  + rewrite take_new_perm ?(ltnW Hj) // => Hxt.
    have Hnth : nth 0%N (new_perm k s) j = nth 0%N perm j.
      rewrite /new_perm nth_swap /sw; have Hge := piv_pos_ge.
      case: (j =P piv_pos k s) => [?|_]; first by exfalso; lia.
      by case: (j =P k) => [?|//]; exfalso; lia.
    rewrite Hnth G_recr HGk (inv_vanish HI Hj Hx Hxt).
    have Hin : nth 0%N perm j \in take k perm.
      by rewrite -(nth_take 0%N Hj) mem_nth // size_take Hsz Hkn.
    by rewrite (Hzero_old _ Hin) mul0r addr0.
Qed.

(* what the body chooses: the largest remaining entry of the diagonal, first position on ties *)
Lemma step_argmax :
  let p := pivot k s in
  [/\ p \in drop k perm,
      forall x, x \in drop k perm -> vget RA (pcd s) x <= vget RA (pcd s) p &
      forall u, (k <= u < piv_pos k s)%N -> vget RA (pcd s) (nth 0%N perm u) < vget RA (pcd s) p].
Proof.
case: argmax_fm; rewrite vs_size -/(pc_pivot_value RA k s) pivot_valueE => Hlt _ Hle Hfirst.
split.
- by rewrite pivotE /piv_pos addnC -nth_drop mem_nth // size_drop Hsz.
- move=> x /(nthP 0%N) [t]; rewrite size_drop Hsz => Ht <-.
  by move: (Hle t Ht); rewrite /vs (nth_map 0%N) ?size_drop ?Hsz.
- move=> u /andP[Hku Hup].
  have Ht : (u - k < (pc_argmax RA k s).2)%N by move: Hup; rewrite /piv_pos; lia.
  move: (Hfirst _ Ht); rewrite /vs (nth_map 0%N) ?size_drop ?Hsz; last by lia.
  by rewrite nth_drop subnKC.
Qed.

End Step.

(* ------------------------------------------------------------------------------------------ *)
(* the run: k bodies from the initial state *)
Definition s0 : pc_state R := (pc_init RA n max_iter K).2.
Definition run (k : nat) : pc_state R := pc_iter RA n K orig k s0.

Lemma run_S k : run k.+1 = pc_step RA n K orig k (run k).
Proof. by []. Qed.

Lemma inv0 : Inv 0 s0.
Proof.
rewrite /s0 /pc_init /=; split => //=.
- by split; rewrite ?size_iota ?iota_uniq //; apply/allP => x; rewrite mem_iota add0n.
- by rewrite size_nseq.
- by move=> j Hj; rewrite nth_nseq Hj size_nseq.
- move=> j i _; rewrite /Lr /get /= nth_nseq; case: ifP => _; last by rewrite nth_nil.
  by rewrite nth_nseq; case: ifP.
- by rewrite size_mkseq.
- by move=> x Hx _; rewrite /vget /= nth_mkseq // /G big_ord0 subr0.
Qed.

(* the guard of the theorems: every pivot so far was positive (the matrix is numerically PD on the
   part explored; a zero/negative pivot makes the library divide by zero / take sqrt of a negative) *)
Definition pivots_pos (k : nat) : Prop := forall j, (j < k)%N -> 0 < pc_pivot_value RA j (run j).

Lemma pivots_pos_le k k' : (k' <= k)%N -> pivots_pos k -> pivots_pos k'.
Proof. by move=> Hk H j Hj; apply: H; lia. Qed.

Lemma run_inv k : (k <= n)%N -> (k <= max_iter)%N -> pivots_pos k -> Inv k (run k).
Proof.
elim: k => [|k IH] Hn Hm Hpos; first exact: inv0.
rewrite run_S; apply: step_inv => //; last by apply: Hpos.
by apply: IH; [lia | lia | apply: pivots_pos_le Hpos].
Qed.

(* ------------------------------------------------------------------------------------------ *)
(* consequences of the invariant for a state s reached after r bodies *)
Section Consequences.
Variables (r : nat) (s : pc_state R).
Hypothesis HI : Inv r s.
Let perm := pcperm s.
Let Hperm : is_perm n perm := inv_perm HI.
Let Hsz : size perm = n. Proof. by case: Hperm. Qed.
Let Hun : uniq perm. Proof. by case: Hperm. Qed.

Lemma nth_perm_lt j : (j < n)%N -> (nth 0%N perm j < n)%N.
Proof.
have /(all_nthP 0%N) H : all (fun i => (i < n)%N) perm by case: Hperm.
by move=> Hj; apply: H; rewrite Hsz.
Qed.

Lemma nth_notin_take j j' : (j' <= j)%N -> (j < n)%N -> nth 0%N perm j \notin take j' perm.
Proof.
move=> Hjj Hj.
have : nth 0%N perm j \in drop j' perm.
  have -> : nth 0%N perm j = nth 0%N (drop j' perm) (j - j') by rewrite nth_drop subnKC.
  by apply: mem_nth; rewrite size_drop Hsz; lia.
by rewrite mem_drop_uniq // => /andP[].
Qed.

(* rows (and, by symmetry, columns) of the residual A - L^T L vanish at every pivot chosen so far *)
Lemma vanish_full j x : (j < r)%N -> (r <= n)%N -> (x < n)%N ->
  G s r (nth 0%N perm j) x = a (nth 0%N perm j) x.
Proof.
move=> Hj Hr Hx; case Hxt: (x \in take j perm); last first.
  by apply: (inv_vanish HI) => //; rewrite Hxt.
move/(nthP 0%N): Hxt => [j']; rewrite size_take Hsz.
have -> : (if (j < n)%N then j else n) = j by case: ltnP => //; lia.
move=> Hj'; rewrite nth_take // => <-.
rewrite G_sym Hsym; apply: (inv_vanish HI); first by lia.
- by apply: nth_perm_lt; lia.
- by apply: nth_notin_take; lia.
Qed.

Lemma exact_full_rank x y : r = n -> (x < n)%N -> (y < n)%N -> G s r x y = a x y.
Proof.
move=> Hr Hx Hy.
have : x \in perm by rewrite (is_perm_mem _ Hperm).
move/(nthP 0%N) => [j]; rewrite Hsz => Hj <-.
by apply: vanish_full => //; rewrite Hr.
Qed.

(* the residual diagonal vanishes at the pivots; elsewhere it is the tracked diagonal *)
Lemma resid_diag_pivot x : (r <= n)%N -> x \in take r perm -> a x x - G s r x x = 0.
Proof.
move=> Hr /(nthP 0%N) [j]; rewrite size_take Hsz.
have -> : (if (r < n)%N then r else n) = r by case: ltnP => //; lia.
move=> Hj; rewrite nth_take // => <-; rewrite vanish_full ?subrr //.
by apply: nth_perm_lt; lia.
Qed.

End Consequences.

(* the residual trace (sum of the residual diagonal over the first k rows of the factor in s) never
   increases with k — for ANY state s (each body subtracts squares) *)
Lemma trace_mono (s : pc_state R) k :
  \sum_(x < n) (a x x - G s k.+1 x x) <= \sum_(x < n) (a x x - G s k x x).
Proof.
apply: ler_sum => x _; rewrite G_recr opprD addrA ler_subl_addr ler_addl.
by rewrite -expr2 sqr_ge0.
Qed.

(* ------------------------------------------------------------------------------------------ *)
(* later bodies never touch the rows / pivots already fixed *)
Lemma run_stable k k' : (k <= k')%N -> (k' <= n)%N -> (k' <= max_iter)%N -> pivots_pos k' ->
  (forall j i, (j < k)%N -> Lr (run k') j i = Lr (run k) j i) /\
  (forall j, (j <= k)%N -> take j (pcperm (run k')) = take j (pcperm (run k))).
Proof.
elim: k' => [|k' IH]; first by rewrite leqn0 => /eqP->.
rewrite leq_eqVlt => /orP[/eqP->//|]; rewrite ltnS => Hk Hn Hm Hpos.
have Hpos' : pivots_pos k' by apply: pivots_pos_le Hpos.
have [IH1 IH2] := IH Hk (ltnW Hn) (ltnW Hm) Hpos'.
have HI := run_inv (ltnW Hn) (ltnW Hm) Hpos'.
have [Hp' _ _ HLr' _] := step_spec HI Hn Hm.
split.
- by move=> j i Hj; rewrite run_S HLr' ltn_eqF ?IH1 //; lia.
- move=> j Hj; rewrite run_S Hp' take_new_perm ?IH2 //; lia.
Qed.

Lemma G_stable k k' x y : (k <= k')%N -> (k' <= n)%N -> (k' <= max_iter)%N -> pivots_pos k' ->
  G (run k') k x y = G (run k) k x y.
Proof.
move=> Hk Hn Hm Hpos; have [H1 _] := run_stable Hk Hn Hm Hpos.
by apply: eq_bigr => l _; rewrite !H1.
Qed.

(* the j-th pivot of the final permutation is the one chosen by body j *)
Lemma pivot_stable j k : (j < k)%N -> (k <= n)%N -> (k <= max_iter)%N -> pivots_pos k ->
  nth 0%N (pcperm (run k)) j = pivot j (run j).
Proof.
move=> Hj Hn Hm Hpos.
have [_ H2] := run_stable Hj Hn Hm Hpos.
have Hpos' : pivots_pos j by apply: pivots_pos_le Hpos; lia.
have HI : Inv j (run j) by apply: run_inv => //; lia.
have [Hp' _ _ _ _] := step_spec HI (leq_trans Hj Hn) (leq_trans Hj Hm).
have HIk := run_inv Hn Hm Hpos; have [Hszk _ _] := inv_perm HIk.
have <- : nth 0%N (take j.+1 (pcperm (run k))) j = nth 0%N (pcperm (run k)) j by rewrite nth_take.
by rewrite H2 // run_S Hp' nth_take.
Qed.

(* errors[b] is the (absolute) trace of the residual diagonal, relative to orig_error:
   the pivoted entries of the residual diagonal are zero, the others are the tracked diagonal *)
Lemma sum_resid_tail r s : Inv r s -> (r <= n)%N ->
  \sum_(x <- drop r (pcperm s)) `|vget RA (pcd s) x| = \sum_(x < n) `|a x x - G s r x x|.
Proof.
move=> HI Hr; have Hperm := inv_perm HI; have [Hsz Hun Hall] := Hperm.
pose f x := `|a x x - G s r x x|.
have -> : \sum_(x <- drop r (pcperm s)) `|vget RA (pcd s) x| = \sum_(x <- drop r (pcperm s)) f x.
  rewrite !big_seq; apply: eq_bigr => x.
  rewrite mem_drop_uniq // => /andP[Hin Hnt].
  by rewrite (inv_diag HI) // -(is_perm_mem _ Hperm).
have Htake : \sum_(x <- take r (pcperm s)) f x = 0.
  by rewrite big_seq big1 // => x Hx; rewrite /f (resid_diag_pivot HI) ?normr0.
have -> : \sum_(x <- drop r (pcperm s)) f x = \sum_(x <- pcperm s) f x.
  by rewrite -{2}(cat_take_drop r (pcperm s)) big_cat /= Htake add0r.
rewrite (perm_big _ (is_perm_iota Hperm)) /=.
by rewrite -{1}(subn0 n) -/(index_iota 0 n) big_mkord.
Qed.

Lemma run_err k : (k.+1 < n)%N -> (k < max_iter)%N -> pivots_pos k.+1 ->
  pcerr (run k.+1) = (\sum_(x < n) `|a x x - G (run k.+1) k.+1 x x|) / orig.
Proof.
move=> Hn Hm Hpos.
have HI : Inv k (run k) by apply: run_inv; [lia | lia | apply: pivots_pos_le Hpos].
have HI' : Inv k.+1 (run k.+1) by apply: run_inv => //; lia.
have [Hp' _ _ _ _] := step_spec HI (ltnW Hn) Hm.
by rewrite run_S step_err // -Hp' -run_S (sum_resid_tail HI') //; lia.
Qed.

End PC.
