(* C10 — the batched while loop of PivotedCholesky.forward: all members take the same number of
   bodies r; each member's state is the single-member run of ProofsPC.v; the shared guard. *)
From mathcomp Require Import all_ssreflect all_algebra.
From mathcomp Require Import zify.
Require Import C10.Model C10.ProofsBase.
Set Implicit Arguments.
Unset Strict Implicit.
Unset Printing Implicit Defensive.
Import Order.Theory GRing.Theory Num.Theory.
Local Open Scope ring_scope.

Section Loop.
Variable R : rcfType.
Variable ln : R -> R.
Notation RA := (RA ln).
Variables (n max_iter : nat) (tol : R).

(* the batch after m bodies *)
Fixpoint run_members (m : nat) (bs : seq (member R)) : seq (member R) :=
  if m is m'.+1 then map (step_member RA n m') (run_members m' bs) else bs.

Definition member_after (m : nat) (b : member R) : member R :=
  MkMember (mK b) (morig b) (pc_iter RA n (mK b) (morig b) m (mst b)).

Lemma run_membersE m bs : run_members m bs = map (member_after m) bs.
Proof.
elim: m => [|m IH] /=; first by rewrite -[LHS]map_id; apply: eq_map; case.
by rewrite IH -map_comp.
Qed.

Lemma pc_loop_spec fuel m bs0 r bs' :
  pc_loop RA fuel n max_iter tol m (run_members m bs0) = (r, bs') ->
  [/\ bs' = run_members r bs0, (m <= r <= m + fuel)%N,
      forall m', (m <= m' < r)%N -> pc_guard RA max_iter tol m' (run_members m' bs0) &
      (r == m + fuel)%N || ~~ pc_guard RA max_iter tol r (run_members r bs0)].
Proof.
elim: fuel m => [|f IH] m /=.
  by case=> <- <-; split; rewrite ?addn0 ?leqnn ?eqxx //; move=> m'; lia.
case: ifP => Hg.
- move/(IH m.+1) => [-> Hr Hgs Hend]; split => //; first by lia.
  + move=> m'; rewrite leq_eqVlt => /andP[/orP[/eqP<-|Hm'] Hm'r] //.
    by apply: Hgs; rewrite Hm'.
  + by rewrite addnS -addSn.
- by case=> <- <-; split; rewrite ?Hg ?orbT //; [lia | move=> m'; lia].
Qed.

End Loop.

Section Top.
Variable R : rcfType.
Variable ln : R -> R.
Notation RA := (RA ln).

(* the state of the member with matrix K after r bodies *)
Definition member_run (n max_iter : nat) (K : mat R) (r : nat) : pc_state R :=
  pc_iter RA n K (pc_init RA n max_iter K).1 r (pc_init RA n max_iter K).2.

Definition the_tol (st : settings R) (error_tol : option R) : R :=
  if error_tol is Some t then t else st_precond_tol st.

Lemma pivoted_cholesky_none st n rank etol Ks :
  pivoted_cholesky RA st n rank etol Ks = None <-> minn rank n = 0%N.
Proof.
rewrite /pivoted_cholesky; case: eqP => [->|Hne]; first by [].
by case: (pc_loop _ _ _ _ _ _ _) => m bs; split.
Qed.

Theorem pivoted_cholesky_spec st n rank etol Ks r res :
  Ks != [::] ->      (* a batch has at least one member (torch.max of an empty tensor raises) *)
  pivoted_cholesky RA st n rank etol Ks = Some (r, res) ->
  let max_iter := minn rank n in
  let tol := the_tol st etol in
  [/\ (1 <= r <= max_iter)%N,
      res = map (fun K => (result_L RA n r (member_run n max_iter K r),
                           pcperm (member_run n max_iter K r))) Ks,
      (* early stop only once every member's error is within the tolerance *)
      (r < max_iter)%N -> forall K, K \in Ks -> pcerr (member_run n max_iter K r) <= tol &
      (* and it did not stop earlier because some member's error still exceeded it *)
      forall m, (1 <= m < r)%N -> exists2 K, K \in Ks & tol < pcerr (member_run n max_iter K m)].
Proof.
move=> HKs; rewrite /pivoted_cholesky -/(the_tol st etol); case: eqP => // Hne.
set bs0 := map _ Ks.
case E: (pc_loop _ _ _ _ _ _ _) => [r' bs'] [<- <-] /=.
have := @pc_loop_spec R ln n (minn rank n) (the_tol st etol) (minn rank n) 0 bs0 r' bs'.
rewrite /= E => /(_ erefl) [Hbs Hrr Hgs Hend].
have Hr : (r' <= 0 + minn rank n)%N by move: Hrr; rewrite ?leq0n.
rewrite {bs' E}Hbs.
have Hafter m : map (fun b => pcerr (mst b)) (run_members ln n m bs0)
              = map (fun K => pcerr (member_run n (minn rank n) K m)) Ks.
  rewrite run_membersE /bs0 -!map_comp; apply: eq_map => K /=.
  by rewrite /member_run /init_member /pc_init.
have Hr1 : (0 < r')%N.
  by case: (r') Hend => [|//]; rewrite /pc_guard eqxx /= add0n orbF eq_sym => /eqP.
split.
- by rewrite Hr1 -[X in (_ <= X)%N]add0n.
- rewrite run_membersE /bs0 -!map_comp; apply: eq_map => K /=.
  by rewrite /member_run /init_member /pc_init.
- move=> Hlt K HK; move: Hend; rewrite add0n (ltn_eqF Hlt) /= /pc_guard.
  rewrite (gtn_eqF Hr1) Hlt /= Hafter -leNgt => Hmax.
  set errs := map _ Ks in Hmax.
  have Hne' : errs != [::] by rewrite /errs; case: (Ks) HK.
  have [_ Hle] := maxl_ok ln Hne'.
  by apply: le_trans Hmax; apply: Hle; apply/mapP; exists K.
- move=> m /andP[Hm1 Hmr]; have := Hgs m; rewrite /= Hmr => /(_ erefl).
  rewrite /pc_guard (gtn_eqF Hm1) /= Hafter => /andP[_ Hlt].
  set errs := map _ Ks in Hlt.
  have Hne' : errs != [::] by rewrite /errs; case: (Ks) HKs.
  have [/mapP [K HK HKe] _] := maxl_ok ln Hne'.
  by exists K => //; rewrite -HKe.
Qed.

End Top.
