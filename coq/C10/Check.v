(* C10 — the binary64 instance of the model and the Gallina comparators used by the generated
   correspondence shards (gen/cases_*.v): model output vs what the implementation returned. *)
From Coq Require Import ZArith PrimFloat FloatOps Uint63.
From mathcomp Require Import ssreflect ssrfun ssrbool eqtype ssrnat seq.
Require Import C10.Model.
Set Implicit Arguments.
Unset Strict Implicit.
Unset Printing Implicit Defensive.

(* natural logarithm on binary64 (not a PrimFloat primitive): x = m 2^e with m in [sqrt(1/2), sqrt 2),
   ln m = 2 atanh z, z = (m-1)/(m+1), |z| <= 0.1716, 14 series terms (truncation < 1e-22);
   accurate to a few ulp — far below the 1e-9 comparison tolerance.  Trusted like PrimFloat itself. *)
Definition ln2 : float := 0x1.62e42fefa39efp-1%float.
Definition sqrt_half : float := 0x1.6a09e667f3bcdp-1%float.
Definition float_of_Z (z : Z) : float :=
  match z with
  | Z0 => zero
  | Zpos p => of_uint63 (Uint63.of_Z (Zpos p))
  | Zneg p => PrimFloat.opp (of_uint63 (Uint63.of_Z (Zpos p)))
  end.
Fixpoint atanh_series (z2 : float) (k : nat) (denom : float) : float :=
  (* sum_{i>=0} z2^i / (denom + 2 i), k+1 terms, Horner *)
  match k with
  | O => PrimFloat.div one denom
  | S k' => PrimFloat.add (PrimFloat.div one denom)
                          (PrimFloat.mul z2 (atanh_series z2 k' (PrimFloat.add denom 0x1p1%float)))
  end.
Definition fln (x : float) : float :=
  if negb (PrimFloat.eqb x x) then x
  else if PrimFloat.ltb x zero then nan
  else if PrimFloat.eqb x zero then neg_infinity
  else if PrimFloat.eqb x infinity then infinity
  else
    let '(m, e) := frexp x in
    let '(m, e) := if PrimFloat.ltb m sqrt_half then (PrimFloat.mul m 0x1p1%float, (e - 1)%Z) else (m, e) in
    let z := PrimFloat.div (PrimFloat.sub m one) (PrimFloat.add m one) in
    let z2 := PrimFloat.mul z z in
    PrimFloat.add (PrimFloat.mul (float_of_Z e) ln2)
                  (PrimFloat.mul (PrimFloat.mul 0x1p1%float z) (atanh_series z2 14 one)).

Definition ArFloat : Arith float :=
  MkArith zero one PrimFloat.add PrimFloat.sub PrimFloat.mul PrimFloat.div
          PrimFloat.sqrt PrimFloat.abs fln PrimFloat.ltb PrimFloat.eqb
          (fun x => negb (PrimFloat.eqb x x)).

Notation fmat := (seq (seq float)).
Notation fvec := (seq float).

Definition fmax (x y : float) : float := if PrimFloat.ltb x y then y else x.
Definition is_nanb (x : float) : bool := ~~ PrimFloat.eqb x x.
Definition vmaxabs (v : fvec) : float := foldl (fun a x => fmax a (PrimFloat.abs x)) zero v.
Definition mmaxabs (M : fmat) : float := vmaxabs (flatten M).

(* |a - b| <= bound, or both NaN, or equal (covers infinities) *)
Definition close1 (bound a b : float) : bool :=
  if is_nanb a || is_nanb b then is_nanb a && is_nanb b
  else PrimFloat.leb (PrimFloat.abs (PrimFloat.sub a b)) bound || PrimFloat.eqb a b.
Fixpoint all2 (T U : Type) (f : T -> U -> bool) (a : seq T) (b : seq U) : bool :=
  match a, b with
  | [::], [::] => true
  | x :: r, y :: s => f x y && all2 f r s
  | _, _ => false
  end.
(* entries agree relative to the larger max-norm of the two matrices; shapes must agree *)
Definition mclose (tol : float) (M N : fmat) : bool :=
  let sc := fmax (mmaxabs M) (mmaxabs N) in
  all2 (all2 (close1 (PrimFloat.mul tol sc))) M N.
Definition sclose (tol a b : float) : bool :=
  close1 (PrimFloat.mul tol (fmax one (fmax (PrimFloat.abs a) (PrimFloat.abs b)))) a b.
Definition nats_eqb (a b : seq nat) : bool := a == b.

(* ------------------------------------------------------------------------------------------ *)
Definition mgs := mgs_qr ArFloat.

Inductive case :=
  (* op.pivoted_cholesky(rank, error_tol, return_pivots=True) on members Ks (n x n each);
     observed: None = IndexError, Some (m, [(L_b as n x m rows, permutation_b)]) *)
  | CasePC (st : settings float) (n rank : nat) (error_tol : option float) (Ks : seq fmat)
           (tol : float) (obs : option (nat * seq (fmat * seq nat)))
  (* (closure, P, logdet) = (K + D)._preconditioner(); Ds = diagonal of D per member;
     observed: None = (None, None, None), Some [(closure(I_n), P.to_dense(), logdet)] per member;
     obs_const = the _constant_diag attribute when the implementation exposes it *)
  | CasePre (st : settings float) (n : nat) (Ks : seq fmat) (Ds : seq fvec)
            (tol : float) (obs_const : option bool) (obs : option (seq (fmat * fmat * float)))
  (* apply_permutation(M, left, right) on one (nr x nc) batch member; observed: the result rows *)
  | CasePerm (nr nc : nat) (M : fmat) (left right : option (seq nat)) (tol : float) (obs : fmat)
  (* inverse_permutation(perm) on one batch member *)
  | CaseInv (perm : seq nat) (obs : seq nat).

Definition check_pc_member (tol : float) (mo : (fmat * seq nat) * (fmat * seq nat)) : bool :=
  let: ((Lm, pm), (Lo, po)) := mo in
  nats_eqb pm po && mclose tol Lm Lo.

Definition check_case (c : case) : bool :=
  match c with
  | CasePC st n rank etol Ks tol obs =>
      match pivoted_cholesky ArFloat st n rank etol Ks, obs with
      | None, None => true
      | Some (m, res), Some (mo, reso) =>
          (m == mo) && (size res == size reso) && all (check_pc_member tol) (zip res reso)
      | _, _ => false
      end
  | CasePre st n Ks Ds tol obs_const obs =>
      match preconditioner ArFloat mgs st n Ks Ds, obs with
      | None, None => true
      | Some o, Some ob =>
          (* the branch decision itself (_constant_diag: exact equality with the first entry, whole batch) *)
          (if obs_const is Some cf then cf == o_const o else true) &&
          (size (o_cache o) == size ob) &&
          all (fun x : (fmat * fvec * pcache float) * (fmat * fmat * float) =>
                 let: ((L, d, ch), (clI, P, ld)) := x in
                 let k := o_rank o in
                 mclose tol (precond_closure ArFloat (o_const o) n k n ch (eye ArFloat n)) clI
                 && mclose tol (precond_lt_dense ArFloat n k L d) P
                 && sclose tol (c_logdet ch) ld)
              (zip (zip (zip (o_L o) Ds) (o_cache o)) ob)
      | _, _ => false
      end
  | CasePerm nr nc M lp rp tol obs => mclose tol (apply_permutation ArFloat nr nc M lp rp) obs
  | CaseInv perm obs => nats_eqb (inverse_permutation perm) obs
  end.

Fixpoint bad_cases (cs : seq case) (i : nat) : seq nat :=
  match cs with
  | [::] => [::]
  | c :: r => if check_case c then bad_cases r i.+1 else i :: bad_cases r i.+1
  end.
