(* C10 — exact-arithmetic instance of the model (any real closed field) and the lemmas about the
   list primitives (sequential sums, argmax with first-maximum tie rule, scatter, the swap). *)
From mathcomp Require Import all_ssreflect all_algebra.
From mathcomp Require Import ring zify.
Require Import C10.Model.
Set Implicit Arguments.
Unset Strict Implicit.
Unset Printing Implicit Defensive.
Import Order.Theory GRing.Theory Num.Theory.
Local Open Scope ring_scope.

Section Instance.
Variable R : rcfType.
Variable ln : R -> R.       (* the logarithm: an arbitrary function; laws are assumed where used *)

Definition RA : Arith R :=
  MkArith 0 1 +%R (fun x y => x - y) *%R (fun x y => x / y) Num.sqrt Num.norm ln
          (fun x y => x < y) (fun x y => x == y) (fun _ => false).

Lemma sumn_E (f : nat -> R) k : sumn_ RA f k = \sum_(l < k) f l.
Proof. by elim: k => [|k IH] /=; rewrite ?big_ord0 // big_ord_recr /= IH. Qed.

Lemma foldl_addE (s : seq R) z : foldl +%R z s = z + \sum_(x <- s) x.
Proof. by elim: s z => [|x s IH] z /=; rewrite ?big_nil ?addr0 // big_cons IH addrA. Qed.

Lemma suml_E (s : seq R) : suml RA s = \sum_(x <- s) x.
Proof. by rewrite /suml /= foldl_addE add0r. Qed.

Lemma ofnat_E k : ofnat RA k = k%:R.
Proof. by elim: k => [|k IH] //=; rewrite IH -[in RHS]addn1 natrD. Qed.

Lemma tgtE (x y : R) : tgt RA x y = (y < x).
Proof. by rewrite /tgt /= orbF. Qed.

(* ---------------------------------------------------------------- argmax *)
Definition first_max (ws : seq R) (vj : R * nat) : Prop :=
  [/\ (vj.2 < size ws)%N, vj.1 = nth 0 ws vj.2,
      forall t, (t < size ws)%N -> nth 0 ws t <= vj.1 &
      forall t, (t < vj.2)%N -> nth 0 ws t < vj.1].

Lemma argmax_from_ok (ws pre vs : seq R) best bi :
  ws = pre ++ vs -> (bi < size pre)%N -> best = nth 0 ws bi ->
  (forall t, (t < size pre)%N -> nth 0 ws t <= best) ->
  (forall t, (t < bi)%N -> nth 0 ws t < best) ->
  first_max ws (argmax_from RA best bi (size pre) vs).
Proof.
elim: vs pre best bi => [|v r IH] pre best bi Hws Hbi Hbest Hle Hlt /=.
  by rewrite cats0 in Hws; subst ws; split.
have Hws' : ws = rcons pre v ++ r by rewrite cat_rcons.
have Hv : v = nth 0 ws (size pre) by rewrite Hws nth_cat ltnn subnn.
rewrite tgtE; case: ifP => Hc.
- have := IH (rcons pre v) v (size pre) Hws'; rewrite size_rcons; apply => //.
  + move=> t; rewrite ltnS leq_eqVlt => /orP[/eqP->|Ht]; first by rewrite -Hv.
    by apply: ltW; apply: le_lt_trans (Hle _ Ht) Hc.
  + by move=> t Ht; apply: le_lt_trans (Hle _ Ht) Hc.
- have := IH (rcons pre v) best bi Hws'; rewrite size_rcons; apply => //.
  + by apply: ltn_trans Hbi _.
  + move=> t; rewrite ltnS leq_eqVlt => /orP[/eqP->|Ht]; last exact: Hle.
    by rewrite -Hv leNgt Hc.
Qed.

Lemma argmax_ok (vs : seq R) : vs != [::] -> first_max vs (argmax RA vs).
Proof.
case: vs => [//|v r] _ /=.
have := @argmax_from_ok (v :: r) [:: v] r v 0%N; apply => //.
- by move=> t; rewrite ltnS leqn0 => /eqP->.
Qed.

Lemma maxl_ok (vs : seq R) : vs != [::] ->
  maxl RA vs \in vs /\ forall x, x \in vs -> x <= maxl RA vs.
Proof.
move=> Hne; case: (argmax_ok Hne); rewrite /maxl => H1 H2 H3 _; split.
  by rewrite H2 mem_nth.
by move=> x /(nthP 0) [t Ht <-]; apply: H3.
Qed.

(* ---------------------------------------------------------------- scatter *)
Lemma size_scatter (v : seq R) idx (g : nat -> R) :
  all (fun i => (i < size v)%N) idx -> size (scatter RA v idx (map g idx)) = size v.
Proof.
rewrite /scatter; elim: idx v => [|i idx IH] v //= /andP[Hi Hall].
rewrite IH; first by rewrite size_set_nth; apply/maxn_idPr.
by rewrite size_set_nth (maxn_idPr Hi).
Qed.

Lemma nth_scatter (v : seq R) idx (g : nat -> R) x :
  nth 0 (scatter RA v idx (map g idx)) x = if x \in idx then g x else nth 0 v x.
Proof.
rewrite /scatter; elim: idx v => [|i idx IH] v //=.
rewrite IH in_cons; case: (x \in idx); first by rewrite orbT.
by rewrite orbF nth_set_nth /=; case: eqP => [->|].
Qed.

(* ---------------------------------------------------------------- the swap *)
Definition sw (m mi k : nat) : nat := if k == mi then m else if k == m then mi else k.

Lemma sw_inj m mi : injective (sw m mi).
Proof.
move=> a b; rewrite /sw.
by case: (a =P mi); case: (a =P m); case: (b =P mi); case: (b =P m); lia.
Qed.

Lemma sw_lt m mi n k : (m < n)%N -> (mi < n)%N -> (sw m mi k < n)%N = (k < n)%N.
Proof. by rewrite /sw => Hm Hmi; case: (k =P mi); case: (k =P m); lia. Qed.

Lemma nth_swap (s : seq nat) m mi k :
  nth 0%N (swap_perm s m mi) k = nth 0%N s (sw m mi k).
Proof.
rewrite /swap_perm /sw nth_set_nth /=; case: (k =P mi) => // _.
by rewrite nth_set_nth /=; case: (k =P m).
Qed.

Lemma size_swap (s : seq nat) m mi :
  (m < size s)%N -> (mi < size s)%N -> size (swap_perm s m mi) = size s.
Proof.
move=> Hm Hmi; rewrite /swap_perm !size_set_nth.
by rewrite (maxn_idPr Hm) (maxn_idPr Hmi).
Qed.

Lemma uniq_swap (s : seq nat) m mi :
  (m < size s)%N -> (mi < size s)%N -> uniq s -> uniq (swap_perm s m mi).
Proof.
move=> Hm Hmi Hu; apply/negPn/negP => /(uniqPn 0%N) [i [j [Hij Hj]]].
rewrite size_swap // in Hj; rewrite !nth_swap => /eqP.
rewrite nth_uniq ?sw_lt //; last by apply: ltn_trans Hij Hj.
by move/eqP/sw_inj => Heq; rewrite Heq ltnn in Hij.
Qed.

Lemma all_swap (s : seq nat) m mi (p : pred nat) :
  (m < size s)%N -> (mi < size s)%N -> all p s -> all p (swap_perm s m mi).
Proof.
move=> Hm Hmi /(all_nthP 0%N) Hall; apply/(all_nthP 0%N) => i.
by rewrite size_swap // nth_swap => Hi; apply: Hall; rewrite sw_lt.
Qed.

Lemma take_swap (s : seq nat) m mi j :
  (m < size s)%N -> (mi < size s)%N -> (j <= m)%N -> (m <= mi)%N ->
  take j (swap_perm s m mi) = take j s.
Proof.
move=> Hm Hmi Hj Hmmi; apply: (@eq_from_nth _ 0%N).
  by rewrite !size_take size_swap.
move=> i; rewrite size_take size_swap //.
have Hjs : (j <= size s)%N by apply: leq_trans Hj (ltnW Hm).
have -> : (if (j < size s)%N then j else size s) = j.
  by case: ltnP => // Hs; apply/eqP; rewrite eqn_leq Hjs Hs.
move=> Hi; rewrite !nth_take // nth_swap /sw.
have Him : (i < m)%N by apply: leq_trans Hi Hj.
have -> : (i == mi) = false by apply/negbTE; rewrite neq_ltn (leq_trans Him Hmmi).
by have -> : (i == m) = false by apply/negbTE; rewrite neq_ltn Him.
Qed.

(* ---------------------------------------------------------------- permutations of [0, n) *)
Definition is_perm (n : nat) (s : seq nat) : Prop :=
  [/\ size s = n, uniq s & all (fun i => (i < n)%N) s].

Lemma is_perm_iota n s : is_perm n s -> perm_eq s (iota 0 n).
Proof.
case=> Hs Hu Hall.
have Hsub : {subset s <= iota 0 n}.
  by move=> x Hx; rewrite mem_iota /= add0n; apply: (allP Hall).
have [_ Hi] := uniq_min_size Hu Hsub (eq_leq (etrans (size_iota 0 n) (esym Hs))).
by apply: uniq_perm => //; apply: iota_uniq.
Qed.

Lemma is_perm_mem n s x : is_perm n s -> (x \in s) = (x < n)%N.
Proof. by move/is_perm_iota/perm_mem => ->; rewrite mem_iota add0n. Qed.

Lemma mem_drop_uniq (s : seq nat) k x :
  uniq s -> (x \in drop k s) = (x \in s) && (x \notin take k s).
Proof.
rewrite -{1 3}(cat_take_drop k s) cat_uniq mem_cat => /and3P[_ /hasPn Hdis _].
case Ht: (x \in take k s) => /=.
  by apply/negP => Hd; move: (Hdis _ Hd); rewrite /= Ht.
by rewrite ?andbT.
Qed.

End Instance.
