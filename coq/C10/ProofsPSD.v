(* C10 — the residual K - L_k L_k^T of pivoted Cholesky stays positive semi-definite (Schur
   complement step = completing the square), hence the residual diagonal is non-negative and the
   error the early-stopping test looks at is exactly trace(residual) / max diag. *)
From mathcomp Require Import all_ssreflect all_algebra.
From mathcomp Require Import ring zify.
Require Import C10.Model C10.ProofsBase C10.ProofsPC C10.ProofsLoop C10.ProofsMain C10.ProofsPrecondMx.
Set Implicit Arguments.
Unset Strict Implicit.
Unset Printing Implicit Defensive.
Import Order.Theory GRing.Theory Num.Theory.
Local Open Scope ring_scope.

Section Dot.
Variable R : rcfType.
Variable n : nat.
Implicit Types u v : 'rV[R]_n.

Definition dotp u v : R := (u *m v^T) 0 0.

Lemma dotpE u v : dotp u v = \sum_i u 0 i * v 0 i.
Proof. by rewrite /dotp mxE; apply: eq_bigr => i _; rewrite mxE. Qed.

Lemma dotpC u v : dotp u v = dotp v u.
Proof. by rewrite !dotpE; apply: eq_bigr => i _; rewrite mulrC. Qed.

Lemma dotpBl u1 u2 v : dotp (u1 - u2) v = dotp u1 v - dotp u2 v.
Proof. by rewrite !dotpE -sumrB; apply: eq_bigr => i _; rewrite !mxE mulrBl. Qed.

Lemma dotpZl c u v : dotp (c *: u) v = c * dotp u v.
Proof. by rewrite !dotpE mulr_sumr; apply: eq_bigr => i _; rewrite !mxE mulrA. Qed.

Lemma dotpBr u v1 v2 : dotp u (v1 - v2) = dotp u v1 - dotp u v2.
Proof. by rewrite dotpC dotpBl ![dotp _ u]dotpC. Qed.

Lemma dotpZr c u v : dotp u (c *: v) = c * dotp u v.
Proof. by rewrite dotpC dotpZl dotpC. Qed.

Lemma dotp_delta u (p : 'I_n) : dotp u (delta_mx 0 p) = u 0 p.
Proof.
rewrite dotpE (bigD1 p) //= mxE !eqxx mulr1 big1 ?addr0 // => i Hi.
by rewrite mxE eqxx (negbTE Hi) mulr0.
Qed.

Lemma qf_dotp (x : 'rV[R]_n) (B : 'M[R]_n) : qf x B = dotp (x *m B) x.
Proof. by []. Qed.

(* one Schur-complement step is a change of variable in the quadratic form *)
Lemma schur_step (B : 'M[R]_n) (p : 'I_n) (x : 'rV[R]_n) :
  B^T = B -> B p p != 0 ->
  let b := row p B in
  qf x (B - (B p p)^-1 *: (b^T *m b))
  = qf (x - ((B p p)^-1 * dotp x b) *: delta_mx 0 p) B.
Proof.
move=> Hsym Hb b.
set beta := B p p in Hb *; set c := dotp x b; set e := delta_mx 0 p.
have HeB : e *m B = b by rewrite /e /b rowE.
have HxBe : dotp (x *m B) e = c.
  rewrite dotp_delta /c dotpE mxE; apply: eq_bigr => i _.
  by rewrite /b mxE -[B p i]/(B p i) -{1}Hsym mxE.
have Hbe : dotp b e = beta by rewrite dotp_delta /b mxE.
rewrite !qf_dotp mulmxBr mulmxBl -scalemxAr -scalemxAl HeB.
rewrite !dotpBl !dotpBr !dotpZl !dotpZr HxBe Hbe [dotp b x]dotpC -/c.
have -> : dotp (x *m (b^T *m b)) x = c * c.
  rewrite mulmxA /dotp -mulmxA.
  have -> : x *m b^T = c%:M by rewrite /c /dotp; apply/matrixP => i j; rewrite !ord1 [RHS]mxE eqxx mulr1n.
  have -> : b *m x^T = c%:M.
    by rewrite /c dotpC /dotp; apply/matrixP => i j; rewrite !ord1 [RHS]mxE eqxx mulr1n.
  by rewrite -scalar_mxM mxE eqxx mulr1n.
by field.
Qed.

Lemma schur_step_psd (B : 'M[R]_n) (p : 'I_n) :
  B^T = B -> 0 < B p p -> (forall x, 0 <= qf x B) ->
  forall x, 0 <= qf x (B - (B p p)^-1 *: ((row p B)^T *m row p B)).
Proof. by move=> Hs Hp HB x; rewrite schur_step ?gt_eqF. Qed.

End Dot.

Section ResidPSD.
Variable R : rcfType.
Variable ln : R -> R.
Notation RA := (RA ln).
Variables (n max_iter : nat) (K : mat R) (orig : R).
Notation a := (get RA K).
Hypothesis Hsym : forall i j, a i j = a j i.

(* the residual K - L_k^T L_k over the first k rows of the factor held in state s *)
Definition Bmx (s : pc_state R) (k : nat) : 'M[R]_n := \matrix_(i < n, j < n) (a i j - G ln s k i j).

Lemma Bmx_sym s k : (Bmx s k)^T = Bmx s k.
Proof. by apply/matrixP => i j; rewrite !mxE Hsym G_sym. Qed.

Section OneStep.
Variables (k : nat) (s : pc_state R).
Hypothesis HI : Inv ln n max_iter K k s.
Hypothesis Hkn : (k < n)%N.
Hypothesis Hkm : (k < max_iter)%N.
Hypothesis Hpos : 0 < pc_pivot_value RA k s.

Let s' := pc_step RA n K orig k s.
Let p := pivot ln k s.
Let beta := pc_pivot_value RA k s.

Lemma betaE : beta = a p p - G ln s k p p.
Proof.
rewrite /beta (pivot_valueE HI Hkn Hkm) (inv_diag HI) //.
- exact: (pivot_lt HI Hkn Hkm).
- exact: (pivot_notin HI Hkn Hkm).
Qed.

(* the new row of the factor is the pivot row of the residual divided by sqrt(pivot) — on ALL columns *)
Lemma new_row i : (i < n)%N -> Lr ln s' k i = (a p i - G ln s k p i) / Num.sqrt beta.
Proof.
move=> Hi; have [_ _ _ HLr' _] := step_spec orig HI Hkn Hkm.
rewrite /s' HLr' eqxx (mem_tail HI Hkn Hkm) Hi /= -/p -/beta.
case Hit: (i \in take k (pcperm s)) => /=.
- (* i was pivoted before: both sides vanish *)
  have Hip : (i == p) = false.
    by apply/negP => /eqP Hip; move: (pivot_notin HI Hkn Hkm); rewrite -/p -Hip Hit.
  rewrite Hip.
  have [Hsz _ _] := inv_perm HI.
  move/(nthP 0%N): Hit => [j]; rewrite size_take Hsz Hkn => Hj; rewrite nth_take // => Hnth.
  have := vanish_full Hsym HI Hj (ltnW Hkn) (pivot_lt HI Hkn Hkm).
  by rewrite Hnth -/p G_sym Hsym => ->; rewrite subrr mul0r.
- case: (i =P p) => [->|_] /=.
    have Hs : Num.sqrt beta != 0 by rewrite gt_eqF // sqrtr_gt0.
    by rewrite -betaE; apply: (mulIf Hs); rewrite divfK // -expr2 sqr_sqrtr // ltW.
  by rewrite /newf -/p -/beta.
Qed.

Lemma G_step i j : G ln s' k.+1 i j = G ln s k i j + Lr ln s' k i * Lr ln s' k j.
Proof.
have [_ _ _ HLr' _] := step_spec orig HI Hkn Hkm.
rewrite G_recr; congr (_ + _).
by apply: eq_bigr => l _; rewrite /s' !HLr' ltn_eqF.
Qed.

Lemma step_resid (po : 'I_n) : nat_of_ord po = p ->
  Bmx s' k.+1 = Bmx s k - (Bmx s k po po)^-1 *: ((row po (Bmx s k))^T *m row po (Bmx s k)).
Proof.
move=> Hpo; apply/matrixP => i j.
have Hsq : Num.sqrt beta != 0 by rewrite gt_eqF // sqrtr_gt0.
rewrite [LHS]mxE G_step !new_row // !mxE big_ord1 !mxE Hpo -betaE.
have Hb2 : beta = Num.sqrt beta ^+ 2 by rewrite sqr_sqrtr // ltW.
rewrite [in RHS]Hb2.
by field.
Qed.

Lemma step_psd : (forall x : 'rV_n, 0 <= qf x (Bmx s k)) -> forall x : 'rV_n, 0 <= qf x (Bmx s' k.+1).
Proof.
move=> HB x.
pose po := Ordinal (pivot_lt HI Hkn Hkm).
have Hpo : nat_of_ord po = p by [].
rewrite (step_resid Hpo); apply: schur_step_psd => //; first exact: Bmx_sym.
by rewrite mxE Hpo -betaE.
Qed.

End OneStep.

Lemma Bmx0 : Bmx (s0 ln n max_iter K) 0 = \matrix_(i < n, j < n) a i j.
Proof. by apply/matrixP => i j; rewrite !mxE /G big_ord0 subr0. Qed.

(* K PSD  ==>  every residual along the run is PSD *)
Theorem run_psd k : (k <= n)%N -> (k <= max_iter)%N -> pivots_pos ln n max_iter K orig k ->
  (forall x : 'rV_n, 0 <= qf x (\matrix_(i < n, j < n) a i j)) ->
  forall x : 'rV_n, 0 <= qf x (Bmx (run ln n max_iter K orig k) k).
Proof.
move=> Hn Hm Hpos HK; elim: k Hn Hm Hpos => [|k IH] Hn Hm Hpos; first by rewrite Bmx0.
have Hpos' : pivots_pos ln n max_iter K orig k by apply: pivots_pos_le Hpos.
rewrite run_S; apply: step_psd => //.
- by apply: run_inv => //; lia.
- exact: Hpos.
- by apply: IH => //; lia.
Qed.

End ResidPSD.

Section MainPSD.
Variable R : rcfType.
Variable ln : R -> R.
Notation RA := (RA ln).
Variables (n max_iter : nat) (K : mat R).
Hypothesis Hsym : symmetric_mat ln K.

(* K (read as an n x n matrix) is positive semi-definite *)
Definition psd_mat : Prop := forall x : 'rV[R]_n, 0 <= qf x (\matrix_(i < n, j < n) get RA K i j).

Lemma qf_delta (M : 'M[R]_n) (i : 'I_n) : qf (delta_mx 0 i) M = M i i.
Proof. by rewrite qf_dotp dotp_delta -rowE mxE. Qed.

Section Run.
Variable r : nat.
Hypothesis Hrn : (r <= n)%N.
Hypothesis Hrm : (r <= max_iter)%N.
Hypothesis Hpos : pivots_positive ln n max_iter K r.
Hypothesis HK : psd_mat.

(* A - L_k L_k^T is PSD for every prefix L_k of the returned factor *)
Theorem residual_psd k : (k <= r)%N ->
  forall x : 'rV[R]_n, 0 <= qf x (\matrix_(i < n, j < n) resid ln n max_iter K r k i j).
Proof.
move=> Hk x.
have -> : \matrix_(i < n, j < n) resid ln n max_iter K r k i j
        = @Bmx R ln n K (member_run ln n max_iter K k) k.
  by apply/matrixP => i j; rewrite !mxE /resid (gramE Hsym Hrn Hrm Hpos).
apply: (@run_psd R ln n max_iter K _ Hsym) => //; try lia.
by move=> j Hj; apply: Hpos; lia.
Qed.

Corollary residual_diag_ge0 k x : (k <= r)%N -> (x < n)%N -> 0 <= resid ln n max_iter K r k x x.
Proof.
move=> Hk Hx; have := residual_psd Hk (delta_mx 0 (Ordinal Hx)).
by rewrite qf_delta mxE.
Qed.

(* with K PSD the quantity compared with error_tol is trace(K - L L^T) / max_i K_ii *)
Corollary error_is_trace : (0 < r)%N -> (r < n)%N ->
  pcerr (member_run ln n max_iter K r)
  = (\sum_(x < n) resid ln n max_iter K r r x x) / (pc_init RA n max_iter K).1.
Proof.
move=> H0 Hn; rewrite (error_is_residual_trace Hsym Hrm Hpos H0 Hn); congr (_ / _).
by apply: eq_bigr => x _; rewrite ger0_norm // residual_diag_ge0.
Qed.

End Run.
End MainPSD.
