(* C10 — the statements of Property.v about pivoted Cholesky, phrased on what the call returns:
   for one batch member with matrix K, after r loop bodies (r = the common rank the batch ran). *)
From mathcomp Require Import all_ssreflect all_algebra.
From mathcomp Require Import ring zify.
Require Import C10.Model C10.ProofsBase C10.ProofsPC C10.ProofsLoop.
Set Implicit Arguments.
Unset Strict Implicit.
Unset Printing Implicit Defensive.
Import Order.Theory GRing.Theory Num.Theory.
Local Open Scope ring_scope.

Section Orig.
Variable R : rcfType.
Variable ln : R -> R.
Notation RA := (RA ln).
Variables (n max_iter : nat) (K : mat R).

Lemma orig_is_max_diag : (0 < n)%N ->
  (exists2 x, (x < n)%N & (pc_init RA n max_iter K).1 = get RA K x x) /\ forall x, (x < n)%N -> get RA K x x <= (pc_init RA n max_iter K).1.
Proof.
move=> Hn; rewrite /pc_init /=.
set d := mkseq _ n.
have Hne : d != [::] by rewrite -size_eq0 size_mkseq; lia.
have [/(nthP 0) [x]] := maxl_ok ln Hne; rewrite size_mkseq => Hx Hnth Hle; split.
  by exists x => //; rewrite -Hnth nth_mkseq.
move=> y Hy; apply: Hle; apply/(nthP 0); exists y; rewrite ?size_mkseq //.
by rewrite nth_mkseq.
Qed.

End Orig.

Section Main.
Variable R : rcfType.
Variable ln : R -> R.
Notation RA := (RA ln).
Variables (n max_iter : nat) (K : mat R).
Notation a := (get RA K).

Definition symmetric_mat : Prop := forall i j, a i j = a j i.
Hypothesis Hsym : symmetric_mat.

Notation st := (member_run ln n max_iter K).
Notation orig := (pc_init RA n max_iter K).1.

(* the factor returned after r bodies: column l of the result = row l of the state *)
Definition Lcol (r l x : nat) : R := get RA (pcL (st r)) l x.
Definition pperm (r : nat) : seq nat := pcperm (st r).
(* (L_k L_k^T)[x,y] for the first k columns of the factor, and the residual A - L_k L_k^T *)
Definition gram (r k x y : nat) : R := \sum_(l < k) Lcol r l x * Lcol r l y.
Definition resid (r k x y : nat) : R := a x y - gram r k x y.

(* the visible guard: every pivot met so far is positive *)
Definition pivots_positive (r : nat) : Prop :=
  forall j, (j < r)%N -> 0 < pc_pivot_value RA j (st j).

Lemma result_L_get r i j : (i < n)%N -> (j < r)%N ->
  get RA (result_L RA n r (st r)) i j = Lcol r j i.
Proof. by move=> Hi Hj; rewrite /result_L /get /mtab /= nth_mkseq // nth_mkseq. Qed.

Section Run.
Variable r : nat.
Hypothesis Hrn : (r <= n)%N.
Hypothesis Hrm : (r <= max_iter)%N.
Hypothesis Hpos : pivots_positive r.

Let HI : Inv ln n max_iter K r (st r).
Proof. exact: (@run_inv R ln n max_iter K orig Hsym r Hrn Hrm Hpos). Qed.

Lemma perm_is_permutation : perm_eq (pperm r) (iota 0 n).
Proof. exact: is_perm_iota (inv_perm HI). Qed.

Lemma gramE k x y : (k <= r)%N -> gram r k x y = G ln (st k) k x y.
Proof. by move=> Hk; rewrite /gram -/(G ln (st r) k x y); apply: (@G_stable R ln n max_iter K orig). Qed.

Lemma diag_invariant x : (x < n)%N -> x \notin take r (pperm r) ->
  vget RA (pcd (st r)) x = resid r r x x.
Proof. by move=> Hx Hnt; rewrite (inv_diag HI). Qed.

Lemma rows_vanish j x : (j < r)%N -> (x < n)%N ->
  resid r r (nth 0%N (pperm r) j) x = 0 /\ resid r r x (nth 0%N (pperm r) j) = 0.
Proof.
move=> Hj Hx; have H := vanish_full Hsym HI Hj Hrn Hx.
split; rewrite /resid /gram -/(G ln (st r) r _ _); first by rewrite H subrr.
by rewrite G_sym Hsym H subrr.
Qed.

Lemma exact_at_full_rank x y : r = n -> (x < n)%N -> (y < n)%N -> resid r r x y = 0.
Proof.
by move=> Hr Hx Hy; rewrite /resid /gram -/(G ln (st r) r _ _) (exact_full_rank Hsym HI) ?subrr.
Qed.

(* body j chose, among the indices not pivoted before, the FIRST position (in the permutation as
   it stood before body j) holding the LARGEST residual diagonal entry *)
Lemma pivot_is_argmax j : (j < r)%N ->
  let p := nth 0%N (pperm r) j in
  [/\ (p < n)%N, p \notin take j (pperm r),
      forall x, (x < n)%N -> x \notin take j (pperm r) -> resid r j x x <= resid r j p p &
      exists t, [/\ (j <= t < n)%N, nth 0%N (pperm j) t = p &
                 forall u, (j <= u < t)%N ->
                   resid r j (nth 0%N (pperm j) u) (nth 0%N (pperm j) u) < resid r j p p]].
Proof.
move=> Hj p.
have Hjn : (j < n)%N by lia. have Hjm : (j < max_iter)%N by lia.
have Hposj : pivots_pos ln n max_iter K orig j by move=> i Hi; apply: Hpos; lia.
have HIj : Inv ln n max_iter K j (st j) by apply: run_inv => //; lia.
have Hpj : 0 < pc_pivot_value RA j (st j) by apply: Hpos.
have Hp : p = pivot ln j (st j) by apply: (@pivot_stable R ln n max_iter K orig).
have [_ Htk] := @run_stable R ln n max_iter K orig Hsym j r (ltnW Hj) Hrn Hrm Hpos.
have Htake : take j (pperm r) = take j (pperm j) by apply: Htk.
have [Hin Hle Hfirst] := step_argmax HIj Hjn Hjm Hpj.
have Hpermj := inv_perm HIj; have [Hszj Hunj Hallj] := Hpermj.
have Hd x : (x < n)%N -> x \notin take j (pperm j) -> vget RA (pcd (st j)) x = resid r j x x.
  by move=> Hx Hnt; rewrite (inv_diag HIj) // /resid gramE // ltnW.
have Hmem x : (x \in drop j (pperm j)) = (x < n)%N && (x \notin take j (pperm j)).
  by rewrite mem_drop_uniq // (is_perm_mem _ Hpermj).
have [Hpn Hpnt] : (p < n)%N /\ p \notin take j (pperm j).
  by move: Hin; rewrite -Hp Hmem => /andP[].
split => //; first by rewrite Htake.
- move=> x Hx; rewrite Htake => Hnt.
  by rewrite -Hd // -(Hd p) // Hp; apply: Hle; rewrite Hmem Hx.
- exists (piv_pos ln j (st j)); split.
  + by rewrite (piv_pos_ge HIj Hjn Hjm) (piv_pos_lt HIj Hjn Hjm).
  + by rewrite Hp pivotE.
  + move=> u Hu; have := Hfirst u Hu; rewrite -Hp.
    have Hun' : (u < n)%N by move: (piv_pos_lt HIj Hjn Hjm); lia.
    have Hux : (nth 0%N (pperm j) u < n)%N by apply: (all_nthP 0%N Hallj); rewrite Hszj.
    have Hunt : nth 0%N (pperm j) u \notin take j (pperm j).
      by apply: (nth_notin_take HIj); lia.
    by rewrite Hd // Hd.
Qed.

(* the residual trace never increases from one column to the next *)
Lemma trace_monotone k :
  \sum_(x < n) resid r k.+1 x x <= \sum_(x < n) resid r k x x.
Proof. exact: (trace_mono ln n K (st r) k). Qed.

(* what the early-stopping test looks at: errors[b] is the absolute trace of the residual diagonal
   divided by orig_error, the largest diagonal entry of K *)
Lemma error_is_residual_trace : (0 < r)%N -> (r < n)%N ->
  pcerr (st r) = (\sum_(x < n) `|resid r r x x|) / orig.
Proof.
case: r Hrm Hpos => [//|k] Hkm Hp _ Hkn.
by rewrite /member_run (run_err Hsym Hkn).
Qed.

End Run.

End Main.
