(* C10 — bridge from the list model of AddedDiagLinearOperator._preconditioner (Model.v) to the
   matrix algebra of ProofsPrecondMx.v: what the closure / the reported log-determinant / the returned
   operator of the MODEL are, for any QR routine meeting the specification on the matrix it is given. *)
From mathcomp Require Import all_ssreflect all_algebra.
From mathcomp Require Import ring zify.
Require Import C10.Model C10.ProofsBase C10.ProofsLoop C10.ProofsPrecondMx.
Set Implicit Arguments.
Unset Strict Implicit.
Unset Printing Implicit Defensive.
Import Order.Theory GRing.Theory Num.Theory.
Local Open Scope ring_scope.

Section Bridge.
Variable R : rcfType.
Variable ln : R -> R.
Notation RA := (RA ln).

Definition mx_of (m n : nat) (M : mat R) : 'M[R]_(m,n) := \matrix_(i < m, j < n) get RA M i j.
Definition rv_of (n : nat) (d : seq R) : 'rV[R]_n := \row_(i < n) vget RA d i.

Lemma get_mtab m n f i j : (i < m)%N -> (j < n)%N -> get RA (mtab m n f) i j = f i j.
Proof. by move=> Hi Hj; rewrite /get /mtab nth_mkseq // nth_mkseq. Qed.

Lemma mx_mtab m n f : mx_of m n (mtab m n f) = \matrix_(i < m, j < n) f i j.
Proof. by apply/matrixP => i j; rewrite !mxE get_mtab. Qed.

Lemma mx_mmul m k n X Y : mx_of m n (mmul RA m k n X Y) = mx_of m k X *m mx_of k n Y.
Proof.
apply/matrixP => i j; rewrite !mxE get_mtab // sumn_E.
by apply: eq_bigr => l _; rewrite !mxE.
Qed.

Lemma mx_mtr m n X : mx_of n m (mtr RA m n X) = (mx_of m n X)^T.
Proof. by apply/matrixP => i j; rewrite !mxE get_mtab. Qed.

Lemma mx_eye k : mx_of k k (eye RA k) = 1%:M.
Proof.
apply/matrixP => i j; rewrite !mxE get_mtab //=.
by rewrite -val_eqE /=; case: eqP.
Qed.

Lemma get_cat n (X Y : mat R) i j : size X = n ->
  get RA (X ++ Y) i j = if (i < n)%N then get RA X i j else get RA Y (i - n) j.
Proof. by move=> Hs; rewrite /get nth_cat Hs; case: ifP. Qed.

Lemma get_take n (Q : mat R) i j : (i < n)%N -> get RA (take n Q) i j = get RA Q i j.
Proof. by move=> Hi; rewrite /get nth_take. Qed.

Lemma mx_cat n k (X Y : mat R) : size X = n ->
  mx_of (n + k) k (X ++ Y) = col_mx (mx_of n k X) (mx_of k k Y).
Proof.
move=> Hs; apply/matrixP => i j; rewrite !mxE (get_cat _ _ _ Hs).
case: splitP => i' Hi; rewrite mxE Hi //.
by rewrite addKn.
Qed.

Lemma mx_take n k m (Q : mat R) :
  mx_of n m (take n Q) = usubmx (mx_of (n + k) m Q).
Proof. by apply/matrixP => i j; rewrite !mxE get_take. Qed.

Section WithQR.
Variable qr : nat -> nat -> mat R -> mat R * mat R.

(* the specification of torch.linalg.qr (reduced mode) on an r x k input *)
Definition qr_spec (r k : nat) (M : mat R) : Prop :=
  let Q := mx_of r k (qr r k M).1 in
  let Rm := mx_of k k (qr r k M).2 in
  [/\ Q^T *m Q = 1%:M, Q *m Rm = mx_of r k M & forall i j : 'I_k, (j < i)%N -> Rm i j = 0].

Variables (n k : nat) (L : mat R) (d : seq R).
Hypothesis HLsize : size L = n.
Notation Lm := (mx_of n k L).

(* the matrices the two closures apply (ProofsPrecondMx: sigma^-1 (I - Q1 Q1^T), D^-1 - q q^T) *)
Definition closure_mx_const : 'M[R]_n :=
  Pinv_const (mx_of (n + k) k (qr (n + k) k (qr_input_const RA k L d)).1) (vget RA d 0).
Definition closure_mx_nonconst : 'M[R]_n :=
  Pinv_nonconst (mx_of (n + k) k (qr (n + k) k (qr_input_nonconst RA n k L d)).1) (rv_of n d).

(* ---------------------------------------------------------------- constant diagonal *)
Section ConstBranch.
Let s := vget RA d 0.
Let M := qr_input_const RA k L d.
Hypothesis Hs : 0 < s.
Hypothesis Hqr : qr_spec (n + k) k M.

Let Q := mx_of (n + k) k (qr (n + k) k M).1.
Let Rm := mx_of k k (qr (n + k) k M).2.

Lemma const_M : mx_of (n + k) k M = col_mx Lm (Num.sqrt s *: 1%:M).
Proof.
rewrite /M /qr_input_const mx_cat // mx_mtab; congr col_mx.
apply/matrixP => i j; rewrite !mxE get_mtab //=.
by rewrite -val_eqE /=; case: eqP => _; rewrite ?mulr1n ?mulr0n ?mulr1 ?mulr0.
Qed.

Lemma const_spec : [/\ Q^T *m Q = 1%:M, Q *m Rm = col_mx Lm (Num.sqrt s *: 1%:M) &
                      forall i j : 'I_k, (j < i)%N -> Rm i j = 0].
Proof. by case: Hqr => H1 H2 H3; split => //; rewrite -const_M. Qed.

Lemma const_closureE c (T : mat R) :
  mx_of n c (precond_closure RA true n k c (init_cache_const RA qr n k L d) T)
  = closure_mx_const *m mx_of n c T.
Proof.
rewrite /init_cache_const -/M -/s.
have -> : qr (n + k) k M = ((qr (n + k) k M).1, (qr (n + k) k M).2) by case: (qr _ _ _).
rewrite /precond_closure /=.
apply/matrixP => i j; rewrite mxE get_mtab //.
have -> : get RA (mmul RA n k c (take n (qr (n + k) k M).1)
               (mmul RA k n c (mtr RA n k (take n (qr (n + k) k M).1)) T)) i j
        = (usubmx Q *m ((usubmx Q)^T *m mx_of n c T)) i j.
  by rewrite -(mx_take n k) -mx_mtr -!mx_mmul mxE.
rewrite /closure_mx_const -/M -/Q /Pinv_const -scalemxAl mulmxBl mul1mx -mulmxA !mxE /=.
by rewrite /vget /= div1r.
Qed.

(* the closure solves (L L^T + s I) X = T for every right-hand side T *)
Theorem model_precond_const_inverse c (T : mat R) :
  (Lm *m Lm^T + s%:M)
  *m mx_of n c (precond_closure RA true n k c (init_cache_const RA qr n k L d) T) = mx_of n c T.
Proof.
have [H1 H2 _] := const_spec.
by rewrite const_closureE mulmxA (precond_const_inverse Hs H1 H2) mul1mx.
Qed.

(* ... and the matrix it applies is symmetric positive definite *)
Theorem model_precond_const_spd :
  closure_mx_const^T = closure_mx_const /\ forall x : 'rV_n, x != 0 -> 0 < qf x closure_mx_const.
Proof. have [H1 H2 _] := const_spec. exact: (precond_const_spd Hs H1 H2). Qed.

Theorem model_logdet_const_prod : (k <= n)%N ->
  \det (Lm *m Lm^T + s%:M) = s ^+ (n - k) * (\prod_i Rm i i) ^+ 2.
Proof. move=> Hkn; have [H1 H2 H3] := const_spec. exact: (precond_logdet_const_prod Hs H1 H2 H3 Hkn). Qed.

Lemma const_Rdiag_neq0 i : Rm i i != 0.
Proof.
have [H1 H2 H3] := const_spec.
have := const_R_unit Hs H1 H2; rewrite unitmxE (det_upper_trig H3) unitfE.
by move/prodf_neq0; apply.
Qed.

End ConstBranch.

(* ---------------------------------------------------------------- non-constant diagonal *)
Section NonConstBranch.
Let M := qr_input_nonconst RA n k L d.
Hypothesis Hd : forall i, (i < n)%N -> 0 < vget RA d i.
Hypothesis Hqr : qr_spec (n + k) k M.

Let Q := mx_of (n + k) k (qr (n + k) k M).1.
Let Rm := mx_of k k (qr (n + k) k M).2.
Let w := rv_of n d.

Lemma Hw i : 0 < w 0 i.
Proof. by rewrite mxE; apply: Hd. Qed.

Let Wi : 'M[R]_n := Wih w.

Lemma nonconst_M : mx_of (n + k) k M = col_mx (Wi *m Lm) 1%:M.
Proof.
rewrite /M /qr_input_nonconst mx_cat ?size_mkseq // mx_eye mx_mtab; congr col_mx.
apply/matrixP => i j; rewrite WihE !mxE /=.
by rewrite mulrC.
Qed.

Lemma nonconst_spec : [/\ Q^T *m Q = 1%:M,
    Q *m Rm = col_mx (Wih w *m Lm) 1%:M &
    forall i j : 'I_k, (j < i)%N -> Rm i j = 0].
Proof. by case: Hqr => H1 H2 H3; split => //; rewrite -/Wi -nonconst_M. Qed.

Lemma nonconst_closureE c (T : mat R) :
  mx_of n c (precond_closure RA false n k c (init_cache_nonconst RA qr n k L d) T)
  = closure_mx_nonconst *m mx_of n c T.
Proof.
rewrite /init_cache_nonconst -/M.
have -> : qr (n + k) k M = ((qr (n + k) k M).1, (qr (n + k) k M).2) by case: (qr _ _ _).
rewrite /precond_closure /=.
set qm := mtab n k _.
have Hq : mx_of n k qm = Wi *m usubmx Q.
  rewrite /qm mx_mtab; apply/matrixP => i j; rewrite WihE !mxE /=.
  by rewrite mulrC.
apply/matrixP => i j; rewrite mxE get_mtab //.
have -> : get RA (mmul RA n k c qm (mmul RA k n c (mtr RA n k qm) T)) i j
        = ((Wi *m usubmx Q) *m ((Wi *m usubmx Q)^T *m mx_of n c T)) i j.
  by rewrite -Hq -mx_mtr -!mx_mmul mxE.
rewrite /closure_mx_nonconst -/M -/Q -/w /Pinv_nonconst mulmxBl [RHS]mxE [X in _ = _ + X]mxE; congr (_ - _).
  by rewrite mul_diag_mx !mxE /= mulrC.
by rewrite !mulmxA.
Qed.

Theorem model_precond_nonconst_inverse c (T : mat R) :
  (Lm *m Lm^T + diag_mx w)
  *m mx_of n c (precond_closure RA false n k c (init_cache_nonconst RA qr n k L d) T) = mx_of n c T.
Proof.
have [H1 H2 _] := nonconst_spec.
by rewrite nonconst_closureE mulmxA (precond_nonconst_inverse Hw H1 H2) mul1mx.
Qed.

Theorem model_precond_nonconst_spd :
  closure_mx_nonconst^T = closure_mx_nonconst /\
  forall x : 'rV_n, x != 0 -> 0 < qf x closure_mx_nonconst.
Proof. have [H1 H2 _] := nonconst_spec. exact: (precond_nonconst_spd Hw H1 H2). Qed.

Theorem model_logdet_nonconst_prod : (k <= n)%N ->
  \det (Lm *m Lm^T + diag_mx w) = (\prod_i w 0 i) * (\prod_i Rm i i) ^+ 2.
Proof. move=> Hkn; have [H1 H2 H3] := nonconst_spec. exact: (precond_logdet_nonconst_prod Hw H1 H2 H3 Hkn). Qed.

Lemma nonconst_Rdiag_neq0 i : Rm i i != 0.
Proof.
have [H1 H2 H3] := nonconst_spec.
have HQR1 := HQR1 H2.
have := const_R_unit ltr01 H1 HQR1; rewrite unitmxE (det_upper_trig H3) unitfE.
by move/prodf_neq0; apply.
Qed.

End NonConstBranch.

(* ---------------------------------------------------------------- the returned operator *)
Theorem model_precond_lt_denotes :
  mx_of n n (precond_lt_dense RA n k L d) = Lm *m Lm^T + diag_mx (rv_of n d).
Proof.
apply/matrixP => i j; rewrite /precond_lt_dense mxE get_mtab //.
have -> : get RA (mmul RA n k n L (mtr RA n k L)) i j = (Lm *m Lm^T) i j.
  by rewrite -mx_mtr -mx_mmul mxE.
rewrite [in RHS]mxE; congr (_ + _); rewrite !mxE /= -val_eqE /=.
by case: eqP => _; rewrite ?mulr1n ?mulr0n.
Qed.

End WithQR.

(* ---------------------------------------------------------------- logarithms *)
Section Log.
Hypothesis ln_mul : forall x y : R, 0 < x -> 0 < y -> ln (x * y) = ln x + ln y.

Lemma ln1 : ln 1 = 0.
Proof. by have H := ln_mul ltr01 ltr01; rewrite mulr1 in H; apply: (addrI (ln 1)); rewrite -H addr0. Qed.

Lemma ln_inv x : 0 < x -> ln (x^-1) = - ln x.
Proof.
move=> Hx; have Hi : 0 < x^-1 by rewrite invr_gt0.
by apply: (addrI (ln x)); rewrite -ln_mul // mulfV ?ln1 ?subrr // gt_eqF.
Qed.

Lemma ln_exp x m : 0 < x -> ln (x ^+ m) = m%:R * ln x.
Proof.
move=> Hx; elim: m => [|m IH]; first by rewrite expr0 ln1 mul0r.
by rewrite exprS ln_mul ?exprn_gt0 // IH -[in RHS]add1n natrD mulrDl mul1r.
Qed.

Lemma ln_prod (I : finType) (f : I -> R) : (forall i, 0 < f i) ->
  0 < \prod_i f i /\ ln (\prod_i f i) = \sum_i ln (f i).
Proof.
move=> Hf; elim/big_rec2: _ => [|i y1 y2 _ [Hpos Hln]]; first by split; [exact: ltr01 | exact: ln1].
by split; [apply: mulr_gt0 | rewrite ln_mul // Hln].
Qed.

Lemma ln_sq_prod_abs (m : nat) (f : 'I_m -> R) : (forall i, f i != 0) ->
  ln ((\prod_i f i) ^+ 2) = (\sum_i ln `|f i|) * 2%:R.
Proof.
move=> Hf.
have Hpos i : 0 < `|f i| by rewrite normr_gt0.
have [Hp Hl] := ln_prod Hpos.
have -> : (\prod_i f i) ^+ 2 = (\prod_i `|f i|) ^+ 2.
  by rewrite -prodrXl -[RHS]prodrXl; apply: eq_bigr => i _; rewrite real_normK // num_real.
by rewrite ln_exp // Hl mulrC.
Qed.

Variable qr : nat -> nat -> mat R -> mat R * mat R.
Variables (n k : nat) (L : mat R) (d : seq R).
Hypothesis HLsize : size L = n.
Hypothesis Hkn : (k <= n)%N.

(* the reported log-determinant is log|L L^T + s I| *)
Theorem model_logdet_const :
  0 < vget RA d 0 ->
  qr_spec qr (n + k) k (qr_input_const RA k L d) ->
  c_logdet (init_cache_const RA qr n k L d)
  = ln (\det (mx_of n k L *m (mx_of n k L)^T + (vget RA d 0)%:M)).
Proof.
move=> Hs Hqr.
rewrite (model_logdet_const_prod HLsize Hs Hqr Hkn).
set M := qr_input_const _ _ _ _; set Rm := mx_of k k _.
have Hne i : Rm i i != 0 by apply: (const_Rdiag_neq0 HLsize Hs Hqr).
have Hsq : 0 < (\prod_i Rm i i) ^+ 2.
  by rewrite exprn_even_gt0 //=; apply/prodf_neq0 => i _.
rewrite ln_mul //; last by rewrite exprn_gt0.
rewrite [ln (_ ^+ (n - k))]ln_exp // ln_sq_prod_abs // addrC.
rewrite /init_cache_const -/M.
have -> : qr (n + k) k M = ((qr (n + k) k M).1, (qr (n + k) k M).2) by case: (qr _ _ _).
rewrite /= /diag_R_logsum sumn_E ofnat_E /a2 /=; congr (_ * _ + _).
by apply: eq_bigr => i _; rewrite /Rm mxE.
Qed.

Theorem model_logdet_nonconst :
  (forall i, (i < n)%N -> 0 < vget RA d i) ->
  qr_spec qr (n + k) k (qr_input_nonconst RA n k L d) ->
  c_logdet (init_cache_nonconst RA qr n k L d)
  = ln (\det (mx_of n k L *m (mx_of n k L)^T + diag_mx (rv_of n d))).
Proof.
move=> Hd Hqr.
rewrite (model_logdet_nonconst_prod Hd Hqr Hkn).
set M := qr_input_nonconst _ _ _ _ _; set Rm := mx_of k k _.
have Hne i : Rm i i != 0 by apply: (nonconst_Rdiag_neq0 Hqr).
have Hsq : 0 < (\prod_i Rm i i) ^+ 2.
  by rewrite exprn_even_gt0 //=; apply/prodf_neq0 => i _.
have Hw i : 0 < (rv_of n d) 0 i by rewrite mxE; apply: Hd.
have [Hp Hl] := ln_prod Hw.
rewrite ln_mul // Hl ln_sq_prod_abs // addrC.
rewrite /init_cache_nonconst -/M.
have -> : qr (n + k) k M = ((qr (n + k) k M).1, (qr (n + k) k M).2) by case: (qr _ _ _).
rewrite /= /diag_R_logsum !sumn_E /a2 /=; congr (_ * _ + _).
  by apply: eq_bigr => i _; rewrite /Rm mxE.
rewrite -sumrN; apply: eq_bigr => i _.
by rewrite div1r ln_inv ?opprK ?mxE //; apply: Hd.
Qed.

End Log.

(* ---------------------------------------------------------------- fall-backs *)
Lemma mat_has_nan_false (M : mat R) : mat_has_nan RA M = false.
Proof.
rewrite /mat_has_nan; elim: M => //= r M ->; rewrite orbF.
by elim: r.
Qed.

(* over exact arithmetic "no preconditioner" is returned exactly for the two settings fall-backs
   (max_preconditioner_size = 0, n < min_preconditioning_size) — and for the empty matrix *)
Theorem model_precond_fallback (qr : nat -> nat -> mat R -> mat R * mat R) st n Ks Ds :
  preconditioner RA qr st n Ks Ds = None <->
  (st_max_precond_size st == 0%N) || (n < st_min_precond_size st)%N || (n == 0%N).
Proof.
rewrite /preconditioner; case: ifP => [//|Hc] /=.
case E: (pivoted_cholesky _ _ _ _ _ _) => [[k res]|].
- have -> : has (mat_has_nan RA) [seq i.1 | i <- res] = false.
    by elim: res {E} => //= x res ->; rewrite mat_has_nan_false.
  split => //; move/eqP => Hn0.
  have : pivoted_cholesky RA st n (st_max_precond_size st) None Ks = None.
    by apply/pivoted_cholesky_none; rewrite Hn0 minn0.
  by rewrite E.
- split => // _; move/pivoted_cholesky_none: E.
  by move: Hc; case: (st_max_precond_size st) => [//|m] /= _; rewrite /minn; case: ifP; lia.
Qed.

End Bridge.
