(* C11 — executable Gallina transcription of
     linear_operator/utils/minres.py                 (minres, _jit_minres_updates)
     linear_operator/utils/contour_integral_quad.py  (contour_integral_quad, given shifts / weights)
     linear_operator/functions/_sqrt_inv_matmul.py   (SqrtInvMatmul.forward, with and without lhs)
     linear_operator/operators/_linear_operator.py   (sqrt_inv_matmul; ciq_samples branch of
                                                      zero_mean_mvn_samples)

   Definitions only.  Generic over an arithmetic record [Arith F]; instantiated on PrimFloat
   (binary64) in Check.v for execution against the implementation and on an arbitrary real closed
   field / field in Proofs*.v for the theorems.

   Data layout.  A torch tensor of shape ( *batch, n, t ) is a list of C = |batch|*t COLUMNS (flat
   column index  b*t + j ), each column a list of n scalars.  A tensor of shape ( Q, *batch, 1, t )
   (everything _jit_minres_updates touches: cos/sin/radius/diag terms/scale) is a Q x C table
   [qc]; ( Q, *batch, n, t ) (solution, search vectors) is a Q x C x n table [qcols].  The shifts
   tensor ( Q, *shift_batch ) is passed with its shape and with its values already broadcast to the
   Q x C table (broadcasting is an index map done by the harness).  Reductions of the code that run
   over the whole tensor ( .mean() ) run over all Q*C entries, exactly as in the code.

   TWO transcriptions of the loop are given:
   * [minres_buf]  — every named tensor of the Python code is a field holding the CONTENTS of a
     physical buffer; the three-way name rotations `a_prev2, a_prev1, a_curr = a_prev1, a_curr, a_prev2`
     and the two-way swaps are modelled by a rotation index over a triple (pair) of physical buffers
     that never move (type [rot] / a parity bit), reads and writes go through [rd3]/[wr3] ([rd2]/[wr2]);
     every torch.empty buffer starts with an arbitrary content [junk].  This is the line-by-line
     model; it is the one executed against the implementation.
   * [minres]      — the same statements with the `_curr`/scratch buffers as let-bound locals (no
     buffers, no junk).  ProofsRefine.v proves  minres_buf junk = minres  for every junk, i.e.
     no stale or uninitialised buffer content is ever read and the rotations hand each role the right
     buffer.  The algebraic theorems are about [minres].

   torch primitives modelled by their mathematical meaning: elementwise mul/div/add/addcmul/sqrt_/
   clamp_min_/lt/masked_fill_, sum(-2), norm(2, dim=-2) = sqrt(sum of squares) (sequential summation
   order), mean = sum / count, clone/contiguous/expand_as/repeat/view (identity on values / index maps),
   squeeze/unsqueeze (shape flags), cat/split/narrow along the column dimension (list append / take /
   drop per batch member), `addcmul_(a, b, value=-1)` as  self - a*b  and `.mul_(-1)` as negation (both
   exact in IEEE arithmetic).  torch.jit.script-style helper _jit_minres_updates is the plain function.
   Line numbers refer to minres.py. *)
From mathcomp Require Import ssreflect ssrfun ssrbool eqtype ssrnat seq div.
Set Implicit Arguments.
Unset Strict Implicit.
Unset Printing Implicit Defensive.

Record Arith (F : Type) := MkArith {
  a0 : F; a1 : F;
  aadd : F -> F -> F; asub : F -> F -> F; amul : F -> F -> F; adiv : F -> F -> F;
  aopp : F -> F; asqrt : F -> F; aabs : F -> F;
  altb : F -> F -> bool; aleb : F -> F -> bool; aeqb : F -> F -> bool }.

(* ---------------------------------------------------------------------------------------- *)
(* rotating buffers: three physical buffers (allocation order), a rotation index, roles       *)
Inductive rot := R0 | R1 | R2.
Inductive role := Prev2 | Prev1 | Curr.
(* after k executions of  `p2, p1, cu = p1, cu, p2`  the NAME p2 denotes physical buffer k mod 3,
   p1 denotes (k+1) mod 3, cu denotes (k+2) mod 3 *)
Definition rnext (r : rot) : rot := match r with R0 => R1 | R1 => R2 | R2 => R0 end.
Definition slot (r : rot) (k : role) : rot :=
  match k with Prev2 => r | Prev1 => rnext r | Curr => rnext (rnext r) end.
Definition rd3 (X : Type) (r : rot) (k : role) (b : X * X * X) : X :=
  match slot r k with R0 => b.1.1 | R1 => b.1.2 | R2 => b.2 end.
Definition wr3 (X : Type) (r : rot) (k : role) (v : X) (b : X * X * X) : X * X * X :=
  match slot r k with R0 => (v, b.1.2, b.2) | R1 => (b.1.1, v, b.2) | R2 => (b.1.1, b.1.2, v) end.
(* two-way swaps  `a_prev, a_curr = a_curr, a_prev` : parity false = the names denote (fst, snd) *)
Definition rd2 (X : Type) (p : bool) (cur : bool) (b : X * X) : X := if p (+) cur then b.2 else b.1.
Definition wr2 (X : Type) (p : bool) (cur : bool) (v : X) (b : X * X) : X * X :=
  if p (+) cur then (b.1, v) else (v, b.2).

Section Model.
Variable F : Type.
Variable A : Arith F.

Definition vec := seq F.
Definition cols := seq vec.            (* C columns of length n *)
Definition qc := seq (seq F).          (* Q x C scalars *)
Definition qcols := seq cols.          (* Q x C x n *)
Definition mat := seq (seq F).         (* rows *)

Definition vget (v : vec) (i : nat) : F := nth (a0 A) v i.
Definition cget (X : cols) (j : nat) : vec := nth [::] X j.
Definition sget (s : seq F) (j : nat) : F := nth (a0 A) s j.
Definition bget (s : seq bool) (j : nat) : bool := nth false s j.
Definition cg2 (X : cols) (j i : nat) : F := vget (cget X j) i.
Definition qget (S : qc) (q j : nat) : F := nth (a0 A) (nth [::] S q) j.
Definition xget (X : qcols) (q j i : nat) : F := nth (a0 A) (nth [::] (nth [::] X q) j) i.

Definition stab (C : nat) (f : nat -> F) : seq F := mkseq f C.
Definition ctab (C n : nat) (f : nat -> nat -> F) : cols := mkseq (fun j => mkseq (f j) n) C.
Definition qtab (Q C : nat) (f : nat -> nat -> F) : qc := mkseq (fun q => mkseq (f q) C) Q.
Definition xtab (Q C n : nat) (f : nat -> nat -> nat -> F) : qcols :=
  mkseq (fun q => mkseq (fun j => mkseq (f q j) n) C) Q.

(* sequential sum  ((0 + f 0) + f 1) + ...  *)
Fixpoint sumn_ (f : nat -> F) (k : nat) : F :=
  if k is k'.+1 then aadd A (sumn_ f k') (f k') else a0 A.
Definition dot (n : nat) (x y : vec) : F := sumn_ (fun i => amul A (vget x i) (vget y i)) n.
Definition norm2 (n : nat) (x : vec) : F := asqrt A (dot n x x).          (* t.norm(2, dim=-2) *)
Fixpoint ofnat (k : nat) : F := if k is k'.+1 then aadd A (ofnat k') (a1 A) else a0 A.
(* t.mean() of a Q x C table *)
Definition mean_qc (Q C : nat) (S : qc) : F :=
  adiv A (sumn_ (fun e => qget S (e %/ C) (e %% C)) (Q * C)) (ofnat (Q * C)).

(* dense matmul: one n x n matrix per batch member, t columns per batch member *)
Definition rowdot (row x : vec) : F :=
  foldl (fun acc rx => aadd A acc (amul A rx.1 rx.2)) (a0 A) (zip row x).
Definition matvec (M : mat) (x : vec) : vec := map (fun row => rowdot row x) M.
Definition tensor_mm (t : nat) (Ms : seq mat) (X : cols) : cols :=
  mkseq (fun j => matvec (nth [::] Ms (j %/ t)) (cget X j)) (size X).

(* ---------------------------------------------------------------------------------------- *)
Section Loop.
Variables (Q C n : nat).
Variables (mm pre : cols -> cols).        (* matmul_closure, preconditioner (default: x.clone()) *)
Variable value : option F.
Variable shifts : qc.                     (* padded + broadcast shifts, Q x C *)
Variable eps : F.                         (* torch.tensor(eps) *)
Variable tol : F.                         (* settings.minres_tolerance.value() *)

(* 132-134 / 63-65:  prod = mm_(x); if value is not None: prod.mul_(value) *)
Definition mm_value (X : cols) : cols :=
  let P := mm X in
  if value is Some v then ctab C n (fun j i => amul A (cg2 P j i) v) else P.

(* 138-139 tmpvec = prod * qvec_prev1 ; alpha_curr = sum(tmpvec, -2) *)
Definition e_mul (X Y : cols) : cols := ctab C n (fun j i => amul A (cg2 X j i) (cg2 Y j i)).
Definition e_sum (T : cols) : seq F := stab C (fun j => sumn_ (fun i => cg2 T j i) n).
(* 141 zvec_curr = prod.addcmul_(alpha_curr, zvec_prev1, value=-1).addcmul_(beta_prev, zvec_prev2, value=-1) *)
Definition e_lanczos (P : cols) (al : seq F) (z1 : cols) (bp : seq F) (z2 : cols) : cols :=
  ctab C n (fun j i => asub A (asub A (cg2 P j i) (amul A (sget al j) (cg2 z1 j i)))
                              (amul A (sget bp j) (cg2 z2 j i))).
(* 146-147 beta_curr.sqrt_() ; beta_curr.clamp_min_(eps) *)
Definition clamp_min (x : F) : F := if altb A x eps then eps else x.
Definition e_sqrt_clamp (s : seq F) : seq F := stab C (fun j => clamp_min (asqrt A (sget s j))).
(* 82-83, 149-150  v.div_(beta) *)
Definition e_divc (X : cols) (b : seq F) : cols := ctab C n (fun j i => adiv A (cg2 X j i) (sget b j)).

(* _jit_minres_updates, statement by statement (lines 251-281) *)
Definition j_mul_qc_c (S : qc) (b : seq F) : qc := qtab Q C (fun q j => amul A (qget S q j) (sget b j)).        (* 251, 252 *)
Definition j_alpha_shift (al : seq F) : qc := qtab Q C (fun q j => aadd A (sget al j) (qget shifts q j)).      (* 255 *)
Definition j_diag0 (als c1 s1 sub : qc) : qc :=                                                                (* 258 *)
  qtab Q C (fun q j => asub A (amul A (qget als q j) (qget c1 q j)) (amul A (qget s1 q j) (qget sub q j))).
Definition j_sub1 (sub c1 s1 als : qc) : qc :=                                                                 (* 259 *)
  qtab Q C (fun q j => aadd A (amul A (qget sub q j) (qget c1 q j)) (amul A (qget s1 q j) (qget als q j))).
Definition j_radius (dg : qc) (bc : seq F) : qc :=                                                             (* 262 *)
  qtab Q C (fun q j => asqrt A (aadd A (amul A (qget dg q j) (qget dg q j)) (amul A (sget bc j) (sget bc j)))).
Definition j_div_qc (X Y : qc) : qc := qtab Q C (fun q j => adiv A (qget X q j) (qget Y q j)).                  (* 263 *)
Definition j_div_c_qc (b : seq F) (Y : qc) : qc := qtab Q C (fun q j => adiv A (sget b j) (qget Y q j)).        (* 264 *)
Definition j_diag1 (dg cc sc : qc) (bc : seq F) : qc :=                                                        (* 266 *)
  qtab Q C (fun q j => aadd A (amul A (qget dg q j) (qget cc q j)) (amul A (qget sc q j) (sget bc j))).
Definition j_scale_curr (scp sc : qc) : qc := qtab Q C (fun q j => aopp A (amul A (qget scp q j) (qget sc q j))). (* 272 *)
Definition j_mul_qc (X Y : qc) : qc := qtab Q C (fun q j => amul A (qget X q j) (qget Y q j)).                  (* 273 *)
Definition j_search (qv : cols) (sub : qc) (sr1 : qcols) (subsub : qc) (sr2 : qcols) (dg : qc) : qcols :=      (* 275-277 *)
  xtab Q C n (fun q j i =>
    adiv A (asub A (asub A (cg2 qv j i) (amul A (qget sub q j) (xget sr1 q j i)))
                   (amul A (qget subsub q j) (xget sr2 q j i)))
           (qget dg q j)).
Definition j_supd (sr : qcols) (scp : qc) : qcols :=                                                           (* 280 *)
  xtab Q C n (fun q j i => amul A (xget sr q j i) (qget scp q j)).
Definition j_sol (sol upd : qcols) : qcols := xtab Q C n (fun q j i => aadd A (xget sol q j i) (xget upd q j i)). (* 281 *)

(* 184-186: torch.norm(x, dim=-2) of a Q x C x n table; conv = (update_norm / solution_norm).mean() *)
Definition x_norm (X : qcols) : qc := qtab Q C (fun q j => norm2 n (nth [::] (nth [::] X q) j)).
Definition conv_value (upd sol : qcols) : F := mean_qc Q C (j_div_qc (x_norm upd) (x_norm sol)).
(* 183 + 187: the test is made only when (i + 1) % 10 == 0 *)
Definition conv_test (i : nat) (upd sol : qcols) : bool :=
  (i.+1 %% 10 == 0) && altb A (conv_value upd sol) tol.

(* ------------------------------------------------------------------------------------ *)
(* (1) buffer-level transcription                                                          *)
Record mr_buf := MkBuf {
  zvec_prev2 : cols; zvec_prev1 : cols; qvec_prev1 : cols;     (* names bound to fresh tensors *)
  alpha_curr : seq F;
  alpha_shifted_curr : qc;
  beta2 : seq F * seq F; beta_par : bool;                      (* beta_prev / beta_curr *)
  tmpvec : cols;
  cos3 : qc * qc * qc; cos_rot : rot;                          (* cos_prev2 / cos_prev1 / cos_curr *)
  sin3 : qc * qc * qc; sin_rot : rot;
  radius_curr : qc; subsub_diag_term : qc; sub_diag_term : qc; diag_term : qc;
  search3 : qcols * qcols * qcols; search_rot : rot;           (* search_prev2 / search_prev1 / search_curr *)
  search_update : qcols;
  scale2 : qc * qc; scale_par : bool;                          (* scale_prev / scale_curr *)
  solution : qcols;
  search_update_norm : qc; solution_norm : qc
}.

(* arbitrary initial contents of the torch.empty / empty_like buffers (lines 75-79, 91-97, 105-106, 111) *)
Record mr_junk := MkJunk {
  jk_alpha : seq F; jk_alpha_s : qc; jk_beta : seq F; jk_tmp : cols;
  jk_radius : qc; jk_cos : qc; jk_sin : qc; jk_subsub : qc; jk_sub : qc; jk_diag : qc;
  jk_search : qcols; jk_supd : qcols; jk_scale : qc
}.

Definition ones_qc : qc := qtab Q C (fun _ _ => a1 A).
Definition zeros_qc : qc := qtab Q C (fun _ _ => a0 A).
Definition zeros_x : qcols := xtab Q C n (fun _ _ _ => a0 A).

(* lines 72-120 *)
Definition buf_init (J : mr_junk) (rhs : cols) : mr_buf :=
  let zvec_prev2 := ctab C n (fun _ _ => a0 A) in                      (* 72 *)
  let zvec_prev1 := rhs in                                             (* 73 *)
  let qvec_prev1 := pre zvec_prev1 in                                  (* 74 *)
  let beta_prev := stab C (fun j => asqrt A (sget (e_sum (e_mul zvec_prev1 qvec_prev1)) j)) in   (* 77 *)
  let zvec_prev1 := e_divc zvec_prev1 beta_prev in                     (* 82 *)
  let qvec_prev1 := e_divc qvec_prev1 beta_prev in                     (* 83 *)
  MkBuf zvec_prev2 zvec_prev1 qvec_prev1
        (jk_alpha J) (jk_alpha_s J) (beta_prev, jk_beta J) false (jk_tmp J)
        (ones_qc, ones_qc, jk_cos J) R0                                (* 87, 89, 92 *)
        (zeros_qc, zeros_qc, jk_sin J) R0                              (* 88, 90, 93 *)
        (jk_radius J) (jk_subsub J) (jk_sub J) (jk_diag J)             (* 91, 95-97 *)
        (zeros_x, zeros_x, jk_search J) R0 (jk_supd J)                 (* 103-106 *)
        (qtab Q C (fun _ j => sget beta_prev j), jk_scale J) false     (* 110-111 *)
        zeros_x zeros_qc zeros_qc.                                     (* 69, 114-120 *)

(* lines 131-180: one loop body up to (not including) the convergence test and the rotation *)
Definition buf_body (s : mr_buf) : mr_buf * cols * cols :=
  let beta_prev := rd2 (beta_par s) false (beta2 s) in
  (* 132-134 *)
  let prod := mm_value (qvec_prev1 s) in
  (* 138-139 *)
  let tmpvec := e_mul prod (qvec_prev1 s) in
  let alpha_curr := e_sum tmpvec in
  (* 141 *)
  let zvec_curr := e_lanczos prod alpha_curr (zvec_prev1 s) beta_prev (zvec_prev2 s) in
  (* 143-147 *)
  let qvec_curr := pre zvec_curr in
  let tmpvec := e_mul zvec_curr qvec_curr in
  let beta_curr := e_sqrt_clamp (e_sum tmpvec) in
  let beta2' := wr2 (beta_par s) true beta_curr (beta2 s) in
  (* 149-150 *)
  let zvec_curr := e_divc zvec_curr beta_curr in
  let qvec_curr := e_divc qvec_curr beta_curr in
  (* _jit_minres_updates: reads through the current name -> buffer maps *)
  let cr := cos_rot s in let sr := sin_rot s in let hr := search_rot s in
  let beta_prev := rd2 (beta_par s) false beta2' in
  let beta_curr := rd2 (beta_par s) true beta2' in
  (* 251-252 *)
  let subsub := j_mul_qc_c (rd3 sr Prev2 (sin3 s)) beta_prev in
  let sub := j_mul_qc_c (rd3 cr Prev2 (cos3 s)) beta_prev in
  (* 255 *)
  let als := j_alpha_shift alpha_curr in
  (* 258-259 *)
  let dg := j_diag0 als (rd3 cr Prev1 (cos3 s)) (rd3 sr Prev1 (sin3 s)) sub in
  let sub := j_sub1 sub (rd3 cr Prev1 (cos3 s)) (rd3 sr Prev1 (sin3 s)) als in
  (* 262-264 *)
  let radius := j_radius dg beta_curr in
  let cos3' := wr3 cr Curr (j_div_qc dg radius) (cos3 s) in
  let sin3' := wr3 sr Curr (j_div_c_qc beta_curr radius) (sin3 s) in
  (* 266 *)
  let dg := j_diag1 dg (rd3 cr Curr cos3') (rd3 sr Curr sin3') beta_curr in
  (* 272-273 *)
  let scale2' := wr2 (scale_par s) true (j_scale_curr (rd2 (scale_par s) false (scale2 s)) (rd3 sr Curr sin3')) (scale2 s) in
  let scale2'' := wr2 (scale_par s) false (j_mul_qc (rd2 (scale_par s) false scale2') (rd3 cr Curr cos3')) scale2' in
  (* 275-277 *)
  let search3' := wr3 hr Curr (j_search (qvec_prev1 s) sub (rd3 hr Prev1 (search3 s)) subsub
                                        (rd3 hr Prev2 (search3 s)) dg) (search3 s) in
  (* 280-281 *)
  let supd := j_supd (rd3 hr Curr search3') (rd2 (scale_par s) false scale2'') in
  let sol := j_sol (solution s) supd in
  (MkBuf (zvec_prev2 s) (zvec_prev1 s) (qvec_prev1 s) alpha_curr als beta2' (beta_par s) tmpvec
         cos3' cr sin3' sr radius subsub sub dg search3' hr supd scale2'' (scale_par s) sol
         (search_update_norm s) (solution_norm s),
   zvec_curr, qvec_curr).

(* 184-185: the two norm buffers are written only when the test is made *)
Definition buf_norms (i : nat) (s : mr_buf) : mr_buf :=
  if i.+1 %% 10 == 0 then
    let un := x_norm (search_update s) in
    let sn := x_norm (solution s) in
    MkBuf (zvec_prev2 s) (zvec_prev1 s) (qvec_prev1 s) (alpha_curr s) (alpha_shifted_curr s) (beta2 s) (beta_par s)
          (tmpvec s) (cos3 s) (cos_rot s) (sin3 s) (sin_rot s) (radius_curr s) (subsub_diag_term s)
          (sub_diag_term s) (diag_term s) (search3 s) (search_rot s) (search_update s) (scale2 s) (scale_par s)
          (solution s) (j_div_qc un sn) sn          (* 186: search_update_norm.div_(solution_norm) *)
  else s.

(* lines 190-204: the name rotations *)
Definition buf_rotate (s : mr_buf) (zvec_curr qvec_curr : cols) : mr_buf :=
  MkBuf (zvec_prev1 s) zvec_curr qvec_curr                     (* 192-193 *)
        (alpha_curr s) (alpha_shifted_curr s)
        (beta2 s) (~~ beta_par s)                              (* 194 *)
        (tmpvec s)
        (cos3 s) (rnext (cos_rot s))                           (* 196 *)
        (sin3 s) (rnext (sin_rot s))                           (* 197 *)
        (radius_curr s) (subsub_diag_term s) (sub_diag_term s) (diag_term s)
        (search3 s) (rnext (search_rot s))                     (* 199-203 *)
        (search_update s)
        (scale2 s) (~~ scale_par s)                            (* 204 *)
        (solution s) (search_update_norm s) (solution_norm s).

(* the for loop (line 130): fuel = max_iter + 2 - i; returns the buffers at loop exit and the number of
   loop bodies executed *)
Fixpoint buf_loop (fuel i : nat) (s : mr_buf) : mr_buf * nat :=
  if fuel is f.+1 then
    let '(s1, zc, qcur) := buf_body s in
    let s2 := buf_norms i s1 in
    if conv_test i (search_update s1) (solution s1) then (s2, i.+1)        (* 187-188: break *)
    else buf_loop f i.+1 (buf_rotate s2 zc qcur)
  else (s, i).

(* ------------------------------------------------------------------------------------ *)
(* (2) the same statements without buffers                                                 *)
Record mr_state := MkSt {
  zp2 : cols; zp1 : cols; qp1 : cols;     (* zvec_prev2, zvec_prev1, qvec_prev1 *)
  bprev : seq F;                          (* beta_prev *)
  cp2 : qc; cp1 : qc; sp2 : qc; sp1 : qc; (* cos/sin _prev2/_prev1 *)
  hp2 : qcols; hp1 : qcols;               (* search_prev2, search_prev1 *)
  scp : qc;                               (* scale_prev *)
  sol : qcols;                            (* solution *)
  supd : qcols                            (* search_update (read by the convergence test) *)
}.

Definition st_init (rhs : cols) : mr_state :=
  let z1 := rhs in
  let q1 := pre z1 in
  let b0 := stab C (fun j => asqrt A (sget (e_sum (e_mul z1 q1)) j)) in
  MkSt (ctab C n (fun _ _ => a0 A)) (e_divc z1 b0) (e_divc q1 b0) b0
       ones_qc ones_qc zeros_qc zeros_qc zeros_x zeros_x
       (qtab Q C (fun _ j => sget b0 j)) zeros_x zeros_x.

(* the Lanczos half of the loop body (lines 132-150) *)
Definition lz_alpha (s : mr_state) : seq F := e_sum (e_mul (mm_value (qp1 s)) (qp1 s)).
Definition lz_w (s : mr_state) : cols := e_lanczos (mm_value (qp1 s)) (lz_alpha s) (zp1 s) (bprev s) (zp2 s).
Definition lz_beta (s : mr_state) : seq F := e_sqrt_clamp (e_sum (e_mul (lz_w s) (pre (lz_w s)))).
Definition lz_z (s : mr_state) : cols := e_divc (lz_w s) (lz_beta s).
Definition lz_q (s : mr_state) : cols := e_divc (pre (lz_w s)) (lz_beta s).

(* one loop body including the rotation (the rotation only renames) *)
Definition st_step (s : mr_state) : mr_state :=
  let alpha := lz_alpha s in
  let bc := lz_beta s in
  let subsub := j_mul_qc_c (sp2 s) (bprev s) in
  let sub0 := j_mul_qc_c (cp2 s) (bprev s) in
  let als := j_alpha_shift alpha in
  let dg0 := j_diag0 als (cp1 s) (sp1 s) sub0 in
  let sub := j_sub1 sub0 (cp1 s) (sp1 s) als in
  let radius := j_radius dg0 bc in
  let cc := j_div_qc dg0 radius in
  let sc := j_div_c_qc bc radius in
  let dg := j_diag1 dg0 cc sc bc in
  let scale_curr := j_scale_curr (scp s) sc in
  let scale_prev := j_mul_qc (scp s) cc in
  let search := j_search (qp1 s) sub (hp1 s) subsub (hp2 s) dg in
  let upd := j_supd search scale_prev in
  MkSt (zp1 s) (lz_z s) (lz_q s) bc (cp1 s) cc (sp1 s) sc (hp1 s) search scale_curr
       (j_sol (sol s) upd) upd.

Fixpoint st_loop (fuel i : nat) (s : mr_state) : mr_state * nat :=
  if fuel is f.+1 then
    let s1 := st_step s in
    if conv_test i (supd s1) (sol s1) then (s1, i.+1) else st_loop f i.+1 s1
  else (s, i).

(* k loop bodies without looking at the convergence test *)
Fixpoint st_iter (k : nat) (s : mr_state) : mr_state := if k is k'.+1 then st_step (st_iter k' s) else s.

End Loop.

(* ---------------------------------------------------------------------------------------- *)
(* the arguments                                                                            *)
Record mr_settings := MkSettings {
  s_max_cg_iterations : nat;          (* settings.max_cg_iterations.value() *)
  s_minres_tolerance : F;             (* settings.minres_tolerance.value() *)
  s_zero_thr : F                      (* the literal 1e-10 of line 50 *)
}.

Record mr_args := MkArgs {
  g_mm : cols -> cols;                (* matmul_closure (a tensor K is K.matmul: tensor_mm) *)
  g_pre : option (cols -> cols);      (* preconditioner *)
  g_n : nat;                          (* rhs.size(-2) *)
  g_rhs_is_vec : bool;                (* rhs.dim() == 1 *)
  g_rhs : cols;                       (* C flat columns, broadcast to the shape of mm_(rhs) *)
  g_eps : F;
  g_shifts : option (seq nat * qc);   (* shape of the shifts tensor; values broadcast to Q x C *)
  g_value : option F;
  g_max_iter : option nat
}.

Definition prodn (s : seq nat) : nat := foldr muln 1 s.
(* 40-41: shifts = tensor(0.) when None *)
Definition shifts_shape (g : mr_args) : seq nat := if g_shifts g is Some (sh, _) then sh else [::].
(* 68-69: shifts.shape[:1] after padding with singletons up to prod.dim() + 1 dimensions *)
Definition shifts_Q (g : mr_args) : nat := if shifts_shape g is q :: _ then q else 1.
Definition shifts_numel (g : mr_args) : nat := prodn (shifts_shape g).
Definition shifts_tab (g : mr_args) : qc :=
  if g_shifts g is Some (_, T) then T else qtab 1 (size (g_rhs g)) (fun _ _ => a0 A).

Record mr_setup := MkSetup {
  u_C : nat; u_Q : nat;
  u_pre : cols -> cols;
  u_rhs_norm : seq F;                 (* after masked_fill_(rhs_is_zero, 1) *)
  u_rhs_is_zero : seq bool;
  u_rhs : cols;                       (* rhs / rhs_norm *)
  u_iters : nat                       (* max_iter + 2 *)
}.

(* lines 34-60 *)
Definition mr_prepare (S : mr_settings) (g : mr_args) : mr_setup :=
  let n := g_n g in
  let C := size (g_rhs g) in
  (* 37-38 *)
  let pre := if g_pre g is Some f then f else (fun X : cols => X) (* x.clone() *) in
  (* 49-52 *)
  let rhs_norm0 := stab C (fun j => norm2 n (cget (g_rhs g) j)) in
  let rhs_is_zero := mkseq (fun j => altb A (sget rhs_norm0 j) (s_zero_thr S)) C in
  let rhs_norm := stab C (fun j => if bget rhs_is_zero j then a1 A else sget rhs_norm0 j) in
  let rhs := ctab C n (fun j i => adiv A (cg2 (g_rhs g) j i) (sget rhs_norm j)) in
  (* 55-57 *)
  let max_iter := minn (odflt (s_max_cg_iterations S) (g_max_iter g)) n.+1 in
  MkSetup C (shifts_Q g) pre rhs_norm rhs_is_zero rhs max_iter.+2.

Record mr_out := MkOut {
  o_sol : qcols;                      (* Q x C x n, un-normalised *)
  o_sq_last : bool;                   (* solution.squeeze(-1) applied (1-D rhs) *)
  o_sq_first : bool;                  (* solution.squeeze(0) applied (shifts.numel() == 1) *)
  o_iters : nat                       (* loop bodies executed = calls of matmul_closure - 1 *)
}.

(* lines 206-218 *)
Definition mr_finish (g : mr_args) (u : mr_setup) (solution : qcols) (iters : nat) : mr_out :=
  let n := g_n g in
  let Q := u_Q u in let C := u_C u in
  (* 207: solution.masked_fill_(rhs_is_zero, 0) ; 218: solution.mul_(rhs_norm) *)
  let sol := xtab Q C n (fun q j i =>
               amul A (if bget (u_rhs_is_zero u) j then a0 A else xget solution q j i) (sget (u_rhs_norm u) j)) in
  MkOut sol (g_rhs_is_vec g) (shifts_numel g == 1) iters.

Definition minres_buf (J : mr_junk) (S : mr_settings) (g : mr_args) : mr_out :=
  let u := mr_prepare S g in
  let '(s, k) := buf_loop (u_Q u) (u_C u) (g_n g) (g_mm g) (u_pre u) (g_value g) (shifts_tab g) (g_eps g)
                   (s_minres_tolerance S) (u_iters u) 0
                   (buf_init (u_Q u) (u_C u) (g_n g) (u_pre u) J (u_rhs u)) in
  mr_finish g u (solution s) k.

Definition minres (S : mr_settings) (g : mr_args) : mr_out :=
  let u := mr_prepare S g in
  let '(s, k) := st_loop (u_Q u) (u_C u) (g_n g) (g_mm g) (u_pre u) (g_value g) (shifts_tab g) (g_eps g)
                   (s_minres_tolerance S) (u_iters u) 0
                   (st_init (u_Q u) (u_C u) (g_n g) (u_pre u) (u_rhs u)) in
  mr_finish g u (sol s) k.

(* torch shape of the returned tensor (lines 209-216), given the batch shape and column count of prod *)
Definition out_shape (g : mr_args) (batch : seq nat) (t : nat) : seq nat :=
  (if shifts_numel g == 1 then [::] else [:: shifts_Q g]) ++ batch ++ [:: g_n g] ++
  (if g_rhs_is_vec g then [::] else [:: t]).

(* ---------------------------------------------------------------------------------------- *)
(* contour_integral_quad with given shifts / weights, no preconditioner
   (linear_op._preconditioner() = (None, None, None): sqrt_precond_matmul is the identity).
   B batch members, t columns each; shifts: (Nq+1) x B, weights: Nq x B.                      *)
Record ciq_out := MkCiq {
  c_solves : qcols;                   (* Nq x C x n *)
  c_no_shift : cols;                  (* C x n *)
  c_iters : nat
}.

Definition neg1 : F := aopp A (a1 A).

Definition ciq (J : mr_junk) (S : mr_settings) (mmK : cols -> cols) (n t B : nat) (rhs : cols) (inverse : bool)
               (shifts : seq (seq F)) (eps : F) : ciq_out :=
  let C := B * t in
  let Nq1 := size shifts in
  (* 142-148: minres(lambda v: linear_op._matmul(v), rhs, value=-1, shifts=shifts, preconditioner=None) *)
  let g := MkArgs mmK None n false rhs eps
                  (Some ([:: Nq1; B], qtab Nq1 C (fun q j => sget (nth [::] shifts q) (j %/ t))))
                  (Some neg1) None in
  let o := minres_buf J S g in
  (* 149-152 *)
  let no_shift := nth [::] (o_sol o) 0 in
  let solves := behead (o_sol o) in
  let solves := if inverse then solves else [seq mmK X | X <- solves] in
  MkCiq solves no_shift (o_iters o).

(* (solves * weights).sum(0) : C x n *)
Definition wsum (Nq C n t : nat) (weights : seq (seq F)) (solves : qcols) : cols :=
  ctab C n (fun j i => sumn_ (fun q => amul A (xget solves q j i) (sget (nth [::] weights q) (j %/ t))) Nq).

(* SqrtInvMatmul.forward; rhs: B*t columns; lhs (B x o x n) given as its rows = the columns of lhs.mT.
   Returns (sqrt_inv_matmul_res as B*t columns of length n (no lhs) or o (lhs), inv_quad_res B x o) *)
Definition take_cols (t o : nat) (B : nat) (X : cols) (lo len : nat) : cols :=
  flatten (mkseq (fun b => take len (drop (b * (t + o) + lo) X)) B).

Definition sqrt_inv_matmul (J : mr_junk) (S : mr_settings) (mmK : cols -> cols) (n t B : nat) (rhs : cols)
                           (lhs : option (nat * seq (seq vec)))
                           (shifts weights : seq (seq F)) (eps : F) : cols * seq (seq F) * nat :=
  let Nq := size weights in
  match lhs with
  | None =>
      (* 35-44 *)
      let r := ciq J S mmK n t B rhs true shifts eps in
      (wsum Nq (B * t) n t weights (c_solves r), mkseq (fun _ => [:: a0 A]) B, c_iters r)
  | Some (o, L) =>
      (* 23: terms = cat([rhs, lhs.mT], -1) *)
      let terms := flatten (mkseq (fun b => take t (drop (b * t) rhs) ++ nth [::] L b) B) in
      let r := ciq J S mmK n (t + o) B terms true shifts eps in
      (* 30: rhs_solves = solves[..., :t] *)
      let rhs_solves := [seq take_cols t o B X 0 t | X <- c_solves r] in
      (* 31: lhs_no_shift_solves = no_shift_solves[..., -o:] *)
      let lns := take_cols t o B (c_no_shift r) t o in
      (* 32: lhs @ (rhs_solves * weights).sum(0) *)
      let w := wsum Nq (B * t) n t weights rhs_solves in
      let res := ctab (B * t) o (fun j k => dot n (nth [::] (nth [::] L (j %/ t)) k) (cget w j)) in
      (* 33: (lhs_no_shift_solves.mT * lhs).sum(-1).mul_(-1) *)
      let iq := mkseq (fun b => stab o (fun k =>
                  aopp A (sumn_ (fun i => amul A (cg2 lns (b * o + k) i) (vget (nth [::] (nth [::] L b) k) i)) n))) B in
      (res, iq, c_iters r)
  end.

End Model.
