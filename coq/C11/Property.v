(* C11 — proof obligations (statements only). *)
From mathcomp Require Import ssreflect ssrfun ssrbool eqtype ssrnat seq.
Require Import C11.Model.

Theorem C11_rot_cycle (r : rot) : rnext (rnext (rnext r)) = r.
Proof. by case: r. Qed.
