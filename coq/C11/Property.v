(* C11 — MINRES solves all shifted systems; contour quadrature gives the matrix root.
   Proof obligations (statements only; proofs are in ProofsRefine.v / ProofsAny.v / ProofsExact.v /
   ProofsResidual.v / ProofsCIQ.v).  Everything is about the transcription coq/C11/Model.v of
   linear_operator/utils/minres.py, utils/contour_integral_quad.py, functions/_sqrt_inv_matmul.py.

   Quantification: every theorem holds for ALL sizes n, ALL numbers of columns / batch members, ALL
   numbers of shifts Q, ALL iteration counts / budgets.  `Section AnyArithmetic`: every arithmetic
   (binary64 included), arbitrary closures.  `Section ExactArithmetic`: the model instantiated on an
   arbitrary real closed field (exact arithmetic, x/0 = 0).  `Section ContourQuadrature`: MathComp
   matrices over an arbitrary field.

   NOT PROVED (DESIGN.md section 6; the property is claimed PARTIAL): that the MINRES iterates converge to
   the solutions of the shifted systems (Paige-Saunders: needs orthogonality of the Lanczos vectors and the
   minimal-residual characterisation) and the accuracy of the elliptic-function quadrature rule.  Both enter
   the CIQ theorems as explicit hypotheses (`exact solves`, `scalar rule`) and are checked numerically on
   the implementation by harness/c11.py (support only). *)
From mathcomp Require Import all_ssreflect all_algebra.
Require Import C11.Model C11.ProofsRefine C11.ProofsAny C11.ProofsExact C11.ProofsResidual C11.ProofsLanczos C11.ProofsMinimal C11.ProofsCIQ.
Set Implicit Arguments.
Unset Strict Implicit.
Unset Printing Implicit Defensive.
Import Order.Theory GRing.Theory Num.Theory.

Section AnyArithmetic.
Variable F : Type.
Variable A : Arith F.

(* The line-by-line model with physical buffers, name rotations and uninitialised torch.empty buffers
   computes exactly what the buffer-free recurrences compute: no stale / uninitialised content is ever
   read, every rotation hands each role the right buffer — for every iteration count. *)
Theorem C11_buffers_refine (J : mr_junk F) (S : mr_settings F) (g : mr_args F) :
  minres_buf A J S g = minres A S g.
Proof. exact: minres_buf_refines. Qed.

Theorem C11_empty_buffers_irrelevant (J J' : mr_junk F) (S : mr_settings F) (g : mr_args F) :
  minres_buf A J S g = minres_buf A J' S g.
Proof. exact: minres_buf_junk_irrelevant. Qed.

(* the three names of a rotating family always denote three different physical buffers, and after k
   rotations the name `prev2` denotes buffer k mod 3 *)
Theorem C11_roles_distinct (r : rot) (k k' : role) : slot r k = slot r k' -> k = k'.
Proof. exact: slot_inj. Qed.

Theorem C11_rotation_period (k : nat) :
  rot_iter k = match k %% 3 with 0 => R0 | 1 => R1 | _ => R2 end.
Proof. exact: rot_iter_mod3. Qed.

(* zero right-hand sides: a column with ||b|| < 1e-10 gives the product 0 * 1 in every entry, for every
   shift, whatever the loop produced for it (NaN from 0/0 included) *)
Theorem C11_minres_zero_rhs (S : mr_settings F) (g : mr_args F) q j i :
  q < shifts_Q g -> j < size (g_rhs g) -> i < g_n g -> rhs_col_is_zero A S g j ->
  xget A (o_sol (minres A S g)) q j i = amul A (a0 A) (a1 A).
Proof. exact: minres_zero_rhs_any. Qed.

(* shape rules: the leading (shift) dimension is dropped iff shifts.numel() == 1 — and then it has size 1, so
   squeeze(0) is legal —, the column dimension iff the rhs was 1-D; the value table always has the full
   Q x C x n layout *)
Theorem C11_minres_shift_dim (S : mr_settings F) (g : mr_args F) (batch : seq nat) (t : nat) :
  [/\ o_sq_first (minres A S g) = (shifts_numel g == 1),
      o_sq_last (minres A S g) = g_rhs_is_vec g,
      (shifts_numel g == 1 -> shifts_Q g = 1),
      out_shape g batch t =
        (if shifts_numel g == 1 then [::] else [:: shifts_Q g]) ++ batch ++
        g_n g :: (if g_rhs_is_vec g then [::] else [:: t])
    & size (out_shape g batch t) = (shifts_numel g != 1) + size batch + 1 + ~~ g_rhs_is_vec g].
Proof.
have [h1 h2] := minres_flags A S g.
split=> //; [exact: shift_squeeze_legal | exact: out_shape_rank].
Qed.

Theorem C11_minres_layout (S : mr_settings F) (g : mr_args F) q j :
  let o := o_sol (minres A S g) in
  size o = shifts_Q g /\
  (q < shifts_Q g -> size (nth [::] o q) = size (g_rhs g)) /\
  (q < shifts_Q g -> j < size (g_rhs g) -> size (nth [::] (nth [::] o q) j) = g_n g).
Proof. exact: minres_layout. Qed.

(* the stopping rule: the loop returns the iterate after k bodies, k being the first multiple of 10 (counted
   from the start) at which mean(||update|| / ||solution||) < tolerance, or the whole budget *)
Theorem C11_stopping_rule Q C n mm pre value shifts eps tol fuel (s : mr_state F) :
  exists k, [/\ k <= fuel,
                st_loop A Q C n mm pre value shifts eps tol fuel 0 s
                  = (st_iter A Q C n mm pre value shifts eps k s, k),
                (k = fuel \/ (0 < k /\ (k %% 10 == 0)))
              & forall k', 0 < k' -> k' < k ->
                  ~~ conv_test A Q C n tol k'.-1 (supd (st_iter A Q C n mm pre value shifts eps k' s))
                                              (sol (st_iter A Q C n mm pre value shifts eps k' s))].
Proof.
have [k [h1 h2 h3 h4]] := st_loop_spec A Q C n mm pre value shifts eps tol fuel 0 s.
exists k; split=> //.
case: h3 => [->|[hk hc]]; [by left | right; split=> //].
by move: (conv_only_every_10th hc); rewrite add0n prednK.
Qed.

(* the model of contour_integral_quad (given shifts) and of SqrtInvMatmul.forward without lhs are literally
   solves[1:], solves[0] and (solves * weights).sum(0) of the buffer-free minres called with value = -1 and the
   shifts broadcast over the t columns of each batch member: this is what links the contour-quadrature theorems
   below (which are about arbitrary exact solves) to the MINRES model *)
Theorem C11_ciq_unfolds (J : mr_junk F) (S : mr_settings F) (mmK : cols F -> cols F) n t B rhs
    (shifts weights : seq (seq F)) eps :
  let g := MkArgs mmK None n false rhs eps
             (Some ([:: size shifts; B], qtab (size shifts) (B * t) (fun q j => sget A (nth [::] shifts q) (j %/ t))))
             (Some (neg1 A)) None in
  [/\ c_solves (ciq A J S mmK n t B rhs true shifts eps) = behead (o_sol (minres A S g)),
      c_no_shift (ciq A J S mmK n t B rhs true shifts eps) = nth [::] (o_sol (minres A S g)) 0
    & (sqrt_inv_matmul A J S mmK n t B rhs None shifts weights eps).1.1
      = wsum A (size weights) (B * t) n t weights (behead (o_sol (minres A S g)))].
Proof. by rewrite /sqrt_inv_matmul /ciq !minres_buf_refines. Qed.

End AnyArithmetic.

Section ExactArithmetic.
Variable R : rcfType.
Local Open Scope ring_scope.
Notation AR := (ArR R).

(* in exact arithmetic 0 * 1 = 0: zero columns give exactly zero *)
Corollary C11_minres_zero_rhs_exact (S : mr_settings R) (g : mr_args R) q j i :
  (q < shifts_Q g)%N -> (j < size (g_rhs g))%N -> (i < g_n g)%N -> rhs_col_is_zero AR S g j ->
  xget AR (o_sol (minres AR S g)) q j i = 0.
Proof. by move=> *; rewrite minres_zero_rhs_any //= mul0r. Qed.

(* positive scaling, column by column: if no column is (or becomes) a "zero" column,
   minres (c . b) = c . minres b, with the same iteration count and the same shape *)
Theorem C11_minres_scaling (S : mr_settings R) (c : nat -> R) (g : mr_args R) :
  (forall j, (j < size (g_rhs g))%N -> 0 < c j) ->
  (forall j, (j < size (g_rhs g))%N ->
     ~~ rhs_col_is_zero AR S g j /\ ~~ rhs_col_is_zero AR S (scale_rhs c g) j) ->
  let o := minres AR S g in
  let o' := minres AR S (scale_rhs c g) in
  [/\ o_iters o' = o_iters o, o_sq_first o' = o_sq_first o, o_sq_last o' = o_sq_last o
    & forall q j i, (q < shifts_Q g)%N -> (j < size (g_rhs g))%N -> (i < g_n g)%N ->
        xget AR (o_sol o') q j i = c j * xget AR (o_sol o) q j i].
Proof. exact: minres_scaling_exact. Qed.

Section Recurrences.
Variables (Q C n : nat) (mm pre : cols R -> cols R) (value : option R) (shifts : qc R) (eps : R).
Hypothesis eps_pos : 0 < eps.
Notation iter k rhs := (st_iter AR Q C n mm pre value shifts eps k (st_init AR Q C n pre rhs)).
Notation step s := (st_step AR Q C n mm pre value shifts eps s).

(* every Givens pair kept by the loop is a rotation (cos^2 + sin^2 = 1), for every shift, column and
   iteration count, for arbitrary closures *)
Theorem C11_givens_rotations k rhs q j :
  (q < Q)%N -> (j < C)%N ->
  qget AR (cp1 (iter k rhs)) q j ^+ 2 + qget AR (sp1 (iter k rhs)) q j ^+ 2 = 1 /\
  qget AR (cp2 (iter k rhs)) q j ^+ 2 + qget AR (sp2 (iter k rhs)) q j ^+ 2 = 1.
Proof. by move=> hq hj; have H := @givens_ok_iter R Q C n mm pre value shifts eps eps_pos k rhs; apply: H. Qed.

(* MINRES' residual-norm estimate: |scale_prev| never grows, and
   scale_prev after k bodies = (-1)^k beta_0 prod_{m<k} sin_m *)
Theorem C11_scale_nonincreasing s q j :
  (q < Q)%N -> (j < C)%N -> `|qget AR (scp (step s)) q j| <= `|qget AR (scp s) q j|.
Proof. exact: scale_nonincreasing. Qed.

Theorem C11_scale_product rhs k q j : (q < Q)%N -> (j < C)%N ->
  qget AR (scp (iter k rhs)) q j =
  (-1) ^+ k * sget AR (bprev (iter 0 rhs)) j
  * \prod_(m < k) @g_sin R C n mm pre value shifts eps (iter m rhs) q j.
Proof. exact: scale_product. Qed.

(* the Lanczos half: beta_{k+2} z_{k+2} = (value K) q_{k+1} - alpha_{k+1} z_{k+1} - beta_{k+1} z_k with
   alpha = <(value K) q, q> and beta_{k+1} >= eps > 0 (never a division by zero), for arbitrary closures *)
Theorem C11_lanczos_three_term rhs k j i : (j < C)%N -> (i < n)%N ->
  sget AR (bprev (iter k.+2 rhs)) j * cg2 AR (zp1 (iter k.+2 rhs)) j i =
  cg2 AR (mm_value AR C n mm value (qp1 (iter k.+1 rhs))) j i
  - sget AR (lz_alpha AR C n mm value (iter k.+1 rhs)) j * cg2 AR (zp1 (iter k.+1 rhs)) j i
  - sget AR (bprev (iter k.+1 rhs)) j * cg2 AR (zp1 (iter k rhs)) j i.
Proof. move=> hj hi; exact: (@lanczos_three_term R Q C n mm pre value shifts eps eps_pos rhs k j i hj hi). Qed.

Theorem C11_lanczos_coefficients s j : (j < C)%N ->
  sget AR (lz_alpha AR C n mm value s) j
    = \sum_(i < n) cg2 AR (mm_value AR C n mm value (qp1 s)) j i * cg2 AR (qp1 s) j i
  /\ eps <= sget AR (bprev (step s)) j.
Proof. by move=> hj; split; [exact: lanczos_alpha | exact: lz_beta_ge]. Qed.

End Recurrences.

(* the MINRES residual recurrence (Paige-Saunders  r_k = sin_k^2 r_{k-1} - phibar_k cos_k v_{k+1}  in the form the code
   keeps it): without preconditioner and for a LINEAR closure (column j multiplied by the matrix M j, not
   necessarily symmetric), for every shift, column and number k of loop bodies the true residual of the k-th
   iterate of  (value*K + s I) x = b^  is  scale_prev_k * pbar_k,  pbar_0 = z_1,
   pbar_{k+1} = - sin_{k+1} pbar_k + cos_{k+1} z_{k+2}.   Purely algebraic: no orthogonality is used, no
   division by zero occurs.  (||pbar_k|| = 1 and minimality of the residual are NOT proved.) *)
Theorem C11_minres_true_residual Q C n (mm : cols R -> cols R) (value : option R) (shifts : qc R) (eps : R)
    (M : nat -> nat -> nat -> R) q j rhs k i :
  0 < eps ->
  (forall X j i, (j < C)%N -> (i < n)%N -> cg2 AR (mm X) j i = \sum_(l < n) M j i l * cg2 AR X j l) ->
  (q < Q)%N -> (j < C)%N -> (i < n)%N ->
  let iter k := st_iter AR Q C n mm (fun X => X) value shifts eps k (st_init AR Q C n (fun X => X) rhs) in
  let v := if value is Some a then a else 1 in
  let x l := xget AR (sol (iter k)) q j l in
  let pb := pbar Q C n mm value shifts eps q j rhs in
  [/\ cg2 AR rhs j i - ((\sum_(l < n) M j i l * x l) * v + qget AR shifts q j * x i)
        = qget AR (scp (iter k)) q j * pb k i,
      pb 0%N i = cg2 AR (zp1 (iter 0%N)) j i
    & pb k.+1 i = - qget AR (sp1 (iter k.+1)) q j * pb k i
                  + qget AR (cp1 (iter k.+1)) q j * cg2 AR (zp1 (iter k.+1)) j i].
Proof.
move=> he hl hq hj hi /=; split=> //; first exact: (minres_true_residual value shifts he hl hq hj rhs k hi).
by rewrite /pb_next (step_sp1 _ _ _ _ _ _ _ hq hj) (step_cp1 _ _ _ _ _ _ _ hq hj).
Qed.

(* the same about the tensor minres RETURNS (stopping rule, zero mask and un-normalisation included): for a column
   that is not a zero column, with k = o_iters = the number of loop bodies executed (k <= max_iter + 2),
       b - (value*K + s I) x_returned = ||b|| * scale_prev_k * pbar_k                                          *)
Theorem C11_minres_output_residual (S : mr_settings R) (g : mr_args R) (M : nat -> nat -> nat -> R) q j i :
  g_pre g = None -> 0 < g_eps g -> 0 < s_zero_thr S ->
  (forall X j i, (j < size (g_rhs g))%N -> (i < g_n g)%N ->
     cg2 AR (g_mm g X) j i = \sum_(l < g_n g) M j i l * cg2 AR X j l) ->
  (q < shifts_Q g)%N -> (j < size (g_rhs g))%N -> (i < g_n g)%N -> ~~ rhs_col_is_zero AR S g j ->
  let u := mr_prepare AR S g in
  let o := minres AR S g in
  let k := o_iters o in
  let sh := shifts_tab AR g in
  let v := if g_value g is Some a then a else 1 in
  let x l := xget AR (o_sol o) q j l in
  let st := st_iter AR (shifts_Q g) (size (g_rhs g)) (g_n g) (g_mm g) (fun X => X) (g_value g) sh (g_eps g) k
              (st_init AR (shifts_Q g) (size (g_rhs g)) (g_n g) (fun X => X) (u_rhs u)) in
  (k <= u_iters u)%N /\
  cg2 AR (g_rhs g) j i - ((\sum_(l < g_n g) M j i l * x l) * v + qget AR sh q j * x i)
  = sget AR (u_rhs_norm u) j
    * (qget AR (scp st) q j
       * pbar (shifts_Q g) (size (g_rhs g)) (g_n g) (g_mm g) (g_value g) sh (g_eps g) q j (u_rhs u) k i).
Proof. move=> np he ht hl hq hj hi hnz; exact: (minres_output_residual np he ht hl hq hj hi hnz). Qed.

(* the orthogonality half of Paige-Saunders, as far as it goes without convergence theory: no preconditioner, linear
   closure with a SYMMETRIC matrix, a column whose normalised rhs is not zero, and no Lanczos breakdown during the
   first k bodies (the argument of beta_curr.clamp_min_(eps) is >= eps, i.e. the clamp is inactive).  Then the
   Lanczos vectors z_1 .. z_{k+1} of the loop are orthonormal, and the squared norm of the TRUE residual of the k-th
   iterate of every shifted system equals scale_prev_k^2: the code's scale term is the residual norm, which by
   C11_scale_nonincreasing never grows.  (Behaviour at breakdown and minimality of the residual: NOT proved.) *)
Section Orthogonality.
Variables (Q C n : nat) (mm : cols R -> cols R) (value : option R) (shifts : qc R) (eps : R).
Variable M : nat -> nat -> nat -> R.
Variables (j : nat) (rhs : cols R).
Hypothesis eps_pos : 0 < eps.
Hypothesis mm_lin : forall X j i, (j < C)%N -> (i < n)%N ->
  cg2 AR (mm X) j i = \sum_(l < n) M j i l * cg2 AR X j l.
Hypothesis M_sym : forall j i l, M j i l = M j l i.
Hypothesis hj : (j < C)%N.
Hypothesis rhs_nz : 0 < \sum_(i < n) cg2 AR rhs j i * cg2 AR rhs j i.
Notation iter k := (st_iter AR Q C n mm (fun X => X) value shifts eps k (st_init AR Q C n (fun X => X) rhs)).
Definition C11_no_breakdown (m : nat) : Prop :=
  let w := lz_w AR C n mm value (iter m) in
  eps <= Num.sqrt (sget AR (e_sum AR C n (e_mul AR C n w w)) j).

Theorem C11_lanczos_orthonormal k a b :
  (forall m, (m < k)%N -> C11_no_breakdown m) -> (a <= k)%N -> (b <= k)%N ->
  \sum_(i < n) cg2 AR (zp1 (iter a)) j i * cg2 AR (zp1 (iter b)) j i = (a == b)%:R.
Proof.
move=> nb ha hb.
have nb' : forall m, (m < k)%N -> no_breakdown Q C n mm value shifts eps M j rhs m.
  by move=> m hm; apply/(no_breakdown_model Q value shifts eps mm_lin hj rhs m); apply: nb.
exact: (lanczos_orthonormal eps_pos mm_lin M_sym hj rhs_nz nb' ha hb).
Qed.

Theorem C11_minres_residual_norm k q :
  (forall m, (m < k)%N -> C11_no_breakdown m) -> (q < Q)%N ->
  let v := if value is Some a then a else 1 in
  let x l := xget AR (sol (iter k)) q j l in
  \sum_(i < n) (cg2 AR rhs j i - ((\sum_(l < n) M j i l * x l) * v + qget AR shifts q j * x i)) ^+ 2
  = qget AR (scp (iter k)) q j ^+ 2.
Proof.
move=> nb hq.
have nb' : forall m, (m < k)%N -> no_breakdown Q C n mm value shifts eps M j rhs m.
  by move=> m hm; apply/(no_breakdown_model Q value shifts eps mm_lin hj rhs m); apply: nb.
exact: (residual_norm_is_scale eps_pos mm_lin M_sym hj rhs_nz hq nb').
Qed.

(* THE MINIMAL-RESIDUAL PROPERTY.  Same hypotheses.  The shifted operator A_s = value*K + s_q I on vectors given as functions
   of the index, and the Krylov vectors b^, (value K) b^, (value K)^2 b^, ... : *)
Definition C11_shifted_op (q : nat) (f : nat -> R) (i : nat) : R :=
  (\sum_(l < n) M j i l * f l) * (if value is Some a then a else 1) + qget AR shifts q j * f i.
Fixpoint C11_krylov (m : nat) : nat -> R :=
  if m is m'.+1 then fun i => (\sum_(l < n) M j i l * C11_krylov m' l) * (if value is Some a then a else 1)
  else cg2 AR rhs j.

(* for every shift q and EVERY vector y = sum_{m<k} c_m (value K)^m b^ of the k-dimensional Krylov space (every choice of
   the coefficients c), the residual of the iterate after k loop bodies is not larger than the residual of y:
   x_k is the minimal-residual iterate of (value K + s_q I) x = b^ over the Krylov space. *)
Theorem C11_minres_minimal_residual k q (c : nat -> R) :
  (forall m, (m < k)%N -> C11_no_breakdown m) -> (q < Q)%N ->
  \sum_(i < n) (cg2 AR rhs j i - C11_shifted_op q (fun l => xget AR (sol (iter k)) q j l) i) ^+ 2
  <= \sum_(i < n) (cg2 AR rhs j i - C11_shifted_op q (fun l => \sum_(m < k) c m * C11_krylov m l) i) ^+ 2.
Proof.
move=> nb hq.
have nb' : forall m, (m < k)%N -> no_breakdown Q C n mm value shifts eps M j rhs m.
  by move=> m hm; apply/(no_breakdown_model Q value shifts eps mm_lin hj rhs m); apply: nb.
exact: (@minres_minimal_residual R Q C n mm value shifts eps eps_pos M mm_lin q j hq hj rhs M_sym rhs_nz k c C11_krylov
          (fun _ _ => erefl) (fun _ _ _ => erefl) nb').
Qed.

(* the range of k in the three theorems above: orthonormal z_1..z_{k+1} need k + 1 <= n, so a clamp must become active
   (Lanczos breakdown) during the first n bodies *)
Theorem C11_lanczos_breakdown_within_n k : (forall m, (m < k)%N -> C11_no_breakdown m) -> (k < n)%N.
Proof.
move=> nb; apply: (@lanczos_breakdown_within_n R Q C n mm value shifts eps eps_pos M mm_lin j hj rhs M_sym rhs_nz k).
by move=> m hm; apply/(no_breakdown_model Q value shifts eps mm_lin hj rhs m); apply: nb.
Qed.

(* what the body does AT an exact breakdown (the unnormalised Lanczos vector of body k is the zero vector, as happens in
   exact arithmetic when the Krylov space becomes invariant): beta is clamped to eps, the new z is 0, and the residual
   VECTOR of every shifted system is multiplied by sin^2 = eps^2 / (dg0^2 + eps^2), dg0 the rotated diagonal entry
   (line 258).  Needs neither symmetry nor orthogonality.  (A lower bound on |dg0| is NOT proved.) *)
Theorem C11_minres_exact_breakdown_step k q :
  (forall i, (i < n)%N -> cg2 AR (lz_w AR C n mm value (iter k)) j i = 0) -> (q < Q)%N ->
  let s := g_sin (R:=R) C n mm (fun X => X) value shifts eps (iter k) q j in
  [/\ sget AR (bprev (iter k.+1)) j = eps,
      forall i, (i < n)%N -> cg2 AR (zp1 (iter k.+1)) j i = 0,
      s = eps / Num.sqrt (g_dg0 (R:=R) C n mm value shifts (iter k) q j ^+ 2 + eps ^+ 2)
    & forall i, (i < n)%N ->
        cg2 AR rhs j i - C11_shifted_op q (fun l => xget AR (sol (iter k.+1)) q j l) i
        = s ^+ 2 * (cg2 AR rhs j i - C11_shifted_op q (fun l => xget AR (sol (iter k)) q j l) i)].
Proof.
move=> hw hq.
apply: (@breakdown_step R Q C n mm value shifts eps eps_pos M mm_lin q j hq hj rhs k).
by move=> i hi; rewrite -(w_eq Q value shifts eps mm_lin hj rhs k hi); exact: hw.
Qed.

End Orthogonality.

(* the minimal-residual property about the tensor minres RETURNS (stopping rule, zero mask, normalisation by ||b|| and
   un-normalisation included): for a column that is not a zero column, with k = o_iters = the number of loop bodies executed
   (if no breakdown happened during them), the returned solution of every shift has the smallest residual among all vectors
   sum_{m<k} c_m (value K)^m b  of the Krylov space of the UNNORMALISED rhs column b *)
Theorem C11_minres_output_minimal (S : mr_settings R) (g : mr_args R) (M : nat -> nat -> nat -> R) q j (c : nat -> R) :
  g_pre g = None -> 0 < g_eps g -> 0 < s_zero_thr S ->
  (forall X j i, (j < size (g_rhs g))%N -> (i < g_n g)%N ->
     cg2 AR (g_mm g X) j i = \sum_(l < g_n g) M j i l * cg2 AR X j l) ->
  (forall j i l, M j i l = M j l i) ->
  (q < shifts_Q g)%N -> (j < size (g_rhs g))%N -> ~~ rhs_col_is_zero AR S g j ->
  let u := mr_prepare AR S g in
  let o := minres AR S g in
  let k := o_iters o in
  let sh := shifts_tab AR g in
  (forall m, (m < k)%N ->
     C11_no_breakdown (shifts_Q g) (size (g_rhs g)) (g_n g) (g_mm g) (g_value g) sh (g_eps g) j (u_rhs u) m) ->
  \sum_(i < g_n g) (cg2 AR (g_rhs g) j i
                    - C11_shifted_op (g_n g) (g_value g) sh M j q (fun l => xget AR (o_sol o) q j l) i) ^+ 2
  <= \sum_(i < g_n g) (cg2 AR (g_rhs g) j i
                       - C11_shifted_op (g_n g) (g_value g) sh M j q
                           (fun l => \sum_(m < k) c m * C11_krylov (g_n g) (g_value g) M j (g_rhs g) m l) i) ^+ 2.
Proof.
move=> np he ht hl hs hq hj hnz /= nb.
apply: (@minres_output_minimal R S g M np he ht hl hs q j c (C11_krylov (g_n g) (g_value g) M j (g_rhs g)) hq hj hnz
          (fun _ => erefl) (fun _ _ => erefl)).
move=> m hm.
apply/(no_breakdown_model (shifts_Q g) (g_value g) (shifts_tab AR g) (g_eps g) hl hj (u_rhs (mr_prepare AR S g)) m).
exact: nb.
Qed.

(* the hypotheses of Section Orthogonality are satisfiable, and so is the exact-breakdown hypothesis: K = [[0,1],[1,0]]
   (symmetric, indefinite), b^ = e_1, one shift, eps = 1.  Then z_1 = e_1, z_2 = e_2: no breakdown at body 0, so the theorems
   apply with k = 1 = n - 1 (the largest k C11_lanczos_breakdown_within_n allows), and the unnormalised Lanczos vector of
   body 1 is exactly 0 (hypothesis of C11_minres_exact_breakdown_step with k = 1) *)
Example C11_orthogonality_hypotheses_satisfiable :
  let mm := fun X : cols R => ctab 1 2 (fun j i => cg2 AR X j (1 - i)) in
  let M := fun (_ i l : nat) => if (i + l == 1)%N then (1 : R) else 0 in
  let rhs : cols R := [:: [:: 1; 0]] in
  let sh : qc R := [:: [:: 0]] in
  [/\ forall X j i, (j < 1)%N -> (i < 2)%N -> cg2 AR (mm X) j i = \sum_(l < 2) M j i l * cg2 AR X j l,
      forall j i l, M j i l = M j l i,
      0 < \sum_(i < 2) cg2 AR rhs 0 i * cg2 AR rhs 0 i,
      forall m, (m < 1)%N -> C11_no_breakdown 1 1 2 mm None sh 1 0 rhs m
    & forall i, (i < 2)%N ->
        cg2 AR (lz_w AR 1 2 mm None (st_iter AR 1 1 2 mm (fun X => X) None sh 1 1 (st_init AR 1 1 2 (fun X => X) rhs))) 0 i = 0].
Proof.
split.
- exact: ex_lin.
- exact: ex_sym.
- by have := ex_nz1 R; rewrite /fdot => ->; exact: ltr01.
- move=> [|//] _; apply/(no_breakdown_model 1 None (ex_shifts R) 1 (@ex_lin R) (ltnSn 0) (ex_rhs R) 0).
  exact: ex_no_breakdown0.
- by move=> i hi; rewrite (w_eq 1 None (ex_shifts R) 1 (@ex_lin R) (ltnSn 0) (ex_rhs R) 1 hi); exact: ex_W1.
Qed.

(* the hypotheses of C11_minres_scaling and C11_minres_output_residual are satisfiable: the 1 x 1 system
   1 * x = 1 with the identity closure, threshold 1, eps 1, scaling factor 2 *)
Example C11_exact_hypotheses_satisfiable :
  let S := MkSettings 1000 (1 : R) 1 in
  let g := MkArgs (fun X : cols R => X) None 1 false [:: [:: (1 : R)]] 1 None None None in
  let M := fun (_ i l : nat) => if i == l then (1 : R) else 0 in
  let c := fun _ : nat => (2 : R) in
  [/\ g_pre g = None, 0 < g_eps g, 0 < s_zero_thr S,
      (forall X j i, (j < size (g_rhs g))%N -> (i < g_n g)%N ->
         cg2 AR (g_mm g X) j i = \sum_(l < g_n g) M j i l * cg2 AR X j l)
    & forall j, (j < size (g_rhs g))%N ->
        [/\ 0 < c j, ~~ rhs_col_is_zero AR S g j & ~~ rhs_col_is_zero AR S (scale_rhs c g) j]].
Proof.
split; rewrite ?ltr01 //.
- by move=> X [|//] [|//] _ _; rewrite big_ord1 /= mul1r.
- move=> [|//] _; split; first by rewrite ltr0n.
  + by rewrite /rhs_col_is_zero /= /norm2 /dot /= /vget /= mul1r add0r sqrtr1 ltxx.
  + rewrite /rhs_col_is_zero /= /norm2 /dot /= /vget /= /cg2 /vget /= mulr1 add0r -expr2 sqrtr_sqr.
    by rewrite ger0_norm ?ler0n // -leNgt ler1n.
Qed.

End ExactArithmetic.

Section ContourQuadrature.
Variable F : fieldType.
Local Open Scope ring_scope.

(* spectral lifting: exact shifted solves + scalar rule on the eigenvalues => matrix function *)
Theorem C11_ciq_spectral_lifting n (K P : 'M[F]_n) (lam r : 'rV[F]_n) (v : F) Nq (w s : 'I_Nq -> F)
    (x : 'I_Nq -> 'cV[F]_n) (b : 'cV[F]_n) :
  P^T *m P = 1%:M -> K = P *m diag_mx lam *m P^T ->
  (forall q i, v * lam 0 i + s q != 0) ->
  (forall q, (v *: K + (s q)%:M) *m x q = b) ->
  (forall i, \sum_q w q / (v * lam 0 i + s q) = r 0 i) ->
  \sum_q w q *: x q = P *m diag_mx r *m P^T *m b.
Proof. move=> o sp nz hx hr; exact: (ciq_spectral_lifting o sp nz hx hr). Qed.

(* with r_i = lam_i^(-1/2): the result is K^(-1/2) b in the sense that applying the map twice gives K^-1 b
   (sqrt_inv_matmul twice = solve), K times the map squares to K and has covariance K (ciq sampling) *)
Theorem C11_ciq_twice_is_inverse n (K P : 'M[F]_n) (lam r : 'rV[F]_n) (b : 'cV[F]_n) :
  P^T *m P = 1%:M -> K = P *m diag_mx lam *m P^T -> (forall i, r 0 i * r 0 i * lam 0 i = 1) ->
  let Rt := P *m diag_mx r *m P^T in
  [/\ Rt *m (Rt *m b) = invmx K *m b, K \in unitmx, (K *m Rt) *m (K *m Rt) = K
    & (K *m Rt) *m (K *m Rt)^T = K].
Proof.
move=> o sp rt; split;
  [exact: (root_twice o sp rt) | exact: (K_unit o sp rt) | exact: (sqrt_squares o sp rt) | exact: (sqrt_covariance o sp rt)].
Qed.

(* left-factor variant: the no-shift solve (value = -1) gives  -(y^T l) = l^T K^-1 l, an entry of
   diag(L K^-1 L^T) *)
Theorem C11_ciq_inv_quad n (K P : 'M[F]_n) (lam : 'rV[F]_n) (y l : 'cV[F]_n) :
  K = P *m diag_mx lam *m P^T -> K \in unitmx -> (-1) *: K *m y = l ->
  - (y^T *m l) = l^T *m invmx K *m l.
Proof. move=> sp; exact: (inv_quad_term sp). Qed.

(* the same statement about the list model: column j of (solves * weights).sum(0) as computed by the
   transcription of SqrtInvMatmul.forward / the sampling branch *)
Theorem C11_ciq_model_partial Nq C n t (weights : seq (seq F)) (solves : qcols F) j
    (K P : 'M[F]_n) (lam r : 'rV[F]_n) (v : F) (shift : 'I_Nq -> F) (b : 'cV[F]_n) :
  (j < C)%N ->
  P^T *m P = 1%:M -> K = P *m diag_mx lam *m P^T ->
  (forall q i, v * lam 0 i + shift q != 0) ->
  (* exact shifted solves: what MINRES convergence would give — NOT PROVED *)
  (forall q : 'I_Nq, (v *: K + (shift q)%:M) *m cv_of n (cget (nth [::] solves q) j) = b) ->
  (* scalar quadrature rule on the spectrum: what the elliptic quadrature would give — NOT PROVED *)
  (forall i, \sum_(q < Nq) sget (ArF F) (nth [::] weights q) (j %/ t) / (v * lam 0 i + shift q) = r 0 i) ->
  cv_of n (cget (wsum (ArF F) Nq C n t weights solves) j) = P *m diag_mx r *m P^T *m b.
Proof. exact: wsum_exact. Qed.

(* the hypotheses of the lifting theorems are satisfiable (1 x 1, one node, in every field) *)
Example C11_ciq_hypotheses_satisfiable :
  let K : 'M[F]_1 := 1%:M in let P : 'M[F]_1 := 1%:M in let lam : 'rV[F]_1 := const_mx 1 in
  let r : 'rV[F]_1 := const_mx 1 in let v : F := -1 in
  let w : 'I_1 -> F := fun _ => -1 in let s : 'I_1 -> F := fun _ => 0 in
  [/\ P^T *m P = 1%:M, K = P *m diag_mx lam *m P^T, (forall q i, v * lam 0 i + s q != 0),
      (forall i, \sum_q w q / (v * lam 0 i + s q) = r 0 i) & (forall i, r 0 i * r 0 i * lam 0 i = 1)].
Proof.
split.
- by rewrite trmx1 mulmx1.
- by rewrite diag_const_mx trmx1 !mulmx1.
- by move=> q i; rewrite mxE mulr1 addr0 oppr_eq0 oner_eq0.
- by move=> i; rewrite big_ord1 !mxE mulr1 addr0 divff // oppr_eq0 oner_eq0.
- by move=> i; rewrite !mxE !mulr1.
Qed.

End ContourQuadrature.
