(* C11 — the binary64 instance of the model and the Gallina comparators used by the generated
   correspondence shards (gen/cases_*.v): model output vs what minres / contour_integral_quad /
   SqrtInvMatmul.forward returned on the same inputs. *)
From Coq Require Import PrimFloat.
From mathcomp Require Import ssreflect ssrfun ssrbool eqtype ssrnat seq div.
Require Import C11.Model.
Set Implicit Arguments.
Unset Strict Implicit.
Unset Printing Implicit Defensive.

Definition ArFloat : Arith float :=
  MkArith zero one PrimFloat.add PrimFloat.sub PrimFloat.mul PrimFloat.div
          PrimFloat.opp PrimFloat.sqrt PrimFloat.abs PrimFloat.ltb PrimFloat.leb PrimFloat.eqb.

Notation fcols := (cols float).
Notation fqcols := (qcols float).
Notation fmat := (mat float).

(* every torch.empty buffer starts filled with NaN: a stale / uninitialised read would poison the output *)
Definition nan_junk (Q C n : nat) : mr_junk float :=
  let c := mkseq (fun _ => nan) C in
  let cn := mkseq (fun _ => mkseq (fun _ => nan) n) C in
  let q := mkseq (fun _ => c) Q in
  let x := mkseq (fun _ => cn) Q in
  MkJunk c q c cn q q q q q q x x q.

Definition fmax (x y : float) : float := if PrimFloat.ltb x y then y else x.
Definition vmaxabs (v : seq float) : float := foldl (fun a x => fmax a (PrimFloat.abs x)) zero v.
Definition is_nanb (x : float) : bool := ~~ PrimFloat.eqb x x.
(* NaN only matches NaN; otherwise |a - b| <= bound or a = b (covers infinities) *)
Definition close1 (bound : float) (a b : float) : bool :=
  if is_nanb a || is_nanb b then is_nanb a && is_nanb b
  else PrimFloat.leb (PrimFloat.abs (PrimFloat.sub a b)) bound || PrimFloat.eqb a b.
Fixpoint all2 (T : Type) (f : T -> T -> bool) (a b : seq T) : bool :=
  match a, b with
  | [::], [::] => true
  | x :: r, y :: s => f x y && all2 f r s
  | _, _ => false
  end.
(* one column: entries agree relative to the larger max-norm of the two columns (no absolute floor: an
   all-zero column must be reproduced exactly) *)
Definition vclose (tol : float) (a b : seq float) : bool :=
  let sc := fmax (vmaxabs a) (vmaxabs b) in
  all2 (close1 (PrimFloat.mul tol sc)) a b.
Definition cclose (tol : float) (X Y : fcols) : bool := all2 (vclose tol) X Y.
Definition xclose (tol : float) (X Y : fqcols) : bool := all2 (cclose tol) X Y.
Definition sclose (tol : float) (X Y : seq (seq float)) : bool := all2 (vclose tol) X Y.

Definition dense_mm (t : nat) (Ms : seq fmat) : fcols -> fcols := tensor_mm ArFloat t Ms.

(* ---------------------------------------------------------------------------------------- *)
(* minres *)
Record mcase := MkM {
  m_set : mr_settings float;
  m_args : mr_args float;
  m_batch : seq nat;          (* batch shape of mm_(rhs) *)
  m_t : nat;                  (* its number of columns *)
  m_level : nat;              (* 0: output shape only; 1: + iteration count and values *)
  m_tol : float;
  m_oshape : seq nat;         (* shape of the tensor minres returned *)
  m_osol : fqcols;            (* its values, Q x C x n *)
  m_oiters : option nat       (* calls of matmul_closure - 1 *)
}.

(* reason codes: 0 agree; 1 output shape; 2 number of loop bodies; 3 values;
   4 (internal) buffer model and buffer-free model differ *)
Definition check_m (c : mcase) : nat :=
  let g := m_args c in
  let u := mr_prepare ArFloat (m_set c) g in
  let o := minres_buf ArFloat (nan_junk (u_Q u) (u_C u) (g_n g)) (m_set c) g in
  if out_shape g (m_batch c) (m_t c) != m_oshape c then 1
  else if m_level c == 0 then 0
  else if (if m_oiters c is Some k then k != o_iters o else false) then 2
  else if ~~ xclose (m_tol c) (o_sol o) (m_osol c) then 3
  else let o' := minres ArFloat (m_set c) g in
       if (o_iters o' != o_iters o) || ~~ xclose zero (o_sol o') (o_sol o) then 4 else 0.

(* ---------------------------------------------------------------------------------------- *)
(* contour_integral_quad (given the shifts / weights the implementation computed) and
   SqrtInvMatmul.forward *)
Record qcase := MkQ {
  q_set : mr_settings float;
  q_K : seq fmat;             (* B matrices *)
  q_n : nat; q_t : nat; q_B : nat;
  q_rhs : fcols;              (* B*t columns *)
  q_inverse : bool;
  q_shifts : seq (seq float); (* (Nq+1) x B *)
  q_eps : float;
  q_tol : float;
  q_osolves : fqcols;         (* Nq x C x n *)
  q_ono_shift : fcols;
  q_oiters : option nat
}.

(* 0 agree; 2 iterations; 3 solves; 5 no_shift_solves *)
Definition check_q (c : qcase) : nat :=
  let t := q_t c in
  let r := ciq ArFloat (nan_junk (size (q_shifts c)) (q_B c * t) (q_n c)) (q_set c) (dense_mm t (q_K c))
               (q_n c) t (q_B c) (q_rhs c) (q_inverse c) (q_shifts c) (q_eps c) in
  if (if q_oiters c is Some k then k != c_iters r else false) then 2
  else if ~~ xclose (q_tol c) (c_solves r) (q_osolves c) then 3
  else if ~~ cclose (q_tol c) (c_no_shift r) (q_ono_shift c) then 5
  else 0.

Record fcase := MkF {
  f_set : mr_settings float;
  f_K : seq fmat;
  f_n : nat; f_t : nat; f_B : nat;
  f_rhs : fcols;
  f_lhs : option (nat * seq (seq (seq float)));      (* o, B x o rows of length n *)
  f_shifts : seq (seq float);
  f_weights : seq (seq float);                       (* Nq x B *)
  f_eps : float;
  f_tol : float;
  f_ores : fcols;             (* sqrt_inv_matmul_res as B*t columns *)
  f_oiq : seq (seq float)     (* inv_quad_res, B x o (B x 1 zeros without lhs) *)
}.

(* 0 agree; 6 sqrt_inv_matmul_res; 7 inv_quad_res *)
Definition check_f (c : fcase) : nat :=
  let t := f_t c in
  let o := if f_lhs c is Some (o, _) then o else 0 in
  let '(res, iq, _) :=
    sqrt_inv_matmul ArFloat (nan_junk (size (f_shifts c)) (f_B c * (t + o)) (f_n c)) (f_set c)
                    (dense_mm (t + o) (f_K c)) (f_n c) t (f_B c) (f_rhs c) (f_lhs c)
                    (f_shifts c) (f_weights c) (f_eps c) in
  if ~~ cclose (f_tol c) res (f_ores c) then 6
  else if ~~ sclose (f_tol c) iq (f_oiq c) then 7
  else 0.

(* the ciq_samples branch of zero_mean_mvn_samples: (solves * weights).sum(0) of contour_integral_quad(…, inverse=False)
   on the base samples; one flat batch member per (sample, batch member), one column each *)
Record scase := MkS {
  z_set : mr_settings float;
  z_K : seq fmat;             (* ns*B matrices *)
  z_n : nat; z_B : nat;       (* z_B = ns*B *)
  z_rhs : fcols;              (* the base samples, ns*B columns *)
  z_shifts : seq (seq float); (* (Nq+1) x ns*B *)
  z_weights : seq (seq float);
  z_eps : float;
  z_tol : float;
  z_ores : fcols              (* the samples, ns*B columns *)
}.

(* 0 agree; 8 samples *)
Definition check_s (c : scase) : nat :=
  let r := ciq ArFloat (nan_junk (size (z_shifts c)) (z_B c) (z_n c)) (z_set c) (dense_mm 1 (z_K c))
               (z_n c) 1 (z_B c) (z_rhs c) false (z_shifts c) (z_eps c) in
  let res := wsum ArFloat (size (z_weights c)) (z_B c) (z_n c) 1 (z_weights c) (c_solves r) in
  if ~~ cclose (z_tol c) res (z_ores c) then 8 else 0.

Inductive case := CM (c : mcase) | CQ (c : qcase) | CF (c : fcase) | CS (c : scase).
Definition check_case (c : case) : nat :=
  match c with CM c => check_m c | CQ c => check_q c | CF c => check_f c | CS c => check_s c end.

(* indices and reason codes (index * 16 + code) of the cases where model and implementation differ *)
Fixpoint bad_cases (cs : seq case) (i : nat) : seq nat :=
  match cs with
  | [::] => [::]
  | c :: r => let k := check_case c in
              if k == 0 then bad_cases r i.+1 else (i * 16 + k) :: bad_cases r i.+1
  end.
