(* C11 — the minimal-residual half of Paige-Saunders.
   Context as in ProofsLanczos.v: exact arithmetic, no preconditioner, linear closure with a SYMMETRIC matrix, a column
   whose normalised rhs is not zero.  With  d_l  the search vector the loop produces in body l (search_curr),
   u_l = (value K + s I) d_l,  x_k = sum_{l<k} tau_l d_l  the k-th iterate of shift q:
   * span{z_1..z_k} = span{d_0..d_{k-1}}  (the search recurrence is triangular with the non-zero diagonal radius),
     and  (value K)^m b^  lies in span{z_1..z_{m+1}}  (three-term recurrence) — both without any hypothesis;
   * if the Lanczos vectors z_1..z_{k+1} are orthonormal (ProofsLanczos: no breakdown during the first k bodies),
     the true residual r_k = scale_prev_k pbar_k is orthogonal to u_l for every l < k;
   * hence  || b^ - A_s x_k || <= || b^ - A_s y ||  for EVERY y in the Krylov space
     span{ b^, (value K) b^, ..., (value K)^(k-1) b^ } : the iterate is the minimal-residual iterate.
   Also: what one loop body does AT an exact breakdown (unnormalised Lanczos vector = 0): the residual vector is
   multiplied by sin^2 = eps^2 / (dg0^2 + eps^2). *)
From mathcomp Require Import all_ssreflect all_algebra.
From mathcomp Require Import ring.
Require Import C11.Model C11.ProofsAny C11.ProofsExact C11.ProofsResidual C11.ProofsLanczos.
Set Implicit Arguments.
Unset Strict Implicit.
Unset Printing Implicit Defensive.
Import Order.Theory GRing.Theory Num.Theory.
Local Open Scope ring_scope.

(* ---- finite linear spans of a family of vectors (vectors = functions of the index, compared on i < n) ---- *)
Section Span.
Variable R : rcfType.
Variable n : nat.

Inductive span (G : nat -> nat -> R) (k : nat) : (nat -> R) -> Prop :=
| span_zero : span G k (fun _ => 0)
| span_add f c l : (l < k)%N -> span G k f -> span G k (fun i => f i + c * G l i).

Definition inspan (G : nat -> nat -> R) (k : nat) (f : nat -> R) : Prop :=
  exists2 g, span G k g & forall i, (i < n)%N -> f i = g i.

Variable G : nat -> nat -> R.

Lemma span_mono k k' f : (k <= k')%N -> span G k f -> span G k' f.
Proof.
move=> hk; elim=> [|g c l hl _ IH]; first exact: span_zero.
by apply: span_add => //; exact: leq_trans hl hk.
Qed.

Lemma span_addS k f g : span G k f -> span G k g -> exists2 h, span G k h & forall i, h i = f i + g i.
Proof.
move=> sf; elim=> [|g0 c l hl _ [h0 sh0 e0]].
  by exists f => // i; rewrite addr0.
exists (fun i => h0 i + c * G l i); first exact: span_add.
by move=> i; rewrite e0 addrA.
Qed.

Lemma span_scaleS k a f : span G k f -> exists2 h, span G k h & forall i, h i = a * f i.
Proof.
elim=> [|g0 c l hl _ [h0 sh0 e0]].
  by exists (fun _ => 0); [exact: span_zero | move=> i; rewrite mulr0].
exists (fun i => h0 i + (a * c) * G l i); first exact: span_add.
by move=> i; rewrite e0 mulrDr mulrA.
Qed.

Lemma inspan_zero k f : (forall i, (i < n)%N -> f i = 0) -> inspan G k f.
Proof. by move=> H; exists (fun _ => 0) => //; exact: span_zero. Qed.

Lemma inspan_ext k f f' : (forall i, (i < n)%N -> f' i = f i) -> inspan G k f -> inspan G k f'.
Proof. by move=> H [g sg e]; exists g => // i hi; rewrite H // e. Qed.

Lemma inspan_mono k k' f : (k <= k')%N -> inspan G k f -> inspan G k' f.
Proof. by move=> hk [g sg e]; exists g => //; exact: span_mono sg. Qed.

Lemma inspan_gen k l : (l < k)%N -> inspan G k (G l).
Proof.
move=> hl; exists (fun i => 0 + 1 * G l i); first by apply: span_add => //; exact: span_zero.
by move=> i _; rewrite add0r mul1r.
Qed.

Lemma inspan_lin k a b f g : inspan G k f -> inspan G k g -> inspan G k (fun i => a * f i + b * g i).
Proof.
move=> [f0 sf ef] [g0 sg eg].
have [f1 sf1 ef1] := span_scaleS a sf.
have [g1 sg1 eg1] := span_scaleS b sg.
have [h sh eh] := span_addS sf1 sg1.
by exists h => // i hi; rewrite eh ef1 eg1 ef // eg.
Qed.

Lemma inspan_sum k k' (c : nat -> R) (F : nat -> nat -> R) :
  (forall m, (m < k')%N -> inspan G k (F m)) -> inspan G k (fun i => \sum_(m < k') c m * F m i).
Proof.
elim: k' => [|k' IH] H.
  by apply: inspan_zero => i _; rewrite big_ord0.
have h1 : inspan G k (fun i => \sum_(m < k') c m * F m i) by apply: IH => m hm; apply: H; exact: ltnW.
have h2 : inspan G k (F k') by apply: H.
apply: inspan_ext (inspan_lin 1 (c k') h1 h2) => i _.
by rewrite big_ord_recr /= mul1r.
Qed.

End Span.

Section SpanTrans.
Variable R : rcfType.
Variable n : nat.
(* a span of vectors that lie in another span lies in that span *)
Lemma inspan_trans (G G' : nat -> nat -> R) k k' f :
  (forall l, (l < k)%N -> inspan n G' k' (G l)) -> inspan n G k f -> inspan n G' k' f.
Proof.
move=> H [g sg e]; apply: inspan_ext e _.
elim: sg => [|g0 c l hl _ IH]; first exact: inspan_zero.
apply: inspan_ext (inspan_lin 1 c IH (H l hl)) => i _.
by rewrite mul1r.
Qed.

End SpanTrans.

(* ---- facts about fdot on abstract vectors (kept abstract so that no model term is ever unfolded by a rewrite) ---- *)
Section DotFacts.
Variable R : rcfType.
Variable n : nat.
Notation fdot := (@fdot R n).

Lemma perp_comb (a b : R) f g u : fdot f u = 0 -> fdot g u = 0 -> fdot (fun i => a * f i + b * g i) u = 0.
Proof. by move=> h1 h2; rewrite dot_lin2 h1 h2 !mulr0 addr0. Qed.

Lemma perp_comb_r (a b : R) f g u z :
  (forall i, (i < n)%N -> u i = a * f i + b * g i) -> fdot z f = 0 -> fdot z g = 0 -> fdot z u = 0.
Proof.
move=> hu h1 h2; rewrite (dot_extr z hu) dotC; apply: perp_comb; by rewrite dotC.
Qed.

Lemma perp_scale (a : R) r p v : (forall i, (i < n)%N -> r i = a * p i) -> fdot p v = 0 -> fdot r v = 0.
Proof.
move=> hr hp; rewrite (dot_extl (f' := fun i => a * p i + 0 * p i)); last by move=> i hi; rewrite hr // mul0r addr0.
by rewrite dot_lin2 hp !mulr0 addr0.
Qed.

(* (u, p') is the rotation of the orthonormal pair (p, z) by the angle (c, s): u is orthogonal to p' *)
Lemma rot_perp (s c : R) p z u :
  fdot p p = 1 -> fdot z z = 1 -> fdot p z = 0 ->
  (forall i, (i < n)%N -> u i = s * z i + c * p i) ->
  fdot (fun i => - s * p i + c * z i) u = 0.
Proof.
move=> hp hz hpz hu.
have hzp : fdot z p = 0 by rewrite dotC.
rewrite (dot_extr _ hu) dot_lin2.
have -> : fdot p (fun i => s * z i + c * p i) = c by rewrite dotC dot_lin2 hzp hp mulr0 add0r mulr1.
have -> : fdot z (fun i => s * z i + c * p i) = s by rewrite dotC dot_lin2 hz hpz mulr0 addr0 mulr1.
by rewrite mulNr mulrC addNr.
Qed.

Lemma fdot_ge0 f : 0 <= fdot f f.
Proof. by apply: sumr_ge0 => i _; rewrite -expr2 sqr_ge0. Qed.

Lemma pyth_le (r v t : nat -> R) :
  (forall i, (i < n)%N -> t i = r i + v i) -> fdot r v = 0 -> fdot r r <= fdot t t.
Proof.
move=> ht hrv.
have ht' : forall i, (i < n)%N -> t i = 1 * r i + 1 * v i by move=> i hi; rewrite ht // !mul1r.
rewrite (dot_extl _ ht') (dot_extr _ ht') dot_comb2 hrv mulr0 addr0 expr1n !mul1r ler_addl.
exact: fdot_ge0.
Qed.

Lemma sum_sqr_fdot (f : nat -> R) : \sum_(i < n) f i ^+ 2 = fdot f f.
Proof. by apply: eq_bigr => i _; rewrite expr2. Qed.

End DotFacts.

Section Minimal.
Variable R : rcfType.
Variables (Q C n : nat).
Variable mm : cols R -> cols R.
Variable value : option R.
Variable shifts : qc R.
Variable eps : R.
Hypothesis eps_pos : 0 < eps.
Variable M : nat -> nat -> nat -> R.
Hypothesis mm_lin : forall X j i, (j < C)%N -> (i < n)%N ->
  cg2 (ArR R) (mm X) j i = \sum_(l < n) M j i l * cg2 (ArR R) X j l.

Notation AR := (ArR R).
Notation pre := (fun X : cols R => X).
Notation st_step := (@st_step R AR Q C n mm pre value shifts eps).
Notation st_iter := (@st_iter R AR Q C n mm pre value shifts eps).
Notation st_init := (@st_init R AR Q C n pre).
Notation sg := (sget AR).
Notation cg := (cg2 AR).
Notation qg := (qget AR).
Notation xg := (xget AR).

Variables (q j : nat).
Hypotheses (hq : (q < Q)%N) (hj : (j < C)%N).
Variable rhs : cols R.
Notation iter k := (st_iter k (st_init rhs)).
Notation Z := (@Z R Q C n mm value shifts eps j rhs).
Notation Zp := (@Zp R Q C n mm value shifts eps j rhs).
Notation beta := (@beta R Q C n mm value shifts eps j rhs).
Notation alpha := (@alpha R Q C n mm value shifts eps j rhs).
Notation pbar := (@pbar R Q C n mm value shifts eps q j rhs).
Notation ortho := (@ortho R Q C n mm value shifts eps j rhs).
Notation fdot := (@fdot R n).
Notation As := (@As R n value shifts M q j).
Notation Kv := (@Kv R n value M j).
Notation gsin := (@g_sin R C n mm pre value shifts eps).
Notation gcos := (@g_cos R C n mm pre value shifts eps).
Notation gdg := (@g_dg R C n mm pre value shifts eps).
Notation gdg0 := (@g_dg0 R C n mm value shifts).
Notation gsub := (@g_sub R C n mm value shifts).
Notation gsubsub := (@g_subsub R).
Notation inspan := (@inspan R n).

(* the search vector of body l, the iterate after k bodies, the two older search vectors *)
Definition D (l : nat) : nat -> R := fun i => xg (hp1 (iter l.+1)) q j i.
Definition X (k : nat) : nat -> R := fun i => xg (sol (iter k)) q j i.
Definition H1 (m : nat) : nat -> R := fun i => xg (hp1 (iter m)) q j i.
Definition H2 (m : nat) : nat -> R := fun i => xg (hp2 (iter m)) q j i.
Definition sn (l : nat) : R := gsin (iter l) q j.
Definition cs (l : nat) : R := gcos (iter l) q j.

Lemma H1_0 i : (i < n)%N -> H1 0 i = 0.
Proof. by move=> hi; rewrite /H1 /= /Model.st_init /= /zeros_x xget_xtab. Qed.

Lemma H2_0 i : (i < n)%N -> H2 0 i = 0.
Proof. by move=> hi; rewrite /H2 /= /Model.st_init /= /zeros_x xget_xtab. Qed.

Lemma X_0 i : (i < n)%N -> X 0 i = 0.
Proof. by move=> hi; rewrite /X /= /Model.st_init /= /zeros_x xget_xtab. Qed.

Lemma H1_S m : H1 m.+1 = D m.
Proof. by []. Qed.

Lemma H2_S m : H2 m.+1 = H1 m.
Proof. by []. Qed.

Lemma X_S k i : (i < n)%N -> X k.+1 i = X k i + (qg (scp (iter k)) q j * cs k) * D k i.
Proof.
move=> hi; rewrite /X /D st_iterS (step_sol mm pre value shifts eps (iter k) hq hj hi).
by rewrite (step_hp1 mm pre value shifts eps (iter k) hq hj hi) mulrC.
Qed.

Lemma H1_span m : inspan D m (H1 m).
Proof.
case: m => [|m]; first by apply: inspan_zero; exact: H1_0.
by rewrite H1_S; exact: inspan_gen.
Qed.

Lemma H2_span m : inspan D m (H2 m).
Proof.
case: m => [|m]; first by apply: inspan_zero; exact: H2_0.
by rewrite H2_S; apply: inspan_mono (H1_span m).
Qed.

Lemma X_span k : inspan D k (X k).
Proof.
elim: k => [|k IH]; first by apply: inspan_zero; exact: X_0.
have h1 : inspan D k.+1 (X k) by apply: inspan_mono IH.
have h2 : inspan D k.+1 (D k) by exact: inspan_gen.
apply: inspan_ext (inspan_lin 1 (qg (scp (iter k)) q j * cs k) h1 h2) => i hi.
by rewrite X_S // mul1r.
Qed.

(* z_{m+1} = radius * d_m + sub * d_{m-1} + subsub * d_{m-2} *)
Lemma Z_D m i : (i < n)%N ->
  Z m i = gdg (iter m) q j * D m i + (gsub (iter m) q j * H1 m i + gsubsub (iter m) q j * H2 m i).
Proof.
move=> hi.
have hr : gdg (iter m) q j != 0.
  by rewrite (g_dg_rad n mm pre value shifts eps_pos (iter m) q hj) gt_eqF // g_rad_gt0.
rewrite /D st_iterS (step_hp1 mm pre value shifts eps (iter m) hq hj hi) /g_search.
rewrite (qz_iter Q C n mm value shifts eps m rhs) -/(Z m i) -/(H1 m i) -/(H2 m i).
move: (gdg _ _ _) hr (gsub _ _ _) (gsubsub _ _ _) (Z m i) (D m i) (H1 m i) (H2 m i) => r hr a b z d h1 h2.
by field.
Qed.

Lemma Z_span m : inspan D m.+1 (Z m).
Proof.
have h0 : inspan D m.+1 (D m) by exact: inspan_gen.
have h1 : inspan D m.+1 (H1 m) by apply: inspan_mono (H1_span m).
have h2 : inspan D m.+1 (H2 m) by apply: inspan_mono (H2_span m).
have h12 := inspan_lin (gsub (iter m) q j) (gsubsub (iter m) q j) h1 h2.
apply: inspan_ext (inspan_lin (gdg (iter m) q j) 1 h0 h12) => i hi.
by rewrite Z_D // mul1r.
Qed.

(* ---- the Krylov vectors (value K)^m b^ lie in span{z_1..z_{m+1}} ---- *)
Fixpoint Kpow (m : nat) : nat -> R := if m is m'.+1 then Kv (Kpow m') else cg rhs j.

Lemma Zp_span m : inspan Z m (Zp m).
Proof.
case: m => [|m]; first by apply: inspan_zero => i hi; exact: Zp0.
by rewrite ZpS; exact: inspan_gen.
Qed.

Lemma KvZ_span m : inspan Z m.+2 (Kv (Z m)).
Proof.
have h0 : inspan Z m.+2 (Z m.+1) by exact: inspan_gen.
have h1 : inspan Z m.+2 (Z m) by apply: inspan_gen; exact: ltnW.
have h2 : inspan Z m.+2 (Zp m) by apply: inspan_mono (Zp_span m); exact: ltnW (ltnW _).
have h12 := inspan_lin (alpha m) (beta m) h1 h2.
apply: inspan_ext (inspan_lin (beta m.+1) 1 h0 h12) => i hi.
by rewrite (KZ Q value shifts eps_pos mm_lin hj rhs m hi) mul1r addrA.
Qed.

Lemma Kv_span k f : inspan Z k f -> inspan Z k.+1 (Kv f).
Proof.
move=> [g sg e].
apply: (@inspan_ext _ _ _ _ (Kv g)); first by move=> i hi; apply: Kv_ext.
elim: sg => [|g0 c l hl _ IH].
  by apply: inspan_zero => i _; exact: Kv_0.
have hl' : inspan Z k.+1 (Kv (Z l)) by apply: inspan_mono (KvZ_span l).
apply: inspan_ext (inspan_lin 1 c IH hl') => i hi.
rewrite -Kv_lin; apply: Kv_ext => l' _; by rewrite mul1r.
Qed.

Lemma Kpow_span m : inspan Z m.+1 (Kpow m).
Proof.
elim: m => [|m IH]; last exact: Kv_span.
have h0 : inspan Z 1 (Z 0) by exact: inspan_gen.
apply: inspan_ext (inspan_lin (qg (scp (iter 0)) q j) 0 h0 h0) => i hi.
by rewrite mul0r addr0 /= [RHS](init_scale_z hq hj rhs hi).
Qed.

(* ---- what one loop body does AT an exact breakdown (the unnormalised Lanczos vector of body k is 0) ---- *)
Notation W := (@W R Q C n mm value shifts eps M j rhs).
Definition Res (y : nat -> R) : nat -> R := fun i => cg rhs j i - As y i.

Lemma pbar_S0 k i : pbar k.+1 i = - sn k * pbar k i + cs k * Z k.+1 i.
Proof. by []. Qed.

Lemma breakdown_step k : (forall i, (i < n)%N -> W k i = 0) ->
  [/\ beta k.+1 = eps,
      forall i, (i < n)%N -> Z k.+1 i = 0,
      sn k = eps / Num.sqrt (gdg0 (iter k) q j ^+ 2 + eps ^+ 2)
    & forall i, (i < n)%N -> Res (X k.+1) i = sn k ^+ 2 * Res (X k) i].
Proof.
move=> hW.
have hWW : fdot (W k) (W k) = 0 by rewrite /ProofsLanczos.fdot big1 // => i _; rewrite hW // mul0r.
have hb : beta k.+1 = eps.
  by rewrite (beta_next Q value shifts eps mm_lin hj rhs k) hWW sqrtr0 /clamp_min /= eps_pos.
have hz i : (i < n)%N -> Z k.+1 i = 0.
  move=> hi; have := Z_next Q value shifts eps_pos mm_lin hj rhs k hi.
  by rewrite hb hW // => /eqP; rewrite mulf_eq0 (gt_eqF eps_pos) /= => /eqP.
have hlb : sg (lz_beta AR C n mm pre value eps (iter k)) j = eps := hb.
split=> //.
  by rewrite /sn /g_sin /g_rad hlb -!expr2.
move=> i hi; rewrite /Res.
rewrite (minres_true_residual value shifts eps_pos mm_lin hq hj rhs k.+1 hi).
rewrite (minres_true_residual value shifts eps_pos mm_lin hq hj rhs k hi).
rewrite st_iterS step_scp // -/(sn k) pbar_S0 hz //.
ring.
Qed.

(* ---- at most n Lanczos vectors can be orthonormal: the process must break down within n bodies ---- *)
Lemma ortho_bound k : ortho k -> (k < n)%N.
Proof.
move=> H; pose V : 'M[R]_(k.+1, n) := \matrix_(a, i) Z a i.
have hV : V *m V^T = 1%:M.
  apply/matrixP => a b; rewrite !mxE.
  rewrite (eq_bigr (fun i : 'I_n => Z a i * Z b i)); last by move=> i _; rewrite !mxE.
  have := H a b (ltn_ord a) (ltn_ord b).
  by rewrite /ProofsLanczos.fdot => ->.
have := mxrankM_maxl V V^T; rewrite hV mxrank1 => h.
exact: leq_trans h (rank_leq_col V).
Qed.

(* ---- orthogonality of the residual to A_s d_l ---- *)
Hypothesis M_sym : forall j i l, M j i l = M j l i.
Hypothesis rhs_nz : 0 < fdot (cg rhs j) (cg rhs j).

Lemma U_eq l i : (i < n)%N -> As (D l) i = sn l * Z l.+1 i + cs l * pbar l i.
Proof.
move=> hi.
have H := inv_iter value shifts eps_pos mm_lin hq hj rhs l.
have := As_search eps_pos mm_lin hq hj H hi.
by rewrite -st_iterS.
Qed.

Lemma pbar_S k i : pbar k.+1 i = - sn k * pbar k i + cs k * Z k.+1 i.
Proof. by []. Qed.

Lemma ortho_le k k' : (k' <= k)%N -> ortho k -> ortho k'.
Proof. by move=> hk H a b ha hb; apply: H; [exact: leq_trans ha hk | exact: leq_trans hb hk]. Qed.

Lemma pbar_perp_U k : ortho k -> forall l, (l < k)%N -> fdot (pbar k) (As (D l)) = 0.
Proof.
elim: k => [|k IH] H l // hl.
have Hk : ortho k by apply: ortho_le H.
have [nk ok] := pbar_props eps_pos hj rhs_nz q Hk.
rewrite (dot_extl (f' := fun i => (- sn k) * pbar k i + cs k * Z k.+1 i)); last by move=> i _; exact: pbar_S.
move: hl; rewrite ltnS leq_eqVlt => /orP[/eqP El|hl].
  (* l = k : the new rotation *)
  rewrite El.
  have a1 : fdot (Z k.+1) (Z k.+1) = 1 by rewrite (H k.+1 k.+1 (leqnn _) (leqnn _)) eqxx.
  exact: (rot_perp nk a1 (ok k.+1 (ltnSn k) H) (U_eq k)).
(* l < k *)
have Hl : ortho l by apply: ortho_le H; exact: leqW (ltnW hl).
have [_ ol] := pbar_props eps_pos hj rhs_nz q Hl.
apply: perp_comb; first exact: IH.
apply: (perp_comb_r (U_eq l)).
- by rewrite (H k.+1 l.+1 (leqnn _) (ltnW hl)) eqSS (gtn_eqF hl).
- by rewrite dotC; exact: (ol k.+1 (ltnW hl) H).
Qed.

(* the residual of the k-th iterate is orthogonal to A_s f for every f in span{d_0..d_{k-1}} *)
Lemma perp_span k p : (forall l, (l < k)%N -> fdot p (As (D l)) = 0) ->
  forall f, inspan D k f -> fdot p (As f) = 0.
Proof.
move=> H f [g sg e].
rewrite (dot_extr p (g' := As g)); last by move=> i hi; apply: As_ext.
elim: sg => [|g0 c l hl _ IH].
  rewrite (dot_extr p (g' := fun _ => 0)); last by move=> i _; exact: As_0.
  by rewrite dotC dot0l.
apply: (perp_comb_r (a := 1) (b := c) (f := As g0) (g := As (D l))) => //; last exact: H.
by move=> i hi; rewrite -As_lin; apply: As_ext => // l' _; rewrite mul1r.
Qed.

Theorem minimal_over_search_span k y : ortho k -> inspan D k y ->
  fdot (Res (X k)) (Res (X k)) <= fdot (Res y) (Res y).
Proof.
move=> H sy.
pose e := fun i => 1 * X k i + (-1) * y i.
have se : inspan D k e := inspan_lin 1 (-1) (X_span k) sy.
have hperp : fdot (pbar k) (As e) = 0 := perp_span (pbar_perp_U H) se.
have hr : forall i, (i < n)%N -> Res (X k) i = qg (scp (iter k)) q j * pbar k i.
  by move=> i hi; exact: (minres_true_residual value shifts eps_pos mm_lin hq hj rhs k hi).
apply: (pyth_le (v := As e)); last exact: (perp_scale hr hperp).
by move=> i hi; rewrite /Res /e As_lin; ring.
Qed.

Definition lin_comb (c : nat -> R) (F : nat -> nat -> R) (k : nat) : nat -> R :=
  fun i => \sum_(m < k) c m * F m i.

Theorem minimal_over_lanczos_span k (c : nat -> R) : ortho k ->
  fdot (Res (X k)) (Res (X k)) <= fdot (Res (lin_comb c Z k)) (Res (lin_comb c Z k)).
Proof.
move=> H; apply: minimal_over_search_span => //.
by apply: inspan_sum => m hm; apply: inspan_mono (Z_span m).
Qed.

Theorem minimal_over_krylov k (c : nat -> R) : ortho k ->
  fdot (Res (X k)) (Res (X k)) <= fdot (Res (lin_comb c Kpow k)) (Res (lin_comb c Kpow k)).
Proof.
move=> H; apply: minimal_over_search_span => //.
apply: (@inspan_trans _ _ Z D k k).
  by move=> l hl; apply: inspan_mono (Z_span l).
by apply: inspan_sum => m hm; apply: inspan_mono (Kpow_span m).
Qed.

(* the statements in the form Property.v uses: hypotheses on the clamp, sums of squares, and the Krylov vectors given by
   any family F with F 0 = b^, F (m+1) = (value K) (F m) *)
Notation no_breakdown := (@no_breakdown R Q C n mm value shifts eps M j rhs).

Lemma Kpow_family (F : nat -> nat -> R) :
  (forall i, (i < n)%N -> F 0%N i = cg rhs j i) -> (forall m i, (i < n)%N -> F m.+1 i = Kv (F m) i) ->
  forall m i, (i < n)%N -> F m i = Kpow m i.
Proof.
move=> h0 hS; elim=> [|m IH] i hi; first exact: h0.
by rewrite hS //=; apply: Kv_ext => l hl; exact: IH.
Qed.

Theorem minres_minimal_residual k (c : nat -> R) (F : nat -> nat -> R) :
  (forall i, (i < n)%N -> F 0%N i = cg rhs j i) -> (forall m i, (i < n)%N -> F m.+1 i = Kv (F m) i) ->
  (forall m, (m < k)%N -> no_breakdown m) ->
  \sum_(i < n) Res (X k) i ^+ 2 <= \sum_(i < n) Res (lin_comb c F k) i ^+ 2.
Proof.
move=> h0 hS nb.
have H : ortho k := lanczos_orthonormal eps_pos mm_lin M_sym hj rhs_nz nb.
rewrite !sum_sqr_fdot; apply: minimal_over_search_span => //.
apply: (@inspan_trans _ _ Z D k k).
  by move=> l hl; apply: inspan_mono (Z_span l).
apply: inspan_sum => m hm; apply: inspan_mono hm _.
by apply: inspan_ext (Kpow_span m) => i hi; exact: Kpow_family.
Qed.

Theorem lanczos_breakdown_within_n k : (forall m, (m < k)%N -> no_breakdown m) -> (k < n)%N.
Proof. by move=> nb; apply: ortho_bound; exact: (lanczos_orthonormal eps_pos mm_lin M_sym hj rhs_nz nb). Qed.

End Minimal.

(* ---- the hypotheses are satisfiable: K = [[0,1],[1,0]] (symmetric), b^ = e_1, eps = 1, one shift.
   z_1 = e_1, z_2 = e_2: no breakdown at body 0 (so k = 1 = n - 1 is reached), exact breakdown at body 1 ---- *)
Section Example.
Variable R : rcfType.
Notation AR := (ArR R).
Definition ex_mm (X : cols R) : cols R := ctab 1 2 (fun j i => cg2 AR X j (1 - i)).
Definition ex_M (_ i l : nat) : R := if (i + l == 1)%N then 1 else 0.
Definition ex_rhs : cols R := [:: [:: 1; 0]].
Definition ex_shifts : qc R := [:: [:: 0]].
Notation Z := (@Z R 1 1 2 ex_mm None ex_shifts 1 0 ex_rhs).
Notation Zp := (@Zp R 1 1 2 ex_mm None ex_shifts 1 0 ex_rhs).
Notation W := (@W R 1 1 2 ex_mm None ex_shifts 1 ex_M 0 ex_rhs).
Notation alpha := (@alpha R 1 1 2 ex_mm None ex_shifts 1 0 ex_rhs).
Notation beta := (@beta R 1 1 2 ex_mm None ex_shifts 1 0 ex_rhs).
Notation Kv := (@Kv R 2 None ex_M 0).
Notation fdot := (@fdot R 2).
Definition ee (a i : nat) : R := (i == a)%:R.

Lemma ex_lin X j i : (j < 1)%N -> (i < 2)%N -> cg2 AR (ex_mm X) j i = \sum_(l < 2) ex_M j i l * cg2 AR X j l.
Proof.
move=> hj hi; rewrite /ex_mm cg2_ctab // big_ord_recl big_ord1 /ex_M /=.
by case: i hi => [|[|//]] _ /=; rewrite ?mul0r ?mul1r ?add0r ?addr0.
Qed.

Lemma ex_sym j i l : ex_M j i l = ex_M j l i.
Proof. by rewrite /ex_M addnC. Qed.

Lemma ex_rhs_e i : (i < 2)%N -> cg2 AR ex_rhs 0 i = ee 0 i.
Proof. by case: i => [|[|//]]. Qed.

Lemma fdot2 f g : fdot f g = f 0%N * g 0%N + f 1%N * g 1%N.
Proof. by rewrite /ProofsLanczos.fdot big_ord_recl big_ord1. Qed.

Lemma ex_nz1 : fdot (cg2 AR ex_rhs 0) (cg2 AR ex_rhs 0) = 1.
Proof. by rewrite fdot2 /= mul1r mul0r addr0. Qed.

Lemma ex_Kv f i : (i < 2)%N -> Kv f i = f (1 - i)%N.
Proof.
move=> hi; rewrite /ProofsResidual.Kv /vv mulr1 big_ord_recl big_ord1 /ex_M /=.
by case: i hi => [|[|//]] _ /=; rewrite ?mul0r ?mul1r ?add0r ?addr0.
Qed.

Lemma ex_Z0 i : (i < 2)%N -> Z 0 i = ee 0 i.
Proof.
move=> hi.
have := init_scale_z (Q := 1) (q := 0) (ltnSn 0) (ltnSn 0) ex_rhs hi.
have -> : qget AR (scp (st_init AR 1 1 2 id ex_rhs)) 0 0 = 1.
  rewrite /st_init /= qget_qtab // sget_stab // /e_sum sget_stab // sumn_big.
  rewrite (eq_bigr (fun i : 'I_2 => cg2 AR ex_rhs 0 i * cg2 AR ex_rhs 0 i)); last first.
    by move=> l _; rewrite /e_mul cg2_ctab.
  by rewrite -/(fdot _ _) ex_nz1 sqrtr1.
by rewrite mul1r ex_rhs_e.
Qed.

Lemma ex_alpha m (a : nat) : (a < 2)%N -> (forall i, (i < 2)%N -> Z m i = ee a i) -> alpha m = 0.
Proof.
move=> ha hZ; rewrite (alpha_dot 1 None ex_shifts 1 ex_lin (ltnSn 0) ex_rhs m) fdot2 !ex_Kv // !hZ //.
by case: a ha {hZ} => [|[|//]] _; rewrite /ee /= ?mul0r ?mulr0 ?addr0.
Qed.

Lemma ex_W0 i : (i < 2)%N -> W 0 i = ee 1 i.
Proof.
move=> hi; rewrite /ProofsLanczos.W ex_Kv // (ex_alpha (a := 0) _ ex_Z0) // mul0r subr0.
rewrite Zp0 // mulr0 subr0 ex_Z0; last by case: i hi => [|[|//]].
by case: i hi => [|[|//]].
Qed.

Lemma ex_WW0 : fdot (W 0) (W 0) = 1.
Proof. by rewrite fdot2 !ex_W0 // /ee /= mul0r mul1r add0r. Qed.

Lemma ex_no_breakdown0 : no_breakdown 1 1 2 ex_mm None ex_shifts 1 ex_M 0 ex_rhs 0.
Proof. by rewrite /no_breakdown ex_WW0 sqrtr1. Qed.

Lemma ex_beta1 : beta 1 = 1.
Proof. by rewrite (beta_next 1 None ex_shifts 1 ex_lin (ltnSn 0) ex_rhs 0) ex_WW0 sqrtr1 /clamp_min /= ltxx. Qed.

Lemma ex_Z1 i : (i < 2)%N -> Z 1 i = ee 1 i.
Proof.
move=> hi; have := Z_next 1 None ex_shifts ltr01 ex_lin (ltnSn 0) ex_rhs 0 hi.
by rewrite ex_beta1 mul1r ex_W0.
Qed.

Lemma ex_W1 i : (i < 2)%N -> W 1 i = 0.
Proof.
move=> hi; rewrite /ProofsLanczos.W ex_Kv // (ex_alpha (a := 1) _ ex_Z1) // mul0r subr0 ex_beta1 mul1r.
rewrite ZpS ex_Z0 // ex_Z1; last by case: i hi => [|[|//]].
by case: i hi => [|[|//]] _; rewrite /ee /= subrr.
Qed.

End Example.

(* ---------------------------------------------------------------------------------------- *)
(* the minimal-residual property about the tensor minres RETURNS (stopping rule, zero mask, normalisation and
   un-normalisation included): for a column that is not a zero column, with k = o_iters = the number of loop bodies
   executed, and Krylov vectors built from the UNNORMALISED rhs column b *)
Section OutputMinimal.
Variable R : rcfType.
Variable S : mr_settings R.
Variable g : mr_args R.
Variable M : nat -> nat -> nat -> R.
Notation AR := (ArR R).
Hypothesis no_pre : g_pre g = None.
Hypothesis eps_pos : 0 < g_eps g.
Hypothesis thr_pos : 0 < s_zero_thr S.
Hypothesis mm_lin : forall X j i, (j < size (g_rhs g))%N -> (i < g_n g)%N ->
  cg2 AR (g_mm g X) j i = \sum_(l < g_n g) M j i l * cg2 AR X j l.
Hypothesis M_sym : forall j i l, M j i l = M j l i.

Let u := mr_prepare AR S g.
Let C := size (g_rhs g).
Let Q := shifts_Q g.
Let n := g_n g.
Notation iter k := (st_iter AR Q C n (g_mm g) (fun X => X) (g_value g) (shifts_tab AR g) (g_eps g) k
                            (st_init AR Q C n (fun X => X) (u_rhs u))).
Notation As q j := (@As R n (g_value g) (shifts_tab AR g) M q j).
Notation Kv j := (@Kv R n (g_value g) M j).
Notation no_breakdown j := (@no_breakdown R Q C n (g_mm g) (g_value g) (shifts_tab AR g) (g_eps g) M j (u_rhs u)).

Theorem minres_output_minimal q j (c : nat -> R) (F : nat -> nat -> R) :
  (q < Q)%N -> (j < C)%N -> ~~ rhs_col_is_zero AR S g j ->
  (forall i, F 0%N i = cg2 AR (g_rhs g) j i) -> (forall m i, F m.+1 i = Kv j (F m) i) ->
  let o := minres AR S g in
  let k := o_iters o in
  (forall m, (m < k)%N -> no_breakdown j m) ->
  \sum_(i < n) (cg2 AR (g_rhs g) j i - As q j (fun l => xget AR (o_sol o) q j l) i) ^+ 2
  <= \sum_(i < n) (cg2 AR (g_rhs g) j i - As q j (lin_comb c F k) i) ^+ 2.
Proof.
move=> hq hj hnz hF0 hFS.
have [m1 m2 m3 m4] := prepare_misc AR S g.
have hpre : u_pre u = (fun X => X) by rewrite /u m3 no_pre.
rewrite /minres -/u hpre m1 m2 -/C -/Q -/n.
have [k [hk -> _ _]] := st_loop_spec AR Q C n (g_mm g) (fun X => X) (g_value g) (shifts_tab AR g) (g_eps g)
                          (s_minres_tolerance S) (u_iters u) 0
                          (st_init AR Q C n (fun X => X) (u_rhs u)).
rewrite add0n [o_iters _]/= => nb.
set x := fun l => xget AR (sol (iter k)) q j l.
set N := sget AR (u_rhs_norm u) j.
have hN : N = norm2 AR n (cget (g_rhs g) j) by rewrite /N /u prepare_norm // (negbTE hnz).
have hNpos : 0 < N.
  rewrite hN; apply: lt_le_trans thr_pos _.
  by move: hnz; rewrite /rhs_col_is_zero /= -leNgt.
have hN0 : N != 0 by rewrite gt_eqF.
have hout : forall l, (l < n)%N -> xget AR (o_sol (mr_finish AR g u (sol (iter k)) k)) q j l = N * x l + 0 * x l.
  move=> l hl; rewrite finish_get ?m1 ?m2 // prepare_is_zero // (negbTE hnz) -/N -/(x l).
  rewrite [amul _ _ _]/=; ring.
have hb : forall i, (i < n)%N -> cg2 AR (g_rhs g) j i = N * cg2 AR (u_rhs u) j i.
  by move=> i hi; rewrite /u prepare_rhs cg2_ctab //= -/u -/N mulrC divfK.
(* the normalised column is a unit vector *)
have hunit : fdot n (cg2 AR (u_rhs u) j) (cg2 AR (u_rhs u) j) = 1.
  apply: (mulfI (expf_neq0 2 hN0)); rewrite mulr1 /fdot mulr_sumr.
  rewrite (eq_bigr (fun i : 'I_n => cg2 AR (g_rhs g) j i * cg2 AR (g_rhs g) j i)); last first.
    by move=> i _; rewrite !hb //; ring.
  rewrite hN /norm2 /= sqr_sqrtr /Model.dot ?sumn_big //.
  by apply: sumr_ge0 => i _; rewrite /= -expr2 sqr_ge0.
have rhs_nz : 0 < fdot n (cg2 AR (u_rhs u) j) (cg2 AR (u_rhs u) j) by rewrite hunit ltr01.
(* the Krylov family of the normalised column *)
pose F' := fun m i => N^-1 * F m i.
have hF'0 : forall i, (i < n)%N -> F' 0%N i = cg2 AR (u_rhs u) j i.
  by move=> i hi; rewrite /F' hF0 hb // mulKf.
have hF'S : forall m i, (i < n)%N -> F' m.+1 i = Kv j (F' m) i.
  move=> m i hi; rewrite /F' hFS.
  rewrite (@Kv_ext _ _ _ _ _ (fun l => N^-1 * F m l) (fun l => N^-1 * F m l + 0 * F m l) i); last first.
    by move=> l _; rewrite mul0r addr0.
  by rewrite Kv_lin mul0r addr0.
have := @minres_minimal_residual R Q C n (g_mm g) (g_value g) (shifts_tab AR g) (g_eps g) eps_pos M mm_lin q j hq hj
          (u_rhs u) M_sym rhs_nz k c F' hF'0 hF'S nb.
rewrite -(ler_pmul2l (exprn_gt0 2 hNpos)) !mulr_sumr.
rewrite (eq_bigr (fun i : 'I_n => (cg2 AR (g_rhs g) j i
            - As q j (fun l => xget AR (o_sol (mr_finish AR g u (sol (iter k)) k)) q j l) i) ^+ 2)); last first.
  move=> i _; rewrite /Res (As_ext (g_value g) (shifts_tab AR g) M q j (ltn_ord i) hout) As_lin mul0r addr0 hb //.
  by rewrite -exprMn mulrBr.
rewrite [X in _ <= X -> _](eq_bigr (fun i : 'I_n => (cg2 AR (g_rhs g) j i - As q j (lin_comb c F k) i) ^+ 2)) //.
move=> i _; rewrite /Res -exprMn mulrBr -hb //; congr ((_ - _) ^+ 2).
rewrite (@As_ext _ _ (g_value g) (shifts_tab AR g) M q j (lin_comb c F k)
           (fun l => N * lin_comb c F' k l + 0 * lin_comb c F' k l) i) //; last first.
  move=> l _; rewrite mul0r addr0 /lin_comb mulr_sumr; apply: eq_bigr => m _.
  by rewrite /F' mulrCA mulVKf.
by rewrite As_lin mul0r addr0.
Qed.

End OutputMinimal.
