(* C11 — facts that hold for EVERY arithmetic (binary64 included): table access, the shape of the
   output, the squeeze rules, zero right-hand sides, the stopping rule. *)
From mathcomp Require Import ssreflect ssrfun ssrbool eqtype ssrnat seq div.
Require Import C11.Model.
Set Implicit Arguments.
Unset Strict Implicit.
Unset Printing Implicit Defensive.

Section Tables.
Variable F : Type.
Variable A : Arith F.

Lemma sget_stab C f j : j < C -> sget A (stab C f) j = f j.
Proof. by move=> h; rewrite /sget /stab nth_mkseq. Qed.

Lemma bget_mkseq C (f : nat -> bool) j : j < C -> bget (mkseq f C) j = f j.
Proof. by move=> h; rewrite /bget nth_mkseq. Qed.

Lemma cg2_ctab C n f j i : j < C -> i < n -> cg2 A (ctab C n f) j i = f j i.
Proof. by move=> hj hi; rewrite /cg2 /vget /cget /ctab (nth_mkseq _ _ hj) nth_mkseq. Qed.

Lemma qget_qtab Q C f q j : q < Q -> j < C -> qget A (qtab Q C f) q j = f q j.
Proof. by move=> hq hj; rewrite /qget /qtab (nth_mkseq _ _ hq) nth_mkseq. Qed.

Lemma xget_xtab Q C n f q j i : q < Q -> j < C -> i < n -> xget A (xtab Q C n f) q j i = f q j i.
Proof. by move=> hq hj hi; rewrite /xget /xtab (nth_mkseq _ _ hq) (nth_mkseq _ _ hj) nth_mkseq. Qed.

Lemma cg2_nth_xtab Q C n f q j i :
  q < Q -> j < C -> i < n -> cg2 A (nth [::] (xtab Q C n f) q) j i = f q j i.
Proof. by move=> hq hj hi; rewrite /cg2 /vget /cget /xtab (nth_mkseq _ _ hq) (nth_mkseq _ _ hj) nth_mkseq. Qed.

Lemma size_xtab Q C n f : size (@xtab F Q C n f) = Q.
Proof. by rewrite /xtab size_mkseq. Qed.

Lemma size_nth_xtab Q C n f q : q < Q -> size (nth [::] (@xtab F Q C n f) q) = C.
Proof. by move=> hq; rewrite /xtab (nth_mkseq _ _ hq) size_mkseq. Qed.

Lemma size_nth2_xtab Q C n f q j : q < Q -> j < C -> size (nth [::] (nth [::] (@xtab F Q C n f) q) j) = n.
Proof. by move=> hq hj; rewrite /xtab (nth_mkseq _ _ hq) (nth_mkseq _ _ hj) size_mkseq. Qed.

End Tables.

Section Any.
Variable F : Type.
Variable A : Arith F.
Variable S : mr_settings F.

(* ---- shape of the returned tensor ---- *)
Lemma prodn_eq1_head q sh : prodn (q :: sh) = 1 -> q = 1.
Proof. by rewrite /prodn /= => /eqP; rewrite muln_eq1 => /andP[/eqP]. Qed.

(* squeeze(0) is applied iff shifts.numel() == 1, and then dimension 0 really has size 1 *)
Lemma shift_squeeze_legal (g : mr_args F) : shifts_numel g == 1 -> shifts_Q g = 1.
Proof.
rewrite /shifts_numel /shifts_Q; case: (shifts_shape g) => [|q sh] // /eqP.
exact: prodn_eq1_head.
Qed.

Lemma out_shape_rank (g : mr_args F) batch t :
  size (out_shape g batch t) = (shifts_numel g != 1) + size batch + 1 + ~~ g_rhs_is_vec g.
Proof.
rewrite /out_shape !size_cat /=.
by case: (shifts_numel g == 1); case: (g_rhs_is_vec g); rewrite /= ?addn0 ?add0n ?addn1 ?addnS ?addn0.
Qed.

Lemma out_shape_leading (g : mr_args F) batch t :
  out_shape g batch t =
  (if shifts_numel g == 1 then [::] else [:: shifts_Q g]) ++ batch ++ g_n g :: (if g_rhs_is_vec g then [::] else [:: t]).
Proof. by []. Qed.

Lemma minres_flags (g : mr_args F) :
  o_sq_first (minres A S g) = (shifts_numel g == 1) /\ o_sq_last (minres A S g) = g_rhs_is_vec g.
Proof. by rewrite /minres; case: (st_loop _ _ _ _ _ _ _ _ _ _ _ _ _). Qed.

(* the returned table always has the full Q x C x n layout *)
Lemma minres_layout (g : mr_args F) q j :
  let o := o_sol (minres A S g) in
  size o = shifts_Q g /\
  (q < shifts_Q g -> size (nth [::] o q) = size (g_rhs g)) /\
  (q < shifts_Q g -> j < size (g_rhs g) -> size (nth [::] (nth [::] o q) j) = g_n g).
Proof.
rewrite /minres; case: (st_loop _ _ _ _ _ _ _ _ _ _ _ _ _) => s k /=.
split; first by rewrite size_xtab.
by split=> *; rewrite ?size_nth_xtab ?size_nth2_xtab.
Qed.

(* ---- zero right-hand sides ---- *)
(* column j of the (broadcast) rhs has norm below the threshold of line 50 *)
Definition rhs_col_is_zero (g : mr_args F) (j : nat) : bool :=
  altb A (norm2 A (g_n g) (cget (g_rhs g) j)) (s_zero_thr S).

(* whatever the loop did (NaN included: 0/0 in line 82 for an exactly zero column), the output column is
   masked_fill_(…, 0) and then multiplied by rhs_norm = 1 *)
(* what lines 49-57 compute, field by field *)
Lemma prepare_is_zero_eq (g : mr_args F) :
  u_rhs_is_zero (mr_prepare A S g) = mkseq (rhs_col_is_zero g) (size (g_rhs g)).
Proof.
rewrite /mr_prepare [u_rhs_is_zero _]/=.
apply/eq_in_map => j; rewrite mem_iota add0n => /andP[_ hj].
by rewrite sget_stab.
Qed.

Lemma prepare_is_zero (g : mr_args F) j :
  j < size (g_rhs g) -> bget (u_rhs_is_zero (mr_prepare A S g)) j = rhs_col_is_zero g j.
Proof. by move=> hj; rewrite prepare_is_zero_eq bget_mkseq. Qed.

Lemma prepare_norm (g : mr_args F) j :
  j < size (g_rhs g) ->
  sget A (u_rhs_norm (mr_prepare A S g)) j =
  if rhs_col_is_zero g j then a1 A else norm2 A (g_n g) (cget (g_rhs g) j).
Proof.
move=> hj; rewrite /mr_prepare [u_rhs_norm _]/= sget_stab //; cbv beta.
by rewrite bget_mkseq // sget_stab.
Qed.

Lemma prepare_rhs (g : mr_args F) :
  u_rhs (mr_prepare A S g) =
  ctab (size (g_rhs g)) (g_n g)
       (fun j i => adiv A (cg2 A (g_rhs g) j i) (sget A (u_rhs_norm (mr_prepare A S g)) j)).
Proof. by []. Qed.

Lemma prepare_misc (g : mr_args F) :
  [/\ u_C (mr_prepare A S g) = size (g_rhs g), u_Q (mr_prepare A S g) = shifts_Q g,
      u_pre (mr_prepare A S g) = (if g_pre g is Some f then f else (fun X => X))
    & u_iters (mr_prepare A S g) = (minn (odflt (s_max_cg_iterations S) (g_max_iter g)) (g_n g).+1).+2].
Proof. by []. Qed.

Lemma finish_get (g : mr_args F) (u : mr_setup F) (sl : qcols F) k q j i :
  q < u_Q u -> j < u_C u -> i < g_n g ->
  xget A (o_sol (mr_finish A g u sl k)) q j i =
  amul A (if bget (u_rhs_is_zero u) j then a0 A else xget A sl q j i) (sget A (u_rhs_norm u) j).
Proof. by move=> hq hj hi; rewrite /mr_finish [o_sol _]/o_sol xget_xtab. Qed.

Lemma minres_zero_rhs_any (g : mr_args F) q j i :
  q < shifts_Q g -> j < size (g_rhs g) -> i < g_n g -> rhs_col_is_zero g j ->
  xget A (o_sol (minres A S g)) q j i = amul A (a0 A) (a1 A).
Proof.
move=> hq hj hi hz.
rewrite /minres; case: (st_loop _ _ _ _ _ _ _ _ _ _ _ _ _) => s k.
by rewrite finish_get // prepare_is_zero // prepare_norm // hz.
Qed.

(* ---- the stopping rule ---- *)
Section Loop.
Variables (Q C n : nat) (mm pre : cols F -> cols F) (value : option F) (shifts : qc F) (eps tol : F).
Notation st_step := (@st_step F A Q C n mm pre value shifts eps).
Notation st_loop := (@st_loop F A Q C n mm pre value shifts eps tol).
Notation st_iter := (@st_iter F A Q C n mm pre value shifts eps).
Notation conv k s := (conv_test A Q C n tol k (supd s) (sol s)).

Lemma st_iterS k s : st_iter k.+1 s = st_step (st_iter k s).
Proof. by []. Qed.

Lemma st_iter_step k s : st_iter k (st_step s) = st_step (st_iter k s).
Proof.
elim: k => [|k IH]; first by reflexivity.
change (st_step (st_iter k (st_step s)) = st_step (st_step (st_iter k s))).
rewrite IH; reflexivity.
Qed.

(* the loop returns the state after k bodies where k is the first index (counting from i) at which the
   convergence test fires, or all `fuel` bodies if it never fires; the test is only looked at when
   (number of bodies so far) is a multiple of 10 *)
Lemma st_loop_spec fuel i s :
  exists k, [/\ k <= fuel,
                st_loop fuel i s = (st_iter k s, i + k),
                (k = fuel \/ (0 < k /\ conv (i + k.-1) (st_iter k s)))
              & forall k', 0 < k' -> k' < k -> ~~ conv (i + k'.-1) (st_iter k' s)].
Proof.
elim: fuel i s => [|f IH] i s.
  by exists 0; split=> //; rewrite ?addn0 //; left.
rewrite /=.
case E: (conv i (st_step s)).
  exists 1; split=> //; rewrite ?addn1 ?addn0 //; first by right.
  by move=> k' h0 h1; move: h0; rewrite ltnNge -ltnS h1.
have [k [hk -> hlast hnot]] := IH i.+1 (st_step s).
exists k.+1; split=> //.
- by rewrite st_iter_step addSnnS.
- case: hlast => [->|[hk0 hc]]; first by left.
  by right; split=> //=; move: hc; rewrite st_iter_step -[k in i + k](prednK hk0) addSnnS.
- move=> k' h0 h1.
  case: k' h0 h1 => [|[|k'']] // _ h1 /=; first by rewrite addn0 E.
  have := hnot k''.+1 (ltn0Sn _); rewrite st_iter_step /= => H.
  by rewrite -addSnnS; apply: H.
Qed.

Lemma conv_only_every_10th i upd sl : conv_test A Q C n tol i upd sl -> (i.+1 %% 10 == 0).
Proof. by rewrite /conv_test => /andP[]. Qed.

End Loop.

End Any.
