(* C11 — the buffer-level transcription [minres_buf] (named tensors = contents of physical buffers,
   name rotations as rotation indices, torch.empty buffers with arbitrary initial content) computes
   exactly what the buffer-free transcription [minres] computes:
   - no stale or uninitialised buffer content is ever read (the result does not depend on [junk]);
   - the three-way rotations  p2, p1, cu = p1, cu, p2  and the two-way swaps hand every role the buffer
     that was written for it, for every number of iterations;
   - the three names of a rotating family always denote three different physical buffers. *)
From mathcomp Require Import ssreflect ssrfun ssrbool eqtype ssrnat seq div.
Require Import C11.Model.
Set Implicit Arguments.
Unset Strict Implicit.
Unset Printing Implicit Defensive.

(* ---- the rotation discipline by itself ---- *)
Lemma slot_inj r k k' : slot r k = slot r k' -> k = k'.
Proof. by case: r; case: k; case: k'. Qed.

Lemma rd3_wr3_same (X : Type) r k (v : X) b : rd3 r k (wr3 r k v b) = v.
Proof. by case: r; case: k; case: b => [[? ?] ?]. Qed.

Definition role_eqb (k k' : role) : bool :=
  match k, k' with Prev2, Prev2 | Prev1, Prev1 | Curr, Curr => true | _, _ => false end.

Lemma rd3_wr3_diff (X : Type) r k k' (v : X) b : role_eqb k k' = false -> rd3 r k (wr3 r k' v b) = rd3 r k b.
Proof. by case: r; case: k; case: k'; case: b => [[? ?] ?]. Qed.

(* after the rotation, prev2 is the old prev1, prev1 is the old curr, and curr is the old prev2 buffer *)
Lemma rd3_rnext (X : Type) r (b : X * X * X) :
  [/\ rd3 (rnext r) Prev2 b = rd3 r Prev1 b, rd3 (rnext r) Prev1 b = rd3 r Curr b
    & rd3 (rnext r) Curr b = rd3 r Prev2 b].
Proof. by case: r; case: b => [[? ?] ?]. Qed.

Fixpoint rot_iter (k : nat) : rot := if k is k'.+1 then rnext (rot_iter k') else R0.
Lemma rot_iter_mod3 k : rot_iter k = match k %% 3 with 0 => R0 | 1 => R1 | _ => R2 end.
Proof.
elim: k => [|k IH] //=.
rewrite IH -[k.+1]addn1 -modnDml.
have: k %% 3 < 3 by rewrite ltn_mod.
by case: (k %% 3) => [|[|[|m]]].
Qed.

Section Refine.
Variable F : Type.
Variable A : Arith F.
Variables (Q C n : nat).
Variables (mm pre : cols F -> cols F).
Variable value : option F.
Variable shifts : qc F.
Variables (eps tol : F).

Notation buf_body := (@buf_body F A Q C n mm pre value shifts eps).
Notation buf_loop := (@buf_loop F A Q C n mm pre value shifts eps tol).
Notation st_step := (@st_step F A Q C n mm pre value shifts eps).
Notation st_loop := (@st_loop F A Q C n mm pre value shifts eps tol).

(* the buffer-free view of a buffer state: what the names _prev2/_prev1/_prev denote *)
Definition abs (s : mr_buf F) : mr_state F :=
  MkSt (zvec_prev2 s) (zvec_prev1 s) (qvec_prev1 s) (rd2 (beta_par s) false (beta2 s))
       (rd3 (cos_rot s) Prev2 (cos3 s)) (rd3 (cos_rot s) Prev1 (cos3 s))
       (rd3 (sin_rot s) Prev2 (sin3 s)) (rd3 (sin_rot s) Prev1 (sin3 s))
       (rd3 (search_rot s) Prev2 (search3 s)) (rd3 (search_rot s) Prev1 (search3 s))
       (rd2 (scale_par s) false (scale2 s)) (solution s) (search_update s).

(* search_update is torch.empty before the loop; the loop body overwrites it before it is read *)
Definition set_supd (x : qcols F) (s : mr_state F) : mr_state F :=
  MkSt (zp2 s) (zp1 s) (qp1 s) (bprev s) (cp2 s) (cp1 s) (sp2 s) (sp1 s) (hp2 s) (hp1 s) (scp s) (sol s) x.

Lemma abs_init J rhs : abs (buf_init A Q C n pre J rhs) = set_supd (jk_supd J) (st_init A Q C n pre rhs).
Proof. by []. Qed.

Lemma st_loop_supd fuel i x (s : mr_state F) :
  (sol (st_loop fuel i (set_supd x s)).1, (st_loop fuel i (set_supd x s)).2) = (sol (st_loop fuel i s).1, (st_loop fuel i s).2).
Proof. by case: fuel => [|f] //=; case: s. Qed.

Lemma body_refines i (s : mr_buf F) :
  abs (buf_rotate (buf_norms A Q C n i (buf_body s).1.1) (buf_body s).1.2 (buf_body s).2) = st_step (abs s)
  /\ solution (buf_body s).1.1 = sol (st_step (abs s))
  /\ search_update (buf_body s).1.1 = supd (st_step (abs s))
  /\ solution (buf_norms A Q C n i (buf_body s).1.1) = solution (buf_body s).1.1.
Proof.
case: s => z2 z1 q1 al als [b0 b1] bp tmp [[c0 c1] c2] cr [[s0 s1] s2] sr rad ssub sub dg [[h0 h1] h2] hr upd
           [sc0 sc1] sp sl un sn.
rewrite /buf_norms; case: (i.+1 %% 10 == 0);
by case: cr; case: sr; case: hr; case: bp; case: sp.
Qed.

Lemma norms_solution i (s : mr_buf F) : solution (buf_norms A Q C n i s) = solution s.
Proof. by rewrite /buf_norms; case: ifP. Qed.

Lemma buf_loop_S f i (s : mr_buf F) :
  buf_loop f.+1 i s =
  (let '(s1, zc, qcur) := buf_body s in
   let s2 := buf_norms A Q C n i s1 in
   if conv_test A Q C n tol i (search_update s1) (solution s1) then (s2, i.+1)
   else buf_loop f i.+1 (buf_rotate s2 zc qcur)).
Proof. by []. Qed.

Lemma st_loop_S f i (s : mr_state F) :
  st_loop f.+1 i s =
  (let s1 := st_step s in
   if conv_test A Q C n tol i (supd s1) (sol s1) then (s1, i.+1) else st_loop f i.+1 s1).
Proof. by []. Qed.

Lemma loop_refines fuel i (s : mr_buf F) :
  (solution (buf_loop fuel i s).1, (buf_loop fuel i s).2) = (sol (st_loop fuel i (abs s)).1, (st_loop fuel i (abs s)).2).
Proof.
elim: fuel i s => [|f IH] i s //.
rewrite buf_loop_S st_loop_S.
case: (buf_body s) (body_refines i s) => [[s1 zc] qcur] [H1 [H2 [H3 _]]].
cbn [fst snd] in H1, H2, H3.
cbv zeta.
rewrite -H3 -H2.
case: ifP => _; first by cbn [fst snd]; rewrite norms_solution H2.
rewrite -H1; exact: IH.
Qed.

End Refine.

(* the result of minres does not depend on the initial contents of the torch.empty buffers, and equals
   the buffer-free transcription *)
Theorem minres_buf_refines (F : Type) (A : Arith F) (J : mr_junk F) (S : mr_settings F) (g : mr_args F) :
  minres_buf A J S g = minres A S g.
Proof.
rewrite /minres_buf /minres.
set u := mr_prepare A S g.
have := loop_refines A (u_Q u) (u_C u) (g_n g) (g_mm g) (u_pre u) (g_value g) (shifts_tab A g) (g_eps g)
          (s_minres_tolerance S) (u_iters u) 0 (buf_init A (u_Q u) (u_C u) (g_n g) (u_pre u) J (u_rhs u)).
rewrite abs_init st_loop_supd.
case: (buf_loop _ _ _ _ _ _ _ _ _ _ _ _ _) => sb kb; case: (st_loop _ _ _ _ _ _ _ _ _ _ _ _ _) => ss ks /=.
by case=> -> ->.
Qed.

Corollary minres_buf_junk_irrelevant (F : Type) (A : Arith F) (J J' : mr_junk F) S g :
  minres_buf A J S g = minres_buf A J' S g.
Proof. by rewrite !minres_buf_refines. Qed.
