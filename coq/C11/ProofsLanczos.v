(* C11 — the orthogonality half of Paige-Saunders, as far as it goes without convergence theory.
   Exact arithmetic, no preconditioner, linear closure whose matrix is SYMMETRIC, a column whose
   normalised right-hand side is not zero, and NO LANCZOS BREAKDOWN during the first k bodies (the clamp
   beta_curr.clamp_min_(eps) is inactive: eps <= ||unnormalised z||).  Then
   * the Lanczos vectors z_1 ... z_{k+1} the loop produces are orthonormal (three-term recurrence + symmetry,
     strong induction);
   * the auxiliary vector pbar_k of the residual recurrence has norm 1 and is orthogonal to later z's;
   * hence  || b^ - (value K + s I) x_k ||^2 = scale_prev_k^2 : the quantity the code calls scale is exactly the
     residual norm, for every shift, and (C11_scale_nonincreasing) the residual norms never grow.
   The minimal-residual property and the exact-breakdown step are in ProofsMinimal.v. *)
From mathcomp Require Import all_ssreflect all_algebra.
From mathcomp Require Import ring.
Require Import C11.Model C11.ProofsAny C11.ProofsExact C11.ProofsResidual.
Set Implicit Arguments.
Unset Strict Implicit.
Unset Printing Implicit Defensive.
Import Order.Theory GRing.Theory Num.Theory.
Local Open Scope ring_scope.

Section Lanczos.
Variable R : rcfType.
Variables (Q C n : nat).
Variable mm : cols R -> cols R.
Variable value : option R.
Variable shifts : qc R.
Variable eps : R.
Hypothesis eps_pos : 0 < eps.
Variable M : nat -> nat -> nat -> R.
Hypothesis mm_lin : forall X j i, (j < C)%N -> (i < n)%N ->
  cg2 (ArR R) (mm X) j i = \sum_(l < n) M j i l * cg2 (ArR R) X j l.
Hypothesis M_sym : forall j i l, M j i l = M j l i.

Notation AR := (ArR R).
Notation pre := (fun X : cols R => X).
Notation st_step := (@st_step R AR Q C n mm pre value shifts eps).
Notation st_iter := (@st_iter R AR Q C n mm pre value shifts eps).
Notation st_init := (@st_init R AR Q C n pre).
Notation sg := (sget AR).
Notation cg := (cg2 AR).
Notation qg := (qget AR).
Notation xg := (xget AR).
Notation Kv := (@Kv R n value M).
Notation As := (@As R n value shifts M).

Variable j : nat.
Hypothesis hj : (j < C)%N.
Variable rhs : cols R.
Notation iter k := (st_iter k (st_init rhs)).

(* ---- fdot products of vectors given as functions of the index ---- *)
Definition fdot (f g : nat -> R) : R := \sum_(i < n) f i * g i.

Lemma dotC f g : fdot f g = fdot g f.
Proof. by apply: eq_bigr => i _; rewrite mulrC. Qed.

Lemma dot_extl f f' g : (forall i, (i < n)%N -> f i = f' i) -> fdot f g = fdot f' g.
Proof. by move=> H; apply: eq_bigr => i _; rewrite H. Qed.

Lemma dot_extr f g g' : (forall i, (i < n)%N -> g i = g' i) -> fdot f g = fdot f g'.
Proof. by move=> H; apply: eq_bigr => i _; rewrite H. Qed.

Lemma dot_lin3 (a b c : R) f g h u :
  fdot (fun i => a * f i + b * g i + c * h i) u = a * fdot f u + b * fdot g u + c * fdot h u.
Proof.
rewrite /fdot !mulr_sumr -!big_split /=; apply: eq_bigr => i _; ring.
Qed.

Lemma dot_lin2 (a b : R) f g u : fdot (fun i => a * f i + b * g i) u = a * fdot f u + b * fdot g u.
Proof. rewrite /fdot !mulr_sumr -!big_split /=; apply: eq_bigr => i _; ring. Qed.

Lemma dot_comb2 (a b : R) f g :
  fdot (fun i => a * f i + b * g i) (fun i => a * f i + b * g i)
  = a ^+ 2 * fdot f f + 2 * a * b * fdot f g + b ^+ 2 * fdot g g.
Proof.
rewrite /fdot !mulr_sumr -!big_split /=; apply: eq_bigr => i _; ring.
Qed.

Lemma dot0l g : fdot (fun _ => 0) g = 0.
Proof. by rewrite /fdot big1 // => i _; rewrite mul0r. Qed.

Lemma Kv_sym f g : fdot (Kv j f) g = fdot f (Kv j g).
Proof.
rewrite /fdot /ProofsResidual.Kv.
rewrite (eq_bigr (fun i : 'I_n => \sum_(l < n) (M j i l * f l * vv value * g i))); last first.
  by move=> i _; rewrite -mulrA mulr_suml; apply: eq_bigr => l _; ring.
rewrite exchange_big /=; apply: eq_bigr => l _.
rewrite mulrA mulr_sumr mulr_suml; apply: eq_bigr => i _.
rewrite (M_sym j i l); ring.
Qed.

(* ---- the Lanczos quantities of column j ---- *)
Definition Z (m : nat) : nat -> R := fun i => cg (zp1 (iter m)) j i.        (* z_{m+1} *)
Definition Zp (m : nat) : nat -> R := fun i => cg (zp2 (iter m)) j i.       (* z_m  (0 for m = 0) *)
Definition beta (m : nat) : R := sg (bprev (iter m)) j.
Definition alpha (m : nat) : R := sg (lz_alpha AR C n mm value (iter m)) j.
Definition W (m : nat) : nat -> R := fun i => Kv j (Z m) i - alpha m * Z m i - beta m * Zp m i.

Lemma Zp0 i : (i < n)%N -> Zp 0 i = 0.
Proof. by move=> hi; rewrite /Zp /= /Model.st_init /= cg2_ctab. Qed.

Lemma ZpS m : Zp m.+1 = Z m.
Proof. by []. Qed.

Lemma w_eq m i : (i < n)%N -> cg (lz_w AR C n mm value (iter m)) j i = W m i.
Proof.
move=> hi; rewrite /Model.lz_w /e_lanczos cg2_ctab // (mmv_Kv value mm_lin) // (qz_iter Q C n mm value shifts eps m rhs).
by rewrite /W /alpha /beta /Z /Zp.
Qed.

Lemma alpha_dot m : alpha m = fdot (Kv j (Z m)) (Z m).
Proof.
rewrite /alpha (lanczos_alpha n mm value (iter m) hj); apply: eq_bigr => i _.
by rewrite (mmv_Kv value mm_lin) // (qz_iter Q C n mm value shifts eps m rhs).
Qed.

Lemma beta_next m : beta m.+1 = clamp_min AR eps (Num.sqrt (fdot (W m) (W m))).
Proof.
rewrite /beta st_iterS (step_bprev Q C n mm pre value shifts eps) /Model.lz_beta /e_sqrt_clamp sget_stab //.
congr (clamp_min _ _ (Num.sqrt _)).
rewrite /e_sum sget_stab // sumn_big; apply: eq_bigr => i _.
by rewrite /e_mul cg2_ctab // w_eq.
Qed.

Lemma beta_gt0 m : 0 < beta m.+1.
Proof. by rewrite /beta st_iterS (step_bprev Q C n mm pre value shifts eps); apply: lz_beta_gt0. Qed.

Lemma Z_next m i : (i < n)%N -> beta m.+1 * Z m.+1 i = W m i.
Proof.
move=> hi; rewrite /beta /Z st_iterS (lanczos_step Q mm pre value shifts eps_pos (iter m) hj hi).
by rewrite (mmv_Kv value mm_lin) // (qz_iter Q C n mm value shifts eps m rhs).
Qed.

(* K z_{m+1} from the recurrence *)
Lemma KZ m i : (i < n)%N -> Kv j (Z m) i = beta m.+1 * Z m.+1 i + alpha m * Z m i + beta m * Zp m i.
Proof. by move=> hi; rewrite (Z_next m hi) /W; ring. Qed.

(* no breakdown at body m: the clamp is inactive *)
Definition no_breakdown (m : nat) : Prop := eps <= Num.sqrt (fdot (W m) (W m)).

(* the same condition on the model's own quantities: the argument of clamp_min_ in line 147 is >= eps *)
Lemma no_breakdown_model m :
  let w := lz_w AR C n mm value (iter m) in
  no_breakdown m <-> eps <= Num.sqrt (sg (e_sum AR C n (e_mul AR C n w w)) j).
Proof.
rewrite /no_breakdown /=.
have -> : sg (e_sum AR C n (e_mul AR C n (lz_w AR C n mm value (iter m)) (lz_w AR C n mm value (iter m)))) j
          = fdot (W m) (W m).
  rewrite /e_sum sget_stab // sumn_big; apply: eq_bigr => i _.
  by rewrite /e_mul cg2_ctab // w_eq.
by [].
Qed.

Lemma beta_sqr m : no_breakdown m -> beta m.+1 ^+ 2 = fdot (W m) (W m).
Proof.
move=> nb; rewrite beta_next /clamp_min /= ltNge nb /= sqr_sqrtr //.
by apply: sumr_ge0 => i _; rewrite -expr2 sqr_ge0.
Qed.

Lemma Z_unit m : no_breakdown m -> fdot (Z m.+1) (Z m.+1) = 1.
Proof.
move=> nb.
have hb := beta_gt0 m.
have hb0 : beta m.+1 != 0 by rewrite gt_eqF.
apply: (mulfI (expf_neq0 2 hb0)); rewrite mulr1 [RHS](beta_sqr nb).
rewrite /fdot mulr_sumr; apply: eq_bigr => i _.
by rewrite -(Z_next m (ltn_ord i)); ring.
Qed.

(* the first vector is a unit vector iff the (normalised) rhs column is not zero *)
Hypothesis rhs_nz : 0 < fdot (cg rhs j) (cg rhs j).

Lemma Z0_unit : fdot (Z 0) (Z 0) = 1.
Proof.
rewrite /fdot /Z /= /Model.st_init /=.
set b0 := stab C _.
have hb : sg b0 j = Num.sqrt (fdot (cg rhs j) (cg rhs j)).
  rewrite /b0 sget_stab // /e_sum sget_stab // sumn_big; congr Num.sqrt.
  by apply: eq_bigr => i _; rewrite /e_mul cg2_ctab.
have hb2 : sg b0 j ^+ 2 = fdot (cg rhs j) (cg rhs j) by rewrite hb sqr_sqrtr // ltW.
have hb0 : sg b0 j != 0 by rewrite hb gt_eqF // sqrtr_gt0.
apply: (mulfI (expf_neq0 2 hb0)); rewrite mulr1 [RHS]hb2 /fdot mulr_sumr; apply: eq_bigr => i _.
rewrite /e_divc cg2_ctab //=.
by field.
Qed.

(* ---- orthonormality, by strong induction ---- *)
Definition ortho (k : nat) : Prop :=
  forall a b, (a <= k)%N -> (b <= k)%N -> fdot (Z a) (Z b) = (a == b)%:R.

Lemma dot_Zp k a : ortho k -> (a <= k)%N -> forall b, (b <= k)%N ->
  fdot (Zp a) (Z b) = (if a is a'.+1 then (a' == b)%:R else 0).
Proof.
move=> H ha b hb; case: a ha => [|a'] ha.
  by rewrite (dot_extl (f' := fun _ => 0)) ?dot0l //; exact: Zp0.
by rewrite ZpS H // ltnW.
Qed.

Lemma ortho_step k : ortho k -> no_breakdown k -> ortho k.+1.
Proof.
move=> H nb.
have hbk := beta_gt0 k.
have hb0 : beta k.+1 != 0 by rewrite gt_eqF.
(* the new vector against the old ones *)
have new b : (b <= k)%N -> fdot (Z k.+1) (Z b) = 0.
  move=> hb; apply: (mulfI hb0); rewrite mulr0.
  have -> : beta k.+1 * fdot (Z k.+1) (Z b) = fdot (W k) (Z b).
    rewrite /fdot mulr_sumr; apply: eq_bigr => i _.
    by rewrite mulrA (Z_next k (ltn_ord i)).
  have -> : fdot (W k) (Z b) = fdot (Kv j (Z k)) (Z b) - alpha k * fdot (Z k) (Z b) - beta k * fdot (Zp k) (Z b).
    rewrite (dot_extl (f' := fun i => 1 * Kv j (Z k) i + (- alpha k) * Z k i + (- beta k) * Zp k i)); last first.
      by move=> i _; rewrite /W; ring.
    by rewrite dot_lin3; ring.
  rewrite (dot_Zp H (leqnn k) hb) (H k b (leqnn k) hb).
  move: hb; rewrite leq_eqVlt => /orP[/eqP heq|hlt].
    (* b = k *)
    rewrite heq eqxx -alpha_dot.
    have -> : (if k is a'.+1 then (a' == k)%:R else 0) = 0 :> R.
      by case: (k) => [|k'] //; rewrite ltn_eqF.
    by rewrite /= mulr1 mulr0 subrr subr0.
  (* b < k : use symmetry and the recurrence for K z_b *)
  rewrite (gtn_eqF hlt) /= mulr0 subr0 Kv_sym.
  have -> : fdot (Z k) (Kv j (Z b)) = beta b.+1 * fdot (Z b.+1) (Z k) + alpha b * fdot (Z b) (Z k) + beta b * fdot (Zp b) (Z k).
    rewrite dotC (dot_extl (f' := fun i => beta b.+1 * Z b.+1 i + alpha b * Z b i + beta b * Zp b i)); last first.
      by move=> i hi; rewrite (KZ b hi).
    by rewrite dot_lin3.
  rewrite (H b.+1 k hlt (leqnn k)) (H b k (ltnW hlt) (leqnn k)) (dot_Zp H (ltnW hlt) (leqnn k)) (ltn_eqF hlt) /= mulr0 addr0.
  have -> : (if b is a'.+1 then (a' == k)%:R else 0) = 0 :> R.
    by case: (b) hlt => [|b'] // hlt; rewrite ltn_eqF // ltnW.
  rewrite mulr0 addr0.
  case: (k) hlt => [|k'] // hlt.
  rewrite eqSS [k' == b]eq_sym.
  have [E|E] := eqVneq b k'; first by rewrite E subrr.
  by move: (beta b.+1) (beta k'.+1) => x y; rewrite !mulr0 subrr.
move=> a b; rewrite (leq_eqVlt a) (leq_eqVlt b) => /orP[/eqP->|ha] /orP[/eqP->|hb].
- by rewrite eqxx Z_unit.
- by rewrite new // (gtn_eqF hb).
- by rewrite dotC new // (ltn_eqF ha).
- exact: H.
Qed.

Lemma ortho0 : ortho 0.
Proof. by move=> [|a] [|b] // _ _; rewrite Z0_unit. Qed.

Theorem lanczos_orthonormal k : (forall m, (m < k)%N -> no_breakdown m) -> ortho k.
Proof.
elim: k => [|k IH] nb; first exact: ortho0.
by apply: ortho_step; [apply: IH => m hm; apply: nb; exact: ltnW | apply: nb].
Qed.

(* ---- the residual norm is the scale term ---- *)
Section Shift.
Variable q : nat.
Hypothesis hq : (q < Q)%N.
Notation pbar := (@pbar R Q C n mm value shifts eps q j rhs).
Notation gsin := (@g_sin R C n mm pre value shifts eps).
Notation gcos := (@g_cos R C n mm pre value shifts eps).

Lemma pbar_props k : ortho k ->
  fdot (pbar k) (pbar k) = 1 /\ forall m, (k < m)%N -> ortho m -> fdot (pbar k) (Z m) = 0.
Proof.
elim: k => [|k IH] H.
  split; first by rewrite [fdot _ _]Z0_unit.
  by move=> m hm Hm; rewrite [fdot _ _](Hm 0%N m (leq0n m) (leqnn m)) (ltn_eqF hm).
have Hk : ortho k by move=> a b ha hb; apply: H; exact: leqW.
have [n1 o1] := IH Hk.
have hcs : gcos (iter k) q j ^+ 2 + gsin (iter k) q j ^+ 2 = 1 by apply: g_cos_sin.
have hexp i : pbar k.+1 i = (- gsin (iter k) q j) * pbar k i + gcos (iter k) q j * Z k.+1 i.
  by rewrite /= /pb_next /Z st_iterS; ring.
split.
- rewrite (dot_extl (f' := fun i => (- gsin (iter k) q j) * pbar k i + gcos (iter k) q j * Z k.+1 i)); last by move=> i _; exact: hexp.
  rewrite (dot_extr _ (g' := fun i => (- gsin (iter k) q j) * pbar k i + gcos (iter k) q j * Z k.+1 i)); last by move=> i _; exact: hexp.
  rewrite dot_comb2 n1 (o1 k.+1 (ltnSn k) H) (H k.+1 k.+1 (leqnn _) (leqnn _)) eqxx.
  by rewrite mulr1n mulr0 addr0 !mulr1 sqrrN addrC.
- move=> m hm Hm.
  rewrite (dot_extl (f' := fun i => (- gsin (iter k) q j) * pbar k i + gcos (iter k) q j * Z k.+1 i)); last by move=> i _; exact: hexp.
  rewrite dot_lin2 (o1 m (ltnW hm) Hm) (Hm k.+1 m (ltnW hm) (leqnn m)) (ltn_eqF hm).
  by rewrite !mulr0 addr0.
Qed.

Theorem residual_norm_is_scale k :
  (forall m, (m < k)%N -> no_breakdown m) ->
  let x := fun l => xg (sol (iter k)) q j l in
  \sum_(i < n) (cg rhs j i - As q j x i) ^+ 2 = qg (scp (iter k)) q j ^+ 2.
Proof.
move=> nb x.
have [n1 _] := pbar_props (lanczos_orthonormal nb).
rewrite (eq_bigr (fun i : 'I_n => qg (scp (iter k)) q j ^+ 2 * (pbar k i * pbar k i))); last first.
  move=> i _; rewrite (minres_true_residual value shifts eps_pos mm_lin hq hj rhs k (ltn_ord i)); ring.
by rewrite -mulr_sumr -/(fdot (pbar k) (pbar k)) n1 mulr1.
Qed.

End Shift.
End Lanczos.
