(* C11 — contour-integral quadrature: the spectral lifting theorem (MathComp matrices over an
   arbitrary field) and its bridge to the list model of coq/C11/Model.v.

   K = P diag(lam) P^T with P orthogonal; for every quadrature node q the shifted system
   (v K + s_q I) x_q = b is solved EXACTLY (hypothesis: this is what MINRES convergence would give;
   it is not proved, DESIGN section 6); the nodes/weights satisfy the SCALAR rule
   sum_q w_q / (v lam_i + s_q) = r_i on every eigenvalue (hypothesis: this is what the accuracy of
   the elliptic quadrature would give; not proved).  Then sum_q w_q x_q = P diag(r) P^T b, and if
   r_i^2 lam_i = 1 (r_i = lam_i^(-1/2)) this matrix is a symmetric inverse square root of K:
   applying it twice gives K^-1 b; K times it is a square root of K (sampling covariance).
   contour_integral_quad calls minres with value v = -1 and shifts s_q <= 0, weights w_q <= 0.  *)
From mathcomp Require Import all_ssreflect all_algebra.
From mathcomp Require Import ring.
Require Import C11.Model C11.ProofsAny.
Set Implicit Arguments.
Unset Strict Implicit.
Unset Printing Implicit Defensive.
Import GRing.Theory.
Local Open Scope ring_scope.

Section Lifting.
Variable F : fieldType.
Variable n : nat.
Variables (K P : 'M[F]_n) (lam : 'rV[F]_n).
Hypothesis orth : P^T *m P = 1%:M.
Hypothesis spec : K = P *m diag_mx lam *m P^T.

Lemma orth' : P *m P^T = 1%:M.
Proof. exact: (mulmx1C orth). Qed.

(* conjugation by P is a ring morphism on diagonal matrices *)
Definition conj (d : 'rV[F]_n) : 'M[F]_n := P *m diag_mx d *m P^T.

Lemma conjM d e : conj d *m conj e = conj (\row_i (d 0 i * e 0 i)).
Proof.
rewrite /conj !mulmxA -[P *m diag_mx d *m P^T *m P]mulmxA orth mulmx1.
by rewrite -[P *m diag_mx d *m diag_mx e]mulmxA mulmx_diag.
Qed.

Lemma conjD d e : conj d + conj e = conj (d + e).
Proof. by rewrite /conj -mulmxDl -mulmxDr -linearD. Qed.

Lemma conjZ a d : a *: conj d = conj (a *: d).
Proof. by rewrite /conj linearZ /= -scalemxAr -scalemxAl. Qed.

Lemma conj1 : conj (const_mx 1) = 1%:M.
Proof. by rewrite /conj diag_const_mx mulmx1 orth'. Qed.

Lemma conj_sum (I : finType) (d : I -> 'rV[F]_n) : \sum_q conj (d q) = conj (\sum_q d q).
Proof.
rewrite /conj; elim/big_rec2: _ => [|q x y _ ->]; first by rewrite linear0 mulmx0 mul0mx.
by rewrite conjD.
Qed.

Lemma conj_sym d : (conj d)^T = conj d.
Proof. by rewrite /conj !trmx_mul trmxK tr_diag_mx mulmxA. Qed.

Lemma K_conj : K = conj lam.
Proof. exact: spec. Qed.

Section Nodes.
Variable v : F.                       (* the `value` argument of minres: -1 in contour_integral_quad *)
Variable Nq : nat.
Variables (w s : 'I_Nq -> F).         (* weights, shifts *)
Hypothesis nonsing : forall q i, v * lam 0 i + s q != 0.

Definition shifted q : 'M[F]_n := v *: K + (s q)%:M.

Lemma shifted_conj q : shifted q = conj (\row_i (v * lam 0 i + s q)).
Proof.
rewrite /shifted K_conj conjZ -[(s q)%:M]scalemx1 -conj1 conjZ conjD.
by congr conj; apply/rowP => i; rewrite !mxE mulr1.
Qed.

Definition resolvent q : 'M[F]_n := conj (\row_i (v * lam 0 i + s q)^-1).

Lemma resolvent_left q : resolvent q *m shifted q = 1%:M.
Proof.
rewrite shifted_conj /resolvent conjM -conj1; congr conj.
by apply/rowP => i; rewrite !mxE mulVf.
Qed.

Lemma solve_unique q (x b : 'cV[F]_n) : shifted q *m x = b -> x = resolvent q *m b.
Proof. by move=> <-; rewrite mulmxA resolvent_left mul1mx. Qed.

(* THE LIFTING THEOREM *)
Theorem ciq_spectral_lifting (x : 'I_Nq -> 'cV[F]_n) (b : 'cV[F]_n) (r : 'rV[F]_n) :
  (forall q, shifted q *m x q = b) ->
  (forall i, \sum_q w q / (v * lam 0 i + s q) = r 0 i) ->
  \sum_q w q *: x q = conj r *m b.
Proof.
move=> Hx Hr.
rewrite (eq_bigr (fun q => conj (w q *: \row_i (v * lam 0 i + s q)^-1) *m b)); last first.
  by move=> q _; rewrite (solve_unique (Hx q)) /resolvent -conjZ scalemxAl.
rewrite -mulmx_suml conj_sum; congr (conj _ *m _).
apply/rowP => i; rewrite summxE -Hr; apply: eq_bigr => q _.
by rewrite !mxE.
Qed.

End Nodes.

(* r_i = lam_i^(-1/2): conj r is a symmetric inverse square root of K *)
Section Root.
Variable r : 'rV[F]_n.
Hypothesis root : forall i, r 0 i * r 0 i * lam 0 i = 1.

Lemma root_inv : conj r *m conj r *m K = 1%:M.
Proof.
rewrite K_conj !conjM -conj1; congr conj.
by apply/rowP => i; rewrite !mxE root.
Qed.

Lemma K_unit : K \in unitmx.
Proof. by case/mulmx1_unit: root_inv. Qed.

(* applying the inverse square root twice gives K^-1 b *)
Theorem root_twice (b : 'cV[F]_n) : conj r *m (conj r *m b) = invmx K *m b.
Proof.
rewrite mulmxA; congr (_ *m b).
by rewrite -[LHS]mulmx1 -(mulmxV K_unit) [LHS]mulmxA root_inv mul1mx.
Qed.

(* K * K^(-1/2) is a symmetric square root of K (what inverse=False / ciq sampling applies) *)
Lemma sqrt_conj : K *m conj r = conj (\row_i (lam 0 i * r 0 i)).
Proof. by rewrite K_conj conjM. Qed.

Theorem sqrt_squares : (K *m conj r) *m (K *m conj r) = K.
Proof.
rewrite sqrt_conj conjM K_conj; congr conj.
apply/rowP => i; rewrite !mxE.
have := root i; move: (r 0 i) (lam 0 i) => a l H.
by rewrite -[RHS]mulr1 -H; ring.
Qed.

Theorem sqrt_covariance : (K *m conj r) *m (K *m conj r)^T = K.
Proof. by rewrite sqrt_conj conj_sym -sqrt_conj sqrt_squares. Qed.

End Root.

(* the left-factor variant: the no-shift solve with value = -1 is -K^-1 l, and
   -(y^T l) = l^T K^-1 l  (entry of diag(L K^-1 L^T)) *)
Theorem inv_quad_term (y l : 'cV[F]_n) :
  K \in unitmx -> (-1) *: K *m y = l -> - (y^T *m l) = l^T *m invmx K *m l.
Proof.
move=> Ku H.
have Ksym : K^T = K by rewrite K_conj conj_sym.
have -> : y = - (invmx K *m l).
  by rewrite -H -scalemxAl scaleN1r mulmxN mulKmx // opprK.
by rewrite linearN /= mulNmx opprK trmx_mul trmx_inv Ksym.
Qed.

End Lifting.

(* ---------------------------------------------------------------------------------------- *)
(* bridge: the list model instantiated on a field *)
Section Bridge.
Variable R : fieldType.

Definition ArF : Arith R :=
  MkArith 0 1 +%R (fun x y => x - y) *%R (fun x y => x / y) -%R (fun x => x) (fun x => x)
          (fun _ _ => false) (fun _ _ => false) (fun x y => x == y).

Definition cv_of n (v : vec R) : 'cV[R]_n := \col_i vget ArF v i.

Lemma sumn_bigF (f : nat -> R) k : sumn_ ArF f k = \sum_(l < k) f l.
Proof. by elim: k => [|k IH] /=; rewrite ?big_ord0 // big_ord_recr /= IH. Qed.

(* (solves * weights).sum(0), column j *)
Lemma wsum_bridge Nq C n t (weights : seq (seq R)) (solves : qcols R) j :
  (j < C)%N ->
  cv_of n (cget (wsum ArF Nq C n t weights solves) j) =
  \sum_(q < Nq) sget ArF (nth [::] weights q) (j %/ t) *: cv_of n (cget (nth [::] solves q) j).
Proof.
move=> hj; apply/colP => i.
rewrite mxE summxE /wsum /cget /vget /ctab (nth_mkseq _ _ hj) nth_mkseq // sumn_bigF.
by apply: eq_bigr => q _; rewrite !mxE /xget /vget /cget mulrC.
Qed.

(* the model's weighted sum of exact shifted solves is the spectral function applied to the column *)
Theorem wsum_exact Nq C n t (weights : seq (seq R)) (solves : qcols R) j
    (K P : 'M[R]_n) (lam r : 'rV[R]_n) (v : R) (shift : 'I_Nq -> R) (b : 'cV[R]_n) :
  (j < C)%N ->
  P^T *m P = 1%:M -> K = P *m diag_mx lam *m P^T ->
  (forall q i, v * lam 0 i + shift q != 0) ->
  (forall q : 'I_Nq, (v *: K + (shift q)%:M) *m cv_of n (cget (nth [::] solves q) j) = b) ->
  (forall i, \sum_(q < Nq) sget ArF (nth [::] weights q) (j %/ t) / (v * lam 0 i + shift q) = r 0 i) ->
  cv_of n (cget (wsum ArF Nq C n t weights solves) j) = P *m diag_mx r *m P^T *m b.
Proof.
move=> hj orth spec nz Hx Hr; rewrite wsum_bridge //.
exact: (ciq_spectral_lifting orth spec nz Hx Hr).
Qed.

End Bridge.
