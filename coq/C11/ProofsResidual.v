(* C11 — the MINRES residual recurrence, exact arithmetic, no preconditioner, LINEAR matmul closure.

   For every shift q, column j and every number k of loop bodies, the TRUE residual of the k-th iterate of
   the shifted system  A_s = value*K + s_{q,j} I  (K the matrix of the closure for column j) is

        b^ - A_s x_k  =  scale_prev_k * pbar_k ,          pbar_0 = z_1 ,
        pbar_{k+1}    =  - sin_{k+1} * pbar_k + cos_{k+1} * z_{k+2}

   (z the normalised Lanczos vectors, cos/sin the stored Givens pairs, scale_prev the quantity whose
   modulus C11_scale_product / C11_scale_nonincreasing describe).  This is Paige & Saunders'
   r_k = sin_k^2 r_{k-1} - phibar_k cos_k v_{k+1} in the form the code keeps it.  It is an algebraic identity:
   it needs neither symmetry of K nor orthogonality of the Lanczos vectors, and no division by zero
   occurs because beta >= eps > 0.  (That ||pbar_k|| = 1, hence ||residual|| = |scale_prev|, and that the
   residual is minimal, is the orthogonality part of Paige-Saunders: NOT proved.) *)
From mathcomp Require Import all_ssreflect all_algebra.
From mathcomp Require Import ring.
Require Import C11.Model C11.ProofsAny C11.ProofsExact.
Set Implicit Arguments.
Unset Strict Implicit.
Unset Printing Implicit Defensive.
Import Order.Theory GRing.Theory Num.Theory.
Local Open Scope ring_scope.

Section Residual.
Variable R : rcfType.
Variables (Q C n : nat).
Variable mm : cols R -> cols R.
Variable value : option R.
Variable shifts : qc R.
Variable eps : R.
Hypothesis eps_pos : 0 < eps.

(* the closure is linear: column j is multiplied by the n x n matrix M j *)
Variable M : nat -> nat -> nat -> R.
Hypothesis mm_lin : forall X j i, (j < C)%N -> (i < n)%N ->
  cg2 (ArR R) (mm X) j i = \sum_(l < n) M j i l * cg2 (ArR R) X j l.

Notation AR := (ArR R).
Notation pre := (fun X : cols R => X).
Notation st_step := (@st_step R AR Q C n mm pre value shifts eps).
Notation st_iter := (@st_iter R AR Q C n mm pre value shifts eps).
Notation st_init := (@st_init R AR Q C n pre).
Notation sg := (sget AR).
Notation cg := (cg2 AR).
Notation qg := (qget AR).
Notation xg := (xget AR).
Notation gsin := (@g_sin R C n mm pre value shifts eps).
Notation gcos := (@g_cos R C n mm pre value shifts eps).
Notation grad := (@g_rad R C n mm pre value shifts eps).
Notation gsub := (@g_sub R C n mm value shifts).
Notation gsubsub := (@g_subsub R).
Notation gdg := (@g_dg R C n mm pre value shifts eps).
Notation gals := (@g_als R C n mm value shifts).

Definition vv : R := if value is Some a then a else 1.

(* value * K applied to a vector given as a function of the index *)
Definition Kv (j : nat) (f : nat -> R) (i : nat) : R := (\sum_(l < n) M j i l * f l) * vv.
Definition As (q j : nat) (f : nat -> R) (i : nat) : R := Kv j f i + qg shifts q j * f i.

Lemma mmv_Kv X j i : (j < C)%N -> (i < n)%N -> cg (mm_value AR C n mm value X) j i = Kv j (cg X j) i.
Proof.
move=> hj hi; rewrite /mm_value /Kv /vv; case: value => [a|]; last by rewrite mulr1 mm_lin.
by rewrite cg2_ctab // mm_lin.
Qed.

Lemma Kv_ext j f g i : (forall l, (l < n)%N -> f l = g l) -> Kv j f i = Kv j g i.
Proof. by move=> H; rewrite /Kv; congr (_ * _); apply: eq_bigr => l _; rewrite H. Qed.

Lemma As_ext q j f g i : (i < n)%N -> (forall l, (l < n)%N -> f l = g l) -> As q j f i = As q j g i.
Proof. by move=> hi H; rewrite /As (Kv_ext j i H) H. Qed.

Lemma Kv_lin j (a b : R) f g i : Kv j (fun l => a * f l + b * g l) i = a * Kv j f i + b * Kv j g i.
Proof.
rewrite /Kv !mulrA -mulrDl; congr (_ * _).
rewrite !mulr_sumr -big_split /=; apply: eq_bigr => l _; ring.
Qed.

Lemma As_lin q j (a b : R) f g i : As q j (fun l => a * f l + b * g l) i = a * As q j f i + b * As q j g i.
Proof. rewrite /As Kv_lin; ring. Qed.

Lemma Kv_0 j i : Kv j (fun _ => 0) i = 0.
Proof. by rewrite /Kv big1 ?mul0r // => l _; rewrite mulr0. Qed.

Lemma As_0 q j i : As q j (fun _ => 0) i = 0.
Proof. by rewrite /As Kv_0 mulr0 addr0. Qed.

(* without preconditioner q = z in every reachable state *)
Lemma qz_init rhs : qp1 (st_init rhs) = zp1 (st_init rhs).
Proof. by []. Qed.
Lemma qz_step s : qp1 (st_step s) = zp1 (st_step s).
Proof. by []. Qed.
Lemma qz_iter k rhs : qp1 (st_iter k (st_init rhs)) = zp1 (st_iter k (st_init rhs)).
Proof. by case: k => [|k]; [exact: qz_init | rewrite st_iterS; exact: qz_step]. Qed.

Section Fixed.
Variables (q j : nat).
Hypotheses (hq : (q < Q)%N) (hj : (j < C)%N).

(* the invariant, for a state s and the auxiliary vector pb = pbar *)
Definition P1 (s : mr_state R) (i : nat) : R := As q j (fun l => xg (hp1 s) q j l) i.
Definition P2 (s : mr_state R) (i : nat) : R := As q j (fun l => xg (hp2 s) q j l) i.

Record inv (rhs : cols R) (s : mr_state R) (pb : nat -> R) : Prop := MkInv {
  inv_qz : qp1 s = zp1 s;
  inv_g1 : qg (cp1 s) q j ^+ 2 + qg (sp1 s) q j ^+ 2 = 1;
  inv_z1 : forall i, (i < n)%N -> cg (zp1 s) j i = qg (sp1 s) q j * P1 s i + qg (cp1 s) q j * pb i;
  inv_z2 : forall i, (i < n)%N ->
             cg (zp2 s) j i = qg (sp2 s) q j * P2 s i
                              + qg (cp2 s) q j * (qg (cp1 s) q j * P1 s i - qg (sp1 s) q j * pb i);
  inv_res : forall i, (i < n)%N ->
              cg rhs j i - As q j (fun l => xg (sol s) q j l) i = qg (scp s) q j * pb i
}.

Definition pb_next (s : mr_state R) (pb : nat -> R) (i : nat) : R :=
  - gsin s q j * pb i + gcos s q j * cg (zp1 (st_step s)) j i.

(* A_s applied to the new search vector is the rotated pair (sin z' + cos pbar) *)
Lemma As_search rhs s pb i : inv rhs s pb -> (i < n)%N ->
  P1 (st_step s) i = gsin s q j * cg (zp1 (st_step s)) j i + gcos s q j * pb i.
Proof.
move=> [hqz hg1 hz1 hz2 hres] hi.
have hrad : grad s q j != 0 by rewrite gt_eqF // g_rad_gt0.
have hdg : gdg s q j = grad s q j by apply: g_dg_rad.
set sub := gsub s q j; set subsub := gsubsub s q j.
set dg := gdg s q j.
have -> : P1 (st_step s) i =
    dg^-1 * As q j (cg (zp1 s) j) i + 1 * ((- (sub / dg)) * P1 s i + (- (subsub / dg)) * P2 s i).
  rewrite /P1 /P2 -As_lin -As_lin; apply: As_ext => // l hl.
  rewrite step_hp1 // /g_search hqz -/sub -/subsub -/dg.
  by field; rewrite /dg hdg.
(* the Lanczos relation gives A_s z_1 *)
have hL : As q j (cg (zp1 s) j) i =
    sg (bprev (st_step s)) j * cg (zp1 (st_step s)) j i + gals s q j * cg (zp1 s) j i
    + sg (bprev s) j * cg (zp2 s) j i.
  rewrite lanczos_step // mmv_Kv // hqz /As /g_als; ring.
rewrite hL (hz2 i hi) (hz1 i hi) /gsin /gcos /g_sin /g_cos.
rewrite /sub /subsub /dg hdg /g_sub /g_subsub /g_dg0 /g_sub0 step_bprev.
move: (grad s q j) hrad => r hr.
by field.
Qed.

Lemma inv_step rhs s pb : inv rhs s pb -> inv rhs (st_step s) (pb_next s pb).
Proof.
move=> H; have [hqz hg1 hz1 hz2 hres] := H.
have hcs : gcos s q j ^+ 2 + gsin s q j ^+ 2 = 1 by exact: g_cos_sin.
split.
- exact: qz_step.
- by rewrite step_cp1 // step_sp1.
- move=> i hi; rewrite (As_search H hi) step_sp1 // step_cp1 // /pb_next.
  move: (gsin s q j) (gcos s q j) hcs => S' C' hcs.
  rewrite -[LHS]mul1r -hcs; ring.
- move=> i hi; rewrite step_zp2 step_sp2 step_cp2 step_cp1 // step_sp1 //.
  have -> : P2 (st_step s) i = P1 s i by [].
  rewrite (As_search H hi) (hz1 i hi) /pb_next.
  move: (gsin s q j) (gcos s q j) hcs => S' C' hcs.
  have -> : C' * (S' * cg (zp1 (st_step s)) j i + C' * pb i) - S' * (- S' * pb i + C' * cg (zp1 (st_step s)) j i)
            = (C' ^+ 2 + S' ^+ 2) * pb i by ring.
  by rewrite hcs mul1r.
- move=> i hi.
  have -> : As q j (fun l => xg (sol (st_step s)) q j l) i =
            As q j (fun l => xg (sol s) q j l) i + (qg (scp s) q j * gcos s q j) * P1 (st_step s) i.
    rewrite /P1 -[X in X + _]mul1r -As_lin; apply: As_ext => // l hl.
    by rewrite step_sol // step_hp1 //; ring.
  rewrite (As_search H hi) step_scp // /pb_next.
  have := hres i hi; move: (As q j _ i) => Ax hx.
  have -> : cg rhs j i - (Ax + qg (scp s) q j * gcos s q j * (gsin s q j * cg (zp1 (st_step s)) j i + gcos s q j * pb i))
          = (cg rhs j i - Ax) - qg (scp s) q j * gcos s q j * (gsin s q j * cg (zp1 (st_step s)) j i + gcos s q j * pb i) by ring.
  rewrite hx.
  move: (gsin s q j) (gcos s q j) hcs (qg (scp s) q j) (cg (zp1 (st_step s)) j i) (pb i) => S' C' hcs phi z' p.
  have -> : phi * p - phi * C' * (S' * z' + C' * p) = phi * p * (C' ^+ 2 + S' ^+ 2) - phi * C' * (S' * z' + C' * p)
    by rewrite hcs mulr1.
  ring.
Qed.

(* pbar_k *)
Fixpoint pbar (rhs : cols R) (k : nat) : nat -> R :=
  if k is k'.+1 then pb_next (st_iter k' (st_init rhs)) (pbar rhs k') else fun i => cg (zp1 (st_init rhs)) j i.

Lemma sum_sq_zero (f : nat -> R) m i : (i < m)%N -> \sum_(l < m) f l * f l <= 0 -> f i = 0.
Proof.
move=> hi Hle.
have Hge : forall l : 'I_m, true -> 0 <= f l * f l by move=> l _; rewrite -expr2 sqr_ge0.
have H0 : \sum_(l < m) f l * f l = 0 by apply/eqP; rewrite eq_le Hle sumr_ge0.
have := @psumr_eq0P _ _ _ _ Hge H0 (Ordinal hi) isT => /eqP.
by rewrite /= mulf_eq0 orbb => /eqP.
Qed.

(* beta_0 * z_1 = b^ (also when beta_0 = 0: the column is then zero) *)
Lemma init_scale_z rhs i : (i < n)%N ->
  qg (scp (st_init rhs)) q j * cg (zp1 (st_init rhs)) j i = cg rhs j i.
Proof.
move=> hi; rewrite /Model.st_init /= qget_qtab // /e_divc cg2_ctab // !sget_stab //; cbv beta; rewrite /= sumn_big.
rewrite (eq_bigr (fun l : 'I_n => cg rhs j l * cg rhs j l)); last by move=> l _; rewrite /e_mul cg2_ctab.
set B := Num.sqrt _.
case E: (B == 0); last by rewrite mulrC divfK // E.
rewrite (eqP E) mul0r; symmetry; apply: (sum_sq_zero hi).
by move: E; rewrite /B sqrtr_eq0.
Qed.

Lemma inv_init rhs : inv rhs (st_init rhs) (pbar rhs 0).
Proof.
have hz : forall (X : qcols R) i, X = zeros_x AR Q C n -> (i < n)%N -> As q j (fun l => xg X q j l) i = 0.
  move=> X i -> hi; rewrite -(As_0 q j i); apply: As_ext => // l hl.
  by rewrite /zeros_x xget_xtab.
have [c1 [s1 [c2 s2]]] : qg (cp1 (st_init rhs)) q j = 1 /\ qg (sp1 (st_init rhs)) q j = 0 /\
                          qg (cp2 (st_init rhs)) q j = 1 /\ qg (sp2 (st_init rhs)) q j = 0.
  by rewrite /Model.st_init /= /ones_qc /zeros_qc !qget_qtab.
have z2 i : (i < n)%N -> cg (zp2 (st_init rhs)) j i = 0.
  by move=> hi; rewrite /Model.st_init /= cg2_ctab.
split.
- exact: qz_init.
- by rewrite c1 s1 expr1n expr0n /= addr0.
- move=> i hi; rewrite /P1 hz // c1 s1 /=; ring.
- move=> i hi; rewrite /P1 /P2 !hz // c1 s1 ?c2 ?s2 z2 //; ring.
- by move=> i hi; rewrite hz // subr0 [pbar _ _ _]/= init_scale_z.
Qed.

Lemma inv_iter rhs k : inv rhs (st_iter k (st_init rhs)) (pbar rhs k).
Proof. by elim: k => [|k IH]; [exact: inv_init | rewrite st_iterS /=; exact: inv_step]. Qed.

(* THE RESIDUAL THEOREM *)
Theorem minres_true_residual rhs k i : (i < n)%N ->
  cg rhs j i - As q j (fun l => xg (sol (st_iter k (st_init rhs))) q j l) i
  = qg (scp (st_iter k (st_init rhs))) q j * pbar rhs k i.
Proof. by move=> hi; case: (inv_iter rhs k) => _ _ _ _; apply. Qed.

End Fixed.
End Residual.

(* ---------------------------------------------------------------------------------------- *)
(* the same statement about the tensor minres RETURNS (after the stopping rule, the zero mask and the
   un-normalisation): for a column that is not a "zero" column, with k = the number of loop bodies executed,
      b - (value*K + s I) x_returned  =  ||b|| * scale_prev_k * pbar_k                                   *)
Section Output.
Variable R : rcfType.
Variable S : mr_settings R.
Variable g : mr_args R.
Variable M : nat -> nat -> nat -> R.
Notation AR := (ArR R).
Hypothesis no_pre : g_pre g = None.
Hypothesis eps_pos : 0 < g_eps g.
Hypothesis thr_pos : 0 < s_zero_thr S.
Hypothesis mm_lin : forall X j i, (j < size (g_rhs g))%N -> (i < g_n g)%N ->
  cg2 AR (g_mm g X) j i = \sum_(l < g_n g) M j i l * cg2 AR X j l.

Let u := mr_prepare AR S g.
Let C := size (g_rhs g).
Let Q := shifts_Q g.
Let n := g_n g.
Notation iter k := (st_iter AR Q C n (g_mm g) (fun X => X) (g_value g) (shifts_tab AR g) (g_eps g) k
                            (st_init AR Q C n (fun X => X) (u_rhs u))).

Theorem minres_output_residual q j i :
  (q < Q)%N -> (j < C)%N -> (i < n)%N -> ~~ rhs_col_is_zero AR S g j ->
  let o := minres AR S g in
  let k := o_iters o in
  (k <= u_iters u)%N /\
  cg2 AR (g_rhs g) j i
    - As n (g_value g) (shifts_tab AR g) M q j (fun l => xget AR (o_sol o) q j l) i
  = sget AR (u_rhs_norm u) j
    * (qget AR (scp (iter k)) q j * pbar Q C n (g_mm g) (g_value g) (shifts_tab AR g) (g_eps g) q j (u_rhs u) k i).
Proof.
move=> hq hj hi hnz.
have [m1 m2 m3 m4] := prepare_misc AR S g.
have hpre : u_pre u = (fun X => X) by rewrite /u m3 no_pre.
rewrite /minres -/u hpre m1 m2 -/C -/Q -/n.
have [k [hk -> _ _]] := st_loop_spec AR Q C n (g_mm g) (fun X => X) (g_value g) (shifts_tab AR g) (g_eps g)
                          (s_minres_tolerance S) (u_iters u) 0
                          (st_init AR Q C n (fun X => X) (u_rhs u)).
rewrite add0n [o_iters _]/=; split=> //.
set x := fun l => xget AR (sol (iter k)) q j l.
set N := sget AR (u_rhs_norm u) j.
have hN : N = norm2 AR n (cget (g_rhs g) j) by rewrite /N /u prepare_norm // (negbTE hnz).
have hN0 : N != 0.
  rewrite hN gt_eqF //; apply: lt_le_trans thr_pos _.
  by move: hnz; rewrite /rhs_col_is_zero /= -leNgt.
have hout : forall l, (l < n)%N -> xget AR (o_sol (mr_finish AR g u (sol (iter k)) k)) q j l = N * x l + 0 * x l.
  move=> l hl; rewrite finish_get ?m1 ?m2 // prepare_is_zero // (negbTE hnz) -/N -/(x l).
  rewrite [amul _ _ _]/=; ring.
rewrite (As_ext (g_value g) (shifts_tab AR g) M q j hi hout) As_lin mul0r addr0.
have hb : cg2 AR (g_rhs g) j i = N * cg2 AR (u_rhs u) j i.
  by rewrite /u prepare_rhs cg2_ctab //= -/u -/N mulrC divfK.
have := minres_true_residual (g_value g) (shifts_tab AR g) eps_pos mm_lin hq hj (u_rhs u) k hi.
rewrite -/x => <-; rewrite hb -/n; ring.
Qed.

End Output.
