(* C11 — theorems about the buffer-free transcription [minres] in EXACT arithmetic: the model
   instantiated on an arbitrary real closed field R (sqrt = Num.sqrt, x / 0 = 0).  All statements are for
   every size, every number of shifts, every number of iterations and (unless a hypothesis says otherwise)
   arbitrary closures. *)
From mathcomp Require Import all_ssreflect all_algebra.
From mathcomp Require Import ring.
Require Import C11.Model C11.ProofsAny.
Set Implicit Arguments.
Unset Strict Implicit.
Unset Printing Implicit Defensive.
Import Order.Theory GRing.Theory Num.Theory.
Local Open Scope ring_scope.

Arguments st_step : simpl never.
Arguments st_init : simpl never.

Section Exact.
Variable R : rcfType.

Definition ArR : Arith R :=
  MkArith 0 1 +%R (fun x y => x - y) *%R (fun x y => x / y) -%R Num.sqrt Num.norm
          (fun x y => x < y) (fun x y => x <= y) (fun x y => x == y).

Lemma sumn_big (f : nat -> R) k : sumn_ ArR f k = \sum_(l < k) f l.
Proof. by elim: k => [|k IH] /=; rewrite ?big_ord0 // big_ord_recr /= IH. Qed.

Section Loop.
Variables (Q C n : nat).
Variables (mm pre : cols R -> cols R).
Variable value : option R.
Variable shifts : qc R.
Variable eps : R.
Hypothesis eps_pos : 0 < eps.

Notation st_step := (@st_step R ArR Q C n mm pre value shifts eps).
Notation st_iter := (@st_iter R ArR Q C n mm pre value shifts eps).
Notation st_init := (@st_init R ArR Q C n pre).
Notation lz_alpha := (@lz_alpha R ArR C n mm value).
Notation lz_beta := (@lz_beta R ArR C n mm pre value eps).
Notation lz_w := (@lz_w R ArR C n mm value).
Notation mmv := (@mm_value R ArR C n mm value).
Notation sg := (sget ArR).
Notation cg := (cg2 ArR).
Notation qg := (qget ArR).
Notation xg := (xget ArR).

(* ---- line 147: beta_curr >= eps > 0, whatever the closures return ---- *)
Lemma clamp_ge x : eps <= clamp_min ArR eps x.
Proof. by rewrite /clamp_min /=; case: ifP => // /negbT; rewrite -leNgt. Qed.

Lemma lz_beta_ge s j : (j < C)%N -> eps <= sg (lz_beta s) j.
Proof. by move=> hj; rewrite /Model.lz_beta /e_sqrt_clamp sget_stab // clamp_ge. Qed.

Lemma lz_beta_gt0 s j : (j < C)%N -> 0 < sg (lz_beta s) j.
Proof. by move=> hj; apply: lt_le_trans (lz_beta_ge s hj). Qed.

(* ---- projections of one loop body ---- *)
Lemma step_zp2 s : zp2 (st_step s) = zp1 s.   Proof. by []. Qed.
Lemma step_bprev s : bprev (st_step s) = lz_beta s.   Proof. by []. Qed.
Lemma step_cp2 s : cp2 (st_step s) = cp1 s.   Proof. by []. Qed.
Lemma step_sp2 s : sp2 (st_step s) = sp1 s.   Proof. by []. Qed.
Lemma step_hp2 s : hp2 (st_step s) = hp1 s.   Proof. by []. Qed.

(* the quantities of _jit_minres_updates for shift q and column j, as scalars *)
Definition g_als s q j : R := sg (lz_alpha s) j + qg shifts q j.
Definition g_sub0 s q j : R := qg (cp2 s) q j * sg (bprev s) j.
Definition g_subsub s q j : R := qg (sp2 s) q j * sg (bprev s) j.
Definition g_dg0 s q j : R := g_als s q j * qg (cp1 s) q j - qg (sp1 s) q j * g_sub0 s q j.
Definition g_sub s q j : R := g_sub0 s q j * qg (cp1 s) q j + qg (sp1 s) q j * g_als s q j.
Definition g_rad s q j : R := Num.sqrt (g_dg0 s q j * g_dg0 s q j + sg (lz_beta s) j * sg (lz_beta s) j).
Definition g_cos s q j : R := g_dg0 s q j / g_rad s q j.
Definition g_sin s q j : R := sg (lz_beta s) j / g_rad s q j.
Definition g_dg s q j : R := g_dg0 s q j * g_cos s q j + g_sin s q j * sg (lz_beta s) j.

Lemma step_cp1 s q j : (q < Q)%N -> (j < C)%N -> qg (cp1 (st_step s)) q j = g_cos s q j.
Proof.
move=> hq hj; rewrite /Model.st_step /= /j_div_qc qget_qtab // /j_radius qget_qtab // /j_diag0 qget_qtab //.
by rewrite /j_alpha_shift qget_qtab // /j_mul_qc_c qget_qtab.
Qed.

Lemma step_sp1 s q j : (q < Q)%N -> (j < C)%N -> qg (sp1 (st_step s)) q j = g_sin s q j.
Proof.
move=> hq hj; rewrite /Model.st_step /= /j_div_c_qc qget_qtab // /j_radius qget_qtab // /j_diag0 qget_qtab //.
by rewrite /j_alpha_shift qget_qtab // /j_mul_qc_c qget_qtab.
Qed.

Lemma step_scp s q j : (q < Q)%N -> (j < C)%N -> qg (scp (st_step s)) q j = - (qg (scp s) q j * g_sin s q j).
Proof.
move=> hq hj; rewrite /Model.st_step /= /j_scale_curr qget_qtab // /j_div_c_qc qget_qtab //.
by rewrite /j_radius qget_qtab // /j_diag0 qget_qtab // /j_alpha_shift qget_qtab // /j_mul_qc_c qget_qtab.
Qed.

(* the new search vector and the updated solution, entry by entry *)
Definition g_search s q j i : R :=
  (cg (qp1 s) j i - g_sub s q j * xg (hp1 s) q j i - g_subsub s q j * xg (hp2 s) q j i) / g_dg s q j.

Lemma step_hp1 s q j i : (q < Q)%N -> (j < C)%N -> (i < n)%N -> xg (hp1 (st_step s)) q j i = g_search s q j i.
Proof.
move=> hq hj hi; rewrite /Model.st_step /= /j_search xget_xtab // /j_sub1 qget_qtab // /j_diag1 qget_qtab //.
rewrite /j_div_qc qget_qtab // /j_div_c_qc qget_qtab // /j_radius qget_qtab // /j_diag0 qget_qtab //.
by rewrite /j_alpha_shift qget_qtab // /j_mul_qc_c !qget_qtab.
Qed.

Lemma step_sol s q j i : (q < Q)%N -> (j < C)%N -> (i < n)%N ->
  xg (sol (st_step s)) q j i = xg (sol s) q j i + g_search s q j i * (qg (scp s) q j * g_cos s q j).
Proof.
move=> hq hj hi; rewrite -step_hp1 // -step_cp1 //.
by rewrite /Model.st_step /= /j_sol xget_xtab // /j_supd xget_xtab // /j_mul_qc qget_qtab.
Qed.

Lemma g_rad_gt0 s q j : (j < C)%N -> 0 < g_rad s q j.
Proof.
move=> hj; rewrite /g_rad sqrtr_gt0.
apply: ltr_paddl; first by rewrite -expr2 sqr_ge0.
by rewrite mulr_gt0 // lz_beta_gt0.
Qed.

Lemma g_rad_sqr s q j : g_rad s q j ^+ 2 = g_dg0 s q j ^+ 2 + sg (lz_beta s) j ^+ 2.
Proof. by rewrite /g_rad sqr_sqrtr ?expr2 // addr_ge0 // -expr2 sqr_ge0. Qed.

(* the new rotation is a rotation; the diagonal entry it produces is the radius (never 0) *)
Lemma g_cos_sin s q j : (j < C)%N -> g_cos s q j ^+ 2 + g_sin s q j ^+ 2 = 1.
Proof.
move=> hj; rewrite /g_cos /g_sin !expr_div_n -mulrDl -g_rad_sqr divff //.
by rewrite expf_neq0 // gt_eqF // g_rad_gt0.
Qed.

Lemma g_dg_rad s q j : (j < C)%N -> g_dg s q j = g_rad s q j.
Proof.
move=> hj; rewrite /g_dg /g_cos /g_sin.
have hr : g_rad s q j != 0 by rewrite gt_eqF // g_rad_gt0.
have hr2 := g_rad_sqr s q j.
move: (g_rad s q j) (g_dg0 s q j) (sg (lz_beta s) j) hr hr2 => r d b hr hr2.
apply: (mulIf hr); rewrite -expr2 hr2.
by field.
Qed.

(* ---- E1: every stored Givens pair is a rotation, for every iteration count ---- *)
Definition givens_ok (s : mr_state R) : Prop :=
  forall q j, (q < Q)%N -> (j < C)%N ->
    qg (cp1 s) q j ^+ 2 + qg (sp1 s) q j ^+ 2 = 1 /\ qg (cp2 s) q j ^+ 2 + qg (sp2 s) q j ^+ 2 = 1.

Lemma givens_ok_init rhs : givens_ok (st_init rhs).
Proof.
move=> q j hq hj; rewrite /Model.st_init /= /ones_qc /zeros_qc !qget_qtab //.
by rewrite expr1n expr0n /= addr0.
Qed.

Lemma givens_ok_step s : givens_ok s -> givens_ok (st_step s).
Proof.
move=> H q j hq hj; split; first by rewrite step_cp1 // step_sp1 // g_cos_sin.
by rewrite step_cp2 step_sp2; case: (H q j hq hj).
Qed.

Lemma givens_ok_iter k rhs : givens_ok (st_iter k (st_init rhs)).
Proof. by elim: k => [|k IH]; [exact: givens_ok_init | rewrite st_iterS; exact: givens_ok_step]. Qed.

Lemma sin_le1 s q j : (j < C)%N -> `|g_sin s q j| <= 1.
Proof.
move=> hj; rewrite -(@ler_pexpn2r _ 2) ?nnegrE ?normr_ge0 ?ler01 // expr1n real_normK ?num_real //.
by rewrite -(g_cos_sin s q hj) ler_addr sqr_ge0.
Qed.

(* ---- E3: the scale term (MINRES' estimate of the residual norm) ---- *)
(* |scale_prev| never grows *)
Lemma scale_nonincreasing s q j : (q < Q)%N -> (j < C)%N -> `|qg (scp (st_step s)) q j| <= `|qg (scp s) q j|.
Proof.
by move=> hq hj; rewrite step_scp // normrN normrM ler_pimulr // sin_le1.
Qed.

(* closed form: scale_prev after k bodies = (-1)^k beta_0 prod_{m<k} sin_m *)
Lemma scale_product rhs k q j : (q < Q)%N -> (j < C)%N ->
  qg (scp (st_iter k (st_init rhs))) q j =
  (-1) ^+ k * sg (bprev (st_init rhs)) j * \prod_(m < k) g_sin (st_iter m (st_init rhs)) q j.
Proof.
move=> hq hj; elim: k => [|k IH].
  by rewrite big_ord0 expr0 mul1r mulr1 /Model.st_init /= qget_qtab.
rewrite st_iterS step_scp // IH big_ord_recr /= exprS; ring.
Qed.

(* ---- E2: the Lanczos three-term recurrence ---- *)
Lemma lanczos_step s j i : (j < C)%N -> (i < n)%N ->
  sg (bprev (st_step s)) j * cg (zp1 (st_step s)) j i =
  cg (mmv (qp1 s)) j i - sg (lz_alpha s) j * cg (zp1 s) j i - sg (bprev s) j * cg (zp2 s) j i.
Proof.
move=> hj hi; rewrite step_bprev /Model.st_step /= /lz_z /e_divc cg2_ctab // mulrC divfK; last first.
  by rewrite gt_eqF // lz_beta_gt0.
by rewrite /Model.lz_w /e_lanczos cg2_ctab.
Qed.

Lemma lanczos_alpha s j : (j < C)%N ->
  sg (lz_alpha s) j = \sum_(i < n) cg (mmv (qp1 s)) j i * cg (qp1 s) j i.
Proof.
move=> hj; rewrite /Model.lz_alpha /e_sum sget_stab // sumn_big.
by apply: eq_bigr => i _; rewrite /e_mul cg2_ctab.
Qed.

(* q_{k+1} = preconditioner(unnormalised z_{k+1}) / beta_{k+1} *)
Lemma lanczos_q s j i : (j < C)%N -> (i < n)%N ->
  sg (bprev (st_step s)) j * cg (qp1 (st_step s)) j i = cg (pre (lz_w s)) j i.
Proof.
move=> hj hi; rewrite step_bprev /Model.st_step /= /lz_q /e_divc cg2_ctab // mulrC divfK //.
by rewrite gt_eqF // lz_beta_gt0.
Qed.

(* across iterations: beta_{k+2} z_{k+2} = (v K) q_{k+1} - alpha_{k+1} z_{k+1} - beta_{k+1} z_k,
   z_k being the normalised Lanczos vector of iteration k (the rotation of the names is what makes
   zvec_prev2 the vector of two iterations ago) *)
Lemma lanczos_three_term rhs k j i : (j < C)%N -> (i < n)%N ->
  let s := st_iter k (st_init rhs) in
  let z m := zp1 (st_iter m (st_init rhs)) in
  let beta m := bprev (st_iter m (st_init rhs)) in
  sg (beta k.+2) j * cg (z k.+2) j i =
  cg (mmv (qp1 (st_step s))) j i - sg (lz_alpha (st_step s)) j * cg (z k.+1) j i - sg (beta k.+1) j * cg (z k) j i.
Proof. by move=> hj hi /=; rewrite lanczos_step // step_zp2. Qed.

End Loop.

(* ---- E5: positive scaling of the right-hand side ---- *)
Section Scaling.
Variable S : mr_settings R.

Lemma mkseq_ext (T : Type) (f f' : nat -> T) m : (forall i, (i < m)%N -> f i = f' i) -> mkseq f m = mkseq f' m.
Proof. by move=> H; apply/eq_in_map => i; rewrite mem_iota add0n => /andP[_ /H]. Qed.

Lemma ctab_ext C n (f f' : nat -> nat -> R) :
  (forall j i, (j < C)%N -> (i < n)%N -> f j i = f' j i) -> ctab C n f = ctab C n f'.
Proof. by move=> H; apply: mkseq_ext => j hj; apply: mkseq_ext => i hi; apply: H. Qed.

(* the rhs with column j multiplied by c j *)
Definition scale_rhs (c : nat -> R) (g : mr_args R) : mr_args R :=
  MkArgs (g_mm g) (g_pre g) (g_n g) (g_rhs_is_vec g)
         (ctab (size (g_rhs g)) (g_n g) (fun j i => c j * cg2 ArR (g_rhs g) j i))
         (g_eps g) (g_shifts g) (g_value g) (g_max_iter g).
Arguments scale_rhs : simpl never.

Lemma scale_proj c g :
  [/\ g_n (scale_rhs c g) = g_n g, g_mm (scale_rhs c g) = g_mm g, g_pre (scale_rhs c g) = g_pre g,
      g_value (scale_rhs c g) = g_value g & g_eps (scale_rhs c g) = g_eps g] /\
  [/\ g_shifts (scale_rhs c g) = g_shifts g, g_max_iter (scale_rhs c g) = g_max_iter g
     & g_rhs_is_vec (scale_rhs c g) = g_rhs_is_vec g].
Proof. by []. Qed.

Lemma norm2_scale n (c : R) (x : vec R) :
  0 <= c -> norm2 ArR n (mkseq (fun i => c * vget ArR x i) n) = c * norm2 ArR n x.
Proof.
move=> hc; rewrite /norm2 /dot /= !sumn_big.
rewrite (eq_bigr (fun i : 'I_n => c ^+ 2 * (vget ArR x i * vget ArR x i))); last first.
  by move=> i _; rewrite /vget nth_mkseq //; ring.
by rewrite -mulr_sumr sqrtrM ?sqr_ge0 // sqrtr_sqr ger0_norm.
Qed.

Section Scaled.
Variables (c : nat -> R) (g : mr_args R).
Hypothesis hc : forall j, (j < size (g_rhs g))%N -> 0 < c j.
Hypothesis hnz : forall j, (j < size (g_rhs g))%N ->
  ~~ rhs_col_is_zero ArR S g j /\ ~~ rhs_col_is_zero ArR S (scale_rhs c g) j.
Let g' := scale_rhs c g.

Lemma scale_size : size (g_rhs g') = size (g_rhs g).
Proof. by rewrite /g' /scale_rhs /= /ctab size_mkseq. Qed.

Lemma scale_cg j i : (j < size (g_rhs g))%N -> (i < g_n g)%N -> cg2 ArR (g_rhs g') j i = c j * cg2 ArR (g_rhs g) j i.
Proof. by move=> hj hi; rewrite /g' /scale_rhs /= cg2_ctab. Qed.

Lemma scale_norm j : (j < size (g_rhs g))%N ->
  norm2 ArR (g_n g) (cget (g_rhs g') j) = c j * norm2 ArR (g_n g) (cget (g_rhs g) j).
Proof.
move=> hj.
have -> : cget (g_rhs g') j = mkseq (fun i => c j * vget ArR (cget (g_rhs g) j) i) (g_n g).
  by rewrite /g' /scale_rhs /= /cget /ctab nth_mkseq.
by rewrite norm2_scale // ltW // hc.
Qed.

Lemma scale_nz j : (j < size (g_rhs g))%N -> rhs_col_is_zero ArR S g j = false /\ rhs_col_is_zero ArR S g' j = false.
Proof. by move=> hj; case: (hnz hj) => /negbTE-> /negbTE->. Qed.

Lemma scale_rhs_norm j : (j < size (g_rhs g))%N ->
  sget ArR (u_rhs_norm (mr_prepare ArR S g')) j = c j * sget ArR (u_rhs_norm (mr_prepare ArR S g)) j.
Proof.
move=> hj; have [z1 z2] := scale_nz hj.
by rewrite !prepare_norm ?scale_size // z1 z2 scale_norm.
Qed.

Lemma scale_u_rhs : u_rhs (mr_prepare ArR S g') = u_rhs (mr_prepare ArR S g).
Proof.
rewrite !prepare_rhs scale_size; apply: ctab_ext => j i hj hi.
rewrite scale_rhs_norm // scale_cg // prepare_norm //.
have [-> _] := scale_nz hj.
have hc0 : c j != 0 by rewrite gt_eqF // hc.
move: (norm2 ArR (g_n g) (cget (g_rhs g) j)) (cg2 ArR (g_rhs g) j i) => N x.
rewrite /=.
case E: (N == 0); first by rewrite (eqP E) mulr0 !invr0 !mulr0.
by field; rewrite hc0 E.
Qed.

Lemma scale_is_zero : u_rhs_is_zero (mr_prepare ArR S g') = u_rhs_is_zero (mr_prepare ArR S g).
Proof.
rewrite !prepare_is_zero_eq scale_size; apply: mkseq_ext => j hj.
by have [-> ->] := scale_nz hj.
Qed.

Theorem minres_scaling_exact :
  let o := minres ArR S g in
  let o' := minres ArR S g' in
  [/\ o_iters o' = o_iters o, o_sq_first o' = o_sq_first o, o_sq_last o' = o_sq_last o
    & forall q j i, (q < shifts_Q g)%N -> (j < size (g_rhs g))%N -> (i < g_n g)%N ->
        xget ArR (o_sol o') q j i = c j * xget ArR (o_sol o) q j i].
Proof.
have hsh : shifts_tab ArR g' = shifts_tab ArR g by rewrite /shifts_tab scale_size.
have [m1 m2 m3 m4] := prepare_misc ArR S g.
have [m1' m2' m3' m4'] := prepare_misc ArR S g'.
have e1 : u_C (mr_prepare ArR S g') = u_C (mr_prepare ArR S g) by rewrite m1 m1' scale_size.
have e2 : u_Q (mr_prepare ArR S g') = u_Q (mr_prepare ArR S g) by rewrite m2 m2'.
have e3 : u_pre (mr_prepare ArR S g') = u_pre (mr_prepare ArR S g) by rewrite m3 m3'.
have e4 : u_iters (mr_prepare ArR S g') = u_iters (mr_prepare ArR S g) by rewrite m4 m4'.
rewrite /minres e1 e2 e3 e4 hsh scale_u_rhs.
have -> : g_n g' = g_n g by [].
have -> : g_mm g' = g_mm g by [].
have -> : g_value g' = g_value g by [].
have -> : g_eps g' = g_eps g by [].
case: (st_loop _ _ _ _ _ _ _ _ _ _ _ _ _) => s k.
split=> // q j i hq hj hi.
rewrite !finish_get ?e1 ?e2 ?m1 ?m2 //.
by rewrite scale_is_zero scale_rhs_norm // [amul _ _ _]/= [amul ArR _ _ in RHS]/=; ring.
Qed.

End Scaled.

End Scaling.
End Exact.
