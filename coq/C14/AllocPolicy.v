(* C14 — the dtype policy for tensor-allocation sites (hand-written; the site table gen/AllocSites.v is GENERATED
   from the AST of every file of the package on every run by harness/c14_alloc.py).

   A site is acceptable when the dtype of the tensor it creates cannot be torch's default dtype by accident:
     - it passes dtype=<expression>  (DDerived: self.dtype, rhs.dtype, a dtype variable ...) or an integer / boolean
       literal dtype (DIndex);
     - it is a *_like / new_* allocation (inherits the dtype of an existing tensor);
     - it allocates index data by construction (arange / randperm / randint / tril_indices / triu_indices without a
       dtype produce int64 for the integer arguments used throughout the package);
     - it is listed in [allow] with a reason.
   A literal floating dtype (DHardFloat) or no dtype at all (DNone) on a value allocation is rejected.
   The sites of [known_untyped] are the known findings on the pinned tree; they are NOT acceptable, they are excluded
   from the theorem by name (Property.v) and each is reproduced dynamically by the harness on every run. *)
From Coq Require Import List String Bool Arith.
Import ListNotations.
Open Scope string_scope.

Inductive dkind := DNone | DDerived | DIndex | DHardFloat.

Record site := mk_site {
  s_file : string;      (* path below linear_operator/ *)
  s_func : string;      (* Class.function *)
  s_callee : string;    (* torch.zeros, torch.eye, .new_zeros, ... *)
  s_nth : nat;          (* ordinal among the calls of this callee in this function *)
  s_line : nat;         (* reporting only *)
  s_dtype : dkind }.

Definition is_like (c : string) : bool :=
  existsb (String.eqb c)
    ["torch.zeros_like"; "torch.ones_like"; "torch.empty_like"; "torch.full_like"; "torch.randn_like"; "torch.rand_like";
     "torch.randint_like"; ".new_zeros"; ".new_ones"; ".new_empty"; ".new_full"; ".new_tensor"].
Definition is_index_alloc (c : string) : bool :=
  existsb (String.eqb c) ["torch.arange"; "torch.randperm"; "torch.randint"; "torch.tril_indices"; "torch.triu_indices"].

Inductive reason :=
| RIndexData      (* torch.tensor(<python ints>) : int64 by construction *)
| RDtypeProbe     (* the value is never returned; only the dtype of a comparison result is read *)
| RNoOperator.    (* free utility without an operator or tensor argument: no dtype to inherit *)

Definition allow : list (string * string * string * reason) :=
  [ ("operators/_linear_operator.py", "LinearOperator.__getitem__", "torch.tensor", RIndexData);
    ("operators/cat_linear_operator.py", "CatLinearOperator.__init__", "torch.tensor", RIndexData);
    ("utils/deprecation.py", "<module>", "torch.ones", RDtypeProbe);
    ("utils/sparse.py", "sparse_eye", "torch.tensor", RNoOperator) ].

(* listed findings: value allocations that ignore the operator's dtype.  The three ZeroLinearOperator sites of the
   pinned tree (_get_indices, logdet, to_dense) have been repaired (they pass dtype=self.dtype now): the list is empty,
   a regression at those sites is reported like any other untyped allocation *)
Definition known_untyped : list (string * string * string) := [].

Definition same3 (s : site) (f g c : string) : bool :=
  String.eqb (s_file s) f && String.eqb (s_func s) g && String.eqb (s_callee s) c.
Definition allowed (s : site) : bool :=
  existsb (fun e => match e with (f, g, c, _) => same3 s f g c end) allow.
Definition is_known_untyped (s : site) : bool :=
  existsb (fun e => match e with (f, g, c) => same3 s f g c end) known_untyped.

Definition site_ok (s : site) : bool :=
  match s_dtype s with
  | DDerived | DIndex => true
  | DNone => is_like (s_callee s) || is_index_alloc (s_callee s) || allowed s
  | DHardFloat => allowed s
  end.

(* the sites that violate the policy (the harness prints them when the theorem breaks) *)
Definition offending (l : list site) : list site :=
  filter (fun s => negb (site_ok s || is_known_untyped s)) l.
