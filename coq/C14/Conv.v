(* C14 — what clone / detach / cpu / to / type MUST return (definitions only): a structural specification of the
   conversions that mentions neither constructors nor fuel nor fresh-storage counters.  ProofsConv.v proves that the
   transcription of the library's methods (Model.meth_call, which rebuilds every node through its constructor)
   computes exactly this, on every well-formed operator tree.

   [strip] forgets storage identities (the freshness of storages is a separate theorem); leaves keep their VALUE
   identity, dtype and requires_grad. *)
From Coq Require Import List ZArith Bool Arith.
Import ListNotations.
Require Import C14.Types C14.gen.Ctors C14.Model C14.Wf.

Definition blank (t : tensor) : tensor := T 0 (tvl t) (tdt t) (trg t).
Fixpoint strip (a : arg) : arg :=
  match a with
  | ATensor t => ATensor (blank t)
  | AOther _ => a
  | AOp c ch dn nd at_ =>
      AOp c ((fix go (l : list arg) : list arg := match l with [] => [] | x :: r => strip x :: go r end) ch) dn nd at_
  end.
Definition strip_list := fix go (l : list arg) : list arg := match l with [] => [] | x :: r => strip x :: go r end.

(* leaves *)
Definition l_to (d : option dt) (t : tensor) : tensor :=
  T 0 (tvl t) (match d with Some d' => d' | None => tdt t end) (trg t).
Definition l_type (d : dt) (t : tensor) : tensor := if is_float (tdt t) then l_to (Some d) t else blank t.
Definition l_detach (t : tensor) : tensor := T 0 (tvl t) (tdt t) false.

Definition guarded (c : cls) : bool := cls_eqb c CInterpolated || cls_eqb c CMasked || cls_eqb c CIdentity.
(* classes whose dtype / device are keyword arguments that to() rewrites: what is not requested is kept *)
Definition keeps_dt (c : cls) : bool := cls_eqb c CIdentity || cls_eqb c CZero || is_perm_cls c.
Definition nd_to (c : cls) (d : option dt) (dev : option nat) (nd : list (Z * value)) : list (Z * value) :=
  if cls_eqb c CIdentity || cls_eqb c CZero then
    match keep_or k_dtype (dt_val d) nd, keep_or k_device (dev_val dev) nd with
    | Some vdt, Some vdev => set_key k_dtype vdt (set_key k_device vdev nd)
    | _, _ => nd
    end
  else if is_perm_cls c then                       (* the permutation classes have a dtype keyword only *)
    match keep_or k_dtype (dt_val d) nd with Some vdt => set_key k_dtype vdt nd | None => nd end
  else nd.
(* classes whose to() rebuilds the operator from its untouched arguments with rewritten dtype / device keywords *)
Definition rebuilt_kw (c : cls) : bool := cls_eqb c CZero || is_perm_cls c.

Section WithDef.
Variable defdt : dt.
Notation dflt := (dflt_attrs defdt).

(* clone / detach / cpu : a leaf map; every node keeps class, arguments and kwargs, attributes as a rebuild leaves them *)
Fixpoint lmap (f : tensor -> tensor) (a : arg) : arg :=
  match a with
  | ATensor t => ATensor (f t)
  | AOther _ => a
  | AOp c ch dn nd _ =>
      AOp c ((fix go (l : list arg) : list arg := match l with [] => [] | x :: r => lmap f x :: go r end) ch) dn nd (dflt c)
  end.
Definition lmap_list (f : tensor -> tensor) := fix go (l : list arg) : list arg :=
  match l with [] => [] | x :: r => lmap f x :: go r end.

Definition is_float_o (d : option dt) : bool := match d with Some x => is_float x | None => false end.

(* a.to(dtype=d, device=dev) for an argument in an unguarded position *)
Fixpoint conv_to (d : option dt) (dev : option nat) (a : arg) : arg :=
  match a with
  | ATensor t => ATensor (l_to d t)
  | AOther _ => a
  | AOp c ch dn nd _ =>
      let k := nargs ch dn in
      if guarded c then
        (* Interpolated / Masked / Identity: positional arguments are cast only when floating-ness agrees *)
        AOp c ((fix go (l : list arg) (i : nat) : list arg :=
                  match l with
                  | [] => []
                  | x :: r =>
                      (if i <? k
                       then match x with
                            | AOther _ => x
                            | _ => match dtype_of x, d with
                                   | Some da, Some d' => if Bool.eqb (is_float da) (is_float d') then conv_to d dev x
                                                         else conv_to None dev x
                                   | _, None => conv_to None dev x
                                   | None, Some _ => strip x
                                   end
                            end
                       else conv_to d dev x) :: go r (S i)
                  end) ch 0) dn (nd_to c d dev nd) (dflt c)
      else if cls_eqb c CCat then
        (* Cat: only the output device is recorded, then .type(dtype) *)
        AOp c ((fix go (l : list arg) : list arg :=
                  match l with
                  | [] => []
                  | x :: r =>
                      match d with
                      | None => strip x
                      | Some d' =>
                          match x with
                          | ATensor t => ATensor (l_type d' t)
                          | AOther _ => x
                          | AOp _ _ _ _ _ => if is_float_o (dtype_of (lmap blank x)) then conv_to (Some d') None x
                                             else lmap blank x
                          end
                      end :: go r
                  end) ch) dn (set_key k_output_device (dev_val dev) nd) (dflt c)
      else if rebuilt_kw c then
        (* Zero, Permutation, TransposePermutation: rebuilt from the very same arguments (sizes / index tensors, never cast)
           with the requested (or kept) dtype / device keywords *)
        AOp c ((fix go (l : list arg) : list arg := match l with [] => [] | x :: r => strip x :: go r end) ch) dn
            (nd_to c d dev nd) (dflt c)
      else
        AOp c ((fix go (l : list arg) : list arg := match l with [] => [] | x :: r => conv_to d dev x :: go r end) ch)
            dn nd (dflt c)
  end.

(* type(dtype) applied to one argument of a generic node: _type_helper(arg.clone()) *)
Definition conv_type_arg (d : dt) (x : arg) : arg :=
  match x with
  | ATensor t => ATensor (l_type d t)
  | AOther _ => x
  | AOp _ _ _ _ _ => if is_float_o (dtype_of (lmap blank x)) then conv_to (Some d) None x else lmap blank x
  end.

Definition conv_type (d : dt) (o : arg) : arg :=
  match o with
  | AOp c ch dn nd at_ =>
      if keeps_dt c then AOp c (strip_list ch) dn (set_key k_dtype (VDtype d) nd) (dflt c)
      else AOp c (map (conv_type_arg d) ch) dn nd (dflt c)
  | _ => o
  end.

Definition conv (m : meth) (o : arg) : arg :=
  match m with
  | MClone | MCpu => lmap blank o
  | MDetach => lmap l_detach o
  | MTo d dev => conv_to d dev o
  | MType d => conv_type d o
  end.

(* ---- side conditions *)
Definition is_index (x : arg) : bool := match x with ATensor t => negb (is_float (tdt t)) | _ => false end.
(* the arguments of the classes of [rebuilt_kw] carry no floating data: index tensors (Permutation), integer sizes (Zero),
   none at all (TransposePermutation) *)
Definition kw_child_ok (c : cls) (x : arg) : bool := if cls_eqb c CPermutation then is_index x else negb (is_diff x).
(* a.to(<floating dtype>) reaches no integer / boolean tensor through an unguarded position, and every operator in the
   tree reports a floating dtype (so that the guards of the overrides and of type() take the casting branch) *)
Fixpoint to_safe (a : arg) : bool :=
  match a with
  | ATensor t => is_float (tdt t)
  | AOther _ => true
  | AOp c ch dn nd _ =>
      let k := nargs ch dn in
      is_float_o (dtype_of a) &&
      if guarded c then
        (fix go (l : list arg) (i : nat) : bool :=
           match l with
           | [] => true
           | x :: r => (if i <? k then match x with ATensor _ => true | _ => to_safe x end else to_safe x) && go r (S i)
           end) ch 0
      else if cls_eqb c CCat then
        (fix go (l : list arg) : bool :=
           match l with [] => true | x :: r => match x with ATensor _ => true | _ => to_safe x end && go r end) ch
      else if rebuilt_kw c then forallb (kw_child_ok c) ch
      else (fix go (l : list arg) : bool := match l with [] => true | x :: r => to_safe x && go r end) ch
  end.
Definition to_safe_sub (x : arg) : bool := match x with ATensor _ => true | _ => to_safe x end.

Definition safeb (m : meth) (o : arg) : bool :=
  match m with
  | MTo (Some d) _ => is_float d && to_safe o
  | MTo None _ => true
  | MType d =>
      is_float d &&
      match o with
      | AOp c ch dn _ _ =>
          forallb to_safe_sub ch &&
          (* the type() overrides of Identity / TransposePermutation do not look at tensor arguments: there are none *)
          (if cls_eqb c CIdentity then match ch with [] => true | _ => false end else true)
          (* ... nor do the ones of Zero / Permutation / TransposePermutation (integer sizes, index tensors, nothing) *)
          && (if rebuilt_kw c then forallb (kw_child_ok c) ch else true)
      | _ => true
      end
  | _ => true
  end.
End WithDef.

(* ---- observations on terms, used to state the property-level corollaries *)
Fixpoint leaves (a : arg) : list tensor :=
  match a with
  | ATensor t => [t]
  | AOther _ => []
  | AOp _ ch _ _ _ => (fix go (l : list arg) : list tensor := match l with [] => [] | x :: r => leaves x ++ go r end) ch
  end.
Definition leaves_list := fix go (l : list arg) : list tensor := match l with [] => [] | x :: r => leaves x ++ go r end.

(* class tree, kwargs and flags with the dtype / device bookkeeping entries removed; leaves reduced to their value *)
Definition drop_dt (l : list (Z * value)) : list (Z * value) := filter (fun kv => negb (is_dt_key (fst kv))) l.
Fixpoint vshape (a : arg) : arg :=
  match a with
  | ATensor t => ATensor (T 0 (tvl t) F32 false)
  | AOther _ => a
  | AOp c ch dn nd at_ =>
      AOp c ((fix go (l : list arg) : list arg := match l with [] => [] | x :: r => vshape x :: go r end) ch) dn
          (drop_dt nd) (drop_dt at_)
  end.
Definition vshape_list := fix go (l : list arg) : list arg := match l with [] => [] | x :: r => vshape x :: go r end.
