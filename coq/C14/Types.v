(* C14 — base types of the structural model (no proofs).

   Abstraction alpha from a real operator object to a model term:
     tensor            |->  T id val dtype requires_grad   (id = identity of the storage; val = identity of the
                                                           VALUE: two tensors get the same val iff they have the same
                                                           shape and the same entries after casting to float64)
     LinearOperator    |->  AOp cls children dnames ndkw attrs
                              children = _args ++ _differentiable_kwargs.values()   (the chain the representation
                                         tree iterates over), dnames = _differentiable_kwargs.keys()
                              ndkw     = _nondifferentiable_kwargs (sorted by name)
                              attrs    = flag attributes that are NOT derivable from the stored args/kwargs
                                         (Chol.upper, KroneckerProductTriangular.upper, Zero._dtype/_device,
                                          Permutation._dtype, ...)
     anything else     |->  AOther value
   Keyword names are Z numbers: the ASCII bytes of the name right-padded to 24 bytes, big endian
   (harness/c14_names.py) - an order embedding of Python's string order on the names that occur. *)
From Coq Require Import List ZArith Bool Arith.
Import ListNotations.

Inductive dt := F32 | F64 | I64 | B8.
Definition dt_eqb (a b : dt) : bool :=
  match a, b with F32, F32 | F64, F64 | I64, I64 | B8, B8 => true | _, _ => false end.
Definition is_float (d : dt) : bool := match d with F32 | F64 => true | _ => false end.

Inductive value :=
| VNone
| VInt (z : Z)
| VBool (b : bool)
| VSize (l : list Z)        (* torch.Size / tuple of ints *)
| VDtype (d : dt)
| VDev (n : nat)            (* torch.device; 0 = cpu *)
| VOpq (n : nat).           (* opaque Python object (callable, dict, ...), compared by identity/equality class *)

Fixpoint zlist_eqb (a b : list Z) : bool :=
  match a, b with [], [] => true | x :: r, y :: s => Z.eqb x y && zlist_eqb r s | _, _ => false end.
Definition value_eqb (a b : value) : bool :=
  match a, b with
  | VNone, VNone => true
  | VInt x, VInt y => Z.eqb x y
  | VBool x, VBool y => Bool.eqb x y
  | VSize x, VSize y => zlist_eqb x y
  | VDtype x, VDtype y => dt_eqb x y
  | VDev x, VDev y => Nat.eqb x y
  | VOpq x, VOpq y => Nat.eqb x y
  | _, _ => false
  end.

Inductive cls :=
| CDense | CDiag | CConstantDiag | CIdentity | CZero | CToeplitz | CTriangular | CChol | CRoot | CLowRankRoot
| CKron | CKronTriangular | CKronDiag | CKronAddedDiag | CSumKron | CAddedDiag | CLowRankRootAddedDiag
| CSum | CPsdSum | CMatmul | CMul | CConstantMul | CBlockDiag | CBlockInterleaved | CSumBatch | CBatchRepeat
| CCat | CInterpolated | CMasked | CPermutation | CTransposePermutation | CKernel
| CUser (n : nat).           (* user subclasses: __init__(self, t) : super().__init__(t) *)

Definition cls_code (c : cls) : nat :=
  match c with
  | CDense => 0 | CDiag => 1 | CConstantDiag => 2 | CIdentity => 3 | CZero => 4 | CToeplitz => 5 | CTriangular => 6
  | CChol => 7 | CRoot => 8 | CLowRankRoot => 9 | CKron => 10 | CKronTriangular => 11 | CKronDiag => 12
  | CKronAddedDiag => 13 | CSumKron => 14 | CAddedDiag => 15 | CLowRankRootAddedDiag => 16 | CSum => 17
  | CPsdSum => 18 | CMatmul => 19 | CMul => 20 | CConstantMul => 21 | CBlockDiag => 22 | CBlockInterleaved => 23
  | CSumBatch => 24 | CBatchRepeat => 25 | CCat => 26 | CInterpolated => 27 | CMasked => 28 | CPermutation => 29
  | CTransposePermutation => 30 | CKernel => 31 | CUser n => 32 + n
  end.
Definition cls_eqb (a b : cls) : bool := Nat.eqb (cls_code a) (cls_code b).

(* the enumerated library classes (CUser is the only infinite family) *)
Definition lib_classes : list cls :=
  [CDense; CDiag; CConstantDiag; CIdentity; CZero; CToeplitz; CTriangular; CChol; CRoot; CLowRankRoot; CKron;
   CKronTriangular; CKronDiag; CKronAddedDiag; CSumKron; CAddedDiag; CLowRankRootAddedDiag; CSum; CPsdSum; CMatmul;
   CMul; CConstantMul; CBlockDiag; CBlockInterleaved; CSumBatch; CBatchRepeat; CCat; CInterpolated; CMasked;
   CPermutation; CTransposePermutation; CKernel].

Record tensor := T { tid : nat; tvl : nat; tdt : dt; trg : bool }.
Definition tensor_eqb (a b : tensor) : bool :=
  Nat.eqb (tid a) (tid b) && Nat.eqb (tvl a) (tvl b) && dt_eqb (tdt a) (tdt b) && Bool.eqb (trg a) (trg b).

Inductive arg :=
| ATensor (t : tensor)
| AOther (v : value)
| AOp (c : cls) (ch : list arg) (dn : list Z) (nd : list (Z * value)) (at_ : list (Z * value)).

(* ---- constructor signatures (the table gen/Ctors.v is generated from the package source) *)
Inductive pk :=
| PKw          (* forwarded to LinearOperator.__init__ as a keyword under the same name (ends up in _kwargs) *)
| PAttr        (* NOT forwarded; only recorded as an attribute of the object (lost by any rebuild) *)
| PConsumed.   (* NOT forwarded; consumed by the constructor's normalisation, leaves no attribute *)
Definition pk_eqb (a b : pk) : bool :=
  match a, b with PKw, PKw | PAttr, PAttr | PConsumed, PConsumed => true | _, _ => false end.

Record cspec := {
  cs_npos : nat;                                 (* leading parameters forwarded positionally, in order *)
  cs_varargs : bool;                             (* *args, forwarded as *args after them *)
  cs_named : list (Z * option value * pk);       (* remaining named parameters in declaration order,
                                                    default (None = required), how they are forwarded *)
  cs_varkw : bool                                (* **kwargs, forwarded as **kwargs *)
}.

(* keyword / attribute names (values checked against harness/c14_names.py on every run) *)
Definition k_batch_repeat : Z := 2412287308331361031640188429709790713667114663047730298880%Z.
Definition k_batch_shape : Z := 2412287308331361119753440229500694458643513252369020223488%Z.
Definition k_block_dim : Z := 2413339028310736300771658351633105736064999437462407217152%Z.
Definition k_covar_func : Z := 2438148916006396812688128087357118653882441445384139046912%Z.
Definition k_device : Z := 2461711046553712970028513523184091500646288275005394386944%Z.
Definition k_diag_shape : Z := 2462086310460609216831217533058202454505331560218712080384%Z.
Definition k_dim : Z := 2462090649114042650521361451427740712968861050124772573184%Z.
Definition k_dtype : Z := 2463148893796209278559582167488961450835329552859120271360%Z.
Definition k_m : Z := 2672672223270110168976957215350139216231081029088202194944%Z.
Definition k_num_nonbatch_dimensions : Z := 2708439446781363814274566102360197870665074725234261521152%Z.
Definition k_num_outputs_per_input : Z := 2708439446787207136980834736804359606675688637930890330112%Z.
Definition k_output_device : Z := 2732962019331753100735041390360891176759217932226430763008%Z.
Definition k_preconditioner_override : Z := 2757188973871499020525467229095440920872349636761032615168%Z.
Definition k_upper : Z := 2879601173724441034798917244401701103699905152920579997696%Z.
Definition k_validate_args : Z := 2902682896999310849220156771834115251320874083618910109696%Z.
(* names used by the kwargs-layout cases of the harness (extra **kwargs of Sum / Kernel operators) *)
Definition k_alpha : Z := 2388819481049592196798360091655905639872287338735052259328%Z.
Definition k_zeta : Z := 3001148716390211974524522504988510969365376666409428320256%Z.
Definition k_square : Z := 2830658962266378318882272757061229757670752237687870062592%Z.
Definition k_shift : Z := 2829792451108285168796792142268246948125003888765490429952%Z.
Definition k_extra : Z := 2488050078513351500530680484274005188148243021130689937408%Z.
