(* C14 — finite-table obligations about the GENERATED files (gen/Ctors.v, gen/AllocSites.v): decided by vm_compute on
   the regenerated tables and lifted to universally quantified statements with forallb_forall.  They are proofs about
   the current source text of the package, re-checked on every run. *)
From Coq Require Import List ZArith Bool Arith String.
Import ListNotations.
Require Import C14.Types C14.gen.Ctors C14.Model C14.Wf C14.AllocPolicy C14.gen.AllocSites.

(* ---- allocation sites *)
Definition site_pass (s : site) : bool := site_ok s || is_known_untyped s.

Lemma alloc_sites_checked : forallb site_pass sites = true.
Proof. vm_compute. reflexivity. Qed.

Lemma alloc_sites_typed : forall s, In s sites -> is_known_untyped s = false -> site_ok s = true.
Proof.
  intros s Hin K. pose proof alloc_sites_checked as H. rewrite forallb_forall in H. specialize (H s Hin).
  unfold site_pass in H. rewrite K, orb_false_r in H. exact H.
Qed.

(* ---- parameters that a rebuild resets: only the listed ones (a repair may shorten the list, nothing may join it) *)
Definition lossy_allowed : list (cls * Z) :=
  [(CZero, k_dtype); (CZero, k_device); (CChol, k_upper); (CKronTriangular, k_upper)].
Definition cz_eqb (a b : cls * Z) : bool := cls_eqb (fst a) (fst b) && Z.eqb (snd a) (snd b).
Definition lossy_listed (p : cls * Z) : bool := existsb (cz_eqb p) lossy_allowed.

Lemma lossy_checked : forallb lossy_listed lossy_table = true.
Proof. vm_compute. reflexivity. Qed.

Definition cls_of_code (k : nat) : cls := if Nat.ltb k 32 then nth k lib_classes CDense else CUser (k - 32)%nat.
Lemma cls_of_code_ok c : cls_of_code (cls_code c) = c.
Proof. destruct c; try reflexivity. unfold cls_of_code, cls_code. simpl. now rewrite Nat.sub_0_r. Qed.
Lemma cls_code_inj a b : cls_code a = cls_code b -> a = b.
Proof. intros H. rewrite <- (cls_of_code_ok a), <- (cls_of_code_ok b). now rewrite H. Qed.
Lemma cls_eqb_eq a b : cls_eqb a b = true -> a = b.
Proof. unfold cls_eqb. intros H. apply Nat.eqb_eq in H. now apply cls_code_inj. Qed.

Lemma lossy_params_listed : forall c k, In c lib_classes -> In k (lossy_params c) -> In (c, k) lossy_allowed.
Proof.
  intros c k Hc Hk. pose proof lossy_checked as H. rewrite forallb_forall in H.
  assert (Hin : In (c, k) lossy_table).
  { unfold lossy_table. apply in_flat_map. exists c. split; [exact Hc|]. apply in_map. exact Hk. }
  specialize (H _ Hin). unfold lossy_listed in H. apply existsb_exists in H as [[c' k'] [Hl He]].
  unfold cz_eqb in He. simpl in He. apply andb_prop in He as [E1 E2].
  apply cls_eqb_eq in E1. apply Z.eqb_eq in E2. subst. exact Hl.
Qed.

(* every keyword a class's constructor forwards survives: it is neither lossy nor consumed *)
Lemma classes_without_lossy_params : forall c, In c lib_classes ->
  ~ In c [CZero; CChol; CKronTriangular] -> lossy_params c = [].
Proof.
  intros c Hc Hn. destruct (lossy_params c) as [|k r] eqn:E; [reflexivity|]. exfalso.
  assert (Hk : In k (lossy_params c)) by (rewrite E; now left).
  pose proof (lossy_params_listed c k Hc Hk) as H. simpl in H.
  apply Hn. simpl. repeat destruct H as [H|H]; try (inversion H; subst; tauto); tauto.
Qed.
