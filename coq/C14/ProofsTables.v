(* C14 — finite-table obligations about the GENERATED files (gen/Ctors.v, gen/AllocSites.v): decided by vm_compute on
   the regenerated tables and lifted to universally quantified statements with forallb_forall.  They are proofs about
   the current source text of the package, re-checked on every run. *)
From Coq Require Import List ZArith Bool Arith String.
Import ListNotations.
Require Import C14.Types C14.gen.Ctors C14.Model C14.Wf C14.AllocPolicy C14.gen.AllocSites C14.gen.Overrides.

(* ---- allocation sites *)
Definition site_pass (s : site) : bool := site_ok s || is_known_untyped s.

Lemma alloc_sites_checked : forallb site_pass sites = true.
Proof. vm_compute. reflexivity. Qed.

Lemma alloc_sites_typed : forall s, In s sites -> is_known_untyped s = false -> site_ok s = true.
Proof.
  intros s Hin K. pose proof alloc_sites_checked as H. rewrite forallb_forall in H. specialize (H s Hin).
  unfold site_pass in H. rewrite K, orb_false_r in H. exact H.
Qed.

(* ---- parameters that a rebuild resets: only the listed ones (a repair may shorten the list, nothing may join it) *)
Definition lossy_allowed : list (cls * Z) :=
  [(CZero, k_dtype); (CZero, k_device); (CChol, k_upper); (CKronTriangular, k_upper)].
Definition cz_eqb (a b : cls * Z) : bool := cls_eqb (fst a) (fst b) && Z.eqb (snd a) (snd b).
Definition lossy_listed (p : cls * Z) : bool := existsb (cz_eqb p) lossy_allowed.

Lemma lossy_checked : forallb lossy_listed lossy_table = true.
Proof. vm_compute. reflexivity. Qed.

Definition cls_of_code (k : nat) : cls := if Nat.ltb k 32 then nth k lib_classes CDense else CUser (k - 32)%nat.
Lemma cls_of_code_ok c : cls_of_code (cls_code c) = c.
Proof. destruct c; try reflexivity. unfold cls_of_code, cls_code. simpl. now rewrite Nat.sub_0_r. Qed.
Lemma cls_code_inj a b : cls_code a = cls_code b -> a = b.
Proof. intros H. rewrite <- (cls_of_code_ok a), <- (cls_of_code_ok b). now rewrite H. Qed.
Lemma cls_eqb_eq a b : cls_eqb a b = true -> a = b.
Proof. unfold cls_eqb. intros H. apply Nat.eqb_eq in H. now apply cls_code_inj. Qed.

Lemma lossy_params_listed : forall c k, In c lib_classes -> In k (lossy_params c) -> In (c, k) lossy_allowed.
Proof.
  intros c k Hc Hk. pose proof lossy_checked as H. rewrite forallb_forall in H.
  assert (Hin : In (c, k) lossy_table).
  { unfold lossy_table. apply in_flat_map. exists c. split; [exact Hc|]. apply in_map. exact Hk. }
  specialize (H _ Hin). unfold lossy_listed in H. apply existsb_exists in H as [[c' k'] [Hl He]].
  unfold cz_eqb in He. simpl in He. apply andb_prop in He as [E1 E2].
  apply cls_eqb_eq in E1. apply Z.eqb_eq in E2. subst. exact Hl.
Qed.

(* every keyword a class's constructor forwards survives: it is neither lossy nor consumed *)
Lemma classes_without_lossy_params : forall c, In c lib_classes ->
  ~ In c [CZero; CChol; CKronTriangular] -> lossy_params c = [].
Proof.
  intros c Hc Hn. destruct (lossy_params c) as [|k r] eqn:E; [reflexivity|]. exfalso.
  assert (Hk : In k (lossy_params c)) by (rewrite E; now left).
  pose proof (lossy_params_listed c k Hc Hk) as H. simpl in H.
  apply Hn. simpl. repeat destruct H as [H|H]; try (inversion H; subst; tauto); tauto.
Qed.

(* ---- overrides of the copy / conversion / representation methods (gen/Overrides.v, from the imported classes) *)
Open Scope string_scope.
(* what Model.v transcribes class by class (to / type / dtype, and the representation methods of Mul), what only
   matters off the CPU (device), and evaluate_kernel of the AddedDiag family (goes through __add__: compared by the
   direct predicates only) *)
Definition modelled_overrides : list (cls * string) :=
  [ (CIdentity, "to"); (CIdentity, "type"); (CIdentity, "dtype"); (CIdentity, "device");
    (CZero, "dtype"); (CZero, "device");
    (CKronAddedDiag, "evaluate_kernel"); (CAddedDiag, "evaluate_kernel"); (CLowRankRootAddedDiag, "evaluate_kernel");
    (CMul, "representation"); (CMul, "representation_tree");
    (CCat, "to"); (CCat, "device"); (CInterpolated, "to"); (CMasked, "to");
    (CPermutation, "dtype"); (CTransposePermutation, "type"); (CTransposePermutation, "dtype");
    (CTransposePermutation, "device") ].
(* overrides that the repairs of listed findings add (proposed_fixes/C14-zero-dtype-lost, C14-perm-to-float-raises) *)
Definition repair_overrides : list (cls * string) := [ (CZero, "to"); (CZero, "type"); (CPermutation, "to") ].
(* the overrides Model.meth_call / dtype_of rely on: they must still be there *)
Definition required_overrides : list (cls * string) :=
  [ (CIdentity, "to"); (CIdentity, "type"); (CIdentity, "dtype"); (CZero, "dtype"); (CCat, "to"); (CInterpolated, "to");
    (CMasked, "to"); (CPermutation, "dtype"); (CTransposePermutation, "type"); (CTransposePermutation, "dtype") ].

Definition cs_eqb (a b : cls * string) : bool := cls_eqb (fst a) (fst b) && String.eqb (snd a) (snd b).
Definition cs_mem (p : cls * string) (l : list (cls * string)) : bool := existsb (cs_eqb p) l.

Lemma overrides_checked :
  forallb (fun p => cs_mem p (modelled_overrides ++ repair_overrides)) overrides = true /\
  forallb (fun p => cs_mem p overrides) required_overrides = true.
Proof. vm_compute. split; reflexivity. Qed.

Lemma cs_mem_in p l : cs_mem p l = true -> In p l.
Proof.
  unfold cs_mem. intros H. apply existsb_exists in H as [[c m] [Hl He]]. unfold cs_eqb in He. simpl in He.
  apply andb_prop in He as [E1 E2]. apply cls_eqb_eq in E1. apply String.eqb_eq in E2. destruct p. simpl in *. subst. exact Hl.
Qed.

Lemma overrides_modelled : forall c m, In (c, m) overrides -> In (c, m) (modelled_overrides ++ repair_overrides).
Proof.
  intros c m H. destruct overrides_checked as [A _]. rewrite forallb_forall in A. apply cs_mem_in. exact (A _ H).
Qed.
Lemma overrides_required : forall p, In p required_overrides -> In p overrides.
Proof.
  intros p H. destruct overrides_checked as [_ B]. rewrite forallb_forall in B. apply cs_mem_in. exact (B _ H).
Qed.
