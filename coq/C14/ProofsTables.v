(* C14 — finite-table obligations about the GENERATED files (gen/Ctors.v, gen/AllocSites.v): decided by vm_compute on
   the regenerated tables and lifted to universally quantified statements with forallb_forall.  They are proofs about
   the current source text of the package, re-checked on every run. *)
From Coq Require Import List ZArith Bool Arith String.
Import ListNotations.
Require Import C14.Types C14.gen.Ctors C14.Model C14.Wf C14.AllocPolicy C14.gen.AllocSites C14.gen.Overrides.

(* ---- allocation sites *)
Definition site_pass (s : site) : bool := site_ok s || is_known_untyped s.

Lemma alloc_sites_checked : forallb site_pass sites = true.
Proof. vm_compute. reflexivity. Qed.

Lemma alloc_sites_typed : forall s, In s sites -> is_known_untyped s = false -> site_ok s = true.
Proof.
  intros s Hin K. pose proof alloc_sites_checked as H. rewrite forallb_forall in H. specialize (H s Hin).
  unfold site_pass in H. rewrite K, orb_false_r in H. exact H.
Qed.

(* ---- parameters that a rebuild resets: only the listed ones (a repair may shorten the list, nothing may join it) *)
(* (the four entries of the pinned tree - Zero dtype / device, Chol upper, KroneckerProductTriangular upper - have been
   repaired: the list is empty and must stay empty) *)
Definition lossy_allowed : list (cls * Z) := [].
Definition cz_eqb (a b : cls * Z) : bool := cls_eqb (fst a) (fst b) && Z.eqb (snd a) (snd b).
Definition lossy_listed (p : cls * Z) : bool := existsb (cz_eqb p) lossy_allowed.

Lemma lossy_checked : forallb lossy_listed lossy_table = true.
Proof. vm_compute. reflexivity. Qed.

Definition cls_of_code (k : nat) : cls := if Nat.ltb k 32 then nth k lib_classes CDense else CUser (k - 32)%nat.
Lemma cls_of_code_ok c : cls_of_code (cls_code c) = c.
Proof. destruct c; try reflexivity. unfold cls_of_code, cls_code. simpl. now rewrite Nat.sub_0_r. Qed.
Lemma cls_code_inj a b : cls_code a = cls_code b -> a = b.
Proof. intros H. rewrite <- (cls_of_code_ok a), <- (cls_of_code_ok b). now rewrite H. Qed.
Lemma cls_eqb_eq a b : cls_eqb a b = true -> a = b.
Proof. unfold cls_eqb. intros H. apply Nat.eqb_eq in H. now apply cls_code_inj. Qed.

Lemma lossy_params_listed : forall c k, In c lib_classes -> In k (lossy_params c) -> In (c, k) lossy_allowed.
Proof.
  intros c k Hc Hk. pose proof lossy_checked as H. rewrite forallb_forall in H.
  assert (Hin : In (c, k) lossy_table).
  { unfold lossy_table. apply in_flat_map. exists c. split; [exact Hc|]. apply in_map. exact Hk. }
  specialize (H _ Hin). unfold lossy_listed in H. apply existsb_exists in H as [[c' k'] [Hl He]].
  unfold cz_eqb in He. simpl in He. apply andb_prop in He as [E1 E2].
  apply cls_eqb_eq in E1. apply Z.eqb_eq in E2. subst. exact Hl.
Qed.

(* no constructor of a library class keeps a parameter as an attribute without forwarding it *)
Lemma classes_without_lossy_params : forall c, In c lib_classes -> lossy_params c = [].
Proof.
  intros c Hc. destruct (lossy_params c) as [|k r] eqn:E; [reflexivity|]. exfalso.
  assert (Hk : In k (lossy_params c)) by (rewrite E; now left).
  exact (lossy_params_listed c k Hc Hk).
Qed.
(* ... nor does the minimal user subclass: attributes never depend on the default dtype *)
Lemma no_attr_params_all : forall c, lossy_params c = [].
Proof. destruct c; vm_compute; reflexivity. Qed.

(* ---- overrides of the copy / conversion / representation methods (gen/Overrides.v, from the imported classes) *)
Open Scope string_scope.
(* what Model.v transcribes class by class (to / type / dtype, and the representation methods of Mul), what only
   matters off the CPU (device), and evaluate_kernel of the AddedDiag family (goes through __add__: compared by the
   direct predicates only) *)
Definition modelled_overrides : list (cls * string) :=
  [ (CIdentity, "to"); (CIdentity, "type"); (CIdentity, "dtype"); (CIdentity, "device");
    (CZero, "to"); (CZero, "type"); (CZero, "dtype"); (CZero, "device");
    (CKronAddedDiag, "evaluate_kernel"); (CAddedDiag, "evaluate_kernel"); (CLowRankRootAddedDiag, "evaluate_kernel");
    (CMul, "representation"); (CMul, "representation_tree");
    (CCat, "to"); (CCat, "device"); (CInterpolated, "to"); (CMasked, "to");
    (CPermutation, "to"); (CPermutation, "type"); (CPermutation, "dtype");
    (CTransposePermutation, "to"); (CTransposePermutation, "type"); (CTransposePermutation, "dtype");
    (CTransposePermutation, "device") ].
(* every override is transcribed by the model: nothing is tolerated without being modelled *)
Definition repair_overrides : list (cls * string) := [].
(* the overrides Model.meth_call / dtype_of rely on: they must still be there *)
Definition required_overrides : list (cls * string) :=
  [ (CIdentity, "to"); (CIdentity, "type"); (CIdentity, "dtype"); (CZero, "to"); (CZero, "type"); (CZero, "dtype");
    (CCat, "to"); (CInterpolated, "to"); (CMasked, "to"); (CPermutation, "to"); (CPermutation, "type"); (CPermutation, "dtype");
    (CTransposePermutation, "to"); (CTransposePermutation, "type"); (CTransposePermutation, "dtype") ].

Definition cs_eqb (a b : cls * string) : bool := cls_eqb (fst a) (fst b) && String.eqb (snd a) (snd b).
Definition cs_mem (p : cls * string) (l : list (cls * string)) : bool := existsb (cs_eqb p) l.

Lemma overrides_checked :
  forallb (fun p => cs_mem p (modelled_overrides ++ repair_overrides)) overrides = true /\
  forallb (fun p => cs_mem p overrides) required_overrides = true.
Proof. vm_compute. split; reflexivity. Qed.

Lemma cs_mem_in p l : cs_mem p l = true -> In p l.
Proof.
  unfold cs_mem. intros H. apply existsb_exists in H as [[c m] [Hl He]]. unfold cs_eqb in He. simpl in He.
  apply andb_prop in He as [E1 E2]. apply cls_eqb_eq in E1. apply String.eqb_eq in E2. destruct p. simpl in *. subst. exact Hl.
Qed.

Lemma overrides_modelled : forall c m, In (c, m) overrides -> In (c, m) (modelled_overrides ++ repair_overrides).
Proof.
  intros c m H. destruct overrides_checked as [A _]. rewrite forallb_forall in A. apply cs_mem_in. exact (A _ H).
Qed.
Lemma overrides_required : forall p, In p required_overrides -> In p overrides.
Proof.
  intros p H. destruct overrides_checked as [_ B]. rewrite forallb_forall in B. apply cs_mem_in. exact (B _ H).
Qed.

(* ---- syntactic shape of every definition of a copy / conversion method (gen/Overrides.v method_shapes):
   no definition of to / type / clone / detach / cpu / cuda / double / float / half - neither the generic ones of
   LinearOperator nor an override - may return `self` (or a local alias of it), leave early under a test of
   self.dtype / self.device, or assign an attribute of `self`, except the documented ones *)
Definition shape := (bool * bool * bool * bool)%type.
Definition shape_plain (s : shape) : bool := match s with (false, false, false, false) => true | _ => false end.
Definition shape_eqb (a b : shape) : bool :=
  match a, b with (a1, a2, a3, a4), (b1, b2, b3, b4) => Bool.eqb a1 b1 && Bool.eqb a2 b2 && Bool.eqb a3 b3 && Bool.eqb a4 b4 end.
(* documented exceptions, all of the fourth kind (a component of self can reach the result unchanged although it has the
   method):
     LinearOperator.type   the helper `_type_helper` returns its argument when it is not floating - it is only ever
                           applied to a CLONE of the component (`_type_helper(arg.clone())`)
     CatLinearOperator.to  documented behaviour: "this does not move the LinearOperators in this CatLinearOperator": the
                           pieces are handed to the new operator (`*self._args`) and then converted by .type(dtype)
   (TransposePermutationLinearOperator.type - self._dtype = dtype; return self - has been repaired) *)
Definition documented_shapes : list (string * string * shape) :=
  [ ("LinearOperator", "type", (false, false, false, true));
    ("CatLinearOperator", "to", (false, false, false, true)) ].
Definition row_eqb (a b : string * string * shape) : bool :=
  String.eqb (fst (fst a)) (fst (fst b)) && String.eqb (snd (fst a)) (snd (fst b)) && shape_eqb (snd a) (snd b).
Definition shape_listed (r : string * string * shape) : bool := shape_plain (snd r) || existsb (row_eqb r) documented_shapes.
(* the generic methods every class inherits must be in the table (the scan saw them) *)
Definition base_methods : list string := ["to"; "type"; "clone"; "detach"; "cpu"; "double"; "float"].
Definition plain : shape := (false, false, false, false).
Definition base_shape (m : string) : shape := if String.eqb m "type" then (false, false, false, true) else plain.
Definition base_present (m : string) : bool := existsb (row_eqb ("LinearOperator", m, base_shape m)) method_shapes.

Lemma method_shapes_checked : forallb shape_listed method_shapes = true /\ forallb base_present base_methods = true.
Proof. vm_compute. split; reflexivity. Qed.

Lemma row_eqb_eq a b : row_eqb a b = true -> a = b.
Proof.
  destruct a as [[o m] [[[a1 a2] a3] a4]], b as [[o' m'] [[[b1 b2] b3] b4]]. unfold row_eqb, shape_eqb. simpl. intros H.
  apply andb_prop in H as [H S4]. apply andb_prop in H as [H1 H2].
  apply andb_prop in S4 as [S3 E4]. apply andb_prop in S3 as [S2 E3]. apply andb_prop in S2 as [E1 E2].
  apply String.eqb_eq in H1. apply String.eqb_eq in H2.
  apply Bool.eqb_prop in E1. apply Bool.eqb_prop in E2. apply Bool.eqb_prop in E3. apply Bool.eqb_prop in E4.
  subst. reflexivity.
Qed.

Lemma method_shapes_documented : forall o m s, In (o, m, s) method_shapes ->
  s = plain \/ In (o, m, s) documented_shapes.
Proof.
  intros o m s H. destruct method_shapes_checked as [A _]. rewrite forallb_forall in A. specialize (A _ H).
  unfold shape_listed in A. apply orb_prop in A as [A|A].
  - left. simpl in A. destruct s as [[[[|] [|]] [|]] [|]]; try discriminate A. reflexivity.
  - right. apply existsb_exists in A as [r [Hr E]]. apply row_eqb_eq in E. subst r. exact Hr.
Qed.
Lemma base_methods_plain : forall m, In m base_methods -> In ("LinearOperator", m, base_shape m) method_shapes.
Proof.
  intros m H. destruct method_shapes_checked as [_ B]. rewrite forallb_forall in B. specialize (B _ H).
  unfold base_present in B. apply existsb_exists in B as [r [Hr E]]. apply row_eqb_eq in E. subst r. exact Hr.
Qed.
