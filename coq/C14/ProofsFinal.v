(* C14 — the conversion theorems in the form quoted by Property.v. *)
From Coq Require Import List ZArith Bool Arith Lia.
Import ListNotations.
Require Import C14.Types C14.gen.Ctors C14.Model C14.Wf C14.ProofsAssoc C14.ProofsRebuild C14.Conv C14.ProofsTables
  C14.ProofsConv C14.ProofsSpec.

Theorem convert_refines_spec defdt fuel m o n o' n' :
  wfb o = true -> losslessb defdt o = true -> safeb m o = true ->
  meth_call defdt fuel m o n = Some (o', n') -> strip o' = conv defdt m o /\ n <= n'.
Proof. intros W L S E. exact (meth_call_conv defdt fuel m o n o' n' W L S E). Qed.

Theorem convert_preserves defdt fuel m o n o' n' :
  wfb o = true -> losslessb defdt o = true -> safeb m o = true ->
  meth_call defdt fuel m o n = Some (o', n') ->
  vshape o' = vshape o /\ map obs (leaves o') = map (cast_rule m) (leaves o).
Proof.
  intros W L S E. destruct (meth_call_conv defdt fuel m o n o' n' W L S E) as [C _].
  assert (OP : is_op o = true).
  { destruct fuel; [discriminate|]. destruct o; try discriminate. reflexivity. }
  split.
  - rewrite <- vshape_strip, C. now apply conv_keeps_structure.
  - rewrite <- leaves_strip, C. now apply conv_leaves.
Qed.

(* the known finding, at the level of the model: to(<floating dtype>) of a permutation operator cannot succeed *)
Lemma perm_to_float_raises defdt f d dev p q nd at_ n :
  spec_of CPermutation = {| cs_npos := 2; cs_varargs := false;
                            cs_named := [(k_validate_args, Some (VBool true), PKw)]; cs_varkw := false |} ->
  is_float d = true ->
  meth_call defdt (S f) (MTo (Some d) dev) (AOp CPermutation [ATensor p; ATensor q] [] nd at_) n = None.
Proof.
  intros Hs F. rewrite meth_call_S. cbv zeta.
  change (guarded CPermutation) with false. change (cls_eqb CPermutation CCat) with false. cbv iota.
  simpl map_st.
  destruct (dt_eqb (tdt p) d) eqn:Qp; [apply dt_eqb_eq in Qp|];
  (destruct (dt_eqb (tdt q) d) eqn:Qq; [apply dt_eqb_eq in Qq|]);
  unfold again, ctor; rewrite Hs; unfold bind; simpl;
  destruct (lookup k_validate_args (lift nd)); destruct (filter _ (lift nd)); simpl;
  try rewrite Qp; try rewrite Qq; rewrite ?F; simpl; rewrite ?orb_true_r; reflexivity.
Qed.
