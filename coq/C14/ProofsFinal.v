(* C14 — the conversion theorems in the form quoted by Property.v. *)
From Coq Require Import List ZArith Bool Arith Lia.
Import ListNotations.
Require Import C14.Types C14.gen.Ctors C14.Model C14.Wf C14.ProofsAssoc C14.ProofsRebuild C14.Conv C14.ProofsTables
  C14.ProofsConv C14.ProofsSpec.

Theorem convert_refines_spec defdt fuel m o n o' n' :
  wfb o = true -> losslessb defdt o = true -> safeb m o = true ->
  meth_call defdt fuel m o n = Some (o', n') -> strip o' = conv defdt m o /\ n <= n'.
Proof. intros W L S E. exact (meth_call_conv defdt fuel m o n o' n' W L S E). Qed.

Theorem convert_preserves defdt fuel m o n o' n' :
  wfb o = true -> losslessb defdt o = true -> safeb m o = true ->
  meth_call defdt fuel m o n = Some (o', n') ->
  vshape o' = vshape o /\ map obs (leaves o') = map (cast_rule m) (leaves o).
Proof.
  intros W L S E. destruct (meth_call_conv defdt fuel m o n o' n' W L S E) as [C _].
  assert (OP : is_op o = true).
  { destruct fuel; [discriminate|]. destruct o; try discriminate. reflexivity. }
  split.
  - rewrite <- vshape_strip, C. now apply conv_keeps_structure.
  - rewrite <- leaves_strip, C. now apply conv_leaves.
Qed.

(* ------------------------------------------------------------------ every floating leaf is cast *)
Lemma map_eq_Forall2 {A B C} (f : A -> C) (g : B -> C) : forall l' l,
  map f l' = map g l -> Forall2 (fun x y => f x = g y) l' l.
Proof.
  induction l' as [|x r IH]; intros [|y s] H; simpl in H; try discriminate; constructor.
  - now inversion H.
  - apply IH. now inversion H.
Qed.

(* to(d) / type(d), whatever the operator's own dtype property says (in particular when its FIRST argument is a
   data-free operator with a nominal dtype that already equals d): leaf by leaf, same value, floating leaves get d,
   integer / boolean leaves keep their dtype *)
Theorem casts_every_float_leaf defdt fuel m d o n o' n' :
  (exists dev, m = MTo (Some d) dev) \/ m = MType d ->
  wfb o = true -> losslessb defdt o = true -> safeb m o = true ->
  meth_call defdt fuel m o n = Some (o', n') ->
  Forall2 (fun t' t => tvl t' = tvl t /\ tdt t' = (if is_float (tdt t) then d else tdt t) /\ trg t' = trg t)
          (leaves o') (leaves o) /\
  Forall (fun t' => is_float (tdt t') = true -> tdt t' = d) (leaves o').
Proof.
  intros M W L S E. destruct (convert_preserves defdt fuel m o n o' n' W L S E) as [_ LV].
  apply map_eq_Forall2 in LV.
  assert (R : forall t, cast_rule m t = (tvl t, (if is_float (tdt t) then d else tdt t), trg t)).
  { intros t. destruct M as [[dev ->] | ->]; reflexivity. }
  assert (F2 : Forall2 (fun t' t => tvl t' = tvl t /\ tdt t' = (if is_float (tdt t) then d else tdt t) /\ trg t' = trg t)
                       (leaves o') (leaves o)).
  { clear -LV R. induction LV as [|t' t l' l H _ IH]; constructor; [|exact IH].
    rewrite R in H. unfold obs in H. inversion H. auto. }
  split; [exact F2|].
  clear -F2. induction F2 as [|t' t l' l [_ [H _]] _ IH]; constructor; [|exact IH].
  intros F. rewrite H in F |- *. destruct (is_float (tdt t)) eqn:Q; [reflexivity|]. rewrite Q in F. discriminate.
Qed.

(* ------------------------------------------------------------------ the early return on the dtype property *)
(* to() "optimised" the way torch.Tensor.to is: nothing to do when the operator already reports the requested dtype *)
Definition to_shortcut (defdt : dt) (fuel : nat) (d : dt) (dev : option nat) (o : arg) (n : nat) : option (arg * nat) :=
  match dtype_of o with
  | Some x => if dt_eqb x d then Some (o, n) else meth_call defdt fuel (MTo (Some d) dev) o n
  | None => meth_call defdt fuel (MTo (Some d) dev) o n
  end.

(* ... violates the leaf rule on EVERY operator that reports dtype d while holding a floating tensor of another dtype
   (the dtype property is the dtype of the first argument: a permutation / zero / identity operator in front) *)
Theorem to_shortcut_violates defdt fuel d dev o n :
  dtype_of o = Some d -> Exists (fun t => is_float (tdt t) = true /\ tdt t <> d) (leaves o) ->
  exists o' n', to_shortcut defdt fuel d dev o n = Some (o', n') /\
                map obs (leaves o') <> map (cast_rule (MTo (Some d) dev)) (leaves o).
Proof.
  intros D X. unfold to_shortcut. rewrite D. assert (Q : dt_eqb d d = true) by (destruct d; reflexivity). rewrite Q.
  exists o, n. split; [reflexivity|]. intros EQ. induction X as [t l [F N]|t l _ IH]; simpl in EQ; inversion EQ.
  - apply N. unfold obs, cast_rule in H0. rewrite F in H0. now inversion H0.
  - now apply IH.
Qed.

(* ------------------------------------------------------------------ permutation operators *)
(* Permutation.to / TransposePermutation.to (any dtype / device request): the arguments - the index tensors perm / inv_perm -
   are handed over untouched (same storages, same integer dtype, nothing allocated); only the dtype keyword is rewritten
   (kept when no dtype is requested) *)
Theorem perm_to_keeps_indices defdt f d dev c ch dn nd at_ n o' n' :
  is_perm_cls c = true -> wfb (AOp c ch dn nd at_) = true ->
  meth_call defdt (S f) (MTo d dev) (AOp c ch dn nd at_) n = Some (o', n') ->
  o' = AOp c ch dn (nd_to c d dev nd) (dflt_attrs defdt c) /\ n' = n.
Proof.
  intros P W E. rewrite meth_call_S in E. cbv zeta in E.
  assert (G : guarded c = false /\ cls_eqb c CCat = false /\ cls_eqb c CZero = false)
    by (destruct (perm_cls_cases c P) as [-> | ->]; repeat split; reflexivity).
  destruct G as (G & CAT & ZERO). rewrite G, CAT, ZERO, P in E.
  exact (branch_to_permcls defdt d dev c ch dn nd at_ n o' n' P W E).
Qed.

(* ... and the result of to(d) / type(d) reports exactly the requested dtype (the repaired findings: the nominal dtype used
   to be reset to float32 by every rebuild, TransposePermutation.to ignored the request) *)
Theorem perm_conversion_sets_dtype defdt fuel m d c ch dn nd at_ n o' n' :
  is_perm_cls c = true ->
  (exists dev, m = MTo (Some d) dev) \/ m = MType d ->
  wfb (AOp c ch dn nd at_) = true -> losslessb defdt (AOp c ch dn nd at_) = true -> safeb m (AOp c ch dn nd at_) = true ->
  meth_call defdt fuel m (AOp c ch dn nd at_) n = Some (o', n') ->
  dtype_of o' = Some d.
Proof.
  intros P M W L S E. destruct (meth_call_conv defdt fuel m _ n o' n' W L S E) as [C _].
  rewrite <- dtype_of_strip, C.
  assert (DT : forall ch' nd', dtype_of (AOp c ch' dn (set_key k_dtype (VDtype d) nd') (dflt_attrs defdt c)) = Some d).
  { intros ch' nd'. destruct (perm_cls_cases c P) as [-> | ->]; simpl; rewrite lookup_set_key, Z.eqb_refl; reflexivity. }
  assert (G : guarded c = false /\ cls_eqb c CCat = false /\ rebuilt_kw c = true /\ keeps_dt c = true)
    by (destruct (perm_cls_cases c P) as [-> | ->]; repeat split; reflexivity).
  destruct G as (G & CAT & RK & KD).
  destruct M as [[dev ->] | ->]; unfold conv.
  - rewrite conv_to_op, G, CAT, RK, (nd_to_perm c (Some d) dev nd P). simpl. apply DT.
  - unfold conv_type. rewrite KD. apply DT.
Qed.

(* ------------------------------------------------------------------ torch's default dtype is not an input *)
Lemma map_st_ext {A B} (f g : A -> nat -> option (B * nat)) :
  (forall x n, f x n = g x n) -> forall l n, map_st f l n = map_st g l n.
Proof.
  intros H l. induction l as [|x r IH]; intros n; simpl; [reflexivity|]. rewrite H.
  destruct (g x n) as [[y n1]|]; [|reflexivity]. now rewrite IH.
Qed.

Lemma on_arg_ext (r1 r2 : meth -> arg -> nat -> option (arg * nat)) :
  (forall m a n, r1 m a n = r2 m a n) -> forall m a n, on_arg r1 m a n = on_arg r2 m a n.
Proof.
  intros H m a n. destruct a as [t|v|c ch dn nd at_]; [reflexivity|reflexivity|].
  destruct m; simpl; rewrite ?H; try reflexivity.
  destruct (r2 MClone _ n) as [[a1 n1]|]; [|reflexivity]. destruct (dtype_of a1); [|reflexivity].
  destruct (is_float _); [apply H|reflexivity].
Qed.

Lemma bind_named_pks ps : forall rest kw l, bind_named ps rest kw = Some l -> map snd l = map snd ps.
Proof.
  induction ps as [|[[k dflt] p] ps IH]; intros rest kw l H; simpl in H.
  - inversion H. reflexivity.
  - destruct rest as [|v rest'].
    + destruct (match lookup k kw with Some v => Some v | None => option_map AOther dflt end) as [v|]; [|discriminate].
      destruct (bind_named ps [] kw) as [l0|] eqn:B; [|discriminate]. inversion H; subst. simpl. f_equal. eapply IH; eauto.
    + destruct (has_key k kw); [discriminate|].
      destruct (bind_named ps rest' kw) as [l0|] eqn:B; [|discriminate]. inversion H; subst. simpl. f_equal. eapply IH; eauto.
Qed.

Lemma attrs_from_nil defdt c (named : list (Z * arg * pk)) :
  ~ In PAttr (map snd named) -> attrs_from defdt c named = [].
Proof.
  unfold attrs_from. induction named as [|[[k v] p] r IH]; intros H; simpl; [reflexivity|].
  destruct p; simpl; try (apply IH; intros X; apply H; now right).
  exfalso. apply H. now left.
Qed.

Lemma no_pattr c : ~ In PAttr (map snd (cs_named (spec_of c))).
Proof.
  pose proof (no_attr_params_all c) as H. unfold lossy_params in H.
  induction (cs_named (spec_of c)) as [|[[k d] p] r IH]; simpl; [tauto|].
  simpl in H. destruct p; simpl in H; try discriminate H; intros [X|X]; try discriminate X; now apply IH.
Qed.

Lemma ctor_defdt d1 d2 c pos kw : ctor d1 c pos kw = ctor d2 c pos kw.
Proof.
  unfold ctor. destruct (bind (spec_of c) pos kw) as [[[ppos named] extra]|] eqn:B; [|reflexivity].
  assert (NP : ~ In PAttr (map snd named)).
  { unfold bind in B. destruct (length pos <? cs_npos (spec_of c)); [discriminate|].
    destruct (length (cs_named (spec_of c)) <? _); [discriminate|].
    destruct (bind_named _ _ kw) as [nm|] eqn:BN; [|discriminate].
    assert (nm = named) by (destruct (filter _ kw); [|destruct (cs_varkw _)]; now inversion B). subst nm.
    rewrite (bind_named_pks _ _ _ _ BN). apply no_pattr. }
  now rewrite !(attrs_from_nil _ c named NP).
Qed.

(* clone / detach / cpu / to / type do not read torch's default dtype: the same call gives the same result under any
   default (in particular under a default that changed since the operator was constructed) *)
Theorem meth_call_defdt d1 d2 : forall f m o n, meth_call d1 f m o n = meth_call d2 f m o n.
Proof.
  induction f as [|f IH]; intros m o n; [reflexivity|].
  destruct o as [t|v|c ch dn nd at_]; try reflexivity.
  rewrite !meth_call_S. cbv zeta.
  assert (OA : forall m x k, on_arg (meth_call d1 f) m x k = on_arg (meth_call d2 f) m x k)
    by (intros; apply on_arg_ext; exact IH).
  assert (OG : forall d dev x k, on_arg_guarded (meth_call d1 f) d dev x k = on_arg_guarded (meth_call d2 f) d dev x k).
  { intros d dev x k. unfold on_arg_guarded. destruct x; try reflexivity;
      destruct (dtype_of _); destruct d; try destruct (Bool.eqb _ _); try apply OA; reflexivity. }
  assert (AG : forall ch' nd' n', again d1 c dn ch' nd' n' = again d2 c dn ch' nd' n')
    by (intros; unfold again; now rewrite (ctor_defdt d1 d2)).
  assert (GEN : forall m, match map_st (on_arg (meth_call d1 f) m) ch n with
                          | Some (ch', n') => again d1 c dn ch' nd n' | None => None end =
                          match map_st (on_arg (meth_call d2 f) m) ch n with
                          | Some (ch', n') => again d2 c dn ch' nd n' | None => None end).
  { intros m0. rewrite (map_st_ext _ _ (OA m0)). destruct (map_st _ ch n) as [[ch' n']|]; [apply AG|reflexivity]. }
  destruct m as [| | |d dev|d]; try apply GEN.
  - destruct (guarded c).
    + rewrite (map_st_ext _ _ (OG d dev)). destruct (map_st _ (firstn _ ch) n) as [[a' n1]|]; [|reflexivity].
      rewrite (map_st_ext _ _ (OA (MTo d dev))). destruct (map_st _ (skipn _ ch) n1) as [[kv' n2]|]; [|reflexivity].
      destruct (cls_eqb c CIdentity); [|apply AG].
      destruct (keep_or k_dtype _ nd); [|reflexivity]. destruct (keep_or k_device _ nd); [apply AG|reflexivity].
    + destruct (cls_eqb c CCat).
      { rewrite AG. destruct (again d2 c dn ch _ n) as [[res n1]|]; [|reflexivity]. destruct d; [apply IH|reflexivity]. }
      destruct (cls_eqb c CZero).
      { destruct (keep_or k_dtype _ nd); [|reflexivity]. destruct (keep_or k_device _ nd); [|reflexivity].
        now rewrite (ctor_defdt d1 d2). }
      destruct (is_perm_cls c); [|apply GEN].
      destruct (keep_or k_dtype _ nd); [apply AG|reflexivity].
  - destruct (cls_eqb c CIdentity).
    { destruct (lookup k_diag_shape nd); [|reflexivity]. destruct (lookup k_batch_shape nd); [|reflexivity].
      destruct (lookup k_device nd); [|reflexivity]. now rewrite (ctor_defdt d1 d2). }
    destruct (cls_eqb c CTransposePermutation); [apply AG|].
    destruct (cls_eqb c CPermutation).
    { rewrite (map_st_ext _ _ (OA MClone)). destruct (map_st _ ch n) as [[ch' n']|]; [apply AG|reflexivity]. }
    destruct (cls_eqb c CZero); [|apply GEN].
    destruct (lookup k_device nd); [|reflexivity]. now rewrite (ctor_defdt d1 d2).
Qed.
