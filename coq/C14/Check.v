(* C14 — executable comparators used by the correspondence shards (gen/cases_*.v).

   A case = (torch default dtype, first fresh storage id, query, observed).  The model is run by vm_compute, storage
   ids allocated by the model at or above the first fresh id are renumbered in order of first occurrence (depth
   first, children left to right) - the harness numbers the storages it has not seen in the input the same way -
   and the result is compared with the abstraction of what the implementation returned ([None] = it raised). *)
From Coq Require Import List ZArith Bool Arith.
Import ListNotations.
Require Import C14.Types C14.gen.Ctors C14.Model C14.Wf C14.Conv.

Fixpoint zl_eqb (a b : list Z) : bool :=
  match a, b with [], [] => true | x :: r, y :: s => Z.eqb x y && zl_eqb r s | _, _ => false end.
Fixpoint kv_eqb (a b : list (Z * value)) : bool :=
  match a, b with
  | [], [] => true
  | (k, v) :: r, (k', v') :: s => Z.eqb k k' && value_eqb v v' && kv_eqb r s
  | _, _ => false
  end.

Fixpoint arg_eqb (a b : arg) : bool :=
  match a, b with
  | ATensor x, ATensor y => tensor_eqb x y
  | AOther x, AOther y => value_eqb x y
  | AOp c ch dn nd at_, AOp c' ch' dn' nd' at' =>
      cls_eqb c c' && zl_eqb dn dn' && kv_eqb nd nd' && kv_eqb at_ at' &&
      (fix go (l l' : list arg) : bool :=
         match l, l' with
         | [], [] => true
         | x :: r, y :: s => arg_eqb x y && go r s
         | _, _ => false
         end) ch ch'
  | _, _ => false
  end.

(* renumbering of the fresh storage ids *)
Definition rn := (list (nat * nat) * nat)%type.
Fixpoint rn_find (k : nat) (l : list (nat * nat)) : option nat :=
  match l with [] => None | (a, b) :: r => if Nat.eqb k a then Some b else rn_find k r end.
Definition rn_id (n0 : nat) (i : nat) (st : rn) : nat * rn :=
  if i <? n0 then (i, st)
  else match rn_find i (fst st) with
       | Some j => (j, st)
       | None => (snd st, ((i, snd st) :: fst st, S (snd st)))
       end.

Fixpoint canon (n0 : nat) (a : arg) (st : rn) : arg * rn :=
  match a with
  | ATensor t => let (j, st') := rn_id n0 (tid t) st in (ATensor (T j (tvl t) (tdt t) (trg t)), st')
  | AOther _ => (a, st)
  | AOp c ch dn nd at_ =>
      let (ch', st') :=
        (fix go (l : list arg) (s : rn) : list arg * rn :=
           match l with
           | [] => ([], s)
           | x :: r => let (x', s1) := canon n0 x s in let (r', s2) := go r s1 in (x' :: r', s2)
           end) ch st in
      (AOp c ch' dn nd at_, st')
  end.
Definition canon0 (n0 : nat) (a : arg) : arg := fst (canon n0 a ([], n0)).

Definition oarg_eqb (a b : option arg) : bool :=
  match a, b with Some x, Some y => arg_eqb x y | None, None => true | _, _ => false end.

Fixpoint tl_eqb (a b : list tensor) : bool :=
  match a, b with [], [] => true | x :: r, y :: s => tensor_eqb x y && tl_eqb r s | _, _ => false end.

Inductive query :=
| QRebuild (o : arg)                                   (* o.representation_tree()( *o.representation() ) *)
| QRepr (o : arg) (obs : option (list tensor))         (* o.representation() *)
| QMeth (m : meth) (o : arg)                           (* clone / detach / cpu / type / double / float *)
| QTo (args : list toarg) (kd : option dt) (kv : option nat) (o : arg)   (* o.to( *args, dtype=kd, device=kv ) *)
| QDtype (o : arg) (obs : option dt).                  (* o.dtype *)

Definition FUEL : nat := 64.

Definition run_query (defdt : dt) (n0 : nat) (q : query) : option arg :=
  match q with
  | QRebuild o => rebuild defdt o
  | QMeth m o => option_map (fun r => canon0 n0 (fst r)) (meth_call defdt FUEL m o n0)
  | QTo args kd kv o => option_map (fun r => canon0 n0 (fst r)) (alg_to defdt FUEL args kd kv o n0)
  | QRepr o _ | QDtype o _ => None
  end.

Definition case := (dt * nat * query * option arg)%type.

Definition agree (c : case) : bool :=
  match c with
  | (defdt, n0, q, obs) =>
      match q with
      | QRepr o r => match repr o, r with
                     | Some l, Some l' => tl_eqb l l'
                     | None, None => true
                     | _, _ => false
                     end
      | QDtype o r => match dtype_of o, r with
                      | Some d, Some d' => dt_eqb d d'
                      | None, None => true
                      | _, _ => false
                      end
      | _ => oarg_eqb (run_query defdt n0 q) obs
      end
  end.

Fixpoint bad_cases (cs : list case) (i : nat) : list nat :=
  match cs with
  | [] => []
  | c :: r => if agree c then bad_cases r (S i) else i :: bad_cases r (S i)
  end.

(* the hypothesis of the theorems, evaluated on the abstraction of the real input operator (and of the result) *)
Definition query_op (q : query) : arg :=
  match q with QRebuild o | QRepr o _ | QMeth _ o | QTo _ _ _ o | QDtype o _ => o end.
Definition wf_case (c : case) : bool :=
  match c with
  | (_, _, q, obs) => wfb (query_op q) && match obs with Some r => wfb r | None => true end
  end.
Fixpoint bad_wf (cs : list case) (i : nat) : list nat :=
  match cs with
  | [] => []
  | c :: r => if wf_case c then bad_wf r (S i) else i :: bad_wf r (S i)
  end.

(* the structural specification Conv.conv against the implementation (where its side conditions hold) *)
Definition conv_case (c : case) : bool :=
  match c with
  | (defdt, _, q, Some r) =>
      let chk (m : meth) (o : arg) := if wfb o && safeb m o then arg_eqb (strip r) (conv defdt m o) else true in
      match q with
      | QMeth m o => chk m o
      | QTo args kd kv o => match to_helper args kd kv with Some (dev, d) => chk (MTo d dev) o | None => true end
      | _ => true
      end
  | _ => true
  end.
Definition conv_applies (c : case) : bool :=
  match c with
  | (defdt, _, q, Some r) =>
      match q with
      | QMeth m o => wfb o && safeb m o
      | QTo args kd kv o => match to_helper args kd kv with Some (dev, d) => wfb o && safeb (MTo d dev) o | None => false end
      | _ => false
      end
  | _ => false
  end.
Fixpoint bad_conv (cs : list case) (i : nat) : list nat :=
  match cs with
  | [] => []
  | c :: r => if conv_case c then bad_conv r (S i) else i :: bad_conv r (S i)
  end.
Definition n_conv (cs : list case) : nat := length (filter conv_applies cs).
