(* C14 — copies, conversions and rebuilds denote the same matrix with the right dtype.
   Only theorem statements live here; each is closed by `exact` of a lemma proved in Proofs*.v.

   Vocabulary (coq/C14/Types.v, Model.v, Wf.v).  An operator object is abstracted to a term
       AOp class children differentiable-kwarg-names non-differentiable-kwargs attributes
   whose leaves are tensors  T storage-id value-id dtype requires_grad  (shapes and entries are abstracted to the
   value identity).  `spec_of` is the constructor signature / forwarding table GENERATED from the package on every
   run (gen/Ctors.v).  `wfb o` says every node of o is in the form LinearOperator.__init__ leaves behind (it is
   evaluated on every real operator of the correspondence grid).  `reset` replaces, at every node, the attributes
   a constructor derives from parameters it does not forward by what their DEFAULTS give; `losslessb o` says o has no
   such flag set to a non-default value, i.e. reset o = o. *)
From Coq Require Import List ZArith Bool Arith String.
Import ListNotations.
Require Import C14.Types C14.gen.Ctors C14.Model C14.Wf C14.ProofsAssoc C14.ProofsRebuild C14.AllocPolicy
  C14.gen.AllocSites C14.gen.Overrides C14.ProofsTables C14.Conv C14.ProofsConv C14.ProofsSpec C14.ProofsFinal.

(* ---------------------------------------------------------------- generated tables (finite; re-proved per run) *)

(* the regenerated constructor table is well formed: distinct parameter names, *args classes take no leading
   positionals, every parameter that is not forwarded has a default *)
Theorem C14_ctor_table_wf : forall c, spec_okb (spec_of c) = true.
Proof. exact spec_ok_all. Qed.

(* NO constructor parameter of a library class is kept as an attribute without being forwarded to
   LinearOperator.__init__ (such a parameter is reset by EVERY clone / detach / to / type / rebuild; the four of the
   pinned tree - Zero dtype / device, Chol upper, KroneckerProductTriangular upper - have been repaired): the list is
   empty and nothing may ever join it *)
Theorem C14_lossy_params_listed : forall c k, In c lib_classes -> In k (lossy_params c) -> False.
Proof. exact lossy_params_listed. Qed.

(* every tensor-allocation call in every file of the package chooses its dtype from an existing tensor / operator
   (dtype=<expr>, the _like and new_ allocators), allocates index data, or is allow-listed with a reason (AllocPolicy.allow).
   AllocPolicy.known_untyped (listed findings) is EMPTY since the three ZeroLinearOperator sites were repaired, so the
   hypothesis below holds for every site *)
Theorem C14_alloc_sites_typed : forall s, In s sites -> is_known_untyped s = false -> site_ok s = true.
Proof. exact alloc_sites_typed. Qed.

(* the classes that define their own to / type / clone / detach / cpu / representation / dtype ... are exactly the ones
   the model transcribes class by class, and every override the model relies on still exists: a new override cannot go
   unnoticed *)
Theorem C14_overrides_modelled :
  (forall c m, In (c, m) overrides -> In (c, m) (modelled_overrides ++ repair_overrides)) /\
  (forall p, In p required_overrides -> In p overrides).
Proof. exact (conj overrides_modelled overrides_required). Qed.

(* syntactic shape of EVERY definition of to / type / clone / detach / cpu / cuda / double / float / half in the package
   (the generic ones of LinearOperator and every override, regenerated per run).  Four flags per definition: it can
   return `self` (or a local alias of it); it leaves early under a test of self.dtype / self.device (the dtype property is
   only the dtype of the first argument); it assigns an attribute of `self`; it can put a component of self (an element
   of self._args / self._kwargs, the parameter of a helper applied to them, `*self._args`) into the result UNCHANGED for
   another reason than that the component lacks the method (hasattr tests only ask whether it can be copied at all; a
   test of requires_grad / dtype / device decides on the data and makes the "copy" share objects with its source).
   All four are false everywhere, except the two documented rows of the fourth kind (LinearOperator.type, whose helper
   is applied to a clone; CatLinearOperator.to, documented not to move the pieces); and the generic methods are in the
   table.  A new early return, in-place shortcut or object-reusing "fast path" breaks this proof. *)
Theorem C14_copy_methods_shape_documented :
  (forall o m s, In (o, m, s) method_shapes -> s = plain \/ In (o, m, s) documented_shapes) /\
  (forall m, In m base_methods -> In ("LinearOperator"%string, m, base_shape m) method_shapes).
Proof. exact (conj method_shapes_documented base_methods_plain). Qed.

(* ---------------------------------------------------------------- constructors on stored arguments *)

(* cls( *op._args, **op._kwargs ) gives the operator back with its attributes reset: for EVERY class of the table
   (and user subclasses), every number of positional arguments, every kwargs layout (any set of extra **kwargs,
   tensors, operators and plain values mixed, in any order of names) *)
Theorem C14_ctor_idempotent : forall defdt c ch dn nd,
  node_okb c ch dn nd = true ->
  ctor defdt c (args_of ch dn) (dkw_of ch dn ++ lift nd) = Some (AOp c ch dn nd (dflt_attrs defdt c)).
Proof. intros defdt c ch dn nd H. apply ctor_stored; [apply spec_ok_all|exact H]. Qed.

(* ---------------------------------------------------------------- the flatten-and-rebuild round trip *)

(* op.representation_tree()( *op.representation() ): arbitrary nesting depth, arity and kwargs layouts *)
Theorem C14_rebuild : forall defdt o,
  wfb o = true -> no_otherb o = true -> rebuild defdt o = Some (reset defdt o).
Proof. exact rebuild_reset. Qed.

(* ... hence it is the identity on every operator that carries no non-forwarded flag *)
Theorem C14_rebuild_exact : forall defdt o,
  wfb o = true -> no_otherb o = true -> losslessb defdt o = true -> rebuild defdt o = Some o.
Proof. exact rebuild_exact. Qed.

(* ... and it is NOT the identity on any operator whose root carries such a flag with a non-default value *)
Theorem C14_rebuild_loses_flags : forall defdt c ch dn nd at_,
  wfb (AOp c ch dn nd at_) = true -> no_otherb (AOp c ch dn nd at_) = true -> at_ <> dflt_attrs defdt c ->
  rebuild defdt (AOp c ch dn nd at_) <> Some (AOp c ch dn nd at_).
Proof. exact rebuild_loses_flags. Qed.

(* representation() raises exactly when an argument it walks is neither a tensor nor an operator
   (ZeroLinearOperator's integer sizes): the error path is part of the model *)
Theorem C14_representation_error_exact : forall o, repr o = None <-> no_otherb o = false.
Proof. exact repr_error_exact. Qed.

(* the keyword arguments of a constructor call may come in any order: only the name -> value function matters
   (clone / to / type build dicts in their own iteration order, the representation tree passes differentiable kwargs first) *)
Theorem C14_ctor_kwargs_order_irrelevant : forall defdt c ch dn nd kw,
  node_okb c ch dn nd = true -> NoDup (keys kw) -> (forall k, lookup k kw = lookup k (dkw_of ch dn ++ lift nd)) ->
  ctor defdt c (args_of ch dn) kw = Some (AOp c ch dn nd (dflt_attrs defdt c)).
Proof. intros defdt c ch dn nd kw H. apply ctor_stored_gen; [apply spec_ok_all|exact H]. Qed.

(* ---------------------------------------------------------------- clone / detach / cpu / to / type / double / float *)

(* meth_call transcribes the library's methods: every node is rebuilt through its class constructor, nested operators
   are converted by their own (possibly overridden) methods, type() clones before it casts, fresh storages come from a
   counter.  Conv.conv is a structural specification without constructors, fuel or counters.  On every well-formed
   operator tree without lossy flags (any classes, nesting depth, arities, kwargs layouts), under the side conditions
   [safeb] (to(<floating dtype>) reaches integer / boolean tensors only through the guarded positions of Interpolated /
   Masked operators, every nested operator reports a floating dtype), whatever the method returns IS the specification *)
Theorem C14_convert_refines_spec : forall defdt fuel m o n o' n',
  wfb o = true -> losslessb defdt o = true -> safeb m o = true ->
  meth_call defdt fuel m o n = Some (o', n') -> strip o' = conv defdt m o /\ (n <= n')%nat.
Proof. exact convert_refines_spec. Qed.

(* ... hence: same class tree, same keyword arguments and flags (orientation flags, concatenation axis, repeat counts,
   block layout, other non-tensor arguments; only the dtype / device bookkeeping entries may change), same VALUE in
   every leaf; floating leaves get the target dtype, integer and boolean leaves (interpolation indices, masks) keep
   theirs; requires_grad is kept leaf by leaf and dropped everywhere by detach *)
Theorem C14_convert_preserves : forall defdt fuel m o n o' n',
  wfb o = true -> losslessb defdt o = true -> safeb m o = true ->
  meth_call defdt fuel m o n = Some (o', n') ->
  vshape o' = vshape o /\ map obs (leaves o') = map (cast_rule m) (leaves o).
Proof. exact convert_preserves. Qed.

(* clone() gives every leaf a storage of its own: the fresh identities n, n+1, ... in leaf order; nothing is shared
   with the original (whose storages are numbered below n) nor between two leaves of the clone *)
Theorem C14_clone_shares_nothing : forall defdt fuel o n o' n',
  wfb o = true -> losslessb defdt o = true ->
  meth_call defdt fuel MClone o n = Some (o', n') ->
  map tid (leaves o') = seq n (List.length (leaves o)) /\ n' = (n + List.length (leaves o))%nat.
Proof. exact clone_fresh. Qed.

(* ... in particular, leaf by leaf (state quantifier: any fuel, any default dtype, any counter): after to(d) / type(d)
   every leaf has its old value, every FLOATING leaf has dtype d and every integer / boolean leaf its old dtype -
   whatever the operator's own dtype property reports.  The property is the dtype of the FIRST argument; when that is a
   data-free operator with a nominal dtype (permutation, zero, identity) it may already equal d while the data do not:
   the conversion must not look at it. *)
Theorem C14_convert_casts_every_float_leaf : forall defdt fuel m d o n o' n',
  (exists dev, m = MTo (Some d) dev) \/ m = MType d ->
  wfb o = true -> losslessb defdt o = true -> safeb m o = true ->
  meth_call defdt fuel m o n = Some (o', n') ->
  Forall2 (fun t' t => tvl t' = tvl t /\ tdt t' = (if is_float (tdt t) then d else tdt t) /\ trg t' = trg t)
          (leaves o') (leaves o) /\
  Forall (fun t' => is_float (tdt t') = true -> tdt t' = d) (leaves o').
Proof. exact casts_every_float_leaf. Qed.

(* the refutation of the tempting shortcut "return self when self.dtype is already the requested dtype" (what
   torch.Tensor.to does): it breaks the leaf rule on EVERY operator that reports dtype d while holding a floating
   tensor of another dtype *)
Theorem C14_to_shortcut_on_dtype_refuted : forall defdt fuel d dev o n,
  dtype_of o = Some d -> Exists (fun t => is_float (tdt t) = true /\ tdt t <> d) (leaves o) ->
  exists o' n', to_shortcut defdt fuel d dev o n = Some (o', n') /\
                map obs (leaves o') <> map (cast_rule (MTo (Some d) dev)) (leaves o).
Proof. exact to_shortcut_violates. Qed.

(* Permutation.to / TransposePermutation.to (any dtype / device request): the arguments - the index tensors perm / inv_perm -
   are handed over untouched (same storages, same integer dtype, nothing allocated); only the dtype keyword is rewritten
   (and kept when no dtype is requested) *)
Theorem C14_perm_to_keeps_indices : forall defdt f d dev c ch dn nd at_ n o' n',
  is_perm_cls c = true -> wfb (AOp c ch dn nd at_) = true ->
  meth_call defdt (S f) (MTo d dev) (AOp c ch dn nd at_) n = Some (o', n') ->
  o' = AOp c ch dn (nd_to c d dev nd) (dflt_attrs defdt c) /\ n' = n.
Proof. exact perm_to_keeps_indices. Qed.

(* the repaired findings as a theorem: the nominal dtype of the two permutation classes is a constructor keyword, so
   to(d) / type(d) return an operator that REPORTS d (it used to be reset to float32 by every rebuild, and
   TransposePermutation.to ignored the request) *)
Theorem C14_perm_conversion_sets_dtype : forall defdt fuel m d c ch dn nd at_ n o' n',
  is_perm_cls c = true ->
  (exists dev, m = MTo (Some d) dev) \/ m = MType d ->
  wfb (AOp c ch dn nd at_) = true -> losslessb defdt (AOp c ch dn nd at_) = true -> safeb m (AOp c ch dn nd at_) = true ->
  meth_call defdt fuel m (AOp c ch dn nd at_) n = Some (o', n') ->
  dtype_of o' = Some d.
Proof. exact perm_conversion_sets_dtype. Qed.

(* torch's default dtype is not an input of clone / detach / cpu / to / type: the same call on the same stored operator
   returns the same result under ANY default dtype - in particular under a default that changed since the operator
   was constructed (history quantifier).  Rests on the regenerated table: no constructor derives an attribute from a
   parameter it does not forward (C14_lossy_params_listed), so nothing is re-resolved against the default at rebuild time. *)
Theorem C14_default_dtype_irrelevant : forall d1 d2 fuel m o n,
  meth_call d1 fuel m o n = meth_call d2 fuel m o n.
Proof. exact meth_call_defdt. Qed.

(* ---------------------------------------------------------------- the hypotheses are satisfiable *)

(* Sum( Triangular(Dense t0, upper=True), Kernel(x1, x2, alpha=<tensor>, covar_func=f, ..., square=True), extra=3 ) *)
Definition ex_nested : arg :=
  AOp CSum
    [AOp CTriangular [AOp CDense [ATensor (T 0 0 F64 true)] [] [] []] [] [(k_upper, VBool true)] [];
     AOp CKernel [ATensor (T 1 1 F64 false); ATensor (T 2 2 F64 false); ATensor (T 3 3 F64 true)]
         [k_alpha]
         [(k_covar_func, VOpq 0); (k_num_nonbatch_dimensions, VOpq 1); (k_num_outputs_per_input, VSize [1%Z; 1%Z]);
          (k_square, VBool true)] []]
    [] [(k_extra, VInt 3)] [].
Example C14_hypotheses_satisfiable :
  wfb ex_nested = true /\ no_otherb ex_nested = true /\ losslessb F32 ex_nested = true /\
  rebuild F32 ex_nested = Some ex_nested.
Proof. vm_compute. repeat split; reflexivity. Qed.

(* Interpolated( Sum( Dense, Diag ), left indices (int64), left values, right indices, right values ).double():
   the side conditions hold, the conversion succeeds and does what the specification says *)
Definition ex_interp : arg :=
  AOp CInterpolated
    [AOp CSum [AOp CDense [ATensor (T 0 0 F32 true)] [] [] []; AOp CDiag [ATensor (T 1 1 F32 false)] [] [] []] [] [] [];
     ATensor (T 2 2 I64 false); ATensor (T 3 3 F32 true); ATensor (T 4 4 I64 false); ATensor (T 5 5 F32 false)] [] [] [].
Example C14_convert_hypotheses_satisfiable :
  wfb ex_interp = true /\ losslessb F64 ex_interp = true /\
  safeb (MType F64) ex_interp = true /\ safeb (MTo (Some F64) None) ex_interp = true /\
  (exists o' n', meth_call F64 8 (MType F64) ex_interp 6 = Some (o', n') /\
                 map obs (leaves o') = [(0, F64, true); (1, F64, false); (2, I64, false); (3, F64, true); (4, I64, false); (5, F64, false)]%nat) /\
  (exists o' n', meth_call F64 8 (MTo (Some F64) None) ex_interp 6 = Some (o', n')).
Proof. vm_compute. repeat split; try reflexivity; eexists; eexists; try split; reflexivity. Qed.

(* Matmul( Permutation(perm, inv_perm) [dtype keyword left at its float32 default], Dense(float64 tensor) ): the operator REPORTS float32 although
   its only floating tensor is float64.  All hypotheses of the conversion theorems hold; to(float32) must - and in the
   model does - cast the float64 tensor (fresh storage 3); the dtype-keyed shortcut would return it unchanged. *)
(* (the keywords a constructor stores when called with defaults, read off the regenerated table) *)
Definition dflt_nd (c : cls) : list (Z * value) :=
  isort (flat_map (fun x => match x with (k, Some v, PKw) => [(k, v)] | _ => [] end) (cs_named (spec_of c))).
Definition ex_perm_first : arg :=
  AOp CMatmul
    [AOp CPermutation [ATensor (T 0 0 I64 false); ATensor (T 1 1 I64 false)] [] (dflt_nd CPermutation) [];
     AOp CDense [ATensor (T 2 2 F64 true)] [] [] []] [] [] [].
Example C14_nominal_first_argument_satisfiable :
  wfb ex_perm_first = true /\ losslessb F64 ex_perm_first = true /\ safeb (MTo (Some F32) None) ex_perm_first = true /\
  dtype_of ex_perm_first = Some F32 /\
  Exists (fun t => is_float (tdt t) = true /\ tdt t <> F32) (leaves ex_perm_first) /\
  (exists o' n', meth_call F64 8 (MTo (Some F32) None) ex_perm_first 3 = Some (o', n') /\
                 map obs (leaves o') = [(0, I64, false); (1, I64, false); (2, F32, true)]%nat /\
                 map tid (leaves o') = [0; 1; 3]%nat).
Proof.
  vm_compute. repeat split; try reflexivity.
  - apply Exists_cons_tl. apply Exists_cons_tl. apply Exists_cons_hd. split; [reflexivity|discriminate].
  - eexists; eexists; repeat split; reflexivity.
Qed.

(* the repaired orientation flag: an upper Cholesky operator over an upper triangular factor is rebuilt exactly *)
Example C14_chol_upper_survives :
  let o := AOp CChol [AOp CTriangular [AOp CDense [ATensor (T 0 0 F64 false)] [] [] []] [] [(k_upper, VBool true)] []]
               [] [(k_upper, VBool true)] [] in
  wfb o = true /\ rebuild F32 o = Some o.
Proof. vm_compute. split; reflexivity. Qed.
