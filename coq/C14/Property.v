(* C14 — copies, conversions and rebuilds denote the same matrix with the right dtype.
   Only theorem statements live here; each is closed by `exact` of a lemma proved in Proofs*.v.

   Vocabulary (coq/C14/Types.v, Model.v, Wf.v).  An operator object is abstracted to a term
       AOp class children differentiable-kwarg-names non-differentiable-kwargs attributes
   whose leaves are tensors  T storage-id value-id dtype requires_grad  (shapes and entries are abstracted to the
   value identity).  `spec_of` is the constructor signature / forwarding table GENERATED from the package on every
   run (gen/Ctors.v).  `wfb o` says every node of o is in the form LinearOperator.__init__ leaves behind (it is
   evaluated on every real operator of the correspondence grid).  `reset` replaces, at every node, the attributes
   a constructor derives from parameters it does not forward by what their DEFAULTS give; `losslessb o` says o has no
   such flag set to a non-default value, i.e. reset o = o. *)
From Coq Require Import List ZArith Bool Arith String.
Import ListNotations.
Require Import C14.Types C14.gen.Ctors C14.Model C14.Wf C14.ProofsAssoc C14.ProofsRebuild C14.AllocPolicy
  C14.gen.AllocSites C14.gen.Overrides C14.ProofsTables C14.Conv C14.ProofsConv C14.ProofsSpec C14.ProofsFinal.

(* ---------------------------------------------------------------- generated tables (finite; re-proved per run) *)

(* the regenerated constructor table is well formed: distinct parameter names, *args classes take no leading
   positionals, every parameter that is not forwarded has a default *)
Theorem C14_ctor_table_wf : forall c, spec_okb (spec_of c) = true.
Proof. exact spec_ok_all. Qed.

(* the only constructor parameters of library classes that are kept as attributes without being forwarded to
   LinearOperator.__init__ - and are therefore reset by EVERY clone / detach / to / type / rebuild - are the listed
   ones (known findings); a repair removes entries, no other parameter may ever join the list *)
Theorem C14_lossy_params_listed : forall c k, In c lib_classes -> In k (lossy_params c) ->
  In (c, k) [(CZero, k_dtype); (CZero, k_device); (CChol, k_upper); (CKronTriangular, k_upper)].
Proof. exact lossy_params_listed. Qed.

(* every tensor-allocation call in every file of the package chooses its dtype from an existing tensor / operator
   (dtype=<expr>, the _like and new_ allocators), allocates index data, or is allow-listed with a reason (AllocPolicy.allow) - except
   the three named ZeroLinearOperator sites (AllocPolicy.known_untyped: known findings, reproduced dynamically) *)
Theorem C14_alloc_sites_typed : forall s, In s sites -> is_known_untyped s = false -> site_ok s = true.
Proof. exact alloc_sites_typed. Qed.

(* the classes that define their own to / type / clone / detach / cpu / representation / dtype ... are exactly the ones
   the model transcribes class by class (plus the overrides added by the proposed repairs of listed findings), and
   every override the model relies on still exists: a new override cannot go unnoticed *)
Theorem C14_overrides_modelled :
  (forall c m, In (c, m) overrides -> In (c, m) (modelled_overrides ++ repair_overrides)) /\
  (forall p, In p required_overrides -> In p overrides).
Proof. exact (conj overrides_modelled overrides_required). Qed.

(* ---------------------------------------------------------------- constructors on stored arguments *)

(* cls( *op._args, **op._kwargs ) gives the operator back with its attributes reset: for EVERY class of the table
   (and user subclasses), every number of positional arguments, every kwargs layout (any set of extra **kwargs,
   tensors, operators and plain values mixed, in any order of names) *)
Theorem C14_ctor_idempotent : forall defdt c ch dn nd,
  node_okb c ch dn nd = true ->
  ctor defdt c (args_of ch dn) (dkw_of ch dn ++ lift nd) = Some (AOp c ch dn nd (dflt_attrs defdt c)).
Proof. intros defdt c ch dn nd H. apply ctor_stored; [apply spec_ok_all|exact H]. Qed.

(* ---------------------------------------------------------------- the flatten-and-rebuild round trip *)

(* op.representation_tree()( *op.representation() ): arbitrary nesting depth, arity and kwargs layouts *)
Theorem C14_rebuild : forall defdt o,
  wfb o = true -> no_otherb o = true -> rebuild defdt o = Some (reset defdt o).
Proof. exact rebuild_reset. Qed.

(* ... hence it is the identity on every operator that carries no non-forwarded flag *)
Theorem C14_rebuild_exact : forall defdt o,
  wfb o = true -> no_otherb o = true -> losslessb defdt o = true -> rebuild defdt o = Some o.
Proof. exact rebuild_exact. Qed.

(* ... and it is NOT the identity on any operator whose root carries such a flag with a non-default value *)
Theorem C14_rebuild_loses_flags : forall defdt c ch dn nd at_,
  wfb (AOp c ch dn nd at_) = true -> no_otherb (AOp c ch dn nd at_) = true -> at_ <> dflt_attrs defdt c ->
  rebuild defdt (AOp c ch dn nd at_) <> Some (AOp c ch dn nd at_).
Proof. exact rebuild_loses_flags. Qed.

(* representation() raises exactly when an argument it walks is neither a tensor nor an operator
   (ZeroLinearOperator's integer sizes): the error path is part of the model *)
Theorem C14_representation_error_exact : forall o, repr o = None <-> no_otherb o = false.
Proof. exact repr_error_exact. Qed.

(* the known finding, on the pinned signature of CholLinearOperator (upper is not forwarded): the rebuild of an
   upper Cholesky operator is a different operator *)
Theorem C14_chol_upper_refuted :
  spec_of CChol = {| cs_npos := 1; cs_varargs := false; cs_named := [(k_upper, Some (VBool false), PAttr)]; cs_varkw := false |} ->
  exists o, wfb o = true /\ no_otherb o = true /\ rebuild F32 o <> Some o.
Proof. exact chol_upper_refuted. Qed.

(* the keyword arguments of a constructor call may come in any order: only the name -> value function matters
   (clone / to / type build dicts in their own iteration order, the representation tree passes differentiable kwargs first) *)
Theorem C14_ctor_kwargs_order_irrelevant : forall defdt c ch dn nd kw,
  node_okb c ch dn nd = true -> NoDup (keys kw) -> (forall k, lookup k kw = lookup k (dkw_of ch dn ++ lift nd)) ->
  ctor defdt c (args_of ch dn) kw = Some (AOp c ch dn nd (dflt_attrs defdt c)).
Proof. intros defdt c ch dn nd kw H. apply ctor_stored_gen; [apply spec_ok_all|exact H]. Qed.

(* ---------------------------------------------------------------- clone / detach / cpu / to / type / double / float *)

(* meth_call transcribes the library's methods: every node is rebuilt through its class constructor, nested operators
   are converted by their own (possibly overridden) methods, type() clones before it casts, fresh storages come from a
   counter.  Conv.conv is a structural specification without constructors, fuel or counters.  On every well-formed
   operator tree without lossy flags (any classes, nesting depth, arities, kwargs layouts), under the side conditions
   [safeb] (to(<floating dtype>) reaches integer / boolean tensors only through the guarded positions of Interpolated /
   Masked operators, every nested operator reports a floating dtype), whatever the method returns IS the specification *)
Theorem C14_convert_refines_spec : forall defdt fuel m o n o' n',
  wfb o = true -> losslessb defdt o = true -> safeb m o = true ->
  meth_call defdt fuel m o n = Some (o', n') -> strip o' = conv defdt m o /\ (n <= n')%nat.
Proof. exact convert_refines_spec. Qed.

(* ... hence: same class tree, same keyword arguments and flags (orientation flags, concatenation axis, repeat counts,
   block layout, other non-tensor arguments; only the dtype / device bookkeeping entries may change), same VALUE in
   every leaf; floating leaves get the target dtype, integer and boolean leaves (interpolation indices, masks) keep
   theirs; requires_grad is kept leaf by leaf and dropped everywhere by detach *)
Theorem C14_convert_preserves : forall defdt fuel m o n o' n',
  wfb o = true -> losslessb defdt o = true -> safeb m o = true ->
  meth_call defdt fuel m o n = Some (o', n') ->
  vshape o' = vshape o /\ map obs (leaves o') = map (cast_rule m) (leaves o).
Proof. exact convert_preserves. Qed.

(* clone() gives every leaf a storage of its own: the fresh identities n, n+1, ... in leaf order; nothing is shared
   with the original (whose storages are numbered below n) nor between two leaves of the clone *)
Theorem C14_clone_shares_nothing : forall defdt fuel o n o' n',
  wfb o = true -> losslessb defdt o = true ->
  meth_call defdt fuel MClone o n = Some (o', n') ->
  map tid (leaves o') = seq n (List.length (leaves o)) /\ n' = (n + List.length (leaves o))%nat.
Proof. exact clone_fresh. Qed.

(* the known finding at the level of the model, on the pinned constructor signature: to(<floating dtype>) of a
   permutation operator casts perm / inv_perm and the constructor rejects them - the call cannot succeed *)
Theorem C14_perm_to_float_refuted : forall defdt f d dev p q nd at_ n,
  spec_of CPermutation = {| cs_npos := 2; cs_varargs := false;
                            cs_named := [(k_validate_args, Some (VBool true), PKw)]; cs_varkw := false |} ->
  is_float d = true ->
  meth_call defdt (S f) (MTo (Some d) dev) (AOp CPermutation [ATensor p; ATensor q] [] nd at_) n = None.
Proof. exact perm_to_float_raises. Qed.

(* ---------------------------------------------------------------- the hypotheses are satisfiable *)

(* Sum( Triangular(Dense t0, upper=True), Kernel(x1, x2, alpha=<tensor>, covar_func=f, ..., square=True), extra=3 ) *)
Definition ex_nested : arg :=
  AOp CSum
    [AOp CTriangular [AOp CDense [ATensor (T 0 0 F64 true)] [] [] []] [] [(k_upper, VBool true)] [];
     AOp CKernel [ATensor (T 1 1 F64 false); ATensor (T 2 2 F64 false); ATensor (T 3 3 F64 true)]
         [k_alpha]
         [(k_covar_func, VOpq 0); (k_num_nonbatch_dimensions, VOpq 1); (k_num_outputs_per_input, VSize [1%Z; 1%Z]);
          (k_square, VBool true)] []]
    [] [(k_extra, VInt 3)] [].
Example C14_hypotheses_satisfiable :
  wfb ex_nested = true /\ no_otherb ex_nested = true /\ losslessb F32 ex_nested = true /\
  rebuild F32 ex_nested = Some ex_nested.
Proof. vm_compute. repeat split; reflexivity. Qed.

(* Interpolated( Sum( Dense, Diag ), left indices (int64), left values, right indices, right values ).double():
   the side conditions hold, the conversion succeeds and does what the specification says *)
Definition ex_interp : arg :=
  AOp CInterpolated
    [AOp CSum [AOp CDense [ATensor (T 0 0 F32 true)] [] [] []; AOp CDiag [ATensor (T 1 1 F32 false)] [] [] []] [] [] [];
     ATensor (T 2 2 I64 false); ATensor (T 3 3 F32 true); ATensor (T 4 4 I64 false); ATensor (T 5 5 F32 false)] [] [] [].
Example C14_convert_hypotheses_satisfiable :
  wfb ex_interp = true /\ losslessb F64 ex_interp = true /\
  safeb (MType F64) ex_interp = true /\ safeb (MTo (Some F64) None) ex_interp = true /\
  (exists o' n', meth_call F64 8 (MType F64) ex_interp 6 = Some (o', n') /\
                 map obs (leaves o') = [(0, F64, true); (1, F64, false); (2, I64, false); (3, F64, true); (4, I64, false); (5, F64, false)]%nat) /\
  (exists o' n', meth_call F64 8 (MTo (Some F64) None) ex_interp 6 = Some (o', n')).
Proof. vm_compute. repeat split; try reflexivity; eexists; eexists; try split; reflexivity. Qed.
