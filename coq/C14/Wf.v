(* C14 — well-formedness of stored operators (definitions only; executable, evaluated by the correspondence shards on
   the abstraction of every real operator, so the hypotheses of the theorems are checked against the library).

   An operator object is *stored* when it is what LinearOperator.__init__ leaves behind after the class's constructor
   ran: positional arguments as the constructor normalises them, every keyword the constructor forwards present in
   _kwargs (defaults included), names strictly sorted, differentiable / non-differentiable split by the value.  This
   is stated relative to the GENERATED signature table (gen/Ctors.v), not per class by hand. *)
From Coq Require Import List ZArith Bool Arith.
Import ListNotations.
Require Import C14.Types C14.gen.Ctors C14.Model.

(* ---- class skeletons: everything the constructors' isinstance / is_tensor tests can see *)
Inductive skel := KT (isf : bool) | KV | KOp (c : cls) (l : list skel).

Fixpoint sk (a : arg) : skel :=
  match a with
  | ATensor t => KT (is_float (tdt t))
  | AOther _ => KV
  | AOp c ch _ _ _ => KOp c ((fix go (l : list arg) : list skel := match l with [] => [] | x :: r => sk x :: go r end) ch)
  end.

Definition s_is_cls (c : cls) (s : skel) : bool := match s with KOp c' _ => cls_eqb c c' | _ => false end.
Definition s_diag_like (s : skel) : bool :=
  s_is_cls CDiag s || s_is_cls CConstantDiag s || s_is_cls CIdentity s || s_is_cls CKronDiag s.
Definition s_triangular_inst (s : skel) : bool := s_is_cls CTriangular s || s_diag_like s.
Definition s_tri_base (s : skel) : bool := s_triangular_inst s || s_is_cls CKronTriangular s.
Definition s_root_inst (s : skel) : bool := s_is_cls CRoot s || s_is_cls CChol s || s_is_cls CLowRankRoot s.
Definition s_is_tensor (s : skel) : bool := match s with KT _ => true | _ => false end.
Definition s_is_int_tensor (s : skel) : bool := match s with KT false => true | _ => false end.
Definition s_is_op (s : skel) : bool := match s with KOp _ _ => true | _ => false end.
Definition s_is_diff (s : skel) : bool := match s with KV => false | _ => true end.

(* TriangularLinearOperator: the stored base is an operator that is not itself triangular / diagonal; a
   BatchRepeat base has a triangular base of its own *)
Definition s_tri_ok (s : skel) : bool :=
  match s with
  | KOp c l =>
      if cls_eqb c CTriangular then false
      else if s_diag_like s then false
      else if cls_eqb c CBatchRepeat then match l with [b] => s_triangular_inst b | _ => false end
      else true
  | _ => false
  end.

(* the positional arguments are a fixed point of the constructor's normalisation *)
Definition s_norm_ok (c : cls) (l : list skel) : bool :=
  match c with
  | CRoot | CLowRankRoot | CSum | CPsdSum | CSumKron | CKron | CMatmul
  | CBlockDiag | CBlockInterleaved | CSumBatch => forallb s_is_op l
  | CKronTriangular => forallb s_triangular_inst l
  | CKronDiag => forallb s_diag_like l
  | CAddedDiag | CKronAddedDiag =>
      match l with
      | [a; b] => s_is_op a && s_is_op b && negb (s_diag_like a && s_diag_like b) && (s_diag_like a || s_diag_like b)
      | _ => false
      end
  | CLowRankRootAddedDiag =>
      match l with
      | [a; b] => (s_diag_like a && s_is_cls CLowRankRoot b) || (s_is_cls CLowRankRoot a && s_diag_like b)
      | _ => false
      end
  | CInterpolated =>
      match l with
      | [b; li; lv; ri; rv] => s_is_op b && s_is_tensor li && s_is_tensor lv && s_is_tensor ri && s_is_tensor rv
      | _ => false
      end
  | CTriangular => match l with [a] => s_tri_ok a | _ => false end
  | CChol => match l with [a] => s_tri_base a | _ => false end
  | CMul => match l with [a; b] => s_root_inst a && s_root_inst b | _ => false end
  | CConstantMul => match l with [_; k] => s_is_tensor k | _ => false end
  | CPermutation => match l with [p; q] => s_is_int_tensor p && s_is_int_tensor q | _ => false end
  | CCat => match l with [] => false | _ => true end
  | _ => true
  end.

(* ---- the signature table *)
Fixpoint znodupb (l : list Z) : bool :=
  match l with [] => true | x :: r => negb (zmem x r) && znodupb r end.
Definition pkw_names (s : cspec) : list Z :=
  flat_map (fun x => match x with (k, _, PKw) => [k] | _ => [] end) (cs_named s).
Definition has_default (x : Z * option value * pk) : bool :=
  match x with (_, Some _, _) => true | (_, None, PKw) => true | _ => false end.
Definition spec_okb (s : cspec) : bool :=
  znodupb (names_of (cs_named s)) && (if cs_varargs s then Nat.eqb (cs_npos s) 0 else true)
  && forallb has_default (cs_named s).

Fixpoint ssortedb (ks : list Z) : bool :=
  match ks with
  | [] => true
  | x :: r => match r with [] => true | y :: _ => Z.ltb x y && ssortedb r end
  end.
Definition keys {V} (l : list (Z * V)) : list Z := map fst l.

(* the dtype / device bookkeeping keywords (Identity: dtype, device; Cat: output_device) *)
Definition is_dt_key (k : Z) : bool := Z.eqb k k_dtype || Z.eqb k k_device || Z.eqb k k_output_device.

Definition node_okS (c : cls) (sch : list skel) (dn : list Z) (nd : list (Z * value)) : bool :=
  let s := spec_of c in
  let n := length sch - length dn in
  let ks := dn ++ keys nd in
  (length dn <=? length sch)
  && (if cs_varargs s then true else Nat.eqb n (cs_npos s))
  && ssortedb dn && ssortedb (keys nd) && forallb (fun k => negb (zmem k (keys nd))) dn
  && forallb s_is_diff (skipn n sch)
  && forallb (fun k => zmem k ks) (pkw_names s)
  && forallb (fun k => zmem k (pkw_names s) || (cs_varkw s && negb (zmem k (names_of (cs_named s))))) ks
  && s_norm_ok c (firstn n sch)
  && negb (cls_eqb c CBlockDiag && existsb s_diag_like (firstn n sch))
  && forallb (fun k => negb (is_dt_key k)) dn.       (* ... are never tensors / operators *)

Definition sk_list := fix go (l : list arg) : list skel := match l with [] => [] | x :: r => sk x :: go r end.
Definition node_okb (c : cls) (ch : list arg) (dn : list Z) (nd : list (Z * value)) : bool :=
  node_okS c (sk_list ch) dn nd.

(* every node of the tree is stored *)
Fixpoint wfb (a : arg) : bool :=
  match a with
  | ATensor _ | AOther _ => true
  | AOp c ch dn nd _ =>
      node_okb c ch dn nd
      && (fix go (l : list arg) : bool := match l with [] => true | x :: r => wfb x && go r end) ch
  end.
Definition wfb_list := fix go (l : list arg) : bool := match l with [] => true | x :: r => wfb x && go r end.

(* ---- attributes *)
Section Attrs.
Variable defdt : dt.
(* the attributes a rebuild gives the object: those the constructor derives from the DEFAULTS of the parameters it
   does not forward *)
Definition dflt_attrs (c : cls) : list (Z * value) :=
  const_attrs c ++
  flat_map (fun x => match x with
                     | (k, d, PAttr) => [(k, attr_val defdt c k (match d with Some v => v | None => VNone end))]
                     | _ => []
                     end) (cs_named (spec_of c)).

(* what any rebuild makes of a stored operator: every node keeps its stored arguments, attributes are reset *)
Fixpoint reset (a : arg) : arg :=
  match a with
  | AOp c ch dn nd _ =>
      AOp c ((fix go (l : list arg) : list arg := match l with [] => [] | x :: r => reset x :: go r end) ch) dn nd
          (dflt_attrs c)
  | _ => a
  end.
Definition reset_list := fix go (l : list arg) : list arg := match l with [] => [] | x :: r => reset x :: go r end.

Fixpoint kvl_eqb (a b : list (Z * value)) : bool :=
  match a, b with
  | [], [] => true
  | (k, v) :: r, (k', v') :: s => Z.eqb k k' && value_eqb v v' && kvl_eqb r s
  | _, _ => false
  end.
(* no node carries a flag that a rebuild would lose *)
Fixpoint losslessb (a : arg) : bool :=
  match a with
  | AOp c ch _ _ at_ =>
      kvl_eqb at_ (dflt_attrs c)
      && (fix go (l : list arg) : bool := match l with [] => true | x :: r => losslessb x && go r end) ch
  | _ => true
  end.
Definition losslessb_list := fix go (l : list arg) : bool := match l with [] => true | x :: r => losslessb x && go r end.
End Attrs.

(* parameters of a class that a rebuild silently resets *)
Definition lossy_params (c : cls) : list Z :=
  flat_map (fun x => match x with (k, _, PAttr) => [k] | _ => [] end) (cs_named (spec_of c)).
Definition lossy_table : list (cls * Z) :=
  flat_map (fun c => map (fun k => (c, k)) (lossy_params c)) lib_classes.

(* does representation() succeed: no non-tensor, non-operator value among the arguments it walks *)
Fixpoint no_otherb (a : arg) : bool :=
  match a with
  | ATensor _ => true
  | AOther _ => false
  | AOp _ ch _ _ _ => (fix go (l : list arg) : bool := match l with [] => true | x :: r => no_otherb x && go r end) ch
  end.
Definition no_otherb_list := fix go (l : list arg) : bool := match l with [] => true | x :: r => no_otherb x && go r end.
