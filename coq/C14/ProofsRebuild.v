(* C14 — the constructor applied to a stored operator's own arguments gives the operator back (attributes reset to
   what the defaults give), for every class of the generated signature table, every kwargs layout and any nesting;
   hence the flatten-and-rebuild round trip of the representation tree is the identity up to [reset]. *)
From Coq Require Import List ZArith Bool Arith Lia Sorted.
Import ListNotations.
Require Import C14.Types C14.gen.Ctors C14.Model C14.Wf C14.ProofsAssoc.

(* ------------------------------------------------------------------ small list facts *)
Lemma forallb_In {A} (f : A -> bool) l x : forallb f l = true -> In x l -> f x = true.
Proof. intros H Hx. rewrite forallb_forall in H. auto. Qed.

Lemma znodupb_nodup l : znodupb l = true -> NoDup l.
Proof.
  induction l as [|x r IH]; simpl; intros H; [constructor|].
  apply andb_prop in H as [H1 H2]. constructor; auto.
  intros Hin. apply zmem_in in Hin. rewrite Hin in H1. discriminate.
Qed.

Lemma sk_list_map l : sk_list l = map sk l.
Proof. induction l; simpl; congruence. Qed.
Lemma sk_op c ch dn nd at_ : sk (AOp c ch dn nd at_) = KOp c (sk_list ch).
Proof. reflexivity. Qed.

Lemma is_cls_sk c a : is_cls c a = s_is_cls c (sk a).
Proof. destruct a; reflexivity. Qed.
Lemma is_diag_like_sk a : is_diag_like a = s_diag_like (sk a).
Proof. unfold is_diag_like, s_diag_like. now rewrite !is_cls_sk. Qed.
Lemma is_triangular_inst_sk a : is_triangular_inst a = s_triangular_inst (sk a).
Proof. unfold is_triangular_inst, s_triangular_inst. now rewrite is_cls_sk, is_diag_like_sk. Qed.
Lemma is_tri_base_sk a : is_tri_base a = s_tri_base (sk a).
Proof. unfold is_tri_base, s_tri_base. now rewrite is_cls_sk, is_triangular_inst_sk. Qed.
Lemma is_root_inst_sk a : is_root_inst a = s_root_inst (sk a).
Proof. unfold is_root_inst, s_root_inst. now rewrite !is_cls_sk. Qed.
Lemma is_tensor_sk a : is_tensor a = s_is_tensor (sk a).
Proof. destruct a; reflexivity. Qed.
Lemma is_op_sk a : is_op a = s_is_op (sk a).
Proof. destruct a; reflexivity. Qed.
Lemma is_diff_sk a : is_diff a = s_is_diff (sk a).
Proof. destruct a; reflexivity. Qed.

Lemma forallb_sk (f : arg -> bool) (g : skel -> bool) l :
  (forall a, f a = g (sk a)) -> forallb f l = forallb g (map sk l).
Proof. intros H. induction l; simpl; [reflexivity|]. now rewrite H, IHl. Qed.
Lemma existsb_sk (f : arg -> bool) (g : skel -> bool) l :
  (forall a, f a = g (sk a)) -> existsb f l = existsb g (map sk l).
Proof. intros H. induction l; simpl; [reflexivity|]. now rewrite H, IHl. Qed.

Lemma map_opt_to_linop l : forallb is_op l = true -> map_opt to_linop l = Some l.
Proof.
  induction l as [|a r IH]; simpl; [reflexivity|]. intros H. apply andb_prop in H as [Ha Hr].
  rewrite (IH Hr). destruct a; simpl in *; try discriminate; reflexivity.
Qed.

(* ------------------------------------------------------------------ normalisation is idempotent on stored arguments *)
Lemma tri_norm_ok up a : s_tri_ok (sk a) = true -> tri_norm up a = Some a.
Proof.
  destruct a as [t|v|c ch dn nd at_]; simpl; try discriminate.
  rewrite <- !sk_op with (dn:=dn) (nd:=nd) (at_:=at_), <- is_diag_like_sk.
  destruct (cls_eqb c CTriangular); [discriminate|].
  destruct (is_diag_like (AOp c ch dn nd at_)); [discriminate|].
  destruct (cls_eqb c CBatchRepeat); [|reflexivity].
  destruct ch as [|b [|b2 r]]; simpl; try discriminate.
  rewrite <- is_triangular_inst_sk. intros ->. reflexivity.
Qed.

Lemma norm_pos_ok c named l : s_norm_ok c (map sk l) = true -> norm_pos c named l = Some l.
Proof.
  assert (OPS : forallb s_is_op (map sk l) = true -> map_opt to_linop l = Some l).
  { intros H. apply map_opt_to_linop. now rewrite (forallb_sk is_op s_is_op l is_op_sk). }
  destruct c; simpl; auto.
  - (* Triangular *)
    destruct l as [|a [|b r]]; simpl; try discriminate. intros H. now rewrite (tri_norm_ok _ _ H).
  - (* Chol *)
    destruct l as [|a [|b r]]; simpl; try discriminate. rewrite <- is_tri_base_sk. now intros ->.
  - (* KronTriangular *)
    rewrite <- (forallb_sk is_triangular_inst s_triangular_inst l is_triangular_inst_sk). now intros ->.
  - (* KronDiag *)
    rewrite <- (forallb_sk is_diag_like s_diag_like l is_diag_like_sk). now intros ->.
  - (* KronAddedDiag *)
    destruct l as [|a [|b [|b2 r]]]; simpl; try discriminate.
    rewrite <- !is_op_sk, <- !is_diag_like_sk. intros H.
    apply andb_prop in H as [H H4]. apply andb_prop in H as [H H3]. apply andb_prop in H as [H1 H2].
    destruct a; simpl in H1; try discriminate. destruct b; simpl in H2; try discriminate. simpl.
    apply negb_true_iff in H3. rewrite H3, H4. reflexivity.
  - (* AddedDiag *)
    destruct l as [|a [|b [|b2 r]]]; simpl; try discriminate.
    rewrite <- !is_op_sk, <- !is_diag_like_sk. intros H.
    apply andb_prop in H as [H H4]. apply andb_prop in H as [H H3]. apply andb_prop in H as [H1 H2].
    destruct a; simpl in H1; try discriminate. destruct b; simpl in H2; try discriminate. simpl.
    apply negb_true_iff in H3. rewrite H3, H4. reflexivity.
  - (* LowRankRootAddedDiag *)
    destruct l as [|a [|b [|b2 r]]]; simpl; try discriminate.
    rewrite <- !is_cls_sk, <- !is_diag_like_sk. now intros ->.
  - (* Mul *)
    destruct l as [|a [|b [|b2 r]]]; simpl; try discriminate. rewrite <- !is_root_inst_sk. now intros ->.
  - (* ConstantMul *)
    destruct l as [|a [|b [|b2 r]]]; simpl; try discriminate. rewrite <- is_tensor_sk. now intros ->.
  - (* Cat *)
    destruct l; [discriminate|reflexivity].
  - (* Interpolated *)
    destruct l as [|b [|li [|lv [|ri [|rv [|x r]]]]]]; simpl; try discriminate.
    rewrite <- is_op_sk, <- !is_tensor_sk. intros H.
    apply andb_prop in H as [H H5]. apply andb_prop in H as [H H4]. apply andb_prop in H as [H H3].
    apply andb_prop in H as [H1 H2]. rewrite H2, H3, H4, H5. simpl.
    destruct b; simpl in H1; try discriminate; reflexivity.
  - (* Permutation *)
    destruct l as [|p [|q [|x r]]]; simpl; try discriminate.
    destruct p as [p| |]; simpl; try discriminate. destruct q as [q| |]; simpl; try (rewrite andb_false_r; discriminate).
    destruct (is_float (tdt p)); simpl; [discriminate|]. destruct (is_float (tdt q)); simpl; [discriminate|reflexivity].
Qed.

(* ------------------------------------------------------------------ Python call binding of stored arguments *)
Definition dflt_of (d : option value) : value := match d with Some v => v | None => VNone end.
Definition stored_named (s : cspec) (kw : list (Z * arg)) : list (Z * arg * pk) :=
  map (fun x => match x with
                | (k, d, p) => (k, match lookup k kw with Some v => v | None => AOther (dflt_of d) end, p)
                end) (cs_named s).

Lemma bind_named_nil kw ps :
  (forall k d p, In (k, d, p) ps -> has_key k kw = true \/ d <> None) ->
  bind_named ps [] kw =
  Some (map (fun x => match x with
                      | (k, d, p) => (k, match lookup k kw with Some v => v | None => AOther (dflt_of d) end, p)
                      end) ps).
Proof.
  induction ps as [|[[k d] p] r IH]; simpl; intros H; [reflexivity|].
  rewrite IH by (intros; eapply H; right; eauto).
  destruct (H k d p (or_introl eq_refl)) as [Hk|Hd].
  - unfold has_key in Hk. destruct (lookup k kw); [reflexivity|discriminate].
  - destruct (lookup k kw); [reflexivity|]. destruct d; [reflexivity|congruence].
Qed.

Definition extra_of (s : cspec) (kw : list (Z * arg)) : list (Z * arg) :=
  filter (fun kv => negb (zmem (fst kv) (names_of (cs_named s)))) kw.

Lemma bind_stored s args kw :
  spec_okb s = true ->
  (cs_varargs s = false -> length args = cs_npos s) ->
  (forall k, In k (pkw_names s) -> has_key k kw = true) ->
  (forall k, In k (keys kw) -> In k (pkw_names s) \/ (cs_varkw s = true /\ ~ In k (names_of (cs_named s)))) ->
  bind s args kw = Some (args, stored_named s kw, extra_of s kw).
Proof.
  intros OK LEN PKW KEYS. unfold spec_okb in OK.
  apply andb_prop in OK as [OK DF]. apply andb_prop in OK as [ND VA].
  unfold bind.
  assert (L1 : (length args <? cs_npos s) = false).
  { apply Nat.ltb_ge. destruct (cs_varargs s); [apply Nat.eqb_eq in VA; lia|rewrite LEN by reflexivity; lia]. }
  rewrite L1.
  assert (REST : (if cs_varargs s then [] else skipn (cs_npos s) args) = []).
  { destruct (cs_varargs s); [reflexivity|]. rewrite <- LEN by reflexivity. apply skipn_all. }
  assert (PPOS : (if cs_varargs s then args else firstn (cs_npos s) args) = args).
  { destruct (cs_varargs s); [reflexivity|]. rewrite <- LEN by reflexivity. apply firstn_all. }
  rewrite REST, PPOS. simpl length. replace (length (cs_named s) <? 0) with false by (symmetry; apply Nat.ltb_ge; lia).
  rewrite bind_named_nil.
  2:{ intros k d p Hin. destruct p.
      - left. apply PKW. unfold pkw_names. apply in_flat_map. exists (k, d, PKw). split; [exact Hin|now left].
      - right. pose proof (forallb_In _ _ _ DF Hin) as Hd. destruct d; [discriminate|discriminate Hd].
      - right. pose proof (forallb_In _ _ _ DF Hin) as Hd. destruct d; [discriminate|discriminate Hd]. }
  fold (stored_named s kw). fold (extra_of s kw).
  destruct (extra_of s kw) as [|[k v] r] eqn:E; [reflexivity|].
  assert (Hin : In (k, v) (extra_of s kw)) by (rewrite E; now left).
  unfold extra_of in Hin. apply filter_In in Hin as [Hin Hn]. simpl in Hn.
  assert (Hk : In k (keys kw)) by (unfold keys; apply in_map_iff; exists (k, v); auto).
  destruct (KEYS k Hk) as [Hp|[Hv _]].
  - exfalso. apply negb_true_iff in Hn. assert (In k (names_of (cs_named s))).
    { unfold pkw_names in Hp. apply in_flat_map in Hp as [[[k' d] p] [Hx Hy]]. destruct p; simpl in Hy; try tauto.
      destruct Hy as [<-|[]]. unfold names_of. apply in_map_iff. exists (k', d, PKw). auto. }
    apply zmem_in in H. congruence.
  - now rewrite Hv.
Qed.

(* ------------------------------------------------------------------ LinearOperator.__init__ on stored kwargs *)
Lemma fwd_kw_stored s kw :
  fwd_kw (stored_named s kw) =
  flat_map (fun x => match x with
                     | (k, d, PKw) => [(k, match lookup k kw with Some v => v | None => AOther (dflt_of d) end)]
                     | _ => []
                     end) (cs_named s).
Proof.
  unfold fwd_kw, stored_named. induction (cs_named s) as [|[[k d] p] r IH]; simpl; [reflexivity|].
  rewrite IH. destruct p; reflexivity.
Qed.

Lemma keys_fwd_kw s kw : keys (fwd_kw (stored_named s kw)) = pkw_names s.
Proof.
  rewrite fwd_kw_stored. unfold pkw_names, keys. induction (cs_named s) as [|[[k d] p] r IH]; simpl; [reflexivity|].
  rewrite map_app, IH. destruct p; reflexivity.
Qed.

Lemma pkw_names_sub s k : In k (pkw_names s) -> In k (names_of (cs_named s)).
Proof.
  unfold pkw_names, names_of. intros H. apply in_flat_map in H as [[[k' d] p] [Hx Hy]].
  destruct p; simpl in Hy; try tauto. destruct Hy as [<-|[]]. apply in_map_iff. exists (k', d, PKw). auto.
Qed.

Lemma nodup_pkw s : NoDup (names_of (cs_named s)) -> NoDup (pkw_names s).
Proof.
  unfold names_of, pkw_names. induction (cs_named s) as [|[[k d] p] r IH]; simpl; intros N; [constructor|].
  inversion N; subst. destruct p; simpl; auto. constructor; auto.
  intros Hin. apply H1. apply in_flat_map in Hin as [[[k' d'] p'] [Hx Hy]].
  destruct p'; simpl in Hy; try tauto. destruct Hy as [<-|[]]. apply in_map_iff. exists (k', d', PKw). auto.
Qed.

Lemma lookup_fwd_kw s kw k :
  NoDup (names_of (cs_named s)) ->
  lookup k (fwd_kw (stored_named s kw)) =
  if zmem k (pkw_names s)
  then match lookup k kw with
       | Some v => Some v
       | None => lookup k (fwd_kw (stored_named s kw))
       end
  else None.
Proof.
  intros _. destruct (zmem k (pkw_names s)) eqn:M.
  - destruct (lookup k kw) eqn:L; [|reflexivity].
    rewrite fwd_kw_stored. unfold pkw_names in M. apply zmem_in in M.
    induction (cs_named s) as [|[[k' d] p] r IH]; simpl in *; [tauto|].
    rewrite lookup_app. apply in_app_or in M. destruct p; simpl in *.
    + destruct (Z.eqb_spec k k').
      * subst. now rewrite L.
      * destruct M as [[->|[]]|M]; [congruence|]. auto.
    + destruct M as [[]|M]. auto.
    + destruct M as [[]|M]. auto.
  - apply lookup_notin. rewrite keys_fwd_kw. intros H. apply zmem_in in H. congruence.
Qed.

Lemma keys_filter {V} (f : Z * V -> bool) (l : list (Z * V)) k : In k (keys (filter f l)) -> In k (keys l).
Proof.
  unfold keys. intros H. apply in_map_iff in H as [x [<- Hx]]. apply filter_In in Hx as [Hx _]. apply in_map. exact Hx.
Qed.

Lemma nodup_keys_filter {V} (f : Z * V -> bool) (l : list (Z * V)) : NoDup (keys l) -> NoDup (keys (filter f l)).
Proof.
  induction l as [|x r IH]; simpl; intros N; [constructor|]. inversion N; subst.
  destruct (f x); simpl; auto. constructor; auto. intros H. apply H1. eapply keys_filter; eauto.
Qed.

Lemma lookup_filter_key {V} (f : Z -> bool) (l : list (Z * V)) k :
  lookup k (filter (fun kv => f (fst kv)) l) = if f k then lookup k l else None.
Proof.
  induction l as [|[k' v] r IH]; simpl; [destruct (f k); reflexivity|].
  destruct (f k') eqn:F; simpl.
  - destruct (Z.eqb_spec k k'); [subst; now rewrite F|exact IH].
  - rewrite IH. destruct (Z.eqb_spec k k'); [subst; now rewrite F|reflexivity].
Qed.

(* the kwargs handed to LinearOperator.__init__ have the lookup function of the stored kwargs and distinct names *)
Lemma fwd_lookup s kw k :
  NoDup (names_of (cs_named s)) ->
  (forall k, In k (pkw_names s) -> has_key k kw = true) ->
  (forall k, In k (keys kw) -> In k (pkw_names s) \/ ~ In k (names_of (cs_named s))) ->
  lookup k (fwd_kw (stored_named s kw) ++ extra_of s kw) = lookup k kw.
Proof.
  intros ND PKW KEYS. rewrite lookup_app, (lookup_fwd_kw s kw k ND).
  destruct (zmem k (pkw_names s)) eqn:M.
  - apply zmem_in in M. specialize (PKW k M). unfold has_key in PKW.
    destruct (lookup k kw); [reflexivity|discriminate].
  - unfold extra_of. rewrite (lookup_filter_key (fun k => negb (zmem k (names_of (cs_named s))))).
    destruct (zmem k (names_of (cs_named s))) eqn:N; simpl; [|reflexivity].
    symmetry. apply lookup_notin. intros Hin. destruct (KEYS k Hin) as [H|H].
    + apply zmem_in in H. congruence.
    + apply zmem_in in N. contradiction.
Qed.

Lemma fwd_nodup s kw :
  NoDup (names_of (cs_named s)) -> NoDup (keys kw) -> NoDup (keys (fwd_kw (stored_named s kw) ++ extra_of s kw)).
Proof.
  intros ND NK. unfold keys. rewrite map_app. fold (keys (fwd_kw (stored_named s kw))). fold (keys (extra_of s kw)).
  rewrite keys_fwd_kw.
  assert (D : forall k, In k (pkw_names s) -> ~ In k (keys (extra_of s kw))).
  { intros k Hp Hx. unfold extra_of, keys in Hx. apply in_map_iff in Hx as [[k' v] [<- Hx]].
    apply filter_In in Hx as [_ Hn]. simpl in *. apply negb_true_iff in Hn.
    apply pkw_names_sub in Hp. apply zmem_in in Hp. congruence. }
  assert (N1 := nodup_pkw s ND). assert (N2 : NoDup (keys (extra_of s kw))) by (apply nodup_keys_filter; exact NK).
  revert N1 D. generalize (pkw_names s). induction l as [|x r IH]; simpl; intros N1 D; [exact N2|].
  inversion N1; subst. constructor.
  - intros H. apply in_app_or in H as [H|H]; [contradiction|]. eapply D; [left; reflexivity|exact H].
  - apply IH; auto.
Qed.

(* sorting and splitting the kwargs gives back the stored lists *)
Lemma split_sorted (dkw : list (Z * arg)) (nd : list (Z * value)) (kw' : list (Z * arg)) :
  ss dkw -> ss nd -> Forall (fun kv => is_diff (snd kv) = true) dkw ->
  (forall k, In k (keys dkw) -> ~ In k (keys nd)) ->
  NoDup (keys kw') -> (forall k, lookup k kw' = lookup k (dkw ++ lift nd)) ->
  filter (fun kv => is_diff (snd kv)) (isort kw') = dkw /\ unlift (isort kw') = nd.
Proof.
  intros S1 S2 FD DJ ND EQ.
  assert (SS : ss (isort kw')) by (apply isort_ss; exact ND).
  assert (LK : forall k, lookup k (isort kw') = lookup k (dkw ++ lift nd)) by (intros; now rewrite lookup_isort).
  assert (DL : forall k v, lookup k dkw = Some v -> is_diff v = true).
  { intros k v H. clear -FD H. induction dkw as [|[k' v'] r IH]; simpl in *; [discriminate|].
    inversion FD; subst. destruct (Z.eqb k k'); [inversion H; subst; auto|auto]. }
  split.
  - apply ss_ext; [apply ss_filter; exact SS|exact S1|].
    intros k. rewrite (lookup_filter_ss is_diff k _ SS), LK, lookup_app, lookup_lift.
    destruct (lookup k dkw) as [v|] eqn:L.
    + now rewrite (DL _ _ L).
    + destruct (lookup k nd); reflexivity.
  - rewrite unlift_filter. replace (filter (fun kv => negb (is_diff (snd kv))) (isort kw')) with (lift nd);
      [apply unlift_lift|].
    symmetry. apply ss_ext; [apply ss_filter; exact SS|apply ss_lift; exact S2|].
    intros k. rewrite (lookup_filter_ss (fun v => negb (is_diff v)) k _ SS), LK, lookup_app, lookup_lift.
    destruct (lookup k dkw) as [v|] eqn:L.
    + rewrite (DL _ _ L). simpl. symmetry. rewrite <- lookup_lift. apply lookup_notin. rewrite keys_lift.
      apply DJ. eapply lookup_in; eauto.
    + destruct (lookup k nd); reflexivity.
Qed.

(* ------------------------------------------------------------------ the constructor on a stored node *)
Lemma keys_combine {B} (l1 : list Z) (l2 : list B) : length l1 <= length l2 -> keys (combine l1 l2) = l1.
Proof.
  revert l2; induction l1 as [|x r IH]; intros [|y s] H; simpl in *; try reflexivity; try lia.
  f_equal. apply IH. lia.
Qed.
Lemma snd_combine {B} (l1 : list Z) (l2 : list B) : length l1 = length l2 -> map snd (combine l1 l2) = l2.
Proof.
  revert l2; induction l1 as [|x r IH]; intros [|y s] H; simpl in *; try reflexivity; try discriminate.
  f_equal. apply IH. lia.
Qed.
Lemma nodup_app_intro (l1 l2 : list Z) :
  NoDup l1 -> NoDup l2 -> (forall k, In k l1 -> ~ In k l2) -> NoDup (l1 ++ l2).
Proof.
  induction l1 as [|x r IH]; simpl; intros N1 N2 D; [exact N2|]. inversion N1; subst. constructor.
  - intros H. apply in_app_or in H as [H|H]; [contradiction|]. eapply D; [left; reflexivity|exact H].
  - apply IH; auto.
Qed.
Lemma ssortedb_nodup (l : list Z) : ssortedb l = true -> NoDup l.
Proof.
  intros H. assert (S : ss (map (fun k => (k, tt)) l)).
  { apply ssortedb_ss. unfold keys. rewrite map_map. simpl. now rewrite map_id. }
  apply ss_nodup in S. unfold keys in S. rewrite map_map in S. simpl in S. now rewrite map_id in S.
Qed.

Section WithDef.
Variable defdt : dt.

Lemma attrs_from_stored c (s : cspec) kw :
  NoDup (names_of (cs_named s)) ->
  (forall k, In k (keys kw) -> In k (pkw_names s) \/ ~ In k (names_of (cs_named s))) ->
  attrs_from defdt c (stored_named s kw) =
  flat_map (fun x => match x with
                     | (k, d, PAttr) => [(k, attr_val defdt c k (match d with Some v => v | None => VNone end))]
                     | _ => []
                     end) (cs_named s).
Proof.
  intros ND KEYS. unfold attrs_from, stored_named.
  assert (G : forall ps, (forall k d, In (k, d, PAttr) ps -> lookup k kw = None) ->
     flat_map (fun x : Z * arg * pk => match x with (k, v, PAttr) => [(k, attr_val defdt c k (val_of v))] | _ => [] end)
       (map (fun x : Z * option value * pk => match x with
              | (k, d, p) => (k, match lookup k kw with Some v => v | None => AOther (dflt_of d) end, p) end) ps) =
     flat_map (fun x : Z * option value * pk => match x with
              | (k, d, PAttr) => [(k, attr_val defdt c k (match d with Some v => v | None => VNone end))]
              | _ => [] end) ps).
  { induction ps as [|[[k d] p] r IH]; simpl; intros H; [reflexivity|].
    rewrite IH by (intros; eapply H; right; eauto).
    destruct p; try reflexivity. rewrite (H k d (or_introl eq_refl)). reflexivity. }
  apply G. intros k d Hin. apply lookup_notin. intros Hk.
  assert (Hn : In k (names_of (cs_named s))) by (unfold names_of; apply in_map_iff; exists (k, d, PAttr); auto).
  destruct (KEYS k Hk) as [Hp|Hp]; [|contradiction].
  (* k would be both a PKw and a PAttr name *)
  clear -ND Hin Hp. unfold pkw_names, names_of in *.
  induction (cs_named s) as [|[[k' d'] p'] r IH]; simpl in *; [tauto|].
  inversion ND; subst. destruct Hin as [E|Hin].
  - inversion E; subst. simpl in Hp. apply H1.
    apply in_flat_map in Hp as [[[k2 d2] p2] [Hx Hy]]. destruct p2; simpl in Hy; try tauto. destruct Hy as [<-|[]].
    apply in_map_iff. exists (k2, d2, PKw). auto.
  - apply in_app_or in Hp as [Hp|Hp].
    + destruct p'; simpl in Hp; try tauto. destruct Hp as [->|[]]. apply H1. apply in_map_iff. exists (k, d, PAttr). auto.
    + auto.
Qed.

Lemma node_ok_parts c ch dn nd : node_okb c ch dn nd = true ->
  let s := spec_of c in let n := length ch - length dn in
  length dn <= length ch /\
  (cs_varargs s = false -> n = cs_npos s) /\
  ssortedb dn = true /\ ssortedb (keys nd) = true /\ (forall k, In k dn -> ~ In k (keys nd)) /\
  forallb is_diff (skipn n ch) = true /\
  (forall k, In k (pkw_names s) -> In k (dn ++ keys nd)) /\
  (forall k, In k (dn ++ keys nd) -> In k (pkw_names s) \/ (cs_varkw s = true /\ ~ In k (names_of (cs_named s)))) /\
  s_norm_ok c (map sk (firstn n ch)) = true /\
  (cls_eqb c CBlockDiag && existsb is_diag_like (firstn n ch)) = false /\
  forallb (fun k => negb (is_dt_key k)) dn = true.
Proof.
  unfold node_okb, node_okS. rewrite sk_list_map, map_length. intros H.
  apply andb_prop in H as [H HDT].
  repeat (apply andb_prop in H as [H ?]).
  cbv zeta. repeat split.
  - now apply Nat.leb_le.
  - intros V. rewrite V in *. now apply Nat.eqb_eq.
  - assumption.
  - assumption.
  - intros k Hk Hn. pose proof (forallb_In _ _ _ H5 Hk) as E. simpl in E. apply negb_true_iff in E.
    apply zmem_in in Hn. congruence.
  - rewrite skipn_map in H4. now rewrite (forallb_sk is_diff s_is_diff _ is_diff_sk).
  - intros k Hk. pose proof (forallb_In _ _ _ H3 Hk) as E. now apply zmem_in in E.
  - intros k Hk. pose proof (forallb_In _ _ _ H2 Hk) as E. simpl in E. apply orb_prop in E as [E|E].
    + left. now apply zmem_in.
    + right. apply andb_prop in E as [E1 E2]. split; [exact E1|]. apply negb_true_iff in E2. intros Hn.
      apply zmem_in in Hn. congruence.
  - now rewrite firstn_map in H1.
  - apply negb_true_iff in H0. rewrite firstn_map in H0.
    now rewrite (existsb_sk is_diag_like s_diag_like _ is_diag_like_sk).
  - exact HDT.
Qed.

(* the keyword arguments may be passed in ANY order: only the (name -> value) function matters *)
Lemma ctor_stored_gen c ch dn nd kw :
  spec_okb (spec_of c) = true -> node_okb c ch dn nd = true ->
  NoDup (keys kw) -> (forall k, lookup k kw = lookup k (dkw_of ch dn ++ lift nd)) ->
  ctor defdt c (args_of ch dn) kw = Some (AOp c ch dn nd (dflt_attrs defdt c)).
Proof.
  intros SOK NOK NKW LKW. pose proof (node_ok_parts _ _ _ _ NOK) as P. cbv zeta in P.
  destruct P as (LEN & NPOS & SD & SN & DJ & DIFF & PKW & KEYS & NORM & BD & _).
  set (s := spec_of c) in *. set (n := length ch - length dn) in *.
  assert (ND : NoDup (names_of (cs_named s))).
  { unfold spec_okb in SOK. apply andb_prop in SOK as [SOK _]. apply andb_prop in SOK as [SOK _]. now apply znodupb_nodup. }
  assert (LSK : length (skipn n ch) = length dn) by (rewrite skipn_length; unfold n; lia).
  assert (KDKW : keys (dkw_of ch dn) = dn).
  { unfold dkw_of, nargs. fold n. apply keys_combine. lia. }
  assert (KST : keys (dkw_of ch dn ++ lift nd) = dn ++ keys nd).
  { unfold keys at 1. rewrite map_app. fold (keys (dkw_of ch dn)). fold (keys (lift nd)). now rewrite KDKW, keys_lift. }
  assert (KIN : forall k, In k (keys kw) <-> In k (dn ++ keys nd)).
  { intros k. rewrite <- KST. split; intros H.
    - apply in_lookup in H as [v Hv]. rewrite LKW in Hv. eapply lookup_in; eauto.
    - apply in_lookup in H as [v Hv]. rewrite <- LKW in Hv. eapply lookup_in; eauto. }
  unfold ctor. fold s.
  rewrite (bind_stored s (args_of ch dn) kw SOK).
  2:{ intros V. unfold args_of, nargs. fold n. rewrite firstn_length. rewrite <- (NPOS V). unfold n. lia. }
  2:{ intros k Hk. apply has_key_in. apply KIN. auto. }
  2:{ intros k Hk. apply KIN in Hk. auto. }
  unfold args_of at 1, nargs. fold n. rewrite BD.
  unfold args_of, nargs. fold n. rewrite (norm_pos_ok c _ _ NORM).
  f_equal. unfold base_init.
  assert (KEYS' : forall k, In k (keys kw) -> In k (pkw_names s) \/ ~ In k (names_of (cs_named s))).
  { intros k Hk. apply KIN in Hk. destruct (KEYS k Hk) as [H|[_ H]]; auto. }
  destruct (split_sorted (dkw_of ch dn) nd (fwd_kw (stored_named s kw) ++ extra_of s kw)) as [E1 E2].
  - apply ssortedb_ss. now rewrite KDKW.
  - now apply ssortedb_ss.
  - unfold dkw_of, nargs. fold n. apply Forall_forall. intros [k v] Hin. simpl.
    apply in_combine_r in Hin. eapply forallb_In; eauto.
  - intros k Hk. rewrite KDKW in Hk. auto.
  - apply fwd_nodup; auto.
  - intros k. rewrite <- LKW. apply fwd_lookup; auto. intros k0 Hk0. apply has_key_in. apply KIN. auto.
  - rewrite E1, E2. f_equal.
    + unfold dkw_of, nargs. fold n. rewrite snd_combine by lia. apply firstn_skipn.
    + exact KDKW.
    + unfold dflt_attrs. fold s. f_equal. apply attrs_from_stored; auto.
Qed.

Lemma stored_kw_nodup c ch dn nd : node_okb c ch dn nd = true -> NoDup (keys (dkw_of ch dn ++ lift nd)).
Proof.
  intros NOK. pose proof (node_ok_parts _ _ _ _ NOK) as P. cbv zeta in P.
  destruct P as (LEN & NPOS & SD & SN & DJ & _).
  assert (KDKW : keys (dkw_of ch dn) = dn).
  { unfold dkw_of, nargs. apply keys_combine. rewrite skipn_length. lia. }
  unfold keys. rewrite map_app. fold (keys (dkw_of ch dn)). fold (keys (lift nd)). rewrite KDKW, keys_lift.
  apply nodup_app_intro; auto using ssortedb_nodup.
Qed.

Lemma ctor_stored c ch dn nd :
  spec_okb (spec_of c) = true -> node_okb c ch dn nd = true ->
  ctor defdt c (args_of ch dn) (dkw_of ch dn ++ lift nd) = Some (AOp c ch dn nd (dflt_attrs defdt c)).
Proof.
  intros SOK NOK. apply ctor_stored_gen; auto. eapply stored_kw_nodup; eauto.
Qed.

(* ------------------------------------------------------------------ nested induction over operator trees *)
Section Ind.
Variable P : arg -> Prop.
Hypothesis Pt : forall t, P (ATensor t).
Hypothesis Po : forall v, P (AOther v).
Hypothesis Pn : forall c ch dn nd at_, Forall P ch -> P (AOp c ch dn nd at_).
Fixpoint arg_ind' (a : arg) : P a :=
  match a with
  | ATensor t => Pt t
  | AOther v => Po v
  | AOp c ch dn nd at_ =>
      Pn c ch dn nd at_
        ((fix go (l : list arg) : Forall P l :=
            match l with [] => Forall_nil _ | x :: r => Forall_cons _ (arg_ind' x) (go r) end) ch)
  end.
End Ind.

(* the generated signature table is well formed (finite table, re-checked for the regenerated file) *)
Lemma spec_ok_all c : spec_okb (spec_of c) = true.
Proof. destruct c; vm_compute; reflexivity. Qed.

Lemma repr_op c ch dn nd at_ : repr (AOp c ch dn nd at_) = repr_list ch.
Proof. reflexivity. Qed.
Lemma size_op c ch dn nd at_ : size (AOp c ch dn nd at_) = size_list ch.
Proof. reflexivity. Qed.
Lemma mk_op c ch dn nd at_ k : mk (AOp c ch dn nd at_) k = Sub k (size_list ch) c (mk_list ch 0) dn nd.
Proof. reflexivity. Qed.
Lemma call_sub start len c chs dn nd flat :
  call defdt (Sub start len c chs dn nd) flat =
  match call_list defdt (slice flat start len) chs with
  | Some un => ctor defdt c (args_of un dn) (dkw_of un dn ++ lift nd)
  | None => None
  end.
Proof. reflexivity. Qed.
Lemma reset_op c ch dn nd at_ : reset defdt (AOp c ch dn nd at_) = AOp c (reset_list defdt ch) dn nd (dflt_attrs defdt c).
Proof. reflexivity. Qed.
Lemma wfb_op c ch dn nd at_ : wfb (AOp c ch dn nd at_) = node_okb c ch dn nd && wfb_list ch.
Proof. reflexivity. Qed.

Lemma repr_size a : forall flat, repr a = Some flat -> length flat = size a.
Proof.
  induction a using arg_ind'; intros flat E.
  - inversion E; reflexivity.
  - discriminate.
  - rewrite repr_op in E. rewrite size_op. revert flat E.
    induction H as [|x r Hx Hr IH]; simpl; intros flat E; [inversion E; reflexivity|].
    destruct (repr x) as [u|] eqn:Ex; [|discriminate]. destruct (repr_list r) as [v|] eqn:Er; [|discriminate].
    inversion E; subst. rewrite app_length. rewrite (Hx _ eq_refl), (IH _ eq_refl). reflexivity.
Qed.

Lemma sk_reset a : sk (reset defdt a) = sk a.
Proof.
  induction a using arg_ind'; try reflexivity.
  rewrite reset_op, !sk_op. f_equal. induction H as [|x r Hx Hr IH]; simpl; [reflexivity|]. now rewrite Hx, IH.
Qed.
Lemma sk_list_reset l : sk_list (reset_list defdt l) = sk_list l.
Proof. induction l; simpl; [reflexivity|]. now rewrite sk_reset, IHl. Qed.
Lemma node_okb_reset c ch dn nd : node_okb c (reset_list defdt ch) dn nd = node_okb c ch dn nd.
Proof. unfold node_okb. now rewrite sk_list_reset. Qed.

(* the flat representation of [a] sits at offset k inside the context: the tree built with counter k rebuilds it *)
Lemma call_mk a : wfb a = true -> forall k pre post flat,
  repr a = Some flat -> length pre = k -> call defdt (mk a k) (pre ++ flat ++ post) = Some (reset defdt a).
Proof.
  induction a using arg_ind'; intros W k pre post flat E L.
  - simpl in *. inversion E; subst. rewrite nth_error_app2 by lia. now rewrite Nat.sub_diag.
  - discriminate.
  - rewrite mk_op, call_sub, reset_op. rewrite repr_op in E. rewrite wfb_op in W. apply andb_prop in W as [NOK WL].
    assert (Hs : slice (pre ++ flat ++ post) k (size_list ch) = flat).
    { unfold slice. subst k. rewrite skipn_app, skipn_all, Nat.sub_diag. simpl.
      rewrite <- (size_op c ch dn nd at_).
      rewrite <- (repr_size (AOp c ch dn nd at_) flat) by (rewrite repr_op; exact E).
      rewrite firstn_app, firstn_all, Nat.sub_diag. simpl. now rewrite app_nil_r. }
    rewrite Hs. clear Hs L pre post k.
    assert (G : forall pre0 post0, call_list defdt (pre0 ++ flat ++ post0) (mk_list ch (length pre0)) = Some (reset_list defdt ch)).
    { clear NOK. revert flat E WL. induction H as [|x r Hx Hr IH]; intros flat E WL pre0 post0; [reflexivity|].
      simpl in E. destruct (repr x) as [u|] eqn:Ex; [|discriminate]. destruct (repr_list r) as [v|] eqn:Er; [|discriminate].
      inversion E; subst. simpl in WL. apply andb_prop in WL as [Wx Wr]. simpl.
      rewrite <- app_assoc. rewrite (Hx Wx (length pre0) pre0 (v ++ post0) u eq_refl eq_refl).
      specialize (IH v eq_refl Wr (pre0 ++ u) post0).
      rewrite app_length in IH. rewrite <- (repr_size x u Ex).
      rewrite <- app_assoc in IH. rewrite IH. reflexivity. }
    specialize (G [] []). simpl in G. rewrite app_nil_r in G. rewrite G.
    apply ctor_stored; [apply spec_ok_all|]. now rewrite node_okb_reset.
Qed.

(* op.representation_tree()( *op.representation() ) *)
Theorem rebuild_reset o : wfb o = true -> no_otherb o = true -> rebuild defdt o = Some (reset defdt o).
Proof.
  intros W NO. unfold rebuild.
  assert (R : exists flat, repr o = Some flat).
  { clear W. induction o using arg_ind'; [eexists; reflexivity|discriminate|].
    rewrite repr_op. simpl in NO. fold no_otherb_list in NO.
    induction H as [|x r Hx Hr IH]; [eexists; reflexivity|].
    simpl in NO. apply andb_prop in NO as [N1 N2]. destruct (Hx N1) as [u Eu]. destruct (IH N2) as [v Ev].
    simpl. rewrite Eu, Ev. eexists; reflexivity. }
  destruct R as [flat E]. rewrite E.
  pose proof (call_mk o W 0 [] [] flat E eq_refl) as H. simpl in H. now rewrite app_nil_r in H.
Qed.

(* representation() raises exactly when some argument it walks is neither a tensor nor an operator *)
Theorem repr_error_exact o : repr o = None <-> no_otherb o = false.
Proof.
  induction o using arg_ind'.
  - split; discriminate.
  - split; reflexivity.
  - rewrite repr_op. simpl. fold no_otherb_list.
    induction H as [|x r Hx Hr IH]; simpl; [split; discriminate|].
    destruct (repr x) as [u|] eqn:Ex.
    + destruct (no_otherb x) eqn:Nx; [|destruct Hx as [_ Hx]; discriminate (Hx eq_refl)].
      simpl. destruct (repr_list r) as [v|] eqn:Er.
      * split; [discriminate|]. intros N. apply IH in N. discriminate.
      * split; [intros _; now apply IH|reflexivity].
    + destruct Hx as [Hx _]. rewrite (Hx eq_refl). simpl. split; reflexivity.
Qed.

(* reset is the identity exactly on operators that carry no lossy flag *)
Lemma kvl_eqb_eq a b : kvl_eqb a b = true -> a = b.
Proof.
  revert b; induction a as [|[k v] r IH]; intros [|[k' v'] s]; simpl; try discriminate; [reflexivity|].
  intros H. apply andb_prop in H as [H H3]. apply andb_prop in H as [H1 H2].
  apply Z.eqb_eq in H1. subst. f_equal; [|auto]. f_equal.
  clear -H2. destruct v, v'; simpl in H2; try discriminate; try reflexivity.
  - apply Z.eqb_eq in H2. congruence.
  - apply Bool.eqb_prop in H2. congruence.
  - f_equal. revert l0 H2. induction l as [|x r IH]; intros [|y s]; simpl; try discriminate; [reflexivity|].
    intros H. apply andb_prop in H as [H1 H2]. apply Z.eqb_eq in H1. subst. f_equal. auto.
  - destruct d, d0; simpl in H2; try discriminate; reflexivity.
  - apply Nat.eqb_eq in H2. congruence.
  - apply Nat.eqb_eq in H2. congruence.
Qed.

Lemma reset_lossless o : losslessb defdt o = true -> reset defdt o = o.
Proof.
  induction o using arg_ind'; try reflexivity.
  rewrite reset_op. simpl. fold (losslessb_list defdt). intros L. apply andb_prop in L as [L1 L2].
  apply kvl_eqb_eq in L1. rewrite L1. f_equal.
  induction H as [|x r Hx Hr IH]; [reflexivity|]. simpl in L2. apply andb_prop in L2 as [La Lb].
  simpl. now rewrite (Hx La), (IH Lb).
Qed.

Theorem rebuild_exact o : wfb o = true -> no_otherb o = true -> losslessb defdt o = true -> rebuild defdt o = Some o.
Proof. intros W N L. rewrite (rebuild_reset o W N). now rewrite (reset_lossless o L). Qed.

(* a flag the constructor does not forward is lost: the rebuilt root has the default attributes *)
Theorem rebuild_loses_flags c ch dn nd at_ :
  wfb (AOp c ch dn nd at_) = true -> no_otherb (AOp c ch dn nd at_) = true -> at_ <> dflt_attrs defdt c ->
  rebuild defdt (AOp c ch dn nd at_) <> Some (AOp c ch dn nd at_).
Proof.
  intros W N D. rewrite (rebuild_reset _ W N), reset_op. intros E. inversion E. congruence.
Qed.

End WithDef.

(* the known finding on the pinned constructor signature of CholLinearOperator *)
Lemma chol_upper_refuted :
  spec_of CChol = {| cs_npos := 1; cs_varargs := false; cs_named := [(k_upper, Some (VBool false), PAttr)]; cs_varkw := false |} ->
  exists o, wfb o = true /\ no_otherb o = true /\ rebuild F32 o <> Some o.
Proof.
  intros Hs.
  set (tri := AOp CTriangular [AOp CDense [ATensor (T 0 0 F64 false)] [] [] []] [] [(k_upper, VBool true)] []).
  exists (AOp CChol [tri] [] [] [(k_upper, VBool true)]).
  assert (N : node_okb CChol [tri] [] [] = true).
  { unfold node_okb, node_okS. rewrite Hs. reflexivity. }
  assert (W : wfb (AOp CChol [tri] [] [] [(k_upper, VBool true)]) = true).
  { rewrite wfb_op, N. reflexivity. }
  split; [exact W|]. split; [reflexivity|].
  apply rebuild_loses_flags; [exact W|reflexivity|].
  unfold dflt_attrs. rewrite Hs. simpl. discriminate.
Qed.
