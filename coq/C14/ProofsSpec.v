(* C14 — what the structural specification Conv.conv says at the level of the property: the class tree, every keyword
   argument and every flag (the dtype / device bookkeeping entries apart) and the VALUE of every leaf are preserved;
   floating leaves get the target dtype, integer and boolean leaves keep theirs; requires_grad is kept leaf by leaf
   (dropped everywhere by detach). *)
From Coq Require Import List ZArith Bool Arith Lia.
Import ListNotations.
Require Import C14.Types C14.gen.Ctors C14.Model C14.Wf C14.ProofsAssoc C14.ProofsRebuild C14.Conv C14.ProofsTables
  C14.ProofsConv.

Definition obs (t : tensor) : nat * dt * bool := (tvl t, tdt t, trg t).
Definition cast_rule (m : meth) (t : tensor) : nat * dt * bool :=
  (tvl t,
   match m with
   | MTo (Some d) _ | MType d => if is_float (tdt t) then d else tdt t
   | _ => tdt t
   end,
   match m with MDetach => false | _ => trg t end).

Lemma leaves_op c ch dn nd at_ : leaves (AOp c ch dn nd at_) = leaves_list ch.
Proof. reflexivity. Qed.
Lemma vshape_op c ch dn nd at_ : vshape (AOp c ch dn nd at_) = AOp c (vshape_list ch) dn (drop_dt nd) (drop_dt at_).
Proof. reflexivity. Qed.
Lemma vshape_list_map l : vshape_list l = map vshape l.
Proof. induction l; simpl; congruence. Qed.
Lemma leaves_list_app l1 l2 : leaves_list (l1 ++ l2) = leaves_list l1 ++ leaves_list l2.
Proof. induction l1; simpl; [reflexivity|]. now rewrite IHl1, app_assoc. Qed.

Lemma leaves_map_rel (g : arg -> arg) (r : tensor -> nat * dt * bool) l :
  Forall (fun x => map obs (leaves (g x)) = map r (leaves x)) l ->
  map obs (leaves_list (map g l)) = map r (leaves_list l).
Proof. intros H. induction H as [|x s Hx Hs IH]; simpl; [reflexivity|]. now rewrite !map_app, Hx, IH. Qed.

Lemma vshape_strip a : vshape (strip a) = vshape a.
Proof.
  induction a using arg_ind'; try reflexivity.
  rewrite strip_op, !vshape_op. f_equal. induction H as [|x r Hx Hr IH]; simpl; [reflexivity|]. now rewrite Hx, IH.
Qed.
Lemma leaves_strip a : map obs (leaves (strip a)) = map obs (leaves a).
Proof.
  induction a using arg_ind'; try reflexivity.
  rewrite strip_op, !leaves_op. induction H as [|x r Hx Hr IH]; simpl; [reflexivity|]. now rewrite !map_app, Hx, IH.
Qed.

Lemma drop_dt_set_key k v l : is_dt_key k = true -> drop_dt (set_key k v l) = drop_dt l.
Proof.
  intros K. induction l as [|[k' v'] r IH]; simpl.
  - now rewrite K.
  - destruct (Z.eqb_spec k k'); simpl.
    + subst. now rewrite K.
    + destruct (is_dt_key k'); simpl; now rewrite IH.
Qed.

Lemma drop_dt_nd_to c d dev nd : drop_dt (nd_to c d dev nd) = drop_dt nd.
Proof.
  unfold nd_to. destruct (cls_eqb c CIdentity || cls_eqb c CZero).
  - destruct (keep_or k_dtype (dt_val d) nd); [|reflexivity]. destruct (keep_or k_device (dev_val dev) nd); [|reflexivity].
    rewrite !drop_dt_set_key; reflexivity.
  - destruct (is_perm_cls c); [|reflexivity]. destruct (keep_or k_dtype (dt_val d) nd); [|reflexivity].
    rewrite drop_dt_set_key; reflexivity.
Qed.

Section WithDef.
Variable defdt : dt.
Notation dflt := (dflt_attrs defdt).

(* ------------------------------------------------------------------ structure, flags and values *)
Lemma vshape_lmap f a : (forall t, tvl (f t) = tvl t) -> losslessb defdt a = true -> vshape (lmap defdt f a) = vshape a.
Proof.
  intros Hf. induction a using arg_ind'; intros L; simpl; [now rewrite Hf|reflexivity|].
  fold (lmap_list defdt f). fold vshape_list. rewrite losslessb_op in L. apply andb_prop in L as [L1 L2].
  apply kvl_eqb_eq in L1. rewrite <- L1. f_equal.
  induction H as [|x r Hx Hr IH]; simpl; [reflexivity|]. simpl in L2. apply andb_prop in L2 as [La Lb].
  now rewrite (Hx La), (IH Lb).
Qed.

Lemma vshape_conv_to a : forall d dev, losslessb defdt a = true -> vshape (conv_to defdt d dev a) = vshape a.
Proof.
  induction a using arg_ind'; intros d dev L; try reflexivity.
  rewrite conv_to_op. rewrite losslessb_op in L. apply andb_prop in L as [L1 L2]. apply kvl_eqb_eq in L1.
  pose proof (lossless_list_Forall defdt ch L2) as LF.
  assert (TYP : forall d' x, losslessb defdt x = true ->
            (forall d dev, losslessb defdt x = true -> vshape (conv_to defdt d dev x) = vshape x) ->
            vshape (conv_type_arg defdt d' x) = vshape x).
  { intros d' x Lx IHx. destruct x as [t|v|c0 ch0 dn0 nd0 at0]; [| reflexivity |].
    - simpl. unfold l_type. destruct (is_float (tdt t)); reflexivity.
    - unfold conv_type_arg. destruct (is_float_o _); [now apply IHx|]. now apply vshape_lmap. }
  assert (GA : forall x, losslessb defdt x = true ->
            (forall d dev, losslessb defdt x = true -> vshape (conv_to defdt d dev x) = vshape x) ->
            vshape (guard_arg defdt d dev x) = vshape x).
  { intros x Lx IHx. destruct x as [t|v|c0 ch0 dn0 nd0 at0]; [| reflexivity |].
    - unfold guard_arg. simpl dtype_of. destruct d as [d'|]; [|now apply IHx].
      destruct (Bool.eqb _ _); now apply IHx.
    - unfold guard_arg. destruct d as [d'|]; [|destruct (dtype_of _); now apply IHx].
      destruct (dtype_of _) as [da|]; [|apply vshape_strip].
      destruct (Bool.eqb _ _); now apply IHx. }
  assert (ALL : Forall (fun x => losslessb defdt x = true /\
            (forall d dev, losslessb defdt x = true -> vshape (conv_to defdt d dev x) = vshape x)) ch).
  { clear -H LF. induction H; inversion LF; subst; constructor; auto. }
  destruct (guarded c).
  - rewrite !vshape_op, <- L1. f_equal.
    + rewrite gfix_spec, Nat.sub_0_r, !vshape_list_map, map_app, !map_map.
      assert (E : vshape_list ch = map vshape (firstn (nargs ch dn) ch) ++ map vshape (skipn (nargs ch dn) ch))
        by (rewrite vshape_list_map, <- map_app, firstn_skipn; reflexivity).
      rewrite E. clear E. f_equal.
      * apply map_ext_Forall. apply Forall_firstn. eapply Forall_impl; [|exact ALL]. intros x [Lx Hx]. now apply GA.
      * apply map_ext_Forall. apply Forall_skipn. eapply Forall_impl; [|exact ALL]. intros x [Lx Hx]. now apply Hx.
    + apply drop_dt_nd_to.
  - destruct (cls_eqb c CCat).
    + rewrite !vshape_op, <- L1. f_equal.
      * rewrite !vshape_list_map, map_map. apply map_ext_Forall. eapply Forall_impl; [|exact ALL]. intros x [Lx Hx].
        destruct d as [d'|]; simpl; [now apply TYP|apply vshape_strip].
      * now rewrite drop_dt_set_key.
    + assert (STR : vshape_list (strip_list ch) = vshape_list ch).
      { rewrite strip_list_map, !vshape_list_map, map_map. apply map_ext. intros a. apply vshape_strip. }
      destruct (rebuilt_kw c).
      { rewrite !vshape_op, <- L1, STR. f_equal. apply drop_dt_nd_to. }
      rewrite !vshape_op, <- L1. f_equal.
      rewrite !vshape_list_map, map_map. apply map_ext_Forall. eapply Forall_impl; [|exact ALL]. intros x [Lx Hx]. now apply Hx.
Qed.

Theorem conv_keeps_structure m o : losslessb defdt o = true -> vshape (conv defdt m o) = vshape o.
Proof.
  intros L. destruct m as [| | |d dev|d]; simpl.
  - now apply vshape_lmap.
  - now apply vshape_lmap.
  - now apply vshape_lmap.
  - now apply vshape_conv_to.
  - destruct o as [t|v|c ch dn nd at_]; try reflexivity. simpl.
    pose proof L as L0. rewrite losslessb_op in L. apply andb_prop in L as [L1 L2]. apply kvl_eqb_eq in L1.
    destruct (keeps_dt c).
    { rewrite !vshape_op, <- L1. f_equal.
      - rewrite strip_list_map, !vshape_list_map, map_map. apply map_ext. intros a. apply vshape_strip.
      - now rewrite drop_dt_set_key. }
    rewrite !vshape_op, <- L1. f_equal. rewrite !vshape_list_map, map_map. apply map_ext_Forall.
    pose proof (lossless_list_Forall defdt ch L2) as LF. eapply Forall_impl; [|exact LF]. intros x Lx.
    destruct x as [t|v|c0 ch0 dn0 nd0 at0]; [| reflexivity |].
    + simpl. unfold l_type. destruct (is_float (tdt t)); reflexivity.
    + unfold conv_type_arg. destruct (is_float_o _); [now apply vshape_conv_to|now apply vshape_lmap].
Qed.


(* ------------------------------------------------------------------ dtype and requires_grad of every leaf *)
Lemma leaves_lmap f r a : (forall t, obs (f t) = r t) -> map obs (leaves (lmap defdt f a)) = map r (leaves a).
Proof.
  intros Hf. induction a using arg_ind'; simpl; [now rewrite Hf|reflexivity|].
  fold (lmap_list defdt f). fold leaves_list.
  induction H as [|x s Hx Hs IH]; simpl; [reflexivity|]. now rewrite !map_app, Hx, IH.
Qed.

Lemma to_safe_dtype c ch dn nd at_ :
  to_safe (AOp c ch dn nd at_) = true -> exists da, dtype_of (AOp c ch dn nd at_) = Some da /\ is_float da = true.
Proof.
  rewrite to_safe_op. intros H. apply andb_prop in H as [H _].
  destruct (dtype_of (AOp c ch dn nd at_)) as [da|]; [|discriminate]. eauto.
Qed.

Lemma rule_to_dev d dev dev' t : cast_rule (MTo d dev) t = cast_rule (MTo d dev') t.
Proof. reflexivity. Qed.

Lemma leaves_conv_to a : forall d dev, losslessb defdt a = true -> to_ok d a ->
  map obs (leaves (conv_to defdt d dev a)) = map (cast_rule (MTo d dev)) (leaves a).
Proof.
  induction a using arg_ind'; intros d dev L OK; try reflexivity.
  - destruct d as [d'|]; [|reflexivity]. destruct OK as [F S]. simpl in S. simpl. unfold obs, cast_rule. simpl. now rewrite S.
  - rewrite conv_to_op. rewrite losslessb_op in L. apply andb_prop in L as [_ L2].
    pose proof (lossless_list_Forall defdt ch L2) as LF.
    assert (SAFE : match d with
                   | Some d' => is_float d' = true /\
                       (if guarded c then sfix (nargs ch dn) ch 0
                        else if cls_eqb c CCat then forallb to_safe_sub ch
                        else if rebuilt_kw c then forallb (kw_child_ok c) ch
                        else forallb to_safe ch) = true
                   | None => True
                   end).
    { destruct d as [d'|]; [|exact I]. destruct OK as [F S]. rewrite to_safe_op in S. apply andb_prop in S as [_ S]. auto. }
    assert (ALL : Forall (fun x => losslessb defdt x = true /\
              (forall d dev, losslessb defdt x = true -> to_ok d x ->
                 map obs (leaves (conv_to defdt d dev x)) = map (cast_rule (MTo d dev)) (leaves x))) ch).
    { clear -H LF. induction H; inversion LF; subst; constructor; auto. }
    assert (NONE : forall x, map obs (leaves (strip x)) = map (cast_rule (MTo None dev)) (leaves x)).
    { intros x. rewrite leaves_strip. apply map_ext. reflexivity. }
    assert (TYP : forall d' x, is_float d' = true -> to_safe_sub x = true -> losslessb defdt x = true ->
              (forall d dev, losslessb defdt x = true -> to_ok d x ->
                 map obs (leaves (conv_to defdt d dev x)) = map (cast_rule (MTo d dev)) (leaves x)) ->
              map obs (leaves (conv_type_arg defdt d' x)) = map (cast_rule (MTo (Some d') dev)) (leaves x)).
    { intros d' x F S Lx IHx. destruct x as [t|v|c0 ch0 dn0 nd0 at0]; [| reflexivity |].
      - simpl. unfold l_type, obs, cast_rule. destruct (is_float (tdt t)); reflexivity.
      - unfold conv_type_arg. rewrite (lmap_blank_lossless defdt _ Lx), dtype_of_strip.
        destruct (to_safe_dtype _ _ _ _ _ S) as [da [D Fa]]. rewrite D. unfold is_float_o. rewrite Fa.
        rewrite (IHx (Some d') None Lx (conj F S)). apply map_ext. reflexivity. }
    rewrite !leaves_op.
    destruct (guarded c).
    + rewrite leaves_op, gfix_spec, Nat.sub_0_r, leaves_list_app, map_app.
      assert (E : leaves_list ch = leaves_list (firstn (nargs ch dn) ch) ++ leaves_list (skipn (nargs ch dn) ch))
        by (rewrite <- leaves_list_app, firstn_skipn; reflexivity).
      rewrite E, map_app. clear E. f_equal.
      * apply leaves_map_rel. apply Forall_forall. intros x Hx.
        assert (Hin : In x ch) by (rewrite <- (firstn_skipn (nargs ch dn) ch); apply in_or_app; now left).
        rewrite Forall_forall in ALL. destruct (ALL x Hin) as [Lx IHx].
        destruct x as [t|v|c0 ch0 dn0 nd0 at0]; [| reflexivity |].
        -- unfold guard_arg. simpl dtype_of. destruct d as [d'|]; [|reflexivity].
           destruct SAFE as [F _]. rewrite F. unfold cast_rule, obs. simpl.
           destruct (is_float (tdt t)); reflexivity.
        -- unfold guard_arg. destruct d as [d'|].
           ++ destruct SAFE as [F S]. rewrite sfix_spec, Nat.sub_0_r in S. apply andb_prop in S as [S1 _].
              pose proof (forallb_In _ _ _ S1 Hx) as Sx. change (to_safe (AOp c0 ch0 dn0 nd0 at0) = true) in Sx.
              destruct (to_safe_dtype _ _ _ _ _ Sx) as [da [D Fa]]. rewrite D, Fa, F. cbn [Bool.eqb].
              apply IHx; [exact Lx|split; assumption].
           ++ destruct (dtype_of _); (apply IHx; [exact Lx|exact I]).
      * apply leaves_map_rel. apply Forall_forall. intros x Hx.
        assert (Hin : In x ch) by (rewrite <- (firstn_skipn (nargs ch dn) ch); apply in_or_app; now right).
        rewrite Forall_forall in ALL. destruct (ALL x Hin) as [Lx IHx]. apply IHx; [exact Lx|].
        destruct d as [d'|]; [|exact I]. destruct SAFE as [F S].
        rewrite sfix_spec, Nat.sub_0_r in S. apply andb_prop in S as [_ S2]. split; [exact F|]. eapply forallb_In; eauto.
    + destruct (cls_eqb c CCat).
      * rewrite leaves_op. apply leaves_map_rel. apply Forall_forall. intros x Hx.
        rewrite Forall_forall in ALL. destruct (ALL x Hx) as [Lx IHx]. destruct d as [d'|]; simpl; [|apply NONE].
        destruct SAFE as [F S]. apply TYP; auto. eapply forallb_In; eauto.
      * assert (STR : forall (P : arg -> bool) (r : tensor -> nat * dt * bool),
                  (forall x, P x = true -> map obs (leaves (strip x)) = map r (leaves x)) ->
                  forallb P ch = true -> map obs (leaves_list (strip_list ch)) = map r (leaves_list ch)).
        { intros P r HP FP. rewrite strip_list_map. apply leaves_map_rel. apply Forall_forall. intros x Hx.
          apply HP. eapply forallb_In; eauto. }
        destruct (rebuilt_kw c).
        { rewrite leaves_op. destruct d as [d'|].
          - destruct SAFE as [F S]. apply (STR (kw_child_ok c)); [|exact S].
            intros x Px. unfold kw_child_ok in Px. destruct (cls_eqb c CPermutation).
            + destruct x as [t| |]; try discriminate Px. simpl in Px. simpl. unfold obs, cast_rule. simpl.
              destruct (is_float (tdt t)); [discriminate Px|reflexivity].
            + destruct x; try discriminate Px. reflexivity.
          - apply (STR (fun _ => true)); [|clear; induction ch; simpl; auto].
            intros x _. apply NONE. }
        rewrite leaves_op. apply leaves_map_rel. apply Forall_forall. intros x Hx.
        rewrite Forall_forall in ALL. destruct (ALL x Hx) as [Lx IHx]. apply IHx; [exact Lx|].
        destruct d as [d'|]; [|exact I]. destruct SAFE as [F S]. split; [exact F|]. eapply forallb_In; eauto.
Qed.

Theorem conv_leaves m o : is_op o = true -> losslessb defdt o = true -> safeb m o = true ->
  map obs (leaves (conv defdt m o)) = map (cast_rule m) (leaves o).
Proof.
  intros OP L S. destruct m as [| | |d dev|d]; simpl conv.
  - now apply leaves_lmap.
  - now apply leaves_lmap.
  - now apply leaves_lmap.
  - apply leaves_conv_to; [exact L|]. destruct d as [d'|]; [|exact I]. simpl in S. apply andb_prop in S. exact S.
  - destruct o as [t|v|c ch dn nd at_]; try discriminate OP.
    simpl in S. apply andb_prop in S as [F T]. apply andb_prop in T as [T NOZ]. apply andb_prop in T as [T NOCH].
    unfold conv_type.
    rewrite losslessb_op in L. apply andb_prop in L as [_ L2]. pose proof (lossless_list_Forall defdt ch L2) as LF.
    destruct (cls_eqb c CIdentity) eqn:ID.
    { unfold keeps_dt. rewrite ID. simpl in NOCH. destruct ch; [reflexivity|discriminate]. }
    destruct (rebuilt_kw c) eqn:RK.
    { assert (KD : keeps_dt c = true) by (unfold keeps_dt; unfold rebuilt_kw in RK; rewrite ID; exact RK).
      rewrite KD. rewrite !leaves_op. rewrite strip_list_map. apply leaves_map_rel. apply Forall_forall. intros x Hx.
      pose proof (forallb_In _ _ _ NOZ Hx) as Px. unfold kw_child_ok in Px. destruct (cls_eqb c CPermutation).
      - destruct x as [t| |]; try discriminate Px. simpl in Px. simpl. unfold obs, cast_rule. simpl.
        destruct (is_float (tdt t)); [discriminate Px|reflexivity].
      - destruct x; try discriminate Px. reflexivity. }
    assert (KD : keeps_dt c = false) by (unfold keeps_dt; unfold rebuilt_kw in RK; rewrite ID; exact RK).
    rewrite KD.
    rewrite !leaves_op. apply leaves_map_rel. apply Forall_forall. intros x Hx.
    rewrite Forall_forall in LF. pose proof (LF x Hx) as Lx. pose proof (forallb_In _ _ _ T Hx) as Sx.
    destruct x as [t|v|c0 ch0 dn0 nd0 at0]; [| reflexivity |].
    + simpl. unfold l_type, obs, cast_rule. destruct (is_float (tdt t)); reflexivity.
    + unfold conv_type_arg. rewrite (lmap_blank_lossless defdt _ Lx), dtype_of_strip. change (to_safe (AOp c0 ch0 dn0 nd0 at0) = true) in Sx.
      destruct (to_safe_dtype _ _ _ _ _ Sx) as [da [D Fa]]. rewrite D. unfold is_float_o. rewrite Fa.
      rewrite (leaves_conv_to _ (Some d) None Lx (conj F Sx)). apply map_ext. reflexivity.
Qed.

End WithDef.
