(* C14 — association-list (dict) lemmas: sorted(kwargs.items()) yields THE strictly sorted list that has the
   same lookup function, so differentiable / non-differentiable splitting is determined extensionally. *)
From Coq Require Import List ZArith Bool Arith Lia Sorted.
Import ListNotations.
Require Import C14.Types C14.gen.Ctors C14.Model C14.Wf.

Section Assoc.
Context {V : Type}.
Implicit Types (l : list (Z * V)) (x : Z * V) (k : Z).

Definition ltk (a b : Z * V) : Prop := (fst a < fst b)%Z.
Definition ss l : Prop := StronglySorted ltk l.

Lemma lookup_in k l v : lookup k l = Some v -> In k (keys l).
Proof.
  induction l as [|[k' v'] r IH]; simpl; [discriminate|].
  destruct (Z.eqb_spec k k'); [left; congruence|]. intros H; right; auto.
Qed.
Lemma lookup_notin k l : ~ In k (keys l) -> lookup k l = None.
Proof.
  destruct (lookup k l) eqn:E; auto. intros H; exfalso; apply H. eapply lookup_in; eauto.
Qed.
Lemma in_lookup k l : In k (keys l) -> exists v, lookup k l = Some v.
Proof.
  induction l as [|[k' v'] r IH]; simpl; [tauto|].
  destruct (Z.eqb_spec k k'); [eauto|]. intros [H|H]; [congruence|auto].
Qed.
Lemma has_key_in k l : has_key k l = true <-> In k (keys l).
Proof.
  unfold has_key; split.
  - destruct (lookup k l) eqn:E; [intros _; eapply lookup_in; eauto|discriminate].
  - intros H; destruct (in_lookup _ _ H) as [v ->]; auto.
Qed.
Lemma lookup_app k l1 l2 :
  lookup k (l1 ++ l2) = match lookup k l1 with Some v => Some v | None => lookup k l2 end.
Proof.
  induction l1 as [|[k' v'] r IH]; simpl; auto. destruct (Z.eqb k k'); auto.
Qed.

Lemma lookup_insert k x l :
  lookup k (insert x l) = if Z.eqb k (fst x) then Some (snd x) else lookup k l.
Proof.
  induction l as [|[k' v'] r IH]; destruct x as [kx vx]; simpl in *.
  - reflexivity.
  - destruct (Z.leb_spec kx k'); simpl.
    + reflexivity.
    + rewrite IH. destruct (Z.eqb_spec k kx), (Z.eqb_spec k k'); auto; lia.
Qed.
Lemma lookup_isort k l : lookup k (isort l) = lookup k l.
Proof.
  induction l as [|[k' v'] r IH]; simpl; auto. rewrite lookup_insert; simpl. now rewrite IH.
Qed.

Lemma in_keys_insert k x l : In k (keys (insert x l)) <-> k = fst x \/ In k (keys l).
Proof.
  induction l as [|y r IH]; simpl; [intuition|].
  destruct (Z.leb (fst x) (fst y)); simpl; [intuition|]. rewrite IH. intuition.
Qed.
Lemma in_keys_isort k l : In k (keys (isort l)) <-> In k (keys l).
Proof.
  induction l as [|y r IH]; simpl; [tauto|]. rewrite in_keys_insert, IH. intuition.
Qed.

Lemma ss_inv x l : ss (x :: l) -> ss l /\ Forall (ltk x) l.
Proof. intros H; inversion H; auto. Qed.

Lemma forall_ltk_keys x l : Forall (ltk x) l <-> forall k, In k (keys l) -> (fst x < k)%Z.
Proof.
  rewrite Forall_forall; unfold keys; split.
  - intros H k Hk. apply in_map_iff in Hk as [y [<- Hy]]. apply H; auto.
  - intros H y Hy. apply H. apply in_map; auto.
Qed.

Lemma insert_ss x l : ss l -> ~ In (fst x) (keys l) -> ss (insert x l).
Proof.
  induction l as [|y r IH]; simpl; intros S N.
  - constructor; constructor.
  - apply ss_inv in S as [Sr Fy].
    destruct (Z.leb_spec (fst x) (fst y)).
    + constructor; [constructor; auto|].
      assert (fst x < fst y)%Z by (assert (fst x <> fst y) by (intros Heq; apply N; left; auto); lia).
      constructor; auto. apply forall_ltk_keys. intros k Hk.
      rewrite forall_ltk_keys in Fy. specialize (Fy k Hk). lia.
    + constructor; [apply IH; auto|].
      apply forall_ltk_keys. intros k Hk. apply in_keys_insert in Hk as [->|Hk]; [lia|].
      rewrite forall_ltk_keys in Fy; auto.
Qed.
Lemma isort_ss l : NoDup (keys l) -> ss (isort l).
Proof.
  induction l as [|y r IH]; simpl; intros N; [constructor|].
  inversion N; subst. apply insert_ss; auto. now rewrite in_keys_isort.
Qed.

Lemma ss_nodup l : ss l -> NoDup (keys l).
Proof.
  induction l as [|y r IH]; simpl; intros S; [constructor|].
  apply ss_inv in S as [Sr Fy]. constructor; auto.
  intros Hin. rewrite forall_ltk_keys in Fy. specialize (Fy _ Hin). lia.
Qed.
Lemma ss_head_none x l : ss (x :: l) -> lookup (fst x) l = None.
Proof.
  intros S. apply ss_inv in S as [_ F]. apply lookup_notin. intros Hin.
  rewrite forall_ltk_keys in F. specialize (F _ Hin). lia.
Qed.

(* two strictly sorted lists with the same lookup function are equal *)
Lemma ss_ext l1 : forall l2, ss l1 -> ss l2 -> (forall k, lookup k l1 = lookup k l2) -> l1 = l2.
Proof.
  induction l1 as [|[k1 v1] r1 IH]; intros [|[k2 v2] r2] S1 S2 E.
  - reflexivity.
  - specialize (E k2). simpl in E. rewrite Z.eqb_refl in E. discriminate.
  - specialize (E k1). simpl in E. rewrite Z.eqb_refl in E. discriminate.
  - assert (K : k1 = k2).
    { pose proof (E k1) as E1. pose proof (E k2) as E2. simpl in E1, E2.
      rewrite Z.eqb_refl in E1, E2.
      destruct (Z.eqb_spec k1 k2); auto. destruct (Z.eqb_spec k2 k1); [congruence|].
      symmetry in E1. apply lookup_in in E1. apply lookup_in in E2.
      apply ss_inv in S1 as [_ F1]. apply ss_inv in S2 as [_ F2].
      rewrite forall_ltk_keys in F1, F2. specialize (F1 _ E2). specialize (F2 _ E1). simpl in *. lia. }
    subst k2.
    assert (v1 = v2). { specialize (E k1). simpl in E. rewrite Z.eqb_refl in E. congruence. }
    subst v2. f_equal.
    apply IH; [apply ss_inv in S1; tauto|apply ss_inv in S2; tauto|].
    intros k. destruct (Z.eqb_spec k k1).
    + subst. pose proof (ss_head_none _ _ S1). pose proof (ss_head_none _ _ S2). simpl in *. congruence.
    + specialize (E k). simpl in E. destruct (Z.eqb_spec k k1); [contradiction|auto].
Qed.

Lemma ss_filter (P : Z * V -> bool) l : ss l -> ss (filter P l).
Proof.
  induction l as [|y r IH]; simpl; intros S; [constructor|].
  apply ss_inv in S as [Sr Fy]. destruct (P y); auto.
  constructor; [apply IH; auto|]. apply Forall_forall. intros z Hz. apply filter_In in Hz as [Hz _].
  rewrite Forall_forall in Fy. auto.
Qed.
Lemma lookup_filter_ss (P : V -> bool) k l : ss l ->
  lookup k (filter (fun kv => P (snd kv)) l) =
  match lookup k l with Some v => if P v then Some v else None | None => None end.
Proof.
  induction l as [|[k' v'] r IH]; simpl; intros S; auto.
  pose proof (ss_head_none _ _ S) as HN. apply ss_inv in S as [Sr _]. simpl in HN.
  destruct (P v') eqn:Pv; simpl.
  - destruct (Z.eqb_spec k k'); [now rewrite Pv|auto].
  - rewrite IH by auto. destruct (Z.eqb_spec k k'); [subst; now rewrite HN, Pv|auto].
Qed.

(* boolean strict sortedness of a key list (Wf.ssortedb) *)
Lemma ssortedb_lt (z : Z) (zs : list Z) : ssortedb (z :: zs) = true -> forall k, In k zs -> (z < k)%Z.
Proof.
  revert z; induction zs as [|y r IH]; intros z H k Hk; [destruct Hk|].
  simpl in H. apply andb_prop in H as [H1 H2]. apply Z.ltb_lt in H1.
  destruct Hk as [->|Hk]; auto. specialize (IH y H2 k Hk). lia.
Qed.
Lemma ssortedb_tail (z : Z) (zs : list Z) : ssortedb (z :: zs) = true -> ssortedb zs = true.
Proof. simpl; destruct zs; auto. intros H; apply andb_prop in H; tauto. Qed.
Lemma ssortedb_ss l : ssortedb (keys l) = true -> ss l.
Proof.
  induction l as [|y r IH]; intros H; [constructor|].
  simpl in H. constructor.
  - apply IH. change (ssortedb (keys r) = true). eapply ssortedb_tail; eauto.
  - apply forall_ltk_keys. apply ssortedb_lt; auto.
Qed.

Lemma set_key_keys_in k v l : has_key k l = true -> keys (set_key k v l) = keys l.
Proof.
  induction l as [|[k' v'] r IH]; unfold has_key; simpl; [discriminate|].
  destruct (Z.eqb_spec k k'); simpl; [now subst|]. intros H. f_equal. apply IH. exact H.
Qed.
Lemma lookup_set_key k v l k0 :
  lookup k0 (set_key k v l) = if Z.eqb k0 k then Some v else lookup k0 l.
Proof.
  induction l as [|[k' v'] r IH]; simpl.
  - destruct (Z.eqb k0 k); auto.
  - destruct (Z.eqb_spec k k'); simpl.
    + subst. destruct (Z.eqb k0 k'); auto.
    + rewrite IH. destruct (Z.eqb_spec k0 k'), (Z.eqb_spec k0 k); auto; lia.
Qed.
End Assoc.

Lemma zmem_in k l : zmem k l = true <-> In k l.
Proof.
  induction l as [|x r IH]; simpl; [split; [discriminate|tauto]|].
  rewrite orb_true_iff, IH, Z.eqb_eq. intuition.
Qed.

Lemma keys_lift nd : keys (lift nd) = keys nd.
Proof. unfold keys, lift. rewrite map_map. reflexivity. Qed.
Lemma unlift_lift nd : unlift (lift nd) = nd.
Proof. induction nd as [|[k v] r IH]; simpl; congruence. Qed.
Lemma lookup_lift k nd : lookup k (lift nd) = option_map AOther (lookup k nd).
Proof. induction nd as [|[k' v] r IH]; simpl; auto. destruct (Z.eqb k k'); auto. Qed.
Lemma unlift_filter l : unlift l = unlift (filter (fun kv => negb (is_diff (snd kv))) l).
Proof.
  induction l as [|[k a] r IH]; simpl; auto. destruct a; simpl; congruence.
Qed.
Lemma ss_lift nd : ss nd -> ss (lift nd).
Proof.
  induction nd as [|[k v] r IH]; intros S; [constructor|].
  apply ss_inv in S as [Sr F]. simpl. constructor; [apply IH; auto|].
  apply forall_ltk_keys. intros k0 Hk0. change (In k0 (keys (lift r))) in Hk0. rewrite keys_lift in Hk0.
  rewrite forall_ltk_keys in F. simpl in *. auto.
Qed.
