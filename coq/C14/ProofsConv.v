(* C14 — the transcribed conversion methods (Model.meth_call: every node is rebuilt through its constructor, nested
   operators are converted by their own methods, fresh storages are drawn from a counter) compute exactly the
   structural specification Conv.conv, on every well-formed operator tree of any nesting depth. *)
From Coq Require Import List ZArith Bool Arith Lia.
Import ListNotations.
Require Import C14.Types C14.gen.Ctors C14.Model C14.Wf C14.ProofsAssoc C14.ProofsRebuild C14.Conv C14.ProofsTables.

Lemma dt_eqb_eq a b : dt_eqb a b = true -> a = b.
Proof. destruct a, b; simpl; congruence. Qed.

(* ------------------------------------------------------------------ strip *)
Lemma strip_op c ch dn nd at_ : strip (AOp c ch dn nd at_) = AOp c (strip_list ch) dn nd at_.
Proof. reflexivity. Qed.
Lemma strip_list_map l : strip_list l = map strip l.
Proof. induction l; simpl; congruence. Qed.
Lemma blank_blank t : blank (blank t) = blank t.
Proof. reflexivity. Qed.
Lemma strip_strip a : strip (strip a) = strip a.
Proof.
  induction a using arg_ind'; try reflexivity.
  rewrite !strip_op. f_equal. induction H as [|x r Hx Hr IH]; simpl; [reflexivity|]. now rewrite Hx, IH.
Qed.
Lemma sk_strip a : sk (strip a) = sk a.
Proof.
  induction a using arg_ind'; try reflexivity.
  rewrite strip_op, !sk_op. f_equal. induction H as [|x r Hx Hr IH]; simpl; [reflexivity|]. now rewrite Hx, IH.
Qed.
Lemma sk_list_strip l : sk_list (strip_list l) = sk_list l.
Proof. induction l; simpl; [reflexivity|]. now rewrite sk_strip, IHl. Qed.
Lemma strip_list_length l : length (strip_list l) = length l.
Proof. induction l; simpl; congruence. Qed.

Lemma wfb_strip a : wfb (strip a) = wfb a.
Proof.
  induction a using arg_ind'; try reflexivity.
  rewrite strip_op, !wfb_op. unfold node_okb. rewrite sk_list_strip. f_equal.
  induction H as [|x r Hx Hr IH]; simpl; [reflexivity|]. now rewrite Hx, IH.
Qed.

Lemma dtype_of_strip a : dtype_of (strip a) = dtype_of a.
Proof.
  induction a using arg_ind'; try reflexivity.
  rewrite strip_op. simpl. rewrite strip_list_length.
  destruct c; try reflexivity;
    (destruct (length dn <? length ch); [|reflexivity]; destruct ch as [|x r]; [reflexivity|]; simpl;
     inversion H; subst; assumption).
Qed.

Section WithDef.
Variable defdt : dt.
Notation dflt := (dflt_attrs defdt).

Lemma losslessb_op c ch dn nd at_ :
  losslessb defdt (AOp c ch dn nd at_) = kvl_eqb at_ (dflt c) && losslessb_list defdt ch.
Proof. reflexivity. Qed.
Lemma losslessb_strip a : losslessb defdt (strip a) = losslessb defdt a.
Proof.
  induction a using arg_ind'; try reflexivity.
  rewrite strip_op, !losslessb_op. f_equal.
  induction H as [|x r Hx Hr IH]; simpl; [reflexivity|]. now rewrite Hx, IH.
Qed.

(* ------------------------------------------------------------------ lmap *)
Lemma lmap_op f c ch dn nd at_ : lmap defdt f (AOp c ch dn nd at_) = AOp c (lmap_list defdt f ch) dn nd (dflt c).
Proof. reflexivity. Qed.
Lemma lmap_list_map f l : lmap_list defdt f l = map (lmap defdt f) l.
Proof. induction l; simpl; congruence. Qed.

Lemma kvl_eqb_refl l : kvl_eqb l l = true.
Proof.
  induction l as [|[k v] r IH]; simpl; [reflexivity|]. rewrite Z.eqb_refl, IH, andb_true_r. simpl.
  destruct v; simpl; auto using Z.eqb_refl, Nat.eqb_refl.
  - apply Bool.eqb_reflx.
  - induction l as [|x s IHs]; simpl; [reflexivity|]. now rewrite Z.eqb_refl.
  - destruct d; reflexivity.
Qed.

Lemma sk_lmap f a : (forall t, is_float (tdt (f t)) = is_float (tdt t)) -> sk (lmap defdt f a) = sk a.
Proof.
  intros Hf. induction a using arg_ind'; simpl; [now rewrite Hf|reflexivity|].
  fold (lmap_list defdt f). fold sk_list. f_equal.
  induction H as [|x r Hx Hr IH]; simpl; [reflexivity|]. now rewrite Hx, IH.
Qed.
Lemma sk_list_lmap f l : (forall t, is_float (tdt (f t)) = is_float (tdt t)) -> sk_list (lmap_list defdt f l) = sk_list l.
Proof. intros Hf. induction l; simpl; [reflexivity|]. now rewrite (sk_lmap f a Hf), IHl. Qed.

Lemma wfb_lmap f a : (forall t, is_float (tdt (f t)) = is_float (tdt t)) -> wfb (lmap defdt f a) = wfb a.
Proof.
  intros Hf. induction a using arg_ind'; try reflexivity.
  rewrite lmap_op, !wfb_op. unfold node_okb. rewrite (sk_list_lmap f ch Hf). f_equal.
  induction H as [|x r Hx Hr IH]; simpl; [reflexivity|]. now rewrite Hx, IH.
Qed.
Lemma lossless_lmap f a : losslessb defdt (lmap defdt f a) = true.
Proof.
  induction a using arg_ind'; try reflexivity.
  rewrite lmap_op, losslessb_op, kvl_eqb_refl. simpl.
  induction H as [|x r Hx Hr IH]; simpl; [reflexivity|]. now rewrite Hx, IH.
Qed.

(* on a lossless operator, a leaf map changes nothing but the leaves *)
Lemma lmap_blank_lossless a : losslessb defdt a = true -> lmap defdt blank a = strip a.
Proof.
  induction a using arg_ind'; try reflexivity.
  rewrite lmap_op, strip_op, losslessb_op. intros L. apply andb_prop in L as [L1 L2].
  apply kvl_eqb_eq in L1. rewrite <- L1. f_equal.
  induction H as [|x r Hx Hr IH]; simpl; [reflexivity|]. simpl in L2. apply andb_prop in L2 as [La Lb].
  now rewrite (Hx La), (IH Lb).
Qed.

(* ------------------------------------------------------------------ conv_to, unfolded *)
Definition guard_arg (d : option dt) (dev : option nat) (x : arg) : arg :=
  match x with
  | AOther _ => x
  | _ => match dtype_of x, d with
         | Some da, Some d' => if Bool.eqb (is_float da) (is_float d') then conv_to defdt d dev x else conv_to defdt None dev x
         | _, None => conv_to defdt None dev x
         | None, Some _ => strip x
         end
  end.
Definition cat_arg (d : option dt) (x : arg) : arg :=
  match d with None => strip x | Some d' => conv_type_arg defdt d' x end.
Definition gfix (d : option dt) (dev : option nat) (k : nat) := fix go (l : list arg) (i : nat) : list arg :=
  match l with
  | [] => []
  | x :: r => (if i <? k then guard_arg d dev x else conv_to defdt d dev x) :: go r (S i)
  end.
Lemma conv_to_op d dev c ch dn nd at_ :
  conv_to defdt d dev (AOp c ch dn nd at_) =
  if guarded c then AOp c (gfix d dev (nargs ch dn) ch 0) dn (nd_to c d dev nd) (dflt c)
  else if cls_eqb c CCat then AOp c (map (cat_arg d) ch) dn (set_key k_output_device (dev_val dev) nd) (dflt c)
  else if rebuilt_kw c then AOp c (strip_list ch) dn (nd_to c d dev nd) (dflt c)
  else AOp c (map (conv_to defdt d dev) ch) dn nd (dflt c).
Proof.
  reflexivity.
Qed.

Lemma gfix_spec d dev k l : forall i,
  gfix d dev k l i = map (guard_arg d dev) (firstn (k - i) l) ++ map (conv_to defdt d dev) (skipn (k - i) l).
Proof.
  induction l as [|x r IH]; intros i; simpl.
  - now rewrite firstn_nil, skipn_nil.
  - rewrite IH. destruct (Nat.ltb_spec i k).
    + replace (k - i) with (S (k - S i)) by lia. reflexivity.
    + replace (k - i) with 0 by lia. replace (k - S i) with 0 by lia. reflexivity.
Qed.

(* to_safe, unfolded *)
Definition sfix (k : nat) := fix go (l : list arg) (i : nat) : bool :=
  match l with
  | [] => true
  | x :: r => (if i <? k then to_safe_sub x else to_safe x) && go r (S i)
  end.
Lemma to_safe_op c ch dn nd at_ :
  to_safe (AOp c ch dn nd at_) =
  is_float_o (dtype_of (AOp c ch dn nd at_)) &&
  (if guarded c then sfix (nargs ch dn) ch 0
   else if cls_eqb c CCat then forallb to_safe_sub ch
   else if rebuilt_kw c then forallb (kw_child_ok c) ch
   else forallb to_safe ch).
Proof.
  reflexivity.
Qed.
Lemma sfix_spec k l : forall i,
  sfix k l i = forallb to_safe_sub (firstn (k - i) l) && forallb to_safe (skipn (k - i) l).
Proof.
  induction l as [|x r IH]; intros i; simpl.
  - now rewrite firstn_nil, skipn_nil.
  - rewrite IH. destruct (Nat.ltb_spec i k).
    + replace (k - i) with (S (k - S i)) by lia. simpl. now rewrite andb_assoc.
    + replace (k - i) with 0 by lia. replace (k - S i) with 0 by lia. reflexivity.
Qed.


(* ------------------------------------------------------------------ the specification ignores storage identities *)
Lemma Forall_firstn {A} (P : A -> Prop) n l : Forall P l -> Forall P (firstn n l).
Proof. intros H. revert n. induction H as [|x r Hx Hr IH]; intros [|n]; simpl; constructor; auto. Qed.
Lemma Forall_skipn {A} (P : A -> Prop) n l : Forall P l -> Forall P (skipn n l).
Proof. intros H. revert n. induction H as [|x r Hx Hr IH]; intros [|n]; simpl; auto. Qed.

Lemma l_to_blank d t : l_to d (blank t) = l_to d t.
Proof. reflexivity. Qed.
Lemma l_type_blank d t : l_type d (blank t) = l_type d t.
Proof. reflexivity. Qed.

Lemma lmap_strip f a : (forall t, f (blank t) = f t) -> lmap defdt f (strip a) = lmap defdt f a.
Proof.
  intros Hf. induction a using arg_ind'; simpl; [now rewrite Hf|reflexivity|].
  fold strip_list. fold (lmap_list defdt f). f_equal.
  induction H as [|x r Hx Hr IH]; simpl; [reflexivity|]. now rewrite Hx, IH.
Qed.

Lemma nargs_strip ch dn : nargs (strip_list ch) dn = nargs ch dn.
Proof. unfold nargs. now rewrite strip_list_length. Qed.

Lemma conv_to_strip a : forall d dev, conv_to defdt d dev (strip a) = conv_to defdt d dev a.
Proof.
  induction a using arg_ind'; intros d dev; try reflexivity.
  rewrite strip_op, !conv_to_op, nargs_strip, strip_list_map.
  assert (G : Forall (fun x => forall d dev, guard_arg d dev (strip x) = guard_arg d dev x) ch).
  { apply Forall_forall. intros x Hx. rewrite Forall_forall in H. specialize (H x Hx). intros d0 dev0.
    destruct x as [t|v|c0 ch0 dn0 nd0 at0]; [reflexivity|reflexivity|].
    unfold guard_arg. simpl strip at 1. fold strip_list.
    change (AOp c0 (strip_list ch0) dn0 nd0 at0) with (strip (AOp c0 ch0 dn0 nd0 at0)).
    rewrite dtype_of_strip, !H, strip_strip. reflexivity. }
  assert (CA : Forall (fun x => forall d, cat_arg d (strip x) = cat_arg d x) ch).
  { apply Forall_forall. intros x Hx. rewrite Forall_forall in H. specialize (H x Hx). intros [d0|]; simpl.
    - destruct x; try reflexivity. unfold conv_type_arg. simpl strip at 1. fold strip_list.
      change (AOp c0 (strip_list ch0) dn0 nd0 at_0) with (strip (AOp c0 ch0 dn0 nd0 at_0)).
      now rewrite (lmap_strip blank _ blank_blank), H.
    - apply strip_strip. }
  destruct (guarded c).
  - f_equal. rewrite !gfix_spec, firstn_map, skipn_map, !map_map. f_equal.
    + apply map_ext_Forall. apply Forall_firstn. eapply Forall_impl; [|exact G]. simpl. auto.
    + apply map_ext_Forall. apply Forall_skipn. eapply Forall_impl; [|exact H]. simpl. auto.
  - destruct (cls_eqb c CCat).
    + f_equal. rewrite map_map. apply map_ext_Forall. eapply Forall_impl; [|exact CA]. simpl. auto.
    + assert (SS : strip_list (map strip ch) = strip_list ch).
      { rewrite !strip_list_map, map_map. apply map_ext. intros a. apply strip_strip. }
      destruct (rebuilt_kw c); [now rewrite SS|].
      f_equal. rewrite map_map. apply map_ext_Forall. eapply Forall_impl; [|exact H]. simpl. auto.
Qed.

Lemma conv_type_arg_strip d x : conv_type_arg defdt d (strip x) = conv_type_arg defdt d x.
Proof.
  destruct x; try reflexivity. unfold conv_type_arg. simpl strip at 1. fold strip_list.
  change (AOp c (strip_list ch) dn nd at_) with (strip (AOp c ch dn nd at_)).
  now rewrite (lmap_strip blank _ blank_blank), conv_to_strip.
Qed.

Lemma to_safe_strip a : to_safe (strip a) = to_safe a.
Proof.
  induction a using arg_ind'; try reflexivity.
  rewrite strip_op, !to_safe_op, nargs_strip.
  change (AOp c (strip_list ch) dn nd at_) with (strip (AOp c ch dn nd at_)). rewrite dtype_of_strip. f_equal.
  assert (S : Forall (fun x => to_safe_sub (strip x) = to_safe_sub x) ch).
  { eapply Forall_impl; [|exact H]. intros x Hx. destruct x; try reflexivity. exact Hx. }
  rewrite strip_list_map.
  assert (FB : forall (f : arg -> bool) l, Forall (fun x => f (strip x) = f x) l -> forallb f (map strip l) = forallb f l).
  { intros f l HF. induction HF as [|x r Hx Hr IH]; simpl; [reflexivity|]. now rewrite Hx, IH. }
  destruct (guarded c).
  - rewrite !sfix_spec, firstn_map, skipn_map. f_equal; apply FB; auto using Forall_firstn, Forall_skipn.
  - destruct (cls_eqb c CCat); [apply FB; auto|].
    destruct (rebuilt_kw c); [|apply FB; auto].
    apply FB. apply Forall_forall. intros x _. unfold kw_child_ok. destruct (cls_eqb c CPermutation); destruct x; reflexivity.
Qed.
Lemma to_safe_sub_strip x : to_safe_sub (strip x) = to_safe_sub x.
Proof. destruct x; try reflexivity. apply (to_safe_strip (AOp c ch dn nd at_)). Qed.


(* ------------------------------------------------------------------ the main induction (on the fuel of meth_call) *)
Definition safe_arg (m : meth) (x : arg) : bool :=
  match m with
  | MTo (Some d) _ => is_float d && to_safe x
  | MType d => is_float d && to_safe_sub x
  | _ => true
  end.
Definition conv_arg (m : meth) (x : arg) : arg :=
  match m with MType d => conv_type_arg defdt d x | _ => conv defdt m x end.

Definition IHf (f : nat) : Prop := forall m o n o' n',
  wfb o = true -> losslessb defdt o = true -> safeb m o = true ->
  meth_call defdt f m o n = Some (o', n') -> strip o' = conv defdt m o /\ n <= n'.

Lemma safeb_to_op d dev c ch dn nd at_ :
  safeb (MTo (Some d) dev) (AOp c ch dn nd at_) = is_float d && to_safe (AOp c ch dn nd at_).
Proof. reflexivity. Qed.

Lemma on_arg_ok f : IHf f -> forall m a n a' n',
  wfb a = true -> losslessb defdt a = true -> safe_arg m a = true ->
  on_arg (meth_call defdt f) m a n = Some (a', n') -> strip a' = conv_arg m a /\ n <= n'.
Proof.
  intros IH m a n a' n' W L S E. destruct a as [t|v|c ch dn nd at_].
  - (* tensor *)
    destruct m as [| | |d dev|d]; simpl in E.
    + inversion E; subst. split; [reflexivity|lia].
    + inversion E; subst. split; [reflexivity|lia].
    + inversion E; subst. split; [reflexivity|lia].
    + destruct d as [d|]; simpl in E.
      * destruct (dt_eqb (tdt t) d) eqn:Q; inversion E; subst; (split; [|lia]).
        -- apply dt_eqb_eq in Q. subst. reflexivity.
        -- reflexivity.
      * inversion E; subst. split; [reflexivity|lia].
    + unfold conv_arg, conv_type_arg, l_type. simpl in E. destruct (is_float (tdt t)) eqn:F.
      * destruct (dt_eqb (tdt t) d) eqn:Q; inversion E; subst; (split; [|lia]).
        -- apply dt_eqb_eq in Q. subst. reflexivity.
        -- reflexivity.
      * inversion E; subst. split; [reflexivity|lia].
  - (* plain value *)
    simpl in E. inversion E; subst. split; [destruct m; reflexivity|lia].
  - (* nested operator *)
    remember (AOp c ch dn nd at_) as a eqn:Ha.
    assert (OA : on_arg (meth_call defdt f) m a n =
                 match m with
                 | MType d =>
                     match meth_call defdt f MClone a n with
                     | Some (a1, n1) =>
                         match dtype_of a1 with
                         | Some d1 => if is_float d1 then meth_call defdt f (MTo (Some d) None) a1 n1 else Some (a1, n1)
                         | None => None
                         end
                     | None => None
                     end
                 | _ => meth_call defdt f m a n
                 end) by (subst a; reflexivity).
    rewrite OA in E. clear OA.
    assert (TS : to_safe_sub a = to_safe a) by (subst a; reflexivity).
    assert (CT : forall d, conv_type_arg defdt d a =
                 if is_float_o (dtype_of (lmap defdt blank a)) then conv_to defdt (Some d) None a else lmap defdt blank a)
      by (subst a; reflexivity).
    clear Ha.
    destruct m as [| | |d dev|d].
    + apply (IH MClone a n a' n'); auto.
    + apply (IH MDetach a n a' n'); auto.
    + apply (IH MCpu a n a' n'); auto.
    + apply (IH (MTo d dev) a n a' n'); auto.
    + (* type: clone, then to(dtype) when the clone's dtype is floating *)
      unfold safe_arg in S. rewrite TS in S. apply andb_prop in S as [Fd Sa].
      destruct (meth_call defdt f MClone a n) as [[a1 n1]|] eqn:E1; [|discriminate].
      destruct (IH MClone a n a1 n1 W L eq_refl E1) as [C1 N1]. simpl in C1.
      assert (SA : strip a1 = strip a) by (rewrite C1; now apply lmap_blank_lossless).
      assert (D1 : dtype_of a1 = dtype_of (lmap defdt blank a)) by (rewrite <- C1; symmetry; apply dtype_of_strip).
      unfold conv_arg. rewrite CT, <- D1.
      destruct (dtype_of a1) as [d1|]; [|discriminate]. simpl.
      destruct (is_float d1).
      * assert (W1 : wfb a1 = true) by (rewrite <- wfb_strip, SA, wfb_strip; exact W).
        assert (L1 : losslessb defdt a1 = true) by (rewrite <- losslessb_strip, SA, losslessb_strip; exact L).
        assert (S1 : safeb (MTo (Some d) None) a1 = true).
        { simpl. rewrite Fd. simpl. rewrite <- to_safe_strip, SA, to_safe_strip. exact Sa. }
        destruct (IH (MTo (Some d) None) a1 n1 a' n' W1 L1 S1 E) as [C2 N2]. split; [|lia].
        rewrite C2. simpl. rewrite <- conv_to_strip, SA, conv_to_strip. reflexivity.
      * inversion E; subst. split; [exact C1|lia].
Qed.


(* ------------------------------------------------------------------ the specification keeps every class skeleton *)
Lemma sk_list_app l1 l2 : sk_list (l1 ++ l2) = sk_list l1 ++ sk_list l2.
Proof. now rewrite !sk_list_map, map_app. Qed.

Definition to_ok (d : option dt) (a : arg) : Prop :=
  match d with Some d' => is_float d' = true /\ to_safe a = true | None => True end.

Lemma sk_conv_to a : forall d dev, to_ok d a -> sk (conv_to defdt d dev a) = sk a.
Proof.
  induction a using arg_ind'; intros d dev OK.
  - simpl. destruct d as [d'|]; [|reflexivity]. destruct OK as [F S]. simpl in S. simpl. now rewrite F, S.
  - reflexivity.
  - rewrite conv_to_op.
    assert (SAFE : match d with
                   | Some d' => is_float d' = true /\
                       (if guarded c then sfix (nargs ch dn) ch 0
                        else if cls_eqb c CCat then forallb to_safe_sub ch
                        else if rebuilt_kw c then forallb (kw_child_ok c) ch
                        else forallb to_safe ch) = true
                   | None => True
                   end).
    { destruct d as [d'|]; [|exact I]. destruct OK as [F S]. rewrite to_safe_op in S. apply andb_prop in S as [_ S]. auto. }
    assert (TYP : forall d' x, is_float d' = true -> to_safe_sub x = true ->
                  (forall d dev, to_ok d x -> sk (conv_to defdt d dev x) = sk x) -> sk (conv_type_arg defdt d' x) = sk x).
    { intros d' x F S IHx. destruct x as [t|v|c0 ch0 dn0 nd0 at0]; [| reflexivity |].
      - simpl. unfold l_type. destruct (is_float (tdt t)) eqn:Q; simpl; [now rewrite F|now rewrite Q].
      - unfold conv_type_arg. destruct (is_float_o _).
        + apply IHx. split; assumption.
        + apply sk_lmap. reflexivity. }
    destruct (guarded c).
    + rewrite !sk_op. f_equal. rewrite gfix_spec, Nat.sub_0_r, sk_list_app.
      assert (E : sk_list ch = sk_list (firstn (nargs ch dn) ch) ++ sk_list (skipn (nargs ch dn) ch))
        by (rewrite <- sk_list_app, firstn_skipn; reflexivity).
      rewrite E. clear E. f_equal; rewrite !sk_list_map, map_map.
      * apply map_ext_Forall. apply Forall_forall. intros x Hx.
        assert (Hin : In x ch) by (rewrite <- (firstn_skipn (nargs ch dn) ch); apply in_or_app; now left).
        rewrite Forall_forall in H. specialize (H x Hin).
        destruct x as [t|v|c0 ch0 dn0 nd0 at0]; [| reflexivity |].
        -- unfold guard_arg. simpl dtype_of. destruct d as [d'|]; [|apply H; exact I].
           destruct SAFE as [F _]. destruct (Bool.eqb (is_float (tdt t)) (is_float d')) eqn:Q.
           ++ apply H. split; [exact F|]. simpl. rewrite F in Q. destruct (is_float (tdt t)); [reflexivity|discriminate].
           ++ apply H. exact I.
        -- unfold guard_arg. destruct d as [d'|]; [|destruct (dtype_of _); apply H; exact I].
           destruct (dtype_of (AOp c0 ch0 dn0 nd0 at0)) as [da|]; [|apply sk_strip].
           destruct SAFE as [F S].
           rewrite sfix_spec, Nat.sub_0_r in S. apply andb_prop in S as [S1 _].
           pose proof (forallb_In _ _ _ S1 Hx) as Sx.
           destruct (Bool.eqb (is_float da) (is_float d')); apply H; [split; assumption|exact I].
      * apply map_ext_Forall. apply Forall_forall. intros x Hx.
        assert (Hin : In x ch) by (rewrite <- (firstn_skipn (nargs ch dn) ch); apply in_or_app; now right).
        rewrite Forall_forall in H. apply (H x Hin). destruct d as [d'|]; [|exact I]. destruct SAFE as [F S].
        rewrite sfix_spec, Nat.sub_0_r in S. apply andb_prop in S as [_ S2]. split; [exact F|]. eapply forallb_In; eauto.
    + destruct (cls_eqb c CCat).
      * rewrite !sk_op. f_equal. rewrite !sk_list_map, map_map. apply map_ext_Forall. apply Forall_forall. intros x Hx.
        rewrite Forall_forall in H. specialize (H x Hx). destruct d as [d'|]; simpl; [|apply sk_strip].
        destruct SAFE as [F S]. apply TYP; auto. eapply forallb_In; eauto.
      * destruct (rebuilt_kw c); [rewrite !sk_op; now rewrite sk_list_strip|].
        rewrite !sk_op. f_equal. rewrite !sk_list_map, map_map. apply map_ext_Forall. apply Forall_forall. intros x Hx.
        rewrite Forall_forall in H. apply (H x Hx). destruct d as [d'|]; [|exact I]. destruct SAFE as [F S].
        split; [exact F|]. eapply forallb_In; eauto.
Qed.

Lemma sk_conv_type_arg d x : is_float d = true -> to_safe_sub x = true -> sk (conv_type_arg defdt d x) = sk x.
Proof.
  intros F S. destruct x as [t|v|c0 ch0 dn0 nd0 at0]; [| reflexivity |].
  - simpl. unfold l_type. destruct (is_float (tdt t)) eqn:Q; simpl; [now rewrite F|now rewrite Q].
  - unfold conv_type_arg. destruct (is_float_o _).
    + apply sk_conv_to. split; assumption.
    + apply sk_lmap. reflexivity.
Qed.

Lemma sk_conv_arg m x : safe_arg m x = true -> sk (conv_arg m x) = sk x.
Proof.
  intros S. destruct m as [| | |d dev|d]; simpl.
  - apply sk_lmap. reflexivity.
  - apply sk_lmap. reflexivity.
  - apply sk_lmap. reflexivity.
  - apply sk_conv_to. destruct d as [d'|]; [|exact I]. simpl in S. apply andb_prop in S. exact S.
  - simpl in S. apply andb_prop in S as [F S]. now apply sk_conv_type_arg.
Qed.


(* ------------------------------------------------------------------ one step of meth_call *)
Definition again (c : cls) (dn : list Z) (ch' : list arg) (nd' : list (Z * value)) (n' : nat) : option (arg * nat) :=
  match ctor defdt c (args_of ch' dn) (dkw_of ch' dn ++ lift nd') with Some r => Some (r, n') | None => None end.

Lemma meth_call_S f m c ch dn nd at_ n :
  meth_call defdt (S f) m (AOp c ch dn nd at_) n =
  let k := nargs ch dn in
  let generic := match map_st (on_arg (meth_call defdt f) m) ch n with
                 | Some (ch', n') => again c dn ch' nd n'
                 | None => None
                 end in
  match m with
  | MClone | MDetach | MCpu => generic
  | MTo d dev =>
      if guarded c then
        match map_st (on_arg_guarded (meth_call defdt f) d dev) (firstn k ch) n with
        | Some (a', n1) =>
            match map_st (on_arg (meth_call defdt f) m) (skipn k ch) n1 with
            | Some (kv', n2) =>
                if cls_eqb c CIdentity
                then match keep_or k_dtype (dt_val d) nd, keep_or k_device (dev_val dev) nd with
                     | Some vdt, Some vdev => again c dn (a' ++ kv') (set_key k_dtype vdt (set_key k_device vdev nd)) n2
                     | _, _ => None
                     end
                else again c dn (a' ++ kv') nd n2
            | None => None
            end
        | None => None
        end
      else if cls_eqb c CCat then
        match again c dn ch (set_key k_output_device (dev_val dev) nd) n with
        | Some (res, n1) => match d with Some d' => meth_call defdt f (MType d') res n1 | None => Some (res, n1) end
        | None => None
        end
      else if cls_eqb c CZero then
        match keep_or k_dtype (dt_val d) nd, keep_or k_device (dev_val dev) nd with
        | Some vdt, Some vdev =>
            match ctor defdt c (firstn k ch) (zero_kw vdt vdev) with Some r => Some (r, n) | None => None end
        | _, _ => None
        end
      else if is_perm_cls c then
        match keep_or k_dtype (dt_val d) nd with
        | Some vdt => again c dn ch (set_key k_dtype vdt nd) n
        | None => None
        end
      else generic
  | MType d =>
      if cls_eqb c CIdentity then
        match lookup k_diag_shape nd, lookup k_batch_shape nd, lookup k_device nd with
        | Some ds, Some bs, Some dv =>
            match ctor defdt CIdentity [] [(k_diag_shape, AOther ds); (k_batch_shape, AOther bs);
                                           (k_dtype, AOther (VDtype d)); (k_device, AOther dv)] with
            | Some r => Some (r, n) | None => None end
        | _, _, _ => None
        end
      else if cls_eqb c CTransposePermutation then again c dn ch (set_key k_dtype (VDtype d) nd) n
      else if cls_eqb c CPermutation then
        match map_st (on_arg (meth_call defdt f) MClone) ch n with
        | Some (ch', n') => again c dn ch' (set_key k_dtype (VDtype d) nd) n'
        | None => None
        end
      else if cls_eqb c CZero then
        match lookup k_device nd with
        | Some vdev => match ctor defdt c (firstn k ch) (zero_kw (VDtype d) vdev) with Some r => Some (r, n) | None => None end
        | None => None
        end
      else generic
  end.
Proof. reflexivity. Qed.

Lemma again_ok c dn ch' nd' n' :
  node_okb c ch' dn nd' = true -> again c dn ch' nd' n' = Some (AOp c ch' dn nd' (dflt c), n').
Proof. intros H. unfold again. now rewrite (ctor_stored defdt c ch' dn nd' (spec_ok_all c) H). Qed.

Lemma node_okb_sk c ch ch' dn nd : sk_list ch' = sk_list ch -> node_okb c ch' dn nd = node_okb c ch dn nd.
Proof. unfold node_okb. now intros ->. Qed.
Lemma node_okb_keys c ch dn nd nd' : keys nd' = keys nd -> node_okb c ch dn nd' = node_okb c ch dn nd.
Proof. unfold node_okb, node_okS. now intros ->. Qed.

Lemma map_st_ok (g : arg -> nat -> option (arg * nat)) (spec : arg -> arg) (P : arg -> Prop) :
  (forall a n a' n', P a -> g a n = Some (a', n') -> strip a' = spec a /\ n <= n') ->
  forall l n l' n', Forall P l -> map_st g l n = Some (l', n') -> strip_list l' = map spec l /\ n <= n'.
Proof.
  intros G l. induction l as [|x r IH]; intros n l' n' FP E; simpl in E.
  - inversion E; subst. split; [reflexivity|lia].
  - inversion FP; subst. destruct (g x n) as [[y n1]|] eqn:E1; [|discriminate].
    destruct (map_st g r n1) as [[ys n2]|] eqn:E2; [|discriminate]. inversion E; subst.
    destruct (G _ _ _ _ H1 E1) as [C1 N1]. destruct (IH _ _ _ H2 E2) as [C2 N2].
    split; [simpl; now rewrite C1, C2|lia].
Qed.

Lemma wfb_list_Forall l : wfb_list l = true -> Forall (fun x => wfb x = true) l.
Proof. induction l; simpl; intros H; constructor; apply andb_prop in H; tauto. Qed.
Lemma lossless_list_Forall l : losslessb_list defdt l = true -> Forall (fun x => losslessb defdt x = true) l.
Proof. induction l; simpl; intros H; constructor; apply andb_prop in H; tauto. Qed.
Lemma forallb_Forall {A} (f : A -> bool) l : forallb f l = true -> Forall (fun x => f x = true) l.
Proof. induction l; simpl; intros H; constructor; apply andb_prop in H; tauto. Qed.
Lemma Forall_and3 {A} (P Q R : A -> Prop) l : Forall P l -> Forall Q l -> Forall R l -> Forall (fun x => P x /\ Q x /\ R x) l.
Proof. intros HP. induction HP; intros HQ HR; inversion HQ; inversion HR; subst; constructor; auto. Qed.

Definition ok3 (m : meth) (x : arg) : Prop := wfb x = true /\ losslessb defdt x = true /\ safe_arg m x = true.

Lemma sk_list_conv_arg m l : Forall (ok3 m) l -> sk_list (map (conv_arg m) l) = sk_list l.
Proof.
  intros H. induction H as [|x r [_ [_ Hx]] Hr IH]; simpl; [reflexivity|]. now rewrite (sk_conv_arg m x Hx), IH.
Qed.

Lemma generic_ok' f : IHf f -> forall m c ch dn nd n o' n',
  Forall (ok3 m) ch -> node_okb c ch dn nd = true ->
  match map_st (on_arg (meth_call defdt f) m) ch n with
  | Some (ch', n') => again c dn ch' nd n'
  | None => None
  end = Some (o', n') ->
  exists ch', map_st (on_arg (meth_call defdt f) m) ch n = Some (ch', n') /\ o' = AOp c ch' dn nd (dflt c) /\
              strip_list ch' = map (conv_arg m) ch /\ n <= n'.
Proof.
  intros IH m c ch dn nd n o' n' F NOK E.
  destruct (map_st (on_arg (meth_call defdt f) m) ch n) as [[ch' n1]|] eqn:E1; [|discriminate].
  destruct (map_st_ok (on_arg (meth_call defdt f) m) (conv_arg m) (ok3 m)
              (fun a n a' n' (P : ok3 m a) => on_arg_ok f IH m a n a' n' (proj1 P) (proj1 (proj2 P)) (proj2 (proj2 P)))
              ch n ch' n1 F E1) as [C N].
  assert (NOK' : node_okb c ch' dn nd = true).
  { rewrite <- NOK. apply node_okb_sk. rewrite <- sk_list_strip, C. now apply sk_list_conv_arg. }
  rewrite (again_ok _ _ _ _ _ NOK') in E. inversion E; subst. exists ch'. auto.
Qed.

Lemma generic_ok f : IHf f -> forall m c ch dn nd n o' n',
  Forall (ok3 m) ch -> node_okb c ch dn nd = true ->
  match map_st (on_arg (meth_call defdt f) m) ch n with
  | Some (ch', n') => again c dn ch' nd n'
  | None => None
  end = Some (o', n') ->
  strip o' = AOp c (map (conv_arg m) ch) dn nd (dflt c) /\ n <= n'.
Proof.
  intros IH m c ch dn nd n o' n' F NOK E.
  destruct (generic_ok' f IH m c ch dn nd n o' n' F NOK E) as (ch' & _ & -> & C & N).
  split; [|exact N]. rewrite strip_op. now rewrite C.
Qed.


(* ------------------------------------------------------------------ the guarded positional loop of the to() overrides *)
Definition guard_ok (d : option dt) (x : arg) : Prop :=
  match d with Some d' => is_float d' = true /\ to_safe_sub x = true | None => True end.

Lemma on_arg_guarded_ok f : IHf f -> forall d dev a n a' n',
  wfb a = true -> losslessb defdt a = true -> guard_ok d a ->
  on_arg_guarded (meth_call defdt f) d dev a n = Some (a', n') -> strip a' = guard_arg d dev a /\ n <= n'.
Proof.
  intros IH d dev a n a' n' W L G E.
  assert (OG : on_arg_guarded (meth_call defdt f) d dev a n =
               match a with
               | AOther _ => Some (a, n)
               | _ => match dtype_of a, d with
                      | Some da, Some d' =>
                          if Bool.eqb (is_float da) (is_float d') then on_arg (meth_call defdt f) (MTo (Some d') dev) a n
                          else on_arg (meth_call defdt f) (MTo None dev) a n
                      | _, None => on_arg (meth_call defdt f) (MTo None dev) a n
                      | None, Some _ => None
                      end
               end) by (destruct a; reflexivity).
  rewrite OG in E. clear OG.
  assert (GA : guard_arg d dev a =
               match a with
               | AOther _ => a
               | _ => match dtype_of a, d with
                      | Some da, Some d' => if Bool.eqb (is_float da) (is_float d') then conv_to defdt d dev a
                                            else conv_to defdt None dev a
                      | _, None => conv_to defdt None dev a
                      | None, Some _ => strip a
                      end
               end) by (destruct a; reflexivity).
  rewrite GA. clear GA.
  assert (TS : forall da d', dtype_of a = Some da -> Bool.eqb (is_float da) (is_float d') = true -> is_float d' = true ->
               to_safe_sub a = true -> to_safe a = true).
  { intros da d' D Q F S. destruct a as [t|v|c ch dn nd at_]; [| reflexivity | exact S].
    simpl in D. inversion D; subst. simpl. rewrite F in Q. destruct (is_float (tdt t)); [reflexivity|discriminate]. }
  assert (NONE : on_arg (meth_call defdt f) (MTo None dev) a n = Some (a', n') ->
                 strip a' = conv_to defdt None dev a /\ n <= n').
  { intros E0. apply (on_arg_ok f IH (MTo None dev) _ n a' n' W L eq_refl E0). }
  destruct a as [t|v|c ch dn nd at_].
  - destruct d as [d'|].
    + destruct (dtype_of (ATensor t)) as [da|] eqn:D; [|discriminate].
      destruct G as [F S]. destruct (Bool.eqb (is_float da) (is_float d')) eqn:Q.
      * apply (on_arg_ok f IH (MTo (Some d') dev) _ n a' n' W L); [|exact E].
        simpl. rewrite F. simpl. exact (TS da d' eq_refl Q F S).
      * now apply NONE.
    + destruct (dtype_of (ATensor t)); now apply NONE.
  - inversion E; subst. split; [reflexivity|lia].
  - destruct d as [d'|].
    + destruct (dtype_of (AOp c ch dn nd at_)) as [da|] eqn:D; [|discriminate].
      destruct G as [F S]. destruct (Bool.eqb (is_float da) (is_float d')) eqn:Q.
      * apply (on_arg_ok f IH (MTo (Some d') dev) _ n a' n' W L); [|exact E].
        unfold safe_arg. rewrite F. simpl. exact (TS da d' eq_refl Q F S).
      * now apply NONE.
    + destruct (dtype_of (AOp c ch dn nd at_)); now apply NONE.
Qed.

Lemma sk_guard_arg d dev x : guard_ok d x -> sk (guard_arg d dev x) = sk x.
Proof.
  intros G. destruct x as [t|v|c0 ch0 dn0 nd0 at0]; [| reflexivity |].
  - unfold guard_arg. simpl dtype_of. destruct d as [d'|]; [|apply sk_conv_to; exact I]. destruct G as [F _].
    destruct (Bool.eqb (is_float (tdt t)) (is_float d')) eqn:Q.
    + apply sk_conv_to. split; [exact F|]. simpl. rewrite F in Q. destruct (is_float (tdt t)); [reflexivity|discriminate].
    + apply sk_conv_to. exact I.
  - unfold guard_arg. destruct d as [d'|]; [|destruct (dtype_of _); apply sk_conv_to; exact I].
    destruct (dtype_of (AOp c0 ch0 dn0 nd0 at0)) as [da|]; [|apply sk_strip].
    destruct G as [F S].
    destruct (Bool.eqb (is_float da) (is_float d')); apply sk_conv_to; [split; assumption|exact I].
Qed.

(* the dtype / device bookkeeping kwargs of a stored node are plain values *)
Lemma dt_key_in_nd c ch dn nd k :
  node_okb c ch dn nd = true -> In k (pkw_names (spec_of c)) -> is_dt_key k = true -> has_key k nd = true.
Proof.
  intros NOK Hp Hk. pose proof (node_ok_parts _ _ _ _ NOK) as P. cbv zeta in P.
  destruct P as (_ & _ & _ & _ & _ & _ & PKW & _ & _ & _ & HDT).
  apply has_key_in. specialize (PKW k Hp). apply in_app_or in PKW as [Hd|Hn]; [|exact Hn].
  pose proof (forallb_In _ _ _ HDT Hd) as Q. simpl in Q. rewrite Hk in Q. discriminate.
Qed.


Lemma keys_set2 (nd : list (Z * value)) v1 v2 :
  has_key k_device nd = true -> has_key k_dtype nd = true -> keys (set_key k_dtype v1 (set_key k_device v2 nd)) = keys nd.
Proof.
  intros H1 H2. rewrite set_key_keys_in.
  - now apply set_key_keys_in.
  - unfold has_key. rewrite lookup_set_key. destruct (Z.eqb k_dtype k_device); [reflexivity|]. exact H2.
Qed.
Lemma guarded_not_zero c : guarded c = true -> cls_eqb c CZero = false.
Proof.
  unfold guarded. intros H. apply orb_prop in H as [H|H]; [apply orb_prop in H as [H|H]|];
    apply cls_eqb_eq in H; subst; reflexivity.
Qed.
Lemma guarded_not_permcls c : guarded c = true -> is_perm_cls c = false.
Proof.
  unfold guarded. intros H. apply orb_prop in H as [H|H]; [apply orb_prop in H as [H|H]|];
    apply cls_eqb_eq in H; subst; reflexivity.
Qed.
Lemma guarded_not_perm c : guarded c = true -> cls_eqb c CPermutation = false.
Proof.
  unfold guarded. intros H. apply orb_prop in H as [H|H]; [apply orb_prop in H as [H|H]|];
    apply cls_eqb_eq in H; subst; reflexivity.
Qed.

(* ------------------------------------------------------------------ the branches of one meth_call step *)
Lemma children_ok m c ch dn nd at_ :
  wfb (AOp c ch dn nd at_) = true -> losslessb defdt (AOp c ch dn nd at_) = true ->
  Forall (fun x => safe_arg m x = true) ch -> Forall (ok3 m) ch.
Proof.
  intros W L S. rewrite wfb_op in W. rewrite losslessb_op in L.
  apply andb_prop in W as [_ W]. apply andb_prop in L as [_ L].
  apply Forall_and3; auto using wfb_list_Forall, lossless_list_Forall.
Qed.

Lemma forall_true {A} (l : list A) : Forall (fun _ => true = true) l.
Proof. induction l; constructor; auto. Qed.

Lemma branch_to_guarded f : IHf f -> forall d dev c ch dn nd at_ n o' n',
  guarded c = true ->
  wfb (AOp c ch dn nd at_) = true -> losslessb defdt (AOp c ch dn nd at_) = true ->
  safeb (MTo d dev) (AOp c ch dn nd at_) = true ->
  meth_call defdt (S f) (MTo d dev) (AOp c ch dn nd at_) n = Some (o', n') ->
  strip o' = conv_to defdt d dev (AOp c ch dn nd at_) /\ n <= n'.
Proof.
  intros IH d dev c ch dn nd at_ n o' n' G W L S E.
  rewrite meth_call_S in E. cbv zeta in E. rewrite G in E.
  set (k := nargs ch dn) in *.
  pose proof W as W0. pose proof L as L0.
  rewrite wfb_op in W. rewrite losslessb_op in L.
  apply andb_prop in W as [NOK WL]. apply andb_prop in L as [_ LL].
  assert (SF : match d with
               | Some d' => is_float d' = true /\ forallb to_safe_sub (firstn k ch) = true /\ forallb to_safe (skipn k ch) = true
               | None => True
               end).
  { destruct d as [d'|]; [|exact I]. rewrite safeb_to_op in S. apply andb_prop in S as [F T].
    rewrite to_safe_op, G in T. apply andb_prop in T as [_ T]. fold k in T. rewrite sfix_spec, Nat.sub_0_r in T.
    apply andb_prop in T. tauto. }
  assert (P1 : Forall (fun x => wfb x = true /\ losslessb defdt x = true /\ guard_ok d x) (firstn k ch)).
  { apply Forall_and3; auto using Forall_firstn, wfb_list_Forall, lossless_list_Forall.
    destruct d as [d'|]; [|apply Forall_forall; intros; exact I]. destruct SF as (F & T1 & _).
    apply forallb_Forall in T1. eapply Forall_impl; [|exact T1]. simpl. auto. }
  assert (P2 : Forall (ok3 (MTo d dev)) (skipn k ch)).
  { apply Forall_and3; auto using Forall_skipn, wfb_list_Forall, lossless_list_Forall.
    destruct d as [d'|]; [|apply forall_true]. destruct SF as (F & _ & T2).
    apply forallb_Forall in T2. eapply Forall_impl; [|exact T2]. simpl. intros a Ha. now rewrite F, Ha. }
  destruct (map_st (on_arg_guarded (meth_call defdt f) d dev) (firstn k ch) n) as [[a' n1]|] eqn:E1; [|discriminate].
  destruct (map_st (on_arg (meth_call defdt f) (MTo d dev)) (skipn k ch) n1) as [[kv' n2]|] eqn:E2; [|discriminate].
  destruct (map_st_ok _ (guard_arg d dev) _
              (fun a n a' n' (P : wfb a = true /\ losslessb defdt a = true /\ guard_ok d a) =>
                 on_arg_guarded_ok f IH d dev a n a' n' (proj1 P) (proj1 (proj2 P)) (proj2 (proj2 P)))
              _ _ _ _ P1 E1) as [C1 N1].
  destruct (map_st_ok _ (conv_arg (MTo d dev)) (ok3 (MTo d dev))
              (fun a n a' n' (P : ok3 (MTo d dev) a) =>
                 on_arg_ok f IH (MTo d dev) a n a' n' (proj1 P) (proj1 (proj2 P)) (proj2 (proj2 P)))
              _ _ _ _ P2 E2) as [C2 N2].
  assert (SK : sk_list (a' ++ kv') = sk_list ch).
  { rewrite sk_list_app, <- (sk_list_strip a'), <- (sk_list_strip kv'), C1, C2.
    rewrite <- (firstn_skipn k ch) at 3. rewrite sk_list_app. f_equal.
    - rewrite !sk_list_map, map_map. apply map_ext_Forall. eapply Forall_impl; [|exact P1].
      intros x (_ & _ & Gx). now apply sk_guard_arg.
    - now apply sk_list_conv_arg. }
  assert (ST : strip_list (a' ++ kv') = gfix d dev k ch 0).
  { rewrite gfix_spec, Nat.sub_0_r.
    change (map (conv_to defdt d dev) (skipn k ch)) with (map (conv_arg (MTo d dev)) (skipn k ch)).
    rewrite <- C1, <- C2, !strip_list_map. apply map_app. }
  assert (FIN : forall nd', keys nd' = keys nd -> again c dn (a' ++ kv') nd' n2 = Some (o', n') ->
                strip o' = AOp c (gfix d dev k ch 0) dn nd' (dflt c) /\ n <= n').
  { intros nd' K A. assert (NOK' : node_okb c (a' ++ kv') dn nd' = true).
    { rewrite (node_okb_keys c _ dn nd nd' K). rewrite <- NOK. now apply node_okb_sk. }
    rewrite (again_ok _ _ _ _ _ NOK') in A. inversion A; subst. split; [|lia]. now rewrite strip_op, ST. }
  rewrite conv_to_op, G. fold k. unfold nd_to, keeps_dt.
  destruct (cls_eqb c CIdentity) eqn:ID.
  - simpl. destruct (keep_or k_dtype (dt_val d) nd) as [vdt|]; [|discriminate].
    destruct (keep_or k_device (dev_val dev) nd) as [vdev|]; [|discriminate].
    apply FIN; [|exact E]. apply cls_eqb_eq in ID. subst c.
    assert (H1 : has_key k_device nd = true) by (eapply dt_key_in_nd; eauto; vm_compute; tauto).
    assert (H2 : has_key k_dtype nd = true) by (eapply dt_key_in_nd; eauto; vm_compute; tauto).
    now apply keys_set2.
  - rewrite (guarded_not_zero c G), (guarded_not_permcls c G). simpl. apply FIN; [reflexivity|exact E].
Qed.


Lemma branch_to_cat f : IHf f -> forall d dev ch dn nd at_ n o' n',
  wfb (AOp CCat ch dn nd at_) = true -> losslessb defdt (AOp CCat ch dn nd at_) = true ->
  safeb (MTo d dev) (AOp CCat ch dn nd at_) = true ->
  meth_call defdt (S f) (MTo d dev) (AOp CCat ch dn nd at_) n = Some (o', n') ->
  strip o' = conv_to defdt d dev (AOp CCat ch dn nd at_) /\ n <= n'.
Proof.
  intros IH d dev ch dn nd at_ n o' n' W L S E.
  rewrite meth_call_S in E. cbv zeta in E.
  change (guarded CCat) with false in E. change (cls_eqb CCat CCat) with true in E. cbv iota in E.
  pose proof W as W0. rewrite wfb_op in W. rewrite losslessb_op in L.
  apply andb_prop in W as [NOK WL]. apply andb_prop in L as [_ LL].
  set (nd1 := set_key k_output_device (dev_val dev) nd) in *.
  assert (K : keys nd1 = keys nd).
  { apply set_key_keys_in. eapply dt_key_in_nd; eauto; vm_compute; tauto. }
  assert (NOK1 : node_okb CCat ch dn nd1 = true) by (now rewrite (node_okb_keys CCat ch dn nd nd1 K)).
  rewrite (again_ok _ _ _ _ _ NOK1) in E.
  rewrite conv_to_op. change (guarded CCat) with false. change (cls_eqb CCat CCat) with true. cbv iota. fold nd1.
  destruct d as [d'|].
  - assert (W1 : wfb (AOp CCat ch dn nd1 (dflt CCat)) = true) by (rewrite wfb_op, NOK1, WL; reflexivity).
    assert (L1 : losslessb defdt (AOp CCat ch dn nd1 (dflt CCat)) = true)
      by (rewrite losslessb_op, kvl_eqb_refl, LL; reflexivity).
    assert (S1 : safeb (MType d') (AOp CCat ch dn nd1 (dflt CCat)) = true).
    { rewrite safeb_to_op in S. apply andb_prop in S as [F T]. rewrite to_safe_op in T.
      change (guarded CCat) with false in T. change (cls_eqb CCat CCat) with true in T. cbv iota in T.
      apply andb_prop in T as [_ T]. simpl. rewrite F, T. reflexivity. }
    destruct (IH (MType d') _ n o' n' W1 L1 S1 E) as [C N]. split; [|exact N]. rewrite C. reflexivity.
  - inversion E; subst. split; [|lia]. rewrite strip_op, strip_list_map. reflexivity.
Qed.

Lemma branch_type_identity d ch dn nd at_ n o' n' :
  wfb (AOp CIdentity ch dn nd at_) = true ->
  match lookup k_diag_shape nd, lookup k_batch_shape nd, lookup k_device nd with
  | Some ds, Some bs, Some dv =>
      match ctor defdt CIdentity [] [(k_diag_shape, AOther ds); (k_batch_shape, AOther bs);
                                     (k_dtype, AOther (VDtype d)); (k_device, AOther dv)] with
      | Some r => Some (r, n) | None => None end
  | _, _, _ => None
  end = Some (o', n') ->
  strip o' = AOp CIdentity ch dn (set_key k_dtype (VDtype d) nd) (dflt CIdentity) /\ n <= n'.
Proof.
  intros W E. rewrite wfb_op in W. apply andb_prop in W as [NOK _].
  pose proof (node_ok_parts _ _ _ _ NOK) as P. cbv zeta in P.
  destruct P as (LEN & NPOS & SD & SN & DJ & DIFF & PKW & KEYS & NORM & BD & HDT).
  destruct (lookup k_diag_shape nd) as [ds|] eqn:L1; [|discriminate].
  destruct (lookup k_batch_shape nd) as [bs|] eqn:L2; [|discriminate].
  destruct (lookup k_device nd) as [dv|] eqn:L3; [|discriminate].
  (* every keyword of the node is one of the four parameters; none of them is differentiable *)
  assert (FOUR : forall k, In k (dn ++ keys nd) -> k = k_diag_shape \/ k = k_batch_shape \/ k = k_dtype \/ k = k_device).
  { intros k Hk. destruct (KEYS k Hk) as [Hp|[Hv _]]; [|discriminate Hv].
    revert Hp. unfold pkw_names. simpl. intros [<- | [<- | [<- | [<- | []]]]]; auto. }
  assert (DN : dn = []).
  { destruct dn as [|k r]; [reflexivity|]. exfalso.
    assert (Hin : In k (k :: r)) by now left.
    pose proof (forallb_In _ _ _ HDT Hin) as Q. simpl in Q.
    destruct (FOUR k (in_or_app _ _ _ (or_introl Hin))) as [-> | [-> | [-> | ->]]]; try discriminate Q.
    - apply (DJ k_diag_shape Hin). eapply lookup_in; eauto.
    - apply (DJ k_batch_shape Hin). eapply lookup_in; eauto. }
  subst dn.
  assert (CH : ch = []).
  { assert (Z0 : length ch - 0 = 0) by (apply NPOS; reflexivity). destruct ch; [reflexivity|simpl in Z0; lia]. }
  subst ch.
  set (nd2 := set_key k_dtype (VDtype d) nd).
  assert (HD : has_key k_dtype nd = true) by (eapply dt_key_in_nd; eauto; vm_compute; tauto).
  assert (K : keys nd2 = keys nd) by (now apply set_key_keys_in).
  assert (NOK2 : node_okb CIdentity [] [] nd2 = true) by (now rewrite (node_okb_keys CIdentity [] [] nd nd2 K)).
  change (@nil arg) with (args_of [] []) in E at 1.
  rewrite (ctor_stored_gen defdt CIdentity [] [] nd2 _ (spec_ok_all _) NOK2) in E.
  - inversion E; subst. split; [reflexivity|lia].
  - apply znodupb_nodup. vm_compute. reflexivity.
  - intros k. simpl. change (dkw_of [] [] ++ lift nd2) with (lift nd2). rewrite lookup_lift. unfold nd2.
    rewrite lookup_set_key.
    destruct (Z.eqb_spec k k_diag_shape) as [->|N1]; [now rewrite L1|].
    destruct (Z.eqb_spec k k_batch_shape) as [->|N2]; [now rewrite L2|].
    destruct (Z.eqb_spec k k_dtype) as [->|N3]; [reflexivity|].
    destruct (Z.eqb_spec k k_device) as [->|N4]; [now rewrite L3|].
    destruct (lookup k nd) as [v|] eqn:Lk; [|reflexivity]. exfalso.
    apply lookup_in in Lk. destruct (FOUR k (in_or_app _ _ _ (or_intror Lk))) as [?|[?|[?|?]]]; congruence.
Qed.

(* ------------------------------------------------------------------ overrides that call the constructor with explicit keywords *)
Lemma ctor_explicit c ch nd2 kw :
  node_okb c ch [] nd2 = true -> znodupb (keys kw) = true ->
  (forall k, lookup k kw = option_map AOther (lookup k nd2)) ->
  ctor defdt c (firstn (nargs ch []) ch) kw = Some (AOp c ch [] nd2 (dflt c)).
Proof.
  intros NOK ND LK. change (firstn (nargs ch []) ch) with (args_of ch []).
  apply ctor_stored_gen; [apply spec_ok_all|exact NOK|now apply znodupb_nodup|].
  intros k. change (dkw_of ch [] ++ lift nd2) with (lift nd2). now rewrite lookup_lift, LK.
Qed.

Lemma set_key_same {V} k (v : V) l : lookup k l = Some v -> set_key k v l = l.
Proof.
  induction l as [|[k' v'] r IH]; simpl; [discriminate|].
  destruct (Z.eqb_spec k k') as [->|N]; intros H.
  - inversion H; subst. reflexivity.
  - now rewrite IH.
Qed.

(* a stored ZeroLinearOperator has no differentiable keyword and exactly the keywords dtype and device *)
Lemma zero_shape ch dn nd : node_okb CZero ch dn nd = true ->
  dn = [] /\ has_key k_device nd = true /\ has_key k_dtype nd = true /\
  (forall k, In k (keys nd) -> k = k_dtype \/ k = k_device).
Proof.
  intros NOK. pose proof (node_ok_parts _ _ _ _ NOK) as P. cbv zeta in P.
  destruct P as (LEN & NPOS & SD & SN & DJ & DIFF & PKW & KEYS & NORM & BD & HDT).
  assert (TWO : forall k, In k (dn ++ keys nd) -> k = k_dtype \/ k = k_device).
  { intros k Hk. destruct (KEYS k Hk) as [Hp|[Hv _]]; [|discriminate Hv].
    revert Hp. unfold pkw_names. simpl. intros [<- | [<- | []]]; auto. }
  assert (DN : dn = []).
  { destruct dn as [|k r]; [reflexivity|]. exfalso.
    assert (Hin : In k (k :: r)) by now left.
    pose proof (forallb_In _ _ _ HDT Hin) as Q. simpl in Q.
    destruct (TWO k (in_or_app _ _ _ (or_introl Hin))) as [-> | ->]; discriminate Q. }
  subst dn. repeat split.
  - eapply dt_key_in_nd; eauto; vm_compute; tauto.
  - eapply dt_key_in_nd; eauto; vm_compute; tauto.
  - intros k Hk. apply TWO. exact Hk.
Qed.

Lemma zero_ctor ch dn nd vdt vdev :
  node_okb CZero ch dn nd = true ->
  ctor defdt CZero (firstn (nargs ch dn) ch) (zero_kw vdt vdev) =
  Some (AOp CZero ch dn (set_key k_dtype vdt (set_key k_device vdev nd)) (dflt CZero)).
Proof.
  intros NOK. destruct (zero_shape ch dn nd NOK) as (-> & H1 & H2 & TWO).
  set (nd2 := set_key k_dtype vdt (set_key k_device vdev nd)).
  assert (K : keys nd2 = keys nd) by (now apply keys_set2).
  apply ctor_explicit.
  - now rewrite (node_okb_keys CZero ch [] nd nd2 K).
  - vm_compute. reflexivity.
  - intros k. unfold nd2, zero_kw. rewrite !lookup_set_key. simpl.
    destruct (Z.eqb_spec k k_dtype) as [->|N1]; [reflexivity|].
    destruct (Z.eqb_spec k k_device) as [->|N2]; [reflexivity|].
    destruct (lookup k nd) as [v|] eqn:Lk; [|reflexivity]. exfalso.
    apply lookup_in in Lk. destruct (TWO k Lk); congruence.
Qed.

Lemma branch_to_zero d dev ch dn nd at_ n o' n' :
  wfb (AOp CZero ch dn nd at_) = true ->
  match keep_or k_dtype (dt_val d) nd, keep_or k_device (dev_val dev) nd with
  | Some vdt, Some vdev =>
      match ctor defdt CZero (firstn (nargs ch dn) ch) (zero_kw vdt vdev) with Some r => Some (r, n) | None => None end
  | _, _ => None
  end = Some (o', n') ->
  strip o' = conv_to defdt d dev (AOp CZero ch dn nd at_) /\ n <= n'.
Proof.
  intros W E. rewrite wfb_op in W. apply andb_prop in W as [NOK _].
  rewrite conv_to_op. change (guarded CZero) with false. change (cls_eqb CZero CCat) with false.
  change (rebuilt_kw CZero) with true. cbv iota.
  unfold nd_to. change (cls_eqb CZero CIdentity || cls_eqb CZero CZero) with true. cbv iota.
  destruct (keep_or k_dtype (dt_val d) nd) as [vdt|]; [|discriminate].
  destruct (keep_or k_device (dev_val dev) nd) as [vdev|]; [|discriminate].
  rewrite (zero_ctor ch dn nd vdt vdev NOK) in E. inversion E; subst. split; [reflexivity|lia].
Qed.

Lemma branch_type_zero d ch dn nd at_ n o' n' :
  wfb (AOp CZero ch dn nd at_) = true ->
  match lookup k_device nd with
  | Some vdev => match ctor defdt CZero (firstn (nargs ch dn) ch) (zero_kw (VDtype d) vdev) with Some r => Some (r, n) | None => None end
  | None => None
  end = Some (o', n') ->
  strip o' = AOp CZero (strip_list ch) dn (set_key k_dtype (VDtype d) nd) (dflt CZero) /\ n <= n'.
Proof.
  intros W E. rewrite wfb_op in W. apply andb_prop in W as [NOK _].
  destruct (lookup k_device nd) as [vdev|] eqn:LD; [|discriminate].
  rewrite (zero_ctor ch dn nd (VDtype d) vdev NOK) in E. inversion E; subst.
  rewrite (set_key_same _ _ _ LD). split; [reflexivity|lia].
Qed.

(* Permutation / TransposePermutation: to() and type() rebuild from the very same arguments with the dtype keyword *)
Lemma perm_cls_cases c : is_perm_cls c = true -> c = CPermutation \/ c = CTransposePermutation.
Proof. unfold is_perm_cls. intros H. apply orb_prop in H as [H|H]; apply cls_eqb_eq in H; auto. Qed.
Lemma perm_dt_key c ch dn nd : is_perm_cls c = true -> node_okb c ch dn nd = true -> has_key k_dtype nd = true.
Proof.
  intros P NOK. apply (dt_key_in_nd c ch dn nd k_dtype NOK); [|reflexivity].
  destruct (perm_cls_cases c P) as [-> | ->]; vm_compute; tauto.
Qed.
Lemma nd_to_perm c d dev nd : is_perm_cls c = true ->
  nd_to c d dev nd = match keep_or k_dtype (dt_val d) nd with Some vdt => set_key k_dtype vdt nd | None => nd end.
Proof. intros P. unfold nd_to. rewrite P. destruct (perm_cls_cases c P) as [-> | ->]; reflexivity. Qed.

Lemma branch_to_permcls d dev c ch dn nd at_ (n : nat) o' (n' : nat) :
  is_perm_cls c = true -> wfb (AOp c ch dn nd at_) = true ->
  match keep_or k_dtype (dt_val d) nd with
  | Some vdt => again c dn ch (set_key k_dtype vdt nd) n
  | None => None
  end = Some (o', n') ->
  o' = AOp c ch dn (nd_to c d dev nd) (dflt c) /\ n' = n.
Proof.
  intros P W E. rewrite wfb_op in W. apply andb_prop in W as [NOK _].
  rewrite (nd_to_perm c d dev nd P).
  destruct (keep_or k_dtype (dt_val d) nd) as [vdt|]; [|discriminate].
  assert (K : keys (set_key k_dtype vdt nd) = keys nd) by (apply set_key_keys_in; eapply perm_dt_key; eauto).
  assert (NOK2 : node_okb c ch dn (set_key k_dtype vdt nd) = true) by (now rewrite (node_okb_keys c ch dn nd _ K)).
  rewrite (again_ok _ _ _ _ _ NOK2) in E. inversion E; subst. split; reflexivity.
Qed.

Lemma branch_type_set c (ch' : list arg) dn nd d (n : nat) o' (n' : nat) :
  is_perm_cls c = true -> node_okb c ch' dn nd = true ->
  again c dn ch' (set_key k_dtype (VDtype d) nd) n = Some (o', n') ->
  o' = AOp c ch' dn (set_key k_dtype (VDtype d) nd) (dflt c) /\ n' = n.
Proof.
  intros P NOK E.
  assert (K : keys (set_key k_dtype (VDtype d) nd) = keys nd) by (apply set_key_keys_in; eapply perm_dt_key; eauto).
  assert (NOK2 : node_okb c ch' dn (set_key k_dtype (VDtype d) nd) = true) by (now rewrite (node_okb_keys c ch' dn nd _ K)).
  rewrite (again_ok _ _ _ _ _ NOK2) in E. inversion E; subst. split; reflexivity.
Qed.

(* ------------------------------------------------------------------ the theorem *)
Theorem meth_call_conv : forall f, IHf f.
Proof.
  induction f as [|f IH]; intros m o n o' n' W L S E; [discriminate|].
  destruct o as [t|v|c ch dn nd at_]; try discriminate.
  pose proof W as W0. pose proof L as L0.
  rewrite wfb_op in W. rewrite losslessb_op in L.
  apply andb_prop in W as [NOK WL]. apply andb_prop in L as [_ LL].
  destruct m as [| | |d dev|d].
  - rewrite meth_call_S in E. cbv zeta in E.
    destruct (generic_ok f IH MClone c ch dn nd n o' n' (children_ok MClone c ch dn nd at_ W0 L0 (forall_true ch)) NOK E) as [C N].
    split; [|exact N]. rewrite C. simpl. fold (lmap_list defdt blank). now rewrite lmap_list_map.
  - rewrite meth_call_S in E. cbv zeta in E.
    destruct (generic_ok f IH MDetach c ch dn nd n o' n' (children_ok MDetach c ch dn nd at_ W0 L0 (forall_true ch)) NOK E) as [C N].
    split; [|exact N]. rewrite C. simpl. fold (lmap_list defdt l_detach). now rewrite lmap_list_map.
  - rewrite meth_call_S in E. cbv zeta in E.
    destruct (generic_ok f IH MCpu c ch dn nd n o' n' (children_ok MCpu c ch dn nd at_ W0 L0 (forall_true ch)) NOK E) as [C N].
    split; [|exact N]. rewrite C. simpl. fold (lmap_list defdt blank). now rewrite lmap_list_map.
  - (* to *)
    destruct (guarded c) eqn:G; [now apply (branch_to_guarded f IH d dev c ch dn nd at_ n o' n' G W0 L0 S E)|].
    destruct (cls_eqb c CCat) eqn:CAT.
    + apply cls_eqb_eq in CAT. subst c. now apply (branch_to_cat f IH d dev ch dn nd at_ n o' n' W0 L0 S E).
    + destruct (cls_eqb c CZero) eqn:ZERO.
      { apply cls_eqb_eq in ZERO. subst c. rewrite meth_call_S in E. cbv zeta in E.
        change (guarded CZero) with false in E. change (cls_eqb CZero CCat) with false in E.
        change (cls_eqb CZero CZero) with true in E. cbv iota in E.
        now apply (branch_to_zero d dev ch dn nd at_ n o' n' W0 E). }
      destruct (is_perm_cls c) eqn:PERM.
      { rewrite meth_call_S in E. cbv zeta in E. rewrite G, CAT, ZERO, PERM in E.
        unfold conv. rewrite conv_to_op, G, CAT. unfold rebuilt_kw. rewrite ZERO, PERM. cbv [orb].
        destruct (branch_to_permcls d dev c ch dn nd at_ n o' n' PERM W0 E) as [-> ->]. split; [reflexivity|lia]. }
      assert (SA : Forall (fun x => safe_arg (MTo d dev) x = true) ch).
      { destruct d as [d'|]; [|apply forall_true]. rewrite safeb_to_op in S. apply andb_prop in S as [F T].
        rewrite to_safe_op, G, CAT in T. unfold rebuilt_kw in T. rewrite ZERO, PERM in T. cbv [orb] in T.
        apply andb_prop in T as [_ T]. apply forallb_Forall in T.
        eapply Forall_impl; [|exact T]. simpl. intros a Ha. now rewrite F, Ha. }
      rewrite meth_call_S in E. cbv zeta in E. rewrite G, CAT, ZERO, PERM in E.
      destruct (generic_ok f IH (MTo d dev) c ch dn nd n o' n' (children_ok (MTo d dev) c ch dn nd at_ W0 L0 SA) NOK E) as [C N].
      split; [|exact N]. rewrite C. unfold conv. rewrite conv_to_op, G, CAT. unfold rebuilt_kw. rewrite ZERO, PERM. reflexivity.
  - (* type *)
    simpl in S. apply andb_prop in S as [F T]. apply andb_prop in T as [T TZ]. apply andb_prop in T as [T TI].
    destruct (cls_eqb c CIdentity) eqn:ID.
    + apply cls_eqb_eq in ID. subst c. rewrite meth_call_S in E. cbv zeta in E.
      change (cls_eqb CIdentity CIdentity) with true in E. cbv iota in E.
      destruct (branch_type_identity d ch dn nd at_ n o' n' W0 E) as [C N]. split; [|exact N]. rewrite C.
      simpl in TI. destruct ch; [reflexivity|discriminate].
    + destruct (cls_eqb c CTransposePermutation) eqn:TP.
      * rewrite meth_call_S in E. cbv zeta in E. rewrite ID, TP in E.
        assert (P : is_perm_cls c = true) by (unfold is_perm_cls; rewrite TP; apply orb_true_r).
        destruct (branch_type_set c ch dn nd d n o' n' P NOK E) as [-> ->]. split; [|lia].
        apply cls_eqb_eq in TP. subst c. reflexivity.
      * destruct (cls_eqb c CPermutation) eqn:PM.
        -- assert (P : is_perm_cls c = true) by (unfold is_perm_cls; now rewrite PM).
           rewrite meth_call_S in E. cbv zeta in E. rewrite ID, TP, PM in E.
           assert (K : keys (set_key k_dtype (VDtype d) nd) = keys nd) by (apply set_key_keys_in; eapply perm_dt_key; eauto).
           assert (NOK2 : node_okb c ch dn (set_key k_dtype (VDtype d) nd) = true) by (now rewrite (node_okb_keys c ch dn nd _ K)).
           destruct (generic_ok' f IH MClone c ch dn (set_key k_dtype (VDtype d) nd) n o' n'
                       (children_ok MClone c ch dn nd at_ W0 L0 (forall_true ch)) NOK2 E) as (ch' & _ & -> & C & N).
           split; [|exact N]. rewrite strip_op, C. apply cls_eqb_eq in PM. subst c. simpl. f_equal.
           rewrite strip_list_map. apply map_ext_Forall. pose proof (lossless_list_Forall ch LL) as LF.
           eapply Forall_impl; [|exact LF]. intros a La. now apply lmap_blank_lossless.
        -- destruct (cls_eqb c CZero) eqn:ZERO.
           ++ apply cls_eqb_eq in ZERO. subst c. rewrite meth_call_S in E. cbv zeta in E.
              change (cls_eqb CZero CIdentity) with false in E. change (cls_eqb CZero CTransposePermutation) with false in E.
              change (cls_eqb CZero CPermutation) with false in E. change (cls_eqb CZero CZero) with true in E. cbv iota in E.
              destruct (branch_type_zero d ch dn nd at_ n o' n' W0 E) as [C N]. split; [|exact N]. rewrite C. reflexivity.
           ++ assert (SA : Forall (fun x => safe_arg (MType d) x = true) ch).
              { apply forallb_Forall in T. eapply Forall_impl; [|exact T]. simpl. intros a Ha. now rewrite F, Ha. }
              rewrite meth_call_S in E. cbv zeta in E. rewrite ID, TP, PM, ZERO in E.
              destruct (generic_ok f IH (MType d) c ch dn nd n o' n' (children_ok (MType d) c ch dn nd at_ W0 L0 SA) NOK E) as [C N].
              split; [|exact N]. rewrite C. simpl. unfold keeps_dt, is_perm_cls. now rewrite ID, TP, PM, ZERO.
Qed.


(* ------------------------------------------------------------------ clones share no storage *)
Lemma leaves_op' c ch dn nd at_ : leaves (AOp c ch dn nd at_) = leaves_list ch.
Proof. reflexivity. Qed.

(* clone() gives every leaf a storage of its own: the fresh identities n, n+1, ... in leaf order *)
Theorem clone_fresh : forall f o n o' n',
  wfb o = true -> losslessb defdt o = true ->
  meth_call defdt f MClone o n = Some (o', n') ->
  map tid (leaves o') = seq n (length (leaves o)) /\ n' = n + length (leaves o).
Proof.
  induction f as [|f IH]; intros o n o' n' W L E; [discriminate|].
  destruct o as [t|v|c ch dn nd at_]; try discriminate.
  rewrite meth_call_S in E. cbv zeta in E.
  pose proof (children_ok MClone c ch dn nd at_ W L (forall_true ch)) as OK.
  rewrite wfb_op in W. apply andb_prop in W as [NOK _].
  destruct (generic_ok' f (meth_call_conv f) MClone c ch dn nd n o' n' OK NOK E) as (ch' & M & -> & _ & _).
  rewrite !leaves_op'. clear E NOK L.
  revert n ch' n' M. induction OK as [|x r [Wx [Lx _]] Hr IHr]; intros n ch' n' M; simpl in M.
  - inversion M; subst. split; [reflexivity|simpl; lia].
  - destruct (on_arg (meth_call defdt f) MClone x n) as [[y n1]|] eqn:E1; [|discriminate].
    destruct (map_st (on_arg (meth_call defdt f) MClone) r n1) as [[ys n2]|] eqn:E2; [|discriminate].
    inversion M; subst. destruct (IHr _ _ _ E2) as [I1 I2]. simpl.
    assert (X : map tid (leaves y) = seq n (length (leaves x)) /\ n1 = n + length (leaves x)).
    { destruct x as [t|v|c0 ch0 dn0 nd0 at0].
      - simpl in E1. inversion E1; subst. simpl. split; [reflexivity|lia].
      - simpl in E1. inversion E1; subst. simpl. split; [reflexivity|lia].
      - apply (IH _ _ _ _ Wx Lx). exact E1. }
    destruct X as [X1 X2]. rewrite !map_app, !app_length, X1, I1, seq_app. subst n1. split; [reflexivity|lia].
Qed.

End WithDef.
