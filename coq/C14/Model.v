(* C14 — executable model (definitions only).  Transcribes, on the abstraction of Types.v:

   linear_operator/operators/_linear_operator.py
       LinearOperator.__init__        -> base_init   (sorted kwargs, differentiable / non-differentiable split)
       representation()               -> repr
       representation_tree()          -> mk          (LinearOperatorRepresentationTree.__init__: running counter,
                                                      child trees restart at 0 inside their slice)
       clone/detach/cpu/to/type       -> meth_call   (generic path: rebuild through self.__class__( *args, **kwargs ))
       double()/float()               -> meth_call (MType F64 / F32)
       evaluate_kernel()              -> rebuild
       dtype property                 -> dtype_of
   linear_operator/operators/linear_operator_representation_tree.py   __call__ -> call
   linear_operator/utils/generic.py   _to_helper -> to_helper
   to()/type() overrides of identity_, zero_, interpolated_, masked_, cat_, permutation_ (Permutation.to,
   TransposePermutation.type)
   per-class constructors             -> ctor  =  bind (Python call binding against the signature table
                                                 gen/Ctors.v, generated from the source) ; norm_pos (the
                                                 constructor's structural normalisation of its positional
                                                 arguments) ; base_init

   Shapes and values are not part of the abstraction: constructor steps that only take views/expansions of
   the same storages (batch expansion in Kronecker/Sum/Matmul/Interpolated, unsqueeze in BatchRepeat, the
   batch permutation of Block* for block_dim <> -3, Cat's dim normalisation) are the identity here.
   `None` = the call raises, or the path is first-construction-only and data dependent (documented at each
   place: "unmodelled"). *)
From Coq Require Import List ZArith Bool Arith.
Import ListNotations.
Require Import C14.Types C14.gen.Ctors.

(* ------------------------------------------------------------------ association lists / dicts *)
Fixpoint lookup {V} (k : Z) (l : list (Z * V)) : option V :=
  match l with [] => None | (k', v) :: r => if Z.eqb k k' then Some v else lookup k r end.
Definition has_key {V} (k : Z) (l : list (Z * V)) : bool :=
  match lookup k l with Some _ => true | None => false end.
Fixpoint zmem (k : Z) (l : list Z) : bool :=
  match l with [] => false | x :: r => Z.eqb k x || zmem k r end.
(* d[k] = v *)
Fixpoint set_key {V} (k : Z) (v : V) (l : list (Z * V)) : list (Z * V) :=
  match l with
  | [] => [(k, v)]
  | (k', v') :: r => if Z.eqb k k' then (k, v) :: r else (k', v') :: set_key k v r
  end.
(* sorted(kwargs.items()) : insertion sort on the names (stable) *)
Fixpoint insert {V} (x : Z * V) (l : list (Z * V)) : list (Z * V) :=
  match l with
  | [] => [x]
  | y :: r => if Z.leb (fst x) (fst y) then x :: l else y :: insert x r
  end.
Fixpoint isort {V} (l : list (Z * V)) : list (Z * V) :=
  match l with [] => [] | x :: r => insert x (isort r) end.

Fixpoint map_opt {A B} (f : A -> option B) (l : list A) : option (list B) :=
  match l with
  | [] => Some []
  | x :: r => match f x, map_opt f r with Some y, Some ys => Some (y :: ys) | _, _ => None end
  end.
Definition slice {A} (l : list A) (start len : nat) : list A := firstn len (skipn start l).

(* ------------------------------------------------------------------ stored operators *)
(* torch.is_tensor(val) or isinstance(val, LinearOperator) *)
Definition is_diff (a : arg) : bool := match a with AOther _ => false | _ => true end.
Definition lift (nd : list (Z * value)) : list (Z * arg) := map (fun kv => (fst kv, AOther (snd kv))) nd.
Fixpoint unlift (l : list (Z * arg)) : list (Z * value) :=
  match l with
  | [] => []
  | (k, AOther v) :: r => (k, v) :: unlift r
  | _ :: r => unlift r
  end.

Definition nargs (ch : list arg) (dn : list Z) : nat := length ch - length dn.
Definition args_of (ch : list arg) (dn : list Z) : list arg := firstn (nargs ch dn) ch.           (* self._args *)
Definition dkw_of (ch : list arg) (dn : list Z) : list (Z * arg) := combine dn (skipn (nargs ch dn) ch).
Definition kwargs_of (ch : list arg) (dn : list Z) (nd : list (Z * value)) : list (Z * arg) :=
  dkw_of ch dn ++ lift nd.                                                                         (* self._kwargs *)

Definition is_cls (c : cls) (a : arg) : bool :=
  match a with AOp c' _ _ _ _ => cls_eqb c c' | _ => false end.
(* isinstance(x, DiagLinearOperator): Diag, ConstantDiag, Identity, KroneckerProductDiag *)
Definition is_diag_like (a : arg) : bool :=
  is_cls CDiag a || is_cls CConstantDiag a || is_cls CIdentity a || is_cls CKronDiag a.
(* isinstance(x, TriangularLinearOperator) *)
Definition is_triangular_inst (a : arg) : bool := is_cls CTriangular a || is_diag_like a.
(* isinstance(x, _TriangularLinearOperatorBase) *)
Definition is_tri_base (a : arg) : bool := is_triangular_inst a || is_cls CKronTriangular a.
(* isinstance(x, RootLinearOperator) *)
Definition is_root_inst (a : arg) : bool := is_cls CRoot a || is_cls CChol a || is_cls CLowRankRoot a.
Definition is_tensor (a : arg) : bool := match a with ATensor _ => true | _ => false end.
Definition is_op (a : arg) : bool := match a with AOp _ _ _ _ _ => true | _ => false end.

(* ------------------------------------------------------------------ representation() *)
Fixpoint repr (a : arg) : option (list tensor) :=
  match a with
  | ATensor t => Some [t]
  | AOther _ => None          (* "Representation of a LinearOperator should consist only of Tensors" *)
  | AOp _ ch _ _ _ =>
      (fix go (l : list arg) : option (list tensor) :=
         match l with
         | [] => Some []
         | x :: r => match repr x, go r with Some u, Some v => Some (u ++ v) | _, _ => None end
         end) ch
  end.
Definition repr_list := fix go (l : list arg) : option (list tensor) :=
  match l with
  | [] => Some []
  | x :: r => match repr x, go r with Some u, Some v => Some (u ++ v) | _, _ => None end
  end.

(* number of flat slots an argument occupies ( = len(arg.representation()) for operators, 1 otherwise ) *)
Fixpoint size (a : arg) : nat :=
  match a with
  | ATensor _ | AOther _ => 1
  | AOp _ ch _ _ _ => (fix go (l : list arg) := match l with [] => 0 | x :: r => size x + go r end) ch
  end.
Definition size_list := fix go (l : list arg) : nat := match l with [] => 0 | x :: r => size x + go r end.

(* ------------------------------------------------------------------ LinearOperatorRepresentationTree *)
Inductive tree :=
| Leaf (idx : nat)
| Sub (start len : nat) (c : cls) (children : list tree) (dn : list Z) (nd : list (Z * value)).

(* __init__ : children built with a running counter; a sub-operator's own tree restarts at 0 *)
Fixpoint mk (a : arg) (counter : nat) : tree :=
  match a with
  | ATensor _ | AOther _ => Leaf counter
  | AOp c ch dn nd _ =>
      Sub counter (size a) c
        ((fix go (l : list arg) (k : nat) : list tree :=
            match l with [] => [] | x :: r => mk x k :: go r (k + size x) end) ch 0) dn nd
  end.
Definition mk_list := fix go (l : list arg) (k : nat) : list tree :=
  match l with [] => [] | x :: r => mk x k :: go r (k + size x) end.

(* ------------------------------------------------------------------ constructors *)
Section WithDefaultDtype.
Variable defdt : dt.      (* torch.get_default_dtype() *)

Definition names_of (ps : list (Z * option value * pk)) : list Z := map (fun x => fst (fst x)) ps.

(* Python binding of the named parameters: positionally (rest), by keyword, or default *)
Fixpoint bind_named (ps : list (Z * option value * pk)) (rest : list arg) (kw : list (Z * arg))
  : option (list (Z * arg * pk)) :=
  match ps with
  | [] => Some []
  | (k, dflt, p) :: ps' =>
      match rest with
      | v :: rest' =>
          if has_key k kw then None                       (* TypeError: multiple values for argument *)
          else match bind_named ps' rest' kw with Some l => Some ((k, v, p) :: l) | None => None end
      | [] =>
          match (match lookup k kw with Some v => Some v | None => option_map AOther dflt end) with
          | Some v => match bind_named ps' [] kw with Some l => Some ((k, v, p) :: l) | None => None end
          | None => None                                  (* TypeError: missing required argument *)
          end
      end
  end.

Definition bind (s : cspec) (pos : list arg) (kw : list (Z * arg))
  : option (list arg * list (Z * arg * pk) * list (Z * arg)) :=
  if length pos <? cs_npos s then None      (* unmodelled: leading parameters passed by keyword / defaulted *)
  else
    let rest := if cs_varargs s then [] else skipn (cs_npos s) pos in
    let ppos := if cs_varargs s then pos else firstn (cs_npos s) pos in
    if length (cs_named s) <? length rest then None                  (* TypeError: too many positional *)
    else match bind_named (cs_named s) rest kw with
         | None => None
         | Some named =>
             let extra := filter (fun kv => negb (zmem (fst kv) (names_of (cs_named s)))) kw in
             match extra with
             | [] => Some (ppos, named, extra)
             | _ :: _ => if cs_varkw s then Some (ppos, named, extra) else None   (* unexpected keyword *)
             end
         end.

Definition dense_of (a : arg) : arg := AOp CDense [a] [] [] [].
(* to_linear_operator *)
Definition to_linop (a : arg) : option arg :=
  match a with ATensor _ => Some (dense_of a) | AOp _ _ _ _ _ => Some a | AOther _ => None end.

(* TriangularLinearOperator.__init__, lines 36-48 *)
Definition tri_norm (upper : value) (a : arg) : option arg :=
  match a with
  | ATensor _ => Some (dense_of a)
  | AOther _ => None
  | AOp c ch dn nd at_ =>
      if cls_eqb c CTriangular then hd_error ch                   (* tensor = tensor._tensor *)
      else if is_diag_like a then None                            (* Diag subclasses have no _tensor *)
      else if cls_eqb c CBatchRepeat then
        match ch with
        | [b] =>
            if is_triangular_inst b then Some a
            else if is_cls CBatchRepeat b then None               (* unmodelled: nested repeats *)
            else if is_op b then
              Some (AOp CBatchRepeat [AOp CTriangular [b] [] [(k_upper, upper)] []] dn nd at_)
            else None
        | _ => None
        end
      else Some a
  end.

Definition named_val (k : Z) (named : list (Z * arg * pk)) : value :=
  match lookup k (map fst named) with Some (AOther v) => v | _ => VNone end.

(* the constructor's structural normalisation of its positional arguments *)
Definition norm_pos (c : cls) (named : list (Z * arg * pk)) (l : list arg) : option (list arg) :=
  match c with
  | CRoot | CLowRankRoot | CSum | CPsdSum | CSumKron | CKron | CMatmul
  | CBlockDiag | CBlockInterleaved | CSumBatch => map_opt to_linop l
  | CKronTriangular => if forallb is_triangular_inst l then Some l else None
  | CKronDiag => if forallb is_diag_like l then Some l else None
  | CAddedDiag | CKronAddedDiag =>
      match map_opt to_linop l with
      | Some [a; b] => if is_diag_like a && is_diag_like b then None
                       else if is_diag_like a || is_diag_like b then Some [a; b] else None
      | _ => None
      end
  | CLowRankRootAddedDiag =>
      match l with
      | [a; b] => if (is_diag_like a && is_cls CLowRankRoot b) || (is_cls CLowRankRoot a && is_diag_like b)
                  then Some l else None
      | _ => None
      end
  | CInterpolated =>
      match l with
      | [b; li; lv; ri; rv] =>
          if is_tensor li && is_tensor lv && is_tensor ri && is_tensor rv
          then match to_linop b with Some b' => Some [b'; li; lv; ri; rv] | None => None end
          else None                                               (* unmodelled: None -> allocated defaults *)
      | _ => None
      end
  | CTriangular =>
      match l with
      | [a] => match tri_norm (named_val k_upper named) a with Some a' => Some [a'] | None => None end
      | _ => None
      end
  | CChol => match l with [a] => if is_tri_base a then Some l else None | _ => None end   (* else: deprecated, data dependent *)
  | CMul => match l with [a; b] => if is_root_inst a && is_root_inst b then Some l else None | _ => None end
  | CConstantMul => match l with [b; k] => if is_tensor k then Some l else None | _ => None end
  | CPermutation =>
      match l with
      | [ATensor p; ATensor q] => if is_float (tdt p) || is_float (tdt q) then None else Some l
      | _ => None                                                 (* unmodelled: inv_perm computed by sort *)
      end
  | CCat => match l with [] => None | _ => Some l end
  | _ => Some l
  end.

Definition attr_val (c : cls) (k : Z) (v : value) : value :=
  if cls_eqb c CZero then
    if Z.eqb k k_dtype then match v with VNone => VDtype defdt | _ => v end          (* dtype or default *)
    else if Z.eqb k k_device then match v with VNone => VDev 0 | _ => v end          (* device or cpu *)
    else v
  else v.
(* attributes every instance of the class gets, whatever the arguments *)
Definition const_attrs (c : cls) : list (Z * value) :=
  match c with
  | CKronDiag => [(k_upper, VBool false)]
  | _ => []
  end.
Definition val_of (a : arg) : value := match a with AOther v => v | _ => VOpq 0 end.

Definition fwd_kw (named : list (Z * arg * pk)) : list (Z * arg) :=
  flat_map (fun x => match x with (k, v, PKw) => [(k, v)] | _ => [] end) named.
Definition attrs_from (c : cls) (named : list (Z * arg * pk)) : list (Z * value) :=
  flat_map (fun x => match x with (k, v, PAttr) => [(k, attr_val c k (val_of v))] | _ => [] end) named.

(* LinearOperator.__init__( *args, **kwargs ) *)
Definition base_init (c : cls) (args : list arg) (kw : list (Z * arg)) (at_ : list (Z * value)) : arg :=
  let s := isort kw in
  let dk := filter (fun kv => is_diff (snd kv)) s in
  AOp c (args ++ map snd dk) (map fst dk) (unlift s) at_.

(* cls( *pos, **kw ) *)
Definition ctor (c : cls) (pos : list arg) (kw : list (Z * arg)) : option arg :=
  match bind (spec_of c) pos kw with
  | None => None
  | Some (ppos, named, extra) =>
      (* metaclass of BlockDiagLinearOperator: a Diag base gives back a DiagLinearOperator *)
      if cls_eqb c CBlockDiag && existsb is_diag_like ppos then
        match ppos, named_val k_block_dim named with
        | [AOp CDiag [ATensor t] [] [] []], VInt (-3) => Some (AOp CDiag [ATensor t] [] [] [])
        | _, _ => None
        end
      else
      match norm_pos c named ppos with
      | None => None
      | Some ppos' => Some (base_init c ppos' (fwd_kw named ++ extra) (const_attrs c ++ attrs_from c named))
      end
  end.

(* ------------------------------------------------------------------ tree.__call__ *)
Fixpoint call (t : tree) (flat : list tensor) : option arg :=
  match t with
  | Leaf i => match nth_error flat i with Some x => Some (ATensor x) | None => None end
  | Sub start len c chs dn nd =>
      let sub := slice flat start len in
      match (fix go (l : list tree) : option (list arg) :=
               match l with
               | [] => Some []
               | t1 :: r => match call t1 sub, go r with Some a, Some b => Some (a :: b) | _, _ => None end
               end) chs
      with
      | Some un => ctor c (args_of un dn) (dkw_of un dn ++ lift nd)
      | None => None
      end
  end.
Definition call_list (sub : list tensor) := fix go (l : list tree) : option (list arg) :=
  match l with
  | [] => Some []
  | t1 :: r => match call t1 sub, go r with Some a, Some b => Some (a :: b) | _, _ => None end
  end.

(* op.representation_tree()( *op.representation() )   ( = evaluate_kernel() of the base class ) *)
Definition rebuild (o : arg) : option arg :=
  match repr o with Some flat => call (mk o 0) flat | None => None end.

(* ------------------------------------------------------------------ dtype property *)
Fixpoint dtype_of (a : arg) : option dt :=
  match a with
  | ATensor t => Some (tdt t)
  | AOther _ => None
  | AOp c ch dn nd at_ =>
      match c with
      | CZero =>                                                                       (* self._dtype: kept as an attribute only, *)
          match lookup k_dtype at_ with                                                 (* or (repaired tree) also forwarded as a kwarg *)
          | Some (VDtype d) => Some d
          | _ => match lookup k_dtype nd with Some (VDtype d) => Some d | _ => None end
          end
      | CIdentity | CPermutation | CTransposePermutation =>                             (* self._dtype = the dtype keyword *)
          match lookup k_dtype nd with Some (VDtype d) => Some d | _ => None end
      | _ => if length dn <? length ch
             then match ch with x :: _ => dtype_of x | [] => None end                   (* self._args[0].dtype *)
             else None
      end
  end.

(* ------------------------------------------------------------------ conversions *)
Inductive meth :=
| MClone | MDetach | MCpu
| MTo (d : option dt) (dev : option nat)      (* after _to_helper *)
| MType (d : dt).                              (* type(dtype); double() = MType F64, float() = MType F32 *)

(* tensor primitives; n = next fresh storage id *)
Definition t_clone (t : tensor) (n : nat) : tensor * nat := (T n (tvl t) (tdt t) (trg t), S n).
Definition t_detach (t : tensor) : tensor := T (tid t) (tvl t) (tdt t) false.
Definition t_to (d : option dt) (t : tensor) (n : nat) : tensor * nat :=
  match d with
  | None => (t, n)
  | Some d' => if dt_eqb (tdt t) d' then (t, n) else (T n (tvl t) d' (trg t), S n)
  end.

Fixpoint map_st {A B} (f : A -> nat -> option (B * nat)) (l : list A) (n : nat) : option (list B * nat) :=
  match l with
  | [] => Some ([], n)
  | x :: r => match f x n with
              | None => None
              | Some (y, n1) => match map_st f r n1 with
                                | None => None
                                | Some (ys, n2) => Some (y :: ys, n2)
                                end
              end
  end.

Definition dev_val (dev : option nat) : value := match dev with Some n => VDev n | None => VNone end.
Definition dt_val (d : option dt) : value := match d with Some x => VDtype x | None => VNone end.

Section Args.
Variable rec : meth -> arg -> nat -> option (arg * nat).    (* the method of a sub-operator *)

(* generic loops of clone / detach / cpu / to / type in _linear_operator.py *)
Definition on_arg (m : meth) (a : arg) (n : nat) : option (arg * nat) :=
  match a with
  | AOther _ => Some (a, n)                              (* no .clone / .detach / .cpu / .to / .double attribute *)
  | ATensor t =>
      match m with
      | MClone => let (t', n') := t_clone t n in Some (ATensor t', n')
      | MDetach => Some (ATensor (t_detach t), n)
      | MCpu => Some (a, n)
      | MTo d _ => let (t', n') := t_to d t n in Some (ATensor t', n')     (* arg.to(dtype=dtype): ANY dtype is cast *)
      | MType d =>                                                          (* _type_helper(arg.clone()) *)
          let (t1, n1) := t_clone t n in
          if is_float (tdt t1) then let (t2, n2) := t_to (Some d) t1 n1 in Some (ATensor t2, n2)
          else Some (ATensor t1, n1)
      end
  | AOp _ _ _ _ _ =>
      match m with
      | MType d =>
          match rec MClone a n with
          | Some (a1, n1) =>
              match dtype_of a1 with
              | Some d1 => if is_float d1 then rec (MTo (Some d) None) a1 n1 else Some (a1, n1)
              | None => None                              (* AttributeError (also after the deepcopy retry) *)
              end
          | None => None
          end
      | _ => rec m a n
      end
  end.

(* the positional-argument loop of the to() overrides in interpolated_, masked_, identity_:
     if dtype is not None and hasattr(arg, "dtype") and arg.dtype.is_floating_point == dtype.is_floating_point:
         arg.to(dtype=dtype, device=device)   else: arg.to(device=device) *)
Definition on_arg_guarded (d : option dt) (dev : option nat) (a : arg) (n : nat) : option (arg * nat) :=
  match a with
  | AOther _ => Some (a, n)
  | _ =>
      match dtype_of a, d with
      | Some da, Some d' =>
          if Bool.eqb (is_float da) (is_float d') then on_arg (MTo (Some d') dev) a n
          else on_arg (MTo None dev) a n                  (* arg.to(device=device) *)
      | _, None => on_arg (MTo None dev) a n              (* dtype is None: arg.to(device=device), arg.dtype is not read *)
      | None, Some _ => None                              (* unmodelled: operator without a dtype *)
      end
  end.
End Args.

(* `x if requested is None else requested`, where x is the operator's own dtype / device: an attribute that the
   constructor sets to the value of the keyword argument of the same name (Identity, Zero) *)
Definition keep_or (k : Z) (v : value) (nd : list (Z * value)) : option value :=
  match v with VNone => lookup k nd | _ => Some v end.
(* ZeroLinearOperator.to / .type:  self.__class__( *self.sizes, dtype=..., device=... )  (self.sizes = list(sizes) = _args) *)
Definition zero_kw (vdt vdev : value) : list (Z * arg) := [(k_dtype, AOther vdt); (k_device, AOther vdev)].
(* the to() / type() of the two permutation classes rebuild with the dtype keyword (the nominal dtype of an operator
   without floating data):
     Permutation.to            self.__class__(self.perm.to(device=device), self.inv_perm.to(device=device),
                                              validate_args=self._kwargs["validate_args"],
                                              dtype=self._dtype if dtype is None else dtype)
                               - the index tensors are never cast; Tensor.to(device=<same device>) is the tensor itself;
                                 the two keywords passed explicitly are all the keywords of the class
     Permutation.type          self.__class__(self.perm.clone(), self.inv_perm.clone(), validate_args=..., dtype=dtype)
     TransposePermutation.to   self.__class__(self.m, dtype=self._dtype if dtype is None else dtype)
     TransposePermutation.type self.__class__(self.m, dtype=dtype)                                  (m is a keyword) *)
Definition is_perm_cls (c : cls) : bool := cls_eqb c CPermutation || cls_eqb c CTransposePermutation.

Fixpoint meth_call (fuel : nat) (m : meth) (o : arg) (n : nat) {struct fuel} : option (arg * nat) :=
  match fuel with
  | O => None
  | S f =>
    match o with
    | AOp c ch dn nd at_ =>
        let k := nargs ch dn in
        let again (ch' : list arg) (nd' : list (Z * value)) (n' : nat) : option (arg * nat) :=
            match ctor c (args_of ch' dn) (dkw_of ch' dn ++ lift nd') with
            | Some r => Some (r, n') | None => None end in
        let generic :=
            match map_st (on_arg (meth_call f) m) ch n with
            | Some (ch', n') => again ch' nd n'
            | None => None
            end in
        match m with
        | MClone | MDetach | MCpu => generic
        | MTo d dev =>
            if cls_eqb c CInterpolated || cls_eqb c CMasked || cls_eqb c CIdentity then
              match map_st (on_arg_guarded (meth_call f) d dev) (firstn k ch) n with
              | Some (a', n1) =>
                  match map_st (on_arg (meth_call f) m) (skipn k ch) n1 with
                  | Some (kv', n2) =>
                      if cls_eqb c CIdentity
                      then (* new_kwargs["device"] = self.device if device is None else device ; same for dtype *)
                           match keep_or k_dtype (dt_val d) nd, keep_or k_device (dev_val dev) nd with
                           | Some vdt, Some vdev => again (a' ++ kv') (set_key k_dtype vdt (set_key k_device vdev nd)) n2
                           | _, _ => None
                           end
                      else again (a' ++ kv') nd n2
                  | None => None
                  end
              | None => None
              end
            else if cls_eqb c CCat then
              match again ch (set_key k_output_device (dev_val dev) nd) n with
              | Some (res, n1) => match d with Some d' => meth_call f (MType d') res n1 | None => Some (res, n1) end
              | None => None
              end
            else if cls_eqb c CZero then
              match keep_or k_dtype (dt_val d) nd, keep_or k_device (dev_val dev) nd with
              | Some vdt, Some vdev =>
                  match ctor c (firstn k ch) (zero_kw vdt vdev) with Some r => Some (r, n) | None => None end
              | _, _ => None
              end
            else if is_perm_cls c then
              match keep_or k_dtype (dt_val d) nd with
              | Some vdt => again ch (set_key k_dtype vdt nd) n
              | None => None
              end
            else generic
        | MType d =>
            if cls_eqb c CIdentity then
              match lookup k_diag_shape nd, lookup k_batch_shape nd, lookup k_device nd with
              | Some ds, Some bs, Some dv =>
                  match ctor CIdentity [] [(k_diag_shape, AOther ds); (k_batch_shape, AOther bs);
                                           (k_dtype, AOther (VDtype d)); (k_device, AOther dv)] with
                  | Some r => Some (r, n) | None => None end
              | _, _, _ => None
              end
            else if cls_eqb c CTransposePermutation then
              again ch (set_key k_dtype (VDtype d) nd) n
            else if cls_eqb c CPermutation then
              match map_st (on_arg (meth_call f) MClone) ch n with          (* perm.clone(), inv_perm.clone() *)
              | Some (ch', n') => again ch' (set_key k_dtype (VDtype d) nd) n'
              | None => None
              end
            else if cls_eqb c CZero then
              match lookup k_device nd with                                  (* dtype=dtype, device=self._device *)
              | Some vdev => match ctor c (firstn k ch) (zero_kw (VDtype d) vdev) with Some r => Some (r, n) | None => None end
              | None => None
              end
            else generic
        end
    | _ => None
    end
  end.

End WithDefaultDtype.

(* ------------------------------------------------------------------ _to_helper (utils/generic.py) *)
Inductive toarg := TADtype (d : dt) | TADevice (n : nat) | TATensor (d : dt) (dev : nat) | TAOther.

Fixpoint dt_add (d : dt) (s : list dt) : list dt :=
  match s with [] => [d] | x :: r => if dt_eqb d x then s else x :: dt_add d r end.
Fixpoint nat_add (d : nat) (s : list nat) : list nat :=
  match s with [] => [d] | x :: r => if Nat.eqb d x then s else x :: nat_add d r end.

Fixpoint to_scan (args : list toarg) (ds : list dt) (vs : list nat) : list dt * list nat :=
  match args with
  | [] => (ds, vs)
  | TADtype d :: r => to_scan r (dt_add d ds) vs
  | TADevice n :: r => to_scan r ds (nat_add n vs)
  | TATensor d n :: r => to_scan r (dt_add d ds) (nat_add n vs)
  | TAOther :: r => to_scan r ds vs
  end.

(* returns (device, dtype) or None = RuntimeError("Attempted to cast ... to multiple ...") *)
Definition to_helper (args : list toarg) (kw_dtype : option dt) (kw_device : option nat)
  : option (option nat * option dt) :=
  let (ds0, vs0) := to_scan args [] [] in
  let ds := match kw_dtype with Some d => dt_add d ds0 | None => ds0 end in
  let vs := match kw_device with Some n => nat_add n vs0 | None => vs0 end in
  if (1 <? length ds) || (1 <? length vs) then None
  else Some (hd_error vs, hd_error ds).

(* op.to( *args, **kwargs ) *)
Definition alg_to (defdt : dt) (fuel : nat) (args : list toarg) (kw_dtype : option dt) (kw_device : option nat)
  (o : arg) (n : nat) : option (arg * nat) :=
  match to_helper args kw_dtype kw_device with
  | Some (dev, d) => meth_call defdt fuel (MTo d dev) o n
  | None => None
  end.
