(* C15 — executable comparators used by the generated case shards (gen/cases_*.v).

   Two kinds of cases:
   * dispatch cases: which function object ran (class whose __dict__ holds it, method name, positions of the
     caller's arguments it received) or which exception was raised -- observed on the real package through
     spies on every class __dict__ -- versus [dispatch W] / [binop_dispatch W] of the model;
   * value cases: the value returned by torch.f(...) / x <op> y on small rational data versus the value the
     model predicts: the contract (method_sem) of the method the model dispatches to, evaluated by the SAME
     [den_method] the theorems are about, in the concrete algebra TQ of broadcasting rational tensors.
   Nothing here is used by a theorem. *)
From Coq Require Import List String ZArith QArith Qabs Bool Arith.
Import ListNotations.
Require Import C15.Model C15.Proofs C15.gen.Dispatch.
Close Scope Q_scope.
Open Scope string_scope.
Open Scope list_scope.

(* ------------------------------------------------------------------------------------------ *)
(** * rational tensors with torch broadcasting *)

Inductive tens := T (sh : list nat) (d : list Q) | TErr.

Definition nprod (l : list nat) : nat := fold_right Nat.mul 1 l.
Fixpoint chunks {X} (n sz : nat) (l : list X) : list (list X) :=
  match n with 0 => [] | S k => firstn sz l :: chunks k sz (skipn sz l) end.

(* data of shape sh (row-major) expanded to shape tgt; same rank, each dim equal or 1 *)
Fixpoint expand (sh tgt : list nat) (d : list Q) : list Q :=
  match sh, tgt with
  | s :: sh', t :: tgt' =>
      let parts := map (fun c => expand sh' tgt' c) (chunks s (nprod sh') d) in
      if Nat.eqb s t then List.concat parts else List.concat (repeat (hd [] parts) t)
  | _, _ => d
  end.

Definition pad (n : nat) (l : list nat) : list nat := repeat 1 (n - List.length l) ++ l.
Fixpoint bshape_al (a b : list nat) : option (list nat) :=
  match a, b with
  | [], [] => Some []
  | x :: a', y :: b' =>
      match bshape_al a' b' with
      | Some r => if Nat.eqb x y then Some (x :: r) else if Nat.eqb x 1 then Some (y :: r)
                  else if Nat.eqb y 1 then Some (x :: r) else None
      | None => None
      end
  | _, _ => None
  end.
Definition bshape (a b : list nat) : option (list nat) :=
  let n := Nat.max (List.length a) (List.length b) in bshape_al (pad n a) (pad n b).

Fixpoint map2 {X Y Z} (f : X -> Y -> Z) (a : list X) (b : list Y) : list Z :=
  match a, b with x :: r, y :: s => f x y :: map2 f r s | _, _ => [] end.

Definition ebin (f : Q -> Q -> Q) (x y : tens) : tens :=
  match x, y with
  | T sa da, T sb db =>
      match bshape sa sb with
      | Some s => let n := List.length s in
                  T s (map2 (fun p q => Qred (f p q)) (expand (pad n sa) s da) (expand (pad n sb) s db))
      | None => TErr
      end
  | _, _ => TErr
  end.
Definition emap (f : Q -> Q) (x : tens) : tens := match x with T s d => T s (map (fun p => Qred (f p)) d) | TErr => TErr end.

Definition qnth (l : list Q) (i : nat) : Q := nth i l 0%Q.
(* (m x k) @ (k x n), row-major *)
Definition mm2 (m k n : nat) (a b : list Q) : list Q :=
  flat_map (fun i => map (fun j =>
      Qred (fold_right (fun l acc => (qnth a (i * k + l) * qnth b (l * n + j) + acc)%Q) 0%Q (seq 0 k))) (seq 0 n)) (seq 0 m).
Definition tr2 (m n : nat) (a : list Q) : list Q :=
  flat_map (fun j => map (fun i => qnth a (i * n + j)) (seq 0 m)) (seq 0 n).

(* shape = batch ++ [m; n] *)
Definition split_mat (s : list nat) : option (list nat * nat * nat) :=
  match rev s with n :: m :: rb => Some (rev rb, m, n) | _ => None end.

(* torch.matmul, including 1-D operands and batch broadcasting *)
Definition matmul (x y : tens) : tens :=
  match x, y with
  | T sa da, T sb db =>
      let xv := Nat.eqb (List.length sa) 1 in
      let yv := Nat.eqb (List.length sb) 1 in
      let sa' := if xv then 1 :: sa else sa in
      let sb' := if yv then sb ++ [1] else sb in
      match split_mat sa', split_mat sb' with
      | Some (ba, m, k), Some (bb, k', n) =>
          if negb (Nat.eqb k k') then TErr else
          match bshape ba bb with
          | Some bs =>
              let r := List.length bs in
              let ea := expand (pad (r + 2) sa') (bs ++ [m; k]) da in
              let eb := expand (pad (r + 2) sb') (bs ++ [k; n]) db in
              let nb := nprod bs in
              let res := List.concat (map2 (mm2 m k n) (chunks nb (m * k) ea) (chunks nb (k * n) eb)) in
              T (bs ++ (if xv then [] else [m]) ++ (if yv then [] else [n])) res
          | None => TErr
          end
      | _, _ => TErr
      end
  | _, _ => TErr
  end.

(* .mT ; a 1-D tensor is left alone *)
Definition transp (x : tens) : tens :=
  match x with
  | T s d =>
      match split_mat s with
      | Some (bs, m, n) => T (bs ++ [n; m]) (List.concat (map (tr2 m n) (chunks (nprod bs) (m * n) d)))
      | None => x
      end
  | TErr => TErr
  end.

Definition scalar (q : Q) : tens := T [] [Qred q].
Definition qclose (x y r t : Q) : Q := if Qle_bool (Qabs (x - y)%Q) (t + r * Qabs y)%Q then 1%Q else 0%Q.
Definition tclose (x y r t : tens) : tens :=
  match r, t with
  | T [] [rq], T [] [tq] => ebin (fun p q => qclose p q rq tq) x y
  | _, _ => TErr
  end.

Definition TQ : alg :=
  {| car := tens; a0 := scalar 0%Q; a1 := scalar 1%Q;
     aadd := ebin Qplus; amul := ebin Qmult; asub := ebin Qminus; aopp := emap Qopp;
     ainv := emap Qinv; amm := matmul; atr := transp; aclose := tclose;
     aZ := fun z => scalar (inject_Z z) |}.

(* |x - y| <= 1e-9 * max(1, |x|, |y|): the data are small integers / dyadic rationals, so a wrong order, sign or
   operand is off by >= 1/8; the tolerance absorbs the rounding of FFT (Toeplitz) and of sqrt-scaled roots *)
Definition qtol : Q := (1 # 1000000000)%Q.
Definition qmax (a b : Q) : Q := if Qle_bool a b then b else a.
Definition qclose_enough (x y : Q) : bool :=
  Qle_bool (Qabs (x - y)%Q) (qtol * qmax 1%Q (qmax (Qabs x) (Qabs y)))%Q.
Fixpoint qlist_eqb (a b : list Q) : bool :=
  match a, b with [], [] => true | x :: r, y :: s => qclose_enough x y && qlist_eqb r s | _, _ => false end.
Definition tens_eqb (a b : tens) : bool :=
  match a, b with
  | T sa da, T sb db => natlist_eqb sa sb && qlist_eqb da db
  | _, _ => false
  end.

(* ------------------------------------------------------------------------------------------ *)
(** * dispatch cases *)

Inductive dcall := CFun (f : string) (args : list argk) | CBin (o : binop) (x y : argk).
Inductive dobs :=
  | OCall (definer m : string) (perm : list nat)   (* this function object ran first, on these caller arguments *)
  | ORaise (e : exn)                               (* no method of an operator class ran; this was raised *)
  | OPlain.                                        (* no operator involved: torch's own implementation *)

Definition exn_eqb (a b : exn) : bool :=
  match a, b with
  | NotImplementedError, NotImplementedError | TypeError, TypeError | AttributeError, AttributeError
  | IndexError, IndexError | KeyError, KeyError | RuntimeError, RuntimeError | ValueError, ValueError
  | OtherError, OtherError => true
  | _, _ => false
  end.

Definition model_dispatch (c : dcall) : disp :=
  match c with CFun f args => dispatch W f args | CBin o x y => binop_dispatch W o x y end.

Definition dcase_ok (c : dcall * dobs) : bool :=
  match model_dispatch (fst c), snd c with
  | DCall d m _ perm _, OCall d' m' perm' => String.eqb d d' && String.eqb m m' && natlist_eqb perm perm'
  | DRaise e, ORaise e' => exn_eqb e e'
  | DPlainTorch, OPlain => true
  | _, _ => false
  end.

(* resolution cases: getattr(cls, name) of the running interpreter vs the model's MRO walk *)
Definition rcase_ok (c : string * string * option string) : bool :=
  let '(cls, m, definer) := c in
  match resolve W cls m, definer with
  | Some (d, _), Some d' => String.eqb d d'
  | None, None => true
  | _, _ => false
  end.

(* ------------------------------------------------------------------------------------------ *)
(** * value cases *)

Inductive varg := VOp (c : string) (t : tens) | VTen (t : tens) | VScal (q : Q).
Definition kind_of (a : varg) : argk := match a with VOp c _ => KOp c | VTen _ => KTensor | VScal _ => KScalar end.
Definition val_of (a : varg) : tens := match a with VOp _ t | VTen t => t | VScal q => scalar q end.
Definition is1d (t : tens) : bool := match t with T [_] _ => true | _ => false end.

Inductive vcall := VFun (f : string) | VBin (o : binop).
Inductive vobs := VVal (t : tens) | VRaise (e : exn).
Record vcase := { vc_call : vcall; vc_args : list varg; vc_alpha : option Q; vc_tol : option (Q * Q); vc_obs : vobs;
                  vc_orc : vobs (* the same call on dense tensors, by torch: validates [spec] *) }.

Definition dflt_rtol : Q := 0.00001%Q.      (* torch.isclose defaults (checked against the signatures: signature_ok) *)
Definition dflt_atol : Q := 0.00000001%Q.

Definition kw_of_case (c : vcase) : kwv TQ :=
  Build_kwv TQ (option_map scalar (vc_alpha c))
            (match vc_tol c with Some (r, t) => Some (scalar r, scalar t) | None => None end).

Inductive pred := PVal (t : tens) | PRaise (e : exn) | PNone.

(* what the model predicts for the call: the contract of the dispatched method on the operands in the
   dispatched order; a stub raises NotImplementedError; a keyword the method does not take is a TypeError *)
Definition predict (c : vcase) : pred :=
  let kinds := map kind_of (vc_args c) in
  let d := match vc_call c with VFun f => dispatch W f kinds | VBin o => match kinds with [x; y] => binop_dispatch W o x y | _ => DRaise OtherError end end in
  let kw := kw_of_case c in
  match d with
  | DCall _ m k [ps; po] _ =>
      match k, method_sem m, nth_error (vc_args c) ps, nth_error (vc_args c) po with
      | MStub, _, _, _ => PRaise NotImplementedError
      | MFun, Some (SemBin o sd kwacc), Some self, Some other =>
          if negb kwacc && negb (kw_absent kw) then PRaise TypeError
          else PVal (den_method TQ (scalar dflt_rtol) (scalar dflt_atol) o sd kwacc (val_of self) (val_of other) kw (is1d (val_of other)))
      | _, _, _, _ => PNone
      end
  | DRaise e => PRaise e
  | _ => PNone
  end.

(* the specification: what the caller means (used by the harness to classify a disagreement) *)
Definition spec (c : vcase) : pred :=
  let e := match vc_call c with VFun f => expected f | VBin o => Some (EBinF (semop_of o) false) end in
  match e, vc_args c with
  | Some (EBinF o _), [x0; x1] =>
      PVal (den_expected TQ (scalar dflt_rtol) (scalar dflt_atol) o (val_of x0) (val_of x1) (kw_of_case c) (is1d (val_of x0)))
  | _, _ => PNone
  end.

Definition pred_matches (p : pred) (o : vobs) : bool :=
  match p, o with
  | PVal t, VVal t' => tens_eqb t t'
  | PRaise e, VRaise e' => exn_eqb e e'
  | _, _ => false
  end.
Definition vcase_ok (c : vcase) : bool := pred_matches (predict c) (vc_obs c).
(* the Coq specification agrees with torch on dense tensors (whenever torch returns a value) *)
Definition vcase_spec_ok (c : vcase) : bool :=
  match vc_orc c with VVal _ => pred_matches (spec c) (vc_orc c) | VRaise _ => true end.

(* ------------------------------------------------------------------------------------------ *)
Fixpoint bad_from {X} (ok : X -> bool) (cs : list X) (i : nat) : list nat :=
  match cs with [] => [] | c :: r => if ok c then bad_from ok r (S i) else i :: bad_from ok r (S i) end.
Definition bad_dcases (cs : list (dcall * dobs)) := bad_from dcase_ok cs 0.
Definition bad_rcases (cs : list (string * string * option string)) := bad_from rcase_ok cs 0.
Definition bad_vcases (cs : list vcase) := bad_from vcase_ok cs 0.
Definition spec_bad_vcases (cs : list vcase) := bad_from vcase_spec_ok cs 0.

(* ------------------------------------------------------------------------------------------ *)
(** * one-operand functions: pass-through dispatch + the dense meaning of the structural ones *)

(* all multi-indices of a shape, row-major *)
Fixpoint all_idx (sh : list nat) : list (list nat) :=
  match sh with
  | [] => [[]]
  | s :: r => flat_map (fun i => map (cons i) (all_idx r)) (seq 0 s)
  end.
Fixpoint flat_of (sh idx : list nat) : nat :=        (* row-major offset *)
  match sh, idx with
  | _ :: r, i :: ir => i * nprod r + flat_of r ir
  | _, _ => 0
  end.
Definition tget (sh : list nat) (d : list Q) (idx : list nat) : Q := qnth d (flat_of sh idx).
Definition tgather (newsh : list nat) (f : list nat -> Q) : tens := T newsh (map (fun j => Qred (f j)) (all_idx newsh)).

Definition norm_dim (n : nat) (d : Z) : option nat :=
  let d' := if Z.ltb d 0 then (d + Z.of_nat n)%Z else d in
  if Z.leb 0 d' && Z.ltb d' (Z.of_nat n) then Some (Z.to_nat d') else None.

Fixpoint index_of (x : nat) (l : list nat) (i : nat) : nat :=
  match l with [] => i | y :: r => if Nat.eqb x y then i else index_of x r (S i) end.

(* torch.permute: result[j] = input[i] with i[dims[k]] = j[k] *)
Definition tpermute (x : tens) (dims : list nat) : tens :=
  match x with
  | T sh d =>
      if negb (Nat.eqb (List.length dims) (List.length sh)) then TErr else
      let newsh := map (fun a => nth a sh 0) dims in
      tgather newsh (fun j => tget sh d (map (fun a => nth (index_of a dims 0) j 0) (seq 0 (List.length sh))))
  | TErr => TErr
  end.
Definition swap_dims (n a b : nat) : list nat :=
  map (fun i => if Nat.eqb i a then b else if Nat.eqb i b then a else i) (seq 0 n).
Definition ttranspose (x : tens) (a b : nat) : tens :=
  match x with T sh _ => tpermute x (swap_dims (List.length sh) a b) | TErr => TErr end.

Fixpoint insert_at {X} (k : nat) (v : X) (l : list X) : list X :=
  match k, l with
  | 0, _ => v :: l
  | S k', x :: r => x :: insert_at k' v r
  | S _, [] => [v]
  end.
Fixpoint remove_at {X} (k : nat) (l : list X) : list X :=
  match k, l with
  | _, [] => []
  | 0, _ :: r => r
  | S k', x :: r => x :: remove_at k' r
  end.
(* reduce dimension k with the binary operation op from unit u *)
Definition treduce (op : Q -> Q -> Q) (u : Q) (x : tens) (k : nat) : tens :=
  match x with
  | T sh d =>
      let n := nth k sh 0 in
      tgather (remove_at k sh) (fun j => fold_right (fun t acc => op (tget sh d (insert_at k t j)) acc) u (seq 0 n))
  | TErr => TErr
  end.
Definition tsum_all (x : tens) : tens :=
  match x with T _ d => T [] [Qred (fold_right Qplus 0%Q d)] | TErr => TErr end.
(* diagonal of the last two dimensions *)
Definition tdiagonal (x : tens) : tens :=
  match x with
  | T sh d =>
      match split_mat sh with
      | Some (bs, m, n) => tgather (bs ++ [Nat.min m n])
                                   (fun j => let i := last j 0 in tget sh d (removelast j ++ [i; i]))
      | None => TErr
      end
  | TErr => TErr
  end.
Definition treshape (x : tens) (newsh : list nat) : tens :=
  match x with T sh d => if Nat.eqb (nprod sh) (nprod newsh) then T newsh d else TErr | TErr => TErr end.

Inductive farg := FInt (z : Z) | FInts (l : list Z).
Inductive fobs := FVal (t : list tens) | FRaise (e : exn) | FOpaque.

(* dense meaning of the structural functions; None: not modelled here (analytic: compared with torch only) *)
Definition struct_model (tag : string) (x : tens) (args : list farg) : option tens :=
  match x with
  | TErr => None
  | T sh d =>
    let n := List.length sh in
    if String.eqb tag "clone" then (match args with [] => Some x | _ => None end) else
    if String.eqb tag "numel" then (match args with [] => Some (T [] [inject_Z (Z.of_nat (nprod sh))]) | _ => None end) else
    if String.eqb tag "abs" then (match args with [] => Some (emap Qabs x) | _ => None end) else
    if String.eqb tag "transpose" then
      (match args with
       | [FInt a; FInt b] => match norm_dim n a, norm_dim n b with Some a', Some b' => Some (ttranspose x a' b') | _, _ => None end
       | _ => None end) else
    if String.eqb tag "permute" then
      (match args with
       | [FInts l] => let ds := map (norm_dim n) l in
                      if forallb (fun o => match o with Some _ => true | None => false end) ds
                      then Some (tpermute x (map (fun o => match o with Some v => v | None => 0 end) ds)) else None
       | _ => None end) else
    if String.eqb tag "sum" then
      (match args with
       | [] => Some (tsum_all x)
       | [FInt a] => match norm_dim n a with Some a' => Some (treduce Qplus 0%Q x a') | None => None end
       | _ => None end) else
    if String.eqb tag "prod" then
      (match args with
       | [FInt a] => match norm_dim n a with Some a' => Some (treduce Qmult 1%Q x a') | None => None end
       | _ => None end) else
    if String.eqb tag "diagonal" then
      (match args with
       | [FInt 0%Z; FInt a; FInt b] =>
           match norm_dim n a, norm_dim n b with
           | Some a', Some b' => if Nat.eqb (S a') b' && Nat.eqb (S b') n then Some (tdiagonal x) else None
           | _, _ => None end
       | _ => None end) else
    if String.eqb tag "unsqueeze" then
      (match args with
       | [FInt a] => match norm_dim (S n) a with Some a' => Some (treshape x (insert_at a' 1 sh)) | None => None end
       | _ => None end) else
    if String.eqb tag "squeeze" then
      (match args with
       | [FInt a] => match norm_dim n a with
                     | Some a' => Some (if Nat.eqb (nth a' sh 0) 1 then treshape x (remove_at a' sh) else x)
                     | None => None end
       | _ => None end) else
    None
  end.

Record fcase := { fc_f : string; fc_cls : string; fc_x : tens; fc_args : list farg; fc_nkinds : list argk;
                  fc_l2 : bool;   (* reference class: the value is also compared with the dense meaning *)
                  fc_torch : fobs; fc_method : fobs }.

Fixpoint tlist_eqb (a b : list tens) : bool :=
  match a, b with [], [] => true | x :: r, y :: s => tens_eqb x y && tlist_eqb r s | _, _ => false end.
Definition fobs_eqb (a b : fobs) : bool :=
  match a, b with
  | FVal x, FVal y => tlist_eqb x y
  | FRaise e, FRaise e' => exn_eqb e e'
  | FOpaque, FOpaque => true
  | _, _ => false
  end.

(* the model: the call reaches the method with the calling convention of f, arguments unchanged; hence the
   torch call and the direct method call have the same outcome (a stub: NotImplementedError); for the
   structural functions that outcome, when it is a value, is the dense meaning computed here *)
Definition fcase_ok (c : fcase) : bool :=
  match expected (fc_f c), dispatch W (fc_f c) (KOp (fc_cls c) :: fc_nkinds c) with
  | Some (EFunF t), DCall _ m k perm true =>
      match method_sem m with
      | Some (SemFun t') =>
          String.eqb t t' && natlist_eqb perm (seq_from 0 (S (List.length (fc_nkinds c)))) &&
          match k with
          | MStub => fobs_eqb (fc_torch c) (FRaise NotImplementedError) && fobs_eqb (fc_method c) (FRaise NotImplementedError)
          | MFun =>
              fobs_eqb (fc_torch c) (fc_method c) &&
              match fc_l2 c, fc_torch c, struct_model t (fc_x c) (fc_args c) with
              | true, FVal [v], Some e => tens_eqb v e
              | _, _, _ => true
              end
          | MOther => false
          end
      | _ => false
      end
  | _, _ => false
  end.
Definition bad_fcases (cs : list fcase) := bad_from fcase_ok cs 0.
