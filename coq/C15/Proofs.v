(* C15 — generic lemmas about the dispatch model (any [world] that passes the boolean checks).
   ProofsW.v evaluates the checks on the generated world [W]; Property.v states the theorems. *)
From Coq Require Import List String ZArith Bool Arith Lia Ring.
Import ListNotations.
Require Import C15.Model.
Open Scope string_scope.

(* ------------------------------------------------------------------------------------------ *)
(** * lookup / MRO resolution *)

Lemma lookup_In {A} k (l : list (string * A)) v : lookup k l = Some v -> In (k, v) l.
Proof.
  induction l as [|[k' v'] r IH]; simpl; [discriminate|].
  destruct (String.eqb k k') eqn:E.
  - intros H; inversion H; subst. apply String.eqb_eq in E. subst. now left.
  - intros H. right. auto.
Qed.

Lemma mem_false_lookup {A} k (l : list (string * A)) : mem k l = false -> lookup k l = None.
Proof. unfold mem. destruct (lookup k l); [discriminate|reflexivity]. Qed.

Lemma mem_true_lookup {A} k (l : list (string * A)) : mem k l = true -> exists v, lookup k l = Some v.
Proof. unfold mem. destruct (lookup k l) as [v|]; [eauto|discriminate]. Qed.

Lemma strmem_In k l : strmem k l = true <-> In k l.
Proof.
  unfold strmem. rewrite existsb_exists. split.
  - intros [x [Hx E]]. apply String.eqb_eq in E. now subst.
  - intros H. exists k. split; [assumption|apply String.eqb_refl].
Qed.

(* getattr by MRO returns the FIRST class of the MRO that defines the name *)
Lemma resolve_in_spec w l m d k :
  resolve_in w l m = Some (d, k) ->
  exists pre post, l = (pre ++ d :: post)%list /\ own w d m = Some k /\ forall d', In d' pre -> own w d' m = None.
Proof.
  induction l as [|x r IH]; simpl; [discriminate|].
  destruct (own w x m) as [k'|] eqn:E.
  - intros H; inversion H; subst. exists [], r. repeat split; auto. intros d' [].
  - intros H. destruct (IH H) as [pre [post [-> [Hd Hpre]]]].
    exists (x :: pre), post. repeat split; auto.
    intros d' [->|Hin]; auto.
Qed.

Lemma resolve_in_none w l m : resolve_in w l m = None -> forall d, In d l -> own w d m = None.
Proof.
  induction l as [|x r IH]; simpl; [intros _ d []|].
  destruct (own w x m) eqn:E; [discriminate|].
  intros H d [->|Hin]; auto.
Qed.

(* ------------------------------------------------------------------------------------------ *)
(** * __torch_function__ *)

Definition tbl_eqb (a b : tbl) : bool := match a, b with First, First | Second, Second => true | _, _ => false end.
Definition argref_eqb (a b : argref) : bool :=
  match a, b with RArg i, RArg j | RRest i, RRest j => Nat.eqb i j | _, _ => false end.
Fixpoint argrefs_eqb (a b : list argref) : bool :=
  match a, b with [], [] => true | x :: r, y :: s => argref_eqb x y && argrefs_eqb r s | _, _ => false end.
Definition branch_eqb (a b : branch) : bool :=
  tbl_eqb (b_member a) (b_member b) && Bool.eqb (b_types_check a) (b_types_check b) &&
  tbl_eqb (b_lookup a) (b_lookup b) && argrefs_eqb (b_call a) (b_call b) && Bool.eqb (b_kwargs a) (b_kwargs b).

Lemma tbl_eqb_eq a b : tbl_eqb a b = true -> a = b.
Proof. destruct a, b; simpl; congruence. Qed.
Lemma argrefs_eqb_eq a b : argrefs_eqb a b = true -> a = b.
Proof.
  revert b; induction a as [|x r IH]; destruct b as [|y s]; simpl; try congruence.
  intros H. apply andb_prop in H as [H1 H2]. f_equal; auto.
  destruct x, y; simpl in H1; try discriminate; apply Nat.eqb_eq in H1; congruence.
Qed.
Lemma branch_eqb_eq a b : branch_eqb a b = true -> a = b.
Proof.
  destruct a, b; unfold branch_eqb; simpl. intros H.
  repeat (apply andb_prop in H as [H ?]).
  apply tbl_eqb_eq in H. apply Bool.eqb_prop in H3. apply tbl_eqb_eq in H2.
  apply argrefs_eqb_eq in H1. apply Bool.eqb_prop in H0. congruence.
Qed.

(* the handler required by the property: operator-first calls use the first-argument table and pass
   the arguments through; all other calls use the second-argument table and swap the first two *)
Definition ref_inst : branch :=
  {| b_member := First; b_types_check := true; b_lookup := First; b_call := [RRest 0]; b_kwargs := true |}.
Definition ref_other : branch :=
  {| b_member := Second; b_types_check := true; b_lookup := Second; b_call := [RArg 1; RArg 0; RRest 2]; b_kwargs := true |}.
Definition tf_ok (p : tf_prog) : bool :=
  Nat.eqb (tf_test_arg p) 0 && branch_eqb (tf_inst p) ref_inst && branch_eqb (tf_other p) ref_other.

Lemma tf_ok_eq p : tf_ok p = true -> p = {| tf_test_arg := 0; tf_inst := ref_inst; tf_other := ref_other |}.
Proof.
  destruct p; unfold tf_ok; simpl. intros H.
  apply andb_prop in H as [H H2]. apply andb_prop in H as [H0 H1].
  apply Nat.eqb_eq in H0. apply branch_eqb_eq in H1. apply branch_eqb_eq in H2. congruence.
Qed.

Lemma seq_from_length i n : List.length (seq_from i n) = n.
Proof. revert i; induction n; simpl; auto. Qed.

(* explicit form of the handler once the translated program is the reference one *)
Lemma torch_function_first w cls f types a rest :
  tf_ok (w_tf w) = true -> isinstance w a cls = true ->
  torch_function w cls f types (a :: rest) =
    if negb (mem f (w_first w)) || negb (forallb type_ok types) then DRaise NotImplementedError
    else match lookup f (w_first w) with
         | None => DRaise KeyError
         | Some m => match resolve w cls m with
                     | None => DRaise AttributeError
                     | Some (d, k) => DCall d m k (seq_from 0 (S (List.length rest))) true
                     end
         end.
Proof.
  intros Htf Hi. unfold torch_function. rewrite (tf_ok_eq _ Htf). simpl. rewrite Hi.
  unfold run_branch; simpl.
  destruct (negb (mem f (w_first w)) || negb (forallb type_ok types)); [reflexivity|].
  destruct (lookup f (w_first w)); [|reflexivity].
  destruct (resolve w cls s) as [[d k]|]; [|reflexivity].
  rewrite app_nil_r. reflexivity.
Qed.

Lemma torch_function_second w cls f types a :
  tf_ok (w_tf w) = true -> isinstance w a cls = false -> forall rest,
  torch_function w cls f types (a :: rest) =
    if negb (mem f (w_second w)) || negb (forallb type_ok types) then DRaise NotImplementedError
    else match lookup f (w_second w) with
         | None => DRaise KeyError
         | Some m => match resolve w cls m with
                     | None => DRaise AttributeError
                     | Some (d, k) => match rest with
                                      | [] => DRaise IndexError
                                      | _ :: r2 => DCall d m k (1 :: 0 :: seq_from 2 (List.length r2)) true
                                      end
                     end
         end.
Proof.
  intros Htf Hi rest. unfold torch_function. rewrite (tf_ok_eq _ Htf). simpl. rewrite Hi.
  unfold run_branch; simpl.
  destruct (negb (mem f (w_second w)) || negb (forallb type_ok types)); [reflexivity|].
  destruct (lookup f (w_second w)); [|reflexivity].
  destruct (resolve w cls s) as [[d k]|]; [|reflexivity].
  destruct rest as [|b r2]; simpl; [reflexivity|].
  rewrite app_nil_r, Nat.sub_0_r. reflexivity.
Qed.

(* a function registered in neither table raises NotImplementedError, whatever the arguments *)
Lemma unregistered_raises_gen w cls f types a rest :
  tf_ok (w_tf w) = true -> mem f (w_first w) = false -> mem f (w_second w) = false ->
  torch_function w cls f types (a :: rest) = DRaise NotImplementedError.
Proof.
  intros Htf H1 H2. destruct (isinstance w a cls) eqn:Hi.
  - rewrite (torch_function_first _ _ _ _ _ _ Htf Hi), H1. reflexivity.
  - rewrite (torch_function_second _ _ _ _ _ Htf Hi), H2. reflexivity.
Qed.

(* registered for one position only: the other position raises *)
Lemma unregistered_first_raises w cls f types a rest :
  tf_ok (w_tf w) = true -> isinstance w a cls = true -> mem f (w_first w) = false ->
  torch_function w cls f types (a :: rest) = DRaise NotImplementedError.
Proof. intros Htf Hi H1. rewrite (torch_function_first _ _ _ _ _ _ Htf Hi), H1. reflexivity. Qed.

Lemma unregistered_second_raises w cls f types a rest :
  tf_ok (w_tf w) = true -> isinstance w a cls = false -> mem f (w_second w) = false ->
  torch_function w cls f types (a :: rest) = DRaise NotImplementedError.
Proof. intros Htf Hi H1. rewrite (torch_function_second _ _ _ _ _ Htf Hi), H1. reflexivity. Qed.

(* a foreign type among the overriding arguments raises, registered or not *)
Lemma foreign_type_raises w cls f types a rest :
  tf_ok (w_tf w) = true -> forallb type_ok types = false ->
  torch_function w cls f types (a :: rest) = DRaise NotImplementedError.
Proof.
  intros Htf Ht. destruct (isinstance w a cls) eqn:Hi.
  - rewrite (torch_function_first _ _ _ _ _ _ Htf Hi), Ht, orb_true_r. reflexivity.
  - rewrite (torch_function_second _ _ _ _ _ Htf Hi), Ht, orb_true_r. reflexivity.
Qed.

(* whatever is called was found by MRO-first lookup of the registered name *)
Lemma torch_function_call_resolved w cls f types args d m k p kw :
  torch_function w cls f types args = DCall d m k p kw -> resolve w cls m = Some (d, k).
Proof.
  unfold torch_function. destruct (nth_error args _); [|discriminate].
  unfold run_branch.
  destruct (_ || _); [discriminate|].
  destruct (lookup f _) as [m'|]; [|discriminate].
  destruct (resolve w cls m') as [[d' k']|] eqn:R; [|discriminate].
  destruct (call_perm _ _); [|discriminate].
  intros H; inversion H; subst. assumption.
Qed.

(* ------------------------------------------------------------------------------------------ *)
(** * overloaded arguments *)

Lemma insert_ov_In w a l x : In x (insert_ov w a l) <-> x = a \/ In x l.
Proof.
  induction l as [|y r IH]; simpl.
  - intuition.
  - destruct (is_subtype w (snd a) (snd y)); simpl; [intuition|].
    rewrite IH. intuition.
Qed.

Lemma overloaded_from_acc w args : forall i acc x, In x acc -> In x (overloaded_from w i args acc).
Proof.
  induction args as [|a r IH]; simpl; auto.
  intros i acc x Hx. apply IH.
  destruct (has_tf a && _); [apply insert_ov_In; now right|assumption].
Qed.

Lemma same_type_refl a : has_tf a = true -> same_type a a = true.
Proof. destruct a; simpl; try discriminate; auto using String.eqb_refl. Qed.

(* every overriding argument's type is represented among the overloaded arguments *)
Lemma overloaded_from_covers w args : forall i acc a,
  In a args -> has_tf a = true ->
  exists x, In x (overloaded_from w i args acc) /\ same_type a (snd x) = true.
Proof.
  induction args as [|b r IH]; simpl; [intros ? ? ? []|].
  intros i acc a [->|Hin] Ha.
  - rewrite Ha. simpl.
    destruct (existsb (fun x => same_type a (snd x)) acc) eqn:E; simpl.
    + apply existsb_exists in E as [x [Hx Hs]]. exists x. split; [apply overloaded_from_acc; assumption|assumption].
    + exists (i, a). split; [apply overloaded_from_acc, insert_ov_In; now left|simpl; now apply same_type_refl].
  - now apply IH.
Qed.

Lemma foreign_in_types w args :
  In KForeign args -> forallb type_ok (map snd (overloaded w args)) = false.
Proof.
  intros H. destruct (overloaded_from_covers w args 0 [] KForeign H eq_refl) as [x [Hx Hs]].
  apply not_true_is_false. intros Hall. rewrite forallb_forall in Hall.
  specialize (Hall (snd x) (in_map snd _ _ Hx)).
  destruct (snd x); simpl in *; discriminate.
Qed.

(* members of the overloaded list are arguments *)
Lemma overloaded_from_sub w args : forall i acc x,
  In x (overloaded_from w i args acc) -> In x acc \/ In (snd x) args.
Proof.
  induction args as [|a r IH]; simpl; auto.
  intros i acc x Hx. apply IH in Hx as [Hx|Hx]; [|auto].
  destruct (has_tf a && _); [|auto].
  apply insert_ov_In in Hx as [->|Hx]; simpl; auto.
Qed.

Lemma overloaded_nonempty_args w args x r : overloaded w args = x :: r -> args <> [].
Proof. intros H ->. discriminate. Qed.

(* ------------------------------------------------------------------------------------------ *)
(** * Semantics in an abstract algebra *)

Record alg_laws (A : alg) := {
  l_ring : ring_theory (a0 A) (a1 A) (aadd A) (amul A) (asub A) (aopp A) eq;
  l_tr_tr : forall x, atr A (atr A x) = x;
  l_tr_mm : forall x y, atr A (amm A x y) = amm A (atr A y) (atr A x);
  l_Z_1 : aZ A 1 = a1 A;
  l_Z_m1 : aZ A (-1) = aopp A (a1 A) }.

Definition nth2 {T} (p : nat) (x0 x1 : T) : T := match p with 0 => x0 | _ => x1 end.

Section Sound.
Variable A : alg.
Hypothesis L : alg_laws A.
Variables (dr da : car A).
Add Ring Aring : (l_ring A L).

Notation "x + y" := (aadd A x y).
Notation "x * y" := (amul A x y).
Notation "x - y" := (asub A x y).

(* the verdicts mean what they say *)
Lemma kw_absent_spec (k : kwv A) : kw_absent k = true -> kw_alpha k = None /\ kw_tol k = None.
Proof. unfold kw_absent. destruct (kw_alpha k); [discriminate|]. destruct (kw_tol k); [discriminate|]. auto. Qed.

Lemma den_semop_absent o x y (k : kwv A) vec :
  kw_absent k = true -> den_semop A dr da o x y k vec = den_semop A dr da o x y (kw_none A) vec.
Proof. intros H. destruct (kw_absent_spec k H) as [Ea Et]. unfold den_semop. rewrite Ea, Et. reflexivity. Qed.

Lemma den_semop_comm o x y : comm o = true ->
  den_semop A dr da o x y (kw_none A) false = den_semop A dr da o y x (kw_none A) false.
Proof. destruct o; simpl; try discriminate; intros _; ring. Qed.

Lemma sem_verdict_sound0 o sd kwacc ps po o' haskw v :
  sem_verdict (SemBin o sd kwacc) [ps; po] (EBinF o' haskw) = v -> v = VOk \/ v = VOkNoKw ->
  forall x0 x1 (k : kwv A), (v = VOkNoKw \/ haskw = false -> kw_absent k = true) ->
  den_method A dr da o sd kwacc (nth2 ps x0 x1) (nth2 po x0 x1) k false = den_expected A dr da o' x0 x1 k false.
Proof.
  unfold sem_verdict. destruct (semop_eqb o o') eqn:Eo; simpl; [|intros <- [?|?]; discriminate].
  assert (o = o') by (destruct o, o'; simpl in Eo; congruence). subst o'. clear Eo.
  set (l := match sd with SelfLeft => ps | SelfRight => po end).
  set (r := match sd with SelfLeft => po | SelfRight => ps end).
  assert (Hm : forall x0 x1 k, den_method A dr da o sd kwacc (nth2 ps x0 x1) (nth2 po x0 x1) k false
                = den_semop A dr da o (nth2 l x0 x1) (nth2 r x0 x1) (if kwacc then k else kw_none A) false)
    by (intros; destruct sd; reflexivity).
  intros H Hv x0 x1 k Hk. rewrite Hm. unfold den_expected.
  destruct (Nat.eqb l 0 && Nat.eqb r 1) eqn:E1.
  - apply andb_prop in E1 as [El Er]. apply Nat.eqb_eq in El, Er. rewrite El, Er. simpl.
    destruct kwacc; [reflexivity|].
    destruct haskw; simpl in H.
    + symmetry. apply den_semop_absent. apply Hk. now left.
    + symmetry. apply den_semop_absent. apply Hk. now right.
  - destruct (Nat.eqb l 1 && Nat.eqb r 0 && comm o) eqn:E2; [|subst v; destruct Hv; discriminate].
    apply andb_prop in E2 as [E2 C]. apply andb_prop in E2 as [El Er].
    apply Nat.eqb_eq in El, Er. rewrite El, Er. simpl.
    assert (Ha : kw_absent k = true).
    { apply Hk. destruct haskw; simpl in H; [|now right]. destruct kwacc; subst v; [destruct Hv; discriminate|now left]. }
    rewrite (den_semop_absent o x0 x1 k false Ha).
    assert (Hk' : den_semop A dr da o x1 x0 (if kwacc then k else kw_none A) false = den_semop A dr da o x1 x0 (kw_none A) false)
      by (destruct kwacc; [now apply den_semop_absent|reflexivity]).
    rewrite Hk'. now apply den_semop_comm.
Qed.

Lemma den_semop_comm_vec o x y (k : kwv A) vec : comm o = true ->
  den_semop A dr da o x y k vec = den_semop A dr da o x y k false.
Proof. destruct o; simpl; try discriminate; reflexivity. Qed.

(* vec: the caller's first argument is a 1-D tensor (torch: v @ M = M^T v); only the operand that is
   not `self` can be one *)
Lemma sem_verdict_sound o sd kwacc ps po o' haskw v :
  sem_verdict (SemBin o sd kwacc) [ps; po] (EBinF o' haskw) = v -> v = VOk \/ v = VOkNoKw ->
  forall x0 x1 (k : kwv A) vec, (v = VOkNoKw \/ haskw = false -> kw_absent k = true) -> (vec = true -> po = 0) ->
  den_method A dr da o sd kwacc (nth2 ps x0 x1) (nth2 po x0 x1) k vec = den_expected A dr da o' x0 x1 k vec.
Proof.
  intros H Hv x0 x1 k vec Hk Hvec. destruct vec.
  2:{ destruct sd; apply (sem_verdict_sound0 _ _ _ _ _ _ _ _ H Hv x0 x1 k Hk). }
  specialize (Hvec eq_refl). subst po.
  pose proof (sem_verdict_sound0 _ _ _ _ _ _ _ _ H Hv x0 x1 k Hk) as H0.
  revert H. unfold sem_verdict. destruct (semop_eqb o o') eqn:Eo; simpl; [|intros <-; destruct Hv; discriminate].
  assert (o = o') by (destruct o, o'; simpl in Eo; congruence). subst o'. clear Eo.
  destruct sd; simpl.
  - (* SelfLeft: left = ps, right = 0: only the commutative swapped case is good *)
    rewrite andb_false_r.
    destruct (Nat.eqb ps 1 && true && comm o) eqn:E2; [|intros <-; destruct Hv; discriminate].
    apply andb_prop in E2 as [_ C]. intros _.
    unfold den_expected in *. rewrite (den_semop_comm_vec o x0 x1 k true C). exact H0.
  - (* SelfRight: left = 0, right = ps *)
    destruct (Nat.eqb ps 1) eqn:E1; simpl; [|intros <-; destruct Hv; discriminate].
    apply Nat.eqb_eq in E1. subst ps. intros H. unfold den_method, den_expected, nth2.
    destruct kwacc; [reflexivity|].
    symmetry. apply den_semop_absent. apply Hk. destruct haskw; simpl in H; [now left|now right].
Qed.

End Sound.

(* ------------------------------------------------------------------------------------------ *)
(** * Cells: one call shape = one function x the kinds of its arguments *)

Definition good (v : verdict) : bool := match v with VOk | VOkNoKw => true | _ => false end.
Lemma good_spec v : good v = true -> v = VOk \/ v = VOkNoKw.
Proof. destruct v; simpl; auto; discriminate. Qed.

Lemma sem_verdict_nokw o sd kwacc ps po o' haskw :
  sem_verdict (SemBin o sd kwacc) [ps; po] (EBinF o' haskw) = VOkNoKw -> haskw = true /\ kwacc = false.
Proof.
  unfold sem_verdict. destruct (negb (semop_eqb o o')); [discriminate|].
  destruct (_ && _).
  - destruct haskw, kwacc; simpl; try discriminate; auto.
  - destruct (_ && _ && _); [|discriminate]. destruct haskw, kwacc; simpl; try discriminate; auto.
Qed.

Definition not_other (k : mkind) : bool := match k with MOther => false | _ => true end.

(* the dispatch outcome [d] of a two-operand call meant as [e] is right *)
Definition bin_ok (e : esem) (d : disp) : bool :=
  match e, d with
  | EBinF o haskw, DCall _ m k [ps; po] _ =>
      match method_sem m with
      | Some (SemBin o' sd kwacc) => not_other k && good (sem_verdict (SemBin o' sd kwacc) [ps; po] (EBinF o haskw))
      | _ => false
      end
  | _, _ => false
  end.

(* what bin_ok means: a function object found in a class __dict__ is called; under the contract of its
   name it returns, for all operands of any algebra satisfying the laws, what the caller of
   f(x0, x1, kw) means.  (A keyword the method does not accept must be absent: VOkNoKw.) *)
Definition bin_meaning (o : semop) (haskw : bool) (d : disp) : Prop :=
  exists dd m k ps po kwf o' sd kwacc v,
    d = DCall dd m k [ps; po] kwf /\ k <> MOther /\
    method_sem m = Some (SemBin o' sd kwacc) /\
    sem_verdict (SemBin o' sd kwacc) [ps; po] (EBinF o haskw) = v /\ (v = VOk \/ v = VOkNoKw) /\
    forall (A : alg) (L : alg_laws A) (dr da x0 x1 : car A) (kw : kwv A) (vec : bool),
      (* a keyword may be passed only if f has one and the method that runs accepts it *)
      (haskw && kwacc = false -> kw_absent kw = true) ->
      (* vec: x0 is 1-D; only the operand that is not `self` can be *)
      (vec = true -> po = 0) ->
      den_method A dr da o' sd kwacc (nth2 ps x0 x1) (nth2 po x0 x1) kw vec = den_expected A dr da o x0 x1 kw vec.

Lemma bin_ok_sound o haskw d : bin_ok (EBinF o haskw) d = true -> bin_meaning o haskw d.
Proof.
  unfold bin_ok, bin_meaning.
  destruct d as [dd m k perm kwf| | |]; try discriminate.
  destruct perm as [|ps [|po [|? ?]]]; try discriminate.
  destruct (method_sem m) as [[o' sd kwacc|?]|] eqn:Em; try discriminate.
  intros H. apply andb_prop in H as [Hk Hg]. apply good_spec in Hg.
  exists dd, m, k, ps, po, kwf, o', sd, kwacc, (sem_verdict (SemBin o' sd kwacc) [ps; po] (EBinF o haskw)).
  repeat split; auto.
  - destruct k; simpl in Hk; congruence.
  - intros A L dr da x0 x1 kw vec Hkw Hvec. eapply sem_verdict_sound; eauto.
    intros [Hv|Hh]; apply Hkw.
    + apply sem_verdict_nokw in Hv as [-> ->]. reflexivity.
    + now rewrite Hh.
Qed.

(* one-operand (pass-through) functions: the method that runs has the calling convention of f and
   receives the caller's arguments unchanged, the operator first *)
Fixpoint natlist_eqb (a b : list nat) : bool :=
  match a, b with [], [] => true | x :: r, y :: q => Nat.eqb x y && natlist_eqb r q | _, _ => false end.
Lemma natlist_eqb_eq a b : natlist_eqb a b = true -> a = b.
Proof.
  revert b; induction a as [|x r IH]; destruct b as [|y q]; simpl; try congruence.
  intros H. apply andb_prop in H as [H1 H2]. apply Nat.eqb_eq in H1. f_equal; auto.
Qed.
Definition fun_ok (t : string) (nargs : nat) (d : disp) : bool :=
  match d with
  | DCall _ m k perm true =>
      match method_sem m with
      | Some (SemFun t') => not_other k && String.eqb t' t && natlist_eqb perm (seq_from 0 nargs)
      | _ => false
      end
  | _ => false
  end.
Definition fun_meaning (t : string) (nargs : nat) (d : disp) : Prop :=
  exists dd m k, d = DCall dd m k (seq_from 0 nargs) true /\ k <> MOther /\ method_sem m = Some (SemFun t).
Lemma fun_ok_sound t n d : fun_ok t n d = true -> fun_meaning t n d.
Proof.
  unfold fun_ok, fun_meaning. destruct d as [dd m k perm kwf| | |]; try discriminate.
  destruct kwf; try discriminate.
  destruct (method_sem m) as [[?|t']|] eqn:Em; try discriminate.
  intros H. apply andb_prop in H as [H Hp]. apply andb_prop in H as [Hk Ht].
  apply String.eqb_eq in Ht. subst t'.
  apply natlist_eqb_eq in Hp. subst perm.
  exists dd, m, k. repeat split; auto. destruct k; simpl in Hk; congruence.
Qed.

(* ---- the cells ---- *)
Inductive okind := OTensor | OScalar | OOp (d : string).    (* kind of the operand that is not the operator under test *)
Definition argk_of (k : okind) : argk := match k with OTensor => KTensor | OScalar => KScalar | OOp d => KOp d end.
Definition cell_args (c : string) (pos : nat) (k : okind) : list argk :=
  match pos with 0 => [KOp c; argk_of k] | _ => [argk_of k; KOp c] end.

Definition is_bin (f : string) : bool := match expected f with Some (EBinF _ _) => true | _ => false end.
Definition prefixb (p s : string) : bool := String.prefix p s.
Definition is_tensor_method (f : string) : bool := prefixb "torch.Tensor." f.

(* the call was routed through the second-argument branch: self = args[1], other = args[0] *)
Definition second_route (d : disp) : bool := match d with DCall _ _ _ (1 :: 0 :: _) _ => true | _ => false end.

(* NAMED, VISIBLE EXCLUSION (recorded findings C15-add-alpha-second-arg, C15-isclose-second-arg):
   torch.add / torch.isclose are registered *symmetrically*, so a call routed through the
   second-argument branch runs add(op, t, alpha) / isclose(op, t, rtol, atol): the keyword is applied
   to, resp. the tolerance is taken relative to, the wrong operand.  Refuted below for every world
   with these registrations (symmetric_add_refuted, symmetric_isclose_refuted). *)
Definition kd_symmetric_second (f : string) (d : disp) : bool :=
  (String.eqb f "torch.add" || String.eqb f "torch.isclose") && second_route d.

(* DOCUMENTED DOMAIN: div(self, other: Union[float, Tensor]) -- division by an operator is outside
   the method's signature (1.0 / other needs other.__rtruediv__) *)
Definition div_by_operator (f : string) (k : okind) : bool :=
  String.eqb f "torch.div" && match k with OOp _ => true | _ => false end.

Definition esem_of (f : string) : esem := match expected f with Some e => e | None => EFunF "" end.
Definition is_nie (d : disp) : bool := match d with DRaise NotImplementedError => true | _ => false end.
Definition strict_sub (w : world) (d c : string) : bool := subclassb w d c && negb (String.eqb c d).

Definition okinds_plain : list okind := [OTensor; OScalar].

Definition first_entry_ok (w : world) (c f : string) : bool :=
  match expected f with
  | Some (EBinF o hk) =>
      forallb (fun k => bin_ok (EBinF o hk) (dispatch w f (cell_args c 0 k))) okinds_plain &&
      forallb (fun d => div_by_operator f (OOp d) || bin_ok (EBinF o hk) (dispatch w f (cell_args c 0 (OOp d))) ||
                        kd_symmetric_second f (dispatch w f (cell_args c 0 (OOp d))) ||
                        (is_nie (dispatch w f (cell_args c 0 (OOp d))) && strict_sub w d c && negb (mem f (w_second w))))
              (w_opclasses w)
  | Some (EFunF t) =>
      fun_ok t 1 (dispatch w f [KOp c]) && fun_ok t 2 (dispatch w f [KOp c; KTensor]) &&
      fun_ok t 3 (dispatch w f [KOp c; KScalar; KScalar])
  | None => false
  end.
Definition first_cells_ok (w : world) : bool :=
  forallb (fun c => forallb (first_entry_ok w c) (map fst (w_first w))) (w_opclasses w).

Definition second_kind_ok (w : world) (c f : string) (e : esem) (k : okind) : bool :=
  (match k with OScalar => is_tensor_method f | _ => false end) ||
  kd_symmetric_second f (dispatch w f (cell_args c 1 k)) || bin_ok e (dispatch w f (cell_args c 1 k)).
Definition second_entry_ok (w : world) (c f : string) : bool :=
  match expected f with
  | Some (EBinF o hk) => forallb (second_kind_ok w c f (EBinF o hk)) okinds_plain
  | _ => false
  end.
Definition second_cells_ok (w : world) : bool :=
  forallb (fun c => forallb (second_entry_ok w c) (map fst (w_second w))) (w_opclasses w).

Lemma forallb_In {T} (p : T -> bool) l x : forallb p l = true -> In x l -> p x = true.
Proof. rewrite forallb_forall. auto. Qed.

Lemma lookup_In_fst {A} f (l : list (string * A)) m : lookup f l = Some m -> In f (map fst l).
Proof. intros H. apply lookup_In in H. change f with (fst (f, m)). now apply in_map. Qed.

Lemma first_cells_bin w : first_cells_ok w = true ->
  forall c f m o hk, In c (w_opclasses w) -> lookup f (w_first w) = Some m -> expected f = Some (EBinF o hk) ->
  (forall k, k = OTensor \/ k = OScalar -> bin_meaning o hk (dispatch w f (cell_args c 0 k))) /\
  (forall d, In d (w_opclasses w) -> div_by_operator f (OOp d) = false ->
     kd_symmetric_second f (dispatch w f (cell_args c 0 (OOp d))) = false ->
     bin_meaning o hk (dispatch w f (cell_args c 0 (OOp d))) \/
     (dispatch w f (cell_args c 0 (OOp d)) = DRaise NotImplementedError /\ strict_sub w d c = true /\ mem f (w_second w) = false)).
Proof.
  intros H c f m o hk Hc Hf He.
  pose proof (forallb_In _ _ _ (forallb_In _ _ _ H Hc) (lookup_In_fst _ _ _ Hf)) as H1.
  unfold first_entry_ok in H1. rewrite He in H1. apply andb_prop in H1 as [Ha Hb]. split.
  - intros k Hk. apply bin_ok_sound. apply (forallb_In _ _ _ Ha). destruct Hk as [-> | ->]; simpl; auto.
  - intros d Hd Hdiv Hkd. pose proof (forallb_In _ _ _ Hb Hd) as H2. cbv beta in H2.
    rewrite Hdiv, Hkd in H2. rewrite orb_false_l, orb_false_r in H2.
    apply orb_prop in H2 as [H2|H2]; [left; now apply bin_ok_sound|right].
    apply andb_prop in H2 as [H2 H3]. apply andb_prop in H2 as [H2 H4].
    repeat split; auto.
    + destruct (dispatch w f (cell_args c 0 (OOp d))) as [| [] | |]; simpl in H2; try discriminate; reflexivity.
    + now apply negb_true_iff in H3.
Qed.

Lemma first_cells_fun w : first_cells_ok w = true ->
  forall c f m t, In c (w_opclasses w) -> lookup f (w_first w) = Some m -> expected f = Some (EFunF t) ->
  fun_meaning t 1 (dispatch w f [KOp c]) /\ fun_meaning t 2 (dispatch w f [KOp c; KTensor]) /\
  fun_meaning t 3 (dispatch w f [KOp c; KScalar; KScalar]).
Proof.
  intros H c f m t Hc Hf He.
  pose proof (forallb_In _ _ _ (forallb_In _ _ _ H Hc) (lookup_In_fst _ _ _ Hf)) as H1.
  unfold first_entry_ok in H1. rewrite He in H1. apply andb_prop in H1 as [H1 H3]. apply andb_prop in H1 as [H1 H2].
  repeat split; now apply fun_ok_sound.
Qed.

Lemma first_cells_expected w : first_cells_ok w = true ->
  forall f m, w_opclasses w <> [] -> lookup f (w_first w) = Some m -> exists e, expected f = Some e.
Proof.
  intros H f m Hne Hf. unfold first_cells_ok in H. destruct (w_opclasses w) as [|c r] eqn:E; [congruence|].
  assert (Hc : In c (c :: r)) by now left.
  pose proof (forallb_In _ _ _ (forallb_In _ _ _ H Hc) (lookup_In_fst _ _ _ Hf)) as H1.
  unfold first_entry_ok in H1. destruct (expected f); [eauto|discriminate].
Qed.

Lemma second_cells_bin w : second_cells_ok w = true ->
  forall c f m, In c (w_opclasses w) -> lookup f (w_second w) = Some m ->
  exists o hk, expected f = Some (EBinF o hk) /\
    forall k, k = OTensor \/ (k = OScalar /\ is_tensor_method f = false) ->
      kd_symmetric_second f (dispatch w f (cell_args c 1 k)) = false ->
      bin_meaning o hk (dispatch w f (cell_args c 1 k)).
Proof.
  intros H c f m Hc Hf.
  pose proof (forallb_In _ _ _ (forallb_In _ _ _ H Hc) (lookup_In_fst _ _ _ Hf)) as H1.
  unfold second_entry_ok in H1.
  destruct (expected f) as [[o hk|?]|]; try discriminate.
  exists o, hk. split; [reflexivity|].
  intros k Hk Hkd. apply bin_ok_sound.
  assert (Hin : In k okinds_plain) by (destruct Hk as [-> | [-> _]]; simpl; auto).
  pose proof (forallb_In _ _ _ H1 Hin) as H2. unfold second_kind_ok in H2. rewrite Hkd in H2.
  destruct Hk as [-> | [-> Ht]]; [exact H2|].
  rewrite Ht in H2. exact H2.
Qed.

(* ---- python's binary operators on operators ---- *)
Definition semop_of (o : binop) : semop :=
  match o with BAdd => SAdd | BSub => SSub | BMul => SMul | BDiv => SDiv | BMatmul => SMatmul end.
Definition all_binops : list binop := [BAdd; BSub; BMul; BDiv; BMatmul].
Definition is_div (o : binop) : bool := match o with BDiv => true | _ => false end.
Definition is_mm (o : binop) : bool := match o with BMatmul => true | _ => false end.
Definition is_exn (e : exn) (d : disp) : bool :=
  match d, e with DRaise NotImplementedError, NotImplementedError | DRaise TypeError, TypeError => true | _, _ => false end.

Definition binop_cells_ok (w : world) : bool :=
  forallb (fun c => forallb (fun o =>
    let e := EBinF (semop_of o) false in
    bin_ok e (binop_dispatch w o (KOp c) KTensor) &&
    (is_mm o || bin_ok e (binop_dispatch w o (KOp c) KScalar)) &&
    (if is_div o
     then is_exn NotImplementedError (binop_dispatch w o KTensor (KOp c)) && is_exn TypeError (binop_dispatch w o KScalar (KOp c))
     else bin_ok e (binop_dispatch w o KTensor (KOp c)) && (is_mm o || bin_ok e (binop_dispatch w o KScalar (KOp c)))) &&
    (is_div o || forallb (fun d => bin_ok e (binop_dispatch w o (KOp c) (KOp d))) (w_opclasses w)))
    all_binops) (w_opclasses w).

Lemma is_exn_spec e d : is_exn e d = true -> d = DRaise e.
Proof. destruct d as [| [] | |], e; simpl; try discriminate; reflexivity. Qed.

Lemma binop_cells_sound w : binop_cells_ok w = true ->
  forall c o, In c (w_opclasses w) ->
  let sem := bin_meaning (semop_of o) false in
  sem (binop_dispatch w o (KOp c) KTensor) /\
  (o <> BMatmul -> sem (binop_dispatch w o (KOp c) KScalar)) /\
  (o <> BDiv -> sem (binop_dispatch w o KTensor (KOp c))) /\
  (o <> BDiv -> o <> BMatmul -> sem (binop_dispatch w o KScalar (KOp c))) /\
  (o = BDiv -> binop_dispatch w o KTensor (KOp c) = DRaise NotImplementedError /\
               binop_dispatch w o KScalar (KOp c) = DRaise TypeError) /\
  (o <> BDiv -> forall d, In d (w_opclasses w) -> sem (binop_dispatch w o (KOp c) (KOp d))).
Proof.
  intros H c o Hc sem.
  assert (Ho : In o all_binops) by (destruct o; simpl; auto 6).
  pose proof (forallb_In _ _ _ (forallb_In _ _ _ H Hc) Ho) as H1. simpl in H1.
  apply andb_prop in H1 as [H1 H5]. apply andb_prop in H1 as [H1 H4]. apply andb_prop in H1 as [H1 H2].
  split; [now apply bin_ok_sound|].
  split. { intros Hn. destruct o; simpl in H2; try congruence; now apply bin_ok_sound. }
  destruct o; simpl in H4, H5;
    try (apply andb_prop in H4 as [H4a H4b]);
    (split; [intros ?; try congruence; now apply bin_ok_sound|]);
    (split; [intros ? ?; try congruence; now apply bin_ok_sound|]);
    (split; [intros ?; try congruence; split; now apply is_exn_spec|]);
    intros ? d Hd; try congruence; apply bin_ok_sound; now apply (forallb_In _ _ _ H5).
Qed.

(* ---- the registrations the property names are present ---- *)
Definition required_ok (w : world) : bool :=
  forallb (fun f => mem f (w_first w)) required_first && forallb (fun f => mem f (w_second w)) required_second.
Lemma required_registered w : required_ok w = true ->
  (forall f, In f required_first -> exists m, lookup f (w_first w) = Some m) /\
  (forall f, In f required_second -> exists m, lookup f (w_second w) = Some m).
Proof.
  unfold required_ok. intros H. apply andb_prop in H as [H1 H2].
  split; intros f Hf; apply mem_true_lookup.
  - exact (forallb_In _ _ _ H1 Hf).
  - exact (forallb_In _ _ _ H2 Hf).
Qed.

(* ---- totality ---- *)
Definition total_ok (w : world) : bool :=
  forallb (fun c => forallb (fun fm => match resolve w c (snd fm) with Some (_, k) => not_other k | None => false end)
                            (w_first w ++ w_second w)%list) (w_opclasses w).

Lemma total_resolves w : total_ok w = true -> forall c f m t, In c (w_opclasses w) ->
  lookup f (table w t) = Some m -> exists d k, resolve w c m = Some (d, k) /\ k <> MOther.
Proof.
  unfold total_ok. rewrite forallb_forall. intros H c f m t Hc Hf. specialize (H c Hc).
  rewrite forallb_forall in H.
  assert (Hin : In (f, m) (w_first w ++ w_second w)%list).
  { apply in_or_app. destruct t; [left|right]; now apply lookup_In. }
  specialize (H _ Hin). simpl in H.
  destruct (resolve w c m) as [[d k]|]; [|discriminate].
  exists d, k. split; auto. destruct k; simpl in H; congruence.
Qed.

Lemma lookup_mem {A} f (l : list (string * A)) m : lookup f l = Some m -> mem f l = true.
Proof. unfold mem. now intros ->. Qed.

Lemma dispatch_total_first_gen w : tf_ok (w_tf w) = true -> total_ok w = true ->
  forall c f m, In c (w_opclasses w) -> lookup f (w_first w) = Some m ->
  forall a rest types, isinstance w a c = true -> forallb type_ok types = true ->
  exists d k, torch_function w c f types (a :: rest) = DCall d m k (seq_from 0 (S (List.length rest))) true
              /\ resolve w c m = Some (d, k) /\ k <> MOther.
Proof.
  intros Htf Htot c f m Hc Hf a rest types Hi Ht.
  destruct (total_resolves w Htot c f m First Hc Hf) as [d [k [Hr Hk]]].
  exists d, k. rewrite (torch_function_first _ _ _ _ _ _ Htf Hi), (lookup_mem _ _ _ Hf), Ht, Hf, Hr. auto.
Qed.

Lemma dispatch_total_second_gen w : tf_ok (w_tf w) = true -> total_ok w = true ->
  forall c f m, In c (w_opclasses w) -> lookup f (w_second w) = Some m ->
  forall a b rest types, isinstance w a c = false -> forallb type_ok types = true ->
  exists d k, torch_function w c f types (a :: b :: rest) = DCall d m k (1 :: 0 :: seq_from 2 (List.length rest)) true
              /\ resolve w c m = Some (d, k) /\ k <> MOther.
Proof.
  intros Htf Htot c f m Hc Hf a b rest types Hi Ht.
  destruct (total_resolves w Htot c f m Second Hc Hf) as [d [k [Hr Hk]]].
  exists d, k. rewrite (torch_function_second _ _ _ _ _ Htf Hi), (lookup_mem _ _ _ Hf), Ht, Hf, Hr. auto.
Qed.

(* most derived: whatever __torch_function__ calls is the definition of the FIRST class of cls's MRO
   that has the registered name in its __dict__ *)
Lemma dispatch_most_derived_gen w cls f types args d m k p kw :
  torch_function w cls f types args = DCall d m k p kw ->
  exists pre post, mro w cls = (pre ++ d :: post)%list /\ own w d m = Some k /\
                   forall d', In d' pre -> own w d' m = None.
Proof. intros H. apply torch_function_call_resolved in H. now apply resolve_in_spec. Qed.

(* ---- dispatch level: unregistered / foreign ---- *)
Lemma dispatch_first_op w f args c : first_op (overloaded w args) = Some c ->
  dispatch w f args = torch_function w c f (map snd (overloaded w args)) args.
Proof. unfold dispatch. intros H. destruct (overloaded w args); [discriminate|]. now rewrite H. Qed.

Lemma dispatch_unregistered_gen w f args c :
  tf_ok (w_tf w) = true -> mem f (w_first w) = false -> mem f (w_second w) = false ->
  first_op (overloaded w args) = Some c -> dispatch w f args = DRaise NotImplementedError.
Proof.
  intros Htf H1 H2 Ho. rewrite (dispatch_first_op _ _ _ _ Ho).
  destruct args as [|a rest]; [discriminate|].
  now apply unregistered_raises_gen.
Qed.

Lemma dispatch_foreign_gen w f args c :
  tf_ok (w_tf w) = true -> In KForeign args ->
  first_op (overloaded w args) = Some c -> dispatch w f args = DRaise NotImplementedError.
Proof.
  intros Htf Hin Ho. assert (Hf := foreign_in_types w args Hin).
  rewrite (dispatch_first_op _ _ _ _ Ho).
  destruct args as [|a rest]; [discriminate|].
  apply foreign_type_raises; auto.
Qed.

(* an operator anywhere among the arguments puts an operator class in charge *)
Lemma first_op_In (ov : list (nat * argk)) c i : In (i, KOp c) ov -> exists c', first_op ov = Some c'.
Proof.
  induction ov as [|[j a] r IH]; [intros []|].
  intros [H|H]; simpl.
  - inversion H; subst. eauto.
  - destruct a; eauto.
Qed.

Lemma overloaded_first_op w args : (exists c, In (KOp c) args) -> exists c', first_op (overloaded w args) = Some c'.
Proof.
  intros [c Hc].
  destruct (overloaded_from_covers w args 0 [] (KOp c) Hc eq_refl) as [[i a] [Hx Hs]].
  destruct a as [c'| | |]; simpl in Hs; try discriminate.
  eapply first_op_In. exact Hx.
Qed.

(* ... hence: ANY call of an unregistered function with an operator anywhere among its arguments raises *)
Lemma unregistered_any_position w f args :
  tf_ok (w_tf w) = true -> mem f (w_first w) = false -> mem f (w_second w) = false ->
  (exists c, In (KOp c) args) -> dispatch w f args = DRaise NotImplementedError.
Proof.
  intros Htf H1 H2 Hop. destruct (overloaded_first_op w args Hop) as [c Ho].
  eapply dispatch_unregistered_gen; eauto.
Qed.

(* ... and so does any call, registered or not, that also involves an object of an unrelated overriding class *)
Lemma foreign_any_position w f args :
  tf_ok (w_tf w) = true -> In KForeign args -> (exists c, In (KOp c) args) ->
  dispatch w f args = DRaise NotImplementedError.
Proof.
  intros Htf Hf Hop. destruct (overloaded_first_op w args Hop) as [c Ho].
  eapply dispatch_foreign_gen; eauto.
Qed.

(* ------------------------------------------------------------------------------------------ *)
(** * Well-formedness of a generated world (sanity of the translator's output) *)

Fixpoint subseqb (a b : list string) : bool :=      (* a is a subsequence of b *)
  match a, b with
  | [], _ => true
  | _ :: _, [] => false
  | x :: r, y :: q => if String.eqb x y then subseqb r q else subseqb a q
  end.
Fixpoint nodupb (l : list string) : bool :=
  match l with [] => true | x :: r => negb (strmem x r) && nodupb r end.

Definition world_wf (w : world) : bool :=
  nodupb (map fst (w_first w)) && nodupb (map fst (w_second w)) &&
  nodupb (map fst (w_classes w)) && nodupb (map fst (w_defines w)) &&
  strmem (w_root w) (w_opclasses w) && nodupb (w_opclasses w) &&
  (* an operator class: listed, its MRO starts with itself, contains the root, has no repetition *)
  forallb (fun c => match lookup c (w_classes w) with
                    | Some (c0 :: r) => String.eqb c0 c && strmem (w_root w) (c0 :: r) && nodupb (c0 :: r)
                    | _ => false end) (w_opclasses w) &&
  (* every class of every MRO is listed (with its own MRO and __dict__), and MROs are monotone (C3) *)
  forallb (fun cl => forallb (fun d => mem d (w_classes w) && mem d (w_defines w) &&
                                       subseqb (mro w d) (snd cl)) (snd cl)) (w_classes w) &&
  (* exactly the listed classes that have the root in their MRO are operator classes *)
  forallb (fun cl => Bool.eqb (strmem (w_root w) (snd cl)) (strmem (fst cl) (w_opclasses w))) (w_classes w).

Lemma wf_isinstance_self w c : world_wf w = true -> In c (w_opclasses w) -> isinstance w (KOp c) c = true.
Proof.
  unfold world_wf. intros H Hc.
  repeat (apply andb_prop in H as [H ?]).
  pose proof (forallb_In _ _ _ H2 Hc) as Hm. cbv beta in Hm.
  unfold isinstance, subclassb, mro. destruct (lookup c (w_classes w)) as [[|c0 r]|]; try discriminate.
  apply andb_prop in Hm as [Hm _]. apply andb_prop in Hm as [Hm _].
  simpl. now rewrite String.eqb_sym, Hm.
Qed.

Lemma wf_subclass_root w c : world_wf w = true -> In c (w_opclasses w) -> subclassb w c (w_root w) = true.
Proof.
  unfold world_wf. intros H Hc.
  repeat (apply andb_prop in H as [H ?]).
  pose proof (forallb_In _ _ _ H2 Hc) as Hm. cbv beta in Hm.
  unfold subclassb, mro. destruct (lookup c (w_classes w)) as [[|c0 r]|]; try discriminate.
  apply andb_prop in Hm as [Hm _]. apply andb_prop in Hm as [_ Hm]. exact Hm.
Qed.

(* ------------------------------------------------------------------------------------------ *)
(** * A subclass that overrides none of the registered names dispatches like its parent (every world) *)

Lemma resolve_inherits w c c' m :
  mro w c' = c' :: mro w c -> own w c' m = None -> resolve w c' m = resolve w c m.
Proof. unfold resolve. intros -> H. simpl. now rewrite H. Qed.

Lemma run_branch_inherits w b c c' f types n :
  mro w c' = c' :: mro w c ->
  (forall m, lookup f (table w (b_lookup b)) = Some m -> own w c' m = None) ->
  run_branch w b c' f types n = run_branch w b c f types n.
Proof.
  intros Hm Ho. unfold run_branch.
  destruct (_ || _); [reflexivity|].
  destruct (lookup f (table w (b_lookup b))) as [m|] eqn:E; [|reflexivity].
  now rewrite (resolve_inherits w c c' m Hm (Ho m eq_refl)).
Qed.

Lemma torch_function_inherits w c c' f types args :
  mro w c' = c' :: mro w c ->
  (forall t m, lookup f (table w t) = Some m -> own w c' m = None) ->
  (forall a, nth_error args (tf_test_arg (w_tf w)) = Some a -> isinstance w a c' = isinstance w a c) ->
  torch_function w c' f types args = torch_function w c f types args.
Proof.
  intros Hm Ho Hi. unfold torch_function.
  destruct (nth_error args (tf_test_arg (w_tf w))) as [a|] eqn:E; [|reflexivity].
  rewrite (Hi a eq_refl).
  destruct (isinstance w a c); apply run_branch_inherits; auto; intros m; apply Ho.
Qed.
