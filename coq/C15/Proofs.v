(* C15 — generic lemmas about the dispatch model (any [world] that passes the boolean checks).
   ProofsW.v evaluates the checks on the generated world [W]; Property.v states the theorems. *)
From Coq Require Import List String ZArith Bool Arith Lia Ring.
Import ListNotations.
Require Import C15.Model.
Open Scope string_scope.

(* ------------------------------------------------------------------------------------------ *)
(** * lookup / MRO resolution *)

Lemma lookup_In {A} k (l : list (string * A)) v : lookup k l = Some v -> In (k, v) l.
Proof.
  induction l as [|[k' v'] r IH]; simpl; [discriminate|].
  destruct (String.eqb k k') eqn:E.
  - intros H; inversion H; subst. apply String.eqb_eq in E. subst. now left.
  - intros H. right. auto.
Qed.

Lemma mem_false_lookup {A} k (l : list (string * A)) : mem k l = false -> lookup k l = None.
Proof. unfold mem. destruct (lookup k l); [discriminate|reflexivity]. Qed.

Lemma mem_true_lookup {A} k (l : list (string * A)) : mem k l = true -> exists v, lookup k l = Some v.
Proof. unfold mem. destruct (lookup k l) as [v|]; [eauto|discriminate]. Qed.

Lemma strmem_In k l : strmem k l = true <-> In k l.
Proof.
  unfold strmem. rewrite existsb_exists. split.
  - intros [x [Hx E]]. apply String.eqb_eq in E. now subst.
  - intros H. exists k. split; [assumption|apply String.eqb_refl].
Qed.

(* getattr by MRO returns the FIRST class of the MRO that defines the name *)
Lemma resolve_in_spec w l m d k :
  resolve_in w l m = Some (d, k) ->
  exists pre post, l = (pre ++ d :: post)%list /\ own w d m = Some k /\ forall d', In d' pre -> own w d' m = None.
Proof.
  induction l as [|x r IH]; simpl; [discriminate|].
  destruct (own w x m) as [k'|] eqn:E.
  - intros H; inversion H; subst. exists [], r. repeat split; auto. intros d' [].
  - intros H. destruct (IH H) as [pre [post [-> [Hd Hpre]]]].
    exists (x :: pre), post. repeat split; auto.
    intros d' [->|Hin]; auto.
Qed.

Lemma resolve_in_none w l m : resolve_in w l m = None -> forall d, In d l -> own w d m = None.
Proof.
  induction l as [|x r IH]; simpl; [intros _ d []|].
  destruct (own w x m) eqn:E; [discriminate|].
  intros H d [->|Hin]; auto.
Qed.

(* ------------------------------------------------------------------------------------------ *)
(** * __torch_function__ *)

Definition tbl_eqb (a b : tbl) : bool := match a, b with First, First | Second, Second => true | _, _ => false end.
Definition argref_eqb (a b : argref) : bool :=
  match a, b with RArg i, RArg j | RRest i, RRest j => Nat.eqb i j | _, _ => false end.
Fixpoint argrefs_eqb (a b : list argref) : bool :=
  match a, b with [], [] => true | x :: r, y :: s => argref_eqb x y && argrefs_eqb r s | _, _ => false end.
Definition branch_eqb (a b : branch) : bool :=
  tbl_eqb (b_member a) (b_member b) && Bool.eqb (b_types_check a) (b_types_check b) &&
  tbl_eqb (b_lookup a) (b_lookup b) && argrefs_eqb (b_call a) (b_call b) && Bool.eqb (b_kwargs a) (b_kwargs b).

Lemma tbl_eqb_eq a b : tbl_eqb a b = true -> a = b.
Proof. destruct a, b; simpl; congruence. Qed.
Lemma argrefs_eqb_eq a b : argrefs_eqb a b = true -> a = b.
Proof.
  revert b; induction a as [|x r IH]; destruct b as [|y s]; simpl; try congruence.
  intros H. apply andb_prop in H as [H1 H2]. f_equal; auto.
  destruct x, y; simpl in H1; try discriminate; apply Nat.eqb_eq in H1; congruence.
Qed.
Lemma branch_eqb_eq a b : branch_eqb a b = true -> a = b.
Proof.
  destruct a, b; unfold branch_eqb; simpl. intros H.
  repeat (apply andb_prop in H as [H ?]).
  apply tbl_eqb_eq in H. apply Bool.eqb_prop in H3. apply tbl_eqb_eq in H2.
  apply argrefs_eqb_eq in H1. apply Bool.eqb_prop in H0. congruence.
Qed.

(* the handler required by the property: operator-first calls use the first-argument table and pass
   the arguments through; all other calls use the second-argument table and swap the first two *)
Definition ref_inst : branch :=
  {| b_member := First; b_types_check := true; b_lookup := First; b_call := [RRest 0]; b_kwargs := true |}.
Definition ref_other : branch :=
  {| b_member := Second; b_types_check := true; b_lookup := Second; b_call := [RArg 1; RArg 0; RRest 2]; b_kwargs := true |}.
Definition tf_ok (p : tf_prog) : bool :=
  Nat.eqb (tf_test_arg p) 0 && branch_eqb (tf_inst p) ref_inst && branch_eqb (tf_other p) ref_other.

Lemma tf_ok_eq p : tf_ok p = true -> p = {| tf_test_arg := 0; tf_inst := ref_inst; tf_other := ref_other |}.
Proof.
  destruct p; unfold tf_ok; simpl. intros H.
  apply andb_prop in H as [H H2]. apply andb_prop in H as [H0 H1].
  apply Nat.eqb_eq in H0. apply branch_eqb_eq in H1. apply branch_eqb_eq in H2. congruence.
Qed.

Lemma seq_from_length i n : List.length (seq_from i n) = n.
Proof. revert i; induction n; simpl; auto. Qed.

(* explicit form of the handler once the translated program is the reference one *)
Lemma torch_function_first w cls f types a rest :
  tf_ok (w_tf w) = true -> isinstance w a cls = true ->
  torch_function w cls f types (a :: rest) =
    if negb (mem f (w_first w)) || negb (forallb type_ok types) then DRaise NotImplementedError
    else match lookup f (w_first w) with
         | None => DRaise KeyError
         | Some m => match resolve w cls m with
                     | None => DRaise AttributeError
                     | Some (d, k) => DCall d m k (seq_from 0 (S (List.length rest))) true
                     end
         end.
Proof.
  intros Htf Hi. unfold torch_function. rewrite (tf_ok_eq _ Htf). simpl. rewrite Hi.
  unfold run_branch; simpl.
  destruct (negb (mem f (w_first w)) || negb (forallb type_ok types)); [reflexivity|].
  destruct (lookup f (w_first w)); [|reflexivity].
  destruct (resolve w cls s) as [[d k]|]; [|reflexivity].
  rewrite app_nil_r. reflexivity.
Qed.

Lemma torch_function_second w cls f types a :
  tf_ok (w_tf w) = true -> isinstance w a cls = false -> forall rest,
  torch_function w cls f types (a :: rest) =
    if negb (mem f (w_second w)) || negb (forallb type_ok types) then DRaise NotImplementedError
    else match lookup f (w_second w) with
         | None => DRaise KeyError
         | Some m => match resolve w cls m with
                     | None => DRaise AttributeError
                     | Some (d, k) => match rest with
                                      | [] => DRaise IndexError
                                      | _ :: r2 => DCall d m k (1 :: 0 :: seq_from 2 (List.length r2)) true
                                      end
                     end
         end.
Proof.
  intros Htf Hi rest. unfold torch_function. rewrite (tf_ok_eq _ Htf). simpl. rewrite Hi.
  unfold run_branch; simpl.
  destruct (negb (mem f (w_second w)) || negb (forallb type_ok types)); [reflexivity|].
  destruct (lookup f (w_second w)); [|reflexivity].
  destruct (resolve w cls s) as [[d k]|]; [|reflexivity].
  destruct rest as [|b r2]; simpl; [reflexivity|].
  rewrite app_nil_r, Nat.sub_0_r. reflexivity.
Qed.

(* a function registered in neither table raises NotImplementedError, whatever the arguments *)
Lemma unregistered_raises_gen w cls f types a rest :
  tf_ok (w_tf w) = true -> mem f (w_first w) = false -> mem f (w_second w) = false ->
  torch_function w cls f types (a :: rest) = DRaise NotImplementedError.
Proof.
  intros Htf H1 H2. destruct (isinstance w a cls) eqn:Hi.
  - rewrite (torch_function_first _ _ _ _ _ _ Htf Hi), H1. reflexivity.
  - rewrite (torch_function_second _ _ _ _ _ Htf Hi), H2. reflexivity.
Qed.

(* registered for one position only: the other position raises *)
Lemma unregistered_first_raises w cls f types a rest :
  tf_ok (w_tf w) = true -> isinstance w a cls = true -> mem f (w_first w) = false ->
  torch_function w cls f types (a :: rest) = DRaise NotImplementedError.
Proof. intros Htf Hi H1. rewrite (torch_function_first _ _ _ _ _ _ Htf Hi), H1. reflexivity. Qed.

Lemma unregistered_second_raises w cls f types a rest :
  tf_ok (w_tf w) = true -> isinstance w a cls = false -> mem f (w_second w) = false ->
  torch_function w cls f types (a :: rest) = DRaise NotImplementedError.
Proof. intros Htf Hi H1. rewrite (torch_function_second _ _ _ _ _ Htf Hi), H1. reflexivity. Qed.

(* a foreign type among the overriding arguments raises, registered or not *)
Lemma foreign_type_raises w cls f types a rest :
  tf_ok (w_tf w) = true -> forallb type_ok types = false ->
  torch_function w cls f types (a :: rest) = DRaise NotImplementedError.
Proof.
  intros Htf Ht. destruct (isinstance w a cls) eqn:Hi.
  - rewrite (torch_function_first _ _ _ _ _ _ Htf Hi), Ht, orb_true_r. reflexivity.
  - rewrite (torch_function_second _ _ _ _ _ Htf Hi), Ht, orb_true_r. reflexivity.
Qed.

(* whatever is called was found by MRO-first lookup of the registered name *)
Lemma torch_function_call_resolved w cls f types args d m k p kw :
  torch_function w cls f types args = DCall d m k p kw -> resolve w cls m = Some (d, k).
Proof.
  unfold torch_function. destruct (nth_error args _); [|discriminate].
  unfold run_branch.
  destruct (_ || _); [discriminate|].
  destruct (lookup f _) as [m'|]; [|discriminate].
  destruct (resolve w cls m') as [[d' k']|] eqn:R; [|discriminate].
  destruct (call_perm _ _); [|discriminate].
  intros H; inversion H; subst. assumption.
Qed.

(* ------------------------------------------------------------------------------------------ *)
(** * overloaded arguments *)

Lemma insert_ov_In w a l x : In x (insert_ov w a l) <-> x = a \/ In x l.
Proof.
  induction l as [|y r IH]; simpl.
  - intuition.
  - destruct (is_subtype w (snd a) (snd y)); simpl; [intuition|].
    rewrite IH. intuition.
Qed.

Lemma overloaded_from_acc w args : forall i acc x, In x acc -> In x (overloaded_from w i args acc).
Proof.
  induction args as [|a r IH]; simpl; auto.
  intros i acc x Hx. apply IH.
  destruct (has_tf a && _); [apply insert_ov_In; now right|assumption].
Qed.

Lemma same_type_refl a : has_tf a = true -> same_type a a = true.
Proof. destruct a; simpl; try discriminate; auto using String.eqb_refl. Qed.

(* every overriding argument's type is represented among the overloaded arguments *)
Lemma overloaded_from_covers w args : forall i acc a,
  In a args -> has_tf a = true ->
  exists x, In x (overloaded_from w i args acc) /\ same_type a (snd x) = true.
Proof.
  induction args as [|b r IH]; simpl; [intros ? ? ? []|].
  intros i acc a [->|Hin] Ha.
  - rewrite Ha. simpl.
    destruct (existsb (fun x => same_type a (snd x)) acc) eqn:E; simpl.
    + apply existsb_exists in E as [x [Hx Hs]]. exists x. split; [apply overloaded_from_acc; assumption|assumption].
    + exists (i, a). split; [apply overloaded_from_acc, insert_ov_In; now left|simpl; now apply same_type_refl].
  - now apply IH.
Qed.

Lemma foreign_in_types w args :
  In KForeign args -> forallb type_ok (map snd (overloaded w args)) = false.
Proof.
  intros H. destruct (overloaded_from_covers w args 0 [] KForeign H eq_refl) as [x [Hx Hs]].
  apply not_true_is_false. intros Hall. rewrite forallb_forall in Hall.
  specialize (Hall (snd x) (in_map snd _ _ Hx)).
  destruct (snd x); simpl in *; discriminate.
Qed.

(* members of the overloaded list are arguments *)
Lemma overloaded_from_sub w args : forall i acc x,
  In x (overloaded_from w i args acc) -> In x acc \/ In (snd x) args.
Proof.
  induction args as [|a r IH]; simpl; auto.
  intros i acc x Hx. apply IH in Hx as [Hx|Hx]; [|auto].
  destruct (has_tf a && _); [|auto].
  apply insert_ov_In in Hx as [->|Hx]; simpl; auto.
Qed.

Lemma overloaded_nonempty_args w args x r : overloaded w args = x :: r -> args <> [].
Proof. intros H ->. discriminate. Qed.

(* ------------------------------------------------------------------------------------------ *)
(** * Semantics in an abstract algebra *)

Record alg_laws (A : alg) := {
  l_ring : ring_theory (a0 A) (a1 A) (aadd A) (amul A) (asub A) (aopp A) eq;
  l_tr_tr : forall x, atr A (atr A x) = x;
  l_tr_mm : forall x y, atr A (amm A x y) = amm A (atr A y) (atr A x);
  l_Z_1 : aZ A 1 = a1 A;
  l_Z_m1 : aZ A (-1) = aopp A (a1 A) }.

Definition nth2 {T} (p : nat) (x0 x1 : T) : T := match p with 0 => x0 | _ => x1 end.

Section Sound.
Variable A : alg.
Hypothesis L : alg_laws A.
Variables (dr da : car A).
Add Ring Aring : (l_ring A L).

Notation "x + y" := (aadd A x y).
Notation "x * y" := (amul A x y).
Notation "x - y" := (asub A x y).

(* the verdicts mean what they say *)
Lemma sem_verdict_sound o sd kwacc ps po o' haskw v :
  sem_verdict (SemBin o sd kwacc) [ps; po] (EBinF o' haskw) = v -> v = VOk \/ v = VOkNoKw ->
  forall x0 x1 (k : kwv A), (v = VOkNoKw \/ haskw = false -> kw_absent k = true) ->
  den_method A dr da o sd (nth2 ps x0 x1) (nth2 po x0 x1) k false = den_expected A dr da o' x0 x1 k false.
Proof.
  unfold sem_verdict. destruct (semop_eqb o o') eqn:Eo; simpl; [|intros <- [?|?]; discriminate].
  assert (o = o') by (destruct o, o'; simpl in Eo; congruence). subst o'. clear Eo.
  intros H Hv x0 x1 k Hk.
  assert (Habs : kw_absent k = true -> kw_alpha k = None /\ kw_tol k = None).
  { unfold kw_absent. destruct (kw_alpha k); [discriminate|]. destruct (kw_tol k); [discriminate|]. auto. }
  destruct sd.
  - destruct ps as [|[|ps]], po as [|[|po]]; simpl in H; try (subst v; destruct Hv; discriminate).
    + (* self = x0, other = x1 *) reflexivity.
    + (* self = x1, other = x0 *)
      destruct (comm o) eqn:C; simpl in H; [|subst v; destruct Hv; discriminate].
      assert (Ha : kw_absent k = true).
      { apply Hk. destruct haskw; simpl in H; [|auto]. destruct kwacc; subst v; [destruct Hv; discriminate|auto]. }
      destruct (Habs Ha) as [Ea Et].
      unfold den_method, den_expected, den_semop, nth2. rewrite ?Ea, ?Et.
      destruct o; simpl in C; try discriminate; ring.
  - destruct ps as [|[|ps]], po as [|[|po]]; simpl in H; try (subst v; destruct Hv; discriminate).
    + (* self = x0, other = x1: method computes o(x1, x0) *)
      destruct (comm o) eqn:C; simpl in H; [|subst v; destruct Hv; discriminate].
      assert (Ha : kw_absent k = true).
      { apply Hk. destruct haskw; simpl in H; [|auto]. destruct kwacc; subst v; [destruct Hv; discriminate|auto]. }
      destruct (Habs Ha) as [Ea Et].
      unfold den_method, den_expected, den_semop, nth2, kw_none. simpl. rewrite ?Ea, ?Et.
      destruct o; simpl in C; try discriminate; ring.
    + (* self = x1, other = x0: method computes o(x0, x1) without keyword *)
      assert (Ha : kw_absent k = true).
      { apply Hk. destruct haskw; simpl in H; [|auto]. destruct kwacc; subst v; [destruct Hv; discriminate|auto]. }
      destruct (Habs Ha) as [Ea Et].
      unfold den_method, den_expected, den_semop, nth2, kw_none. simpl. rewrite ?Ea, ?Et. reflexivity.
Qed.

End Sound.

(* ------------------------------------------------------------------------------------------ *)
(** * Cells: one registered function x one class x one position of the operator *)

Definition good (v : verdict) : bool := match v with VOk | VOkNoKw => true | _ => false end.
Lemma good_spec v : good v = true -> v = VOk \/ v = VOkNoKw.
Proof. destruct v; simpl; auto; discriminate. Qed.

Definition tbl_of_pos (pos : nat) : tbl := match pos with 0 => First | _ => Second end.

(* the operator at position pos, a Tensor at the other position *)
Definition args_at (c : string) (pos : nat) (e : esem) : list argk :=
  match e with
  | EFunF _ => [KOp c]
  | EBinF _ _ => match pos with 0 => [KOp c; KTensor] | _ => [KTensor; KOp c] end
  end.

Definition not_other (k : mkind) : bool := match k with MOther => false | _ => true end.

Definition bin_cell_ok (w : world) (c f : string) (pos : nat) : bool :=
  match expected f with
  | Some (EBinF o haskw) =>
      match dispatch w f (args_at c pos (EBinF o haskw)) with
      | DCall d m k [ps; po] true =>
          match method_sem m with
          | Some (SemBin o' sd kwacc) =>
              not_other k && good (sem_verdict (SemBin o' sd kwacc) [ps; po] (EBinF o haskw))
          | _ => false
          end
      | _ => false
      end
  | _ => false
  end.

(* meaning of a good two-operand cell: the method that runs returns, for all operands in any
   algebra satisfying the laws, what the caller of torch.f(x0, x1, kw) means *)
Definition sem_cell (w : world) (c f : string) (pos : nat) : Prop :=
  exists o haskw d m k ps po o' sd kwacc v,
    expected f = Some (EBinF o haskw) /\
    dispatch w f (args_at c pos (EBinF o haskw)) = DCall d m k [ps; po] true /\ k <> MOther /\
    method_sem m = Some (SemBin o' sd kwacc) /\
    sem_verdict (SemBin o' sd kwacc) [ps; po] (EBinF o haskw) = v /\ (v = VOk \/ v = VOkNoKw) /\
    forall (A : alg) (L : alg_laws A) (dr da x0 x1 : car A) (kw : kwv A),
      (v = VOkNoKw \/ haskw = false -> kw_absent kw = true) ->
      den_method A dr da o' sd (nth2 ps x0 x1) (nth2 po x0 x1) kw false = den_expected A dr da o x0 x1 kw false.

Lemma bin_cell_sound w c f pos : bin_cell_ok w c f pos = true -> sem_cell w c f pos.
Proof.
  unfold bin_cell_ok, sem_cell.
  destruct (expected f) as [[o haskw|t]|] eqn:Ee; try discriminate.
  destruct (dispatch w f _) as [d m k perm kwb| | |] eqn:Ed; try discriminate.
  destruct perm as [|ps [|po [|? ?]]]; try discriminate.
  destruct kwb; try discriminate.
  destruct (method_sem m) as [[o' sd kwacc|?]|] eqn:Em; try discriminate.
  intros H. apply andb_prop in H as [Hk Hg]. apply good_spec in Hg.
  exists o, haskw, d, m, k, ps, po, o', sd, kwacc, (sem_verdict (SemBin o' sd kwacc) [ps; po] (EBinF o haskw)).
  repeat split; auto.
  - destruct k; simpl in Hk; congruence.
  - intros A L dr da x0 x1 kw Hkw. eapply sem_verdict_sound; eauto.
Qed.

(* one-operand (pass-through) functions: the method that runs has the calling convention of f *)
Definition fun_cell_ok (w : world) (c f : string) : bool :=
  match expected f with
  | Some (EFunF t) =>
      match dispatch w f [KOp c] with
      | DCall d m k [0] true =>
          match method_sem m with Some (SemFun t') => not_other k && String.eqb t' t | _ => false end
      | _ => false
      end
  | _ => false
  end.
Definition fun_cell (w : world) (c f : string) : Prop :=
  exists t d m k, expected f = Some (EFunF t) /\ dispatch w f [KOp c] = DCall d m k [0] true /\
                  k <> MOther /\ method_sem m = Some (SemFun t).
Lemma fun_cell_sound w c f : fun_cell_ok w c f = true -> fun_cell w c f.
Proof.
  unfold fun_cell_ok, fun_cell.
  destruct (expected f) as [[o haskw|t]|] eqn:Ee; try discriminate.
  destruct (dispatch w f _) as [d m k perm kwb| | |] eqn:Ed; try discriminate.
  destruct perm as [|[|?] [|? ?]]; try discriminate. destruct kwb; try discriminate.
  destruct (method_sem m) as [[?|t']|] eqn:Em; try discriminate.
  intros H. apply andb_prop in H as [Hk Ht]. apply String.eqb_eq in Ht. subst t'.
  exists t, d, m, k. repeat split; auto. destruct k; simpl in Hk; congruence.
Qed.

(* ---- the cells of the registration tables ---- *)
Definition is_bin (f : string) : bool := match expected f with Some (EBinF _ _) => true | _ => false end.
Definition is_fun (f : string) : bool := match expected f with Some (EFunF _) => true | _ => false end.

(* named, visible exclusions: cells whose defect on the pinned tree is a recorded finding *)
Definition kd_add_alpha_second (f : string) (pos : nat) : bool := String.eqb f "torch.add" && Nat.eqb pos 1.
Definition kd_isclose_second (f : string) (pos : nat) : bool := String.eqb f "torch.isclose" && Nat.eqb pos 1.

Definition table_cells_ok (w : world) : bool :=
  forallb (fun c =>
    forallb (fun fm => let f := fst fm in
                       if is_bin f then bin_cell_ok w c f 0 else fun_cell_ok w c f) (w_first w) &&
    forallb (fun fm => let f := fst fm in
                       kd_add_alpha_second f 1 || kd_isclose_second f 1 || bin_cell_ok w c f 1) (w_second w))
    (w_opclasses w).

Lemma lookup_some_in_fst {A} f (l : list (string * A)) m : lookup f l = Some m -> In (f, m) l.
Proof. apply lookup_In. Qed.

Lemma table_cells_first w : table_cells_ok w = true ->
  forall c f m, In c (w_opclasses w) -> lookup f (w_first w) = Some m ->
  (is_bin f = true -> sem_cell w c f 0) /\ (is_bin f = false -> fun_cell w c f).
Proof.
  unfold table_cells_ok. rewrite forallb_forall. intros H c f m Hc Hf.
  specialize (H c Hc). apply andb_prop in H as [H1 _]. rewrite forallb_forall in H1.
  specialize (H1 (f, m) (lookup_In _ _ _ Hf)). simpl in H1.
  split; intros Hb; rewrite Hb in H1.
  - now apply bin_cell_sound. - now apply fun_cell_sound.
Qed.

Lemma table_cells_second w : table_cells_ok w = true ->
  forall c f m, In c (w_opclasses w) -> lookup f (w_second w) = Some m ->
  kd_add_alpha_second f 1 = false -> kd_isclose_second f 1 = false -> sem_cell w c f 1.
Proof.
  unfold table_cells_ok. rewrite forallb_forall. intros H c f m Hc Hf K1 K2.
  specialize (H c Hc). apply andb_prop in H as [_ H2]. rewrite forallb_forall in H2.
  specialize (H2 (f, m) (lookup_In _ _ _ Hf)). simpl in H2. rewrite K1, K2 in H2. simpl in H2.
  now apply bin_cell_sound.
Qed.

(* ---- totality ---- *)
Definition total_ok (w : world) : bool :=
  forallb (fun c => forallb (fun fm => match resolve w c (snd fm) with Some (_, k) => not_other k | None => false end)
                            (w_first w ++ w_second w)%list) (w_opclasses w).

Lemma total_resolves w : total_ok w = true -> forall c f m t, In c (w_opclasses w) ->
  lookup f (table w t) = Some m -> exists d k, resolve w c m = Some (d, k) /\ k <> MOther.
Proof.
  unfold total_ok. rewrite forallb_forall. intros H c f m t Hc Hf. specialize (H c Hc).
  rewrite forallb_forall in H.
  assert (Hin : In (f, m) (w_first w ++ w_second w)%list).
  { apply in_or_app. destruct t; [left|right]; now apply lookup_In. }
  specialize (H _ Hin). simpl in H.
  destruct (resolve w c m) as [[d k]|]; [|discriminate].
  exists d, k. split; auto. destruct k; simpl in H; congruence.
Qed.

Lemma lookup_mem {A} f (l : list (string * A)) m : lookup f l = Some m -> mem f l = true.
Proof. unfold mem. now intros ->. Qed.

Lemma dispatch_total_first_gen w : tf_ok (w_tf w) = true -> total_ok w = true ->
  forall c f m, In c (w_opclasses w) -> lookup f (w_first w) = Some m ->
  forall a rest types, isinstance w a c = true -> forallb type_ok types = true ->
  exists d k, torch_function w c f types (a :: rest) = DCall d m k (seq_from 0 (S (List.length rest))) true
              /\ resolve w c m = Some (d, k) /\ k <> MOther.
Proof.
  intros Htf Htot c f m Hc Hf a rest types Hi Ht.
  destruct (total_resolves w Htot c f m First Hc Hf) as [d [k [Hr Hk]]].
  exists d, k. rewrite (torch_function_first _ _ _ _ _ _ Htf Hi), (lookup_mem _ _ _ Hf), Ht, Hf, Hr. auto.
Qed.

Lemma dispatch_total_second_gen w : tf_ok (w_tf w) = true -> total_ok w = true ->
  forall c f m, In c (w_opclasses w) -> lookup f (w_second w) = Some m ->
  forall a b rest types, isinstance w a c = false -> forallb type_ok types = true ->
  exists d k, torch_function w c f types (a :: b :: rest) = DCall d m k (1 :: 0 :: seq_from 2 (List.length rest)) true
              /\ resolve w c m = Some (d, k) /\ k <> MOther.
Proof.
  intros Htf Htot c f m Hc Hf a b rest types Hi Ht.
  destruct (total_resolves w Htot c f m Second Hc Hf) as [d [k [Hr Hk]]].
  exists d, k. rewrite (torch_function_second _ _ _ _ _ Htf Hi), (lookup_mem _ _ _ Hf), Ht, Hf, Hr. auto.
Qed.

(* ---- dispatch level: unregistered / foreign ---- *)
Lemma dispatch_unregistered_gen w f args i c r :
  tf_ok (w_tf w) = true -> mem f (w_first w) = false -> mem f (w_second w) = false ->
  overloaded w args = (i, KOp c) :: r -> dispatch w f args = DRaise NotImplementedError.
Proof.
  intros Htf H1 H2 Ho. unfold dispatch. rewrite Ho.
  destruct args as [|a rest]; [discriminate|].
  now apply unregistered_raises_gen.
Qed.

Lemma dispatch_foreign_gen w f args i c r :
  tf_ok (w_tf w) = true -> In KForeign args ->
  overloaded w args = (i, KOp c) :: r -> dispatch w f args = DRaise NotImplementedError.
Proof.
  intros Htf Hin Ho. unfold dispatch. rewrite Ho.
  destruct args as [|a rest]; [discriminate|].
  apply foreign_type_raises; auto. rewrite <- Ho. now apply foreign_in_types.
Qed.
