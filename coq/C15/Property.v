(* C15 — torch.* dispatch on operators matches the methods, in either argument order.

   Only theorem statements live here; each is closed by `exact`/`apply` of a lemma of Proofs.v /
   Bodies.v (generic: any world) or ProofsW.v (the world W of gen/Dispatch.v).

   W is REGENERATED FROM THE RUNNING PACKAGE ON EVERY RUN (harness/c15_tables.py): the two registration
   tables, the class list with MRO, the per-class `defines`, the translated __torch_function__ and the
   translated bodies of the delegating root methods / reflected dunders.  The theorems that mention W
   are finite-table theorems: they are re-proved (vm_compute of a boolean check + a generic soundness
   lemma) against the regenerated tables on every run; they still quantify over ALL argument lists
   (any length), all keyword values and all operand values of any algebra satisfying [alg_laws].
   The theorems that do not mention W hold for every world (any tables, any class hierarchy). *)
From Coq Require Import List String ZArith Bool Arith.
Import ListNotations.
Require Import C15.Model C15.Proofs C15.Bodies C15.Order C15.gen.Dispatch C15.ProofsW.
Open Scope string_scope.

(* ------------------------------------------------------------------------------------------ *)
(** * The translated __torch_function__ is the reference handler; the generated world is well formed *)

Theorem C15_handler_is_reference :
  w_tf W = {| tf_test_arg := 0; tf_inst := ref_inst; tf_other := ref_other |}.
Proof. exact (tf_ok_eq _ W_tf_ok). Qed.

Theorem C15_world_wf : world_wf W = true.
Proof. exact W_wf. Qed.

(* every function the property names is registered: for the operator-first position, and -- add, sub, mul,
   matmul, as torch functions and as Tensor methods -- for the operator-second position *)
Theorem C15_required_registered :
  (forall f, In f required_first -> exists m, lookup f (w_first W) = Some m) /\
  (forall f, In f required_second -> exists m, lookup f (w_second W) = Some m).
Proof. exact (required_registered W W_required_ok). Qed.

(* ------------------------------------------------------------------------------------------ *)
(** * dispatch_total: every registered (function, position) x every operator class resolves *)

(* operator (an instance of cls) first, ANY further arguments: the registered method exists on cls,
   is a plain function (not a property / attribute), and receives the caller's arguments unchanged *)
Theorem C15_dispatch_total_first :
  forall c f m, In c (w_opclasses W) -> lookup f (w_first W) = Some m ->
  forall a rest types, isinstance W a c = true -> forallb type_ok types = true ->
  exists d k, torch_function W c f types (a :: rest) = DCall d m k (seq_from 0 (S (List.length rest))) true
              /\ resolve W c m = Some (d, k) /\ k <> MOther.
Proof. exact (dispatch_total_first_gen W W_tf_ok W_total_ok). Qed.

(* first argument not an instance of cls (Tensor, scalar, operator of an unrelated or parent class):
   the second-argument table is used and the first two arguments are swapped *)
Theorem C15_dispatch_total_second :
  forall c f m, In c (w_opclasses W) -> lookup f (w_second W) = Some m ->
  forall a b rest types, isinstance W a c = false -> forallb type_ok types = true ->
  exists d k, torch_function W c f types (a :: b :: rest) = DCall d m k (1 :: 0 :: seq_from 2 (List.length rest)) true
              /\ resolve W c m = Some (d, k) /\ k <> MOther.
Proof. exact (dispatch_total_second_gen W W_tf_ok W_total_ok). Qed.

(* the hypotheses are satisfiable: an operator of class c is an instance of c *)
Example C15_total_first_applicable : forall c, In c (w_opclasses W) -> isinstance W (KOp c) c = true.
Proof. intros c Hc. exact (wf_isinstance_self W c W_wf Hc). Qed.
Example C15_total_example :
  exists k, torch_function W "DiagLinearOperator" "torch.matmul" [KOp "DiagLinearOperator"] [KOp "DiagLinearOperator"; KTensor]
            = DCall "DiagLinearOperator" "matmul" k [0; 1] true.
Proof. eexists. vm_compute. reflexivity. Qed.

(* ------------------------------------------------------------------------------------------ *)
(** * dispatch_most_derived (every world): what is called is the MRO-first definition *)

Theorem C15_dispatch_most_derived :
  forall (w : world) cls f types args d m k p kw,
  torch_function w cls f types args = DCall d m k p kw ->
  exists pre post, mro w cls = (pre ++ d :: post)%list /\ own w d m = Some k /\
                   forall d', In d' pre -> own w d' m = None.
Proof. exact dispatch_most_derived_gen. Qed.

(* (every well-formed world whose subclass relation is a partial order; ANY argument list, by induction over it)
   torch consults the most specific class first: the class c whose __torch_function__ decides has no strict subclass
   among the operator arguments -- so getattr(c, name) finds the most derived override available among them *)
Theorem C15_most_specific_class_handles :
  forall (w : world), world_wf w = true -> po_ok w = true ->
  forall f args c, first_op (overloaded w args) = Some c ->
  dispatch w f args = torch_function w c f (map snd (overloaded w args)) args /\
  forall d, In (KOp d) args -> ~ (subclassb w d c = true /\ d <> c).
Proof.
  intros w Hwf Hpo f args c Hf. split.
  - now apply dispatch_first_op.
  - exact (handler_class_minimal w (po_trans w Hwf Hpo) (po_anti w Hwf Hpo) args c Hf).
Qed.
(* ... and W is such a world *)
Theorem C15_subclass_partial_order : po_ok W = true.
Proof. exact W_po_ok. Qed.
Example C15_most_specific_example :
  first_op (overloaded W [KOp "TriangularLinearOperator"; KTensor; KOp "DiagLinearOperator"]) = Some "DiagLinearOperator".
Proof. vm_compute. reflexivity. Qed.

(* (every world) a subclass -- e.g. ANY user-defined one -- that puts none of the registered method names into its
   own __dict__ is dispatched exactly like its parent class: same function objects, same argument order *)
Theorem C15_subclass_inherits_dispatch :
  forall (w : world) c c' f types args,
  mro w c' = c' :: mro w c ->
  (forall t m, lookup f (table w t) = Some m -> own w c' m = None) ->
  (forall a, nth_error args (tf_test_arg (w_tf w)) = Some a -> isinstance w a c' = isinstance w a c) ->
  torch_function w c' f types args = torch_function w c f types args.
Proof. exact torch_function_inherits. Qed.

(* the hypotheses are satisfiable: the harness's minimal user subclass and a Tensor first argument *)
Example C15_subclass_inherits_example :
  mro W "UserMinimal" = "UserMinimal" :: mro W "LinearOperator" /\
  (forall t m, lookup "torch.sub" (table W t) = Some m -> own W "UserMinimal" m = None) /\
  isinstance W KTensor "UserMinimal" = isinstance W KTensor "LinearOperator".
Proof.
  split; [vm_compute; reflexivity|]. split; [|reflexivity].
  intros [] m H; vm_compute in H; inversion H; subst; vm_compute; reflexivity.
Qed.

(* ------------------------------------------------------------------------------------------ *)
(** * dispatch_semantics: the method that runs computes the expected operation, operands in the right
      order and sign, for all operand values *)

(* operator FIRST, two-operand functions (add, sub, mul, div, matmul, isclose): other operand a Tensor or
   a python scalar; or another operator of ANY class d (then: right, or routed through the symmetric
   second-argument registration [named exclusion], or -- d a strict subclass of c and f not registered
   for the second position -- a loud NotImplementedError) *)
Theorem C15_dispatch_semantics_first :
  forall c f m o hk, In c (w_opclasses W) -> lookup f (w_first W) = Some m -> expected f = Some (EBinF o hk) ->
  (forall k, k = OTensor \/ k = OScalar -> bin_meaning o hk (dispatch W f (cell_args c 0 k))) /\
  (forall d, In d (w_opclasses W) -> div_by_operator f (OOp d) = false ->
     kd_symmetric_second f (dispatch W f (cell_args c 0 (OOp d))) = false ->
     bin_meaning o hk (dispatch W f (cell_args c 0 (OOp d))) \/
     (dispatch W f (cell_args c 0 (OOp d)) = DRaise NotImplementedError /\ strict_sub W d c = true /\ mem f (w_second W) = false)).
Proof. exact (first_cells_bin W W_first_cells_ok). Qed.

(* operator SECOND (Tensor @ Op, Tensor + Op, Tensor - Op, Tensor * Op, torch.f(tensor, op), torch.f(scalar, op)):
   right order and sign -- except the named, recorded cells kd_symmetric_second *)
Theorem C15_dispatch_semantics_second :
  forall c f m, In c (w_opclasses W) -> lookup f (w_second W) = Some m ->
  exists o hk, expected f = Some (EBinF o hk) /\
    forall k, k = OTensor \/ (k = OScalar /\ is_tensor_method f = false) ->
      kd_symmetric_second f (dispatch W f (cell_args c 1 k)) = false ->
      bin_meaning o hk (dispatch W f (cell_args c 1 k)).
Proof. exact (second_cells_bin W W_second_cells_ok). Qed.

(* one-operand functions (diagonal, logdet, solve, cholesky, ..., transpose, permute, clone, numel):
   the method with the calling convention of f runs on the caller's arguments, unchanged *)
Theorem C15_dispatch_semantics_functions :
  forall c f m t, In c (w_opclasses W) -> lookup f (w_first W) = Some m -> expected f = Some (EFunF t) ->
  fun_meaning t 1 (dispatch W f [KOp c]) /\ fun_meaning t 2 (dispatch W f [KOp c; KTensor]) /\
  fun_meaning t 3 (dispatch W f [KOp c; KScalar; KScalar]).
Proof. exact (first_cells_fun W W_first_cells_ok). Qed.

(* every registered function has an expected meaning (the hand table `expected` is complete) *)
Theorem C15_expected_complete :
  forall f m, lookup f (w_first W) = Some m -> exists e, expected f = Some e.
Proof. intros f m. exact (first_cells_expected W W_first_cells_ok f m W_opclasses_nonempty). Qed.

(* python's own operators:  op <o> x  and  x <o> op  for x a Tensor, a python scalar, an operator of any class *)
Theorem C15_operator_semantics :
  forall c o, In c (w_opclasses W) ->
  let sem := bin_meaning (semop_of o) false in
  sem (binop_dispatch W o (KOp c) KTensor) /\
  (o <> BMatmul -> sem (binop_dispatch W o (KOp c) KScalar)) /\
  (o <> BDiv -> sem (binop_dispatch W o KTensor (KOp c))) /\
  (o <> BDiv -> o <> BMatmul -> sem (binop_dispatch W o KScalar (KOp c))) /\
  (o = BDiv -> binop_dispatch W o KTensor (KOp c) = DRaise NotImplementedError /\
               binop_dispatch W o KScalar (KOp c) = DRaise TypeError) /\
  (o <> BDiv -> forall d, In d (w_opclasses W) -> sem (binop_dispatch W o (KOp c) (KOp d))).
Proof. exact (binop_cells_sound W W_binop_cells_ok). Qed.

(* the hand-written contracts of the delegating root methods and reflected dunders (add, sub, div, rmatmul,
   isclose, _isclose, __sub__, __radd__, __rsub__, __mul__, __rmul__, __matmul__, __rmatmul__, __truediv__)
   are PROVED from their translated bodies, for all operand / keyword values of any algebra with the laws;
   the only contracts that stay assumed are those of the primitives __add__, mul, matmul *)
Theorem C15_root_methods_meet_contract : Forall body_ok_prop gen_bodies.
Proof. exact W_bodies_ok. Qed.

(* dispatch + body, end to end (every world, every list of bodies that meet their contracts) *)
Theorem C15_end_to_end :
  forall o hk d bodies, bin_meaning o hk d -> Forall body_ok_prop bodies ->
  forall dd m k ps po kwf def, d = DCall dd m k [ps; po] kwf -> lookup m bodies = Some def ->
  exists kwacc, (exists o' sd, method_sem m = Some (SemBin o' sd kwacc)) /\
  forall (A : alg) (L : alg_laws A) (dr da x0 x1 : car A) (kw : kwv A) (vec : bool),
    (hk && kwacc = false -> kw_absent kw = true) -> (vec = true -> po = 0) -> kw_valid A (m_params def) kw ->
    den_stmt A dr da (mk_env A dr da (nth2 ps x0 x1) (nth2 po x0 x1) kw vec (m_params def)) (m_body def)
    = Ret A (den_expected A dr da o x0 x1 kw vec).
Proof. exact end_to_end. Qed.

(* non-vacuity: Tensor @ Op is handled by the root rmatmul, whose translated body returns x0 @ x1 *)
Example C15_tensor_matmul_op :
  exists k def, dispatch W "torch.matmul" [KTensor; KOp "ToeplitzLinearOperator"] = DCall "LinearOperator" "rmatmul" k [1; 0] true
             /\ lookup "rmatmul" gen_bodies = Some def
             /\ forall x0 x1 : Z, den_stmt ZAlg 0%Z 0%Z (mk_env ZAlg 0%Z 0%Z x1 x0 (kw_none ZAlg) false (m_params def)) (m_body def)
                                  = Ret ZAlg (x0 * x1)%Z.
Proof. eexists. eexists. split; [vm_compute; reflexivity|]. split; [vm_compute; reflexivity|]. intros. cbn. f_equal. ring. Qed.
Example C15_alg_laws_satisfiable : alg_laws ZAlg.
Proof. exact ZAlg_laws. Qed.

(* ------------------------------------------------------------------------------------------ *)
(** * unregistered_raises *)

(* (every f, not just the ~1000 overridable torch functions) a function in neither table, an operator
   ANYWHERE among the arguments: NotImplementedError -- never a densification, never another method *)
Theorem C15_unregistered_raises :
  forall f args, mem f (w_first W) = false -> mem f (w_second W) = false ->
  (exists c, In (KOp c) args) ->
  dispatch W f args = DRaise NotImplementedError.
Proof. intros f args H1 H2. exact (unregistered_any_position W f args W_tf_ok H1 H2). Qed.

(* registered for the first position only (div, solve, diagonal, ...): operator second raises *)
Theorem C15_unregistered_position_raises :
  forall cls f types a rest,
  (isinstance W a cls = true -> mem f (w_first W) = false -> torch_function W cls f types (a :: rest) = DRaise NotImplementedError) /\
  (isinstance W a cls = false -> mem f (w_second W) = false -> torch_function W cls f types (a :: rest) = DRaise NotImplementedError).
Proof.
  intros. split; intros Hi Hm.
  - exact (unregistered_first_raises W cls f types a rest W_tf_ok Hi Hm).
  - exact (unregistered_second_raises W cls f types a rest W_tf_ok Hi Hm).
Qed.

(* an argument of an unrelated class that defines __torch_function__ (and declines the call): NotImplementedError,
   registered or not, whatever the positions *)
Theorem C15_foreign_type_raises :
  forall f args, In KForeign args -> (exists c, In (KOp c) args) ->
  dispatch W f args = DRaise NotImplementedError.
Proof. intros f args. exact (foreign_any_position W f args W_tf_ok). Qed.

Example C15_unregistered_example :
  dispatch W "torch.sin" [KOp "DenseLinearOperator"] = DRaise NotImplementedError /\
  dispatch W "torch.div" [KTensor; KOp "DenseLinearOperator"] = DRaise NotImplementedError /\
  dispatch W "torch.cat" [KTensor; KScalar; KOp "ZeroLinearOperator"] = DRaise NotImplementedError.
Proof. vm_compute. auto. Qed.

(* ------------------------------------------------------------------------------------------ *)
(** * The recorded defects are real: refutations for EVERY world with the symmetric registrations *)

Theorem C15_symmetric_add_refuted :
  forall w c, tf_ok (w_tf w) = true -> total_ok w = true -> In c (w_opclasses w) ->
  lookup "torch.add" (w_second w) = Some "add" ->
  exists d k, dispatch w "torch.add" [KTensor; KOp c] = DCall d "add" k [1; 0] true /\
  exists (x0 x1 : car ZAlg) (kw : kwv ZAlg),
    den_method ZAlg 0%Z 0%Z SAdd SelfLeft true (nth2 1 x0 x1) (nth2 0 x0 x1) kw false
    <> den_expected ZAlg 0%Z 0%Z SAdd x0 x1 kw false.
Proof. exact symmetric_add_refuted. Qed.

Theorem C15_symmetric_isclose_refuted :
  forall w c, tf_ok (w_tf w) = true -> total_ok w = true -> In c (w_opclasses w) ->
  lookup "torch.isclose" (w_second w) = Some "isclose" ->
  exists d k, dispatch w "torch.isclose" [KTensor; KOp c] = DCall d "isclose" k [1; 0] true /\
  exists (x0 x1 : car ZAlg),
    den_method ZAlg 1%Z 0%Z SIsclose SelfLeft true (nth2 1 x0 x1) (nth2 0 x0 x1) (kw_none ZAlg) false
    <> den_expected ZAlg 1%Z 0%Z SIsclose x0 x1 (kw_none ZAlg) false.
Proof. exact symmetric_isclose_refuted. Qed.
