(* C15 — executable model of the torch.* dispatch of linear_operator.
   Hand-written, independent of /repo.  gen/Dispatch.v (regenerated on every run by
   harness/c15_tables.py) instantiates [world] with the registration tables, the class hierarchy,
   the translated body of __torch_function__ (a [tf_prog]) and the translated bodies of the small
   delegating methods / reflected dunders of the root class (terms of [ex]).

   Definitions only; everything computes under vm_compute. *)
From Coq Require Import List String ZArith Bool Arith.
Import ListNotations.
Open Scope string_scope.

(* ------------------------------------------------------------------------------------------ *)
(** * What the translator emits *)

Inductive tbl := First | Second.          (* _HANDLED_FUNCTIONS | _HANDLED_SECOND_ARG_FUNCTIONS *)
Inductive mkind := MFun | MStub | MOther. (* plain function | body is `raise NotImplementedError` | property, attribute, ... *)

(* final call of a __torch_function__ branch:  func(args[i], ..., *args[j:], **kwargs) *)
Inductive argref := RArg (i : nat) | RRest (i : nat).
Record branch := {
  b_member : tbl;           (* `func not in TABLE`  -> raise NotImplementedError *)
  b_types_check : bool;     (* `not all(issubclass(t, (torch.Tensor, LinearOperator)) for t in types)` -> raise *)
  b_lookup : tbl;           (* func = getattr(cls, TABLE[func]) *)
  b_call : list argref;
  b_kwargs : bool }.
(* if isinstance(args[tf_test_arg], cls): tf_inst else: tf_other *)
Record tf_prog := { tf_test_arg : nat; tf_inst : branch; tf_other : branch }.

Inductive binop := BAdd | BSub | BMul | BDiv | BMatmul.

(* bodies of the delegating methods *)
Inductive ex :=
  | ESelf
  | EParam (p : string)
  | ENum (z : Z)
  | EBin (o : binop) (a b : ex)                                     (* python binary operator *)
  | EMT (a : ex)                                                    (* a.mT *)
  | EToDense (a : ex)                                               (* to_dense(a) *)
  | ECall (recv : ex) (m : string) (args : list ex) (kw : list (string * ex))   (* recv.m(args, kw) *)
  | ETorch (f : string) (args : list ex) (kw : list (string * ex)). (* torch.f(args, kw) on dense tensors *)
Inductive cond :=
  | CIsNone (p : string) | CNot (c : cond) | CNdimEq (p : string) (n : nat) | CIsInstance (p : string) (cls : string).
Inductive stmt := SReturn (e : ex) | SRaise (exc : string) | SIf (c : cond) (a b : stmt).
Inductive pdefault := DRequired | DNone | DBool (b : bool) | DLit (s : string).
Record mdef := { m_params : list (string * pdefault); m_body : stmt }.

Record world := {
  w_first : list (string * string);                 (* torch function -> method name *)
  w_second : list (string * string);
  w_classes : list (string * list string);          (* class -> MRO, the class itself first *)
  w_opclasses : list string;                        (* the LinearOperator subclasses among them *)
  w_defines : list (string * list (string * mkind));(* class -> names in its own __dict__ *)
  w_root : string;
  w_tf : tf_prog;
  w_tensor_binop : list (binop * string);           (* measured: Tensor.__op__ hands this function to __torch_function__ *)
  w_bodies : list (string * mdef) }.

(* ------------------------------------------------------------------------------------------ *)
(** * Python object model: MRO lookup *)

Fixpoint lookup {A} (k : string) (l : list (string * A)) : option A :=
  match l with [] => None | (k', v) :: r => if String.eqb k k' then Some v else lookup k r end.
Definition mem {A} (k : string) (l : list (string * A)) : bool :=
  match lookup k l with Some _ => true | None => false end.
Definition strmem (k : string) (l : list string) : bool := existsb (String.eqb k) l.

Definition table (w : world) (t : tbl) := match t with First => w_first w | Second => w_second w end.
Definition mro (w : world) (c : string) : list string :=
  match lookup c (w_classes w) with Some l => l | None => [] end.
(* issubclass(c, d) *)
Definition subclassb (w : world) (c d : string) : bool := strmem d (mro w c).
(* name found in the class's own __dict__ *)
Definition own (w : world) (c m : string) : option mkind :=
  match lookup c (w_defines w) with Some l => lookup m l | None => None end.
(* getattr(cls, m): first class of the MRO whose __dict__ has m *)
Fixpoint resolve_in (w : world) (l : list string) (m : string) : option (string * mkind) :=
  match l with
  | [] => None
  | d :: r => match own w d m with Some k => Some (d, k) | None => resolve_in w r m end
  end.
Definition resolve (w : world) (c m : string) := resolve_in w (mro w c) m.

(* ------------------------------------------------------------------------------------------ *)
(** * torch's override protocol *)

(* kind of an actual argument.  KForeign: an object of an unrelated class that defines
   __torch_function__ (neither a Tensor nor a LinearOperator). *)
Inductive argk := KOp (c : string) | KTensor | KScalar | KForeign.

Definition has_tf (a : argk) : bool := match a with KOp _ | KForeign => true | _ => false end.
Definition same_type (a b : argk) : bool :=
  match a, b with KOp c, KOp d => String.eqb c d | KForeign, KForeign => true | _, _ => false end.
Definition is_subtype (w : world) (a b : argk) : bool :=
  match a, b with KOp c, KOp d => subclassb w c d | KForeign, KForeign => true | _, _ => false end.

(* torch.overrides._get_overloaded_args: left to right, one entry per type, a subclass is
   inserted before the first entry it is a subclass of *)
Fixpoint insert_ov (w : world) (a : nat * argk) (l : list (nat * argk)) : list (nat * argk) :=
  match l with
  | [] => [a]
  | x :: r => if is_subtype w (snd a) (snd x) then a :: l else x :: insert_ov w a r
  end.
Fixpoint overloaded_from (w : world) (i : nat) (args : list argk) (acc : list (nat * argk)) : list (nat * argk) :=
  match args with
  | [] => acc
  | a :: r =>
      let acc' := if has_tf a && negb (existsb (fun x => same_type a (snd x)) acc)
                  then insert_ov w (i, a) acc else acc in
      overloaded_from w (S i) r acc'
  end.
Definition overloaded (w : world) (args : list argk) := overloaded_from w 0 args [].

Inductive exn := NotImplementedError | TypeError | AttributeError | IndexError | KeyError | RuntimeError | ValueError | OtherError.

Inductive disp :=
  | DCall (definer m : string) (k : mkind) (perm : list nat) (kw : bool)
      (* the function found as definer.__dict__[m] is called with the caller's positional
         arguments at positions perm (the first one is `self`) and, if kw, the caller's keywords *)
  | DRaise (e : exn)
  | DPlainTorch          (* no argument overrides: torch's own implementation runs *)
  | DForeign.            (* only unrelated classes override: no code of the library is involved *)

Fixpoint seq_from (i n : nat) : list nat :=   (* i, i+1, ..., i+n-1 *)
  match n with 0 => [] | S k => i :: seq_from (S i) k end.
Fixpoint call_perm (nargs : nat) (l : list argref) : option (list nat) :=
  match l with
  | [] => Some []
  | RArg i :: r => if Nat.ltb i nargs then option_map (cons i) (call_perm nargs r) else None
  | RRest i :: r => option_map (app (seq_from i (nargs - i))) (call_perm nargs r)
  end.

(* issubclass(t, (torch.Tensor, LinearOperator)) for the types of the overriding arguments *)
Definition type_ok (a : argk) : bool := match a with KOp _ | KTensor => true | _ => false end.
Definition isinstance (w : world) (a : argk) (cls : string) : bool :=
  match a with KOp c => subclassb w c cls | _ => false end.

Definition run_branch (w : world) (b : branch) (cls f : string) (types : list argk) (nargs : nat) : disp :=
  if negb (mem f (table w (b_member b))) || (b_types_check b && negb (forallb type_ok types))
  then DRaise NotImplementedError
  else match lookup f (table w (b_lookup b)) with
       | None => DRaise KeyError
       | Some m =>
           match resolve w cls m with
           | None => DRaise AttributeError
           | Some (d, k) =>
               match call_perm nargs (b_call b) with
               | None => DRaise IndexError
               | Some p => DCall d m k p (b_kwargs b)
               end
           end
       end.

(* LinearOperator.__torch_function__(cls, func, types, args, kwargs) *)
Definition torch_function (w : world) (cls f : string) (types : list argk) (args : list argk) : disp :=
  match nth_error args (tf_test_arg (w_tf w)) with
  | None => DRaise IndexError
  | Some a => run_branch w (if isinstance w a cls then tf_inst (w_tf w) else tf_other (w_tf w)) cls f types (List.length args)
  end.

(* torch.f applied to args.  torch consults the __torch_function__ of the overloaded arguments in order until
   one does not return NotImplemented.  LinearOperator's handler never returns NotImplemented (it returns a
   value or raises), so the first operator in that order decides.  A foreign handler that comes earlier is
   assumed to DECLINE (return NotImplemented) -- if it handles the call itself no code of the library runs. *)
Fixpoint first_op (ov : list (nat * argk)) : option string :=
  match ov with
  | [] => None
  | (_, KOp c) :: _ => Some c
  | _ :: r => first_op r
  end.
Definition dispatch (w : world) (f : string) (args : list argk) : disp :=
  match overloaded w args with
  | [] => DPlainTorch
  | ov => match first_op ov with
          | Some c => torch_function w c f (map snd ov) args
          | None => DForeign
          end
  end.

(* ------------------------------------------------------------------------------------------ *)
(** * Python's binary-operator protocol  x <op> y *)

Definition dunder (o : binop) : string :=
  match o with BAdd => "__add__" | BSub => "__sub__" | BMul => "__mul__" | BDiv => "__truediv__" | BMatmul => "__matmul__" end.
Definition rdunder (o : binop) : string :=
  match o with BAdd => "__radd__" | BSub => "__rsub__" | BMul => "__rmul__" | BDiv => "__rtruediv__" | BMatmul => "__rmatmul__" end.
Fixpoint blookup (o : binop) (l : list (binop * string)) : option string :=
  match l with
  | [] => None
  | (o', f) :: r => match o, o' with
                    | BAdd, BAdd | BSub, BSub | BMul, BMul | BDiv, BDiv | BMatmul, BMatmul => Some f
                    | _, _ => blookup o r end
  end.

(* result: which function object runs, with self = the caller's operand at position (hd perm) *)
Definition call_method (w : world) (c m : string) (perm : list nat) : disp :=
  match resolve w c m with
  | Some (d, MOther) => DRaise TypeError
  | Some (d, k) => DCall d m k perm false
  | None => DRaise TypeError                 (* unsupported operand type(s) *)
  end.

Definition binop_dispatch (w : world) (o : binop) (x y : argk) : disp :=
  match x, y with
  | KOp c, KOp d =>
      (* a proper subclass on the right that provides a different reflected method goes first *)
      let refl_first :=
        negb (String.eqb c d) && subclassb w d c &&
        match resolve w d (rdunder o), resolve w c (rdunder o) with
        | Some (dd, _), Some (dc, _) => negb (String.eqb dd dc)
        | Some _, None => true
        | _, _ => false
        end in
      if refl_first then call_method w d (rdunder o) [1; 0]
      else match resolve w c (dunder o) with
           | Some _ => call_method w c (dunder o) [0; 1]
           | None => call_method w d (rdunder o) [1; 0]
           end
  | KOp c, _ =>
      match resolve w c (dunder o) with
      | Some _ => call_method w c (dunder o) [0; 1]
      | None => DRaise TypeError
      end
  | KTensor, KOp c =>
      (* Tensor.__op__ defers to the override protocol with the function measured by the translator *)
      match blookup o (w_tensor_binop w) with
      | Some f => dispatch w f [KTensor; KOp c]
      | None => DRaise OtherError
      end
  | KScalar, KOp c => call_method w c (rdunder o) [1; 0]   (* int/float.__op__ returns NotImplemented *)
  | KForeign, _ => DForeign
  | _, KForeign => DForeign
  | _, _ => DPlainTorch
  end.

(* ------------------------------------------------------------------------------------------ *)
(** * Semantics (hand-written tables, validated by the correspondence) *)

Inductive semop := SAdd | SSub | SMul | SDiv | SMatmul | SIsclose.
Inductive side := SelfLeft | SelfRight.
Inductive sem :=
  | SemBin (o : semop) (s : side) (kw : bool)
      (* the method returns  o(self, other)  [SelfLeft]  or  o(other, self)  [SelfRight];
         kw: it accepts the torch function's keyword (alpha / rtol, atol) and applies it to `other` *)
  | SemFun (tag : string).
      (* a function of (self, *rest, **kw) with the calling convention of the torch function `tag` *)

Definition semop_eqb (a b : semop) : bool :=
  match a, b with
  | SAdd, SAdd | SSub, SSub | SMul, SMul | SDiv, SDiv | SMatmul, SMatmul | SIsclose, SIsclose => true
  | _, _ => false end.

(* what a method called by this name computes (the contract every subclass override must meet) *)
Definition method_sem (m : string) : option sem :=
  if String.eqb m "add" then Some (SemBin SAdd SelfLeft true) else
  if String.eqb m "sub" then Some (SemBin SSub SelfLeft true) else
  if String.eqb m "mul" then Some (SemBin SMul SelfLeft false) else
  if String.eqb m "div" then Some (SemBin SDiv SelfLeft false) else
  if String.eqb m "matmul" then Some (SemBin SMatmul SelfLeft false) else
  if String.eqb m "rmatmul" then Some (SemBin SMatmul SelfRight false) else
  if String.eqb m "isclose" then Some (SemBin SIsclose SelfLeft true) else
  if String.eqb m "_isclose" then Some (SemBin SIsclose SelfLeft true) else
  if String.eqb m "__add__" then Some (SemBin SAdd SelfLeft false) else
  if String.eqb m "__radd__" then Some (SemBin SAdd SelfRight false) else
  if String.eqb m "__sub__" then Some (SemBin SSub SelfLeft false) else
  if String.eqb m "__rsub__" then Some (SemBin SSub SelfRight false) else
  if String.eqb m "__mul__" then Some (SemBin SMul SelfLeft false) else
  if String.eqb m "__rmul__" then Some (SemBin SMul SelfRight false) else
  if String.eqb m "__matmul__" then Some (SemBin SMatmul SelfLeft false) else
  if String.eqb m "__rmatmul__" then Some (SemBin SMatmul SelfRight false) else
  if String.eqb m "__truediv__" then Some (SemBin SDiv SelfLeft false) else
  (* names introduced by proposed_fixes/C15-second-arg-keywords.diff (absent on the pinned tree):
     reflected handlers that accept the torch function's keyword and apply it to `self` *)
  if String.eqb m "_add_second_arg" then Some (SemBin SAdd SelfRight true) else
  if String.eqb m "_sub_second_arg" then Some (SemBin SSub SelfRight true) else
  if String.eqb m "_isclose_second_arg" then Some (SemBin SIsclose SelfRight true) else
  if String.eqb m "abs" then Some (SemFun "abs") else
  if String.eqb m "cholesky" then Some (SemFun "linalg.cholesky") else
  if String.eqb m "clone" then Some (SemFun "clone") else
  if String.eqb m "diagonal" then Some (SemFun "diagonal") else
  if String.eqb m "eigh" then Some (SemFun "linalg.eigh") else
  if String.eqb m "eigvalsh" then Some (SemFun "linalg.eigvalsh") else
  if String.eqb m "exp" then Some (SemFun "exp") else
  if String.eqb m "inverse" then Some (SemFun "inverse") else
  if String.eqb m "log" then Some (SemFun "log") else
  if String.eqb m "logdet" then Some (SemFun "logdet") else
  if String.eqb m "numel" then Some (SemFun "numel") else
  if String.eqb m "permute" then Some (SemFun "permute") else
  if String.eqb m "prod" then Some (SemFun "prod") else
  if String.eqb m "solve" then Some (SemFun "linalg.solve") else
  if String.eqb m "solve_triangular" then Some (SemFun "linalg.solve_triangular") else
  if String.eqb m "sqrt" then Some (SemFun "sqrt") else
  if String.eqb m "squeeze" then Some (SemFun "squeeze") else
  if String.eqb m "sum" then Some (SemFun "sum") else
  if String.eqb m "_torch_linalg_svd" then Some (SemFun "linalg.svd") else   (* returns (U, S, V^T) *)
  if String.eqb m "svd" then Some (SemFun "svd_returning_V") else            (* returns (U, S, V): NOT torch.linalg.svd *)
  if String.eqb m "transpose" then Some (SemFun "transpose") else
  if String.eqb m "unsqueeze" then Some (SemFun "unsqueeze") else
  None.

(* what torch.f means on dense tensors, in the caller's argument order:
   EBin o haskw:  o(args[0], args[1]) with the keyword (if any) applied to args[1] *)
Inductive esem := EBinF (o : semop) (haskw : bool) | EFunF (tag : string).
Definition expected (f : string) : option esem :=
  if String.eqb f "torch.add" || String.eqb f "torch.Tensor.add" then Some (EBinF SAdd true) else
  if String.eqb f "torch.sub" || String.eqb f "torch.Tensor.sub" then Some (EBinF SSub true) else
  if String.eqb f "torch.mul" || String.eqb f "torch.Tensor.mul" then Some (EBinF SMul false) else
  if String.eqb f "torch.div" || String.eqb f "torch.Tensor.div" then Some (EBinF SDiv false) else
  if String.eqb f "torch.matmul" || String.eqb f "torch.Tensor.matmul" then Some (EBinF SMatmul false) else
  if String.eqb f "torch.isclose" then Some (EBinF SIsclose true) else
  if String.eqb f "torch.abs" then Some (EFunF "abs") else
  if String.eqb f "torch.linalg.cholesky" then Some (EFunF "linalg.cholesky") else
  if String.eqb f "torch.clone" then Some (EFunF "clone") else
  if String.eqb f "torch.diagonal" then Some (EFunF "diagonal") else
  if String.eqb f "torch.linalg.eigh" then Some (EFunF "linalg.eigh") else
  if String.eqb f "torch.linalg.eigvalsh" then Some (EFunF "linalg.eigvalsh") else
  if String.eqb f "torch.exp" then Some (EFunF "exp") else
  if String.eqb f "torch.inverse" then Some (EFunF "inverse") else
  if String.eqb f "torch.log" then Some (EFunF "log") else
  if String.eqb f "torch.logdet" then Some (EFunF "logdet") else
  if String.eqb f "torch.numel" then Some (EFunF "numel") else
  if String.eqb f "torch.permute" then Some (EFunF "permute") else
  if String.eqb f "torch.prod" then Some (EFunF "prod") else
  if String.eqb f "torch.linalg.solve" then Some (EFunF "linalg.solve") else
  if String.eqb f "torch.linalg.solve_triangular" then Some (EFunF "linalg.solve_triangular") else
  if String.eqb f "torch.sqrt" then Some (EFunF "sqrt") else
  if String.eqb f "torch.squeeze" then Some (EFunF "squeeze") else
  if String.eqb f "torch.sum" then Some (EFunF "sum") else
  if String.eqb f "torch.linalg.svd" then Some (EFunF "linalg.svd") else
  if String.eqb f "torch.transpose" then Some (EFunF "transpose") else
  if String.eqb f "torch.unsqueeze" then Some (EFunF "unsqueeze") else
  None.

(* the functions the property names: they must be registered (a dropped registration would make the
   table theorems vacuous for that function and turn torch.f(op) into a NotImplementedError) *)
Definition required_first : list string :=
  ["torch.add"; "torch.sub"; "torch.mul"; "torch.div"; "torch.matmul"; "torch.diagonal"; "torch.logdet";
   "torch.linalg.solve"; "torch.linalg.cholesky"; "torch.linalg.eigh"; "torch.linalg.eigvalsh"; "torch.linalg.svd";
   "torch.linalg.solve_triangular"; "torch.inverse"; "torch.abs"; "torch.exp"; "torch.log"; "torch.sqrt";
   "torch.sum"; "torch.prod"; "torch.squeeze"; "torch.unsqueeze"; "torch.transpose"; "torch.permute";
   "torch.clone"; "torch.numel"; "torch.isclose"].
(* operator second: Tensor @ Op, Tensor + Op, Tensor - Op, Tensor * Op -- as torch functions and as the
   Tensor methods python's operators on a Tensor hand to __torch_function__ *)
Definition required_second : list string :=
  ["torch.add"; "torch.sub"; "torch.mul"; "torch.matmul";
   "torch.Tensor.add"; "torch.Tensor.sub"; "torch.Tensor.mul"; "torch.Tensor.matmul"].

(* commutative (with every keyword at its default) *)
Definition comm (o : semop) : bool := match o with SAdd | SMul => true | _ => false end.

Inductive verdict :=
  | VOk               (* right for every keyword value *)
  | VOkNoKw           (* right without the keyword; the keyword is rejected (TypeError), never mis-applied *)
  | VDefectKw         (* right without the keyword; the keyword is silently applied to the wrong operand *)
  | VDefect           (* wrong operand order / wrong operation even without keywords *)
  | VUnknown.

(* The method described by [SemBin o sd kwacc] returns  o(L, R)  with the keyword (if it accepts one)
   applied to R, where (L, R) = (self, other) [SelfLeft] or (other, self) [SelfRight].
   It is called with self = caller's argument perm[0] and other = caller's argument perm[1];
   the caller meant  o'(args[0], args[1])  with the keyword (if f has one) applied to args[1]. *)
Definition sem_verdict (s : sem) (perm : list nat) (e : esem) : verdict :=
  match s, e with
  | SemFun t, EFunF t' =>
      match perm with
      | 0 :: _ => if String.eqb t t' then VOk else VDefect
      | _ => VDefect
      end
  | SemBin o sd kwacc, EBinF o' haskw =>
      if negb (semop_eqb o o') then VDefect else
      match perm with
      | [pself; pother] =>
          let left := match sd with SelfLeft => pself | SelfRight => pother end in
          let right := match sd with SelfLeft => pother | SelfRight => pself end in
          if Nat.eqb left 0 && Nat.eqb right 1 then
            (if haskw && negb kwacc then VOkNoKw else VOk)
          else if Nat.eqb left 1 && Nat.eqb right 0 && comm o then
            (if negb haskw then VOk else if kwacc then VDefectKw else VOkNoKw)
          else VDefect
      | _ => VDefect
      end
  | _, _ => VDefect
  end.

Definition verdict_of (f : string) (d : disp) : verdict :=
  match d with
  | DCall _ m MOther _ _ => VDefect
  | DCall _ m _ perm true =>
      match method_sem m, expected f with
      | Some s, Some e => sem_verdict s perm e
      | _, _ => VUnknown
      end
  | _ => VUnknown
  end.

(* ------------------------------------------------------------------------------------------ *)
(** * Denotation in an abstract algebra (used by the theorems; see Proofs.v) *)

(* carrier: (batches of) matrices of one fixed shape; elementwise operations form a commutative
   ring, [mm]/[tr] are matrix product and transpose, [inv] the elementwise reciprocal,
   [close x y rtol atol] the elementwise test |x - y| <= atol + rtol * |y| *)
Record alg := {
  car : Type;
  a0 : car; a1 : car;
  aadd : car -> car -> car; amul : car -> car -> car; asub : car -> car -> car; aopp : car -> car;
  ainv : car -> car;
  amm : car -> car -> car; atr : car -> car;
  aclose : car -> car -> car -> car -> car;
  aZ : Z -> car }.

(* keyword values of one call: alpha (None = absent), rtol/atol (None = the defaults) *)
Record kwv (A : alg) := { kw_alpha : option (car A); kw_tol : option (car A * car A) }.
Arguments kw_alpha {A}. Arguments kw_tol {A}.
Definition kw_none (A : alg) : kwv A := {| kw_alpha := None; kw_tol := None |}.
Definition kw_absent {A} (k : kwv A) : bool :=
  match kw_alpha k, kw_tol k with None, None => true | _, _ => false end.

Section Den.
Variable A : alg.
Variables (dflt_rtol dflt_atol : car A).
Notation R := (car A).

(* o(x, y) with the keyword applied to y; xvec: x is 1-D (torch: v @ M = M^T v) *)
Definition den_semop (o : semop) (x y : R) (k : kwv A) (xvec : bool) : R :=
  match o with
  | SAdd => match kw_alpha k with None => aadd A x y | Some al => aadd A x (amul A al y) end
  | SSub => match kw_alpha k with None => asub A x y | Some al => asub A x (amul A al y) end
  | SMul => amul A x y
  | SDiv => amul A x (ainv A y)
  | SMatmul => if xvec then amm A (atr A y) x else amm A x y
  | SIsclose => match kw_tol k with None => aclose A x y dflt_rtol dflt_atol | Some (r, t) => aclose A x y r t end
  end.

(* what the caller of torch.f(x0, x1, kw) means *)
Definition den_expected (o : semop) (x0 x1 : R) (k : kwv A) (x0vec : bool) : R := den_semop o x0 x1 k x0vec.

(* what a method with descriptor (o, sd, kwacc) returns for (self, other, kw): o(L, R) with the keyword
   applied to R; a method that does not accept the keyword is only ever given none *)
Definition den_method (o : semop) (sd : side) (kwacc : bool) (self other : R) (k : kwv A) (othervec : bool) : R :=
  let k' := if kwacc then k else kw_none A in
  match sd with
  | SelfLeft => den_semop o self other k' false
  | SelfRight => den_semop o other self k' othervec
  end.

(* ---- bodies of the delegating methods.  Callee contracts: a call recv.m(args) denotes
   den_method (method_sem m); python operators denote the elementwise ring operations / mm. *)
Record env := { e_self : R; e_params : list (string * option R); e_vec : list string }.
(* e_params: None = the python value None;  e_vec: parameters that are 1-D tensors *)

Definition param (en : env) (p : string) : option (option R) := lookup p (e_params en).

Definition den_binop (o : binop) (x y : R) : R :=
  match o with
  | BAdd => aadd A x y | BSub => asub A x y | BMul => amul A x y
  | BDiv => amul A x (ainv A y) | BMatmul => amm A x y
  end.

Definition kw_of (kw : list (string * option R)) : option (kwv A) :=
  let alpha := match lookup "alpha" kw with
               | None => Some None | Some (Some v) => Some (Some v) | Some None => None end in
  let tol := match lookup "rtol" kw, lookup "atol" kw with
             | None, None => Some None
             | Some (Some r), Some (Some t) => Some (Some (r, t))
             | _, _ => None end in
  match alpha, tol with
  | Some al, Some tl => Some {| kw_alpha := al; kw_tol := tl |}
  | _, _ => None
  end.

Fixpoint den_ex (en : env) (e : ex) {struct e} : option R :=
  let den_kw := fix dk (l : list (string * ex)) : list (string * option R) :=
                  match l with [] => [] | (n, x) :: r => (n, den_ex en x) :: dk r end in
  match e with
  | ESelf => Some (e_self en)
  | EParam p => match param en p with Some (Some v) => Some v | _ => None end
  | ENum z => Some (aZ A z)
  | EBin o a b => match den_ex en a, den_ex en b with Some x, Some y => Some (den_binop o x y) | _, _ => None end
  | EMT a => option_map (atr A) (den_ex en a)
  | EToDense a => den_ex en a
  | ECall recv m [a] kw =>
      let avec := match a with EParam p => strmem p (e_vec en) | _ => false end in
      match method_sem m, den_ex en recv, den_ex en a, kw_of (den_kw kw) with
      | Some (SemBin o sd kwacc), Some x, Some y, Some k =>
          if kwacc || kw_absent k then Some (den_method o sd kwacc x y k avec) else None   (* TypeError: unexpected keyword *)
      | _, _, _, _ => None
      end
  | ETorch f [a; b] kw =>
      match expected f, den_ex en a, den_ex en b, kw_of (den_kw kw) with
      | Some (EBinF o _), Some x, Some y, Some k => Some (den_semop o x y k false)
      | _, _, _, _ => None
      end
  | _ => None
  end.

Fixpoint den_cond (en : env) (c : cond) : option bool :=
  match c with
  | CIsNone p => match param en p with Some None => Some true | Some (Some _) => Some false | None => None end
  | CNot c => option_map negb (den_cond en c)
  | CNdimEq p n => match param en p with
                   | Some (Some _) => Some (if Nat.eqb n 1 then strmem p (e_vec en) else false)
                   | _ => None end
  | CIsInstance p cls => Some false      (* the value semantics is asked only off the guarded class (ZeroLinearOperator) *)
  end.

Inductive outcome := Ret (v : R) | Raised (exc : string) | Stuck.
Fixpoint den_stmt (en : env) (s : stmt) : outcome :=
  match s with
  | SReturn e => match den_ex en e with Some v => Ret v | None => Stuck end
  | SRaise x => Raised x
  | SIf c a b => match den_cond en c with Some true => den_stmt en a | Some false => den_stmt en b | None => Stuck end
  end.

End Den.
