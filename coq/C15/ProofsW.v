(* C15 — the finite-table obligations, evaluated on the world [W] REGENERATED from the package on every
   run (gen/Dispatch.v), and the contracts of the translated root-method bodies.  Every lemma here is
   re-proved on every run; a change of the tables / class hierarchy / __torch_function__ / method bodies
   that breaks one of them stops the build. *)
From Coq Require Import List String ZArith Bool Arith Lia Ring.
Import ListNotations.
Require Import C15.Model C15.Proofs C15.Bodies C15.Order C15.gen.Dispatch.
Open Scope string_scope.

Lemma W_wf : world_wf W = true.               Proof. vm_cast_no_check (eq_refl true). Qed.
Lemma W_tf_ok : tf_ok (w_tf W) = true.        Proof. vm_cast_no_check (eq_refl true). Qed.
Lemma W_total_ok : total_ok W = true.         Proof. vm_cast_no_check (eq_refl true). Qed.
Lemma W_first_cells_ok : first_cells_ok W = true.   Proof. vm_cast_no_check (eq_refl true). Qed.
Lemma W_second_cells_ok : second_cells_ok W = true. Proof. vm_cast_no_check (eq_refl true). Qed.
Lemma W_binop_cells_ok : binop_cells_ok W = true.   Proof. vm_cast_no_check (eq_refl true). Qed.
Lemma W_required_ok : required_ok W = true.         Proof. vm_cast_no_check (eq_refl true). Qed.
Lemma W_po_ok : po_ok W = true.                     Proof. vm_cast_no_check (eq_refl true). Qed.
Lemma W_opclasses_nonempty : w_opclasses W <> []. Proof. vm_compute. discriminate. Qed.

(* ---- contracts of the translated bodies ---- *)
Section Bodies.
Variable A : alg.
Hypothesis L : alg_laws A.
Variables (dr da : car A).
Add Ring Aring : (l_ring A L).

Ltac kw_contra H :=
  (* the call passes a keyword the signature does not have: excluded by kw_valid *)
  exfalso; destruct H as [Ha Ht]; cbv in Ha, Ht;
  first [ now (specialize (Ha ltac:(discriminate)); discriminate)
        | now (destruct (Ht ltac:(discriminate)); discriminate) ].

Ltac body_tac :=
  intros self other k vec Hv; destruct k as [[al|] [[r t]|]]; destruct vec;
  cbv -[aadd amul asub aopp ainv amm atr aclose aZ a0 a1 car kw_valid] in *;
  try (kw_contra Hv);
  f_equal; rewrite ?(l_tr_mm A L), ?(l_tr_tr A L), ?(l_Z_1 A L), ?(l_Z_m1 A L); try reflexivity; try ring.

Lemma W_bodies_contract :
  Forall (fun md => match method_sem (fst md) with
                    | Some (SemBin o sd kwacc) => body_contract A dr da o sd kwacc (snd md)
                    | _ => False end) gen_bodies.
Proof.
  unfold gen_bodies. repeat (apply Forall_cons; [cbn [fst snd method_sem]; unfold body_contract; cbn [m_params m_body]; solve [body_tac]|]).
  apply Forall_nil.
Qed.
End Bodies.

Lemma W_signatures_ok : forallb (fun md => signature_ok (snd md)) gen_bodies = true.
Proof. vm_cast_no_check (eq_refl true). Qed.

Lemma W_bodies_ok : Forall body_ok_prop gen_bodies.
Proof.
  rewrite Forall_forall. intros md Hin. unfold body_ok_prop.
  assert (Hs : signature_ok (snd md) = true) by (exact (forallb_In _ _ _ W_signatures_ok Hin)).
  destruct (method_sem (fst md)) as [[o sd kwacc|?]|] eqn:Em.
  - split; [exact Hs|]. intros A L dr da.
    pose proof (W_bodies_contract A L dr da) as H. rewrite Forall_forall in H. specialize (H md Hin). now rewrite Em in H.
  - pose proof (W_bodies_contract ZAlg ZAlg_laws 0%Z 0%Z) as H. rewrite Forall_forall in H. specialize (H md Hin). now rewrite Em in H.
  - pose proof (W_bodies_contract ZAlg ZAlg_laws 0%Z 0%Z) as H. rewrite Forall_forall in H. specialize (H md Hin). now rewrite Em in H.
Qed.
