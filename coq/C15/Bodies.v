(* C15 — contracts of the delegating root methods / reflected dunders, stated against their
   TRANSLATED bodies (gen/Dispatch.v: gen_bodies).  Generic part: how a body is run, what its
   contract says.  ProofsW.v proves the contract for every translated body on every run. *)
From Coq Require Import List String ZArith Bool Arith Lia Ring ZArithRing.
Import ListNotations.
Require Import C15.Model C15.Proofs.
Open Scope string_scope.

Section Body.
Variable A : alg.
Variables (dr da : car A).

(* the value a keyword parameter of the signature receives from the call's keywords [k];
   parameters that do not influence the value (equal_nan, ...) are bound to a placeholder *)
Definition bind_param (k : kwv A) (p : string * pdefault) : string * option (car A) :=
  let n := fst p in
  if String.eqb n "alpha" then (n, kw_alpha k)
  else if String.eqb n "rtol" then (n, Some (match kw_tol k with Some (r, _) => r | None => dr end))
  else if String.eqb n "atol" then (n, Some (match kw_tol k with Some (_, t) => t | None => da end))
  else (n, Some (a0 A)).

(* self, the first positional parameter := other, the remaining parameters from the keywords *)
Definition mk_env (self other : car A) (k : kwv A) (vec : bool) (ps : list (string * pdefault)) : env A :=
  match ps with
  | [] => {| e_self := self; e_params := []; e_vec := [] |}
  | (n, _) :: rest => {| e_self := self; e_params := (n, Some other) :: map (bind_param k) rest;
                        e_vec := if vec then [n] else [] |}
  end.

Definition has_param (n : string) (ps : list (string * pdefault)) : bool := mem n ps.

(* the keywords of the call are accepted by the signature (otherwise python raises TypeError) *)
Definition kw_valid (ps : list (string * pdefault)) (k : kwv A) : Prop :=
  (kw_alpha k <> None -> has_param "alpha" ps = true) /\
  (kw_tol k <> None -> has_param "rtol" ps = true /\ has_param "atol" ps = true).

Definition body_contract (o : semop) (sd : side) (kwacc : bool) (d : mdef) : Prop :=
  forall self other (k : kwv A) vec, kw_valid (m_params d) k ->
    den_stmt A dr da (mk_env self other k vec (m_params d)) (m_body d)
    = Ret A (den_method A dr da o sd kwacc self other k vec).
End Body.

(* sanity of the signatures: `alpha` defaults to None (python None = keyword absent), the tolerances
   of isclose default to torch.isclose's own defaults *)
Definition default_ok (p : string * pdefault) : bool :=
  let (n, d) := p in
  if String.eqb n "alpha" then match d with DNone => true | _ => false end
  else if String.eqb n "rtol" then match d with DLit s => String.eqb s "1e-05" | _ => false end
  else if String.eqb n "atol" then match d with DLit s => String.eqb s "1e-08" | _ => false end
  else if String.eqb n "equal_nan" then match d with DBool false => true | _ => false end
  else true.
Definition signature_ok (d : mdef) : bool :=
  match m_params d with
  | (_, DRequired) :: rest => forallb default_ok rest
  | _ => false
  end.

Definition body_ok_prop (md : string * mdef) : Prop :=
  match method_sem (fst md) with
  | Some (SemBin o sd kwacc) =>
      signature_ok (snd md) = true /\
      forall (A : alg) (L : alg_laws A) (dr da : car A), body_contract A dr da o sd kwacc (snd md)
  | _ => False
  end.

(* ---- a concrete algebra: Z (1 x 1 matrices) -- used for the refutation witnesses ---- *)
Definition ZAlg : alg :=
  {| car := Z; a0 := 0%Z; a1 := 1%Z; aadd := Z.add; amul := Z.mul; asub := Z.sub; aopp := Z.opp;
     ainv := fun x => x; amm := Z.mul; atr := fun x => x;
     aclose := fun x y r t => if Z.leb (Z.abs (x - y)) (t + r * Z.abs y) then 1%Z else 0%Z;
     aZ := fun z => z |}.

Lemma ZAlg_laws : alg_laws ZAlg.
Proof.
  constructor; simpl; auto.
  - exact Zth.
  - intros. apply Z.mul_comm.
Qed.

(* A world that registers torch.add symmetrically (second-argument table -> "add") sends
   torch.add(tensor, op, alpha=a) to add(op, tensor, alpha=a) = op + a*tensor, which is not
   tensor + a*op.  Holds for EVERY such world (tables, class hierarchy arbitrary). *)
Lemma symmetric_add_refuted w c :
  tf_ok (w_tf w) = true -> total_ok w = true -> In c (w_opclasses w) ->
  lookup "torch.add" (w_second w) = Some "add" ->
  exists d k, dispatch w "torch.add" [KTensor; KOp c] = DCall d "add" k [1; 0] true /\
  exists (x0 x1 : car ZAlg) (kw : kwv ZAlg),
    den_method ZAlg 0%Z 0%Z SAdd SelfLeft true (nth2 1 x0 x1) (nth2 0 x0 x1) kw false
    <> den_expected ZAlg 0%Z 0%Z SAdd x0 x1 kw false.
Proof.
  intros Htf Htot Hc Hl.
  destruct (dispatch_total_second_gen w Htf Htot c "torch.add" "add" Hc Hl KTensor (KOp c) [] [KOp c]) as [d [k [Hd _]]];
    [reflexivity|reflexivity|].
  exists d, k. split.
  - unfold dispatch, overloaded. simpl. exact Hd.
  - exists 1%Z, 0%Z, (Build_kwv ZAlg (Some 2%Z) None). vm_compute. discriminate.
Qed.

(* the same for torch.isclose: isclose(op, tensor) takes the tolerance relative to the wrong operand;
   already without keywords (here in the algebra Z with default tolerances rtol = 1, atol = 0) *)
Lemma symmetric_isclose_refuted w c :
  tf_ok (w_tf w) = true -> total_ok w = true -> In c (w_opclasses w) ->
  lookup "torch.isclose" (w_second w) = Some "isclose" ->
  exists d k, dispatch w "torch.isclose" [KTensor; KOp c] = DCall d "isclose" k [1; 0] true /\
  exists (x0 x1 : car ZAlg),
    den_method ZAlg 1%Z 0%Z SIsclose SelfLeft true (nth2 1 x0 x1) (nth2 0 x0 x1) (kw_none ZAlg) false
    <> den_expected ZAlg 1%Z 0%Z SIsclose x0 x1 (kw_none ZAlg) false.
Proof.
  intros Htf Htot Hc Hl.
  destruct (dispatch_total_second_gen w Htf Htot c "torch.isclose" "isclose" Hc Hl KTensor (KOp c) [] [KOp c]) as [d [k [Hd _]]];
    [reflexivity|reflexivity|].
  exists d, k. split.
  - unfold dispatch, overloaded. simpl. exact Hd.
  - exists 0%Z, 1%Z. vm_compute. discriminate.
Qed.

(* ---- end to end: dispatch + body ----
   If the dispatch outcome of a two-operand call is right (bin_meaning) and the function object that
   runs is the one whose translated body is [def] (it satisfies its contract), then RUNNING THAT BODY on
   the operands in the order the dispatcher passes them returns what the caller of f(x0, x1, kw) means. *)
Lemma lookup_Forall {T} (P : string * T -> Prop) l m v : Forall P l -> lookup m l = Some v -> P (m, v).
Proof. intros H Hl. apply lookup_In in Hl. rewrite Forall_forall in H. now apply H. Qed.

Lemma end_to_end o hk d bodies :
  bin_meaning o hk d -> Forall body_ok_prop bodies ->
  forall dd m k ps po kwf def, d = DCall dd m k [ps; po] kwf -> lookup m bodies = Some def ->
  exists kwacc, (exists o' sd, method_sem m = Some (SemBin o' sd kwacc)) /\
  forall (A : alg) (L : alg_laws A) (dr da x0 x1 : car A) (kw : kwv A) (vec : bool),
    (hk && kwacc = false -> kw_absent kw = true) -> (vec = true -> po = 0) -> kw_valid A (m_params def) kw ->
    den_stmt A dr da (mk_env A dr da (nth2 ps x0 x1) (nth2 po x0 x1) kw vec (m_params def)) (m_body def)
    = Ret A (den_expected A dr da o x0 x1 kw vec).
Proof.
  intros (dd' & m' & k' & ps' & po' & kwf' & o' & sd & kwacc & v & Hd & _ & Hm & _ & _ & Hsem) HF
         dd m k ps po kwf def Hd' Hl.
  rewrite Hd in Hd'. inversion Hd'; subst. clear Hd'.
  pose proof (lookup_Forall _ _ _ _ HF Hl) as Hb. unfold body_ok_prop in Hb. simpl in Hb. rewrite Hm in Hb.
  destruct Hb as [_ Hb].
  exists kwacc. split; [eauto|].
  intros A L dr da x0 x1 kw vec Hkw Hvec Hval.
  rewrite (Hb A L dr da _ _ kw vec Hval). f_equal. now apply Hsem.
Qed.
