(* C15 — torch consults the most specific operator class first (every world whose subclass relation is a
   partial order; every argument list of any length).  Proved by induction over the argument list for the model
   [overloaded] of torch.overrides._get_overloaded_args. *)
From Coq Require Import List String ZArith Bool Arith Lia.
Import ListNotations.
Require Import C15.Model C15.Proofs.
Open Scope string_scope.

Section Order.
Variable w : world.
Hypothesis Htrans : forall a b c, subclassb w a b = true -> subclassb w b c = true -> subclassb w a c = true.
Hypothesis Hanti : forall a b, subclassb w a b = true -> subclassb w b a = true -> a = b.

(* y is an operator of a STRICT subclass of the class of operator x *)
Definition strict (y x : argk) : Prop :=
  match y, x with KOp d, KOp c => subclassb w d c = true /\ d <> c | _, _ => False end.

Fixpoint ok_ov (l : list (nat * argk)) : Prop :=
  match l with
  | [] => True
  | x :: r => (forall y, In y r -> ~ strict (snd y) (snd x)) /\ ok_ov r
  end.

Lemma strict_subtype y x : strict y x -> is_subtype w y x = true.
Proof. destruct y, x; simpl; try tauto; try (intros [H _]; exact H). Qed.

Lemma insert_ok a l : ok_ov l -> ok_ov (insert_ov w a l).
Proof.
  induction l as [|x r IH]; simpl.
  - intros _. split; [intros y []|exact I].
  - intros [Hx Hr]. destruct (is_subtype w (snd a) (snd x)) eqn:E.
    + (* a goes in front of x *)
      simpl. split; [|split; assumption].
      intros y [<-|Hy] Hs.
      * (* x strictly below a, a below x *)
        destruct (snd x) as [cx| | |] eqn:Ex, (snd a) as [ca| | |] eqn:Ea; simpl in *; try tauto.
        destruct Hs as [Hs Hne]. apply Hne. now apply Hanti.
      * (* y strictly below a <= x: then y strictly below x *)
        apply (Hx y Hy).
        destruct (snd y) as [cy| | |] eqn:Ey, (snd a) as [ca| | |] eqn:Ea, (snd x) as [cx| | |] eqn:Ex; simpl in *; try tauto; try discriminate.
        destruct Hs as [Hs Hne]. split; [now apply (Htrans cy ca cx)|].
        intros ->. apply Hne. now apply Hanti.
    + simpl. split; [|now apply IH].
      intros y Hy Hs. apply insert_ov_In in Hy as [->|Hy].
      * apply strict_subtype in Hs. congruence.
      * exact (Hx y Hy Hs).
Qed.

Lemma overloaded_from_ok args : forall i acc, ok_ov acc -> ok_ov (overloaded_from w i args acc).
Proof.
  induction args as [|a r IH]; simpl; auto.
  intros i acc H. apply IH. destruct (has_tf a && _); [now apply insert_ok|assumption].
Qed.

Lemma first_op_minimal (ov : list (nat * argk)) c : ok_ov ov -> first_op ov = Some c ->
  forall y d, In y ov -> snd y = KOp d -> ~ (subclassb w d c = true /\ d <> c).
Proof.
  induction ov as [|[i a] r IH]; simpl; [discriminate|].
  intros [Hx Hr] Hf y d Hy Hd.
  destruct a as [c'| | |].
  - inversion Hf; subst c'. destruct Hy as [<-|Hy].
    + simpl in Hd. inversion Hd; subst. intros [_ Hne]. now apply Hne.
    + specialize (Hx y Hy). rewrite Hd in Hx. exact Hx.
  - destruct Hy as [<-|Hy]; [discriminate|]. eapply IH; eauto.
  - destruct Hy as [<-|Hy]; [discriminate|]. eapply IH; eauto.
  - destruct Hy as [<-|Hy]; [discriminate|]. eapply IH; eauto.
Qed.

(* THE THEOREM: whichever class c gets to run its __torch_function__, no operator among the arguments belongs to
   a strict subclass of c -- so getattr(c, name) sees the most derived override available among the arguments *)
Theorem handler_class_minimal args c :
  first_op (overloaded w args) = Some c ->
  forall d, In (KOp d) args -> ~ (subclassb w d c = true /\ d <> c).
Proof.
  intros Hf d Hd.
  destruct (overloaded_from_covers w args 0 [] (KOp d) Hd eq_refl) as [[j a] [Hin Hs]].
  destruct a as [d'| | |]; simpl in Hs; try discriminate.
  apply String.eqb_eq in Hs. subst d'.
  eapply first_op_minimal; eauto.
  apply overloaded_from_ok. exact I.
Qed.
End Order.

(* the subclass relation of a generated world is a partial order (boolean check, evaluated on W in ProofsW.v) *)
Definition po_ok (w : world) : bool :=
  let cs := map fst (w_classes w) in
  forallb (fun a => forallb (fun b =>
    (if subclassb w a b then forallb (fun c => if subclassb w b c then subclassb w a c else true) cs else true) &&
    (if subclassb w a b && subclassb w b a then String.eqb a b else true)) cs) cs.

Lemma listed_of_sub w a b : world_wf w = true -> subclassb w a b = true -> In a (map fst (w_classes w)) /\ In b (map fst (w_classes w)).
Proof.
  unfold world_wf. intros H Hs. repeat (apply andb_prop in H as [H ?]).
  unfold subclassb, mro in Hs. destruct (lookup a (w_classes w)) as [l|] eqn:El; [|discriminate].
  split; [eapply lookup_In_fst; eauto|].
  apply lookup_In in El. pose proof (forallb_In _ _ _ H1 El) as Hm. simpl in Hm.
  apply strmem_In in Hs. pose proof (forallb_In _ _ _ Hm Hs) as Hb.
  apply andb_prop in Hb as [Hb _]. apply andb_prop in Hb as [Hb _].
  apply mem_true_lookup in Hb as [v Hv]. eapply lookup_In_fst; eauto.
Qed.

Lemma po_trans w : world_wf w = true -> po_ok w = true ->
  forall a b c, subclassb w a b = true -> subclassb w b c = true -> subclassb w a c = true.
Proof.
  intros Hwf H a b c Hab Hbc.
  destruct (listed_of_sub w a b Hwf Hab) as [Ha Hb]. destruct (listed_of_sub w b c Hwf Hbc) as [_ Hc].
  pose proof (forallb_In _ _ _ (forallb_In _ _ _ H Ha) Hb) as H1. cbv beta in H1.
  apply andb_prop in H1 as [H1 _]. rewrite Hab in H1.
  pose proof (forallb_In _ _ _ H1 Hc) as H2. cbv beta in H2. now rewrite Hbc in H2.
Qed.

Lemma po_anti w : world_wf w = true -> po_ok w = true ->
  forall a b, subclassb w a b = true -> subclassb w b a = true -> a = b.
Proof.
  intros Hwf H a b Hab Hba.
  destruct (listed_of_sub w a b Hwf Hab) as [Ha Hb].
  pose proof (forallb_In _ _ _ (forallb_In _ _ _ H Ha) Hb) as H1. cbv beta in H1.
  apply andb_prop in H1 as [_ H1]. rewrite Hab, Hba in H1. simpl in H1. now apply String.eqb_eq.
Qed.
