(* C19 — proofs about the file REGENERATED from /repo on every run (gen/Guards.v):
   the translated functions are the hand copies the theorems of ProofsShape/ProofsGuard are about, and the
   finite-table facts about the regenerated guard table (FINITE: one row per class x entry point of the scanned
   tree; closed by vm_compute). *)
From Coq Require Import String.
From Coq Require Import List ZArith Bool Arith Lia.
Import ListNotations.
Require Import C19.Model C19.ProofsShape C19.ProofsGuard C19.ProofsAdd C19.gen.Guards.
Open Scope nat_scope.

Ltac destruct_inner t :=
  lazymatch t with
  | context [match ?y with _ => _ end] => destruct_inner y
  | _ => destruct t eqn:?
  end.
Ltac crush_eq :=
  intros; try reflexivity;
  unfold gen_matmul_broadcast_shape, lib_matmul_broadcast_shape, gen_getitem_int_check, lib_getitem_int_check,
         gen_getitem_tensor_check, lib_getitem_tensor_check, bind, try_catch, lift;
  repeat (match goal with
          | |- context [match ?x with _ => _ end] => destruct_inner x
          end; try reflexivity; try congruence);
  repeat match goal with u : unit |- _ => destruct u end; try reflexivity; try congruence.

(* the function translated from utils/broadcasting.py is the transcription the theorems talk about *)
Lemma gen_matmul_broadcast_shape_eq : forall a b, gen_matmul_broadcast_shape a b = lib_matmul_broadcast_shape a b.
Proof. crush_eq. Qed.

(* the int branch translated from utils/getitem.py::_compute_getitem_size *)
Lemma gen_getitem_int_check_eq : forall d n i, gen_getitem_int_check d n i = lib_getitem_int_check d n i.
Proof. crush_eq. Qed.

(* the range check of tensor indices translated from utils/getitem.py::_compute_getitem_size (incl. its DTYPE condition) *)
Lemma gen_getitem_tensor_check_eq : forall d dt n vals,
  gen_getitem_tensor_check d dt n vals = lib_getitem_tensor_check d dt n vals.
Proof. crush_eq. Qed.

(* FINITE (6 dtypes): the dtypes whose index tensors are range-checked are exactly the value-carrying ones *)
Definition checked_idtypes : list idtype :=
  filter (fun dt => negb (is_ok (gen_getitem_tensor_check true dt 3 [3%Z]))) all_idtypes.
Lemma checked_idtypes_all : checked_idtypes = [DUInt8; DInt8; DInt16; DInt32; DInt64].
Proof. vm_compute. reflexivity. Qed.

Lemma gen_getitem_rank_check_true : gen_getitem_rank_check = true.
Proof. reflexivity. Qed.

(* ------------------------------------------------------------------------------------ *)
(** ** the regenerated guard table *)

Definition tview := restrict_tensor table.
Definition exact_entries := [E_matmul; E_rmatmul; E_inv_quad; E_mul; E_add; E_sub].
Definition square_entries :=
  [E_solve; E_inv_quad; E_inv_quad_logdet; E_add_diagonal; E_logdet; E_diagonalization; E_root_decomposition;
   E_root_inv_decomposition; E_cholesky].
Definition classes := nodup string_dec (map r_cls table).
Definition cells (es : list entry) : list (string * entry) := flat_map (fun c => map (fun e => (c, e)) es) classes.

Definition exact_guarded (ce : string * entry) : bool := row_exact FUEL tview (fst ce) (snd ce).
Definition square_guarded (ce : string * entry) : bool := row_square FUEL table (fst ce) (snd ce).
Definition guarded_exact_cells := filter exact_guarded (cells exact_entries).
Definition unguarded_exact_cells := filter (fun ce => negb (exact_guarded ce)) (cells exact_entries).
Definition guarded_square_cells := filter square_guarded (cells square_entries).
Definition unguarded_square_cells := filter (fun ce => negb (square_guarded ce)) (cells square_entries).

Definition cell_eqb (x y : string * entry) : bool := String.eqb (fst x) (fst y) && entry_eqb (snd x) (snd y).
Definition mem_cell (x : string * entry) (l : list (string * entry)) : bool := existsb (cell_eqb x) l.

Open Scope string_scope.
(* Cells of the PINNED tree in which some path of a tensor operand reaches a torch primitive / a private method
   without having passed the exact shape guard (hand-written; the theorem below says the regenerated table has no
   unguarded cell outside this list — a repair shrinks the regenerated list and keeps the theorem true, a new
   override that skips the base check breaks it). *)
Definition pinned_unguarded_exact : list (string * entry) :=
  [("AddedDiagLinearOperator", E_add); ("AddedDiagLinearOperator", E_sub);
   ("BlockDiagLinearOperator", E_matmul); ("BlockDiagLinearOperator", E_rmatmul);
   ("CholLinearOperator", E_inv_quad);
   ("ConstantDiagLinearOperator", E_matmul); ("ConstantDiagLinearOperator", E_rmatmul);
   ("ConstantDiagLinearOperator", E_add); ("ConstantDiagLinearOperator", E_sub);
   ("DenseLinearOperator", E_add); ("DenseLinearOperator", E_sub);
   ("DiagLinearOperator", E_matmul); ("DiagLinearOperator", E_rmatmul);
   ("DiagLinearOperator", E_add); ("DiagLinearOperator", E_sub);
   ("IdentityLinearOperator", E_matmul); ("IdentityLinearOperator", E_rmatmul);
   ("IdentityLinearOperator", E_add); ("IdentityLinearOperator", E_sub);
   ("InterpolatedLinearOperator", E_matmul); ("InterpolatedLinearOperator", E_rmatmul);
   ("KroneckerProductAddedDiagLinearOperator", E_add); ("KroneckerProductAddedDiagLinearOperator", E_sub);
   ("KroneckerProductDiagLinearOperator", E_matmul); ("KroneckerProductDiagLinearOperator", E_rmatmul);
   ("KroneckerProductDiagLinearOperator", E_add); ("KroneckerProductDiagLinearOperator", E_sub);
   ("LowRankRootAddedDiagLinearOperator", E_add); ("LowRankRootAddedDiagLinearOperator", E_sub);
   ("TriangularLinearOperator", E_add); ("TriangularLinearOperator", E_sub);
   ("ZeroLinearOperator", E_matmul); ("ZeroLinearOperator", E_rmatmul);
   ("ZeroLinearOperator", E_add); ("ZeroLinearOperator", E_sub)].

(* square-only entry points of the pinned tree with a path that never tests is_square *)
Definition pinned_unguarded_square_entries (c : string) : list entry :=
  let common := [E_inv_quad_logdet; E_logdet] in
  if mem_cell (c, E_solve) [("CholLinearOperator", E_solve); ("ConstantDiagLinearOperator", E_solve);
       ("DiagLinearOperator", E_solve); ("IdentityLinearOperator", E_solve);
       ("KroneckerProductDiagLinearOperator", E_solve); ("KroneckerProductTriangularLinearOperator", E_solve);
       ("TriangularLinearOperator", E_solve)]
  then E_solve :: common else common.
Definition pinned_unguarded_square : list (string * entry) :=
  flat_map (fun c => map (fun e => (c, e)) (pinned_unguarded_square_entries c)) classes ++
  [("AddedDiagLinearOperator", E_add_diagonal); ("ConstantDiagLinearOperator", E_add_diagonal);
   ("DiagLinearOperator", E_add_diagonal); ("IdentityLinearOperator", E_add_diagonal);
   ("KroneckerProductAddedDiagLinearOperator", E_add_diagonal); ("KroneckerProductDiagLinearOperator", E_add_diagonal);
   ("LowRankRootAddedDiagLinearOperator", E_add_diagonal); ("TriangularLinearOperator", E_add_diagonal);
   ("CholLinearOperator", E_inv_quad);
   ("CholLinearOperator", E_root_decomposition); ("CholLinearOperator", E_root_inv_decomposition);
   ("ConstantMulLinearOperator", E_root_decomposition);
   ("KroneckerProductDiagLinearOperator", E_root_decomposition); ("KroneckerProductDiagLinearOperator", E_root_inv_decomposition);
   ("KroneckerProductLinearOperator", E_root_decomposition); ("KroneckerProductLinearOperator", E_root_inv_decomposition);
   ("KroneckerProductTriangularLinearOperator", E_root_decomposition);
   ("KroneckerProductTriangularLinearOperator", E_root_inv_decomposition);
   ("LowRankRootLinearOperator", E_root_decomposition); ("RootLinearOperator", E_root_decomposition)].
Close Scope string_scope.

(* FINITE TABLE (regenerated from /repo; vm_compute over its rows) *)
Lemma unguarded_exact_within_pinned :
  forallb (fun ce => mem_cell ce pinned_unguarded_exact) unguarded_exact_cells = true.
Proof. vm_compute. reflexivity. Qed.

Lemma unguarded_square_within_pinned :
  forallb (fun ce => mem_cell ce pinned_unguarded_square) unguarded_square_cells = true.
Proof. vm_compute. reflexivity. Qed.

(* the base class itself is guarded where the design says it is (so the table cannot be vacuously "all unguarded") *)
Lemma base_class_guarded :
  forallb (fun e => exact_guarded ("LinearOperator"%string, e)) exact_entries = true /\
  forallb (fun e => square_guarded ("LinearOperator"%string, e))
          [E_solve; E_inv_quad; E_add_diagonal; E_diagonalization; E_root_decomposition; E_root_inv_decomposition;
           E_cholesky] = true.
Proof. split; vm_compute; reflexivity. Qed.

(* FINITE (regenerated): the classes whose `solve` calls _matmul_broadcast_shape(self.shape, <rhs>.shape) on some path on the
   pinned tree still do (a repair adds classes and keeps this true; removing the call from one solve breaks it, also when a
   check further down — DiagLinearOperator.solve inside the Woodbury formula — still catches the bad right-hand side) *)
Definition solve_has_mm (c : string) : bool :=
  match find_row table c E_solve with
  | Some r => existsb (fun x => has_guard G_mm (x_guards x)) (r_exits r)
  | None => false
  end.
Definition solve_mm_classes : list string := filter solve_has_mm classes.
Open Scope string_scope.
Definition pinned_solve_mm_classes : list string :=
  ["AbstractPermutationLinearOperator";
   "AddedDiagLinearOperator";
   "BatchRepeatLinearOperator";
   "BlockDiagLinearOperator";
   "BlockInterleavedLinearOperator";
   "BlockLinearOperator";
   "CatLinearOperator";
   "ConstantMulLinearOperator";
   "DenseLinearOperator";
   "IdentityLinearOperator";
   "InterpolatedLinearOperator";
   "KeOpsLinearOperator";
   "KernelLinearOperator";
   "KroneckerProductAddedDiagLinearOperator";
   "KroneckerProductLinearOperator";
   "KroneckerProductTriangularLinearOperator";
   "LinearOperator";
   "LowRankRootAddedDiagLinearOperator";
   "LowRankRootLinearOperator";
   "MaskedLinearOperator";
   "MatmulLinearOperator";
   "MulLinearOperator";
   "PermutationLinearOperator";
   "PsdSumLinearOperator";
   "RootLinearOperator";
   "SumBatchLinearOperator";
   "SumKroneckerLinearOperator";
   "SumLinearOperator";
   "ToeplitzLinearOperator";
   "TransposePermutationLinearOperator"].
Close Scope string_scope.
Lemma solve_guards_kept : forallb solve_has_mm pinned_solve_mm_classes = true.
Proof. vm_compute. reflexivity. Qed.

(* every class that has its own _check_args has a constructor chain that reaches LinearOperator.__init__
   (where _check_args runs under settings.debug) *)
Lemma check_args_reached :
  forallb (fun x => let '(c, d, reaches, _) := x in String.eqb d "LinearOperator" || reaches) ctor_table = true.
Proof. vm_compute. reflexivity. Qed.

(* ------------------------------------------------------------------------------------ *)
(** ** composed statements over the regenerated table *)

(* the verdict function applied to the regenerated table: instances of the generic theorems *)
Theorem no_silent_broadcast_table : forall c e a b, 2 <= length a ->
  row_exact FUEL (restrict_tensor table) c e = true -> spec_shape e a b = None ->
  ~ can_return FUEL (restrict_tensor table) c e a b.
Proof. intros c e a b. exact (no_silent_broadcast_generic FUEL (restrict_tensor table) c e a b). Qed.

Theorem square_only_table : forall c e a b,
  row_square FUEL table c e = true -> lib_is_square a <> Ok true -> ~ can_return FUEL table c e a b.
Proof. intros c e a b. exact (square_only_generic FUEL table c e a b). Qed.

(* ------------------------------------------------------------------------------------ *)
(** ** operator second operands *)

(* the functions translated from the class-level overrides (diag_linear_operator.py, dense_linear_operator.py,
   zero_linear_operator.py) are the transcriptions the theorems of ProofsAdd.v talk about *)
Ltac crush_op :=
  intros; try reflexivity;
  unfold gen_diag_add_diagonal, lib_diag_add_diagonal, gen_diag_add, lib_diag_add, gen_constdiag_add, lib_constdiag_add,
         gen_constdiag_mul_matrix, lib_constdiag_mul_matrix, gen_dense_add, lib_dense_add,
         gen_zero_mul, lib_zero_mul, bind, try_catch, lift;
  repeat (match goal with
          | |- context [match ?x with _ => _ end] => destruct_inner x
          end; try reflexivity; try congruence);
  try (rewrite Nat.eqb_sym in *; congruence).

Lemma gen_diag_add_diagonal_eq : forall a b, gen_diag_add_diagonal a b = lib_diag_add_diagonal a b.
Proof. crush_op. Qed.
Lemma gen_diag_add_eq : forall a b, gen_diag_add a b = lib_diag_add a b.
Proof. intros. unfold gen_diag_add, lib_diag_add. rewrite gen_diag_add_diagonal_eq. crush_op. Qed.
Lemma gen_constdiag_add_eq : forall a b, gen_constdiag_add a b = lib_constdiag_add a b.
Proof. crush_op. Qed.
Lemma gen_constdiag_mul_matrix_eq : forall a b, gen_constdiag_mul_matrix a b = lib_constdiag_mul_matrix a b.
Proof. crush_op. Qed.
Lemma gen_dense_add_eq : forall a b, gen_dense_add a b = lib_dense_add a b.
Proof. crush_op. Qed.
Lemma gen_zero_mul_eq : forall a b, gen_zero_mul a b = lib_zero_mul a b.
Proof. crush_op. Qed.

(* FAST PATHS of the pinned tree that return self / the operand unchanged WITHOUT the exact guard of their entry point
   (hand-written; a repair removes the path or puts the guard in front of it, a new unguarded fast path — or an
   existing one moved in front of its check — is not in the list and breaks the theorem) *)
Open Scope string_scope.
Definition pinned_fastpaths : list fastpath :=
  [FP "LinearOperator" E_add RetSelf ["ZeroLinearOperator"] [];     (* known finding C19-add-zero-operand-ignored *)
   FP "SumLinearOperator" E_add RetSelf ["ZeroLinearOperator"] [];  (* same finding *)
   FP "LinearOperator" E_mul RetOperand ["ZeroLinearOperator"] [];  (* known finding C19-mul-zero-operand-returns-other *)
   FP "ZeroLinearOperator" E_add RetOperand [] []].                 (* known finding C19-zero-add-returns-other *)
Close Scope string_scope.

Lemma fastpaths_within_pinned :
  forallb (fun f => fastpath_guarded f || existsb (fastpath_same f) pinned_fastpaths) fastpaths = true.
Proof. vm_compute. reflexivity. Qed.

(* operands of ANY kind (tensor or operator): the verdict function on the unrestricted table *)
Definition exact_guarded_all (ce : string * entry) : bool := row_exact FUEL table (fst ce) (snd ce).
Definition unguarded_all_matmul_cells :=
  filter (fun ce => negb (exact_guarded_all ce)) (cells [E_matmul; E_rmatmul]).

(* FINITE TABLE: the cells whose matmul / rmatmul lets SOME operand kind past the shape guard are the pinned overrides *)
Lemma unguarded_all_matmul_within_pinned :
  forallb (fun ce => mem_cell ce pinned_unguarded_exact) unguarded_all_matmul_cells = true.
Proof. vm_compute. reflexivity. Qed.

Theorem no_silent_broadcast_table_all : forall c e a b, 2 <= length a ->
  row_exact FUEL table c e = true -> spec_shape e a b = None -> ~ can_return FUEL table c e a b.
Proof. intros c e a b. exact (no_silent_broadcast_generic FUEL table c e a b). Qed.

(* ------------------------------------------------------------------------------------ *)
(** ** shape checks inside _matmul closures *)

(* LinearOperator.solve has no shape check for a 2-D right-hand side and its generic _solve hands `self._matmul` to
   linear_cg: on that route the only shape checks are the ones the `_matmul` / `_t_matmul` closures make themselves.
   FINITE (regenerated list of the helpers / private methods that call _matmul_broadcast_shape): the closures that check on
   the pinned tree still do (a repair adds entries and keeps this true; dropping a check "because the caller validated rhs"
   breaks it) *)
Open Scope string_scope.
Definition pinned_helper_guards : list string :=
  ["batch_repeat_linear_operator.py::BatchRepeatLinearOperator._matmul";
   "cat_linear_operator.py::CatLinearOperator._matmul";
   "kronecker_product_linear_operator.py::_matmul";
   "kronecker_product_linear_operator.py::_t_matmul";
   "matmul_linear_operator.py::MatmulLinearOperator._size";
   "mul_linear_operator.py::MulLinearOperator._matmul"].
Close Scope string_scope.
Lemma helper_guards_kept :
  forallb (fun h => existsb (String.eqb h) helper_guards) pinned_helper_guards = true.
Proof. vm_compute. reflexivity. Qed.
