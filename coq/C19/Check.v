(* C19 — Gallina comparators used by the generated case shards (gen/cases_*.v).
   For every case (class, operator shape, query, what the implementation did, what torch did on the dense matrix):
     bit 1: the SPEC of Model.v Part 1 disagrees with the running torch           (the spec is wrong)
     bit 2: the MODEL (guard table verdict + guards, or the pinned transcription) disagrees with the implementation
   The model is `None` (opaque) for cells whose code is neither covered by an exact guard nor transcribed; those are
   checked by the direct property predicate of the harness only.
   OPERATOR second operands (QPair): the dispatch of `+`, `-`, `*`, `@` on the ordered pair (class of the left operand,
   runtime class of the right operand) through the regenerated MRO table to the transcriptions of Model.v Part 5. *)
From Coq Require Import String.
From Coq Require Import List ZArith Bool Arith.
Import ListNotations.
Require Import C19.Model C19.ProofsGuard C19.gen.Guards.
Open Scope nat_scope.

Inductive verdict := VRaise | VOk (s : shape) | VOkAny.
Inductive citem := CInt (i : Z) | CSlice (len : nat) | CTensor (dt : idtype) (sh : shape) (vals : list Z).

Inductive pairop := PAdd | PSub | PMul | PMatmul.

Inductive query :=
| QEntry (e : entry) (b : shape)                       (* tensor operand of shape b *)
| QAddDiag (d : shape)
| QExpand (sizes : list Z)
| QCat (pos : nat) (others : list shape) (dim : Z)      (* the operator sits at position pos among the inputs *)
| QGetitem (idx : list citem)                           (* one item per dimension (or one too many) *)
| QSquare (e : entry)                                   (* square-only operation on a rectangular operator *)
| QCtorDense (t : shape)                                (* DenseLinearOperator(tensor of shape t) *)
| QCtorMul (r : shape)                                  (* MulLinearOperator(this operator, operator of shape r) *)
| QPair (o : pairop) (rc : string) (b : shape).         (* operator operand of runtime class rc and shape b *)

Record case := C { k_cls : string; k_a : shape; k_q : query; k_impl : verdict; k_torch : verdict }.

Definition tview := restrict_tensor table.

(* the verdicts of the table, computed ONCE (when this file is compiled against the regenerated gen/Guards.v) for every
   class x entry point, so that the case shards only look them up.  memo_* e c = row_* ... c e by construction. *)
Definition all_entries : list entry :=
  [E_matmul; E_rmatmul; E_solve; E_inv_quad; E_inv_quad_logdet; E_add; E_sub; E_mul; E_add_diagonal; E_expand; E_getitem;
   E_logdet; E_diagonalization; E_root_decomposition; E_root_inv_decomposition; E_cholesky].
Definition verdict_memo (f : string -> entry -> bool) : list (string * entry * bool) :=
  flat_map (fun r => if entry_eqb (r_entry r) E_matmul
                     then map (fun e => (r_cls r, e, f (r_cls r) e)) all_entries else []) table.
Definition memo_exact_tensor := Eval vm_compute in verdict_memo (row_exact FUEL tview).
Definition memo_exact_any := Eval vm_compute in verdict_memo (row_exact FUEL table).
Definition memo_square := Eval vm_compute in verdict_memo (row_square FUEL table).
Definition memo_def := Eval vm_compute in map (fun r => (r_cls r, r_entry r, r_def r)) table.
Definition lookup_memo (m : list (string * entry * bool)) (c : string) (e : entry) : bool :=
  match find (fun x => String.eqb (fst (fst x)) c && entry_eqb (snd (fst x)) e) m with Some x => snd x | None => false end.
Definition exact_tensor_of := lookup_memo memo_exact_tensor.
Definition exact_any_of := lookup_memo memo_exact_any.
Definition square_of := lookup_memo memo_square.
Definition of_spec (o : option shape) : verdict := match o with Some s => VOk s | None => VRaise end.
Definition of_res (r : res shape) : verdict := match r with Ok s => VOk s | Raise => VRaise end.
Definition is_square_b (a : shape) : bool := match lib_is_square a with Ok true => true | _ => false end.

Fixpoint insert_at {A} (k : nat) (x : A) (l : list A) : list A :=
  match k, l with
  | 0, _ => x :: l
  | S k', y :: r => y :: insert_at k' x r
  | S _, [] => [x]
  end.

Definition to_item (c : citem) : item :=
  match c with CInt i => IInt i | CSlice n => ISlice n | CTensor dt sh vals => ITensor dt sh vals end.

(* ---------------------------------------------------------------- SPEC verdict (torch on the dense matrix) *)

Fixpoint items_ok (sizes : shape) (idx : list citem) : bool :=
  match sizes, idx with
  | _, [] => true
  | [], _ :: _ => false                                    (* too many indices *)
  | n :: sizes', c :: idx' =>
      (match c with
       | CInt i => torch_index_ok n i
       | CSlice _ => true
       | CTensor _ _ vals => forallb (torch_index_ok n) vals     (* value-carrying dtypes only (the harness emits no masks) *)
       end) && items_ok sizes' idx'
  end.
Definition tensor_shapes (idx : list citem) : list shape :=
  flat_map (fun c => match c with CTensor _ sh _ => [sh] | _ => [] end) idx.

(* Some true/false: accepted / refused;  shapes are compared only where the reference computes the same quantity *)
Definition spec_accepts (a : shape) (q : query) : bool :=
  match q with
  | QEntry e b =>
      match e with
      | E_matmul | E_rmatmul | E_mul | E_add | E_sub | E_inv_quad => is_some (spec_shape e a b)
      | E_solve | E_inv_quad_logdet => is_square_b a && is_some (torch_matmul_shape a b)
      | _ => false
      end
  | QAddDiag d => is_square_b a && is_some (torch_broadcast (py_slice_to a (-1)) d)
  | QExpand sizes => is_some (torch_expand a sizes)
  | QCat pos others dim => is_some (torch_cat (insert_at pos a others) dim)
  | QGetitem idx => items_ok a idx && is_some (torch_broadcast_n [] (tensor_shapes idx))
  | QSquare _ => false
  | QCtorDense t => 2 <=? length t          (* by the class contract: a matrix or a batch of matrices *)
  | QCtorMul r => is_some (torch_elementwise_shape a r)
  | QPair o _ b => match o with PMatmul => is_some (torch_matmul_shape a b) | _ => is_some (torch_elementwise_shape a b) end
  end.
Definition spec_result (a : shape) (q : query) : option shape :=
  match q with
  | QEntry e b => match e with
                  | E_matmul | E_rmatmul | E_mul | E_add | E_sub => spec_shape e a b
                  | _ => None
                  end
  | QExpand sizes => torch_expand a sizes
  | QCat pos others dim => torch_cat (insert_at pos a others) dim
  | QPair o _ b => match o with PMatmul => torch_matmul_shape a b | _ => torch_elementwise_shape a b end
  | _ => None
  end.

Definition spec_vs_torch (c : case) : bool :=
  match k_torch c with
  | VRaise => negb (spec_accepts (k_a c) (k_q c))
  | VOk s => spec_accepts (k_a c) (k_q c) &&
             match spec_result (k_a c) (k_q c) with Some s' => shape_eqb s s' | None => true end
  | VOkAny => spec_accepts (k_a c) (k_q c)
  end.

(* ---------------------------------------------------------------- MODEL verdict *)

Definition def_of (c : string) (e : entry) : string :=
  match find (fun x => String.eqb (fst (fst x)) c && entry_eqb (snd (fst x)) e) memo_def with
  | Some x => snd x | None => ""%string end.
Definition check_size_of (c : string) : bool :=
  match find (fun x => String.eqb (fst (fst (fst x))) c) ctor_table with Some x => snd x | None => true end.

Definition pinned_matmul (d : string) (a b : shape) : option (res shape) :=
  if (String.eqb d "DiagLinearOperator" || String.eqb d "ConstantDiagLinearOperator")%bool then Some (pinned_diag_matmul a b)
  else if String.eqb d "IdentityLinearOperator" then Some (pinned_identity_matmul a b)
  else if String.eqb d "ZeroLinearOperator" then Some (pinned_zero_matmul a b)
  else None.

(* ---- operator operands: which code decides for an ordered pair of classes *)
Definition isinst (c k : string) : bool := isinst_in mro_table c k.
Definition is_any (d : string) (l : list string) : bool := existsb (String.eqb d) l.

Open Scope string_scope.
(* A + R.  d = class whose __add__ runs for the left operand (regenerated table).
     ZeroLinearOperator.__add__                        -> the operand                                   (pinned)
     LinearOperator / SumLinearOperator.__add__, R Zero -> self                                          (pinned fast path)
     ConstantDiag.__add__, R a ConstantDiag            -> lib_constdiag_add
     ConstantDiag / Diag.__add__, R a Diag             -> lib_diag_add      (ConstantDiag falls through to super().__add__)
     Dense.__add__, R a Dense                          -> lib_dense_add
   everything else ends in a lazily checked constructor (Sum / AddedDiag ...): opaque here, direct predicate only *)
Definition model_pair_add (c : string) (a : shape) (rc : string) (b : shape) : option verdict :=
  let d := def_of c E_add in
  if String.eqb d "ZeroLinearOperator" then Some (of_res (pinned_zero_add a b))
  else if isinst rc "ZeroLinearOperator" then
    if is_any d ["LinearOperator"; "SumLinearOperator"] then Some (of_res (pinned_add_zero_operand a b)) else None
  else if String.eqb d "ConstantDiagLinearOperator" && isinst rc "ConstantDiagLinearOperator" then
    Some (of_res (lib_constdiag_add a b))
  else if is_any d ["ConstantDiagLinearOperator"; "DiagLinearOperator"] && isinst rc "DiagLinearOperator" then
    Some (of_res (lib_diag_add a b))
  else if String.eqb d "DenseLinearOperator" && isinst rc "DenseLinearOperator" then Some (of_res (lib_dense_add a b))
  else None.

(* A - R = A + R.mul(-1)  (base class only; checked by the translator).  Negating a Diag / ConstantDiag / Identity operand
   keeps a diagonal operand of the same class family and shape (their _mul_constant); other operand classes change
   class under negation (ConstantMul ...) or raise (Zero.mul(-1)): opaque *)
Definition model_pair_sub (c : string) (a : shape) (rc : string) (b : shape) : option verdict :=
  if String.eqb (def_of c E_sub) "LinearOperator" &&
     is_any rc ["DiagLinearOperator"; "ConstantDiagLinearOperator"; "IdentityLinearOperator"]
  then model_pair_add c a (if String.eqb rc "IdentityLinearOperator" then "ConstantDiagLinearOperator" else rc) b
  else None.

(* A * R.  base mul: Zero operand returned BEFORE the check (pinned fast path); otherwise torch.broadcast_shapes(self.shape,
   other.shape) guards everything behind it; ConstantDiag * ConstantDiag then runs lib_constdiag_mul_matrix
   (Identity has its own _mul_matrix) *)
Definition model_pair_mul (c : string) (a : shape) (rc : string) (b : shape) : option verdict :=
  let d := def_of c E_mul in
  if String.eqb d "ZeroLinearOperator" then Some (of_res (lib_zero_mul a b))
  else if String.eqb d "LinearOperator" then
    if isinst rc "ZeroLinearOperator" then Some (of_res (pinned_mul_zero_operand a b))
    else match torch_broadcast a b with
         | None => Some VRaise
         | Some _ =>
             if String.eqb c "ConstantDiagLinearOperator" && isinst rc "ConstantDiagLinearOperator"
             then Some (of_res (lib_constdiag_mul_matrix a b)) else None
         end
  else None.
Close Scope string_scope.

(* A @ R: whatever passes the exact guard for EVERY operand kind (the unrestricted table) *)
Definition model_pair_matmul (c : string) (a : shape) (b : shape) : option verdict :=
  if exact_any_of c E_matmul then Some (of_spec (torch_matmul_shape a b)) else None.

Definition exact_entry (e : entry) : bool :=
  match e with E_matmul | E_rmatmul | E_inv_quad | E_mul | E_add | E_sub => true | _ => false end.

Definition model_verdict (c : string) (a : shape) (q : query) : option verdict :=
  match q with
  | QEntry e b =>
      if exact_entry e && exact_tensor_of c e then Some (of_spec (spec_shape e a b))
      else if req_square e && square_of c e && negb (is_square_b a) then Some VRaise
      else
        match e with
        | E_matmul => option_map of_res (pinned_matmul (def_of c E_matmul) a b)
        | E_rmatmul =>
            if String.eqb (def_of c E_rmatmul) "LinearOperator" then
              match transform E_rmatmul E_matmul a b with
              | None => Some VRaise
              | Some (a', b') =>
                  match pinned_matmul (def_of c E_matmul) a' b' with
                  | None => None
                  | Some Raise => Some VRaise
                  | Some (Ok s) => if length b =? 1 then Some (VOk s)
                                   else Some (of_res (shape_mT s))
                  end
              end
            else None
        | E_solve =>
            let d := def_of c E_solve in
            if String.eqb d "DiagLinearOperator" then Some (of_res (pinned_diag_matmul a b))
            else if String.eqb d "IdentityLinearOperator" then Some (of_res (pinned_identity_reshape a b))
            else None
        | E_add | E_sub =>
            if String.eqb (def_of c E_add) "ZeroLinearOperator" then Some (of_res (pinned_zero_add a b)) else None
        | _ => None
        end
  | QSquare e => if req_square e && square_of c e then Some VRaise else None
  | QAddDiag d =>
      if String.eqb (def_of c E_add_diagonal) "LinearOperator" then
        Some (match lib_add_diagonal_check a d with Ok _ => VOkAny | Raise => VRaise end)
      else None
  | QExpand sizes =>
      if String.eqb (def_of c E_expand) "LinearOperator" then
        match lib_expand_check a sizes with Raise => Some VRaise | Ok _ => None end
      else None
  | QCat pos others dim =>
      Some (if is_ok (lib_cat_init (insert_at pos a others) dim) then VOkAny else VRaise)
  | QGetitem idx =>
      if check_size_of c && negb (is_ok (lib_compute_getitem_size true a (map to_item idx))) then Some VRaise else None
  | QCtorDense t => Some (if is_ok (lib_dense_check_args t) then VOkAny else VRaise)
  | QCtorMul r => Some (if is_ok (lib_mul_check_args a r) then VOkAny else VRaise)
  | QPair o rc b =>
      match o with
      | PAdd => model_pair_add c a rc b
      | PSub => model_pair_sub c a rc b
      | PMul => model_pair_mul c a rc b
      | PMatmul => model_pair_matmul c a b
      end
  end.

Definition is_raise (v : verdict) : bool := match v with VRaise => true | _ => false end.

(* model vs implementation, comparing only what C19 talks about:
   - the model predicts a raise and the implementation returned                             -> disagreement
   - torch refuses, model and implementation both return, but with different shapes          -> disagreement
     (the transcription of a pinned silent path must at least get the silent result's shape right)
   - the implementation raising where the model returns is tolerated: stricter, or repaired (the spec says raise) *)
Definition model_vs_impl (c : case) : bool :=
  match model_verdict (k_cls c) (k_a c) (k_q c) with
  | None => true
  | Some VRaise => is_raise (k_impl c)
  | Some (VOk s) =>
      match k_impl c, k_torch c with
      | VOk s', VRaise => shape_eqb s s'
      | _, _ => true
      end
  | Some VOkAny => true
  end.

Definition modelled (c : case) : bool :=
  match model_verdict (k_cls c) (k_a c) (k_q c) with Some _ => true | None => false end.

Fixpoint bad_cases (cs : list case) (i : nat) : list nat :=
  match cs with
  | [] => []
  | c :: r =>
      let code := (if spec_vs_torch c then 0 else 1) + (if model_vs_impl c then 0 else 2) in
      if code =? 0 then bad_cases r (S i) else (4 * i + code) :: bad_cases r (S i)
  end.
Definition count_modelled (cs : list case) : nat := length (filter modelled cs).
