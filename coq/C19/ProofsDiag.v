(* C19 — add_diagonal: the base class's check (is_square, then Tensor.expand of the diagonal to the operator's
   shape[:-1], resp. to batch_shape + (1,)) lets through only diagonals that torch accepts for
   A + diag_embed(broadcast d): sufficiency of the guard, for all ranks. *)
From Coq Require Import String.
From Coq Require Import List ZArith Bool Arith Lia.
Import ListNotations.
Require Import C19.Model C19.ProofsShape.
Open Scope nat_scope.

(* whatever Tensor.expand accepts (target sizes given as naturals), broadcasting accepts *)
Lemma expand_rev_bc : forall dr tr r, expand_rev dr (map Z.of_nat tr) = Some r -> bc_rev tr dr <> None.
Proof.
  induction dr as [|x dr IH]; intros tr r H.
  - rewrite bc_rev_nil_r. discriminate.
  - destruct tr as [|t tr]; simpl in H; [discriminate|].
    destruct (expand_rev dr (map Z.of_nat tr)) as [r'|] eqn:E; [|discriminate].
    specialize (IH tr r' E). simpl.
    assert (B : bdim t x <> None).
    { destruct (Z.of_nat t =? -1)%Z eqn:M1; [apply Z.eqb_eq in M1; lia|].
      destruct (Z.of_nat t <? 0)%Z eqn:N; [apply Z.ltb_lt in N; lia|].
      destruct (Z.of_nat x =? Z.of_nat t)%Z eqn:Q.
      - apply Z.eqb_eq in Q. apply Nat2Z.inj in Q. subst. unfold bdim. rewrite Nat.eqb_refl. discriminate.
      - destruct (Nat.eqb_spec x 1); [|discriminate]. subst. rewrite bdim_1_r. discriminate. }
    destruct (bdim t x); [|congruence]. destruct (bc_rev tr dr); [discriminate|congruence].
Qed.

Lemma torch_expand_broadcast : forall d t r, torch_expand d (zs_of t) = Some r -> torch_broadcast t d <> None.
Proof.
  intros d t r H. unfold torch_expand, zs_of in H. rewrite <- map_rev in H.
  destruct (expand_rev (rev d) (map Z.of_nat (rev t))) as [q|] eqn:E; [|discriminate].
  pose proof (expand_rev_bc _ _ _ E) as B. unfold torch_broadcast.
  destruct (bc_rev (rev t) (rev d)); [discriminate|congruence].
Qed.

(* For every operator shape and every diagonal shape (any ranks): if the base add_diagonal's check passes, the
   operator is square and the diagonal broadcasts against shape[:-1] — i.e. torch accepts A + diag_embed(d). *)
Theorem add_diagonal_guard_sufficient : forall a d s,
  lib_add_diagonal_check a d = Ok s ->
  lib_is_square a = Ok true /\ torch_broadcast (py_slice_to a (-1)) d <> None.
Proof.
  intros a d s H. unfold lib_add_diagonal_check in H.
  destruct (lib_is_square a) as [[|]|] eqn:SQ; simpl in H; try discriminate.
  split; [reflexivity|].
  apply lib_is_square_true in SQ. destruct SQ as (p & n & ->).
  rewrite py_slice_to_m1' in *. rewrite py_slice_to_m2 in H.
  destruct (rev d) as [|x dr] eqn:Ed.
  - apply rev_is_nil in Ed. subst d. rewrite torch_broadcast_nil_r. discriminate.
  - destruct (negb (x =? 1)) eqn:ST.
    + destruct (torch_expand d (zs_of (p ++ [n]))) eqn:E; simpl in H; [|discriminate].
      eapply torch_expand_broadcast; eauto.
    + apply negb_false_iff, Nat.eqb_eq in ST. subst x.
      destruct (torch_expand d (zs_of p ++ [1%Z])) eqn:E; simpl in H; [|discriminate].
      (* the diagonal ends in 1: it was expanded against batch + (1,) ; broadcasting against batch + (n,) agrees *)
      replace (zs_of p ++ [1%Z]) with (zs_of (p ++ [1])) in E by (unfold zs_of; rewrite map_app; reflexivity).
      pose proof (torch_expand_broadcast _ _ _ E) as B.
      unfold torch_broadcast in *. rewrite Ed in *. rewrite !rev_app_distr in *. simpl in *.
      rewrite bdim_1_r. try rewrite bdim_1_l in B.
      destruct (bc_rev (rev p) dr); [discriminate | congruence].
Qed.

(* ------------------------------------------------------------------------------------ *)
(** ** the pinned DiagLinearOperator.matmul agrees with torch.matmul on every operand torch accepts
    (the defect is confined to operands torch refuses) *)

Lemma torch_broadcast_app1 : forall x y u v,
  torch_broadcast (x ++ [u]) (y ++ [v]) =
  match bdim u v, torch_broadcast x y with Some d, Some r => Some (r ++ [d]) | _, _ => None end.
Proof.
  intros. unfold torch_broadcast. rewrite !rev_app_distr. simpl.
  destruct (bdim u v); [|reflexivity]. destruct (bc_rev (rev x) (rev y)); reflexivity.
Qed.

Lemma bdim_refl : forall n, bdim n n = Some n.
Proof. intro n. unfold bdim. rewrite Nat.eqb_refl. reflexivity. Qed.

(* for every square operator shape (any batch) and every operand shape of any rank: if torch.matmul accepts, the
   elementwise implementation returns exactly torch's result shape *)
Theorem diag_matmul_valid_agrees : forall p n b s,
  torch_matmul_shape (p ++ [n; n]) b = Some s -> pinned_diag_matmul (p ++ [n; n]) b = Ok s.
Proof.
  intros p n b s H. unfold pinned_diag_matmul. rewrite py_slice_to_m1'.
  destruct (rev b) as [|q [|k bb]] eqn:Eb.
  - apply rev_is_nil in Eb. subst b. unfold torch_matmul_shape in H. rewrite rev_app_distr in H. discriminate.
  - apply rev_is_1 in Eb. subst b. rewrite torch_matmul_vector_rule in H. simpl length. simpl.
    destruct (Nat.eqb_spec n q); [|discriminate]. injection H as <-. subst q.
    pose proof (torch_broadcast_app1 p [] n n) as E. simpl app in E. rewrite E, bdim_refl, torch_broadcast_nil_r. reflexivity.
  - pose proof (rev_is_2 _ _ _ _ Eb) as ->. rewrite torch_matmul_matrix_rule in H.
    replace (length (rev bb ++ [k; q]) =? 1) with false by (symmetry; apply Nat.eqb_neq; rewrite app_length; simpl; lia).
    destruct (Nat.eqb_spec n k); [|discriminate]. subst k.
    destruct (torch_broadcast p (rev bb)) as [bt|] eqn:B; [|discriminate]. injection H as <-.
    replace ((p ++ [n]) ++ [1]) with ((p ++ [n]) ++ [1]) by reflexivity.
    replace (rev bb ++ [n; q]) with ((rev bb ++ [n]) ++ [q]) by (rewrite <- app_assoc; reflexivity).
    rewrite torch_broadcast_app1, bdim_1_l, torch_broadcast_app1, bdim_refl, B. simpl.
    rewrite <- app_assoc. reflexivity.
Qed.
