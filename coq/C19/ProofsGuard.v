(* C19 — proofs about the guard table semantics (generic in the table), the integer index range check of
   _compute_getitem_size (all ranks), and the refutations for the pinned overrides that skip the base check. *)
From Coq Require Import String.
From Coq Require Import List ZArith Bool Arith Lia.
Import ListNotations.
Require Import C19.Model C19.ProofsShape.
Open Scope nat_scope.

(* ------------------------------------------------------------------------------------ *)
(** ** guards that are present on a path hold on the shapes that get through *)

Lemma guard_eqb_eq : forall g h, guard_eqb g h = true -> g = h.
Proof.
  intros [] [] H; simpl in H; try discriminate; try reflexivity.
  apply String.eqb_eq in H. subst. reflexivity.
Qed.

Lemma has_guard_holds : forall g gs a b,
  has_guard g gs = true -> forallb (fun g => guard_holds g a b) gs = true -> guard_holds g a b = true.
Proof.
  intros g gs a b H F. unfold has_guard in H. apply existsb_exists in H. destruct H as (h & Hin & E).
  apply guard_eqb_eq in E. subst h. rewrite forallb_forall in F. apply F. exact Hin.
Qed.

Lemma has_all_holds : forall need gs a b,
  has_all need gs = true -> forallb (fun g => guard_holds g a b) gs = true ->
  forall g, In g need -> guard_holds g a b = true.
Proof.
  intros need gs a b H F g Hin. unfold has_all in H. rewrite forallb_forall in H.
  apply (has_guard_holds g gs); auto.
Qed.

(* the direct requirement of an entry point is sound: shapes that pass it are shapes torch accepts *)
Lemma req_exact_sound : forall e need a b, 2 <= length a ->
  req_exact e = Some need -> (forall g, In g need -> guard_holds g a b = true) -> spec_shape e a b <> None.
Proof.
  intros e need a b Ha R H.
  destruct e; simpl in R; try discriminate; injection R as <-; simpl.
  - (* matmul *) apply lib_matmul_accepts_iff; auto. apply (H G_mm). simpl; auto.
  - (* inv_quad *)
    assert (S : guard_holds G_sq a b = true) by (apply H; simpl; auto).
    assert (M : guard_holds G_mm a b = true) by (apply H; simpl; auto).
    simpl in S. destruct (lib_is_square a) as [[|]|]; try discriminate.
    apply lib_matmul_accepts_iff; auto.
  - (* __add__ *) assert (B : guard_holds G_bc a b = true) by (apply H; simpl; auto).
    simpl in B. unfold torch_elementwise_shape. destruct (torch_broadcast a b); simpl in B; congruence.
  - (* mul *) assert (B : guard_holds G_bc a b = true) by (apply H; simpl; auto).
    simpl in B. unfold torch_elementwise_shape. destruct (torch_broadcast a b); simpl in B; congruence.
Qed.

Lemma delegation_spec : forall e e2 a b a' b', 2 <= length a ->
  delegates_exact e e2 = true -> transform e e2 a b = Some (a', b') ->
  spec_shape e a b = None -> 2 <= length a' /\ spec_shape e2 a' b' = None.
Proof.
  intros e e2 a b a' b' Ha D T S.
  destruct e, e2; simpl in D; try discriminate.
  - (* rmatmul -> matmul *)
    destruct (rmatmul_transposition_exact a b a' b' Ha T) as [L E]. split; [exact L|]. simpl in *. apply E. exact S.
  - (* __sub__ -> __add__ *) simpl in T. injection T as <- <-. auto.
Qed.

(* NO SILENT BROADCAST, generic in the (regenerated) table: if the verdict function says that every non-raising
   path of class c's entry point e has passed the exact guard (directly or through a delegation), then for ALL
   operator shapes a (rank >= 2) and ALL operand shapes b that torch refuses for the dense counterpart, no path
   through the entry point reaches a return: the call raises — whatever the torch primitives behind it do. *)
Theorem no_silent_broadcast_generic : forall fuel tbl c e a b, 2 <= length a ->
  row_exact fuel tbl c e = true -> spec_shape e a b = None -> ~ can_return fuel tbl c e a b.
Proof.
  induction fuel as [|f IH]; intros tbl c e a b Ha RE S; [discriminate|].
  simpl in RE. simpl. destruct (find_row tbl c e) as [r|]; [|discriminate].
  intros (x & Hin & G & K).
  rewrite forallb_forall in RE. pose proof (RE x Hin) as RX.
  apply orb_true_iff in RX. destruct RX as [RX|RX].
  - destruct (req_exact e) as [need|] eqn:RQ; [|discriminate].
    apply (req_exact_sound e need a b Ha RQ); [|exact S].
    apply (has_all_holds need (x_guards x)); auto.
  - destruct (x_kind x) as [|e2]; [discriminate|].
    apply andb_true_iff in RX. destruct RX as [D R2].
    destruct (transform e e2 a b) as [[a' b']|] eqn:T; [|exact K].
    destruct (delegation_spec e e2 a b a' b' Ha D T S) as [La' S'].
    apply (IH tbl c e2 a' b' La' R2 S'). exact K.
Qed.

(* SQUARE ONLY: if every non-raising path of (c, e) has passed `if not self.is_square: raise`
   (directly or through a delegation to an entry point that has), then on every rectangular operator the call raises. *)
Lemma delegates_square_transform : forall e e2 a b, delegates_square e e2 = true -> transform e e2 a b = Some (a, b).
Proof. intros e e2 a b D. destruct e, e2; simpl in D; try discriminate; reflexivity. Qed.

Theorem square_only_generic : forall fuel tbl c e a b,
  row_square fuel tbl c e = true -> lib_is_square a <> Ok true -> ~ can_return fuel tbl c e a b.
Proof.
  induction fuel as [|f IH]; intros tbl c e a b RS NS; [discriminate|].
  simpl in RS. simpl. destruct (find_row tbl c e) as [r|]; [|discriminate].
  apply andb_true_iff in RS. destruct RS as [_ RS].
  intros (x & Hin & G & K). rewrite forallb_forall in RS. specialize (RS x Hin).
  apply orb_true_iff in RS. destruct RS as [RS|RS].
  - pose proof (has_guard_holds G_sq _ a b RS G) as H. simpl in H.
    destruct (lib_is_square a) as [[|]|]; try discriminate. apply NS. reflexivity.
  - destruct (x_kind x) as [|e2]; [discriminate|].
    apply andb_true_iff in RS. destruct RS as [D R2].
    rewrite (delegates_square_transform e e2 a b D) in K. apply (IH tbl c e2 a b R2 NS K).
Qed.

(* ------------------------------------------------------------------------------------ *)
(** ** integer indices: the range check of _compute_getitem_size *)

Theorem range_check_exact : forall size i,
  py_range_idx size i = Raise <-> (i >= Z.of_nat size \/ i < - Z.of_nat size)%Z.
Proof.
  intros size i. unfold py_range_idx.
  destruct (Z.ltb_spec i 0).
  - destruct (Z.ltb_spec (i + Z.of_nat size) 0); simpl.
    + split; [lia|reflexivity].
    + destruct (Z.leb_spec (Z.of_nat size) (i + Z.of_nat size)); [lia|]. split; [discriminate|lia].
  - destruct (Z.ltb_spec i 0); [lia|]. simpl.
    destruct (Z.leb_spec (Z.of_nat size) i); split; try reflexivity; try discriminate; lia.
Qed.

Corollary range_check_is_torch_rule : forall size i, is_ok (py_range_idx size i) = torch_index_ok size i.
Proof.
  intros size i. unfold torch_index_ok.
  destruct (py_range_idx size i) eqn:E; simpl.
  - symmetry. apply andb_true_iff. split; [apply Z.leb_le | apply Z.ltb_lt];
      destruct (Z_lt_ge_dec i (- Z.of_nat size)) as [L|L]; destruct (Z_lt_ge_dec i (Z.of_nat size)) as [U|U]; try lia;
      exfalso; assert (py_range_idx size i = Raise) by (apply range_check_exact; lia); congruence.
  - apply range_check_exact in E. symmetry. apply andb_false_iff.
    destruct E; [right; apply Z.ltb_ge; lia | left; apply Z.leb_gt; lia].
Qed.

Lemma int_check_debug : forall size i,
  lib_getitem_int_check true size i = Raise <-> torch_index_ok size i = false.
Proof.
  intros size i. rewrite <- range_check_is_torch_rule. unfold lib_getitem_int_check.
  destruct (py_range_idx size i); simpl; split; congruence.
Qed.

(* ---- tensor indices: the range check at the top of the tensor branch *)

Lemma fold_max_spec : forall r v, In (fold_right Z.max v r) (v :: r) /\ forall x, In x (v :: r) -> (x <= fold_right Z.max v r)%Z.
Proof.
  induction r as [|w r IH]; intro v; simpl.
  - split; [auto|]. intros x [E|[]]. lia.
  - destruct (IH v) as [M U]. simpl in M. split.
    + destruct (Z.max_spec w (fold_right Z.max v r)) as [[_ E]|[_ E]]; rewrite E; [destruct M; auto | auto].
    + intros x [E|[E|I]].
      * assert (x <= fold_right Z.max v r)%Z by (apply U; left; exact E). lia.
      * lia.
      * assert (x <= fold_right Z.max v r)%Z by (apply U; right; exact I). lia.
Qed.
Lemma fold_min_spec : forall r v, In (fold_right Z.min v r) (v :: r) /\ forall x, In x (v :: r) -> (fold_right Z.min v r <= x)%Z.
Proof.
  induction r as [|w r IH]; intro v; simpl.
  - split; [auto|]. intros x [E|[]]. lia.
  - destruct (IH v) as [M U]. simpl in M. split.
    + destruct (Z.min_spec w (fold_right Z.min v r)) as [[_ E]|[_ E]]; rewrite E; [auto | destruct M; auto].
    + intros x [E|[E|I]].
      * assert (fold_right Z.min v r <= x)%Z by (apply U; left; exact E). lia.
      * lia.
      * assert (fold_right Z.min v r <= x)%Z by (apply U; right; exact I). lia.
Qed.

Lemma zmax_ge : forall l n, l <> [] -> ((n <=? zmax l) = true <-> exists v, In v l /\ n <= v)%Z.
Proof.
  intros [|v r] n H; [congruence|]. clear H. unfold zmax. destruct (fold_max_spec r v) as [M U].
  rewrite Z.leb_le. split.
  - intro L. exists (fold_right Z.max v r). split; [exact M | exact L].
  - intros (x & I & L). specialize (U x I). lia.
Qed.

Lemma zmin_lt : forall l n, l <> [] -> ((zmin l <? n) = true <-> exists v, In v l /\ v < n)%Z.
Proof.
  intros [|v r] n H; [congruence|]. clear H. unfold zmin. destruct (fold_min_spec r v) as [M U].
  rewrite Z.ltb_lt. split.
  - intro L. exists (fold_right Z.min v r). split; [exact M | exact L].
  - intros (x & I & L). specialize (U x I). lia.
Qed.

(* some value of the index tensor is out of range (torch's rule: -size <= v < size) *)
Definition vals_oob (size : nat) (vals : list Z) : bool := existsb (fun v => negb (torch_index_ok size v)) vals.

(* under settings.debug, for every dtype that carries values (everything but torch.bool) and every non-empty index tensor:
   the check raises exactly when some value is >= size or < -size *)
Theorem tensor_check_exact : forall dt size vals, dt <> DBool ->
  (lib_getitem_tensor_check true dt size vals = Raise <-> vals_oob size vals = true).
Proof.
  intros dt size vals ND. unfold lib_getitem_tensor_check, vals_oob.
  destruct vals as [|v0 r].
  - simpl. split; discriminate.
  - set (l := v0 :: r). assert (NE : l <> []) by discriminate.
    replace (length l =? 0) with false by reflexivity. simpl negb.
    assert (B : idtype_eqb dt DBool = false) by (destruct dt; try reflexivity; congruence). rewrite B. simpl negb.
    rewrite existsb_exists.
    destruct (Z.of_nat size <=? zmax l)%Z eqn:E1.
    + split; [|reflexivity]. intros _. apply (zmax_ge l _ NE) in E1. destruct E1 as (x & I & L).
      exists x. split; [exact I|]. unfold torch_index_ok. apply negb_true_iff, andb_false_iff. right. apply Z.ltb_ge. lia.
    + destruct (zmin l <? - Z.of_nat size)%Z eqn:E2.
      * split; [|reflexivity]. intros _. apply (zmin_lt l _ NE) in E2. destruct E2 as (x & I & L).
        exists x. split; [exact I|]. unfold torch_index_ok. apply negb_true_iff, andb_false_iff. left. apply Z.leb_gt. lia.
      * split; [discriminate|]. intros (x & I & O). exfalso.
        unfold torch_index_ok in O. apply negb_true_iff, andb_false_iff in O. destruct O as [O|O].
        -- apply Z.leb_gt in O. assert (K : (zmin l <? - Z.of_nat size)%Z = true) by (apply (zmin_lt l _ NE); exists x; split; [exact I|lia]).
           congruence.
        -- apply Z.ltb_ge in O. assert (K : (Z.of_nat size <=? zmax l)%Z = true) by (apply (zmax_ge l _ NE); exists x; split; [exact I|lia]).
           congruence.
Qed.

Lemma vals_oob_spec : forall size vals,
  vals_oob size vals = true <-> exists v, In v vals /\ (v >= Z.of_nat size \/ v < - Z.of_nat size)%Z.
Proof.
  intros size vals. unfold vals_oob. rewrite existsb_exists. split; intros (v & I & H); exists v; split; try exact I.
  - unfold torch_index_ok in H. apply negb_true_iff, andb_false_iff in H. destruct H as [H|H];
      [apply Z.leb_gt in H; lia | apply Z.ltb_ge in H; lia].
  - unfold torch_index_ok. apply negb_true_iff, andb_false_iff. destruct H; [right; apply Z.ltb_ge; lia | left; apply Z.leb_gt; lia].
Qed.

(* bool masks have no value range: nothing is checked; with settings.debug off nothing is checked for any dtype *)
Lemma tensor_check_bool : forall size vals, lib_getitem_tensor_check true DBool size vals = Ok tt.
Proof. intros. unfold lib_getitem_tensor_check. destruct (negb (length vals =? 0)); reflexivity. Qed.
Lemma tensor_check_nodebug : forall dt size vals, lib_getitem_tensor_check false dt size vals = Ok tt.
Proof. reflexivity. Qed.

Local Opaque lib_getitem_int_check lib_getitem_tensor_check.

(* an index tuple has an out-of-range python int, or a value-carrying tensor index with an out-of-range value, at some position *)
Fixpoint int_oob (sizes : shape) (idx : list item) : bool :=
  match sizes, idx with
  | n :: sizes', IInt i :: idx' => negb (torch_index_ok n i) || int_oob sizes' idx'
  | n :: sizes', ITensor dt _ vals :: idx' => (negb (idtype_eqb dt DBool) && vals_oob n vals) || int_oob sizes' idx'
  | _ :: sizes', _ :: idx' => int_oob sizes' idx'
  | _, _ => false
  end.
Definition no_tensor (idx : list item) : bool :=
  forallb (fun it => match it with ITensor _ _ _ => false | _ => true end) idx.

Lemma getitem_loop_oob : forall sizes idx st, int_oob sizes idx = true -> getitem_loop true st sizes idx = Raise.
Proof.
  induction sizes as [|n sizes IH]; intros [|it idx] st H; simpl in H; try discriminate.
  simpl. destruct it as [i|len|dt sh vals].
  - simpl. destruct (torch_index_ok n i) eqn:T; simpl in H.
    + destruct (lib_getitem_int_check true n i) eqn:C; simpl; [apply IH; exact H | reflexivity].
    + apply int_check_debug in T. rewrite T. reflexivity.
  - simpl. apply IH. exact H.
  - simpl. destruct (lib_getitem_tensor_check true dt n vals) eqn:C; [|reflexivity]. simpl.
    assert (H' : int_oob sizes idx = true).
    { apply orb_true_iff in H. destruct H as [H|H]; [|exact H]. exfalso.
      apply andb_true_iff in H. destruct H as [ND O].
      assert (dt <> DBool) by (intro; subst; discriminate).
      apply (tensor_check_exact dt n vals) in O; [congruence | assumption]. }
    destruct (g_tshape st); simpl.
    + destruct (torch_broadcast s sh); simpl; [apply IH; exact H' | reflexivity].
    + apply IH. exact H'.
Qed.

(* For operators of ANY rank and index tuples of that length: with settings.debug on, an out-of-range python int
   (i >= size or i < -size) at any position makes _compute_getitem_size raise. *)
Theorem getitem_size_rejects_oob_int : forall sizes idx,
  int_oob sizes idx = true -> lib_compute_getitem_size true sizes idx = Raise.
Proof.
  intros sizes idx H. unfold lib_compute_getitem_size.
  destruct (length sizes =? length idx); simpl; [|reflexivity].
  rewrite (getitem_loop_oob sizes idx _ H). reflexivity.
Qed.

Lemma getitem_loop_ok : forall sizes idx st, no_tensor idx = true -> int_oob sizes idx = false ->
  exists st', getitem_loop true st sizes idx = Ok st' /\ g_tidx st' = g_tidx st /\ g_tshape st' = g_tshape st.
Proof.
  induction sizes as [|n sizes IH]; intros [|it idx] st NT H; simpl; eauto.
  simpl in NT. apply andb_true_iff in NT. destruct NT as [N1 NT]. simpl in H.
  destruct it as [i|len|dt sh vals]; [| |discriminate].
  - apply orb_false_iff in H. destruct H as [H1 H]. apply negb_false_iff in H1.
    simpl. destruct (lib_getitem_int_check true n i) eqn:C.
    + simpl. apply IH; auto.
    + apply int_check_debug in C. congruence.
  - simpl. destruct (IH idx (GS (g_final st ++ [len]) (g_tidx st) (g_tshape st)
             (match g_tidx st with Some _ => true | None => g_slice_after st end)) NT H) as (st' & E & A & B).
    exists st'. auto.
Qed.

(* ... and for index tuples of ints and slices it raises ONLY then (no spurious rejections): the check rejects
   exactly the tuples torch rejects. *)
Theorem getitem_size_int_exact : forall sizes idx,
  length sizes = length idx -> no_tensor idx = true ->
  (lib_compute_getitem_size true sizes idx = Raise <-> int_oob sizes idx = true).
Proof.
  intros sizes idx L NT. split; [|apply getitem_size_rejects_oob_int].
  destruct (int_oob sizes idx) eqn:O; [reflexivity|]. intro H. exfalso.
  unfold lib_compute_getitem_size in H. rewrite L, Nat.eqb_refl in H. simpl in H.
  destruct (getitem_loop_ok sizes idx (GS [] None None false) NT O) as (st' & E & A & B).
  rewrite E in H. simpl in H. simpl in A. rewrite A in H. discriminate.
Qed.

Local Transparent lib_getitem_int_check lib_getitem_tensor_check.

(* with settings.debug off the int branch checks nothing: stated so that the assumption is visible *)
Lemma int_check_nodebug : forall size i, lib_getitem_int_check false size i = Ok tt.
Proof. reflexivity. Qed.

(* ------------------------------------------------------------------------------------ *)
(** ** pinned overrides that skip the base check: refutations, for whole families of shapes *)

Lemma torch_broadcast_same_rank2 : forall x y u v,
  torch_broadcast [x; y] [u; v] = match bdim x u, bdim y v with Some d1, Some d2 => Some [d1; d2] | _, _ => None end.
Proof.
  intros. unfold torch_broadcast. simpl. destruct (bdim y v), (bdim x u); reflexivity.
Qed.

(* DiagLinearOperator(n) @ tensor(1, p): torch refuses (inner dimensions n and 1 differ) for every n <> 1,
   the pinned elementwise implementation returns an (n, p) result *)
Theorem diag_matmul_size1_inner_refuted : forall n p, n <> 1 ->
  torch_matmul_shape [n; n] [1; p] = None /\ pinned_diag_matmul [n; n] [1; p] = Ok [n; p].
Proof.
  intros n p H. split.
  - unfold torch_matmul_shape. simpl. destruct (Nat.eqb_spec n 1); [contradiction|reflexivity].
  - unfold pinned_diag_matmul. simpl. rewrite torch_broadcast_same_rank2, bdim_1_r, bdim_1_l. reflexivity.
Qed.

Theorem diag_matmul_size1_vector_refuted : forall n, n <> 1 ->
  torch_matmul_shape [n; n] [1] = None /\ pinned_diag_matmul [n; n] [1] = Ok [n].
Proof.
  intros n H. split.
  - unfold torch_matmul_shape. simpl. destruct (Nat.eqb_spec n 1); [contradiction|reflexivity].
  - unfold pinned_diag_matmul, torch_broadcast. simpl. rewrite bdim_1_r. reflexivity.
Qed.

(* IdentityLinearOperator(n) @ X(m, p) returns X for every m, also when m <> n *)
Theorem identity_matmul_wrong_inner_refuted : forall n m p, m <> n ->
  torch_matmul_shape [n; n] [m; p] = None /\ pinned_identity_matmul [n; n] [m; p] = Ok [m; p].
Proof.
  intros n m p H. split.
  - unfold torch_matmul_shape. simpl. destruct (Nat.eqb_spec n m); [congruence|reflexivity].
  - reflexivity.
Qed.

(* ZeroLinearOperator(a) + X = X whatever the shapes *)
Theorem zero_add_refuted : exists a b, torch_elementwise_shape a b = None /\ pinned_zero_add a b = Ok b.
Proof. exists [3; 3], [3; 4]. split; reflexivity. Qed.

(* ZeroLinearOperator.matmul compares the inner dimension only: non-broadcastable batches get through *)
Theorem zero_matmul_batch_refuted : exists a b s, torch_matmul_shape a b = None /\ pinned_zero_matmul a b = Ok s.
Proof. exists [2; 3; 3], [5; 3; 2], [5; 3; 2]. split; reflexivity. Qed.

(* base _expand_batch floor-divides the requested batch by the current one: expanding a non-singleton
   batch dimension to a different size is not refused *)
Theorem expand_batch_nonsingleton_refuted : exists a sizes s,
  torch_expand a sizes = None /\
  bind (lib_expand_check a sizes) (fun bt => lib_expand_batch_base (py_slice_to a (-2)) bt) = Ok s.
Proof. exists [2; 3; 3], [3; 3; 3]%Z, [2]. split; reflexivity. Qed.
