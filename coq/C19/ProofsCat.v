(* C19 — concatenation: CatLinearOperator._check_args (run by the constructor under settings.debug) accepts exactly
   the lists of shapes torch.cat accepts, for any number (>= 2) of operands of any rank and any dim;
   and the refutation for the pinned constructor's dim normalisation. *)
From Coq Require Import String.
From Coq Require Import List ZArith Bool Arith Lia.
Import ListNotations.
Require Import C19.Model.
Open Scope nat_scope.

Lemma shape_eqb_eq : forall a b, shape_eqb a b = true <-> a = b.
Proof.
  induction a as [|x a IH]; intros [|y b]; simpl; split; intro H; try discriminate; try reflexivity.
  - apply andb_true_iff in H. destruct H as [H1 H2]. apply Nat.eqb_eq in H1. apply IH in H2. subst. reflexivity.
  - injection H as -> ->. rewrite Nat.eqb_refl. simpl. apply IH. reflexivity.
Qed.

Lemma set_nth_length : forall l k v, length (set_nth l k v) = length l.
Proof. induction l as [|x l IH]; intros [|k] v; simpl; auto. Qed.

Lemma set_nth_twice : forall l k v w, set_nth (set_nth l k v) k w = set_nth l k w.
Proof. induction l as [|x l IH]; intros [|k] v w; simpl; auto. rewrite IH. reflexivity. Qed.

(* deleting position k / overwriting position k identify the same pairs of equally long lists *)
Lemma del_iff_set : forall a b k, length a = length b -> k < length a ->
  (del_nth a k = del_nth b k <-> set_nth a k 0 = set_nth b k 0).
Proof.
  induction a as [|x a IH]; intros [|y b] k L K; simpl in *; try lia.
  destruct k as [|k]; simpl.
  - split; intro H; [rewrite H; reflexivity | injection H as H; exact H].
  - assert (L' : length a = length b) by lia. assert (K' : k < length a) by lia.
    specialize (IH b k L' K'). split; intro H; injection H as -> H; f_equal; apply IH; exact H.
Qed.

Lemma wrap_dim_lt : forall rank d k, wrap_dim rank d = Some k -> k < rank.
Proof.
  intros rank d k H. unfold wrap_dim in H.
  destruct ((d <? - Z.of_nat rank)%Z || (Z.of_nat rank <=? d)%Z) eqn:E; [discriminate|].
  injection H as <-. apply orb_false_iff in E. destruct E as [E1 E2].
  apply Z.ltb_ge in E1. apply Z.leb_gt in E2. destruct (d <? 0)%Z eqn:N; [apply Z.ltb_lt in N | apply Z.ltb_ge in N]; lia.
Qed.

(* ---------------------------------------------------------------- torch.cat's fold *)

Definition compat (k : nat) (rep s : shape) : Prop := length s = length rep /\ set_nth s k 0 = set_nth rep k 0.

Lemma cat2_some : forall k a s, cat2 k a s <> None <-> compat k a s.
Proof.
  intros k a s. unfold cat2, compat.
  destruct (Nat.eqb_spec (length a) (length s)) as [L|L]; simpl.
  - destruct (shape_eqb (set_nth a k 0) (set_nth s k 0)) eqn:E.
    + apply shape_eqb_eq in E. split; [intros _; split; congruence | intros _; discriminate].
    + split; [congruence|]. intros [_ H]. assert (shape_eqb (set_nth a k 0) (set_nth s k 0) = true) by (apply shape_eqb_eq; congruence).
      congruence.
  - split; [congruence|]. intros [H _]. congruence.
Qed.

Lemma cat_fold_some : forall k l acc,
  cat_fold k acc l <> None <-> Forall (compat k acc) l.
Proof.
  induction l as [|s l IH]; intro acc; simpl.
  - split; [constructor | discriminate].
  - destruct (cat2 k acc s) as [a'|] eqn:E.
    + assert (C : compat k acc s) by (apply cat2_some; congruence).
      assert (A : forall t, compat k a' t <-> compat k acc t).
      { unfold cat2 in E. destruct (_ && _); [|discriminate]. injection E as <-.
        intro t. unfold compat. rewrite set_nth_length, set_nth_twice. tauto. }
      rewrite IH. split.
      * intro F. constructor; [exact C|]. eapply Forall_impl; [|exact F]. intros t. apply A.
      * intro F. inversion F; subst. eapply Forall_impl; [|eassumption]. intros t. apply A.
    + split; [congruence|]. intro F. inversion F; subst.
      assert (cat2 k acc s <> None) by (apply cat2_some; assumption). congruence.
Qed.

(* ---------------------------------------------------------------- the library's loop *)

Definition check_one (rep rn : shape) (d : Z) (acc : res unit) (t : shape) : res unit :=
  bind acc (fun _ =>
    if negb (length t =? length rep) then Raise
    else bind (py_del t d) (fun tn => if shape_eqb tn rn then Ok tt else Raise)).

Lemma fold_check_raise : forall rep rn d l, fold_left (check_one rep rn d) l Raise = Raise.
Proof. induction l; simpl; auto. Qed.

Lemma fold_check_ok : forall rep rn d k l, wrap_dim (length rep) d = Some k -> rn = del_nth rep k ->
  (fold_left (check_one rep rn d) l (Ok tt) = Ok tt <-> Forall (compat k rep) l).
Proof.
  intros rep rn d k l W ->. induction l as [|t l IH]; simpl.
  - split; [constructor | reflexivity].
  - destruct (Nat.eqb_spec (length t) (length rep)) as [L|L]; simpl.
    + unfold py_del. rewrite L, W. simpl.
      destruct (shape_eqb (del_nth t k) (del_nth rep k)) eqn:E.
      * apply shape_eqb_eq in E.
        assert (C : compat k rep t).
        { split; [exact L|]. apply del_iff_set; [exact L | rewrite L; eapply wrap_dim_lt; eauto | exact E]. }
        rewrite IH. split; [intro F; constructor; assumption | intro F; inversion F; assumption].
      * rewrite fold_check_raise. split; [discriminate|]. intro F. inversion F as [|? ? [_ S] _]; subst.
        assert (del_nth t k = del_nth rep k).
        { apply del_iff_set; [exact L | rewrite L; eapply wrap_dim_lt; eauto | exact S]. }
        assert (shape_eqb (del_nth t k) (del_nth rep k) = true) by (apply shape_eqb_eq; assumption). congruence.
    + rewrite fold_check_raise. split; [discriminate|]. intro F. inversion F as [|? ? [L' _] _]; subst. congruence.
Qed.

(* CatLinearOperator._check_args accepts exactly what torch.cat accepts: any number (>= 2) of operands, any ranks,
   any dim (negative or not, in range or not) *)
Theorem cat_check_args_exact : forall rep t0 rest d,
  lib_cat_check_args (rep :: t0 :: rest) d = Ok tt <-> torch_cat (rep :: t0 :: rest) d <> None.
Proof.
  intros rep t0 rest d. unfold lib_cat_check_args, torch_cat, py_del at 1.
  destruct (wrap_dim (length rep) d) as [k|] eqn:W; simpl bind.
  - change (fold_left _ (rep :: t0 :: rest) (Ok tt)) with (fold_left (check_one rep (del_nth rep k) d) (rep :: t0 :: rest) (Ok tt)).
    rewrite (fold_check_ok rep (del_nth rep k) d k (rep :: t0 :: rest) W eq_refl), cat_fold_some.
    split.
    + intro F. inversion F; assumption.
    + intro F. constructor; [split; reflexivity | exact F].
  - split; [discriminate | congruence].
Qed.

(* the pinned constructor normalises dim BEFORE the checked constructor runs: dim = rank is mapped to 0 *)
Theorem cat_dim_out_of_range_refuted : exists ops d, torch_cat ops d = None /\ lib_cat_init ops d = Ok tt.
Proof. exists [[3; 3]; [3; 3]], 2%Z. split; reflexivity. Qed.

(* for every dim torch accepts, the normalisation changes nothing: the constructor check is still exact *)
Lemma wrap_dim_normalised : forall rank d, (- Z.of_nat rank <= d < Z.of_nat rank)%Z ->
  wrap_dim rank (if 0 <=? d then d - Z.of_nat rank else d)%Z = wrap_dim rank d.
Proof.
  intros rank d H. unfold wrap_dim.
  destruct (Z.leb_spec 0 d) as [P|P].
  - replace ((d - Z.of_nat rank <? - Z.of_nat rank)%Z) with false by (symmetry; apply Z.ltb_ge; lia).
    replace ((Z.of_nat rank <=? d - Z.of_nat rank)%Z) with false by (symmetry; apply Z.leb_gt; lia).
    replace ((d <? - Z.of_nat rank)%Z) with false by (symmetry; apply Z.ltb_ge; lia).
    replace ((Z.of_nat rank <=? d)%Z) with false by (symmetry; apply Z.leb_gt; lia).
    simpl. f_equal.
    replace ((d - Z.of_nat rank <? 0)%Z) with true by (symmetry; apply Z.ltb_lt; lia).
    replace ((d <? 0)%Z) with false by (symmetry; apply Z.ltb_ge; lia). lia.
  - reflexivity.
Qed.

(* the constructor as a whole (normalisation + check) is exact for every dim torch itself accepts as a dimension *)
Theorem cat_init_exact_in_range : forall rep t0 rest d,
  (- Z.of_nat (length rep) <= d < Z.of_nat (length rep))%Z ->
  (lib_cat_init (rep :: t0 :: rest) d = Ok tt <-> torch_cat (rep :: t0 :: rest) d <> None).
Proof.
  intros rep t0 rest d H. unfold lib_cat_init. rewrite cat_check_args_exact.
  unfold torch_cat. rewrite (wrap_dim_normalised (length rep) d H). tauto.
Qed.
