(* C19 — Incompatible shapes and out-of-range indices raise, never mis-compute.
   Only theorem statements live here; each is closed by `exact`/`apply` of a lemma proved in ProofsShape.v,
   ProofsGuard.v or GenProofs.v.  gen/Guards.v is REGENERATED from /repo on every run (translated functions and the
   guard table); theorems mentioning gen_* / table are re-proved over it every time. *)
From Coq Require Import String.
From Coq Require Import List ZArith Bool Arith Lia.
Import ListNotations.
Require Import C19.Model C19.ProofsShape C19.ProofsGuard C19.ProofsCat C19.ProofsDiag C19.ProofsAdd C19.gen.Guards C19.GenProofs.
Open Scope nat_scope.

(* ---- the rules (spec), for shapes of ALL ranks -------------------------------------------------------- *)

(* torch.broadcast_shapes(a, b) = r  iff  r has the longer rank and, aligned from the right with missing
   dimensions read as 1, every pair of dimensions is equal or contains a 1 and r takes the other one *)
Theorem C19_broadcast_rule : forall a b r, torch_broadcast a b = Some r <-> Bcast a b r.
Proof. exact torch_broadcast_spec. Qed.

(* ... and it refuses exactly when some right-aligned pair differs with neither side 1 *)
Theorem C19_broadcast_rejects : forall a b,
  torch_broadcast a b = None <-> exists i, rdim a i <> rdim b i /\ rdim a i <> 1 /\ rdim b i <> 1.
Proof. exact torch_broadcast_rejects. Qed.

(* ---- the library's matmul shape check ------------------------------------------------------------------ *)

(* The function TRANSLATED from utils/broadcasting.py::_matmul_broadcast_shape, for every operator shape of rank >= 2
   and every operand shape of ANY rank (0-d, 1-D, matrices, batches): it raises exactly when torch.matmul refuses
   the dense operands and otherwise returns exactly torch.matmul's result shape. *)
Theorem C19_matmul_guard_exact : forall a b, 2 <= length a ->
  gen_matmul_broadcast_shape a b = lift (torch_matmul_shape a b).
Proof. intros a b H. rewrite gen_matmul_broadcast_shape_eq. apply lib_matmul_shape_exact. exact H. Qed.

(* in particular a size-1 inner dimension is never broadcast against the matrix dimension, whatever the batches *)
Theorem C19_matmul_guard_no_size1_inner : forall aa m n bb p, n <> 1 ->
  gen_matmul_broadcast_shape (aa ++ [m; n]) (bb ++ [1; p]) = Raise /\ gen_matmul_broadcast_shape (aa ++ [m; n]) [1] = Raise.
Proof.
  intros aa m n bb p H.
  rewrite !C19_matmul_guard_exact by (rewrite app_length; simpl; lia).
  rewrite torch_matmul_matrix_rule, torch_matmul_vector_rule.
  destruct (Nat.eqb_spec n 1); [contradiction|]. split; reflexivity.
Qed.

(* rmatmul: other @ A is computed as (A.mT @ other.mT).mT (1-D other: A.mT @ other); the transposed call is
   refused by torch's rule exactly when other @ A is *)
Theorem C19_rmatmul_transposition : forall a b a' b', 2 <= length a ->
  transform E_rmatmul E_matmul a b = Some (a', b') ->
  2 <= length a' /\ (torch_matmul_shape a' b' = None <-> torch_matmul_shape b a = None).
Proof. exact rmatmul_transposition_exact. Qed.

(* ---- integer indices ----------------------------------------------------------------------------------- *)

(* the int branch TRANSLATED from utils/getitem.py::_compute_getitem_size, under settings.debug: it raises exactly
   for i >= size or i < -size *)
Theorem C19_index_range_exact : forall size i,
  gen_getitem_int_check true size i = Raise <-> (i >= Z.of_nat size \/ i < - Z.of_nat size)%Z.
Proof.
  intros size i. rewrite gen_getitem_int_check_eq, int_check_debug, <- range_check_is_torch_rule.
  rewrite <- range_check_exact. destruct (py_range_idx size i); simpl; split; congruence.
Qed.

(* the range check of TENSOR indices TRANSLATED from utils/getitem.py::_compute_getitem_size (its conditions
   settings.debug, idx.numel(), the DTYPE condition and the comparison of idx.max() / idx.min() with size), under
   settings.debug: for EVERY dtype that carries values (uint8, int8, int16, int32, int64 — everything but torch.bool), every
   size and every index tensor (any number of values): it raises exactly when some value is >= size or < -size *)
Theorem C19_tensor_index_range_exact : forall dt size vals, dt <> DBool ->
  (gen_getitem_tensor_check true dt size vals = Raise <->
   exists v, In v vals /\ (v >= Z.of_nat size \/ v < - Z.of_nat size)%Z).
Proof.
  intros dt size vals H. rewrite gen_getitem_tensor_check_eq, <- vals_oob_spec. apply tensor_check_exact. exact H.
Qed.

(* FINITE (the 6 index dtypes): the dtype condition of the regenerated check selects exactly the value-carrying dtypes
   (narrowing it, e.g. to int64 only, breaks this and the theorem above) *)
Theorem C19_tensor_index_check_dtypes : checked_idtypes = [DUInt8; DInt8; DInt16; DInt32; DInt64].
Proof. exact checked_idtypes_all. Qed.

(* operators of ANY rank: an out-of-range python int, or a value-carrying tensor index (any dtype but bool) with an
   out-of-range value, at any position of the index tuple makes the size check raise *)
Theorem C19_getitem_rejects_oob_int : forall sizes idx,
  int_oob sizes idx = true -> lib_compute_getitem_size true sizes idx = Raise.
Proof. exact getitem_size_rejects_oob_int. Qed.

(* ... and for tuples of ints and slices it raises only then *)
Theorem C19_getitem_int_exact : forall sizes idx,
  length sizes = length idx -> no_tensor idx = true ->
  (lib_compute_getitem_size true sizes idx = Raise <-> int_oob sizes idx = true).
Proof. exact getitem_size_int_exact. Qed.

(* ---- concatenation --------------------------------------------------------------------------------------- *)

(* CatLinearOperator._check_args (run by the constructor under settings.debug) accepts exactly the operand lists
   torch.cat accepts: any number (>= 2) of operands, any ranks, any dim *)
Theorem C19_cat_check_args_exact : forall rep t0 rest d,
  lib_cat_check_args (rep :: t0 :: rest) d = Ok tt <-> torch_cat (rep :: t0 :: rest) d <> None.
Proof. exact cat_check_args_exact. Qed.

(* the constructor (dim normalisation + check) is exact for every dim that is a dimension of the operands *)
Theorem C19_cat_constructor_exact_in_range : forall rep t0 rest d,
  (- Z.of_nat (length rep) <= d < Z.of_nat (length rep))%Z ->
  (lib_cat_init (rep :: t0 :: rest) d = Ok tt <-> torch_cat (rep :: t0 :: rest) d <> None).
Proof. exact cat_init_exact_in_range. Qed.

(* ---- add_diagonal ---------------------------------------------------------------------------------------- *)

(* base add_diagonal (is_square, then Tensor.expand of the diagonal): whatever passes it is a square operator and a
   diagonal that broadcasts against shape[:-1], for all ranks — the check never lets through what torch refuses *)
Theorem C19_add_diagonal_guard_sufficient : forall a d s,
  lib_add_diagonal_check a d = Ok s ->
  lib_is_square a = Ok true /\ torch_broadcast (py_slice_to a (-1)) d <> None.
Proof. exact add_diagonal_guard_sufficient. Qed.

(* ---- composed statements over the regenerated guard table ------------------------------------------------ *)

(* If the verdict function finds that every path a tensor operand can take through class c's entry point e
   (matmul, rmatmul, inv_quad, mul, __add__, __sub__) passes the exact guard — directly, or by delegating to an entry
   point that does — then for ALL operator shapes and ALL operand shapes that torch refuses for the dense
   counterpart, no path reaches a return: the call raises, whatever the code behind the guard does. *)
Theorem C19_no_silent_broadcast : forall c e a b, 2 <= length a ->
  row_exact FUEL (restrict_tensor table) c e = true -> spec_shape e a b = None ->
  ~ can_return FUEL (restrict_tensor table) c e a b.
Proof. exact no_silent_broadcast_table. Qed.

(* square-only entry points whose every path tests is_square raise on every rectangular operator *)
Theorem C19_square_only : forall c e a b,
  row_square FUEL table c e = true -> lib_is_square a <> Ok true -> ~ can_return FUEL table c e a b.
Proof. exact square_only_table. Qed.

(* FINITE TABLE (rows regenerated from the AST of /repo: class x entry point): outside the cells listed in
   GenProofs.pinned_unguarded_exact / pinned_unguarded_square, every class x entry point is guarded *)
Theorem C19_guard_table_within_pinned :
  forallb (fun ce => mem_cell ce pinned_unguarded_exact) unguarded_exact_cells = true /\
  forallb (fun ce => mem_cell ce pinned_unguarded_square) unguarded_square_cells = true.
Proof. split; [exact unguarded_exact_within_pinned | exact unguarded_square_within_pinned]. Qed.

(* FINITE TABLE: the base class is guarded at every exact / square entry point (the table is not vacuous) *)
Theorem C19_base_class_guarded :
  forallb (fun e => exact_guarded ("LinearOperator"%string, e)) exact_entries = true /\
  forallb (fun e => square_guarded ("LinearOperator"%string, e))
          [E_solve; E_inv_quad; E_add_diagonal; E_diagonalization; E_root_decomposition; E_root_inv_decomposition;
           E_cholesky] = true.
Proof. exact base_class_guarded. Qed.

(* FINITE TABLE: constructors of classes with their own _check_args reach LinearOperator.__init__ *)
Theorem C19_check_args_reached :
  forallb (fun x => let '(c, d, reaches, _) := x in String.eqb d "LinearOperator" || reaches) ctor_table = true.
Proof. exact check_args_reached. Qed.

(* ---- OPERATOR second operands ---------------------------------------------------------------------------- *)

(* torch never combines elementwise two (batches of) square matrices of different sizes unless one of them is 1 x 1 —
   whatever the batch shapes (all ranks) *)
Theorem C19_square_operands_need_equal_size : forall x y n m, n <> m -> n <> 1 -> m <> 1 ->
  torch_elementwise_shape (x ++ [n; n]) (y ++ [m; m]) = None.
Proof. exact square_sizes_must_match. Qed.

(* The function TRANSLATED from ConstantDiagLinearOperator.__add__ (ConstantDiagLinearOperator operand), for all batch
   shapes and all sizes: it returns only what torch accepts for the dense operands, with torch's shape; operands of
   different sizes are ALWAYS refused; on operands of the same size it is exact. *)
Theorem C19_constdiag_add_guard : forall x y n m,
  (forall s, gen_constdiag_add (x ++ [n; n]) (y ++ [m; m]) = Ok s ->
             torch_elementwise_shape (x ++ [n; n]) (y ++ [m; m]) = Some s) /\
  (n <> m -> gen_constdiag_add (x ++ [n; n]) (y ++ [m; m]) = Raise) /\
  gen_constdiag_add (x ++ [n; n]) (y ++ [n; n]) = lift (torch_elementwise_shape (x ++ [n; n]) (y ++ [n; n])).
Proof.
  intros x y n m. rewrite !gen_constdiag_add_eq. split; [|split].
  - intro s. apply constdiag_add_sound.
  - apply constdiag_add_rejects_sizes.
  - apply constdiag_add_same_size.
Qed.

(* the same for the function TRANSLATED from ConstantDiagLinearOperator._mul_matrix (ConstantDiagLinearOperator operand) *)
Theorem C19_constdiag_mul_guard : forall x y n m,
  (forall s, gen_constdiag_mul_matrix (x ++ [n; n]) (y ++ [m; m]) = Ok s ->
             torch_elementwise_shape (x ++ [n; n]) (y ++ [m; m]) = Some s) /\
  (n <> m -> gen_constdiag_mul_matrix (x ++ [n; n]) (y ++ [m; m]) = Raise).
Proof.
  intros x y n m. rewrite !gen_constdiag_mul_matrix_eq. split.
  - intro s. apply constdiag_mul_matrix_sound.
  - apply constdiag_mul_matrix_rejects_sizes.
Qed.

(* DiagLinearOperator + DiagLinearOperator (TRANSLATED from DiagLinearOperator.__add__ and .add_diagonal) is EXACT: it
   raises precisely when torch refuses the two dense matrices and otherwise returns torch's shape — all batches, all sizes *)
Theorem C19_diag_add_exact : forall x y n m,
  gen_diag_add (x ++ [n; n]) (y ++ [m; m]) = lift (torch_elementwise_shape (x ++ [n; n]) (y ++ [m; m])).
Proof. intros. rewrite gen_diag_add_eq. apply diag_add_exact. Qed.

(* DiagLinearOperator.add_diagonal(tensor): whatever passes is a diagonal that broadcasts against shape[:-1] *)
Theorem C19_diag_add_diagonal_guard_sufficient : forall a d s,
  gen_diag_add_diagonal a d = Ok s -> torch_broadcast (py_slice_to a (-1)) d <> None.
Proof. intros a d s. rewrite gen_diag_add_diagonal_eq. apply diag_add_diagonal_sound. Qed.

(* composed: whenever torch refuses two (batches of) square operands, every translated operator-operand override raises
   (ConstantDiag + ConstantDiag, ConstantDiag * ConstantDiag, Diag + Diag, Dense + Dense, Zero * x) *)
Theorem C19_operator_operand_overrides_raise : forall x y n m,
  torch_elementwise_shape (x ++ [n; n]) (y ++ [m; m]) = None ->
  gen_constdiag_add (x ++ [n; n]) (y ++ [m; m]) = Raise /\
  gen_constdiag_mul_matrix (x ++ [n; n]) (y ++ [m; m]) = Raise /\
  gen_diag_add (x ++ [n; n]) (y ++ [m; m]) = Raise /\
  gen_dense_add (x ++ [n; n]) (y ++ [m; m]) = Raise /\
  gen_zero_mul (x ++ [n; n]) (y ++ [m; m]) = Raise.
Proof.
  intros x y n m H.
  rewrite gen_constdiag_add_eq, gen_constdiag_mul_matrix_eq, gen_diag_add_eq, gen_dense_add_eq, gen_zero_mul_eq.
  apply operator_operand_overrides_raise. exact H.
Qed.

(* operands of ANY kind (tensors and operators): if every path of c.<e> in the unrestricted regenerated table passes the
   exact guard, no shape torch refuses reaches a return (matmul / rmatmul of every class without its own override) *)
Theorem C19_no_silent_broadcast_any_operand : forall c e a b, 2 <= length a ->
  row_exact FUEL table c e = true -> spec_shape e a b = None -> ~ can_return FUEL table c e a b.
Proof. exact no_silent_broadcast_table_all. Qed.

(* FINITE TABLE (regenerated): every path of a binary entry point (matmul, rmatmul, __add__, __sub__, mul, add_diagonal)
   of any class that returns self or the operand UNCHANGED has passed the exact guard of its entry point, except the
   fast paths listed in GenProofs.pinned_fastpaths (a new fast path, or a check moved behind one, breaks the proof);
   and the matmul / rmatmul cells that let some operand kind past the guard are the pinned overrides *)
Theorem C19_fastpaths_within_pinned :
  forallb (fun f => fastpath_guarded f || existsb (fastpath_same f) pinned_fastpaths) fastpaths = true /\
  forallb (fun ce => mem_cell ce pinned_unguarded_exact) unguarded_all_matmul_cells = true.
Proof. split; [exact fastpaths_within_pinned | exact unguarded_all_matmul_within_pinned]. Qed.

(* ... and the full-strength statement is FALSE of the pinned fast paths: A + Zero returns A, A * Zero returns the
   operand, Zero + A returns A, for all sizes n <> m (neither 1) and all batches *)
Theorem C19_zero_operand_fastpaths_refuted : forall x y n m, n <> m -> n <> 1 -> m <> 1 ->
  torch_elementwise_shape (x ++ [n; n]) (y ++ [m; m]) = None /\
  pinned_add_zero_operand (x ++ [n; n]) (y ++ [m; m]) = Ok (x ++ [n; n]) /\
  pinned_mul_zero_operand (x ++ [n; n]) (y ++ [m; m]) = Ok (y ++ [m; m]) /\
  pinned_zero_add (x ++ [n; n]) (y ++ [m; m]) = Ok (y ++ [m; m]).
Proof. intros. apply add_zero_operand_refuted; assumption. Qed.

(* FINITE (regenerated): the `_matmul` / `_t_matmul` closures and `_size` methods that call _matmul_broadcast_shape
   themselves on the pinned tree still do — they are the only shape check on the CG route of the generic solve, which hands
   `self._matmul` to linear_cg without a check of its own for 2-D right-hand sides *)
(* FINITE (regenerated): the 30 classes whose `solve` calls _matmul_broadcast_shape on the right-hand side on some path (base
   class since the solve-rhs fix, Identity, Kronecker triangular, LowRankRootAddedDiag) still do — also where a check further down
   would still catch the bad right-hand side (LowRankRootAddedDiag: DiagLinearOperator.solve inside the Woodbury formula) *)
Theorem C19_solve_rhs_guards_kept : forallb solve_has_mm pinned_solve_mm_classes = true.
Proof. exact solve_guards_kept. Qed.

Theorem C19_matmul_closure_guards_kept :
  forallb (fun h => existsb (String.eqb h) helper_guards) pinned_helper_guards = true.
Proof. exact helper_guards_kept. Qed.

(* ---- pinned overrides that skip the base check: the full-strength statement is FALSE of them ------------- *)

Theorem C19_diag_matmul_size1_inner_refuted : forall n p, n <> 1 ->
  torch_matmul_shape [n; n] [1; p] = None /\ pinned_diag_matmul [n; n] [1; p] = Ok [n; p].
Proof. exact diag_matmul_size1_inner_refuted. Qed.

Theorem C19_diag_matmul_size1_vector_refuted : forall n, n <> 1 ->
  torch_matmul_shape [n; n] [1] = None /\ pinned_diag_matmul [n; n] [1] = Ok [n].
Proof. exact diag_matmul_size1_vector_refuted. Qed.

(* ... while on every operand torch ACCEPTS the pinned Diag.matmul returns exactly torch's shape (all batches, all ranks):
   the defect is confined to operands torch refuses *)
Theorem C19_diag_matmul_valid_agrees : forall p n b s,
  torch_matmul_shape (p ++ [n; n]) b = Some s -> pinned_diag_matmul (p ++ [n; n]) b = Ok s.
Proof. exact diag_matmul_valid_agrees. Qed.

Theorem C19_identity_matmul_wrong_inner_refuted : forall n m p, m <> n ->
  torch_matmul_shape [n; n] [m; p] = None /\ pinned_identity_matmul [n; n] [m; p] = Ok [m; p].
Proof. exact identity_matmul_wrong_inner_refuted. Qed.

Theorem C19_zero_add_refuted : exists a b, torch_elementwise_shape a b = None /\ pinned_zero_add a b = Ok b.
Proof. exact zero_add_refuted. Qed.

Theorem C19_zero_matmul_batch_refuted : exists a b s, torch_matmul_shape a b = None /\ pinned_zero_matmul a b = Ok s.
Proof. exact zero_matmul_batch_refuted. Qed.

(* ... but not for dim = rank: the pinned constructor maps it to 0 before the check *)
Theorem C19_cat_dim_out_of_range_refuted : exists ops d, torch_cat ops d = None /\ lib_cat_init ops d = Ok tt.
Proof. exact cat_dim_out_of_range_refuted. Qed.

Theorem C19_expand_batch_nonsingleton_refuted : exists a sizes s,
  torch_expand a sizes = None /\
  bind (lib_expand_check a sizes) (fun bt => lib_expand_batch_base (py_slice_to a (-2)) bt) = Ok s.
Proof. exact expand_batch_nonsingleton_refuted. Qed.

(* ---- non-vacuity ------------------------------------------------------------------------------------------ *)

(* the guard hypothesis of C19_no_silent_broadcast holds for concrete cells of the regenerated table, torch refuses
   the concrete shapes, and the guard really raises on them *)
Example C19_nonvacuous_guarded :
  row_exact FUEL (restrict_tensor table) "ToeplitzLinearOperator" E_matmul = true /\
  row_exact FUEL (restrict_tensor table) "KroneckerProductLinearOperator" E_rmatmul = true /\
  row_exact FUEL (restrict_tensor table) "SumLinearOperator" E_sub = true /\
  spec_shape E_matmul [2; 3; 3] [1; 2] = None /\
  gen_matmul_broadcast_shape [2; 3; 3] [1; 2] = Raise /\
  gen_matmul_broadcast_shape [2; 3; 3] [5; 3; 4] = Raise /\
  gen_matmul_broadcast_shape [2; 3; 3] [1; 3; 4] = Ok [2; 3; 4].
Proof. repeat split; vm_compute; reflexivity. Qed.

Example C19_nonvacuous_square :
  row_square FUEL table "DenseLinearOperator" E_solve = true /\ lib_is_square [2; 3; 4] <> Ok true.
Proof. split; [vm_compute; reflexivity | vm_compute; discriminate]. Qed.

Example C19_nonvacuous_getitem :
  int_oob [2; 3; 3] [ISlice 2; ITensor DInt32 [2] [0; 1]%Z; ITensor DInt32 [2] [0; 3]%Z] = true /\
  gen_getitem_tensor_check true DInt32 3 [0; 3]%Z = Raise /\ gen_getitem_tensor_check true DInt32 3 [0; -3]%Z = Ok tt /\
  int_oob [2; 3; 3] [ISlice 2; IInt 3; ISlice 3] = true /\
  int_oob [2; 3; 3] [ISlice 2; IInt (-4); ISlice 3] = true /\
  lib_compute_getitem_size true [2; 3; 3] [ISlice 2; IInt (-3); ISlice 3] = Ok [2; 3].
Proof. repeat split; vm_compute; reflexivity. Qed.

(* operator operands: the hypotheses are satisfiable — concrete refused / accepted pairs of the seeded kind, and guarded
   cells of the unrestricted table *)
Example C19_nonvacuous_operator_operands :
  torch_elementwise_shape [4; 4] [3; 3] = None /\
  gen_constdiag_add [4; 4] [3; 3] = Raise /\ gen_constdiag_add [2; 4; 4] [2; 3; 3] = Raise /\
  gen_constdiag_add [2; 4; 4] [4; 4] = Ok [2; 4; 4] /\ gen_constdiag_add [2; 4; 4] [3; 4; 4] = Raise /\
  gen_diag_add [3; 3] [2; 3; 3] = Ok [2; 3; 3] /\ gen_diag_add [3; 3] [4; 4] = Raise /\
  row_exact FUEL table "ToeplitzLinearOperator" E_matmul = true /\
  row_exact FUEL table "SumLinearOperator" E_rmatmul = true /\
  fastpaths <> [].
Proof. repeat split; try (vm_compute; reflexivity). vm_compute. discriminate. Qed.
