(* C19 — proofs about the shape rules: broadcasting (executable rule = declarative rule, all ranks),
   the library's _matmul_broadcast_shape = torch.matmul's rule (all ranks of both operands),
   rmatmul's transposition. *)
From Coq Require Import String.
From Coq Require Import List ZArith Bool Arith Lia.
Import ListNotations.
Require Import C19.Model.
Open Scope nat_scope.

(* ------------------------------------------------------------------------------------ *)
(** ** one dimension *)

Lemma bdim_comm : forall x y, bdim x y = bdim y x.
Proof.
  intros x y. unfold bdim.
  destruct (Nat.eqb_spec x y), (Nat.eqb_spec y x), (Nat.eqb_spec x 1), (Nat.eqb_spec y 1);
    subst; try reflexivity; try congruence.
Qed.

Lemma bdim_1_l : forall y, bdim 1 y = Some y.
Proof. intro y. unfold bdim. destruct (Nat.eqb_spec 1 y); subst; reflexivity. Qed.
Lemma bdim_1_r : forall x, bdim x 1 = Some x.
Proof. intro x. rewrite bdim_comm. apply bdim_1_l. Qed.

(* the rule, spelled out: equal, or one side is 1; the result is the other side *)
Lemma bdim_some : forall x y d, bdim x y = Some d <-> (x = y /\ d = x) \/ (x = 1 /\ d = y) \/ (y = 1 /\ d = x).
Proof.
  intros x y d. unfold bdim.
  destruct (Nat.eqb_spec x y); [|destruct (Nat.eqb_spec x 1); [|destruct (Nat.eqb_spec y 1)]].
  all: split; [intro H; try discriminate; injection H as H; lia | intro H; try (exfalso; lia); f_equal; lia].
Qed.
Lemma bdim_none : forall x y, bdim x y = None <-> (x <> y /\ x <> 1 /\ y <> 1).
Proof.
  intros x y. unfold bdim.
  destruct (Nat.eqb_spec x y); [|destruct (Nat.eqb_spec x 1); [|destruct (Nat.eqb_spec y 1)]];
    split; intro H; try discriminate; try tauto; try (destruct H as (?&?&?); congruence).
Qed.

(* ------------------------------------------------------------------------------------ *)
(** ** right-aligned rule on reversed shapes *)

Lemma nth_nil1 : forall i, nth i (@nil nat) 1 = 1.
Proof. destruct i; reflexivity. Qed.

Lemma bc_rev_nil_r : forall a, bc_rev a [] = Some a.
Proof. destruct a; reflexivity. Qed.

Lemma bc_rev_comm : forall a b, bc_rev a b = bc_rev b a.
Proof.
  induction a as [|x a IH]; intros [|y b]; simpl; try reflexivity.
  rewrite bdim_comm, IH. reflexivity.
Qed.

Lemma bc_rev_length : forall a b r, bc_rev a b = Some r -> length r = Nat.max (length a) (length b).
Proof.
  induction a as [|x a IH]; intros [|y b] r H; simpl in *; try (injection H as <-; simpl; lia).
  destruct (bdim x y); try discriminate. destruct (bc_rev a b) eqn:E; try discriminate.
  injection H as <-. simpl. rewrite (IH _ _ E). reflexivity.
Qed.

Lemma bc_rev_sound : forall a b r, bc_rev a b = Some r -> forall i, bdim (nth i a 1) (nth i b 1) = Some (nth i r 1).
Proof.
  induction a as [|x a IH]; intros [|y b] r H i; simpl in H.
  - injection H as <-. destruct i; apply bdim_1_l.
  - injection H as <-. rewrite nth_nil1. apply bdim_1_l.
  - injection H as <-. rewrite nth_nil1. apply bdim_1_r.
  - destruct (bdim x y) eqn:D; try discriminate. destruct (bc_rev a b) eqn:E; try discriminate.
    injection H as <-. destruct i; simpl; [exact D | apply (IH _ _ E)].
Qed.

Lemma nth_ext1 : forall (l l' : list nat), length l = length l' -> (forall i, nth i l 1 = nth i l' 1) -> l = l'.
Proof. intros l l' HL H. apply (nth_ext l l' 1 1 HL). intros i _. apply H. Qed.

Lemma bc_rev_complete : forall a b r, length r = Nat.max (length a) (length b) ->
  (forall i, bdim (nth i a 1) (nth i b 1) = Some (nth i r 1)) -> bc_rev a b = Some r.
Proof.
  induction a as [|x a IH]; intros b r HL H.
  - simpl. f_equal. apply nth_ext1; [simpl in HL; lia|].
    intro i. specialize (H i). rewrite nth_nil1 in H.
    rewrite bdim_1_l in H. congruence.
  - destruct b as [|y b].
    + simpl. f_equal. apply nth_ext1; [simpl in *; lia|].
      intro i. specialize (H i). rewrite nth_nil1 in H.
      rewrite bdim_1_r in H. congruence.
    + destruct r as [|d r]; [simpl in HL; lia|].
      simpl. pose proof (H 0) as H0. simpl in H0. rewrite H0.
      rewrite (IH b r); [reflexivity| simpl in HL; lia |].
      intro i. apply (H (S i)).
Qed.

Lemma bc_rev_none : forall a b, bc_rev a b = None <-> exists i, bdim (nth i a 1) (nth i b 1) = None.
Proof.
  induction a as [|x a IH]; intros [|y b]; cbn [bc_rev].
  - split; [discriminate|]. intros [i H]. rewrite nth_nil1, bdim_1_l in H. discriminate.
  - split; [discriminate|]. intros [i H]. rewrite nth_nil1 in H.
    rewrite bdim_1_l in H. discriminate.
  - split; [discriminate|]. intros [i H]. rewrite nth_nil1 in H.
    rewrite bdim_1_r in H. discriminate.
  - destruct (bdim x y) eqn:D.
    + destruct (bc_rev a b) eqn:E.
      * split; [discriminate|]. intros [[|i] H]; simpl in H; [congruence|].
        assert (bc_rev a b = None) by (apply IH; eauto). congruence.
      * split; [|reflexivity]. intros _. destruct (proj1 (IH b) E) as [i Hi]. exists (S i). exact Hi.
    + split; [|reflexivity]. intros _. exists 0. exact D.
Qed.

(* ------------------------------------------------------------------------------------ *)
(** ** torch.broadcast_shapes *)

Theorem torch_broadcast_comm : forall a b, torch_broadcast a b = torch_broadcast b a.
Proof. intros. unfold torch_broadcast. rewrite bc_rev_comm. reflexivity. Qed.

(* the executable rule computes exactly the declarative one, for shapes of any ranks *)
Theorem torch_broadcast_spec : forall a b r, torch_broadcast a b = Some r <-> Bcast a b r.
Proof.
  intros a b r. unfold torch_broadcast, Bcast, rdim. split.
  - destruct (bc_rev (rev a) (rev b)) as [q|] eqn:E; simpl; try discriminate.
    intro H. injection H as <-. rewrite rev_involutive, rev_length.
    split; [rewrite (bc_rev_length _ _ _ E), !rev_length; reflexivity | apply (bc_rev_sound _ _ _ E)].
  - intros [HL H]. rewrite (bc_rev_complete (rev a) (rev b) (rev r)); simpl.
    + rewrite rev_involutive. reflexivity.
    + rewrite !rev_length. exact HL.
    + exact H.
Qed.

Theorem torch_broadcast_rejects : forall a b,
  torch_broadcast a b = None <-> exists i, rdim a i <> rdim b i /\ rdim a i <> 1 /\ rdim b i <> 1.
Proof.
  intros a b. unfold torch_broadcast, rdim.
  destruct (bc_rev (rev a) (rev b)) eqn:E; simpl.
  - split; [discriminate|]. intros [i H]. apply bdim_none in H.
    assert (bc_rev (rev a) (rev b) = None) by (apply bc_rev_none; eauto). congruence.
  - split; [|reflexivity]. intros _. apply bc_rev_none in E. destruct E as [i H]. exists i. apply bdim_none. exact H.
Qed.

Lemma torch_broadcast_nil_l : forall b, torch_broadcast [] b = Some b.
Proof. intro b. unfold torch_broadcast. simpl. rewrite rev_involutive. reflexivity. Qed.
Lemma torch_broadcast_nil_r : forall a, torch_broadcast a [] = Some a.
Proof. intro a. rewrite torch_broadcast_comm. apply torch_broadcast_nil_l. Qed.

(* ------------------------------------------------------------------------------------ *)
(** ** Python indexing on lists written  prefix ++ [last dims] *)

Lemma rev_is_nil : forall (l : shape), rev l = [] -> l = [].
Proof. intros l H. rewrite <- (rev_involutive l), H. reflexivity. Qed.
Lemma rev_is_1 : forall (l : shape) n, rev l = [n] -> l = [n].
Proof. intros l n H. rewrite <- (rev_involutive l), H. reflexivity. Qed.
Lemma rev_is_2 : forall (l : shape) n m r, rev l = n :: m :: r -> l = rev r ++ [m; n].
Proof. intros l n m r H. rewrite <- (rev_involutive l), H. simpl. rewrite <- app_assoc. reflexivity. Qed.

Lemma py_idx_nil : forall i, py_idx [] i = Raise.
Proof.
  intro i. unfold py_idx. simpl.
  destruct (i <? 0)%Z eqn:E.
  - replace ((i + 0 <? 0)%Z) with true by (symmetry; apply Z.ltb_lt; apply Z.ltb_lt in E; lia). reflexivity.
  - apply Z.ltb_ge in E. replace ((0 <=? i)%Z) with true by (symmetry; apply Z.leb_le; lia).
    rewrite orb_true_r. reflexivity.
Qed.

Lemma py_idx_m1 : forall p n, py_idx (p ++ [n]) (-1) = Ok n.
Proof.
  intros p n. unfold py_idx. rewrite app_length. simpl length.
  replace ((-1 <? 0)%Z) with true by reflexivity.
  set (j := (-1 + Z.of_nat (length p + 1))%Z).
  assert (Hj : j = Z.of_nat (length p)) by (unfold j; lia).
  rewrite Hj.
  replace ((Z.of_nat (length p) <? 0)%Z) with false by (symmetry; apply Z.ltb_ge; lia).
  replace ((Z.of_nat (length p + 1) <=? Z.of_nat (length p))%Z) with false by (symmetry; apply Z.leb_gt; lia).
  simpl. rewrite Nat2Z.id, nth_error_app2, Nat.sub_diag by lia. reflexivity.
Qed.

Lemma py_idx_m2 : forall p m n, py_idx (p ++ [m; n]) (-2) = Ok m.
Proof.
  intros p m n. unfold py_idx. rewrite app_length. simpl length.
  replace ((-2 <? 0)%Z) with true by reflexivity.
  set (j := (-2 + Z.of_nat (length p + 2))%Z).
  assert (Hj : j = Z.of_nat (length p)) by (unfold j; lia).
  rewrite Hj.
  replace ((Z.of_nat (length p) <? 0)%Z) with false by (symmetry; apply Z.ltb_ge; lia).
  replace ((Z.of_nat (length p + 2) <=? Z.of_nat (length p))%Z) with false by (symmetry; apply Z.leb_gt; lia).
  simpl. rewrite Nat2Z.id, nth_error_app2, Nat.sub_diag by lia. reflexivity.
Qed.

Lemma py_idx_m1' : forall p m n, py_idx (p ++ [m; n]) (-1) = Ok n.
Proof. intros. replace (p ++ [m; n]) with ((p ++ [m]) ++ [n]) by (rewrite <- app_assoc; reflexivity). apply py_idx_m1. Qed.

Lemma py_idx_m2_short : forall n, py_idx [n] (-2) = Raise.
Proof. reflexivity. Qed.

Lemma py_slice_to_m1 : forall p n, py_slice_to (p ++ [n]) (-1) = p.
Proof.
  intros p n. unfold py_slice_to, py_clamp. rewrite app_length. simpl length.
  replace ((-1 <? 0)%Z) with true by reflexivity.
  replace (Z.to_nat (Z.max 0 (-1 + Z.of_nat (length p + 1)))) with (length p) by lia.
  rewrite firstn_app, Nat.sub_diag, firstn_all. simpl. apply app_nil_r.
Qed.

Lemma py_slice_to_m2 : forall p m n, py_slice_to (p ++ [m; n]) (-2) = p.
Proof.
  intros p m n. unfold py_slice_to, py_clamp. rewrite app_length. simpl length.
  replace ((-2 <? 0)%Z) with true by reflexivity.
  replace (Z.to_nat (Z.max 0 (-2 + Z.of_nat (length p + 2)))) with (length p) by lia.
  rewrite firstn_app, Nat.sub_diag, firstn_all. simpl. apply app_nil_r.
Qed.

Lemma py_slice_to_m1' : forall p m n, py_slice_to (p ++ [m; n]) (-1) = p ++ [m].
Proof. intros. replace (p ++ [m; n]) with ((p ++ [m]) ++ [n]) by (rewrite <- app_assoc; reflexivity). apply py_slice_to_m1. Qed.

Lemma py_slice_from_m2 : forall p m n, py_slice_from (p ++ [m; n]) (-2) = [m; n].
Proof.
  intros p m n. unfold py_slice_from, py_clamp. rewrite app_length. simpl length.
  replace ((-2 <? 0)%Z) with true by reflexivity.
  replace (Z.to_nat (Z.max 0 (-2 + Z.of_nat (length p + 2)))) with (length p) by lia.
  rewrite skipn_app, Nat.sub_diag, skipn_all. reflexivity.
Qed.

(* ------------------------------------------------------------------------------------ *)
(** ** _matmul_broadcast_shape = torch.matmul's rule *)

Lemma len2_rev : forall (a : shape), 2 <= length a -> exists n m r, rev a = n :: m :: r.
Proof.
  intros a H. rewrite <- rev_length in H. destruct (rev a) as [|n [|m r]]; simpl in H; try lia. eauto.
Qed.

(* For every operator shape (rank >= 2) and EVERY operand shape (any rank, including 0-d and 1-D):
   the library's check raises exactly when torch.matmul refuses, and otherwise returns torch's result shape. *)
Theorem lib_matmul_shape_exact : forall a b, 2 <= length a ->
  lib_matmul_broadcast_shape a b = lift (torch_matmul_shape a b).
Proof.
  intros a b Ha. destruct (len2_rev a Ha) as (n & m & aa & Ea).
  pose proof (rev_is_2 _ _ _ _ Ea) as ->.
  unfold lib_matmul_broadcast_shape, torch_matmul_shape. rewrite Ea.
  rewrite py_idx_m2, py_idx_m1'. simpl bind.
  destruct (rev b) as [|p [|k bb]] eqn:Eb.
  - apply rev_is_nil in Eb. subst b. rewrite py_idx_nil. reflexivity.
  - apply rev_is_1 in Eb. subst b. simpl.
    destruct (Nat.eqb_spec n p); simpl; [|reflexivity].
    rewrite py_slice_to_m1'. reflexivity.
  - pose proof (rev_is_2 _ _ _ _ Eb) as ->.
    rewrite py_idx_m1'. simpl bind.
    replace (length (rev bb ++ [k; p]) =? 1) with false
      by (symmetry; apply Nat.eqb_neq; rewrite app_length; simpl; lia).
    rewrite py_idx_m2. simpl bind.
    destruct (Nat.eqb_spec n k); simpl; [|reflexivity].
    rewrite !py_slice_to_m2.
    destruct (torch_broadcast (rev aa) (rev bb)); reflexivity.
Qed.

Corollary lib_matmul_accepts_iff : forall a b, 2 <= length a ->
  (is_ok (lib_matmul_broadcast_shape a b) = true <-> torch_matmul_shape a b <> None).
Proof.
  intros a b Ha. rewrite (lib_matmul_shape_exact a b Ha).
  destruct (torch_matmul_shape a b); simpl; split; congruence.
Qed.

Lemma lib_matmul_low_rank : forall a b, length a < 2 -> lib_matmul_broadcast_shape a b = Raise.
Proof.
  intros [|x [|y a]] b H; simpl in H; try lia; reflexivity.
Qed.

(* what the rule says in words, for matrix operands: inner dimensions must be EQUAL (a size-1 inner dimension
   is not broadcast), batch dimensions must broadcast *)
Theorem torch_matmul_matrix_rule : forall aa m n bb k p,
  torch_matmul_shape (aa ++ [m; n]) (bb ++ [k; p]) =
  if n =? k then option_map (fun bt => bt ++ [m; p]) (torch_broadcast aa bb) else None.
Proof.
  intros. unfold torch_matmul_shape. rewrite !rev_app_distr. simpl. rewrite !rev_involutive. reflexivity.
Qed.
Theorem torch_matmul_vector_rule : forall aa m n p,
  torch_matmul_shape (aa ++ [m; n]) [p] = if n =? p then Some (aa ++ [m]) else None.
Proof.
  intros. unfold torch_matmul_shape. rewrite !rev_app_distr. simpl. rewrite !rev_involutive. reflexivity.
Qed.

(* ------------------------------------------------------------------------------------ *)
(** ** is_square *)

Lemma lib_is_square_app : forall p m n, lib_is_square (p ++ [m; n]) = Ok (m =? n).
Proof. intros. unfold lib_is_square. rewrite py_slice_from_m2. reflexivity. Qed.

Lemma lib_is_square_true : forall a, lib_is_square a = Ok true <-> exists p n, a = p ++ [n; n].
Proof.
  intro a. split.
  - intro H. destruct (le_lt_dec 2 (length a)) as [L|L].
    + destruct (len2_rev a L) as (n & m & r & E). pose proof (rev_is_2 _ _ _ _ E) as ->.
      rewrite lib_is_square_app in H. injection H as H. apply Nat.eqb_eq in H. subst. eauto.
    + destruct a as [|x [|y a]]; simpl in L; try lia; discriminate.
  - intros (p & n & ->). rewrite lib_is_square_app, Nat.eqb_refl. reflexivity.
Qed.

(* ------------------------------------------------------------------------------------ *)
(** ** rmatmul:  other @ A  is computed as  (A.mT @ other.mT).mT  (1-D other: A.mT @ other) *)

Lemma shape_mT_app : forall p m n, shape_mT (p ++ [m; n]) = Ok (p ++ [n; m]).
Proof. intros. unfold shape_mT. rewrite rev_app_distr. simpl. rewrite rev_involutive. reflexivity. Qed.

Theorem rmatmul_transposition_exact : forall a b a' b', 2 <= length a ->
  transform E_rmatmul E_matmul a b = Some (a', b') ->
  2 <= length a' /\ (torch_matmul_shape a' b' = None <-> torch_matmul_shape b a = None).
Proof.
  intros a b a' b' Ha. destruct (len2_rev a Ha) as (n & m & aa & Ea).
  pose proof (rev_is_2 _ _ _ _ Ea) as ->. unfold transform. rewrite shape_mT_app.
  destruct (length b =? 1) eqn:L1.
  - intro H. injection H as <- <-. apply Nat.eqb_eq in L1.
    destruct b as [|p [|? ?]]; simpl in L1; try lia.
    split; [rewrite app_length; simpl; lia|].
    rewrite torch_matmul_vector_rule.
    unfold torch_matmul_shape. rewrite rev_app_distr. simpl.
    rewrite (Nat.eqb_sym p m). destruct (m =? p); split; congruence.
  - destruct (shape_mT b) as [bT|] eqn:EbT; [|discriminate].
    intro H. injection H as <- <-.
    split; [rewrite app_length; simpl; lia|].
    unfold shape_mT in EbT. destruct (rev b) as [|p [|k bb]] eqn:Eb; try discriminate.
    { injection EbT as <-. apply rev_is_nil in Eb. subst b.
      unfold torch_matmul_shape. simpl. destruct (rev (rev aa ++ [n; m])) as [|? [|? ?]]; split; reflexivity. }
    injection EbT as <-. pose proof (rev_is_2 _ _ _ _ Eb) as ->.
    rewrite !torch_matmul_matrix_rule. rewrite (Nat.eqb_sym p m), (torch_broadcast_comm (rev bb) (rev aa)).
    destruct (m =? p); [|tauto].
    destruct (torch_broadcast (rev aa) (rev bb)); simpl; split; congruence.
Qed.

(* the delegation itself never raises for an operator of rank >= 2 (x.mT is refused for 1-D tensors only, and those
   take the other branch) *)
Lemma rmatmul_transform_some : forall a b, 2 <= length a -> transform E_rmatmul E_matmul a b <> None.
Proof.
  intros a b Ha. destruct (len2_rev a Ha) as (n & m & aa & Ea).
  pose proof (rev_is_2 _ _ _ _ Ea) as ->. unfold transform. rewrite shape_mT_app.
  destruct (length b =? 1) eqn:L1; [discriminate|].
  unfold shape_mT. destruct (rev b) as [|p [|k bb]] eqn:Eb; try discriminate.
  apply rev_is_1 in Eb. subst. discriminate.
Qed.
